/-
Fuel audit of the parser loops, part 3: data_psi.go and the table parsers (`loopUntil`, `parsePSISections`).
-/
import Astits.Proofs.ParserFuel.Desc
import Astits.Model.PSI
namespace Astits.ParserFuel

theorem fuelOf_run (i : It) : fuelOf i = .ok (i.bs.length + 1, i) := rfl
theorem Getter.fuelOf : Getter Astits.fuelOf := fun _ => ⟨_, rfl⟩
theorem Mono.fuelOf : Mono Astits.fuelOf := Getter.fuelOf.mono
theorem Keeps.fuelOf : Keeps Astits.fuelOf := Mono.fuelOf.keeps
macro_rules | `(tactic| pf_leaf) => `(tactic| exact Mono.fuelOf)
macro_rules | `(tactic| pf_leaf) => `(tactic| exact Keeps.fuelOf)

/-! ### `loopUntil` is the generic `for` loop, for every body -/

theorem loopUntil_eq {α} (n : Nat) (e : Int) (body : P α) :
    loopUntil n e body = iter P.fail (forStep e body []) List.cons n := by
  induction n with
  | zero => rfl
  | succ n ih =>
    rw [iter_forStep_succ, ← ih, loopUntil]

theorem Keeps_loopUntil {α} {n : Nat} {e : Int} {body : P α} (h : Keeps body) : Keeps (loopUntil n e body) := by
  rw [loopUntil_eq]; exact Keeps.iter _ (Keeps.fail _) (Keeps.forStep e [] h) n
theorem Mono_loopUntil {α} {n : Nat} {e : Int} {body : P α} (h : Mono body) : Mono (loopUntil n e body) := by
  rw [loopUntil_eq]; exact Mono.iter _ (Mono.fail _) (Mono.forStep e [] h) n

/-- the exhaustion-reporting `loopUntil` -/
def loopUntilX {α} (fuel : Nat) (endOff : Int) (body : PX α) : PX (List α) := forX endOff body [] List.cons fuel

theorem erase_loopUntilX {α} (n : Nat) (e : Int) (body : PX α) :
    erase (loopUntilX n e body) = loopUntil n e (erase body) := by
  rw [loopUntilX, erase_forX, loopUntil_eq]

/-- NEVER EXHAUSTED: `loopUntil` with any body that never reports exhaustion and makes progress -/
theorem loopUntilX_not_exhausted {α} (e : Int) {body : PX α} (hn : NX body) (hp : Rd (erase body) 1)
    (n : Nat) (i : It) (h : rem i < n) : loopUntilX n e body i ≠ .exhausted :=
  forX_not_exhausted e [] _ hn hp n i h

/-! ### the five table loops: bodies, progress -/

def patBody : P PATProgram := do
  let bs ← It.nextBytes 4
  pure ({ programMapID := (bs.getD 2 0 % 32) * 256 + bs.getD 3 0, programNumber := u16 bs } : PATProgram)

def pmtBody : P PMTElementaryStream := do
  let st ← It.nextByte
  let bs ← It.nextBytes 2
  let ds ← parseDescriptors
  pure ({ elementaryPID := u13 bs, elementaryStreamDescriptors := ds, streamType := st } : PMTElementaryStream)

def sdtBody : P SDTDataService := do
  let bs ← It.nextBytes 2
  let b ← It.nextByte
  let c ← It.nextByte
  It.skip (-1)
  let ds ← parseDescriptors
  pure ({ descriptors := ds, hasEITPresentFollowing := b % 2 = 1, hasEITSchedule := b / 2 % 2 = 1,
          hasFreeCSAMode := c / 16 % 2 = 1, runningStatus := c / 32, serviceID := u16 bs } : SDTDataService)

def nitBody : P NITDataTransportStream := do
  let a ← It.nextBytes 2
  let b ← It.nextBytes 2
  let ds ← parseDescriptors
  pure ({ originalNetworkID := u16 b, transportDescriptors := ds, transportStreamID := u16 a } : NITDataTransportStream)

def eitBody : P EITDataEvent := do
  let bs ← It.nextBytes 2
  let st ← parseDVBTime
  let du ← parseDVBDurationSeconds
  let c ← It.nextByte
  It.skip (-1)
  let ds ← parseDescriptors
  pure ({ descriptors := ds, duration := du, eventID := u16 bs, hasFreeCSAMode := c / 16 % 2 = 1,
          runningStatus := c / 32, startTime := st } : EITDataEvent)

theorem Rd_patBody : Rd patBody 1 := Rd.bind_mono (Rd.nextBytes 4 (by omega)) (fun _ => Mono.pure _)
theorem Rd_pmtBody : Rd pmtBody 1 := by
  unfold pmtBody; exact Rd.bind_mono Rd.nextByte (fun _ => by pf_auto)
theorem Rd_nitBody : Rd nitBody 1 := by
  unfold nitBody; exact Rd.bind_mono (Rd.nextBytes 2 (by omega)) (fun _ => by pf_auto)
/-- two bytes, a flag byte, then a byte that is read and stepped back over (`Skip(-1)`), then the descriptors -/
theorem Rd_sdtBody : Rd sdtBody 1 := by
  unfold sdtBody
  exact Rd.mono (Rd.bind (Rd.nextBytes' 2 (by omega)) (fun _ => Adv.bind Adv.nextByte (fun _ =>
    Adv.bind Adv.nextByte (fun _ => Adv.bind (Adv.skip (-1)) (fun _ =>
      Adv.bind Mono_parseDescriptors (fun _ => Adv.pure _)))))) (by omega)
theorem Rd_eitBody : Rd eitBody 1 := by
  unfold eitBody
  exact Rd.mono (Rd.bind (Rd.nextBytes' 2 (by omega)) (fun _ => Adv.bind Mono_parseDVBTime (fun _ =>
    Adv.bind Mono_parseDVBDurationSeconds (fun _ => Adv.bind Adv.nextByte (fun _ => Adv.bind (Adv.skip (-1)) (fun _ =>
      Adv.bind Mono_parseDescriptors (fun _ => Adv.pure _))))))) (by omega)

/-! ### the table parsers leave the slice alone -/

theorem Keeps_patBody : Keeps patBody := Rd_patBody.adv.keeps
theorem Keeps_pmtBody : Keeps pmtBody := Rd_pmtBody.adv.keeps
theorem Keeps_sdtBody : Keeps sdtBody := Rd_sdtBody.adv.keeps
theorem Keeps_nitBody : Keeps nitBody := Rd_nitBody.adv.keeps
theorem Keeps_eitBody : Keeps eitBody := Rd_eitBody.adv.keeps

theorem Keeps_parsePATSection (e : Int) (x : Nat) : Keeps (parsePATSection e x) := by
  unfold parsePATSection
  refine Keeps.bind Keeps.fuelOf (fun _ => Keeps.bind (Keeps_loopUntil Keeps_patBody) (fun _ => Keeps.pure _))
macro_rules | `(tactic| pf_leaf) => `(tactic| exact Keeps_parsePATSection _ _)
theorem Keeps_parsePMTSection (e : Int) (x : Nat) : Keeps (parsePMTSection e x) := by
  unfold parsePMTSection
  refine Keeps.bind (Keeps.nextBytes _) (fun _ => Keeps.bind Keeps_parseDescriptors (fun _ => Keeps.bind Keeps.fuelOf (fun _ =>
    Keeps.bind (Keeps_loopUntil Keeps_pmtBody) (fun _ => Keeps.pure _))))
macro_rules | `(tactic| pf_leaf) => `(tactic| exact Keeps_parsePMTSection _ _)
theorem Keeps_parseSDTSection (e : Int) (x : Nat) : Keeps (parseSDTSection e x) := by
  unfold parseSDTSection
  refine Keeps.bind (Keeps.nextBytes _) (fun _ => Keeps.bind (Keeps.skip _) (fun _ => Keeps.bind Keeps.fuelOf (fun _ =>
    Keeps.bind (Keeps_loopUntil Keeps_sdtBody) (fun _ => Keeps.pure _))))
macro_rules | `(tactic| pf_leaf) => `(tactic| exact Keeps_parseSDTSection _ _)
theorem Keeps_parseNITSection (x : Nat) : Keeps (parseNITSection x) := by
  unfold parseNITSection
  refine Keeps.bind Keeps_parseDescriptors (fun _ => Keeps.bind (Keeps.nextBytes _) (fun _ => Keeps.bind Keeps.offset (fun _ =>
    Keeps.bind Keeps.fuelOf (fun _ => Keeps.bind (Keeps_loopUntil Keeps_nitBody) (fun _ => Keeps.pure _)))))
macro_rules | `(tactic| pf_leaf) => `(tactic| exact Keeps_parseNITSection _)
theorem Keeps_parseEITSection (e : Int) (x : Nat) : Keeps (parseEITSection e x) := by
  unfold parseEITSection
  refine Keeps.bind (Keeps.nextBytes _) (fun _ => Keeps.bind (Keeps.nextBytes _) (fun _ => Keeps.bind Keeps.nextByte (fun _ =>
    Keeps.bind Keeps.nextByte (fun _ => Keeps.bind Keeps.fuelOf (fun _ =>
      Keeps.bind (Keeps_loopUntil Keeps_eitBody) (fun _ => Keeps.pure _))))))
macro_rules | `(tactic| pf_leaf) => `(tactic| exact Keeps_parseEITSection _ _)
theorem Keeps_parseTOTSection : Keeps parseTOTSection := by unfold parseTOTSection; pf_auto
macro_rules | `(tactic| pf_leaf) => `(tactic| exact Keeps_parseTOTSection)
theorem Keeps_parsePSISectionSyntaxHeader : Keeps parsePSISectionSyntaxHeader := by
  unfold parsePSISectionSyntaxHeader; pf_auto
macro_rules | `(tactic| pf_leaf) => `(tactic| exact Keeps_parsePSISectionSyntaxHeader)
theorem Keeps_fun_panic {α} : Keeps (fun _ => .panic : P α) := fun i a i' h => by cases h
macro_rules | `(tactic| pf_leaf) => `(tactic| exact Keeps_fun_panic)
theorem Keeps_parsePSISectionSyntaxData (t : Nat) (sh : Option PSISectionSyntaxHeader) (e : Int) :
    Keeps (parsePSISectionSyntaxData t sh e) := by
  unfold parsePSISectionSyntaxData
  dsimp only
  refine Keeps.ite Keeps_fun_panic ?_
  pf_auto
macro_rules | `(tactic| pf_leaf) => `(tactic| exact Keeps_parsePSISectionSyntaxData _ _ _)

/-! ### `parsePSISection`: the progress of one iteration of the section loop

Whatever the section body parsers did (they may stop anywhere, the CRC check seeks backwards), a section that
is returned without error ends with `Seek(offsetEnd)`, `offsetEnd = start + 3 + section_length`; the stop case
(table id 0xff / unknown) has read one byte. -/

theorem seek_pure_ok {α} {n : Int} {v : α} {j : It} {r : α × It}
    (h : (It.seek n >>= fun _ => (pure v : P α)) j = .ok r) : r = (v, ⟨j.bs, n⟩) := by
  simp only [P.bind_run, It.seek] at h
  cases h; rfl

theorem parsePSISection_ok {i i' : It} {s : PSISection} {stop : Bool} (h : parsePSISection i = .ok ((s, stop), i')) :
    i'.bs = i.bs ∧ i.off < i'.off ∧ 0 ≤ i.off ∧ i.off < i.bs.length := by
  unfold parsePSISection at h
  obtain ⟨o0, i0, h0, h⟩ := bind_ok_inv h
  cases h0
  obtain ⟨t, i1, e1, h⟩ := bind_ok_inv h
  obtain ⟨a1, a2, a3, a4⟩ := nextByte_ok e1
  split at h
  · cases h
    exact ⟨a1, by omega, a3, a4⟩
  · obtain ⟨bs, i2, e2, h⟩ := bind_ok_inv h
    obtain ⟨b1, b2, b3, b4, b5⟩ := nextBytes_ok e2
    obtain ⟨o2, i3, h3, h⟩ := bind_ok_inv h
    cases h3
    dsimp only at h
    have fin : ∀ (v : PSISection × Bool) (j : It) (sl : Nat),
        j.bs = i.bs → (It.seek (i2.off + (sl : Int)) >>= fun _ => (pure v : P (PSISection × Bool))) j = .ok ((s, stop), i') →
        i'.bs = i.bs ∧ i.off < i'.off ∧ 0 ≤ i.off ∧ i.off < i.bs.length := by
      intro v j sl hj hr
      have := seek_pure_ok hr
      cases this
      exact ⟨hj, by simp only; omega, a3, a4⟩
    split at h
    · obtain ⟨sh, i4, e4, h⟩ := bind_ok_inv h
      have k4 := Keeps.optP Keeps_parsePSISectionSyntaxHeader _ _ _ e4
      obtain ⟨d, i5, e5, h⟩ := bind_ok_inv h
      have k5 := Keeps_parsePSISectionSyntaxData _ _ _ _ _ _ e5
      split at h
      · obtain ⟨_, i6, e6, h⟩ := bind_ok_inv h
        have k6 := Keeps.seek _ _ _ _ e6
        obtain ⟨cb, i7, e7, h⟩ := bind_ok_inv h
        have k7 := Keeps.nextBytes _ _ _ _ e7
        obtain ⟨_, i8, e8, h⟩ := bind_ok_inv h
        have k8 := Keeps.seek _ _ _ _ e8
        obtain ⟨data, i9, e9, h⟩ := bind_ok_inv h
        have k9 := Keeps.nextBytes _ _ _ _ e9
        split at h
        · cases h
        · exact fin _ _ _ (by rw [k9, k8, k7, k6, k5, k4, b1, a1]) h
      · exact fin _ _ _ (by rw [k5, k4, b1, a1]) h
    · exact fin _ _ _ (by rw [b1, a1]) h

theorem Keeps_parsePSISection : Keeps parsePSISection := fun i a i' e => by
  obtain ⟨s, stop⟩ := a
  exact (parsePSISection_ok e).1
macro_rules | `(tactic| pf_leaf) => `(tactic| exact Keeps_parsePSISection)

/-- one iteration of the section loop of `parsePSIData` -/
def sectionsStep : P (Step PSISection (List PSISection)) := do
  let more ← It.hasBytesLeft
  if more then do
    let (s, stop) ← parsePSISection
    if stop then pure (.stop [s]) else pure (.next s)
  else pure (.stop [])

theorem parsePSISections_eq (n : Nat) : parsePSISections n = iter P.fail sectionsStep List.cons n := by
  induction n with
  | zero => rfl
  | succ n ih =>
    rw [iter_succ_eq, ← ih, parsePSISections]
    rw [show sectionsStep = (It.hasBytesLeft >>= fun more => if more = true then
        parsePSISection >>= fun x => match x with
          | (s, stop) => if stop = true then pure (.stop [s]) else pure (.next s)
      else pure (.stop [])) from rfl]
    simp only [bind_assoc, pure_bind, ite_bind, iterK]

theorem ProgStep_sectionsStep : ProgStep sectionsStep := by
  intro i a i' h
  unfold sectionsStep at h
  obtain ⟨more, i0, e0, h⟩ := bind_ok_inv h
  cases e0
  split at h
  · obtain ⟨x, i1, e1, h⟩ := bind_ok_inv h
    obtain ⟨s, stop⟩ := x
    have := parsePSISection_ok e1
    dsimp only at h
    split at h
    · cases h
    · cases h; exact this
  · cases h

theorem Keeps_parsePSISections (n : Nat) : Keeps (parsePSISections n) := by
  rw [parsePSISections_eq]
  refine Keeps.iter _ (Keeps.fail _) ?_ n
  unfold sectionsStep
  pf_auto
macro_rules | `(tactic| pf_leaf) => `(tactic| exact Keeps_parsePSISections _)

/-! ### the exhaustion-reporting variants of the table parsers (text of the model, loops and loop-containing callees
replaced by their `…X` variants) -/

def pmtBodyX : PX PMTElementaryStream := do
  let st ← It.nextByte
  let bs ← It.nextBytes 2
  let ds ← parseDescriptorsX
  pure ({ elementaryPID := u13 bs, elementaryStreamDescriptors := ds, streamType := st } : PMTElementaryStream)

def sdtBodyX : PX SDTDataService := do
  let bs ← It.nextBytes 2
  let b ← It.nextByte
  let c ← It.nextByte
  It.skip (-1)
  let ds ← parseDescriptorsX
  pure ({ descriptors := ds, hasEITPresentFollowing := b % 2 = 1, hasEITSchedule := b / 2 % 2 = 1,
          hasFreeCSAMode := c / 16 % 2 = 1, runningStatus := c / 32, serviceID := u16 bs } : SDTDataService)

def nitBodyX : PX NITDataTransportStream := do
  let a ← It.nextBytes 2
  let b ← It.nextBytes 2
  let ds ← parseDescriptorsX
  pure ({ originalNetworkID := u16 b, transportDescriptors := ds, transportStreamID := u16 a } : NITDataTransportStream)

def eitBodyX : PX EITDataEvent := do
  let bs ← It.nextBytes 2
  let st ← parseDVBTime
  let du ← parseDVBDurationSeconds
  let c ← It.nextByte
  It.skip (-1)
  let ds ← parseDescriptorsX
  pure ({ descriptors := ds, duration := du, eventID := u16 bs, hasFreeCSAMode := c / 16 % 2 = 1,
          runningStatus := c / 32, startTime := st } : EITDataEvent)

theorem erase_pmtBodyX : erase pmtBodyX = pmtBody := by
  unfold pmtBodyX pmtBody; simp only [erase_bind, erase_monadLift, erase_pure, erase_parseDescriptorsX]
theorem erase_sdtBodyX : erase sdtBodyX = sdtBody := by
  unfold sdtBodyX sdtBody; simp only [erase_bind, erase_monadLift, erase_pure, erase_parseDescriptorsX]
theorem erase_nitBodyX : erase nitBodyX = nitBody := by
  unfold nitBodyX nitBody; simp only [erase_bind, erase_monadLift, erase_pure, erase_parseDescriptorsX]
theorem erase_eitBodyX : erase eitBodyX = eitBody := by
  unfold eitBodyX eitBody; simp only [erase_bind, erase_monadLift, erase_pure, erase_parseDescriptorsX]

theorem NX_pmtBodyX : NX pmtBodyX := by unfold pmtBodyX; nx_auto
theorem NX_sdtBodyX : NX sdtBodyX := by unfold sdtBodyX; nx_auto
theorem NX_nitBodyX : NX nitBodyX := by unfold nitBodyX; nx_auto
theorem NX_eitBodyX : NX eitBodyX := by unfold eitBodyX; nx_auto

def parsePATSectionX (offsetSectionsEnd : Int) (tableIDExtension : Nat) : PX PATData := do
  let fuel ← fuelOf
  let ps ← loopUntilX fuel offsetSectionsEnd (lift patBody)
  return { programs := ps, transportStreamID := tableIDExtension }

def parsePMTSectionX (offsetSectionsEnd : Int) (tableIDExtension : Nat) : PX PMTData := do
  let bs ← It.nextBytes 2
  let pcr := u13 bs
  let pd ← parseDescriptorsX
  let fuel ← fuelOf
  let es ← loopUntilX fuel offsetSectionsEnd pmtBodyX
  return { elementaryStreams := es, pcrPID := pcr, programDescriptors := pd, programNumber := tableIDExtension }

def parseSDTSectionX (offsetSectionsEnd : Int) (tableIDExtension : Nat) : PX SDTData := do
  let bs ← It.nextBytes 2
  let onid := u16 bs
  It.skip 1
  let fuel ← fuelOf
  let ss ← loopUntilX fuel offsetSectionsEnd sdtBodyX
  return { originalNetworkID := onid, services := ss, transportStreamID := tableIDExtension }

def parseNITSectionX (tableIDExtension : Nat) : PX NITData := do
  let nd ← parseDescriptorsX
  let bs ← It.nextBytes 2
  let l := (bs.getD 0 0 % 16) * 256 + bs.getD 1 0
  let off ← It.offset
  let fuel ← fuelOf
  let ts ← loopUntilX fuel (off + l) nitBodyX
  return { networkDescriptors := nd, networkID := tableIDExtension, transportStreams := ts }

def parseEITSectionX (offsetSectionsEnd : Int) (tableIDExtension : Nat) : PX EITData := do
  let a ← It.nextBytes 2
  let b ← It.nextBytes 2
  let slsn ← It.nextByte
  let ltid ← It.nextByte
  let fuel ← fuelOf
  let es ← loopUntilX fuel offsetSectionsEnd eitBodyX
  return { events := es, lastTableID := ltid, originalNetworkID := u16 b, segmentLastSectionNumber := slsn,
           serviceID := tableIDExtension, transportStreamID := u16 a }

def parseTOTSectionX : PX TOTData := do
  let t ← parseDVBTime
  let ds ← parseDescriptorsX
  return { descriptors := ds, utcTime := t }

theorem erase_parsePATSectionX (e : Int) (x : Nat) : erase (parsePATSectionX e x) = parsePATSection e x := by
  unfold parsePATSectionX parsePATSection
  simp only [erase_bind, erase_monadLift, erase_pure, erase_loopUntilX, erase_lift, patBody]
theorem erase_parsePMTSectionX (e : Int) (x : Nat) : erase (parsePMTSectionX e x) = parsePMTSection e x := by
  unfold parsePMTSectionX parsePMTSection
  simp only [erase_bind, erase_monadLift, erase_pure, erase_loopUntilX, erase_pmtBodyX, erase_parseDescriptorsX, pmtBody]
theorem erase_parseSDTSectionX (e : Int) (x : Nat) : erase (parseSDTSectionX e x) = parseSDTSection e x := by
  unfold parseSDTSectionX parseSDTSection
  simp only [erase_bind, erase_monadLift, erase_pure, erase_loopUntilX, erase_sdtBodyX, sdtBody]
theorem erase_parseNITSectionX (x : Nat) : erase (parseNITSectionX x) = parseNITSection x := by
  unfold parseNITSectionX parseNITSection
  simp only [erase_bind, erase_monadLift, erase_pure, erase_loopUntilX, erase_nitBodyX, erase_parseDescriptorsX, nitBody]
theorem erase_parseEITSectionX (e : Int) (x : Nat) : erase (parseEITSectionX e x) = parseEITSection e x := by
  unfold parseEITSectionX parseEITSection
  simp only [erase_bind, erase_monadLift, erase_pure, erase_loopUntilX, erase_eitBodyX, eitBody]
theorem erase_parseTOTSectionX : erase parseTOTSectionX = parseTOTSection := by
  unfold parseTOTSectionX parseTOTSection
  simp only [erase_bind, erase_monadLift, erase_pure, erase_parseDescriptorsX]

theorem NX_parsePATSectionX (e : Int) (x : Nat) : NX (parsePATSectionX e x) :=
  NX_fuelled fuelOf_run (loopUntilX_not_exhausted e (NX.of_lift _) (by rw [erase_lift]; exact Rd_patBody))
    (fun _ => NX.pure _)
macro_rules | `(tactic| nx_leaf) => `(tactic| exact NX_parsePATSectionX _ _)
theorem NX_parsePMTSectionX (e : Int) (x : Nat) : NX (parsePMTSectionX e x) := by
  unfold parsePMTSectionX
  refine NX.bind (NX.of_monadLift _) (fun _ => NX.bind NX_parseDescriptorsX (fun _ => ?_))
  exact NX_fuelled fuelOf_run (loopUntilX_not_exhausted e NX_pmtBodyX (by rw [erase_pmtBodyX]; exact Rd_pmtBody))
    (fun _ => NX.pure _)
macro_rules | `(tactic| nx_leaf) => `(tactic| exact NX_parsePMTSectionX _ _)
theorem NX_parseSDTSectionX (e : Int) (x : Nat) : NX (parseSDTSectionX e x) := by
  unfold parseSDTSectionX
  refine NX.bind (NX.of_monadLift _) (fun _ => NX.bind (NX.of_monadLift _) (fun _ => ?_))
  exact NX_fuelled fuelOf_run (loopUntilX_not_exhausted e NX_sdtBodyX (by rw [erase_sdtBodyX]; exact Rd_sdtBody))
    (fun _ => NX.pure _)
macro_rules | `(tactic| nx_leaf) => `(tactic| exact NX_parseSDTSectionX _ _)
theorem NX_parseNITSectionX (x : Nat) : NX (parseNITSectionX x) := by
  unfold parseNITSectionX
  refine NX.bind NX_parseDescriptorsX (fun _ => NX.bind (NX.of_monadLift _) (fun _ => NX.bind (NX.of_monadLift _) (fun _ => ?_)))
  exact NX_fuelled fuelOf_run (loopUntilX_not_exhausted _ NX_nitBodyX (by rw [erase_nitBodyX]; exact Rd_nitBody))
    (fun _ => NX.pure _)
macro_rules | `(tactic| nx_leaf) => `(tactic| exact NX_parseNITSectionX _)
theorem NX_parseEITSectionX (e : Int) (x : Nat) : NX (parseEITSectionX e x) := by
  unfold parseEITSectionX
  refine NX.bind (NX.of_monadLift _) (fun _ => NX.bind (NX.of_monadLift _) (fun _ => NX.bind (NX.of_monadLift _) (fun _ =>
    NX.bind (NX.of_monadLift _) (fun _ => ?_))))
  exact NX_fuelled fuelOf_run (loopUntilX_not_exhausted e NX_eitBodyX (by rw [erase_eitBodyX]; exact Rd_eitBody))
    (fun _ => NX.pure _)
macro_rules | `(tactic| nx_leaf) => `(tactic| exact NX_parseEITSectionX _ _)
theorem NX_parseTOTSectionX : NX parseTOTSectionX := by unfold parseTOTSectionX; nx_auto
macro_rules | `(tactic| nx_leaf) => `(tactic| exact NX_parseTOTSectionX)

def parsePSISectionSyntaxDataX (t : Nat) (sh : Option PSISectionSyntaxHeader) (offsetSectionsEnd : Int) :
    PX PSISectionSyntaxData := do
  let ext := (sh.map (·.tableIDExtension)).getD 0
  let needsHeader := t == 0x40 || t == 0x41 || t == 0 || t == 2 || t == 0x42 || t == 0x46 || isEIT t
  if needsHeader && sh.isNone then lift (fun _ => .panic)
  else
    let d : PSISectionSyntaxData ←
      (if t = 0x40 ∨ t = 0x41 then do let x ← parseNITSectionX ext; pure { nit := some x }
       else if t = 0 then do let x ← parsePATSectionX offsetSectionsEnd ext; pure { pat := some x }
       else if t = 2 then do let x ← parsePMTSectionX offsetSectionsEnd ext; pure { pmt := some x }
       else if t = 0x42 ∨ t = 0x46 then do let x ← parseSDTSectionX offsetSectionsEnd ext; pure { sdt := some x }
       else if t = 0x73 then do let x ← parseTOTSectionX; pure { tot := some x }
       else pure {} : PX PSISectionSyntaxData)
    if isEIT t then do
      let x ← parseEITSectionX offsetSectionsEnd ext
      pure { d with eit := some x }
    else pure d

theorem erase_parsePSISectionSyntaxDataX (t : Nat) (sh : Option PSISectionSyntaxHeader) (e : Int) :
    erase (parsePSISectionSyntaxDataX t sh e) = parsePSISectionSyntaxData t sh e := by
  unfold parsePSISectionSyntaxDataX parsePSISectionSyntaxData
  simp only [erase_ite, erase_bind, erase_pure, erase_parseNITSectionX,
    erase_parsePATSectionX, erase_parsePMTSectionX, erase_parseSDTSectionX, erase_parseTOTSectionX,
    erase_parseEITSectionX]
  rfl

theorem NX_parsePSISectionSyntaxDataX (t : Nat) (sh : Option PSISectionSyntaxHeader) (e : Int) :
    NX (parsePSISectionSyntaxDataX t sh e) := by
  unfold parsePSISectionSyntaxDataX; nx_auto
macro_rules | `(tactic| nx_leaf) => `(tactic| exact NX_parsePSISectionSyntaxDataX _ _ _)

def parsePSISectionX : PX (PSISection × Bool) := do
  let offsetStart ← It.offset
  let t ← It.nextByte
  if shouldStopPSIParsing t then
    return ({ header := some { tableID := t, tableType := tableType t } }, true)
  else
    let bs ← It.nextBytes 2
    let sl := (bs.getD 0 0 % 16) * 256 + bs.getD 1 0
    let h : PSISectionHeader :=
      { privateBit := bs.getD 0 0 / 64 % 2 = 1, sectionLength := sl, sectionSyntaxIndicator := bs.getD 0 0 / 128 % 2 = 1,
        tableID := t, tableType := tableType t }
    let offsetSectionsStart ← It.offset
    let offsetEnd : Int := offsetSectionsStart + sl
    let offsetSectionsEnd : Int := if hasCRC32 t then offsetEnd - 4 else offsetEnd
    if sl > 0 then
      let sh ← optP (hasPSISyntaxHeader t) parsePSISectionSyntaxHeader
      let d ← parsePSISectionSyntaxDataX t sh offsetSectionsEnd
      let syn : PSISectionSyntax := { data := some d, header := sh }
      if hasCRC32 t then
        It.seek offsetSectionsEnd
        let cb ← It.nextBytes 4
        let c := beNat cb
        It.seek offsetStart
        let data ← It.nextBytes (offsetSectionsEnd - offsetStart)
        if (computeCRC32 data).toNat ≠ c then lift P.fail
        else
          It.seek offsetEnd
          return ({ crc32 := c, header := some h, syn := some syn }, false)
      else
        It.seek offsetEnd
        return ({ header := some h, syn := some syn }, false)
    else
      It.seek offsetEnd
      return ({ header := some h }, false)

theorem erase_parsePSISectionX : erase parsePSISectionX = parsePSISection := by
  unfold parsePSISectionX parsePSISection
  simp only [erase_ite, erase_bind, erase_monadLift, erase_pure, erase_lift, erase_parsePSISectionSyntaxDataX]

theorem NX_parsePSISectionX : NX parsePSISectionX := by unfold parsePSISectionX; nx_auto
macro_rules | `(tactic| nx_leaf) => `(tactic| exact NX_parsePSISectionX)

def sectionsStepX : PX (Step PSISection (List PSISection)) := do
  let more ← It.hasBytesLeft
  if more then do
    let (s, stop) ← parsePSISectionX
    if stop then pure (.stop [s]) else pure (.next s)
  else pure (.stop [])

theorem erase_sectionsStepX : erase sectionsStepX = sectionsStep := by
  unfold sectionsStepX sectionsStep
  simp only [erase_ite, erase_bind, erase_monadLift, erase_pure, erase_parsePSISectionX]

theorem NX_sectionsStepX : NX sectionsStepX := by unfold sectionsStepX; nx_auto

/-- the section loop of `parsePSIData`, reporting exhaustion -/
def parsePSISectionsX (n : Nat) : PX (List PSISection) := iterX sectionsStepX List.cons n

theorem erase_parsePSISectionsX (n : Nat) : erase (parsePSISectionsX n) = parsePSISections n := by
  rw [parsePSISectionsX, erase_iterX, erase_sectionsStepX, parsePSISections_eq]

/-- NEVER EXHAUSTED: the section loop, from any state, all nested loops included -/
theorem parsePSISectionsX_not_exhausted (n : Nat) (i : It) (h : rem i < n) : parsePSISectionsX n i ≠ .exhausted :=
  iterX_not_exhausted _ NX_sectionsStepX (by rw [erase_sectionsStepX]; exact ProgStep_sectionsStep) n i h

def parsePSIDataX : PX PSIData := do
  let b ← It.nextByte
  It.skip b
  let fuel ← fuelOf
  let ss ← parsePSISectionsX fuel
  return { pointerField := b, sections := ss }

theorem erase_parsePSIDataX : erase parsePSIDataX = parsePSIData := by
  unfold parsePSIDataX parsePSIData
  simp only [erase_bind, erase_monadLift, erase_pure, erase_parsePSISectionsX]

theorem NX_parsePSIDataX : NX parsePSIDataX := by
  unfold parsePSIDataX
  refine NX.bind (NX.of_monadLift _) (fun _ => NX.bind (NX.of_monadLift _) (fun _ => ?_))
  exact NX_fuelled fuelOf_run parsePSISectionsX_not_exhausted (fun _ => NX.pure _)

end Astits.ParserFuel
