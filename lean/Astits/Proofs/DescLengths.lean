/-
C14 helper lemmas: for every typed descriptor kind the un-truncated size of the body the writer emits
(`xxxSize`), the fact that the writer emits exactly that many bytes, and the fact that the calculator
returns that size modulo 256.
-/
import Astits.Model.Desc
import Astits.Proofs.Layout
namespace Astits.DescLen
open Astits

/-! ### primitive writers -/

@[simp] theorem wU8_length (x : Nat) : (wU8 x).length = 1 := rfl
@[simp] theorem wU16_length (x : Nat) : (wU16 x).length = 2 := rfl
@[simp] theorem wU32_length (x : Nat) : (wU32 x).length = 4 := rfl

/-- `WriteBytesN` emits exactly `n` bytes whatever the length of its argument -/
@[simp] theorem wBytesN_length (bs : Bytes) (n pad : Nat) : (wBytesN bs n pad).length = n := by
  unfold wBytesN
  simp only [List.length_append, List.length_take, List.length_replicate]
  omega

theorem packFields_length (fs : List (Nat × Nat)) : (packFields fs).length = fieldsWidth fs / 8 := by
  unfold packFields; exact beBytes_length _ _

@[simp] theorem writeDVBDurationMinutes_length (ns : Int) : (writeDVBDurationMinutes ns).length = 2 := rfl
@[simp] theorem writeDVBDurationSeconds_length (ns : Int) : (writeDVBDurationSeconds ns).length = 3 := rfl
@[simp] theorem writeDVBTime_length (t : Int) : (writeDVBTime t).length = 5 := by
  unfold writeDVBTime
  simp [beBytes_length]

/-- a number equals its `uint8` truncation exactly when it fits 8 bits -/
theorem eq_mod256_iff (n : Nat) : n = n % 256 ↔ n < 256 := by omega

theorem b2n_ite (b : Bool) : (if b = true then 1 else 0) = b2n b := by cases b <;> rfl


/-! ### un-truncated body sizes (the `int` the Go calculators accumulate before `uint8(ret)`) -/

def ac3Size (x : DescriptorAC3) : Nat :=
  1 + b2n x.hasComponentType + b2n x.hasBSID + b2n x.hasMainID + b2n x.hasASVC + x.additionalInfo.length
def componentSize (x : DescriptorComponent) : Nat := 6 + x.text.length
def contentSize (x : DescriptorContent) : Nat := 2 * x.items.length
def enhancedAC3Size (x : DescriptorEnhancedAC3) : Nat :=
  1 + b2n x.hasComponentType + b2n x.hasBSID + b2n x.hasMainID + b2n x.hasASVC + b2n x.hasSubStream1
    + b2n x.hasSubStream2 + b2n x.hasSubStream3 + x.additionalInfo.length
def extendedEventSize (x : DescriptorExtendedEvent) : Nat :=
  1 + 3 + 1 + extendedEventItemsSize x.items + 1 + x.text.length
def extensionSize (x : DescriptorExtension) : Nat :=
  1 + (if x.tag = descriptorTagExtensionSupplementaryAudio then
         nilOr calcDescriptorExtensionSupplementaryAudioLength x.supplementaryAudio
       else nilOr List.length x.unknown)
def localTimeOffsetSize (x : DescriptorLocalTimeOffset) : Nat := 13 * x.items.length
def networkNameSize (x : DescriptorNetworkName) : Nat := x.name.length
def parentalRatingSize (x : DescriptorParentalRating) : Nat := 4 * x.items.length
def registrationSize (x : DescriptorRegistration) : Nat := 4 + x.additionalIdentificationInfo.length
def serviceSize (x : DescriptorService) : Nat := 3 + x.name.length + x.provider.length
def shortEventSize (x : DescriptorShortEvent) : Nat := 3 + 1 + 1 + x.eventName.length + x.text.length
def subtitlingSize (x : DescriptorSubtitling) : Nat := 8 * x.items.length
def teletextSize (x : DescriptorTeletext) : Nat := 5 * x.items.length
def vbiDataSize (x : DescriptorVBIData) : Nat := vbiDataServicesSize x.services
def unknownSize (x : DescriptorUnknown) : Nat := x.content.length

/-! ### fixed-size kinds -/

theorem avcVideo_length (x : DescriptorAVCVideo) :
    (writeDescriptorAVCVideo x).length = calcDescriptorAVCVideoLength x := by
  simp [writeDescriptorAVCVideo, calcDescriptorAVCVideoLength, packFields_length, fieldsWidth]

theorem dataStreamAlignment_length (x : DescriptorDataStreamAlignment) :
    (writeDescriptorDataStreamAlignment x).length = calcDescriptorDataStreamAlignmentLength x := rfl

theorem iso639_length (x : DescriptorISO639LanguageAndAudioType) :
    (writeDescriptorISO639LanguageAndAudioType x).length = calcDescriptorISO639LanguageAndAudioTypeLength x := by
  simp [writeDescriptorISO639LanguageAndAudioType, calcDescriptorISO639LanguageAndAudioTypeLength]

theorem maximumBitrate_length (x : DescriptorMaximumBitrate) :
    (writeDescriptorMaximumBitrate x).length = calcDescriptorMaximumBitrateLength x := by
  simp [writeDescriptorMaximumBitrate, calcDescriptorMaximumBitrateLength, packFields_length, fieldsWidth]

theorem privateDataIndicator_length (x : DescriptorPrivateDataIndicator) :
    (writeDescriptorPrivateDataIndicator x).length = calcDescriptorPrivateDataIndicatorLength x := rfl

theorem privateDataSpecifier_length (x : DescriptorPrivateDataSpecifier) :
    (writeDescriptorPrivateDataSpecifier x).length = calcDescriptorPrivateDataSpecifierLength x := rfl

theorem streamIdentifier_length (x : DescriptorStreamIdentifier) :
    (writeDescriptorStreamIdentifier x).length = calcDescriptorStreamIdentifierLength x := rfl

/-! ### variable-size kinds without lists -/

theorem ac3_length (x : DescriptorAC3) : (writeDescriptorAC3 x).length = ac3Size x := by
  unfold writeDescriptorAC3 ac3Size
  cases x.hasComponentType <;> cases x.hasBSID <;> cases x.hasMainID <;> cases x.hasASVC <;>
    simp [packFields_length, fieldsWidth, b2n] <;> omega
theorem ac3_calc (x : DescriptorAC3) : calcDescriptorAC3Length x = ac3Size x % 256 := rfl

theorem component_length (x : DescriptorComponent) : (writeDescriptorComponent x).length = componentSize x := by
  simp [writeDescriptorComponent, componentSize, packFields_length, fieldsWidth]; omega
theorem component_calc (x : DescriptorComponent) : calcDescriptorComponentLength x = componentSize x % 256 := rfl

theorem enhancedAC3_length (x : DescriptorEnhancedAC3) : (writeDescriptorEnhancedAC3 x).length = enhancedAC3Size x := by
  unfold writeDescriptorEnhancedAC3 enhancedAC3Size
  simp only [List.length_append, packFields_length, fieldsWidth]
  have e1 : (if x.hasComponentType = true then wU8 x.componentType else []).length = b2n x.hasComponentType := by
    cases x.hasComponentType <;> rfl
  have e2 : (if x.hasBSID = true then wU8 x.bsid else []).length = b2n x.hasBSID := by cases x.hasBSID <;> rfl
  have e3 : (if x.hasMainID = true then wU8 x.mainID else []).length = b2n x.hasMainID := by cases x.hasMainID <;> rfl
  have e4 : (if x.hasASVC = true then wU8 x.asvc else []).length = b2n x.hasASVC := by cases x.hasASVC <;> rfl
  have e5 : (if x.hasSubStream1 = true then wU8 x.subStream1 else []).length = b2n x.hasSubStream1 := by
    cases x.hasSubStream1 <;> rfl
  have e6 : (if x.hasSubStream2 = true then wU8 x.subStream2 else []).length = b2n x.hasSubStream2 := by
    cases x.hasSubStream2 <;> rfl
  have e7 : (if x.hasSubStream3 = true then wU8 x.subStream3 else []).length = b2n x.hasSubStream3 := by
    cases x.hasSubStream3 <;> rfl
  rw [e1, e2, e3, e4, e5, e6, e7]
theorem enhancedAC3_calc (x : DescriptorEnhancedAC3) : calcDescriptorEnhancedAC3Length x = enhancedAC3Size x % 256 := rfl

theorem supplementaryAudio_length (s : DescriptorExtensionSupplementaryAudio) :
    (writeDescriptorExtensionSupplementaryAudio s).length = calcDescriptorExtensionSupplementaryAudioLength s := by
  unfold writeDescriptorExtensionSupplementaryAudio calcDescriptorExtensionSupplementaryAudioLength
  cases s.hasLanguageCode <;> simp [packFields_length, fieldsWidth] <;> omega

theorem extension_length (x : DescriptorExtension) : (writeDescriptorExtension x).length = extensionSize x := by
  unfold writeDescriptorExtension extensionSize
  by_cases ht : x.tag = descriptorTagExtensionSupplementaryAudio
  · cases hs : x.supplementaryAudio <;> simp [ht, nilOr, supplementaryAudio_length] <;> omega
  · cases hu : x.unknown <;> simp [ht, nilOr] <;> omega
theorem extension_calc (x : DescriptorExtension) : calcDescriptorExtensionLength x = extensionSize x % 256 := rfl

theorem networkName_length (x : DescriptorNetworkName) : (writeDescriptorNetworkName x).length = networkNameSize x := rfl
theorem networkName_calc (x : DescriptorNetworkName) : calcDescriptorNetworkNameLength x = networkNameSize x % 256 := rfl

theorem registration_length (x : DescriptorRegistration) : (writeDescriptorRegistration x).length = registrationSize x := by
  simp [writeDescriptorRegistration, registrationSize]
theorem registration_calc (x : DescriptorRegistration) : calcDescriptorRegistrationLength x = registrationSize x % 256 := rfl

theorem service_length (x : DescriptorService) : (writeDescriptorService x).length = serviceSize x := by
  simp [writeDescriptorService, serviceSize]; omega
theorem service_calc (x : DescriptorService) : calcDescriptorServiceLength x = serviceSize x % 256 := rfl

theorem shortEvent_length (x : DescriptorShortEvent) : (writeDescriptorShortEvent x).length = shortEventSize x := by
  simp [writeDescriptorShortEvent, shortEventSize]; omega
theorem shortEvent_calc (x : DescriptorShortEvent) : calcDescriptorShortEventLength x = shortEventSize x % 256 := rfl

theorem unknown_length (x : DescriptorUnknown) : (writeDescriptorUnknown x).length = unknownSize x := rfl
theorem unknown_calc (x : DescriptorUnknown) : calcDescriptorUnknownLength x = unknownSize x % 256 := rfl

/-! ### list-valued kinds: the concatenated items have the sum of the item sizes -/

theorem contentItems_length (l : List DescriptorContentItem) : (writeDescriptorContentItems l).length = 2 * l.length := by
  induction l with
  | nil => rfl
  | cons a r ih => simp [writeDescriptorContentItems, packFields_length, fieldsWidth, ih]; omega
theorem content_length (x : DescriptorContent) : (writeDescriptorContent x).length = contentSize x :=
  contentItems_length x.items
theorem content_calc (x : DescriptorContent) : calcDescriptorContentLength x = contentSize x % 256 := rfl

theorem extendedEventItems_length (l : List DescriptorExtendedEventItem) :
    (writeDescriptorExtendedEventItems l).length = extendedEventItemsSize l := by
  induction l with
  | nil => rfl
  | cons a r ih => simp [writeDescriptorExtendedEventItems, extendedEventItemsSize, ih]; omega
theorem extendedEvent_length (x : DescriptorExtendedEvent) :
    (writeDescriptorExtendedEvent x).length = extendedEventSize x := by
  simp [writeDescriptorExtendedEvent, extendedEventSize, packFields_length, fieldsWidth, extendedEventItems_length]
  omega
theorem extendedEvent_calc (x : DescriptorExtendedEvent) :
    (calcDescriptorExtendedEventLength x).1 = extendedEventSize x % 256 := rfl
/-- the inner `length_of_items` byte is the un-truncated items size modulo 256 -/
theorem extendedEvent_calc_items (x : DescriptorExtendedEvent) :
    (calcDescriptorExtendedEventLength x).2 = extendedEventItemsSize x.items % 256 := rfl

theorem localTimeOffsetItems_length (l : List DescriptorLocalTimeOffsetItem) :
    (writeDescriptorLocalTimeOffsetItems l).length = 13 * l.length := by
  induction l with
  | nil => rfl
  | cons a r ih => simp [writeDescriptorLocalTimeOffsetItems, packFields_length, fieldsWidth, ih]; omega
theorem localTimeOffset_length (x : DescriptorLocalTimeOffset) :
    (writeDescriptorLocalTimeOffset x).length = localTimeOffsetSize x := localTimeOffsetItems_length x.items
theorem localTimeOffset_calc (x : DescriptorLocalTimeOffset) :
    calcDescriptorLocalTimeOffsetLength x = localTimeOffsetSize x % 256 := rfl

theorem parentalRatingItems_length (l : List DescriptorParentalRatingItem) :
    (writeDescriptorParentalRatingItems l).length = 4 * l.length := by
  induction l with
  | nil => rfl
  | cons a r ih => simp [writeDescriptorParentalRatingItems, ih]; omega
theorem parentalRating_length (x : DescriptorParentalRating) :
    (writeDescriptorParentalRating x).length = parentalRatingSize x := parentalRatingItems_length x.items
theorem parentalRating_calc (x : DescriptorParentalRating) :
    calcDescriptorParentalRatingLength x = parentalRatingSize x % 256 := rfl

theorem subtitlingItems_length (l : List DescriptorSubtitlingItem) :
    (writeDescriptorSubtitlingItems l).length = 8 * l.length := by
  induction l with
  | nil => rfl
  | cons a r ih => simp [writeDescriptorSubtitlingItems, ih]; omega
theorem subtitling_length (x : DescriptorSubtitling) : (writeDescriptorSubtitling x).length = subtitlingSize x :=
  subtitlingItems_length x.items
theorem subtitling_calc (x : DescriptorSubtitling) : calcDescriptorSubtitlingLength x = subtitlingSize x % 256 := rfl

theorem teletextItems_length (l : List DescriptorTeletextItem) :
    (writeDescriptorTeletextItems l).length = 5 * l.length := by
  induction l with
  | nil => rfl
  | cons a r ih => simp [writeDescriptorTeletextItems, packFields_length, fieldsWidth, ih]; omega
theorem teletext_length (x : DescriptorTeletext) : (writeDescriptorTeletext x).length = teletextSize x :=
  teletextItems_length x.items
theorem teletext_calc (x : DescriptorTeletext) : calcDescriptorTeletextLength x = teletextSize x % 256 := rfl

theorem vbiDataDescriptors_length (l : List DescriptorVBIDataDescriptor) :
    (writeDescriptorVBIDataDescriptors l).length = l.length := by
  induction l with
  | nil => rfl
  | cons a r ih => simp [writeDescriptorVBIDataDescriptors, packFields_length, fieldsWidth, ih]; omega
theorem vbiDataServices_length (l : List DescriptorVBIDataService) :
    (writeDescriptorVBIDataServices l).length = vbiDataServicesSize l := by
  induction l with
  | nil => rfl
  | cons a r ih =>
    unfold writeDescriptorVBIDataServices vbiDataServicesSize
    by_cases hk : isKnownVBIDataServiceID a.dataServiceID = true
    · simp [hk, ih, vbiDataDescriptors_length]; omega
    · simp [hk, ih]; omega
theorem vbiData_length (x : DescriptorVBIData) : (writeDescriptorVBIData x).length = vbiDataSize x :=
  vbiDataServices_length x.services
theorem vbiData_calc (x : DescriptorVBIData) : calcDescriptorVBIDataLength x = vbiDataSize x % 256 := rfl

end Astits.DescLen
