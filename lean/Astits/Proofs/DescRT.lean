/-
C14 / C13 helper — per-descriptor round trip for the typed descriptor kinds (see `Astits/Proofs/DescRT/*.lean`).
-/
import Astits.Proofs.DescRT.Core
import Astits.Proofs.DescRT.Fixed
import Astits.Proofs.DescRT.Strings
import Astits.Proofs.DescRT.Flags
import Astits.Proofs.DescRT.Lists
import Astits.Proofs.DescRT.Nested
import Astits.Proofs.DescRT.Time
import Astits.Proofs.DescRT.Norm
