/-
C09 helper: the bit-serial CRC register is GF(2)-linear in (state, message); feeding k ≤ 32 bits into the zero
register leaves the bits themselves (shifted to the top) run through k LFSR steps; the LFSR step never maps a
non-zero register to zero.  Hence any error pattern confined to 32 consecutive bits changes the register.
-/
import Astits.Proofs.CRC
namespace Astits

def feedBits (c : BitVec 32) (bits : List Bool) : BitVec 32 := bits.foldl Spec.crcFeedBit c

def crcBitN : Nat → BitVec 32 → BitVec 32
  | 0, x => x
  | n + 1, x => crcBitN n (crcBit x)

theorem crcBit_zero : crcBit 0#32 = 0#32 := by decide

theorem crcBitN_zero (n : Nat) : crcBitN n 0#32 = 0#32 := by
  induction n with
  | zero => rfl
  | succ n ih => rw [crcBitN, crcBit_zero, ih]

theorem crcBitN_xor (n : Nat) (x y : BitVec 32) : crcBitN n (x ^^^ y) = crcBitN n x ^^^ crcBitN n y := by
  induction n generalizing x y with
  | zero => rfl
  | succ n ih => rw [crcBitN, crcBit_xor, ih]; rfl

theorem topBit_xor (a b : Bool) : topBit (a ^^ b) = topBit a ^^^ topBit b := by
  cases a <;> cases b <;> decide

/-- the register is jointly linear in state and message bit -/
theorem feedBit_xor (c d : BitVec 32) (a b : Bool) :
    Spec.crcFeedBit (c ^^^ d) (a ^^ b) = Spec.crcFeedBit c a ^^^ Spec.crcFeedBit d b := by
  rw [feedBit_eq, feedBit_eq, feedBit_eq, topBit_xor, ← crcBit_xor]
  congr 1
  ac_rfl

def xorBits : List Bool → List Bool → List Bool
  | a :: r, b :: s => (a ^^ b) :: xorBits r s
  | _, _ => []

/-- two runs over messages of equal length differ by the run of the difference from the state difference -/
theorem feedBits_xor (c d : BitVec 32) (m e : List Bool) (h : m.length = e.length) :
    feedBits (c ^^^ d) (xorBits m e) = feedBits c m ^^^ feedBits d e := by
  induction m generalizing c d e with
  | nil => cases e with
    | nil => rfl
    | cons _ _ => simp at h
  | cons a r ih =>
    cases e with
    | nil => simp at h
    | cons b s =>
      simp only [xorBits, feedBits, List.foldl_cons]
      rw [feedBit_xor]
      exact ih _ _ s (by simpa using h)

theorem crcBit_ne_zero' (c : BitVec 32) (h : c ≠ 0#32) : crcBit c ≠ 0#32 := by
  unfold crcBit
  intro hz
  by_cases hm : c.msb = true
  · simp only [hm, if_true] at hz
    have : ((c <<< 1) ^^^ 0x04C11DB7#32).getLsbD 0 = true := by
      simp [BitVec.getLsbD_xor, BitVec.getLsbD_shiftLeft]
    rw [hz] at this
    simp at this
  · simp only [hm] at hz
    simp only [Bool.false_eq_true, if_false] at hz
    apply h
    apply BitVec.eq_of_getLsbD_eq
    intro i hi
    by_cases h31 : i = 31
    · subst h31
      have : c.msb = false := by simpa using hm
      simpa [BitVec.msb_eq_getLsbD_last] using this
    · have := congrArg (fun x => x.getLsbD (i + 1)) hz
      simp only [BitVec.getLsbD_shiftLeft, BitVec.getLsbD_zero] at this
      have hlt : i + 1 < 32 := by omega
      simpa [hlt] using this

theorem crcBitN_ne_zero (n : Nat) (c : BitVec 32) (h : c ≠ 0#32) : crcBitN n c ≠ 0#32 := by
  induction n generalizing c with
  | zero => exact h
  | succ n ih => rw [crcBitN]; exact ih _ (crcBit_ne_zero' c h)

/-- feeding zeros is just stepping the register -/
theorem feedBits_zeros (c : BitVec 32) (n : Nat) : feedBits c (List.replicate n false) = crcBitN n c := by
  induction n generalizing c with
  | zero => rfl
  | succ n ih =>
    simp only [List.replicate_succ, feedBits, List.foldl_cons]
    rw [feedBit_eq]
    have : topBit false = 0#32 := rfl
    rw [this, BitVec.xor_zero]
    exact ih _

/-- value of a bit list, first bit most significant -/
def bitsVal : List Bool → Nat
  | [] => 0
  | b :: r => (if b then 1 else 0) * 2 ^ r.length + bitsVal r

theorem bitsVal_lt (bits : List Bool) : bitsVal bits < 2 ^ bits.length := by
  induction bits with
  | nil => simp [bitsVal]
  | cons b r ih =>
    simp only [bitsVal, List.length_cons, Nat.pow_succ]
    cases b <;> simp <;> omega

/-- the bits of a message placed at the top of the register: first bit at position 31 -/
def topWord : List Bool → BitVec 32
  | [] => 0#32
  | b :: r => topBit b ^^^ (topWord r >>> 1)

theorem topBit_low (b : Bool) (i : Nat) (h : i < 31) : (topBit b).getLsbD i = false := by
  cases b
  · simp [topBit]
  · have : (0x80000000#32) = BitVec.twoPow 32 31 := by decide
    simp only [topBit, if_true, this, BitVec.getLsbD_twoPow]
    simp; omega

/-- only the top `length` positions can be set -/
theorem topWord_low (r : List Bool) (i : Nat) (h : i + r.length < 32) : (topWord r).getLsbD i = false := by
  induction r generalizing i with
  | nil => simp [topWord]
  | cons b r ih =>
    simp only [topWord, BitVec.getLsbD_xor, BitVec.getLsbD_ushiftRight]
    have h1 : (topBit b).getLsbD i = false := topBit_low b i (by simp at h; omega)
    have h2 : (topWord r).getLsbD (1 + i) = false := ih (1 + i) (by simp at h; omega)
    simp [h1, h2]

/-- one LFSR step undoes the shift of a word whose lowest bit is clear -/
theorem crcBit_shr (w : BitVec 32) (h0 : w.getLsbD 0 = false) : crcBit (w >>> 1) = w := by
  have hm : (w >>> 1).msb = false := by
    rw [BitVec.msb_eq_getLsbD_last]; simp
  unfold crcBit
  simp only [hm, Bool.false_eq_true, if_false]
  apply BitVec.eq_of_getLsbD_eq
  intro i hi
  simp only [BitVec.getLsbD_shiftLeft, BitVec.getLsbD_ushiftRight]
  by_cases hz : i = 0
  · subst hz
    simpa using h0
  · have : 1 + (i - 1) = i := by omega
    simp [hi, this]
    omega

/-- **k ≤ 32 message bits fed into the register = k LFSR steps of (register ⊕ bits at the top)** -/
theorem feedBits_eq (c : BitVec 32) (bits : List Bool) (h : bits.length ≤ 32) :
    feedBits c bits = crcBitN bits.length (c ^^^ topWord bits) := by
  induction bits generalizing c with
  | nil => simp [feedBits, crcBitN, topWord]
  | cons x r ih =>
    have hr : r.length ≤ 32 := by simp at h; omega
    simp only [feedBits, List.foldl_cons, List.length_cons, crcBitN, topWord]
    have := ih (Spec.crcFeedBit c x) hr
    simp only [feedBits] at this
    rw [this, feedBit_eq]
    congr 1
    rw [← BitVec.xor_assoc, crcBit_xor (c ^^^ topBit x), crcBit_shr]
    exact topWord_low r 0 (by simp at h; omega)

theorem topWord_ne_zero (b : List Bool) : topWord (true :: b) ≠ 0#32 := by
  intro h
  have := congrArg (fun x => x.getLsbD 31) h
  simp [topWord, topBit, BitVec.getLsbD_xor, BitVec.getLsbD_ushiftRight] at this

theorem feedBits_append (c : BitVec 32) (a b : List Bool) : feedBits c (a ++ b) = feedBits (feedBits c a) b := by
  simp [feedBits, List.foldl_append]

/-- **burst detection**: an error pattern confined to at most 32 consecutive bits (anywhere in a message of any
length) drives the zero register to a non-zero value -/
theorem burst_nonzero (a t : Nat) (b : List Bool) (hb : b.length ≤ 31) :
    feedBits 0#32 (List.replicate a false ++ (true :: b) ++ List.replicate t false) ≠ 0#32 := by
  simp only [feedBits_append, feedBits_zeros, crcBitN_zero]
  rw [feedBits_eq 0#32 (true :: b) (by simp; omega)]
  apply crcBitN_ne_zero
  apply crcBitN_ne_zero
  simpa using topWord_ne_zero b

end Astits
