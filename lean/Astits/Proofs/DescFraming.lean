/-
C14, input side — framing of a descriptor loop.

Part 1: `parseDescriptor` from offset `o`: the two header bytes decide tag and length, and the iterator is left at
        `o + 2 + length` whatever the body parser consumed (`parseDescriptor_spec`).
Part 2: the loop invariant `DescsAt` (the returned descriptors are located by following the declared lengths of the
        INPUT) and `parseDescriptors_spec`; indexed / summed forms.
-/
import Astits.Model.Desc
import Astits.Proofs.NoPanic.Desc
import Astits.Proofs.PSIVerdict
import Astits.Proofs.DescFraming.Fwd
namespace Astits.DescFraming
open Astits.PSIVerdict

/-! ## Part 1 — one descriptor -/

/-- a parser of a descriptor that returns the tag and the length of `d` -/
def Keeps (d : Descriptor) (p : P Descriptor) : Prop :=
  ∀ i d' i', p i = .ok (d', i') → d'.tag = d.tag ∧ d'.length = d.length

theorem Keeps.ite {d : Descriptor} {c : Prop} [Decidable c] {p q : P Descriptor} (hp : Keeps d p) (hq : Keeps d q) :
    Keeps d (if c then p else q) := by
  split
  · exact hp
  · exact hq

theorem Keeps.upd {α} {d : Descriptor} (p : P α) (f : α → Descriptor)
    (hf : ∀ x, (f x).tag = d.tag ∧ (f x).length = d.length) : Keeps d (p >>= fun x => pure (f x)) := by
  intro i d' i' h
  obtain ⟨x, i1, _, h⟩ := bind_inv h
  simp only [P.pure_run, Res.ok.injEq, Prod.mk.injEq] at h
  obtain ⟨rfl, rfl⟩ := h
  exact hf x

/-- the `switch` only fills in a sub-struct: tag and length are the ones read from the header -/
theorem switch_hdr (d : Descriptor) (e : Int) : Keeps d (parseDescriptorSwitch d e) := by
  unfold parseDescriptorSwitch
  repeat' refine Keeps.ite ?_ ?_
  all_goals exact Keeps.upd _ _ (fun _ => ⟨rfl, rfl⟩)

/-- the tags whose body parser is NOT handed the descriptor end: fixed-size bodies (AVC video, data stream alignment,
maximum bitrate, private data indicator / specifier, stream identifier) and self-delimiting ones (service, short
event, extended event). They may stop before the declared end — even when that end lies beyond the data. -/
def underReaders : List Nat :=
  [descriptorTagAVCVideo, descriptorTagDataStreamAlignment, descriptorTagMaximumBitrate,
   descriptorTagPrivateDataIndicator, descriptorTagPrivateDataSpecifier, descriptorTagStreamIdentifier,
   descriptorTagService, descriptorTagShortEvent, descriptorTagExtendedEvent]

/-- `Reach` from one given state -/
def ReachAt {α} (i : It) (e : Int) (p : P α) : Prop := ∀ a j, p i = .ok (a, j) → e ≤ j.off

theorem Reach.at {α} {e : Int} {p : P α} (h : Reach e p) (i : It) : ReachAt i e p := fun a j hj => h i a j hj

theorem ReachAt.ite {α} {i : It} {e : Int} {c : Prop} [Decidable c] {p q : P α} (hp : c → ReachAt i e p)
    (hq : ¬ c → ReachAt i e q) : ReachAt i e (if c then p else q) := by
  split
  · exact hp ‹_›
  · exact hq ‹_›

theorem ReachAt.upd {α β} {i : It} {e : Int} {p : P α} (f : α → β) (hp : Reach e p) :
    ReachAt i e (p >>= fun x => pure (f x)) :=
  (Reach.bind_left hp (fun _ => Fwd.pure _)).at i

/-- every other tag of the `switch` (and the default branch) reads up to the declared end or fails -/
theorem switch_reach (d : Descriptor) (i : It) (hn : d.tag ∉ underReaders) :
    ReachAt i (i.off + d.length) (parseDescriptorSwitch d (i.off + d.length)) := by
  unfold parseDescriptorSwitch
  repeat' refine ReachAt.ite (fun hc => ?_) (fun hc => ?_)
  all_goals first
    | exact ReachAt.upd _ (Reach_newDescriptorAC3 _)
    | exact ReachAt.upd _ (Reach_newDescriptorComponent _)
    | exact ReachAt.upd _ (Reach_newDescriptorContent _)
    | exact ReachAt.upd _ (Reach_newDescriptorEnhancedAC3 _)
    | exact ReachAt.upd _ (Reach_newDescriptorExtension _)
    | exact ReachAt.upd _ (Reach_newDescriptorISO639LanguageAndAudioType _)
    | exact ReachAt.upd _ (Reach_newDescriptorLocalTimeOffset _)
    | exact ReachAt.upd _ (Reach_newDescriptorNetworkName _)
    | exact ReachAt.upd _ (Reach_newDescriptorParentalRating _)
    | exact ReachAt.upd _ (Reach_newDescriptorRegistration _)
    | exact ReachAt.upd _ (Reach_newDescriptorSubtitling _)
    | exact ReachAt.upd _ (Reach_newDescriptorTeletext _)
    | exact ReachAt.upd _ (Reach_newDescriptorVBIData _)
    | (exfalso; apply hn; rw [hc]; decide)
    | skip
  -- default branch: `newDescriptorUnknown` reads exactly `d.length` bytes
  intro a j h
  obtain ⟨x, i1, h1, h2⟩ := bind_inv h
  simp only [P.pure_run, Res.ok.injEq, Prod.mk.injEq] at h2
  obtain ⟨_, rfl⟩ := h2
  unfold newDescriptorUnknown at h1
  obtain ⟨y, i2, h3, h4⟩ := bind_inv h1
  simp only [P.pure_run, Res.ok.injEq, Prod.mk.injEq] at h4
  obtain ⟨_, rfl⟩ := h4
  obtain ⟨_, _, _, _, rfl⟩ := nextBytes_inv h3
  exact Int.le_refl _

/-- **one descriptor accounts for exactly its declared length**: a successful `parseDescriptor` from offset `o` read
its tag at `o`, its length at `o + 1`, kept the bytes, and left the iterator at `o + 2 + length` — for every tag,
whatever the tag-specific parser consumed (less, or more, than `length` bytes) -/
theorem parseDescriptor_spec (it it' : It) (d : Descriptor) (h : parseDescriptor it = .ok (d, it')) :
    0 ≤ it.off ∧ it.off + 2 ≤ it.bs.length ∧ it'.bs = it.bs ∧
    d.tag = it.bs.getD it.off.toNat 0 ∧ d.length = it.bs.getD (it.off.toNat + 1) 0 ∧
    it'.off = it.off + 2 + d.length := by
  have hkb := KB_parseDescriptor it d it' h
  obtain ⟨bs, off⟩ := it
  simp only at hkb ⊢
  unfold parseDescriptor at h
  obtain ⟨hb, i1, h1, h⟩ := bind_inv h
  obtain ⟨_, h0, hlen, hhb, rfl⟩ := nextBytes_inv h1
  simp only at h0 hlen hhb
  have e2 : (2 : Int).toNat = 2 := rfl
  rw [e2] at hhb
  have g0 : hb.getD 0 0 = bs.getD off.toNat 0 := by
    rw [hhb]; exact slice_getD bs off.toNat 2 0 (by omega)
  have g1 : hb.getD 1 0 = bs.getD (off.toNat + 1) 0 := by
    rw [hhb]; exact slice_getD bs off.toNat 2 1 (by omega)
  dsimp only at h
  split at h
  · obtain ⟨o, i2, h2, h⟩ := bind_inv h
    simp only [It.offset, Res.ok.injEq, Prod.mk.injEq] at h2
    obtain ⟨rfl, rfl⟩ := h2
    obtain ⟨d1, i3, h3, h⟩ := bind_inv h
    obtain ⟨_, i4, h4, h⟩ := bind_inv h
    simp only [It.seek, Res.ok.injEq, Prod.mk.injEq, true_and] at h4
    subst h4
    simp only [P.pure_run, Res.ok.injEq, Prod.mk.injEq] at h
    obtain ⟨rfl, rfl⟩ := h
    have hd : d1.tag = hb.getD 0 0 ∧ d1.length = hb.getD 1 0 := by
      split at h3
      · obtain ⟨u, i5, _, h3⟩ := bind_inv h3
        simp only [P.pure_run, Res.ok.injEq, Prod.mk.injEq] at h3
        obtain ⟨rfl, rfl⟩ := h3
        exact ⟨rfl, rfl⟩
      · exact switch_hdr _ _ _ _ _ h3
    refine ⟨h0, by omega, hkb, by rw [hd.1, g0], by rw [hd.2, g1], ?_⟩
    simp only
    rw [hd.2]
  · rename_i hz
    simp only [P.pure_run, Res.ok.injEq, Prod.mk.injEq] at h
    obtain ⟨rfl, rfl⟩ := h
    simp only at hz ⊢
    refine ⟨h0, by omega, ?_, g0, g1, ?_⟩
    · first | rfl | trivial
    · omega

/-- **a declared length that overruns the data is an error** — for every tag whose body parser reads up to the
declared end (user-defined tags, the default branch, and every typed parser not in `underReaders`): a successful
`parseDescriptor` ends inside the data -/
theorem parseDescriptor_reads (it it' : It) (d : Descriptor) (h : parseDescriptor it = .ok (d, it'))
    (hn : d.tag ∉ underReaders) : it'.off ≤ it.bs.length := by
  obtain ⟨_, hl2, _, _, _, hoff⟩ := parseDescriptor_spec it it' d h
  obtain ⟨bs, off⟩ := it
  simp only at hl2 hoff ⊢
  unfold parseDescriptor at h
  obtain ⟨hb, i1, h1, h⟩ := bind_inv h
  obtain ⟨_, h0, hlen, hhb, rfl⟩ := nextBytes_inv h1
  simp only at h0 hlen
  dsimp only at h
  split at h
  · obtain ⟨o, i2, h2, h⟩ := bind_inv h
    simp only [It.offset, Res.ok.injEq, Prod.mk.injEq] at h2
    obtain ⟨rfl, rfl⟩ := h2
    obtain ⟨d1, i3, h3, h⟩ := bind_inv h
    obtain ⟨_, i4, h4, h⟩ := bind_inv h
    simp only [It.seek, Res.ok.injEq, Prod.mk.injEq, true_and] at h4
    subst h4
    simp only [P.pure_run, Res.ok.injEq, Prod.mk.injEq] at h
    obtain ⟨rfl, rfl⟩ := h
    simp only at hoff ⊢
    split at h3
    · obtain ⟨u, i5, h5, h3⟩ := bind_inv h3
      simp only [P.pure_run, Res.ok.injEq, Prod.mk.injEq] at h3
      obtain ⟨rfl, rfl⟩ := h3
      obtain ⟨_, _, h6, _, _⟩ := nextBytes_inv h5
      simp only at h6 ⊢
      omega
    · have hk := switch_hdr _ _ _ _ _ h3
      have hn' : ({ length := hb.getD 1 0, tag := hb.getD 0 0 } : Descriptor).tag ∉ underReaders := by
        rw [← hk.1]; exact hn
      have hr := switch_reach { length := hb.getD 1 0, tag := hb.getD 0 0 } ⟨bs, off + 2⟩ hn' d1 i3 h3
      have hw := (Fwd_parseDescriptorSwitch _ _ _ _ _ h3).2.2 (by simp only; omega)
      simp only at hr hw
      omega
  · simp only [P.pure_run, Res.ok.injEq, Prod.mk.injEq] at h
    obtain ⟨rfl, rfl⟩ := h
    simp only
    omega

/-! ## Part 2 — the loop -/

/-- the invariant of the descriptor loop with end offset `e`: the returned descriptors, in order, sit at the offsets
obtained by following the declared lengths of the INPUT from `o`; each started before `e` with its two header bytes
inside the data (and its whole declared body too unless its tag is one of `underReaders`); the walk stops at the first
offset `fin ≥ e`; and each returned descriptor IS what `parseDescriptor` returns from its start offset -/
def DescsAt (bs : Bytes) (e : Nat) : Nat → List Descriptor → Nat → Prop
  | o, [], fin => e ≤ o ∧ fin = o
  | o, d :: r, fin =>
    o < e ∧ o + 2 ≤ bs.length ∧ d.tag = bs.getD o 0 ∧ d.length = bs.getD (o + 1) 0 ∧
    (d.tag ∉ underReaders → o + 2 + d.length ≤ bs.length) ∧
    (∃ j, parseDescriptor ⟨bs, o⟩ = .ok (d, j)) ∧
    DescsAt bs e (o + 2 + d.length) r fin

theorem parseDescriptorsLoop_spec (e : Nat) (fuel : Nat) : ∀ (it it' : It) (ds : List Descriptor), 0 ≤ it.off →
    parseDescriptorsLoop e fuel it = .ok (ds, it') →
    it'.bs = it.bs ∧ 0 ≤ it'.off ∧ DescsAt it.bs e it.off.toNat ds it'.off.toNat := by
  induction fuel with
  | zero => intro it it' ds _ h; cases h
  | succ fuel ih =>
    intro it it' ds h0 h
    unfold parseDescriptorsLoop at h
    obtain ⟨o, i1, h1, h⟩ := bind_inv h
    simp only [It.offset, Res.ok.injEq, Prod.mk.injEq] at h1
    obtain ⟨rfl, rfl⟩ := h1
    split at h
    · rename_i hlt
      obtain ⟨d, i2, h2, h⟩ := bind_inv h
      obtain ⟨r, i3, h3, h⟩ := bind_inv h
      simp only [P.pure_run, Res.ok.injEq, Prod.mk.injEq] at h
      obtain ⟨rfl, rfl⟩ := h
      obtain ⟨_, hl, hb2, ht, hln, ho2⟩ := parseDescriptor_spec _ _ _ h2
      have hrd := parseDescriptor_reads _ _ _ h2
      have h02 : 0 ≤ i2.off := by omega
      obtain ⟨hb3, h03, hrest⟩ := ih i2 i3 r h02 h3
      refine ⟨hb3.trans hb2, h03, ?_⟩
      unfold DescsAt
      have hpd : ∃ j, parseDescriptor ⟨it.bs, (it.off.toNat : Nat)⟩ = .ok (d, j) := by
        have e0 : ((it.off.toNat : Nat) : Int) = it.off := by omega
        rw [e0]; exact ⟨i2, h2⟩
      refine ⟨by omega, by omega, ht, hln, fun hn => by have := hrd hn; omega, hpd, ?_⟩
      rw [hb2] at hrest
      have eo : i2.off.toNat = it.off.toNat + 2 + d.length := by omega
      rw [eo] at hrest
      exact hrest
    · rename_i hge
      simp only [P.pure_run, Res.ok.injEq, Prod.mk.injEq] at h
      obtain ⟨rfl, rfl⟩ := h
      refine ⟨rfl, h0, ?_⟩
      unfold DescsAt
      exact ⟨by omega, rfl⟩

/-- the 12-bit `descriptors_loop_length` / `..._info_length` read at `start` -/
def loopLen (bs : Bytes) (start : Nat) : Nat := (bs.getD start 0 % 16) * 256 + bs.getD (start + 1) 0

theorem loopLen_lt (bs : Bytes) (start : Nat) (h : ∀ b ∈ bs, b < 256) : loopLen bs start < 4096 := by
  unfold loopLen
  have : bs.getD (start + 1) 0 < 256 := by
    rw [List.getD_eq_getElem?_getD]
    cases hh : bs[start + 1]? with
    | none => simp
    | some x => exact h x (List.mem_of_getElem? hh)
  omega

/-- **the loop**: a successful `parseDescriptors` from offset `start` read the loop length `L` at `start`, kept the
bytes, and returned the descriptors found by following the declared lengths from `start + 2` up to the first offset
that is not below `start + 2 + L` -/
theorem parseDescriptors_spec (it it' : It) (ds : List Descriptor) (h : parseDescriptors it = .ok (ds, it')) :
    0 ≤ it.off ∧ it.off + 2 ≤ it.bs.length ∧ it'.bs = it.bs ∧ 0 ≤ it'.off ∧
    (loopLen it.bs it.off.toNat = 0 → ds = [] ∧ it'.off = it.off + 2) ∧
    DescsAt it.bs (it.off.toNat + 2 + loopLen it.bs it.off.toNat) (it.off.toNat + 2) ds it'.off.toNat := by
  obtain ⟨bs, off⟩ := it
  simp only
  unfold parseDescriptors at h
  obtain ⟨hb, i1, h1, h⟩ := bind_inv h
  obtain ⟨_, h0, hlen, hhb, rfl⟩ := nextBytes_inv h1
  simp only at h0 hlen hhb
  have e2 : (2 : Int).toNat = 2 := rfl
  rw [e2] at hhb
  have g0 : hb.getD 0 0 = bs.getD off.toNat 0 := by
    rw [hhb]; exact slice_getD bs off.toNat 2 0 (by omega)
  have g1 : hb.getD 1 0 = bs.getD (off.toNat + 1) 0 := by
    rw [hhb]; exact slice_getD bs off.toNat 2 1 (by omega)
  dsimp only at h
  rw [g0, g1] at h
  have eL : List.getD bs off.toNat 0 % 16 * 256 + List.getD bs (off.toNat + 1) 0 = loopLen bs off.toNat := rfl
  rw [eL] at h
  split at h
  · rename_i hpos
    obtain ⟨o, i2, h2, h⟩ := bind_inv h
    simp only [It.offset, Res.ok.injEq, Prod.mk.injEq] at h2
    obtain ⟨rfl, rfl⟩ := h2
    obtain ⟨fuel, i3, h3, h⟩ := bind_inv h
    simp only [loopFuel, Res.ok.injEq, Prod.mk.injEq] at h3
    obtain ⟨rfl, rfl⟩ := h3
    have ee : (off + 2 + (loopLen bs off.toNat : Nat) : Int) = ((off.toNat + 2 + loopLen bs off.toNat : Nat) : Int) := by
      omega
    try simp only at h
    rw [ee] at h
    obtain ⟨hb3, h03, hds⟩ := parseDescriptorsLoop_spec _ _ _ _ _ (by simp only; omega) h
    simp only at hb3 hds
    have eo : (off + 2).toNat = off.toNat + 2 := by omega
    rw [eo] at hds
    exact ⟨h0, by omega, hb3, h03, fun hz => by omega, hds⟩
  · rename_i hz
    simp only [P.pure_run, Res.ok.injEq, Prod.mk.injEq] at h
    obtain ⟨rfl, rfl⟩ := h
    have hz' : loopLen bs off.toNat = 0 := by omega
    refine ⟨h0, by omega, rfl, by simp only; omega, fun _ => ⟨rfl, rfl⟩, ?_⟩
    unfold DescsAt
    simp only
    rw [hz']
    exact ⟨by omega, by omega⟩

/-! ### summed and indexed forms -/

/-- bytes the descriptors occupy according to their own headers: Σ (2 + length) -/
def total (ds : List Descriptor) : Nat := (ds.map fun d => 2 + d.length).sum

@[simp] theorem total_nil : total [] = 0 := rfl
@[simp] theorem total_cons (d : Descriptor) (r : List Descriptor) : total (d :: r) = 2 + d.length + total r := by
  simp [total]

/-- the walk ends at `o + Σ (2 + length)` -/
theorem DescsAt.fin_eq {bs : Bytes} {e : Nat} : ∀ {ds : List Descriptor} {o fin : Nat},
    DescsAt bs e o ds fin → fin = o + total ds := by
  intro ds
  induction ds with
  | nil => intro o fin h; unfold DescsAt at h; simp [h.2]
  | cons d r ih =>
    intro o fin h
    unfold DescsAt at h
    rw [ih h.2.2.2.2.2.2, total_cons]
    omega

/-- … which is never before the loop end: never a partial result -/
theorem DescsAt.end_le {bs : Bytes} {e : Nat} : ∀ {ds : List Descriptor} {o fin : Nat},
    DescsAt bs e o ds fin → e ≤ fin := by
  intro ds
  induction ds with
  | nil => intro o fin h; unfold DescsAt at h; omega
  | cons d r ih => intro o fin h; unfold DescsAt at h; exact ih h.2.2.2.2.2.2

/-- the `k`-th descriptor: it starts at `o + Σ_{j<k} (2 + length_j)`, before the loop end, its two header bytes are
inside the data and they are its tag and its length -/
theorem DescsAt.get {bs : Bytes} {e : Nat} : ∀ (k : Nat) {ds : List Descriptor} {o fin : Nat} (d : Descriptor),
    DescsAt bs e o ds fin → ds[k]? = some d →
    o + total (ds.take k) < e ∧ o + total (ds.take k) + 2 ≤ bs.length ∧
    d.tag = bs.getD (o + total (ds.take k)) 0 ∧ d.length = bs.getD (o + total (ds.take k) + 1) 0 ∧
    (d.tag ∉ underReaders → o + total (ds.take k) + 2 + d.length ≤ bs.length) ∧
    (∃ j, parseDescriptor ⟨bs, (o + total (ds.take k) : Nat)⟩ = .ok (d, j)) := by
  intro k
  induction k with
  | zero =>
    intro ds o fin d h hk
    cases ds with
    | nil => cases hk
    | cons a r =>
      simp only [List.getElem?_cons_zero, Option.some.injEq] at hk
      subst hk
      unfold DescsAt at h
      simp only [List.take_zero, total_nil, Nat.add_zero]
      exact ⟨h.1, h.2.1, h.2.2.1, h.2.2.2.1, h.2.2.2.2.1, h.2.2.2.2.2.1⟩
  | succ k ih =>
    intro ds o fin d h hk
    cases ds with
    | nil => cases hk
    | cons a r =>
      simp only [List.getElem?_cons_succ] at hk
      unfold DescsAt at h
      have := ih d h.2.2.2.2.2.2 hk
      simp only [List.take_succ_cons, total_cons]
      have e1 : o + (2 + a.length + total (List.take k r)) = o + 2 + a.length + total (List.take k r) := by omega
      rw [e1]
      exact this

/-- every descriptor but the last one lies inside the data with its whole declared body (the next header follows it) -/
theorem DescsAt.inner_fits {bs : Bytes} {e : Nat} (k : Nat) {ds : List Descriptor} {o fin : Nat} (d : Descriptor)
    (h : DescsAt bs e o ds fin) (hk : ds[k]? = some d) (hlast : k + 1 < ds.length) :
    o + total (ds.take k) + 2 + d.length < e ∧ o + total (ds.take k) + 2 + d.length + 2 ≤ bs.length := by
  have hk1 : ds[k + 1]? = some ds[k + 1] := List.getElem?_eq_getElem hlast
  obtain ⟨h1, h2, _, _, _, _⟩ := DescsAt.get (k + 1) _ h hk1
  have et : total (ds.take (k + 1)) = total (ds.take k) + (2 + d.length) := by
    have hk' : k < ds.length := by omega
    have hd : ds[k] = d := by
      have := List.getElem?_eq_getElem hk'
      rw [this] at hk
      exact Option.some.inj hk
    rw [List.take_succ_eq_append_getElem hk', hd]
    simp [total]
  rw [et] at h1 h2
  constructor <;> omega

/-- the bytes of the walk: header and declared body of every descriptor, one after the other -/
def frames (bs : Bytes) : Nat → List Descriptor → List Bytes
  | _, [] => []
  | o, d :: r => ([d.tag, d.length] ++ slice bs (o + 2) d.length) :: frames bs (o + 2 + d.length) r

theorem frames_length (bs : Bytes) : ∀ (o : Nat) (ds : List Descriptor), (frames bs o ds).length = ds.length := by
  intro o ds
  induction ds generalizing o with
  | nil => rfl
  | cons d r ih => simp [frames, ih]

theorem slice_two (bs : Bytes) (o : Nat) (h : o + 2 ≤ bs.length) : slice bs o 2 = [bs.getD o 0, bs.getD (o + 1) 0] := by
  apply List.ext_getElem
  · simp [slice]; omega
  · intro k h1 h2
    have hk : k < 2 := by simpa using h2
    have h3 := slice_getD bs o 2 k hk
    rw [List.getD_eq_getElem?_getD, List.getElem?_eq_getElem h1] at h3
    simp only [Option.getD_some] at h3
    rw [h3]
    have : k = 0 ∨ k = 1 := by omega
    rcases this with rfl | rfl <;> rfl

theorem slice_length (bs : Bytes) (a n : Nat) (h : a + n ≤ bs.length) : (slice bs a n).length = n := by
  simp [slice]; omega

/-- **decomposition**: when the walk stays inside the data, the bytes from `o` to its end are exactly
`[tag_0, len_0] ++ body_0 ++ [tag_1, len_1] ++ body_1 ++ …` with `body_i.length = len_i` -/
theorem DescsAt.decompose {bs : Bytes} {e : Nat} : ∀ {ds : List Descriptor} {o fin : Nat},
    DescsAt bs e o ds fin → fin ≤ bs.length →
    slice bs o (total ds) = (frames bs o ds).flatten ∧
    ∀ k d, ds[k]? = some d →
      (frames bs o ds)[k]? = some ([d.tag, d.length] ++ slice bs (o + total (ds.take k) + 2) d.length) ∧
      (slice bs (o + total (ds.take k) + 2) d.length).length = d.length := by
  intro ds
  induction ds with
  | nil =>
    intro o fin _ _
    refine ⟨by simp [slice, frames], fun k d hk => by cases hk⟩
  | cons a r ih =>
    intro o fin h hfin
    have hf := h.fin_eq
    unfold DescsAt at h
    obtain ⟨_, hl, ht, hln, _, _, hr⟩ := h
    obtain ⟨ih1, ih2⟩ := ih hr hfin
    have hfr := hr.fin_eq
    rw [total_cons] at hf
    constructor
    · rw [total_cons]
      have e1 : 2 + a.length + total r = 2 + (a.length + total r) := by omega
      rw [e1, slice_add, slice_add, slice_two bs o hl]
      simp only [frames, List.flatten_cons]
      rw [← ih1, ht, hln]
      simp [Nat.add_assoc]
    · intro k d hk
      cases k with
      | zero =>
        simp only [List.getElem?_cons_zero, Option.some.injEq] at hk
        subst hk
        simp only [frames, List.getElem?_cons_zero, List.take_zero, total_nil, Nat.add_zero, true_and]
        exact slice_length _ _ _ (by omega)
      | succ k =>
        simp only [List.getElem?_cons_succ] at hk
        have := ih2 k d hk
        simp only [frames, List.getElem?_cons_succ, List.take_succ_cons, total_cons]
        have e1 : o + (2 + a.length + total (List.take k r)) = o + 2 + a.length + total (List.take k r) := by omega
        rw [e1]
        exact this

end Astits.DescFraming
