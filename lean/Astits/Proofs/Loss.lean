/-
C06 (loss clause) helpers: what the accumulator does when a contiguous block of 1..14 packets of a PID is lost.
Non-table PID throughout (`(pid == 0 || pm.has pid) = false`).
-/
import Astits.Proofs.Units
namespace Astits.Loss
open Astits

/-! ### counters running on modulo 16 -/

/-- counters run on from `prev` modulo 16; every packet is a plain payload packet (unit starts allowed) -/
def CCRun : Nat → List Packet → Prop
  | _, [] => True
  | prev, p :: r => PlainPayload p ∧ p.header.continuityCounter = (prev + 1) % 16 ∧ CCRun p.header.continuityCounter r

/-- a sequence of plain payload packets of one PID with consecutive counters -/
def Consec : List Packet → Prop
  | [] => True
  | p :: r => PlainPayload p ∧ CCRun p.header.continuityCounter r

/-- the counter of the last packet of `a` (or `c` when `a` is empty) -/
def endCC : Nat → List Packet → Nat
  | c, [] => c
  | _, p :: r => endCC p.header.continuityCounter r

theorem CCRun_append (c : Nat) (a b : List Packet) :
    CCRun c (a ++ b) ↔ CCRun c a ∧ CCRun (endCC c a) b := by
  induction a generalizing c with
  | nil => simp [CCRun, endCC]
  | cons p r ih => simp [CCRun, endCC, ih, and_assoc]

theorem Continues_CCRun (c : Nat) (r : List Packet) (h : Continues c r) : CCRun c r := by
  induction r generalizing c with
  | nil => trivial
  | cons p r ih => exact ⟨h.1, h.2.2.1, ih _ h.2.2.2⟩

theorem Continues_append (c : Nat) (a b : List Packet) :
    Continues c (a ++ b) ↔ Continues c a ∧ Continues (endCC c a) b := by
  induction a generalizing c with
  | nil => simp [Continues, endCC]
  | cons p r ih => simp [Continues, endCC, ih, and_assoc]

theorem endCC_append_singleton (c : Nat) (a : List Packet) (l : Packet) :
    endCC c (a ++ [l]) = l.header.continuityCounter := by
  induction a generalizing c with
  | nil => simp [endCC]
  | cons p r ih => simp [endCC, ih]

theorem endCC_lt (c : Nat) (a : List Packet) (hc : c < 16) (h : CCRun c a) : endCC c a < 16 := by
  induction a generalizing c with
  | nil => simpa [endCC]
  | cons p r ih => exact ih _ h.1.2.2.2 h.2.2

theorem Consec_append_right (a b : List Packet) (h : Consec (a ++ b)) : Consec b := by
  induction a with
  | nil => simpa using h
  | cons p r ih =>
    apply ih
    cases r with
    | nil =>
      cases b with
      | nil => trivial
      | cons q t => exact ⟨h.2.1, h.2.2.2⟩
    | cons q t => exact ⟨h.2.1, h.2.2.2⟩

theorem Consec_append_left (a b : List Packet) (h : Consec (a ++ b)) : Consec a := by
  cases a with
  | nil => trivial
  | cons p r => exact ⟨h.1, ((CCRun_append _ r b).mp h.2).1⟩

/-- **the counter after a gap**: the packet that follows `gap.length` lost packets carries the counter
`c + gap.length + 1` modulo 16 -/
theorem gap_counter (c : Nat) (gap : List Packet) (p : Packet) (r : List Packet)
    (h : CCRun c (gap ++ p :: r)) :
    p.header.continuityCounter = (c + gap.length + 1) % 16 ∧ PlainPayload p := by
  induction gap generalizing c with
  | nil => exact ⟨by simpa using h.2.1, h.1⟩
  | cons q t ih =>
    obtain ⟨e, hp⟩ := ih _ h.2.2
    refine ⟨?_, hp⟩
    rw [e, h.2.1]
    simp only [List.length_cons]
    omega

/-- **key arithmetic fact**: after 1..14 lost packets the next counter is neither the last one received (it is not
taken for a duplicate) nor its successor (it is not taken for the continuation) -/
theorem gap_jump (l g pc : Nat) (hg1 : 1 ≤ g) (hg2 : g ≤ 14) (hpc : pc = (l + g + 1) % 16) :
    pc ≠ l ∧ pc ≠ (l + 1) % 16 := by
  omega

/-! ### the accumulator at a counter jump -/

/-- a plain payload packet whose counter is neither that of the last queued packet nor its successor empties the
queue — what was accumulated is discarded, NOT flushed, even when the packet starts a unit — and is queued alone -/
theorem accAdd_jump (pm : ProgramMap) (pid : Nat) (q : List Packet) (p : Packet) (l : Nat)
    (hnp : (pid == 0 || pm.has pid) = false) (hq : lastCC q = some l) (hp : PlainPayload p)
    (h1 : p.header.continuityCounter ≠ l) (h2 : p.header.continuityCounter ≠ (l + 1) % 16) :
    accAdd pm pid q p = ([], [p]) := by
  obtain ⟨hpay, _, hdi, _⟩ := hp
  have hsame : isSameAsPrevious q p = false := by
    simp [isSameAsPrevious, hq, hpay, h1]
  have hdisc : hasDiscontinuity q p = true := by
    simp [hasDiscontinuity, hdi, hq, hpay, h2]
  unfold accAdd
  by_cases hpusi : p.header.payloadUnitStartIndicator = true <;> simp [hsame, hdisc, hpusi, hnp, hdi]

/-- on an empty queue every plain payload packet is queued alone and nothing is flushed -/
theorem accAdd_nil (pm : ProgramMap) (pid : Nat) (p : Packet)
    (hnp : (pid == 0 || pm.has pid) = false) (hp : PlainPayload p) :
    accAdd pm pid [] p = ([], [p]) := by
  obtain ⟨hpay, _, hdi, _⟩ := hp
  unfold accAdd
  by_cases hpusi : p.header.payloadUnitStartIndicator = true <;>
    simp [isSameAsPrevious, hasDiscontinuity, lastCC, hpusi, hnp, hdi]

/-- **a gap acts as a reset**: if the first packet of `b` jumps, the run over `b` is the run from an empty queue -/
theorem accRun_jump (pm : ProgramMap) (pid : Nat) (q : List Packet) (p : Packet) (b : List Packet) (l : Nat)
    (hnp : (pid == 0 || pm.has pid) = false) (hq : lastCC q = some l) (hp : PlainPayload p)
    (h1 : p.header.continuityCounter ≠ l) (h2 : p.header.continuityCounter ≠ (l + 1) % 16) :
    accRun pm pid q (p :: b) = accRun pm pid [] (p :: b) := by
  simp only [accRun, accAdd_jump pm pid q p l hnp hq hp h1 h2, accAdd_nil pm pid p hnp hp]


/-! ### chains of units as consecutive packet sequences -/

theorem lastCC_eq_endCC (c : Nat) (q : List Packet) (hq : q ≠ []) : lastCC q = some (endCC c q) := by
  induction q generalizing c with
  | nil => exact absurd rfl hq
  | cons p r ih =>
    cases r with
    | nil => simp [lastCC, endCC]
    | cons p' t =>
      have := ih p.header.continuityCounter (by simp)
      simpa [lastCC, endCC, List.getLast?_cons_cons] using this

theorem leadsTo_endCC (c : Nat) (q : List Packet) (n : Nat) (h : QueueLeadsTo q n) (hq : q ≠ []) :
    n = (endCC c q + 1) % 16 ∧ endCC c q < 16 := by
  rcases h with rfl | ⟨q', last, rfl, hl, hn⟩
  · exact absurd rfl hq
  · rw [endCC_append_singleton]; exact ⟨hn, hl⟩

theorem unit_consec (u : UnitPk) (hu : UnitOK u) : Consec u.packets :=
  ⟨hu.1, Continues_CCRun _ _ hu.2.2⟩

theorem packets_ne_nil (u : UnitPk) : u.packets ≠ [] := by simp [UnitPk.packets]

/-- a unit that need not start with a unit start (what is left of a unit cut by a gap) -/
def UnitOK0 (u : UnitPk) : Prop := PlainPayload u.first ∧ Continues u.first.header.continuityCounter u.rest

theorem toOK0 {u : UnitPk} (h : UnitOK u) : UnitOK0 u := ⟨h.1, h.2.2⟩

theorem consec_unit_chain (u : UnitPk) (r : List UnitPk) (hu : UnitOK0 u) (hr : ChainOK u.packets r)
    (ihr : Consec (r.flatMap UnitPk.packets)) : Consec ((u :: r).flatMap UnitPk.packets) := by
  show PlainPayload u.first ∧ CCRun u.first.header.continuityCounter (u.rest ++ r.flatMap UnitPk.packets)
  refine ⟨hu.1, ?_⟩
  rw [CCRun_append]
  refine ⟨Continues_CCRun _ _ hu.2, ?_⟩
  cases r with
  | nil => trivial
  | cons v t =>
    have hl := leadsTo_endCC 0 u.packets _ hr.2.1 (packets_ne_nil u)
    simp only [UnitPk.packets, endCC] at hl
    simp only [List.flatMap_cons, UnitPk.packets, List.cons_append] at ihr ⊢
    exact ⟨ihr.1, hl.1, ihr.2⟩

/-- the packets of a chain of units carry consecutive counters -/
theorem chain_consec (q : List Packet) (us : List UnitPk) (h : ChainOK q us) :
    Consec (us.flatMap UnitPk.packets) := by
  induction us generalizing q with
  | nil => trivial
  | cons u r ih => exact consec_unit_chain u r (toOK0 h.1) h.2.2 (ih _ h.2.2)

theorem ChainOK_append (q : List Packet) (A B : List UnitPk) :
    ChainOK q (A ++ B) ↔ ChainOK q A ∧ ChainOK (finalQueue q A) B := by
  induction A generalizing q with
  | nil => simp [ChainOK, finalQueue]
  | cons u r ih => simp [ChainOK, finalQueue, ih, and_assoc]

theorem ChainOK_nil_queue (q : List Packet) (us : List UnitPk) (h : ChainOK q us) : ChainOK [] us := by
  cases us with
  | nil => trivial
  | cons u r => exact ⟨h.1, Or.inl rfl, h.2.2⟩

theorem finalQueue_snoc (q : List Packet) (U : List UnitPk) (w : UnitPk) : finalQueue q (U ++ [w]) = w.packets := by
  induction U generalizing q with
  | nil => simp [finalQueue]
  | cons u r ih => simp [finalQueue, ih]

/-! ### chains read from an empty queue: the first unit may be headless -/

/-- a chain of units read from an empty queue; the first one need not start with a unit start (after a gap the
stream resumes in the middle of a unit) -/
def ChainOK0 : List UnitPk → Prop
  | [] => True
  | u :: r => UnitOK0 u ∧ ChainOK u.packets r

theorem ChainOK0_of_chain (us : List UnitPk) (h : ChainOK [] us) : ChainOK0 us := by
  cases us with
  | nil => trivial
  | cons u r => exact ⟨(toOK0 h.1), h.2.2⟩

theorem chain0_consec (us : List UnitPk) (h : ChainOK0 us) : Consec (us.flatMap UnitPk.packets) := by
  cases us with
  | nil => trivial
  | cons u r => exact consec_unit_chain u r h.1 h.2 (chain_consec _ r h.2)

theorem accRun_unit0 (pm : ProgramMap) (pid : Nat) (u : UnitPk)
    (hnp : (pid == 0 || pm.has pid) = false) (hu : UnitOK0 u) :
    accRun pm pid [] u.packets = ([] :: List.replicate u.rest.length [], u.packets) := by
  have h1 := accAdd_nil pm pid u.first hnp hu.1
  have h2 := accRun_continues pm pid [] u.first u.rest hnp hu.1.2.2.2 hu.2
  simp only [List.nil_append] at h2
  simp only [UnitPk.packets, accRun, h1, h2]
  simp

theorem accRun_units0 (pm : ProgramMap) (pid : Nat) (us : List UnitPk)
    (hnp : (pid == 0 || pm.has pid) = false) (h : ChainOK0 us) :
    accRun pm pid [] (us.flatMap UnitPk.packets) = (expectedFlushes [] us, finalQueue [] us) := by
  cases us with
  | nil => simp [accRun, expectedFlushes, finalQueue]
  | cons u r =>
    simp only [List.flatMap_cons, accRun_append, accRun_unit0 pm pid u hnp h.1, accRun_units pm pid u.packets r hnp h.2,
      expectedFlushes, finalQueue]

theorem chain0_split (pm : ProgramMap) (pid : Nat) (U1 : List UnitPk) (u : UnitPk) (R : List UnitPk)
    (hnp : (pid == 0 || pm.has pid) = false) (h : ChainOK0 (U1 ++ u :: R)) :
    ChainOK0 U1 ∧ UnitOK0 u ∧ ChainOK u.packets R ∧
      accAdd pm pid (finalQueue [] U1) u.first = (finalQueue [] U1, [u.first]) := by
  cases U1 with
  | nil => exact ⟨trivial, h.1, h.2, by simpa [finalQueue] using accAdd_nil pm pid u.first hnp h.1.1⟩
  | cons f U1' =>
    obtain ⟨hf, hc⟩ := h
    obtain ⟨hc1, hu, hl, hr⟩ := (ChainOK_append _ U1' (u :: R)).mp hc
    exact ⟨⟨hf, hc1⟩, toOK0 hu, hr, accAdd_unit_start pm pid _ u.first hnp hu.1 hu.2.1 hl⟩

/-! ### locating a cut of the packet sequence in the list of units -/

theorem split_prefix (us : List UnitPk) (a r : List Packet) (h : us.flatMap UnitPk.packets = a ++ r) (hr : r ≠ []) :
    ∃ U1 u U2 x z, us = U1 ++ u :: U2 ∧ a = U1.flatMap UnitPk.packets ++ x ∧ u.packets = x ++ z ∧ z ≠ [] ∧
      r = z ++ U2.flatMap UnitPk.packets := by
  induction us generalizing a with
  | nil => simp at h; exact absurd h.2 hr
  | cons u us' ih =>
    rw [List.flatMap_cons, List.append_eq_append_iff] at h
    have case1 : ∀ a', a = u.packets ++ a' → us'.flatMap UnitPk.packets = a' ++ r →
        ∃ U1 w U2 x z, u :: us' = U1 ++ w :: U2 ∧ a = U1.flatMap UnitPk.packets ++ x ∧ w.packets = x ++ z ∧ z ≠ [] ∧
          r = z ++ U2.flatMap UnitPk.packets := fun a' ha h' => by
      obtain ⟨U1, w, U2, x, z, e1, e2, e3, e4, e5⟩ := ih a' h'
      exact ⟨u :: U1, w, U2, x, z, by simp [e1], by simp [ha, e2], e3, e4, e5⟩
    rcases h with ⟨a', ha, h'⟩ | ⟨c', hc, h'⟩
    · exact case1 a' ha h'
    · by_cases hc' : c' = []
      · subst hc'
        exact case1 [] (by simpa using hc.symm) (by simpa using h'.symm)
      · exact ⟨[], u, us', a, c', by simp, by simp, hc, hc', h'⟩

theorem split_suffix (us : List UnitPk) (r b : List Packet) (h : us.flatMap UnitPk.packets = r ++ b) (hr : r ≠ []) :
    ∃ V1 v U3 w y, us = V1 ++ v :: U3 ∧ r = V1.flatMap UnitPk.packets ++ w ∧ v.packets = w ++ y ∧ w ≠ [] ∧
      b = y ++ U3.flatMap UnitPk.packets := by
  induction us generalizing r with
  | nil => simp at h; exact absurd h.1 hr
  | cons u us' ih =>
    rw [List.flatMap_cons, List.append_eq_append_iff] at h
    rcases h with ⟨a', ha, h'⟩ | ⟨c', hc, h'⟩
    · by_cases ha' : a' = []
      · subst ha'
        exact ⟨[], u, us', u.packets, [], by simp, by simpa using ha, by simp, packets_ne_nil u, by simpa using h'.symm⟩
      · obtain ⟨V1, v, U3, w, y, e1, e2, e3, e4, e5⟩ := ih a' h' ha'
        exact ⟨u :: V1, v, U3, w, y, by simp [e1], by simp [ha, e2], e3, e4, e5⟩
    · exact ⟨[], u, us', r, c', by simp, by simp, hc, hr, h'⟩

theorem snoc_of_append_eq {α : Type} (A B C : List α) (v u : α) (h : A ++ [v] = B ++ u :: C) :
    ∃ M', u :: C = M' ++ [v] := by
  rw [List.append_eq_append_iff] at h
  rcases h with ⟨a', _, h'⟩ | ⟨c', _, h'⟩
  · cases a' with
    | nil => exact ⟨[], by simpa using h'.symm⟩
    | cons x t =>
      simp at h'
  · exact ⟨c', h'⟩

/-- **where the gap lies**: `U1` are the units received whole before the gap, `M` the units that lost at least one
packet (`x`: what was received of the first of them before the gap — a proper prefix; `y`: what is received of the last
of them after the gap — a proper suffix), `U3` the units received whole after the gap -/
theorem gap_decomp (us : List UnitPk) (a gap b : List Packet)
    (hs : us.flatMap UnitPk.packets = a ++ gap ++ b) (hgap : gap ≠ []) :
    ∃ U1 M U3 x y, us = U1 ++ M ++ U3 ∧ a = U1.flatMap UnitPk.packets ++ x ∧ b = y ++ U3.flatMap UnitPk.packets ∧
      M.flatMap UnitPk.packets = x ++ gap ++ y ∧
      (∃ u M' z, M = u :: M' ∧ u.packets = x ++ z ∧ z ≠ []) ∧
      (∃ M' v w, M = M' ++ [v] ∧ v.packets = w ++ y ∧ w ≠ []) := by
  obtain ⟨V1, v, U3, w, y, e1, e2, e3, e4, e5⟩ := split_suffix us (a ++ gap) b hs (by simp [hgap])
  have h2 : (V1 ++ [v]).flatMap UnitPk.packets = a ++ (gap ++ y) := by
    simp [e3, ← List.append_assoc, ← e2]
  obtain ⟨U1, u, U2, x, z, f1, f2, f3, f4, f5⟩ := split_prefix (V1 ++ [v]) a (gap ++ y) h2 (by simp [hgap])
  obtain ⟨M', hM'⟩ := snoc_of_append_eq V1 U1 U2 v u f1
  refine ⟨U1, u :: U2, U3, x, y, ?_, f2, e5, ?_, ⟨u, U2, z, rfl, f3, f4⟩, ⟨M', v, w, hM', e3, e4⟩⟩
  · rw [e1, ← f1]; simp
  · simp [f3, f5]


/-! ### what is handed to the unit parser -/

def nonEmpty (g : List Packet) : Bool := !g.isEmpty

/-- the non-empty groups of a run: those flushed on the way, then the queue left (drained at end of stream) -/
def groupsOf (r : List (List Packet) × List Packet) : List (List Packet) := (r.1 ++ [r.2]).filter nonEmpty

/-- the groups handed to the unit parser for the packet sequence `s` of a PID, from an empty queue, end-of-stream
drain included -/
def delivered (pm : ProgramMap) (pid : Nat) (s : List Packet) : List (List Packet) := groupsOf (accRun pm pid [] s)

theorem filter_replicate_nil (n : Nat) : (List.replicate n ([] : List Packet)).filter nonEmpty = [] := by
  simp [nonEmpty]

theorem groups_chain (q : List Packet) (U : List UnitPk) :
    (expectedFlushes q U ++ [finalQueue q U]).filter nonEmpty =
      (if q = [] then [] else [q]) ++ U.map UnitPk.packets := by
  induction U generalizing q with
  | nil =>
    by_cases hq : q = [] <;> simp [expectedFlushes, finalQueue, nonEmpty, hq]
  | cons u r ih =>
    have hne : nonEmpty u.packets = true := by simp [nonEmpty, UnitPk.packets]
    have := ih u.packets
    simp only [expectedFlushes, finalQueue, List.append_assoc, List.cons_append, List.filter_append,
      List.filter_cons, filter_replicate_nil, List.nil_append] at this ⊢
    rw [this]
    by_cases hq : q = [] <;> simp [nonEmpty, hq, packets_ne_nil]

theorem flushes_chain_nil (U : List UnitPk) :
    (expectedFlushes [] U).filter nonEmpty = U.dropLast.map UnitPk.packets := (flushed_units U).1

/-- **loss-free reference**: the groups delivered for a chain of units are exactly the units -/
theorem delivered_chain (pm : ProgramMap) (pid : Nat) (us : List UnitPk)
    (hnp : (pid == 0 || pm.has pid) = false) (h : ChainOK0 us) :
    delivered pm pid (us.flatMap UnitPk.packets) = us.map UnitPk.packets := by
  unfold delivered groupsOf
  rw [accRun_units0 pm pid us hnp h, groups_chain]
  simp

/-! ### the run before the gap -/

/-- reading what precedes the gap: the units received whole are flushed, except the last one when the gap starts on a
unit boundary (it is still queued); the queue holds the end of what was read -/
theorem run_before (pm : ProgramMap) (pid : Nat) (U1 : List UnitPk) (u : UnitPk) (R : List UnitPk) (x z : List Packet)
    (hnp : (pid == 0 || pm.has pid) = false) (hc : ChainOK0 (U1 ++ u :: R)) (hu : u.packets = x ++ z) :
    (accRun pm pid [] (U1.flatMap UnitPk.packets ++ x)).1.filter nonEmpty
        = (if x = [] then U1.dropLast else U1).map UnitPk.packets ∧
    (((accRun pm pid [] (U1.flatMap UnitPk.packets ++ x)).2 = [] ∧ U1 = [] ∧ x = []) ∨
      ∃ a0, U1.flatMap UnitPk.packets ++ x = a0 ++ (accRun pm pid [] (U1.flatMap UnitPk.packets ++ x)).2 ∧
        (accRun pm pid [] (U1.flatMap UnitPk.packets ++ x)).2 ≠ []) := by
  obtain ⟨hc1, huok, _, h1⟩ := chain0_split pm pid U1 u R hnp hc
  rw [accRun_append, accRun_units0 pm pid U1 hnp hc1]
  cases x with
  | nil =>
    simp only [accRun, List.append_nil, if_pos]
    refine ⟨flushes_chain_nil U1, ?_⟩
    rcases List.eq_nil_or_concat U1 with rfl | ⟨U1', w, rfl⟩
    · left; simp [finalQueue]
    · right
      refine ⟨U1'.flatMap UnitPk.packets, ?_, ?_⟩
      · simp [finalQueue_snoc]
      · rw [List.concat_eq_append, finalQueue_snoc]; exact packets_ne_nil w
  | cons p x' =>
    have hp : p = u.first ∧ u.rest = x' ++ z := by
      simpa [UnitPk.packets, eq_comm] using hu
    obtain ⟨rfl, hrest⟩ := hp
    have hcont : Continues u.first.header.continuityCounter x' := by
      have := huok.2; rw [hrest, Continues_append] at this; exact this.1
    have h2 := accRun_continues pm pid [] u.first x' hnp huok.1.2.2.2 hcont
    simp only [List.nil_append] at h2
    simp only [accRun, h1, h2]
    refine ⟨?_, Or.inr ⟨U1.flatMap UnitPk.packets, by simp, by simp⟩⟩
    have := groups_chain [] U1
    simp only [List.filter_append, if_pos, List.nil_append] at this
    simp only [List.filter_append, List.filter_cons, filter_replicate_nil]
    simp only [List.filter_cons, List.filter_nil] at this
    simpa using this

/-! ### the first packet after the gap jumps -/

theorem jump_after (a0 qa gap : List Packet) (p : Packet) (b' : List Packet)
    (hs : Consec (a0 ++ qa ++ gap ++ p :: b')) (hqa : qa ≠ []) (hg1 : 1 ≤ gap.length) (hg2 : gap.length ≤ 14) :
    ∃ l, lastCC qa = some l ∧ PlainPayload p ∧ p.header.continuityCounter ≠ l ∧
      p.header.continuityCounter ≠ (l + 1) % 16 := by
  have h1 : Consec (qa ++ (gap ++ p :: b')) := by
    apply Consec_append_right a0
    simpa [List.append_assoc] using hs
  cases qa with
  | nil => exact absurd rfl hqa
  | cons h t =>
    have h2 : CCRun h.header.continuityCounter (t ++ (gap ++ p :: b')) := h1.2
    rw [CCRun_append] at h2
    obtain ⟨e, hp⟩ := gap_counter _ gap p b' h2.2
    have hl : lastCC (h :: t) = some (endCC h.header.continuityCounter t) := lastCC_eq_endCC 0 (h :: t) (by simp)
    obtain ⟨j1, j2⟩ := gap_jump (endCC h.header.continuityCounter t) gap.length _ hg1 hg2 e
    exact ⟨_, hl, hp, j1, j2⟩


/-! ### the run after the gap -/

theorem QueueLeadsTo_suffix (w y : List Packet) (n : Nat) (h : QueueLeadsTo (w ++ y) n) (hy : y ≠ []) :
    QueueLeadsTo y n := by
  rcases h with h | ⟨q', l, e, hl, hn⟩
  · simp at h; exact absurd h.2 hy
  · right
    rw [List.append_eq_append_iff] at e
    rcases e with ⟨a', _, e'⟩ | ⟨c', _, e'⟩
    · exact ⟨a', l, e', hl, hn⟩
    · cases c' with
      | nil => exact ⟨[], l, by simpa using e'.symm, hl, hn⟩
      | cons c t =>
        simp at e'
        exact absurd e'.2.2 hy

theorem ChainOK_suffix (w y : List Packet) (U : List UnitPk) (h : ChainOK (w ++ y) U) (hy : y ≠ []) : ChainOK y U := by
  cases U with
  | nil => trivial
  | cons u r => exact ⟨h.1, QueueLeadsTo_suffix w y _ h.2.1 hy, h.2.2⟩

/-- a headless fragment: a non-empty proper suffix of a unit's packets (it does not contain the unit's first packet) -/
def Headless (v : UnitPk) (f : List Packet) : Prop :=
  ∃ m, 0 < m ∧ m < v.packets.length ∧ f = v.packets.drop m

theorem headless_of_split (v : UnitPk) (w y : List Packet) (h : v.packets = w ++ y) (hw : w ≠ []) (hy : y ≠ []) :
    Headless v y := by
  refine ⟨w.length, List.length_pos_iff.mpr hw, ?_, ?_⟩
  · rw [h, List.length_append]
    have := List.length_pos_iff.mpr hy
    omega
  · rw [h]; simp

/-- no packet of a headless fragment of a well-formed unit starts a unit -/
theorem headless_no_pusi (v : UnitPk) (f : List Packet) (hv : UnitOK0 v) (h : Headless v f) :
    ∀ p ∈ f, p.header.payloadUnitStartIndicator = false := by
  obtain ⟨m, hm, _, rfl⟩ := h
  have hall : ∀ (c : Nat) (r : List Packet), Continues c r → ∀ p ∈ r, p.header.payloadUnitStartIndicator = false := by
    intro c r
    induction r generalizing c with
    | nil => intro _ p hp; cases hp
    | cons q t ih =>
      intro hc p hp
      rcases List.mem_cons.mp hp with rfl | hp
      · exact hc.2.1
      · exact ih _ hc.2.2.2 p hp
  intro p hp
  obtain ⟨k, rfl⟩ : ∃ k, m = k + 1 := ⟨m - 1, by omega⟩
  simp only [UnitPk.packets, List.drop_succ_cons] at hp
  exact hall _ _ hv.2 p (List.mem_of_mem_drop hp)

/-- reading what follows the gap from an empty queue: the tail `y` of the unit cut by the gap is queued and flushed
as it is (a headless fragment), the later units are delivered whole -/
theorem run_after (pm : ProgramMap) (pid : Nat) (v : UnitPk) (w y : List Packet) (U3 : List UnitPk)
    (hnp : (pid == 0 || pm.has pid) = false) (hv : UnitOK0 v) (hvp : v.packets = w ++ y) (hw : w ≠ [])
    (hc : ChainOK v.packets U3) :
    groupsOf (accRun pm pid [] (y ++ U3.flatMap UnitPk.packets)) =
      (if y = [] then [] else [y]) ++ U3.map UnitPk.packets := by
  cases y with
  | nil =>
    simp only [List.nil_append, if_pos, groupsOf]
    rw [accRun_units pm pid [] U3 hnp (ChainOK_nil_queue _ _ hc), groups_chain]
    simp
  | cons p y' =>
    cases w with
    | nil => exact absurd rfl hw
    | cons f w' =>
      have hp : f = v.first ∧ v.rest = w' ++ p :: y' := by
        simpa [UnitPk.packets, eq_comm] using hvp
      obtain ⟨rfl, hrest⟩ := hp
      have hcont := hv.2
      rw [hrest, Continues_append] at hcont
      obtain ⟨hpp, _, _, hcy⟩ := hcont.2
      have h1 := accAdd_nil pm pid p hnp hpp
      have h2 := accRun_continues pm pid [] p y' hnp hpp.2.2.2 hcy
      simp only [List.nil_append] at h2
      have hc' : ChainOK (p :: y') U3 := by
        rw [hvp] at hc; exact ChainOK_suffix _ _ _ hc (by simp)
      have h3 := accRun_units pm pid (p :: y') U3 hnp hc'
      have hrun : accRun pm pid [] ((p :: y') ++ U3.flatMap UnitPk.packets) =
          ([] :: List.replicate y'.length [] ++ expectedFlushes (p :: y') U3, finalQueue (p :: y') U3) := by
        rw [accRun_append]
        simp only [accRun, h1, h2, List.cons_append, List.nil_append, h3]
      rw [hrun]
      have := groups_chain (p :: y') U3
      simp only [groupsOf, List.cons_append, List.filter_cons, List.filter_append, filter_replicate_nil] at this ⊢
      simpa [nonEmpty] using this

/-! ### one gap -/

/-- **a gap acts as a reset**: what is flushed while reading the rest of the stream after a gap of 1..14 packets, and
the queue left at the end, are what the accumulator produces for that rest from an empty queue; whatever was queued
when the gap occurred is discarded. (Only the first packet `p` after the gap matters: `b0'` is arbitrary.) -/
theorem gap_resets (pm : ProgramMap) (pid : Nat) (us : List UnitPk) (a gap : List Packet) (p : Packet) (b0 b0' : List Packet)
    (hnp : (pid == 0 || pm.has pid) = false) (hc : ChainOK0 us)
    (hs : us.flatMap UnitPk.packets = a ++ gap ++ p :: b0) (hg1 : 1 ≤ gap.length) (hg2 : gap.length ≤ 14) :
    accRun pm pid [] (a ++ p :: b0') =
      ((accRun pm pid [] a).1 ++ (accRun pm pid [] (p :: b0')).1, (accRun pm pid [] (p :: b0')).2) := by
  have hgap : gap ≠ [] := by intro h; simp [h] at hg1
  obtain ⟨U1, M, U3, x, y, e1, e2, e3, e4, ⟨u, M', z, rfl, hu, hz⟩, _⟩ := gap_decomp us a gap (p :: b0) hs hgap
  have hc' : ChainOK0 (U1 ++ u :: (M' ++ U3)) := by simpa [e1] using hc
  obtain ⟨_, hq⟩ := run_before pm pid U1 u (M' ++ U3) x z hnp hc' hu
  rw [← e2] at hq
  rw [accRun_append]
  rcases hq with ⟨hq, _, _⟩ | ⟨a0, ha0, hne⟩
  · rw [hq]
  · have hcon : Consec (a0 ++ (accRun pm pid [] a).2 ++ gap ++ p :: b0) := by
      rw [← ha0, ← hs]; exact chain0_consec us hc
    obtain ⟨l, hl, hp, j1, j2⟩ := jump_after a0 _ gap p b0 hcon hne hg1 hg2
    rw [accRun_jump pm pid _ p b0' l hnp hl hp j1 j2]

/-- **one gap, precise shape** (in terms of the decomposition of `gap_decomp`) -/
theorem one_gap_groups (pm : ProgramMap) (pid : Nat) (U1 M U3 : List UnitPk) (x gap y : List Packet)
    (hnp : (pid == 0 || pm.has pid) = false) (hc : ChainOK0 (U1 ++ M ++ U3))
    (hM : M.flatMap UnitPk.packets = x ++ gap ++ y)
    (hfirst : ∃ u M' z, M = u :: M' ∧ u.packets = x ++ z ∧ z ≠ [])
    (hlast : ∃ M' v w, M = M' ++ [v] ∧ v.packets = w ++ y ∧ w ≠ [])
    (hg1 : 1 ≤ gap.length) (hg2 : gap.length ≤ 14) (hb : y ++ U3.flatMap UnitPk.packets ≠ []) :
    delivered pm pid ((U1.flatMap UnitPk.packets ++ x) ++ (y ++ U3.flatMap UnitPk.packets)) =
      (if x = [] then U1.dropLast else U1).map UnitPk.packets ++ (if y = [] then [] else [y]) ++
        U3.map UnitPk.packets := by
  obtain ⟨p, b0, hpb⟩ : ∃ p b0, y ++ U3.flatMap UnitPk.packets = p :: b0 := by
    cases h : y ++ U3.flatMap UnitPk.packets with
    | nil => exact absurd h hb
    | cons p b0 => exact ⟨p, b0, rfl⟩
  have hs : (U1 ++ M ++ U3).flatMap UnitPk.packets =
      (U1.flatMap UnitPk.packets ++ x) ++ gap ++ p :: b0 := by
    rw [← hpb]; simp [hM]
  have hr := gap_resets pm pid _ _ gap p b0 b0 hnp hc hs hg1 hg2
  obtain ⟨u, M1, z, rfl, hu, _⟩ := hfirst
  obtain ⟨M2, v, w, hM2, hv, hw⟩ := hlast
  have hc1 : ChainOK0 (U1 ++ u :: (M1 ++ U3)) := by simpa using hc
  obtain ⟨hfl, _⟩ := run_before pm pid U1 u (M1 ++ U3) x z hnp hc1 hu
  have hc2 : ChainOK0 ((U1 ++ M2) ++ v :: U3) := by
    rw [hM2] at hc; simpa [List.append_assoc] using hc
  obtain ⟨_, hvok, hcv, _⟩ := chain0_split pm pid _ v U3 hnp hc2
  have haf := run_after pm pid v w y U3 hnp hvok hv hw hcv
  unfold delivered
  rw [hpb, hr, ← hpb]
  unfold groupsOf at haf ⊢
  simp only [List.append_assoc, List.filter_append] at haf ⊢
  rw [hfl, haf]


/-! ### the relation between the units sent and the groups delivered -/

/-- `gs` is obtained from the units `us`, in order, by delivering a unit whole, dropping it, or delivering a headless
fragment of it (at most one group per unit, never a group made of packets of two units) -/
inductive Lossy : List UnitPk → List (List Packet) → Prop
  | nil : Lossy [] []
  | whole (u : UnitPk) {us : List UnitPk} {gs : List (List Packet)} : Lossy us gs → Lossy (u :: us) (u.packets :: gs)
  | drop (u : UnitPk) {us : List UnitPk} {gs : List (List Packet)} : Lossy us gs → Lossy (u :: us) gs
  | frag (u : UnitPk) (f : List Packet) {us : List UnitPk} {gs : List (List Packet)} :
      Headless u f → Lossy us gs → Lossy (u :: us) (f :: gs)

theorem Lossy.refl (U : List UnitPk) : Lossy U (U.map UnitPk.packets) := by
  induction U with
  | nil => exact .nil
  | cons u r ih => exact .whole u ih

theorem Lossy.dropAll (U : List UnitPk) : Lossy U [] := by
  induction U with
  | nil => exact .nil
  | cons u r ih => exact .drop u ih

theorem Lossy.append {A B : List UnitPk} {g1 g2 : List (List Packet)} (h1 : Lossy A g1) (h2 : Lossy B g2) :
    Lossy (A ++ B) (g1 ++ g2) := by
  induction h1 with
  | nil => simpa using h2
  | whole u _ ih => exact .whole u ih
  | drop u _ ih => exact .drop u ih
  | frag u f hf _ ih => exact .frag u f hf ih

theorem Lossy.dropLast (U : List UnitPk) : Lossy U (U.dropLast.map UnitPk.packets) := by
  rcases List.eq_nil_or_concat U with rfl | ⟨U', w, rfl⟩
  · exact .nil
  · rw [List.concat_eq_append, List.dropLast_concat]
    simpa using Lossy.append (Lossy.refl U') (Lossy.dropAll [w])

/-- every delivered group is a whole unit or a headless fragment of a unit -/
theorem Lossy.classify {us : List UnitPk} {gs : List (List Packet)} (h : Lossy us gs) :
    ∀ g ∈ gs, (∃ u ∈ us, g = u.packets) ∨ (∃ v ∈ us, Headless v g) := by
  induction h with
  | nil => intro g hg; cases hg
  | whole u _ ih =>
    intro g hg
    rcases List.mem_cons.mp hg with rfl | hg
    · exact Or.inl ⟨u, by simp, rfl⟩
    · rcases ih g hg with ⟨w, hw, e⟩ | ⟨w, hw, e⟩
      · exact Or.inl ⟨w, by simp [hw], e⟩
      · exact Or.inr ⟨w, by simp [hw], e⟩
  | drop u _ ih =>
    intro g hg
    rcases ih g hg with ⟨w, hw, e⟩ | ⟨w, hw, e⟩
    · exact Or.inl ⟨w, by simp [hw], e⟩
    · exact Or.inr ⟨w, by simp [hw], e⟩
  | frag u f hf _ ih =>
    intro g hg
    rcases List.mem_cons.mp hg with rfl | hg
    · exact Or.inr ⟨u, by simp, hf⟩
    · rcases ih g hg with ⟨w, hw, e⟩ | ⟨w, hw, e⟩
      · exact Or.inl ⟨w, by simp [hw], e⟩
      · exact Or.inr ⟨w, by simp [hw], e⟩

theorem Lossy.length_le {us : List UnitPk} {gs : List (List Packet)} (h : Lossy us gs) : gs.length ≤ us.length := by
  induction h with
  | nil => simp
  | whole u _ ih => simp; omega
  | drop u _ ih => simp; omega
  | frag u f _ _ ih => simp; omega

/-! ### several gaps, counting the units not delivered whole -/

/-- `Lossy` with a count: `n` units of `us` are not delivered whole (dropped, or delivered as a headless fragment) -/
inductive LossyN : Nat → List UnitPk → List (List Packet) → Prop
  | nil : LossyN 0 [] []
  | whole (u : UnitPk) {n : Nat} {us : List UnitPk} {gs : List (List Packet)} :
      LossyN n us gs → LossyN n (u :: us) (u.packets :: gs)
  | drop (u : UnitPk) {n : Nat} {us : List UnitPk} {gs : List (List Packet)} : LossyN n us gs → LossyN (n + 1) (u :: us) gs
  | frag (u : UnitPk) (f : List Packet) {n : Nat} {us : List UnitPk} {gs : List (List Packet)} :
      Headless u f → LossyN n us gs → LossyN (n + 1) (u :: us) (f :: gs)

theorem LossyN.toLossy {n : Nat} {us : List UnitPk} {gs : List (List Packet)} (h : LossyN n us gs) : Lossy us gs := by
  induction h with
  | nil => exact .nil
  | whole u _ ih => exact .whole u ih
  | drop u _ ih => exact .drop u ih
  | frag u f hf _ ih => exact .frag u f hf ih

theorem LossyN.refl (U : List UnitPk) : LossyN 0 U (U.map UnitPk.packets) := by
  induction U with
  | nil => exact .nil
  | cons u r ih => exact .whole u ih

theorem LossyN.dropAll (U : List UnitPk) : LossyN U.length U [] := by
  induction U with
  | nil => exact .nil
  | cons u r ih => exact .drop u ih

theorem LossyN.append {n1 n2 : Nat} {A B : List UnitPk} {g1 g2 : List (List Packet)}
    (h1 : LossyN n1 A g1) (h2 : LossyN n2 B g2) : LossyN (n1 + n2) (A ++ B) (g1 ++ g2) := by
  induction h1 with
  | nil => simpa using h2
  | whole u _ ih => exact .whole u ih
  | drop u _ ih => rw [Nat.add_right_comm]; exact .drop u ih
  | frag u f hf _ ih => rw [Nat.add_right_comm]; exact .frag u f hf ih

theorem LossyN.dropLast (U : List UnitPk) : ∃ n, n ≤ 1 ∧ LossyN n U (U.dropLast.map UnitPk.packets) := by
  rcases List.eq_nil_or_concat U with rfl | ⟨U', w, rfl⟩
  · exact ⟨0, by omega, .nil⟩
  · rw [List.concat_eq_append, List.dropLast_concat]
    exact ⟨1, by omega, by simpa using LossyN.append (LossyN.refl U') (LossyN.dropAll [w])⟩

/-- the number of whole units among the groups: all units but `n` -/
theorem LossyN.count {n : Nat} {us : List UnitPk} {gs : List (List Packet)} (h : LossyN n us gs) :
    n ≤ us.length ∧ us.length - n ≤ gs.length := by
  induction h with
  | nil => simp
  | whole u _ ih => simp only [List.length_cons]; omega
  | drop u _ ih => simp only [List.length_cons]; omega
  | frag u f _ _ ih => simp only [List.length_cons]; omega

theorem rest_chain0N (v : UnitPk) (w y : List Packet) (U3 : List UnitPk)
    (hv : UnitOK0 v) (hvp : v.packets = w ++ y) (hw : w ≠ []) (hc : ChainOK v.packets U3) :
    ∃ R, ChainOK0 R ∧ R.flatMap UnitPk.packets = y ++ U3.flatMap UnitPk.packets ∧
      (∀ n gs, LossyN n R gs → ∃ n', n' ≤ n + 1 ∧ LossyN n' (v :: U3) gs) := by
  cases y with
  | nil =>
    exact ⟨U3, ChainOK0_of_chain _ (ChainOK_nil_queue _ _ hc), by simp, fun n gs h => ⟨n + 1, by omega, .drop v h⟩⟩
  | cons p y' =>
    cases w with
    | nil => exact absurd rfl hw
    | cons f w' =>
      have hp : f = v.first ∧ v.rest = w' ++ p :: y' := by
        simpa [UnitPk.packets, eq_comm] using hvp
      obtain ⟨rfl, hrest⟩ := hp
      have hcont := hv.2
      rw [hrest, Continues_append] at hcont
      obtain ⟨hpp, _, _, hcy⟩ := hcont.2
      have hc' : ChainOK (p :: y') U3 := by
        rw [hvp] at hc; exact ChainOK_suffix _ _ _ hc (by simp)
      refine ⟨⟨p, y'⟩ :: U3, ⟨⟨hpp, hcy⟩, hc'⟩, by simp [UnitPk.packets], ?_⟩
      intro n gs h
      have hhl : Headless v (p :: y') := headless_of_split v _ _ hvp (by simp) (by simp)
      cases h with
      | whole _ h' => exact ⟨_, by omega, .frag v _ hhl h'⟩
      | drop _ h' => exact ⟨_, by omega, .drop v h'⟩
      | frag _ f hf h' =>
        refine ⟨_, by omega, .frag v f ?_ h'⟩
        obtain ⟨m, hm1, hm2, rfl⟩ := hf
        refine ⟨(v.first :: w').length + m, by omega, ?_, ?_⟩
        · rw [hvp]; simp only [UnitPk.packets, List.length_cons, List.length_append] at hm2 ⊢; omega
        · rw [hvp, List.drop_append]
          simp [UnitPk.packets]

theorem length_le_flatMap (U : List UnitPk) : U.length ≤ (U.flatMap UnitPk.packets).length := by
  induction U with
  | nil => simp
  | cons u r ih =>
    simp only [List.flatMap_cons, List.length_append, UnitPk.packets, List.length_cons]; omega

/-- the units that lose a packet in a gap are at most as many as the packets lost -/
theorem touched_le_gap (M : List UnitPk) (x gap y : List Packet)
    (hM : M.flatMap UnitPk.packets = x ++ gap ++ y) (hg : 1 ≤ gap.length)
    (hfirst : ∃ u M' z, M = u :: M' ∧ u.packets = x ++ z ∧ z ≠ [])
    (hlast : ∃ M' v w, M = M' ++ [v] ∧ v.packets = w ++ y ∧ w ≠ []) : M.length ≤ gap.length := by
  obtain ⟨u, M1, z, rfl, hu, hz⟩ := hfirst
  obtain ⟨M2, v, w, hM2, hv, hw⟩ := hlast
  cases M2 with
  | nil =>
    simp at hM2; simp [hM2.2]; exact hg
  | cons m M2' =>
    simp only [List.cons_append, List.cons.injEq] at hM2
    obtain ⟨rfl, rfl⟩ := hM2
    have hl := congrArg List.length hM
    have hmid := length_le_flatMap M2'
    have hz' := List.length_pos_iff.mpr hz
    have hw' := List.length_pos_iff.mpr hw
    simp only [List.flatMap_cons, List.flatMap_append, List.flatMap_nil, List.append_nil, List.length_append, hu, hv,
      List.length_cons, List.length_nil] at hl ⊢
    omega

/-- the stream as sent: `a0`, then for each pair a lost block followed by a received block -/
def origOf (a0 : List Packet) (tail : List (List Packet × List Packet)) : List Packet :=
  a0 ++ tail.flatMap (fun gk => gk.1 ++ gk.2)

/-- the stream as received: the lost blocks removed -/
def lossyOf (a0 : List Packet) (tail : List (List Packet × List Packet)) : List Packet :=
  a0 ++ tail.flatMap (fun gk => gk.2)

/-- every lost block has 1..14 packets and is followed by at least one received packet -/
def GapsOK (tail : List (List Packet × List Packet)) : Prop :=
  ∀ gk ∈ tail, 1 ≤ gk.1.length ∧ gk.1.length ≤ 14 ∧ gk.2 ≠ []

/-- **several gaps**: the groups delivered for the lossy stream arise from the units sent, in order, by delivering a
unit whole, dropping it, or delivering a headless fragment of it; the units not delivered whole are at most the lost
packets plus one per gap -/
theorem multi_gapN (pm : ProgramMap) (pid : Nat) (tail : List (List Packet × List Packet))
    (hnp : (pid == 0 || pm.has pid) = false) :
    ∀ (us : List UnitPk) (a0 : List Packet), ChainOK0 us → us.flatMap UnitPk.packets = origOf a0 tail → GapsOK tail →
      ∃ n, n ≤ (tail.map (fun gk => gk.1.length + 1)).sum ∧ LossyN n us (delivered pm pid (lossyOf a0 tail)) := by
  induction tail with
  | nil =>
    intro us a0 hc hs _
    simp only [origOf, lossyOf, List.flatMap_nil, List.append_nil] at hs ⊢
    rw [← hs, delivered_chain pm pid us hnp hc]
    exact ⟨0, by simp, LossyN.refl us⟩
  | cons gk t ih =>
    intro us a0 hc hs hg
    obtain ⟨g, k⟩ := gk
    obtain ⟨hg1, hg2, hk⟩ := hg (g, k) (by simp)
    have hgt : GapsOK t := fun x hx => hg x (by simp [hx])
    obtain ⟨p, k0, rfl⟩ : ∃ p k0, k = p :: k0 := by
      cases k with
      | nil => exact absurd rfl hk
      | cons p k0 => exact ⟨p, k0, rfl⟩
    have hs' : us.flatMap UnitPk.packets = a0 ++ g ++ origOf (p :: k0) t := by
      rw [hs]; simp [origOf]
    have hgap : g ≠ [] := by intro h; simp [h] at hg1
    obtain ⟨U1, M, U3, x, y, e1, e2, e3, e4, h5, h6⟩ := gap_decomp us a0 g _ hs' hgap
    have hMg := touched_le_gap M x g y e4 hg1 h5 h6
    obtain ⟨u, M1, z, hM1, hu, hz⟩ := h5
    obtain ⟨M2, v, w, hM2, hv, hw⟩ := h6
    have hr := gap_resets pm pid us a0 g p (k0 ++ t.flatMap (fun gk => gk.1 ++ gk.2)) (k0 ++ t.flatMap (fun gk => gk.2))
      hnp hc (by rw [hs']; simp [origOf]) hg1 hg2
    have hl : lossyOf a0 ((g, p :: k0) :: t) = a0 ++ p :: (k0 ++ t.flatMap (fun gk => gk.2)) := by
      simp [lossyOf]
    have hl' : lossyOf (p :: k0) t = p :: (k0 ++ t.flatMap (fun gk => gk.2)) := by simp [lossyOf]
    have hc1 : ChainOK0 (U1 ++ u :: (M1 ++ U3)) := by rw [e1, hM1] at hc; simpa using hc
    obtain ⟨hfl, _⟩ := run_before pm pid U1 u (M1 ++ U3) x z hnp hc1 hu
    rw [← e2] at hfl
    have hc2 : ChainOK0 ((U1 ++ M2) ++ v :: U3) := by
      rw [e1, hM2] at hc; simpa [List.append_assoc] using hc
    obtain ⟨_, hvok, hcv, _⟩ := chain0_split pm pid _ v U3 hnp hc2
    obtain ⟨R, hR, hRf, hRl⟩ := rest_chain0N v w y U3 hvok hv hw hcv
    obtain ⟨nr, hnr, hrec⟩ := ih R (p :: k0) hR (by rw [hRf, ← e3]) hgt
    have hdel : delivered pm pid (lossyOf a0 ((g, p :: k0) :: t)) =
        (if x = [] then U1.dropLast else U1).map UnitPk.packets ++ delivered pm pid (lossyOf (p :: k0) t) := by
      unfold delivered groupsOf
      rw [hl, hr, hl']
      simp only [List.append_assoc, List.filter_append, hfl]
    rw [hdel, e1, hM2]
    have h1 : ∃ n1, n1 ≤ 1 ∧ LossyN n1 U1 ((if x = [] then U1.dropLast else U1).map UnitPk.packets) := by
      by_cases hx : x = []
      · simp only [hx, if_pos]; exact LossyN.dropLast U1
      · simp only [hx, if_neg, not_false_eq_true]; exact ⟨0, by omega, LossyN.refl U1⟩
    obtain ⟨n1, hn1, h1⟩ := h1
    obtain ⟨n3, hn3, h3⟩ := hRl _ _ hrec
    have h2 := LossyN.append (LossyN.append h1 (LossyN.dropAll M2)) h3
    refine ⟨n1 + M2.length + n3, ?_, by simpa [List.append_assoc] using h2⟩
    have : M.length = M2.length + 1 := by rw [hM2]; simp
    simp only [List.map_cons, List.sum_cons]
    omega

theorem multi_gap (pm : ProgramMap) (pid : Nat) (tail : List (List Packet × List Packet))
    (hnp : (pid == 0 || pm.has pid) = false) (us : List UnitPk) (a0 : List Packet) (hc : ChainOK0 us)
    (hs : us.flatMap UnitPk.packets = origOf a0 tail) (hg : GapsOK tail) :
    Lossy us (delivered pm pid (lossyOf a0 tail)) := by
  obtain ⟨_, _, h⟩ := multi_gapN pm pid tail hnp us a0 hc hs hg
  exact h.toLossy

/-! ### the data delivered -/

/-- the data the demuxer gets out of a group handed to the unit parser (a parse error yields no data) -/
def dataOf (prs : ParserKind) (pm : ProgramMap) (g : List Packet) : List DemuxerData :=
  match parseData g prs pm with
  | .ok ds => ds
  | _ => []

/-- the fragment is not mistaken for a unit: the unit parser gets no data out of it (`.ok []` or an error) -/
def NoFalseStart (prs : ParserKind) (pm : ProgramMap) (f : List Packet) : Prop := dataOf prs pm f = []

/-- the data delivered for the packet sequence `s` of a PID (end-of-stream drain included) -/
def deliveredData (prs : ParserKind) (pm : ProgramMap) (pid : Nat) (s : List Packet) : List DemuxerData :=
  (delivered pm pid s).flatMap (dataOf prs pm)

theorem Lossy.data_sublist (prs : ParserKind) (pm : ProgramMap) {us : List UnitPk} {gs : List (List Packet)}
    (h : Lossy us gs) (hnf : ∀ v ∈ us, ∀ f, Headless v f → NoFalseStart prs pm f) :
    (gs.flatMap (dataOf prs pm)).Sublist (us.flatMap (fun u => dataOf prs pm u.packets)) := by
  induction h with
  | nil => simp
  | whole u _ ih =>
    simp only [List.flatMap_cons]
    exact List.Sublist.append (List.Sublist.refl _) (ih (fun v hv => hnf v (by simp [hv])))
  | drop u _ ih =>
    simp only [List.flatMap_cons]
    exact (ih (fun v hv => hnf v (by simp [hv]))).trans (List.sublist_append_right _ _)
  | frag u f hf _ ih =>
    have : dataOf prs pm f = [] := hnf u (by simp) f hf
    simp only [List.flatMap_cons, this, List.nil_append]
    exact (ih (fun v hv => hnf v (by simp [hv]))).trans (List.sublist_append_right _ _)

theorem deliveredData_chain (prs : ParserKind) (pm : ProgramMap) (pid : Nat) (us : List UnitPk)
    (hnp : (pid == 0 || pm.has pid) = false) (h : ChainOK0 us) :
    deliveredData prs pm pid (us.flatMap UnitPk.packets) = us.flatMap (fun u => dataOf prs pm u.packets) := by
  unfold deliveredData
  rw [delivered_chain pm pid us hnp h, List.flatMap_map]

/-! ### duplicates -/

/-- at the accumulator: the same payload packet (no discontinuity indicator) again changes nothing -/
theorem accAdd_twice (pm : ProgramMap) (pid : Nat) (q : List Packet) (p : Packet)
    (hnp : (pid == 0 || pm.has pid) = false) (hpay : p.header.hasPayload = true) (hdi : pktDI p = false) :
    accAdd pm pid (accAdd pm pid q p).2 p = ([], (accAdd pm pid q p).2) := by
  have hdup : ∀ q', isSameAsPrevious q' p = true → accAdd pm pid q' p = ([], q') := fun q' hs => by
    unfold accAdd; simp [hs, hdi]
  by_cases hs : isSameAsPrevious q p = true
  · rw [hdup q hs]; exact hdup q hs
  · have hq : ∃ q', (accAdd pm pid q p).2 = q' ++ [p] := by
      unfold accAdd
      simp only [hs, hnp, Bool.false_and]
      by_cases hpusi : p.header.payloadUnitStartIndicator = true
      · exact ⟨[], by simp [hpusi]⟩
      · exact ⟨if hasDiscontinuity q p then [] else q, by simp [hpusi]⟩
    obtain ⟨q', hq'⟩ := hq
    rw [hq']
    exact hdup _ (isSame_after_append q' p hpay)

/-- `s'` is `s` with some packets repeated (each copy immediately after the original) -/
inductive Dups : List Packet → List Packet → Prop
  | nil : Dups [] []
  | one (p : Packet) {s s' : List Packet} : Dups s s' → Dups (p :: s) (p :: s')
  | more (p : Packet) {s s' : List Packet} : Dups (p :: s) (p :: s') → Dups (p :: s) (p :: p :: s')

theorem groupsOf_cons (f : List Packet) (fs : List (List Packet)) (q : List Packet) :
    groupsOf (f :: fs, q) = (if f = [] then [] else [f]) ++ groupsOf (fs, q) := by
  cases f with
  | nil => simp [groupsOf, nonEmpty]
  | cons a t => simp [groupsOf, nonEmpty]

theorem groupsOf_accRun_cons (pm : ProgramMap) (pid : Nat) (q : List Packet) (p : Packet) (r : List Packet) :
    groupsOf (accRun pm pid q (p :: r)) =
      (if (accAdd pm pid q p).1 = [] then [] else [(accAdd pm pid q p).1]) ++
        groupsOf (accRun pm pid (accAdd pm pid q p).2 r) := by
  simp only [accRun, groupsOf_cons]

theorem accRun_cons_snd (pm : ProgramMap) (pid : Nat) (q : List Packet) (p : Packet) (r : List Packet) :
    (accRun pm pid q (p :: r)).2 = (accRun pm pid (accAdd pm pid q p).2 r).2 := rfl

/-- **duplicates are harmless, whatever else happened to the stream**: repeating payload packets that carry no
discontinuity indicator changes neither the non-empty groups flushed nor the queue left -/
theorem dups_groups (pm : ProgramMap) (pid : Nat) (s s' : List Packet)
    (hnp : (pid == 0 || pm.has pid) = false) (hd : Dups s s')
    (hs : ∀ p ∈ s, p.header.hasPayload = true ∧ pktDI p = false) :
    ∀ q, groupsOf (accRun pm pid q s') = groupsOf (accRun pm pid q s) ∧ (accRun pm pid q s').2 = (accRun pm pid q s).2 := by
  induction hd with
  | nil => intro q; exact ⟨rfl, rfl⟩
  | one p _ ih =>
    intro q
    have := ih (fun x hx => hs x (by simp [hx])) (accAdd pm pid q p).2
    rw [groupsOf_accRun_cons, groupsOf_accRun_cons, accRun_cons_snd, accRun_cons_snd, this.1, this.2]
    exact ⟨rfl, rfl⟩
  | more p _ ih =>
    intro q
    have := ih hs q
    obtain ⟨hpay, hdi⟩ := hs p (by simp)
    have h2 := accAdd_twice pm pid q p hnp hpay hdi
    rw [← this.1, ← this.2]
    rw [groupsOf_accRun_cons, groupsOf_accRun_cons, groupsOf_accRun_cons, accRun_cons_snd, accRun_cons_snd,
      accRun_cons_snd, h2]
    simp


/-! ### membership in `delivered`, and a decidable check of the chain hypotheses (for concrete examples) -/

theorem mem_delivered (pm : ProgramMap) (pid : Nat) (s g : List Packet) :
    g ∈ delivered pm pid s ↔ g ≠ [] ∧ (g ∈ (accRun pm pid [] s).1 ∨ g = (accRun pm pid [] s).2) := by
  cases g with
  | nil => simp [delivered, groupsOf, nonEmpty]
  | cons a t => simp [delivered, groupsOf, nonEmpty]

def plainB (p : Packet) : Bool :=
  p.header.hasPayload && !p.header.transportErrorIndicator && !pktDI p && decide (p.header.continuityCounter < 16)

def continuesB : Nat → List Packet → Bool
  | _, [] => true
  | prev, p :: r => plainB p && !p.header.payloadUnitStartIndicator &&
      p.header.continuityCounter == (prev + 1) % 16 && continuesB p.header.continuityCounter r

def unitB (u : UnitPk) : Bool :=
  plainB u.first && u.first.header.payloadUnitStartIndicator && continuesB u.first.header.continuityCounter u.rest

def leadsB (q : List Packet) (n : Nat) : Bool :=
  match q.getLast? with
  | none => true
  | some l => decide (l.header.continuityCounter < 16) && n == (l.header.continuityCounter + 1) % 16

def chainB : List Packet → List UnitPk → Bool
  | _, [] => true
  | q, u :: r => unitB u && leadsB q u.first.header.continuityCounter && chainB u.packets r

theorem plainB_sound (p : Packet) (h : plainB p = true) : PlainPayload p := by
  simpa [plainB, PlainPayload, and_assoc] using h

theorem continuesB_sound (c : Nat) (r : List Packet) (h : continuesB c r = true) : Continues c r := by
  induction r generalizing c with
  | nil => trivial
  | cons p r ih =>
    simp only [continuesB, Bool.and_eq_true, Bool.not_eq_true', beq_iff_eq] at h
    exact ⟨plainB_sound p h.1.1.1, h.1.1.2, h.1.2, ih _ h.2⟩

theorem unitB_sound (u : UnitPk) (h : unitB u = true) : UnitOK u := by
  simp only [unitB, Bool.and_eq_true] at h
  exact ⟨plainB_sound _ h.1.1, h.1.2, continuesB_sound _ _ h.2⟩

theorem leadsB_sound (q : List Packet) (n : Nat) (h : leadsB q n = true) : QueueLeadsTo q n := by
  unfold leadsB at h
  rcases List.eq_nil_or_concat q with rfl | ⟨q', l, rfl⟩
  · exact Or.inl rfl
  · rw [List.concat_eq_append] at h ⊢
    simp only [List.getLast?_append, List.getLast?_singleton, Option.some_or, Bool.and_eq_true, decide_eq_true_eq,
      beq_iff_eq] at h
    exact Or.inr ⟨q', l, rfl, h.1, h.2⟩

theorem chainB_sound (q : List Packet) (us : List UnitPk) (h : chainB q us = true) : ChainOK q us := by
  induction us generalizing q with
  | nil => trivial
  | cons u r ih =>
    simp only [chainB, Bool.and_eq_true] at h
    exact ⟨unitB_sound u h.1.1, leadsB_sound _ _ h.1.2, ih _ h.2⟩


/-! ### one gap: the theorems in closed form -/

/-- the units received whole before the gap that are delivered: all of them, or all but the last when the gap starts
on a unit boundary -/
def keptBefore (U1 : List UnitPk) (x : List Packet) : List UnitPk := if x = [] then U1.dropLast else U1

/-- the decomposition of a stream `a ++ gap ++ b` of the units `us` around the gap (see `gap_decomp`) -/
def GapAt (us : List UnitPk) (a gap b : List Packet) (U1 M U3 : List UnitPk) (x y : List Packet) : Prop :=
  us = U1 ++ M ++ U3 ∧ a = U1.flatMap UnitPk.packets ++ x ∧ b = y ++ U3.flatMap UnitPk.packets ∧
  M.flatMap UnitPk.packets = x ++ gap ++ y ∧
  (∃ u M' z, M = u :: M' ∧ u.packets = x ++ z ∧ z ≠ []) ∧
  (∃ M' v w, M = M' ++ [v] ∧ v.packets = w ++ y ∧ w ≠ [])

theorem one_gap (pm : ProgramMap) (pid : Nat) (us : List UnitPk) (a gap b : List Packet)
    (hnp : (pid == 0 || pm.has pid) = false) (hc : ChainOK0 us)
    (hs : us.flatMap UnitPk.packets = a ++ gap ++ b) (hg1 : 1 ≤ gap.length) (hg2 : gap.length ≤ 14) (hb : b ≠ []) :
    ∃ U1 M U3 x y, GapAt us a gap b U1 M U3 x y ∧
      delivered pm pid (a ++ b) =
        (keptBefore U1 x).map UnitPk.packets ++ (if y = [] then [] else [y]) ++ U3.map UnitPk.packets := by
  have hgap : gap ≠ [] := by intro h; simp [h] at hg1
  obtain ⟨U1, M, U3, x, y, e1, e2, e3, e4, h5, h6⟩ := gap_decomp us a gap b hs hgap
  refine ⟨U1, M, U3, x, y, ⟨e1, e2, e3, e4, h5, h6⟩, ?_⟩
  rw [e2, e3]
  exact one_gap_groups pm pid U1 M U3 x gap y hnp (e1 ▸ hc) e4 h5 h6 hg1 hg2 (e3 ▸ hb)

/-- the tail left of the unit cut by the gap is a headless fragment of a unit of `us` -/
theorem GapAt.headless {us : List UnitPk} {a gap b : List Packet} {U1 M U3 : List UnitPk} {x y : List Packet}
    (h : GapAt us a gap b U1 M U3 x y) (hy : y ≠ []) : ∃ v ∈ us, Headless v y := by
  obtain ⟨e1, _, _, _, _, ⟨M', v, w, hM, hv, hw⟩⟩ := h
  exact ⟨v, by rw [e1, hM]; simp, headless_of_split v w y hv hw hy⟩

theorem GapAt.kept_sublist {us : List UnitPk} {a gap b : List Packet} {U1 M U3 : List UnitPk} {x y : List Packet}
    (h : GapAt us a gap b U1 M U3 x y) :
    (keptBefore U1 x ++ U3).Sublist us ∧ us.length ≤ (keptBefore U1 x ++ U3).length + M.length + 1 := by
  obtain ⟨e1, _⟩ := h
  have hk : (keptBefore U1 x).Sublist U1 ∧ U1.length ≤ (keptBefore U1 x).length + 1 := by
    unfold keptBefore
    by_cases hx : x = []
    · simp only [hx, if_pos]; exact ⟨List.dropLast_sublist U1, by simp; omega⟩
    · simp only [hx, if_neg, not_false_eq_true]; exact ⟨List.Sublist.refl _, by omega⟩
  constructor
  · rw [e1]
    exact List.Sublist.append (hk.1.trans (List.sublist_append_left U1 M)) (List.Sublist.refl U3)
  · rw [e1]; simp only [List.length_append]; omega

theorem one_gap_lossy (pm : ProgramMap) (pid : Nat) (us : List UnitPk) (a gap b : List Packet)
    (hnp : (pid == 0 || pm.has pid) = false) (hc : ChainOK0 us)
    (hs : us.flatMap UnitPk.packets = a ++ gap ++ b) (hg1 : 1 ≤ gap.length) (hg2 : gap.length ≤ 14) (hb : b ≠ []) :
    Lossy us (delivered pm pid (a ++ b)) := by
  have := multi_gap pm pid [(gap, b)] hnp us a hc (by simp [origOf, hs]) (by
    intro gk hgk; simp at hgk; subst hgk; exact ⟨hg1, hg2, hb⟩)
  simpa [lossyOf] using this

/-- L2: under `NoFalseStart` the data delivered are those of the kept units -/
theorem one_gap_data (prs : ParserKind) (pm : ProgramMap) (pid : Nat) (us : List UnitPk) (a gap b : List Packet)
    (hnp : (pid == 0 || pm.has pid) = false) (hc : ChainOK0 us)
    (hs : us.flatMap UnitPk.packets = a ++ gap ++ b) (hg1 : 1 ≤ gap.length) (hg2 : gap.length ≤ 14) (hb : b ≠ [])
    (hnf : ∀ v ∈ us, ∀ f, Headless v f → NoFalseStart prs pm f) :
    ∃ U1 M U3 x y, GapAt us a gap b U1 M U3 x y ∧
      deliveredData prs pm pid (a ++ b) = (keptBefore U1 x ++ U3).flatMap (fun u => dataOf prs pm u.packets) ∧
      (keptBefore U1 x ++ U3).Sublist us ∧ us.length ≤ (keptBefore U1 x ++ U3).length + M.length + 1 ∧
      (deliveredData prs pm pid (a ++ b)).Sublist (deliveredData prs pm pid (us.flatMap UnitPk.packets)) := by
  obtain ⟨U1, M, U3, x, y, hG, hd⟩ := one_gap pm pid us a gap b hnp hc hs hg1 hg2 hb
  refine ⟨U1, M, U3, x, y, hG, ?_, hG.kept_sublist.1, hG.kept_sublist.2, ?_⟩
  · unfold deliveredData
    rw [hd]
    by_cases hy : y = []
    · simp [hy, List.flatMap_map]
    · obtain ⟨v, hv, hh⟩ := hG.headless hy
      have : dataOf prs pm y = [] := hnf v hv y hh
      simp [hy, List.flatMap_map, this]
  · rw [deliveredData_chain prs pm pid us hnp hc]
    exact (one_gap_lossy pm pid us a gap b hnp hc hs hg1 hg2 hb).data_sublist prs pm hnf


/-! ### several gaps: data, and duplicates on top of loss -/

theorem CCRun_all (c : Nat) (s : List Packet) (h : CCRun c s) : ∀ p ∈ s, PlainPayload p := by
  induction s generalizing c with
  | nil => intro p hp; cases hp
  | cons q r ih =>
    intro p hp
    rcases List.mem_cons.mp hp with rfl | hp
    · exact h.1
    · exact ih _ h.2.2 p hp

theorem Consec_all (s : List Packet) (h : Consec s) : ∀ p ∈ s, PlainPayload p := by
  cases s with
  | nil => intro p hp; cases hp
  | cons q r =>
    intro p hp
    rcases List.mem_cons.mp hp with rfl | hp
    · exact h.1
    · exact CCRun_all _ r h.2 p hp

theorem mem_lossyOf (a0 : List Packet) (tail : List (List Packet × List Packet)) (p : Packet)
    (h : p ∈ lossyOf a0 tail) : p ∈ origOf a0 tail := by
  simp only [lossyOf, origOf, List.mem_append, List.mem_flatMap] at h ⊢
  rcases h with h | ⟨gk, hgk, h⟩
  · exact Or.inl h
  · exact Or.inr ⟨gk, hgk, Or.inr h⟩

/-- several gaps, data level: under `NoFalseStart` the data delivered are a subsequence of the loss-free data -/
theorem multi_gap_data (prs : ParserKind) (pm : ProgramMap) (pid : Nat) (tail : List (List Packet × List Packet))
    (hnp : (pid == 0 || pm.has pid) = false) (us : List UnitPk) (a0 : List Packet) (hc : ChainOK0 us)
    (hs : us.flatMap UnitPk.packets = origOf a0 tail) (hg : GapsOK tail)
    (hnf : ∀ v ∈ us, ∀ f, Headless v f → NoFalseStart prs pm f) :
    (deliveredData prs pm pid (lossyOf a0 tail)).Sublist (deliveredData prs pm pid (us.flatMap UnitPk.packets)) := by
  rw [deliveredData_chain prs pm pid us hnp hc]
  exact (multi_gap pm pid tail hnp us a0 hc hs hg).data_sublist prs pm hnf

/-- loss and duplicates together: repeating received packets changes nothing of what is delivered -/
theorem multi_gap_dups (pm : ProgramMap) (pid : Nat) (tail : List (List Packet × List Packet))
    (hnp : (pid == 0 || pm.has pid) = false) (us : List UnitPk) (a0 : List Packet) (hc : ChainOK0 us)
    (hs : us.flatMap UnitPk.packets = origOf a0 tail) (s' : List Packet) (hd : Dups (lossyOf a0 tail) s') :
    delivered pm pid s' = delivered pm pid (lossyOf a0 tail) := by
  have hall : ∀ p ∈ lossyOf a0 tail, p.header.hasPayload = true ∧ pktDI p = false := by
    intro p hp
    have := Consec_all _ (chain0_consec us hc) p (hs ▸ mem_lossyOf a0 tail p hp)
    exact ⟨this.1, this.2.2.1⟩
  exact (dups_groups pm pid _ s' hnp hd hall []).1

end Astits.Loss
