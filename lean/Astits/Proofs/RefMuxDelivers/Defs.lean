/-
C02, whole-stream form — definitions shared by the parts of the development (`Proofs/RefMuxDelivers/*`):
well-formed units of the reference multiplexer `Spec.RefMux`, per-PID chains with running continuity counters.
-/
import Astits.Spec.RefMux
import Astits.Proofs.Units
import Astits.Proofs.PacketRTCanon
import Astits.Proofs.SpecEq.TS
import Astits.Proofs.MuxDemux
import Astits.Proofs.RefMuxDelivers.UnitsDI
namespace Astits.RefMux
open Astits Astits.Spec Astits.PacketRT Astits.SpecEq Astits.MuxDemux

/-- the adaptation field given for the first packet of a unit whose first chunk has `c0` bytes: in the demuxer's
delivered form (`AFCanon` / the one-byte form), well-formed, of exactly the size that fills the packet
(adaptation_field_length = 183 - c0); it may announce a discontinuity -/
def FirstAFOK (c0 : Nat) : Option PacketAdaptationField → Prop
  | none => True
  | some a => c0 < 184 →
      ((a.isOneByteStuffing = true ∧ a = oneByteAF ∧ c0 = 183) ∨
       (a.isOneByteStuffing = false ∧ AFWF a ∧ AFCanon a ∧ afSize a = 183 - (c0 : Int)))

/-- a well-formed unit of the reference multiplexer: 13-bit PID, at least one chunk, every chunk 1..184 bytes, the
chunks add up to the payload, no transport error, first-packet adaptation field well-formed and fitting -/
structure UnitWF (u : TSUnit) : Prop where
  pid : u.pid < 8192
  ne : u.chunks ≠ []
  rng : ∀ c ∈ u.chunks, 1 ≤ c ∧ c ≤ 184
  sum : u.chunks.sum = u.payload.length
  tei : u.tei = false
  af : FirstAFOK (u.chunks.headD 0) u.firstAF

/-- number of 0xFF bytes `packetsOf` appends to the payload of the last packet (PSI units with `padPayload`) -/
def padLen (u : TSUnit) : Nat :=
  if u.psi && u.padPayload then 184 - u.chunks.getLastD 184 else 0

/-- the unit as start packet + continuation packets -/
def unitPk (u : TSUnit) (cc0 : Nat) : UnitPk := ⟨(packetsOf u cc0).headD default, (packetsOf u cc0).tail⟩

/-- counter of the first packet of the next unit -/
def nextCC (u : TSUnit) (cc : Nat) : Nat := (cc + (packetsOf u cc).length) % 16

/-- the packets of a PID's units, continuity counter running on from `cc` -/
def chainPk : Nat → List TSUnit → List Packet
  | _, [] => []
  | cc, u :: r => packetsOf u cc ++ chainPk (nextCC u cc) r

def chainUnits : Nat → List TSUnit → List UnitPk
  | _, [] => []
  | cc, u :: r => unitPk u cc :: chainUnits (nextCC u cc) r

/-- what must be delivered for these units -/
def chainExp : Nat → List TSUnit → List DemuxerData
  | _, [] => []
  | cc, u :: r => expectedOf u cc ++ chainExp (nextCC u cc) r

/-- the units of one PID, in order -/
def unitsOn (m : StreamModel) (pid : Nat) : List TSUnit := m.units.filter (·.pid == pid)

/-- the PIDs of the model, in order of first appearance -/
def pidsOf (m : StreamModel) : List Nat := (m.units.map (·.pid)).eraseDups

/-- `m.expected` before sorting -/
def expectedList (m : StreamModel) : List (Nat × List DemuxerData) :=
  (perPID m.units).map fun (pid, _, ds) => (pid, ds)

theorem expected_eq (m : StreamModel) :
    m.expected = ((expectedList m).toArray.qsort (fun a b => a.1 < b.1)).toList := rfl

/-- the 188-byte chunks of the stream -/
def chunksOf (m : StreamModel) : List Bytes := m.packets.map tsEncode

theorem bytes_eq (m : StreamModel) : m.bytes = (chunksOf m).flatten := rfl

end Astits.RefMux
