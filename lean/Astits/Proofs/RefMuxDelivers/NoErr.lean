/-
C02, whole-stream form — no `NextData` call returns an error before `ErrNoMorePackets` when every group the
accumulators hand over parses (`GOk`): continuation of `Run.lean`.
-/
import Astits.Proofs.RefMuxDelivers.Run
import Astits.Proofs.NoPanic.Demux
namespace Astits.RefMux
open Astits Astits.MuxDemux Astits.PerPid

theorem groupsFromP_cons (pm : ProgramMap) (pid : Nat) (q : List Packet) (p : Packet) (l : List Packet) :
    groupsFromP pm pid q (p :: l) =
      (if (accAdd pm pid q p).1.isEmpty then [] else [(accAdd pm pid q p).1]) ++
        groupsFromP pm pid (accAdd pm pid q p).2 l := by
  simp only [groupsFromP, accRun, List.filter_cons]
  split <;> simp_all

/-- every group the accumulator of any PID will hand to `parseData` — while the packets `s` arrive and at the end of the
stream — parses under the reference map -/
def GOk (pmR : ProgramMap) (d : Demux) (s : List Packet) : Prop :=
  ∀ pid, ∀ g ∈ groupsFromP pmR pid (d.pool.get pid) (s.filter (accepted pid)), ∃ ds, parseData g .none pmR = .ok ds

/-- a result that is a datum or the end of the stream -/
def Fine (r : Res DemuxerData) : Prop := (∃ x, r = .ok x) ∨ r = .err .eof

theorem group_pool (d : Demux) (g : List Packet) : (d.group g).2.pool = d.pool := by
  rw [group_eq, logParser_eq]
  cases parseData g d.parser d.programMap <;> rfl

theorem feed_noerr (pmR : ProgramMap) (d : Demux) (p : Packet) (s' : List Packet) (hp : d.parser = .none)
    (hwf : PoolWF d.pool) (hpm : ∀ k, accepted k p = true → early k d.programMap = early k pmR)
    (hg : GOk pmR d (p :: s')) :
    (∀ r, (d.feed p).1 = some r → ∃ x, r = .ok x) ∧ GOk pmR (d.feed p).2 s' := by
  have hpool : (d.feed p).2.pool = (poolAdd d.programMap d.pool p).2 := by
    unfold Demux.feed
    split
    · rfl
    · rw [group_pool]
  obtain ⟨_, w2⟩ := wf_poolAdd d.programMap d.pool p hwf
  constructor
  · intro r hr
    unfold Demux.feed at hr
    split at hr
    · cases hr
    · rename_i hge
      have hgne : (poolAdd d.programMap d.pool p).1 ≠ [] := by
        intro hh; rw [hh] at hge; exact hge rfl
      obtain ⟨on1, on2⟩ := poolAdd_onP p.header.pid pmR d.programMap d.pool p
      have hacc : accepted p.header.pid p = true := by
        cases ha : accepted p.header.pid p with
        | true => rfl
        | false =>
          rcases (on2 ha).2 with h | h
          · exact absurd h hgne
          · exact absurd rfl h
      obtain ⟨o1, _⟩ := on1 hacc (hpm _ hacc)
      have hmem : (poolAdd d.programMap d.pool p).1 ∈
          groupsFromP pmR p.header.pid (d.pool.get p.header.pid) ((p :: s').filter (accepted p.header.pid)) := by
        simp only [List.filter_cons, hacc, if_true]
        rw [groupsFromP_cons, ← o1]
        apply List.mem_append_left
        simp [hge]
      obtain ⟨ds, hds⟩ := hg _ _ hmem
      have hhead : ((poolAdd d.programMap d.pool p).1.headD default).header.pid = p.header.pid :=
        w2 _ (MuxDemux.headD_mem _ _ hgne)
      rw [group_eq] at hr
      have hpd : parseData (poolAdd d.programMap d.pool p).1 .none d.programMap = .ok ds := by
        rw [parseData_early _ d.programMap pmR p.header.pid hhead (hpm _ hacc)]
        exact hds
      have hp' : ({ d with pool := (poolAdd d.programMap d.pool p).2 } : Demux).parser = .none := hp
      have hm' : ({ d with pool := (poolAdd d.programMap d.pool p).2 } : Demux).programMap = d.programMap := rfl
      rw [hp', hm', hpd] at hr
      cases ds with
      | nil => cases hr
      | cons x r' =>
        simp only [List.head?_cons, Option.map_some, Prod.mk.injEq] at hr
        exact ⟨x, (Option.some.inj hr).symm⟩
  · intro pid g hgm
    rw [hpool] at hgm
    obtain ⟨on1, on2⟩ := poolAdd_onP pid pmR d.programMap d.pool p
    by_cases ha : accepted pid p = true
    · obtain ⟨_, o2⟩ := on1 ha (hpm _ ha)
      apply hg pid g
      simp only [List.filter_cons, ha, if_true]
      rw [groupsFromP_cons]
      apply List.mem_append_right
      rw [← o2]
      exact hgm
    · have ha' : accepted pid p = false := by simpa using ha
      apply hg pid g
      simp only [List.filter_cons, ha', Bool.false_eq_true, if_false]
      rw [← (on2 ha').1]
      exact hgm

theorem drain_fine : ∀ (fuel : Nat) (d : Demux), d.parser = .none → Fine (d.drain fuel).1 := by
  intro fuel
  induction fuel with
  | zero => intro d _; exact Or.inr rfl
  | succ fuel ih =>
    intro d hp
    rw [Astits.drain_succ]
    split
    · exact Or.inr rfl
    · have hs := group_src { d with pool := (poolDump d.pool).2 } (poolDump d.pool).1
      have hne := parseData_ne_panic (poolDump d.pool).1 .none d.programMap
      have hge := group_eq { d with pool := (poolDump d.pool).2 } (poolDump d.pool).1
      rcases hgr : Demux.group { d with pool := (poolDump d.pool).2 } (poolDump d.pool).1 with ⟨o, d'⟩
      rw [hgr] at hs hge
      have hp' : d'.parser = .none := by rw [hs.parser]; exact hp
      cases o with
      | none => exact ih d' hp'
      | some r =>
        cases r with
        | ok x => exact Or.inl ⟨x, rfl⟩
        | err e => exact ih d' hp'
        | panic =>
          exfalso
          have hp0 : ({ d with pool := (poolDump d.pool).2 } : Demux).parser = .none := hp
          have hm0 : ({ d with pool := (poolDump d.pool).2 } : Demux).programMap = d.programMap := rfl
          rw [hp0, hm0] at hge
          cases hpd : parseData (poolDump d.pool).1 .none d.programMap with
          | panic => exact hne hpd
          | err e => rw [hpd] at hge; cases hge
          | ok ds => rw [hpd] at hge; cases ds <;> cases hge

/-- the reader has reached the end, or every group still to come parses -/
def NE (pmR : ProgramMap) (d : Demux) (cs : List Bytes) (s : List Packet) : Prop := cs = [] ∨ GOk pmR d s

theorem dataLoop_fine (pmR : ProgramMap) :
    ∀ (cs : List Bytes) (s : List Packet) (fuel : Nat) (d : Demux), Rep d cs → ParsesTo cs s → PoolWF d.pool →
      d.dataBuffer = [] → (∀ k, early k d.programMap = early k pmR ∨ ∀ p ∈ d.fed fuel, accepted k p = false) →
      NE pmR d cs s → cs.length < fuel →
      Fine (d.dataLoop fuel).1 ∧ ∃ cs' s', Rep (d.dataLoop fuel).2 cs' ∧ ParsesTo cs' s' ∧ NE pmR (d.dataLoop fuel).2 cs' s' := by
  intro cs
  induction cs with
  | nil =>
    intro s fuel d hrep hs hwf hbuf hpm _ hl
    obtain ⟨d1, hnp, hrep1, _⟩ := nextPacket_nil d hrep
    cases fuel with
    | zero => omega
    | succ f =>
      rw [Astits.dataLoop_succ d f, hnp]
      simp only
      exact ⟨drain_fine _ d1 hrep1.parser, [], [], rep_of_src hrep1 (drain_src _ d1), trivial, Or.inl rfl⟩
  | cons c cs ih =>
    intro s fuel d hrep hs hwf hbuf hpm hne hl
    cases s with
    | nil => exact hs.elim
    | cons p s' =>
      obtain ⟨hp, hs'⟩ := hs
      obtain ⟨d1, hnp, hrep1, hsd⟩ := nextPacket_cons d c cs p hrep hp
      have hg : GOk pmR d (p :: s') := by
        rcases hne with h | h
        · cases h
        · exact h
      have hg1 : GOk pmR d1 (p :: s') := by
        intro pid g hgm; rw [hsd.1] at hgm; exact hg pid g hgm
      have hwf1 : PoolWF d1.pool := by rw [hsd.1]; exact hwf
      have hbuf1 : d1.dataBuffer = [] := by rw [hsd.2.2]; exact hbuf
      cases fuel with
      | zero => omega
      | succ f =>
        have hfed : d.fed (f + 1) =
            p :: (match (d1.feed p).1 with
                  | none => (d1.feed p).2.fed f
                  | some _ => []) := by
          simp only [Demux.fed, hnp]
          rfl
        rw [hfed] at hpm
        have hpm1 : ∀ k, accepted k p = true → early k d1.programMap = early k pmR := by
          intro k hk
          rw [hsd.2.1]
          rcases hpm k with h | h
          · exact h
          · rw [h p (by simp)] at hk; cases hk
        rw [Astits.dataLoop_succ d f, hnp]
        simp only
        obtain ⟨n1, n2⟩ := feed_noerr pmR d1 p s' hrep1.parser hwf1 hpm1 hg1
        obtain ⟨f1, f2, f3, _, _, _⟩ := feed_pid 0 pmR d1 p s' hrep1.parser hbuf1 hwf1 (Or.inl (early_zero _ _))
        rcases hfd : d1.feed p with ⟨o, d2⟩
        rw [hfd] at n1 n2 f1 f2 f3 hpm
        cases o with
        | some r =>
          simp only
          obtain ⟨x, hx⟩ := n1 r rfl
          exact ⟨Or.inl ⟨x, hx⟩, cs, s', hrep1.transfer f1, hs', Or.inr n2⟩
        | none =>
          simp only
          obtain ⟨hb2, hpm2⟩ := f3 (fun x h => by cases h)
          refine ih s' f d2 (hrep1.transfer f1) hs' f2 hb2 (fun k => ?_) (Or.inr n2) (by simp at hl; omega)
          rw [hpm2, hsd.2.1]
          rcases hpm k with h | h
          · exact Or.inl h
          · exact Or.inr (fun x hx => h x (by simp [hx]))

/-- one call under the invariants: it returns a datum or the end of the stream -/
theorem nextData_fine (pmR : ProgramMap) (cs : List Bytes) (s : List Packet) (d : Demux) (hrep : Rep d cs)
    (hs : ParsesTo cs s) (hwf : PoolWF d.pool)
    (hpm : ∀ k, early k d.programMap = early k pmR ∨ ∀ p ∈ d.fedByNextData, accepted k p = false) (hne : NE pmR d cs s) :
    Fine d.nextData.1 ∧ ∃ cs' s', Rep d.nextData.2 cs' ∧ ParsesTo cs' s' ∧ NE pmR d.nextData.2 cs' s' := by
  cases hb : d.dataBuffer with
  | nil =>
    have hnd : d.nextData = d.dataLoop (d.r.data.length + 2) := by
      unfold Demux.nextData; rw [hb]
    have hfb : d.fedByNextData = d.fed (d.r.data.length + 2) := by
      unfold Demux.fedByNextData; rw [hb]
    rw [hfb] at hpm
    rw [hnd]
    refine dataLoop_fine pmR cs s _ d hrep hs hwf hb hpm hne ?_
    have h1 := length_le_flatten188 cs hrep.len
    have h2 : cs.flatten.length ≤ d.r.data.length := by
      rw [← hrep.data, List.length_drop]; omega
    omega
  | cons x rest =>
    have hnd : d.nextData = (.ok x, { d with dataBuffer := rest }) := by
      unfold Demux.nextData; rw [hb]
    rw [hnd]
    exact ⟨Or.inl ⟨x, rfl⟩, cs, s, hrep.transfer ⟨rfl, rfl, rfl, rfl, rfl⟩, hs, hne⟩

/-- **no errors**: every result collected before `ErrNoMorePackets` is a datum -/
theorem collect_fine (pmR : ProgramMap) :
    ∀ (n : Nat) (d : Demux) (cs : List Bytes) (s : List Packet), Rep d cs → ParsesTo cs s → Inv pmR d s → NE pmR d cs s →
      ∀ r ∈ (collect n d).1, ∃ x, r = .ok x := by
  intro n
  induction n with
  | zero => intro d cs s _ _ _ _ r hr; simp [collect] at hr
  | succ n ih =>
    intro d cs s hrep hs hinv hne r hr
    obtain ⟨cs', s', p1, p2, _, p3, _⟩ := step_inv pmR cs s d hrep hs hinv
    obtain ⟨q0, cs'', s'', q1, q2, q3⟩ := nextData_fine pmR cs s d hrep hs hinv.wf
      (fun k => Or.inl (early_of_has (hinv.pm k))) hne
    have e1 : cs'' = cs' := rep_unique q1 p1
    subst e1
    have e2 : s'' = s' := ParsesTo.unique q2 p2
    subst e2
    unfold collect at hr
    by_cases heof : isEOF d.nextData.1 = true
    · simp [heof] at hr
    · have heof' : isEOF d.nextData.1 = false := by simpa using heof
      simp only [heof', Bool.false_eq_true, if_false, List.mem_cons] at hr
      rcases hr with hr | hr
      · subst hr
        rcases q0 with h | h
        · exact h
        · rw [h] at heof'; cases heof'
      · exact ih d.nextData.2 cs'' s'' q1 q2 (p3 heof') q3 r hr


/-- **no errors on the whole run**: under the hypotheses of `run_delivers`, if moreover every group the accumulators
hand over parses under `pmR`, every call before `ErrNoMorePackets` returns a datum -/
theorem run_fine (pmR : ProgramMap) (cs : List Bytes) (s : List Packet) (hs : ParsesTo cs s)
    (hlen : ∀ c ∈ cs, c.length = 188) (hfirst : FirstPAT pmR s)
    (hsafe : ∀ pid, ∀ y ∈ pidData pmR pid (s.filter (accepted pid)), PatSafe pmR y)
    (hgok : ∀ pid, ∀ g ∈ groupsFromP pmR pid [] (s.filter (accepted pid)), ∃ ds, parseData g .none pmR = .ok ds)
    (n : Nat) : ∀ r ∈ (collect n (demuxOf cs.flatten)).1, ∃ x, r = .ok x := by
  obtain ⟨hne', cs', s', p1, p2, hinv, _⟩ := first_inv pmR cs s hs hlen hfirst hsafe
  obtain ⟨hok, x, hx, _⟩ := first_call pmR cs s hs hlen hfirst
  have hrep0 : Rep (demuxOf cs.flatten) cs := rep_demuxOf cs hlen
  obtain ⟨_, cs'', s'', q1, q2, q3⟩ := nextData_fine pmR cs s (demuxOf cs.flatten) hrep0 hs trivial
    (fun k => (hok k).imp id (fun h => h.2)) (Or.inr hgok)
  have e1 : cs'' = cs' := rep_unique q1 p1
  subst e1
  have e2 : s'' = s' := ParsesTo.unique q2 p2
  subst e2
  intro r hr
  cases n with
  | zero => simp [collect] at hr
  | succ n =>
    unfold collect at hr
    simp only [hne', Bool.false_eq_true, if_false, List.mem_cons] at hr
    rcases hr with hr | hr
    · exact ⟨x, by rw [hr, hx]⟩
    · exact collect_fine pmR n _ cs'' s'' q1 q2 hinv q3 r hr

end Astits.RefMux
