/-
C02, whole-stream form — D3: a PAT/PMT unit of the reference multiplexer (`TableUnit`: the bytes `writePSIData` produces
for sections that round-trip, 0xFF stuffing, conformant cut points) is a `TStep` of its PID's accumulator: flushed by the
packet carrying the last section byte, parsed to the sections' data, a stuffing-only tail left behind.
-/
import Astits.Proofs.RefMuxDelivers.Packets
import Astits.Proofs.RefMuxDelivers.Chains
namespace Astits.RefMux
open Astits Astits.Spec Astits.MuxDemux Astits.PerPid Astits.PSIComplete Astits.PSIRT

/-! ## the packet in which byte number `e` arrives -/

/-- number of leading chunks that end before the `e`-th byte -/
def cutIdx : List Nat → Nat → Nat
  | [], _ => 0
  | c :: r, e => if e ≤ c then 0 else cutIdx r (e - c) + 1

theorem cutIdx_spec (cs : List Nat) (e : Nat) (he : 0 < e) (hs : e ≤ cs.sum) :
    cutIdx cs e < cs.length ∧ (cs.take (cutIdx cs e)).sum < e ∧ e ≤ (cs.take (cutIdx cs e + 1)).sum := by
  induction cs generalizing e with
  | nil => simp at hs; omega
  | cons c r ih =>
    unfold cutIdx
    by_cases h : e ≤ c
    · simp only [h, if_true]
      simp; omega
    · simp only [h, if_false]
      have hs' : e - c ≤ r.sum := by simp at hs; omega
      obtain ⟨i1, i2, i3⟩ := ih (e - c) (by omega) hs'
      refine ⟨by simp; omega, ?_, ?_⟩
      · simp only [List.take_succ_cons, List.sum_cons]; omega
      · simp only [List.take_succ_cons, List.sum_cons]; omega

theorem sum_take_add_drop (cs : List Nat) (i : Nat) : (cs.take i).sum + (cs.drop i).sum = cs.sum := by
  conv => rhs; rw [← List.take_append_drop i cs]
  rw [List.sum_append]

theorem sum_take_le (cs : List Nat) (i : Nat) : (cs.take i).sum ≤ cs.sum := by
  have := sum_take_add_drop cs i; omega

theorem sum_take_mono (cs : List Nat) (i j : Nat) (h : i ≤ j) : (cs.take i).sum ≤ (cs.take j).sum := by
  have : cs.take i = (cs.take j).take i := by rw [List.take_take]; congr 1; omega
  rw [this]
  exact sum_take_le _ _

theorem length_le_sum (cs : List Nat) (h : ∀ c ∈ cs, 1 ≤ c) : cs.length ≤ cs.sum := by
  induction cs with
  | nil => simp
  | cons c r ih =>
    have := h c (by simp)
    have := ih (fun x hx => h x (by simp [hx]))
    simp; omega

/-! ## a table unit -/

/-- a PAT/PMT unit of the reference multiplexer: the payload is what `writePSIData` produces for the sections `ss`
(pointer_field `pf`), which round-trip to `ss'`, followed by 0xFF `stuffing`; no packet edge is the start of a later
section (ISO/IEC 13818-1 2.4.4.1); stuffing and padding together do not exceed 256 bytes; the expected data are the
data of the parsed sections -/
structure TableUnit (u : TSUnit) (pf : Nat) (ss ss' : List PSISection) (stuffing : Bytes) : Prop where
  written : WrittenUnit u.payload pf ss ss' stuffing
  cut : ∀ i, 0 < i → i < u.chunks.length → ∀ j, 0 < j → j < ss.length →
    (u.chunks.take i).sum ≠ 1 + pf + ((ss.map secBytes).take j).flatten.length
  tail : stuffing.length + padLen u ≤ 256
  data : ∀ fp, psiToData { pointerField := (pf : Int), sections := ss' } fp u.pid =
    u.data.map fun d => { d with firstPacket := some fp, pid := u.pid }

theorem firstOf_unitPk (U : UnitPk) : firstOf U.packets = { U.first with payload := [] } := rfl

theorem concat_len_take (u : TSUnit) (cc : Nat) (hw : UnitWF u) (i : Nat) (hi : i < u.chunks.length) :
    (concatPayload ((packetsOf u cc).take i)).length = (u.chunks.take i).sum := by
  rw [concat_take_packetsOf u cc hw i hi, List.length_take]
  have := sum_take_le u.chunks i
  have := hw.sum
  omega

/-- **one table unit through the accumulator of its PID** -/
theorem table_step (pm : ProgramMap) (u : TSUnit) (cc : Nat) (hw : UnitWF u) (htab : early u.pid pm = true)
    (hcat : u.pid ≠ 1) (pf : Nat) (ss ss' : List PSISection) (stuffing : Bytes) (T : TableUnit u pf ss ss' stuffing) :
    ∃ b, TStep pm u.pid (unitPk u cc) (expectedOf u cc) b := by
  have hpk := packetsOf_eq_unit u cc hw
  obtain ⟨hU, hcc0⟩ := unitPk_ok u cc hw
  have hlen := packetsOf_length u cc
  have hcat' := concat_packetsOf u cc hw
  -- the unit's bytes
  have hbytes := T.written.bytes
  let E := 1 + pf + ((ss.map secBytes).flatten).length
  have hE : E ≤ u.chunks.sum := by
    rw [hw.sum, hbytes]; simp [E]; omega
  obtain ⟨k1, k2, k3⟩ := cutIdx_spec u.chunks E (by simp [E]; omega) hE
  generalize hk : cutIdx u.chunks E = k at k1 k2 k3
  have hkP : k < (packetsOf u cc).length := by rw [hlen]; exact k1
  let a := (packetsOf u cc).take k
  let pk := (packetsOf u cc)[k]
  let b := (packetsOf u cc).drop (k + 1)
  have hsplit0 : packetsOf u cc = a ++ [pk] ++ b := by
    have h1 : (packetsOf u cc).drop k = pk :: b := List.drop_eq_getElem_cons hkP
    calc packetsOf u cc = a ++ (packetsOf u cc).drop k := (List.take_append_drop k _).symm
      _ = a ++ [pk] ++ b := by rw [h1]; simp
  have hsplit : (unitPk u cc).packets = a ++ [pk] ++ b := by rw [← hpk]; exact hsplit0
  have htake1 : a ++ [pk] = (packetsOf u cc).take (k + 1) := by
    show (packetsOf u cc).take k ++ [(packetsOf u cc)[k]] = _
    rw [List.take_succ_eq_append_getElem hkP]
  -- the written unit, padding included
  have W : WrittenUnit (concatPayload (unitPk u cc).packets) pf ss ss' (stuffing ++ List.replicate (padLen u) 0xff) := by
    rw [← hpk, hcat']
    refine ⟨T.written.ptr_lt, T.written.rt, T.written.ne, ?_, ?_⟩
    · intro x hx
      rcases List.mem_append.mp hx with h | h
      · exact T.written.stuff x h
      · exact (List.mem_replicate.mp h).2
    · obtain ⟨bs, h1, h2⟩ := T.written.eq
      exact ⟨bs, h1, by rw [h2, List.append_assoc]⟩
  have hbefore : (concatPayload a).length < E := by
    show (concatPayload ((packetsOf u cc).take k)).length < E
    rw [concat_len_take u cc hw k k1]; exact k2
  have hat : E ≤ (concatPayload (a ++ [pk])).length := by
    rw [htake1]
    by_cases hlast : k + 1 < u.chunks.length
    · rw [concat_len_take u cc hw (k + 1) hlast]; exact k3
    · have : (packetsOf u cc).take (k + 1) = packetsOf u cc := List.take_of_length_le (by omega)
      rw [this, hcat', List.length_append, ← hw.sum]
      omega
  have hcut : ConformantCut a pf (ss.map secBytes) := by
    intro i hi hia j hj hjl
    have hia' : i ≤ k := by simpa [a, List.length_take, Nat.min_eq_left (Nat.le_of_lt hkP)] using hia
    have : a.take i = (packetsOf u cc).take i := by
      show ((packetsOf u cc).take k).take i = _
      rw [List.take_take]; congr 1; omega
    rw [this, concat_len_take u cc hw i (by omega)]
    exact T.cut i hi (by omega) j hj (by simpa using hjl)
  have htot : (concatPayload (a ++ [pk])).length + (concatPayload b).length = u.payload.length + padLen u := by
    rw [← List.length_append, ← concatPayload_append, ← hsplit0, hcat']
    simp
  have hpl : u.payload.length = E + stuffing.length := by
    rw [hbytes]; simp [E]; omega
  have htail : (concatPayload b).length ≤ 256 := by
    have := T.tail
    omega
  have htab' : (u.pid == 0 || pm.has u.pid) = true := htab
  have hon : (unitPk u cc).first.header.pid = u.pid :=
    packetsOf_pid u cc _ (by rw [hpk]; simp [UnitPk.packets])
  refine ⟨b, ⟨a, pk, hsplit, ?_, fun q hq => ?_⟩, ?_⟩
  · have := written_unit_parse' pm u.pid htab' hcat (unitPk u cc) hon a pk b hsplit pf ss ss' _ W hat
    rw [this, firstOf_unitPk, T.data, expectedOf_eq u cc hw]
  · exact table_unit_run' pm u.pid htab' q (unitPk u cc) hU hq a pk b hsplit pf _ _ _ W.layout hbefore hat hcut htail
  · by_cases hb : b = []
    · exact Or.inl hb
    · right
      have hff := (table_unit_run_tail' pm u.pid htab' (unitPk u cc) hU a pk b hsplit pf _ _ _ W.layout hat).1
      have hbp : ∀ p ∈ b, p.header.pid = u.pid := fun p hp =>
        packetsOf_pid u cc p (by rw [hsplit0]; exact List.mem_append_right _ hp)
      have hhead : (b.headD default).header.pid = u.pid := hbp _ (MuxDemux.headD_mem _ _ hb)
      -- the tail carries at least one byte
      have hk1 : k + 1 < u.chunks.length := by
        have : b.length = (packetsOf u cc).length - (k + 1) := by simp [b]
        have hbl : 0 < b.length := List.length_pos_iff.mpr hb
        omega
      have hlen1 : (concatPayload (a ++ [pk])).length = (u.chunks.take (k + 1)).sum := by
        rw [htake1]; exact concat_len_take u cc hw (k + 1) hk1
      have hdrop : (u.chunks.drop (k + 1)).length ≤ (u.chunks.drop (k + 1)).sum :=
        length_le_sum _ (fun c hc => (hw.rng c (List.mem_of_mem_drop hc)).1)
      have hsd := sum_take_add_drop u.chunks (k + 1)
      have hpos : 0 < (concatPayload b).length := by
        have h1 : (u.chunks.drop (k + 1)).length = u.chunks.length - (k + 1) := by simp
        have := hw.sum
        omega
      exact parseData_stuffing pm u.pid htab' b hhead hpos hff


/-- a table unit, its parameters left implicit -/
def TableUnitE (u : TSUnit) : Prop := ∃ pf ss ss' stuffing, TableUnit u pf ss ss' stuffing

/-- the units of a table PID as steps of its accumulator -/
theorem table_steps (pm : ProgramMap) (pid : Nat) (htab : early pid pm = true) (hcat : pid ≠ 1) (us : List TSUnit)
    (hpid : ∀ u ∈ us, u.pid = pid) (hw : ∀ u ∈ us, UnitWF u) (hT : ∀ u ∈ us, TableUnitE u) (cc : Nat) :
    ∃ steps : List (UnitPk × List DemuxerData × List Packet),
      steps.map (·.1) = chainUnits cc us ∧ steps.flatMap (·.2.1) = chainExp cc us ∧
      ∀ t ∈ steps, TStep pm pid t.1 t.2.1 t.2.2 := by
  induction us generalizing cc with
  | nil => exact ⟨[], rfl, rfl, fun t ht => by cases ht⟩
  | cons u r ih =>
    obtain ⟨steps, h1, h2, h3⟩ := ih (fun x hx => hpid x (by simp [hx])) (fun x hx => hw x (by simp [hx]))
      (fun x hx => hT x (by simp [hx])) (nextCC u cc)
    obtain ⟨pf, ss, ss', stuffing, T⟩ := hT u (by simp)
    have hp := hpid u (by simp)
    obtain ⟨b, hb⟩ := table_step pm u cc (hw u (by simp)) (by rw [hp]; exact htab) (by rw [hp]; exact hcat) pf ss ss' stuffing T
    rw [hp] at hb
    refine ⟨(unitPk u cc, expectedOf u cc, b) :: steps, ?_, ?_, ?_⟩
    · simp [chainUnits, h1]
    · simp [chainExp, h2]
    · intro t ht
      rcases List.mem_cons.mp ht with rfl | ht'
      · exact hb
      · exact h3 t ht'

/-- **what a table PID delivers**: the data of every unit once, in order; every group handed over parses -/
theorem table_pid_data (pm : ProgramMap) (pid : Nat) (htab : early pid pm = true) (hcat : pid ≠ 1) (us : List TSUnit)
    (hpid : ∀ u ∈ us, u.pid = pid) (hw : ∀ u ∈ us, UnitWF u) (hT : ∀ u ∈ us, TableUnitE u) :
    pidData pm pid (chainPk 0 us) = chainExp 0 us ∧
    ∀ g ∈ groupsFromP pm pid [] (chainPk 0 us), ∃ ds, parseData g .none pm = .ok ds := by
  obtain ⟨steps, h1, h2, h3⟩ := table_steps pm pid htab hcat us hpid hw hT 0
  have hc : ChainOK' [] (steps.map (·.1)) := by rw [h1]; exact chain_ok us hw 0 (by omega) [] (Or.inl rfl)
  obtain ⟨a1, a2⟩ := table_chain pm pid steps [] [] h3 hc ⟨[], rfl⟩ (Or.inl rfl)
  have e : steps.flatMap (·.1.packets) = chainPk 0 us := by
    rw [chainPk_eq 0 us hw, ← h1, List.flatMap_map]
  rw [e, h2] at a1
  rw [e] at a2
  exact ⟨a1, a2⟩

theorem accRun_fst_length (pm : ProgramMap) (pid : Nat) (q l : List Packet) : (accRun pm pid q l).1.length = l.length := by
  induction l generalizing q with
  | nil => rfl
  | cons p r ih => simp [accRun, ih]

theorem pmLearn_congr (ds ds' : List DemuxerData) (pm : ProgramMap) (h : ds'.map (·.pat) = ds.map (·.pat)) :
    pmLearn ds' pm = pmLearn ds pm := by
  unfold pmLearn
  induction ds generalizing ds' pm with
  | nil =>
    cases ds' with
    | nil => rfl
    | cons _ _ => simp at h
  | cons d r ih =>
    cases ds' with
    | nil => simp at h
    | cons d' r' =>
      simp only [List.map_cons, List.cons.injEq] at h
      simp only [List.foldl_cons, h.1]
      exact ih r' _ h.2

/-- **the first PAT unit, standing first in the schedule, is what the first call reads**: `FirstPAT` for the reference
map the PATs of that unit define -/
theorem firstPAT_of (m : StreamModel) (hw : ∀ u ∈ m.units, UnitWF u) (u0 : TSUnit) (r : List TSUnit)
    (hu : unitsOn m 0 = u0 :: r) (hT : TableUnitE u0) (hne : u0.data ≠ []) (sh : List Nat)
    (hs : m.schedule = List.replicate u0.chunks.length 0 ++ sh) :
    FirstPAT (pmLearn u0.data []) m.packets := by
  have hu0 : u0 ∈ m.units := by
    have : u0 ∈ unitsOn m 0 := by rw [hu]; simp
    exact (List.mem_filter.mp this).1
  have hp0 : u0.pid = 0 := unitsOn_pid m 0 u0 (by rw [hu]; simp)
  have hw0 := hw u0 hu0
  obtain ⟨pf, ss, ss', stuffing, T⟩ := hT
  obtain ⟨b, ⟨a, pk, hsplit, hparse, hrun⟩, _⟩ :=
    table_step [] u0 0 hw0 (by rw [hp0]; rfl) (by rw [hp0]; decide) pf ss ss' stuffing T
  rw [hp0] at hrun
  have hpk := packetsOf_eq_unit u0 0 hw0
  have hlen := packetsOf_length u0 0
  -- the stream starts with the packets of the unit
  have hchain : chainPk 0 (unitsOn m 0) = packetsOf u0 0 ++ chainPk (nextCC u0 0) r := by rw [hu]; rfl
  obtain ⟨rest, hrest⟩ := packets_prefix m u0.chunks.length sh hs (by rw [hchain, List.length_append, hlen]; omega)
  rw [hchain, List.take_left' hlen, hpk, hsplit] at hrest
  -- the flushes of the packets up to `pk`
  have hr0 := hrun [] (Or.inl rfl)
  have hfl : (if a = [] then [] else ([] : List Packet) :: List.replicate (a.length - 1) []) = List.replicate a.length [] := by
    cases a with
    | nil => rfl
    | cons p r => simp [List.replicate_succ]
  rw [hfl, hsplit, accRun_append] at hr0
  have h1 : (accRun [] 0 [] (a ++ [pk])).1 = List.replicate a.length [] ++ [a ++ [pk]] := by
    have hl := accRun_fst_length [] 0 [] (a ++ [pk])
    have := congrArg (fun x => x.1.take (a.length + 1)) hr0
    simp only at this
    rw [List.take_left' (by rw [hl]; simp)] at this
    rw [this, List.append_assoc, ← List.append_assoc (List.replicate a.length []), List.take_left' (by simp)]
  have hplain : ∀ p ∈ a ++ [pk], p.header.pid = 0 ∧ StartPayload p := by
    intro p hp
    have hm : p ∈ packetsOf u0 0 := by rw [hpk, hsplit]; exact List.mem_append_left _ hp
    exact ⟨by rw [packetsOf_pid u0 0 p hm, hp0], (packetsOf_wf u0 0 hw0 p hm).2.2.2⟩
  have hexp : ∃ x xs, expectedOf u0 0 = x :: xs := by
    rw [expectedOf_eq u0 0 hw0]
    cases hd : u0.data with
    | nil => exact absurd hd hne
    | cons d ds => exact ⟨_, _, rfl⟩
  obtain ⟨x, xs, hx⟩ := hexp
  refine ⟨a, pk, b ++ rest, a ++ [pk], (accRun [] 0 [] (a ++ [pk])).2, x, xs, ?_, hplain, by simp, ?_, ?_, ?_⟩
  · rw [hrest]; simp
  · rw [← h1]
  · rw [hparse, hx]
  · intro k
    rw [← hx, pmLearn_congr u0.data (expectedOf u0 0) []]
    rw [expectedOf_eq u0 0 hw0, List.map_map]
    rfl

end Astits.RefMux
