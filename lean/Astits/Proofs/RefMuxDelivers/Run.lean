/-
C02, whole-stream form — the demuxer side, for an arbitrary stream of 188-byte chunks that parse:

* the program map after a `NextData` call, exactly (`nextData_pm`);
* the packets a call hands to the pool are a prefix of the packets still to be read (`fed_take`);
* **`run_delivers`**: if the first call reads only packets of PID 0 and returns the first PAT of a group whose PATs
  make the program map agree with a reference map `pmR`, and if no datum the stream can deliver under `pmR` carries a
  PAT that lists a PID outside `pmR`, then on EVERY PID the calls up to `ErrNoMorePackets` deliver `pidData pmR pid` of
  the PID's accepted packets (the program-map side conditions `CallOK` of `C07.nextData_pid_function` discharged for
  all PIDs at once).
-/
import Astits.Proofs.PerPidData
import Astits.Proofs.PSICompleteNext
import Astits.Proofs.RefMuxDelivers.UnitsDI
namespace Astits.RefMux
open Astits Astits.MuxDemux Astits.PerPid

/-! ## chunk lists are determined by the reader -/

theorem chunks_unique : ∀ (a b : List Bytes), (∀ c ∈ a, c.length = 188) → (∀ c ∈ b, c.length = 188) →
    a.flatten = b.flatten → a = b := by
  intro a
  induction a with
  | nil =>
    intro b _ hb h
    cases b with
    | nil => rfl
    | cons c r =>
      have := hb c (by simp)
      have hl := congrArg List.length h
      simp only [List.flatten_nil, List.flatten_cons, List.length_append, List.length_nil] at hl
      omega
  | cons x a ih =>
    intro b ha hb h
    cases b with
    | nil =>
      have := ha x (by simp)
      have hl := congrArg List.length h
      simp only [List.flatten_nil, List.flatten_cons, List.length_append, List.length_nil] at hl
      omega
    | cons y b =>
      simp only [List.flatten_cons] at h
      have hx := ha x (by simp)
      have hy := hb y (by simp)
      have h1 : x = y := by
        have := congrArg (List.take 188) h
        rwa [List.take_left' hx, List.take_left' hy] at this
      subst h1
      have h2 : a.flatten = b.flatten := List.append_cancel_left h
      rw [ih b (fun c hc => ha c (by simp [hc])) (fun c hc => hb c (by simp [hc])) h2]

theorem rep_unique {d : Demux} {a b : List Bytes} (ha : Rep d a) (hb : Rep d b) : a = b :=
  chunks_unique a b ha.len hb.len (ha.data.symm.trans hb.data)

theorem rep_of_src {d d' : Demux} {cs : List Bytes} (h : Rep d cs) (hs : SrcSame d d') : Rep d' cs :=
  h.transfer ⟨hs.r, hs.skipper, hs.parser, hs.packetSize, hs.opt⟩

/-! ## the program map after a call -/

/-- what a step that starts with an empty data buffer does to the program map and the data buffer: when it returns a
datum `x`, the map has learnt the PATs among `x` and the data buffered behind it; otherwise nothing changed -/
def PMStep (pm : ProgramMap) (r : Option (Res DemuxerData)) (d' : Demux) : Prop :=
  (∀ x, r = some (.ok x) → d'.programMap = pmLearn (x :: d'.dataBuffer) pm) ∧
  ((∀ x, r ≠ some (.ok x)) → d'.programMap = pm ∧ d'.dataBuffer = [])

theorem group_pm (d : Demux) (ps : List Packet) (hb : d.dataBuffer = []) :
    PMStep d.programMap (d.group ps).1 (d.group ps).2 := by
  rw [group_eq, logParser_eq]
  cases parseData ps d.parser d.programMap with
  | err e => exact ⟨fun x h => (by cases h), fun _ => ⟨rfl, hb⟩⟩
  | panic => exact ⟨fun x h => (by cases h), fun _ => ⟨rfl, hb⟩⟩
  | ok ds =>
    cases ds with
    | nil => exact ⟨fun x h => (by cases h), fun _ => ⟨rfl, by simp [hb]⟩⟩
    | cons x r =>
      refine ⟨fun y h => ?_, fun h => absurd rfl (h x)⟩
      simp only [List.head?_cons, Option.map_some, Option.some.injEq, Res.ok.injEq] at h
      subst h
      simp [hb]

theorem feed_pm (d : Demux) (p : Packet) (hb : d.dataBuffer = []) :
    PMStep d.programMap (d.feed p).1 (d.feed p).2 := by
  unfold Demux.feed
  split
  · exact ⟨fun x h => (by cases h), fun _ => ⟨rfl, hb⟩⟩
  · exact group_pm { d with pool := (poolAdd d.programMap d.pool p).2 } _ hb

theorem drain_pm : ∀ (fuel : Nat) (d : Demux), d.dataBuffer = [] →
    PMStep d.programMap (some (d.drain fuel).1) (d.drain fuel).2 := by
  intro fuel
  induction fuel with
  | zero =>
    intro d hb
    exact ⟨fun x h => (by cases h), fun _ => ⟨rfl, hb⟩⟩
  | succ fuel ih =>
    intro d hb
    rw [Astits.drain_succ]
    split
    · exact ⟨fun x h => (by cases h), fun _ => ⟨rfl, hb⟩⟩
    · have hg := group_pm { d with pool := (poolDump d.pool).2 } (poolDump d.pool).1 hb
      rcases hgr : Demux.group { d with pool := (poolDump d.pool).2 } (poolDump d.pool).1 with ⟨o, d'⟩
      rw [hgr] at hg
      have hpm0 : ({ d with pool := (poolDump d.pool).2 } : Demux).programMap = d.programMap := rfl
      rw [hpm0] at hg
      cases o with
      | none =>
        obtain ⟨e1, e2⟩ := hg.2 (fun x h => (by cases h))
        have := ih d' e2
        rw [e1] at this
        exact this
      | some r =>
        cases r with
        | ok x =>
          refine ⟨fun y h => ?_, fun h => absurd rfl (h x)⟩
          simp only [Option.some.injEq, Res.ok.injEq] at h
          subst h
          exact hg.1 x rfl
        | panic => exact ⟨fun x h => (by cases h), fun _ => hg.2 (fun x h => (by cases h))⟩
        | err e =>
          obtain ⟨e1, e2⟩ := hg.2 (fun x h => (by cases h))
          have := ih d' e2
          rw [e1] at this
          exact this

theorem dataLoop_pm : ∀ (fuel : Nat) (d : Demux), d.dataBuffer = [] →
    PMStep d.programMap (some (d.dataLoop fuel).1) (d.dataLoop fuel).2 := by
  intro fuel
  induction fuel with
  | zero =>
    intro d hb
    exact ⟨fun x h => (by cases h), fun _ => ⟨rfl, hb⟩⟩
  | succ fuel ih =>
    intro d hb
    rw [Astits.dataLoop_succ]
    have hd := nextPacket_data d
    have hb1 : d.nextPacket.2.dataBuffer = [] := by rw [hd.dataBuffer]; exact hb
    rw [← hd.programMap]
    cases hnp : d.nextPacket.1 with
    | panic => exact ⟨fun x h => (by cases h), fun _ => ⟨rfl, hb1⟩⟩
    | err e =>
      cases e
      all_goals first
        | exact drain_pm _ _ hb1
        | exact ⟨fun x h => (by cases h), fun _ => ⟨rfl, hb1⟩⟩
    | ok p =>
      simp only
      have hf := feed_pm d.nextPacket.2 p hb1
      rcases hfd : d.nextPacket.2.feed p with ⟨o, d'⟩
      rw [hfd] at hf
      cases o with
      | some r =>
        simp only
        cases r with
        | ok x =>
          refine ⟨fun y h => ?_, fun h => absurd rfl (h x)⟩
          simp only [Option.some.injEq, Res.ok.injEq] at h
          subst h
          exact hf.1 x rfl
        | panic => exact ⟨fun x h => (by cases h), fun _ => hf.2 (fun x h => (by cases h))⟩
        | err e => exact ⟨fun x h => (by cases h), fun _ => hf.2 (fun x h => (by cases h))⟩
      | none =>
        simp only
        obtain ⟨e1, e2⟩ := hf.2 (fun x h => (by cases h))
        have := ih d' e2
        rw [e1] at this
        exact this

/-- **the program map after a `NextData` call**: a call that hands out a buffered datum changes nothing; a call that
reads packets and returns `x` has learnt the PATs among `x` and the data it buffered; a call that returns an error (or
the end of the stream) has learnt nothing -/
theorem nextData_pm (d : Demux) :
    (d.dataBuffer ≠ [] → d.nextData.2.programMap = d.programMap) ∧
    (d.dataBuffer = [] → PMStep d.programMap (some d.nextData.1) d.nextData.2) := by
  unfold Demux.nextData
  cases hb : d.dataBuffer with
  | nil => exact ⟨fun h => absurd rfl h, fun _ => dataLoop_pm _ d hb⟩
  | cons x r => exact ⟨fun _ => rfl, fun h => by cases h⟩


/-! ## the packets a call hands to the pool -/

/-- the packets `dataLoop` feeds to the pool are the first `j` packets still to be read, and the reader then stands
after the `j`-th chunk -/
theorem fed_take : ∀ (cs : List Bytes) (s : List Packet) (fuel : Nat) (d : Demux), Rep d cs → ParsesTo cs s →
    cs.length < fuel → ∃ j, j ≤ cs.length ∧ d.fed fuel = s.take j ∧ Rep (d.dataLoop fuel).2 (cs.drop j) := by
  intro cs
  induction cs with
  | nil =>
    intro s fuel d hrep hs hl
    have hs0 := ParsesTo.nil_inv hs
    subst hs0
    obtain ⟨d1, hnp, hrep1, _⟩ := nextPacket_nil d hrep
    cases fuel with
    | zero => omega
    | succ f =>
      refine ⟨0, Nat.le_refl _, ?_, ?_⟩
      · simp only [Demux.fed, hnp, List.take_nil]
      · rw [Astits.dataLoop_succ d f, hnp]
        simp only [List.drop_nil]
        exact rep_of_src hrep1 (drain_src _ d1)
  | cons c cs ih =>
    intro s fuel d hrep hs hl
    cases s with
    | nil => exact hs.elim
    | cons p s' =>
      obtain ⟨hp, hs'⟩ := hs
      obtain ⟨d1, hnp, hrep1, _⟩ := nextPacket_cons d c cs p hrep hp
      cases fuel with
      | zero => omega
      | succ f =>
        have hrep2 : Rep (d1.feed p).2 cs := rep_of_src hrep1 (feed_src d1 p)
        have hfed : d.fed (f + 1) =
            p :: (match (d1.feed p).1 with
                  | none => (d1.feed p).2.fed f
                  | some _ => []) := by
          simp only [Demux.fed, hnp]
          rfl
        rw [Astits.dataLoop_succ d f, hnp, hfed]
        simp only
        rcases hfd : d1.feed p with ⟨o, d2⟩
        rw [hfd] at hrep2
        cases o with
        | some r =>
          exact ⟨1, by simp, by simp, by simpa using hrep2⟩
        | none =>
          simp only
          obtain ⟨j, hj, h1, h2⟩ := ih s' f d2 hrep2 hs' (by simp at hl; omega)
          exact ⟨j + 1, by simp; omega, by simp [h1], by simpa using h2⟩

theorem ParsesTo.length_eq {cs : List Bytes} {s : List Packet} (h : ParsesTo cs s) : cs.length = s.length := by
  induction cs generalizing s with
  | nil => simp [ParsesTo.nil_inv h]
  | cons c cs ih =>
    cases s with
    | nil => exact h.elim
    | cons p r => simp [ih h.2]

/-- the chunks of a stream whose packets are `a ++ pk :: r` -/
theorem ParsesTo.split {cs : List Bytes} {a : List Packet} {pk : Packet} {r : List Packet}
    (h : ParsesTo cs (a ++ pk :: r)) :
    ∃ csA cK rest, cs = csA ++ cK :: rest ∧ ParsesTo csA a ∧ (parsePacket none).val cK = .ok pk ∧ ParsesTo rest r := by
  induction a generalizing cs with
  | nil =>
    cases cs with
    | nil => exact h.elim
    | cons c cs => exact ⟨[], c, cs, rfl, trivial, h.1, h.2⟩
  | cons p a ih =>
    cases cs with
    | nil => exact h.elim
    | cons c cs =>
      obtain ⟨csA, cK, rest, e, h1, h2, h3⟩ := ih h.2
      exact ⟨c :: csA, cK, rest, by rw [e]; rfl, ⟨h.1, h1⟩, h2, h3⟩

/-- a call that starts with an empty data buffer and leaves the reader `j` chunks further has fed the first `j` packets -/
theorem fedByNextData_take (cs : List Bytes) (s : List Packet) (d : Demux) (hrep : Rep d cs) (hs : ParsesTo cs s)
    (hb : d.dataBuffer = []) (j : Nat) (hj : j ≤ cs.length) (hafter : Rep d.nextData.2 (cs.drop j)) :
    d.fedByNextData = s.take j := by
  have hfb : d.fedByNextData = d.fed (d.r.data.length + 2) := by
    unfold Demux.fedByNextData; rw [hb]
  have hnd : d.nextData = d.dataLoop (d.r.data.length + 2) := by
    unfold Demux.nextData; rw [hb]
  have hfuel : cs.length < d.r.data.length + 2 := by
    have h1 := length_le_flatten188 cs hrep.len
    have h2 : cs.flatten.length ≤ d.r.data.length := by
      rw [← hrep.data, List.length_drop]; omega
    omega
  obtain ⟨j', hj', h1, h2⟩ := fed_take cs s _ d hrep hs hfuel
  rw [← hnd] at h2
  have e := rep_unique hafter h2
  have : j = j' := by
    have := congrArg List.length e
    simp only [List.length_drop] at this
    omega
  rw [hfb, h1, this]

/-! ## one call, all PIDs at once -/

/-- a PAT datum is safe for the reference map: every PMT PID it lists is known to the map -/
def PatSafe (pmR : ProgramMap) (y : DemuxerData) : Prop :=
  ∀ pat, y.pat = some pat → ∀ pg ∈ pat.programs, pmR.has pg.programMapID = true

theorem pmLearn_safe (pmR : ProgramMap) (ds : List DemuxerData) (pm : ProgramMap) (hd : ∀ y ∈ ds, PatSafe pmR y)
    (h : ∀ k, pm.has k = pmR.has k) : ∀ k, (pmLearn ds pm).has k = pmR.has k := by
  unfold pmLearn
  induction ds generalizing pm with
  | nil => exact h
  | cons v ds ih =>
    simp only [List.foldl_cons]
    apply ih _ (fun y hy => hd y (by simp [hy]))
    cases hp : v.pat with
    | none => exact h
    | some pat =>
      dsimp only
      have hv := hd v (by simp) pat hp
      generalize pat.programs = pgs at hv
      induction pgs generalizing pm with
      | nil => exact h
      | cons pg pgs ih2 =>
        simp only [List.foldl_cons]
        apply ih2 _ _ (fun x hx => hv x (by simp [hx]))
        · split
          · intro k
            rw [ProgramMap.has_set, h k]
            by_cases hk : k = pg.programMapID
            · subst hk
              rw [hv pg (by simp)]; rfl
            · simp [hk]
          · exact h

/-- what one `NextData` call does, seen from every PID at once (the per-PID statement is `nextData_postP`) -/
theorem step_all (pmR : ProgramMap) (cs : List Bytes) (s : List Packet) (d : Demux) (hrep : Rep d cs)
    (hs : ParsesTo cs s) (hwf : PoolWF d.pool) (hok : ∀ pid, CallOK pid pmR d) :
    ∃ cs' s', Rep d.nextData.2 cs' ∧ ParsesTo cs' s' ∧ PoolWF d.nextData.2.pool ∧
      (∀ er, d.nextData.1 = .err er → er = .eof ∨ er = .other) ∧
      ∀ pid, (isEOF d.nextData.1 = true → expectP pmR pid d s = []) ∧
        (isEOF d.nextData.1 = false →
          pidOut pid [d.nextData.1] ++ expectP pmR pid d.nextData.2 s' = expectP pmR pid d s) := by
  obtain ⟨cs', s', p1, p2, p3, p4, _, _, _⟩ := nextData_postP 0 pmR cs s d hrep hs hwf (hok 0)
  refine ⟨cs', s', p1, p2, p3, p4, fun pid => ?_⟩
  obtain ⟨cs'', s'', q1, q2, _, _, _, q6, q7⟩ := nextData_postP pid pmR cs s d hrep hs hwf (hok pid)
  have e1 : cs'' = cs' := rep_unique q1 p1
  subst e1
  have e2 : s'' = s' := ParsesTo.unique q2 p2
  subst e2
  exact ⟨q6, q7⟩

/-- the invariant of a run once the first PAT has been delivered: the program map lists exactly the PIDs of the
reference map, and nothing the stream can still deliver would teach it another one -/
structure Inv (pmR : ProgramMap) (d : Demux) (s : List Packet) : Prop where
  wf : PoolWF d.pool
  pm : ∀ k, d.programMap.has k = pmR.has k
  safe : ∀ pid, ∀ y ∈ expectP pmR pid d s, PatSafe pmR y

theorem mem_pidOut_single {pid : Nat} {r : Res DemuxerData} {y : DemuxerData} (h : r = .ok y) (hp : y.pid = pid) :
    y ∈ pidOut pid [r] := by
  subst h
  simp [pidOut, hp]

theorem step_inv (pmR : ProgramMap) (cs : List Bytes) (s : List Packet) (d : Demux) (hrep : Rep d cs)
    (hs : ParsesTo cs s) (hinv : Inv pmR d s) :
    ∃ cs' s', Rep d.nextData.2 cs' ∧ ParsesTo cs' s' ∧
      (∀ er, d.nextData.1 = .err er → er = .eof ∨ er = .other) ∧
      (isEOF d.nextData.1 = false → Inv pmR d.nextData.2 s') ∧
      ∀ pid, (isEOF d.nextData.1 = true → expectP pmR pid d s = []) ∧
        (isEOF d.nextData.1 = false →
          pidOut pid [d.nextData.1] ++ expectP pmR pid d.nextData.2 s' = expectP pmR pid d s) := by
  have hok : ∀ pid, CallOK pid pmR d := fun pid => Or.inl (early_of_has (hinv.pm pid))
  obtain ⟨cs', s', p1, p2, p3, p4, p5⟩ := step_all pmR cs s d hrep hs hinv.wf hok
  refine ⟨cs', s', p1, p2, p4, fun hne => ?_, p5⟩
  have hsub : ∀ pid, ∀ y ∈ expectP pmR pid d.nextData.2 s', y ∈ expectP pmR pid d s := by
    intro pid y hy
    rw [← (p5 pid).2 hne]
    exact List.mem_append_right _ hy
  refine ⟨p3, ?_, fun pid y hy => hinv.safe pid y (hsub pid y hy)⟩
  obtain ⟨m1, m2⟩ := nextData_pm d
  by_cases hb : d.dataBuffer = []
  · obtain ⟨n1, n2⟩ := m2 hb
    cases hr : d.nextData.1 with
    | ok x =>
      rw [n1 x (by rw [hr])]
      apply pmLearn_safe pmR _ _ _ hinv.pm
      intro y hy
      rcases List.mem_cons.mp hy with rfl | hy'
      · apply hinv.safe y.pid
        rw [← (p5 y.pid).2 hne]
        exact List.mem_append_left _ (mem_pidOut_single hr rfl)
      · apply hinv.safe y.pid y (hsub y.pid y ?_)
        unfold expectP
        apply List.mem_append_left
        simp [hy']
    | err e =>
      rw [(n2 (fun x h => by rw [hr] at h; cases h)).1]
      exact hinv.pm
    | panic =>
      rw [(n2 (fun x h => by rw [hr] at h; cases h)).1]
      exact hinv.pm
  · rw [m1 hb]
    exact hinv.pm

/-- **a sequence of `NextData` calls, every PID at once** -/
theorem collect_all (pmR : ProgramMap) :
    ∀ (n : Nat) (d : Demux) (cs : List Bytes) (s : List Packet), Rep d cs → ParsesTo cs s → Inv pmR d s →
      (collect n d).2 = true → ∀ pid, pidOut pid (collect n d).1 = expectP pmR pid d s := by
  intro n
  induction n with
  | zero => intro d cs s _ _ _ he; simp [collect] at he
  | succ n ih =>
    intro d cs s hrep hs hinv he pid
    obtain ⟨cs', s', p1, p2, _, p3, p5⟩ := step_inv pmR cs s d hrep hs hinv
    unfold collect at he ⊢
    by_cases heof : isEOF d.nextData.1 = true
    · simp only [heof, if_true]
      rw [(p5 pid).1 heof]; rfl
    · have heof' : isEOF d.nextData.1 = false := by simpa using heof
      simp only [heof', Bool.false_eq_true, if_false] at he ⊢
      rw [pidOut_cons, ih d.nextData.2 cs' s' p1 p2 (p3 heof') he pid]
      exact (p5 pid).2 heof'


/-! ## the whole run -/

theorem accRun_early (pm pm' : ProgramMap) (pid : Nat) (h : early pid pm = early pid pm') (q l : List Packet) :
    accRun pm pid q l = accRun pm' pid q l := by
  induction l generalizing q with
  | nil => rfl
  | cons p r ih => simp only [accRun, accAdd_early pm pm' pid q p h, ih]

/-- the stream starts with the first PAT unit: packets `a ++ [pk]` of PID 0 (accepted payload packets), of which `pk` is the
first to make the accumulator flush; it flushes the group `g`, which parses to the data `x :: xs`; after these PATs the
program map lists exactly the PIDs of the reference map `pmR` -/
def FirstPAT (pmR : ProgramMap) (s : List Packet) : Prop :=
  ∃ (a : List Packet) (pk : Packet) (srest g q' : List Packet) (x : DemuxerData) (xs : List DemuxerData),
    s = a ++ pk :: srest ∧ (∀ p ∈ a ++ [pk], p.header.pid = 0 ∧ StartPayload p) ∧ g ≠ [] ∧
    accRun [] 0 [] (a ++ [pk]) = (List.replicate a.length [] ++ [g], q') ∧
    parseData g .none [] = .ok (x :: xs) ∧ ∀ k, (pmLearn (x :: xs) []).has k = pmR.has k

/-- the first call: it reads packets of PID 0 only and returns the first datum of the first PAT unit; afterwards the
program map is the reference map -/
theorem first_call (pmR : ProgramMap) (cs : List Bytes) (s : List Packet) (hs : ParsesTo cs s)
    (hlen : ∀ c ∈ cs, c.length = 188) (hfirst : FirstPAT pmR s) :
    (∀ k, CallOK k pmR (demuxOf cs.flatten)) ∧
    ∃ x, (demuxOf cs.flatten).nextData.1 = .ok x ∧
      ∀ k, (demuxOf cs.flatten).nextData.2.programMap.has k = pmR.has k := by
  obtain ⟨a, pk, srest, g, q', x, xs, hsplit, hon, hne, hrun, hparse, hpm⟩ := hfirst
  subst hsplit
  obtain ⟨csA, cK, rest, hcs, hpa, hpk, hprest⟩ := ParsesTo.split hs
  have hrep0 : Rep (demuxOf cs.flatten) cs := rep_demuxOf cs hlen
  have hrep0' : Rep (demuxOf cs.flatten) (csA ++ cK :: rest) := by rw [← hcs]; exact hrep0
  obtain ⟨d', h1, h2, h3, _, _, _⟩ := nextData_group' [] 0 a pk csA cK rest (demuxOf cs.flatten) hrep0' hpa hpk
    rfl rfl hon g q' hne hrun x xs hparse
  have hcsA : csA.length = a.length := ParsesTo.length_eq hpa
  have hd'2 : (demuxOf cs.flatten).nextData.2 = d' := by rw [h1]
  have hfed : (demuxOf cs.flatten).fedByNextData = a ++ [pk] := by
    rw [fedByNextData_take cs _ _ hrep0 hs rfl (a.length + 1) (by rw [hcs]; simp; omega)
      (by rw [hd'2, hcs, ← hcsA]; simpa using h2)]
    have e : a ++ pk :: srest = (a ++ [pk]) ++ srest := by simp
    rw [e, List.take_left' (by simp)]
  refine ⟨fun k => ?_, x, by rw [h1], ?_⟩
  · by_cases hk : k = 0
    · subst hk; exact Or.inl (early_zero _ _)
    · by_cases hR : pmR.has k = true
      · right
        refine ⟨rfl, fun p hp => ?_⟩
        rw [hfed] at hp
        have := (hon p hp).1
        simp [accepted, this]
        intro h; exact absurd h.symm hk
      · left
        have hR' : pmR.has k = false := by simpa using hR
        exact early_of_has (by rw [hR']; rfl)
  · obtain ⟨n1, _⟩ := (nextData_pm (demuxOf cs.flatten)).2 rfl
    rw [n1 x (by rw [h1]), hd'2, h3]
    exact hpm

/-- the state after the first call satisfies the invariant of the run -/
theorem first_inv (pmR : ProgramMap) (cs : List Bytes) (s : List Packet) (hs : ParsesTo cs s)
    (hlen : ∀ c ∈ cs, c.length = 188) (hfirst : FirstPAT pmR s)
    (hsafe : ∀ pid, ∀ y ∈ pidData pmR pid (s.filter (accepted pid)), PatSafe pmR y) :
    isEOF (demuxOf cs.flatten).nextData.1 = false ∧
    ∃ cs' s', Rep (demuxOf cs.flatten).nextData.2 cs' ∧ ParsesTo cs' s' ∧ Inv pmR (demuxOf cs.flatten).nextData.2 s' ∧
      ∀ pid, pidOut pid [(demuxOf cs.flatten).nextData.1] ++ expectP pmR pid (demuxOf cs.flatten).nextData.2 s' =
        pidData pmR pid (s.filter (accepted pid)) := by
  obtain ⟨hok, x, hx, hpm⟩ := first_call pmR cs s hs hlen hfirst
  have hrep0 : Rep (demuxOf cs.flatten) cs := rep_demuxOf cs hlen
  obtain ⟨cs', s', p1, p2, p3, _, p5⟩ := step_all pmR cs _ (demuxOf cs.flatten) hrep0 hs trivial hok
  have hne' : isEOF (demuxOf cs.flatten).nextData.1 = false := by rw [hx]; rfl
  have hE : ∀ k, expectP pmR k (demuxOf cs.flatten) s = pidData pmR k (s.filter (accepted k)) := fun k => rfl
  refine ⟨hne', cs', s', p1, p2, ⟨p3, hpm, fun k y hy => hsafe k y ?_⟩, fun k => ?_⟩
  · rw [← hE k, ← (p5 k).2 hne']
    exact List.mem_append_right _ hy
  · rw [← hE k]; exact (p5 k).2 hne'

/-- **every PID at once.**  A fresh demuxer (`DemuxerOptPacketSize(188)`) reads whole 188-byte chunks `cs` that parse to
the packets `s`.  The stream starts with the first PAT unit, read by the first call (`FirstPAT`), after which the
program map agrees with the reference map `pmR`.  Nothing the stream delivers under `pmR` carries a PAT that lists a
PID unknown to `pmR` (`hsafe`).  Then on every PID the calls up to `ErrNoMorePackets` deliver `pidData pmR pid` of the
PID's accepted packets. -/
theorem run_delivers (pmR : ProgramMap) (cs : List Bytes) (s : List Packet) (hs : ParsesTo cs s)
    (hlen : ∀ c ∈ cs, c.length = 188) (hfirst : FirstPAT pmR s)
    (hsafe : ∀ pid, ∀ y ∈ pidData pmR pid (s.filter (accepted pid)), PatSafe pmR y)
    (n : Nat) (hend : (collect n (demuxOf cs.flatten)).2 = true) (pid : Nat) :
    pidOut pid (collect n (demuxOf cs.flatten)).1 = pidData pmR pid (s.filter (accepted pid)) := by
  obtain ⟨hne', cs', s', p1, p2, hinv, p5⟩ := first_inv pmR cs s hs hlen hfirst hsafe
  cases n with
  | zero => simp [collect] at hend
  | succ n =>
    unfold collect at hend ⊢
    simp only [hne', Bool.false_eq_true, if_false] at hend ⊢
    rw [pidOut_cons, collect_all pmR n _ cs' s' p1 p2 hinv hend pid]
    exact p5 pid

end Astits.RefMux
