/-
C02, whole-stream form — part 1: the packets of the reference multiplexer `Spec.RefMux` are well-formed units with
running continuity counters, the merge keeps every PID's packets in order, and the stream parses back packet by packet.
-/
import Astits.Proofs.RefMuxDelivers.Defs
import Astits.Props.C11
import Astits.Props.C02
namespace Astits.RefMux
open Astits Astits.Spec Astits.PacketRT Astits.SpecEq Astits.MuxDemux

/-! ### `packetsOf` as a structural recursion -/

/-- payload of the packet built from chunk `c` at index `i` (of `n`) -/
def pkPayload (u : TSUnit) (n : Nat) (c : Bytes) (i : Nat) : Bytes :=
  if (u.psi && u.padPayload && i + 1 = n && c.length < 184) = true then c ++ List.replicate (184 - c.length) 0xff else c

/-- adaptation field of the packet with payload `payload` at index `i` -/
def pkAF (u : TSUnit) (payload : Bytes) (i : Nat) : Option PacketAdaptationField :=
  if payload.length = 184 then none
  else if i = 0 then (match u.firstAF with | some a => some a | none => some (stuffAF (183 - payload.length)))
  else some (stuffAF (183 - payload.length))

/-- the packet built from chunk `c` at index `i` (of `n`) -/
def mkPk (u : TSUnit) (cc0 n : Nat) (c : Bytes) (i : Nat) : Packet :=
  { adaptationField := pkAF u (pkPayload u n c i) i, payload := pkPayload u n c i,
    header := { continuityCounter := (cc0 + i) % 16, hasAdaptationField := (pkAF u (pkPayload u n c i) i).isSome,
                hasPayload := true, payloadUnitStartIndicator := i = 0, pid := u.pid,
                transportErrorIndicator := u.tei, transportPriority := false, transportScramblingControl := 0 } }

def goPk (u : TSUnit) (cc0 n : Nat) : Nat → List Bytes → List Packet
  | _, [] => []
  | k, c :: r => mkPk u cc0 n c k :: goPk u cc0 n (k + 1) r

theorem packetsOf_eq_map (u : TSUnit) (cc0 : Nat) :
    packetsOf u cc0 = (splitChunks u.payload u.chunks).zipIdx.map
      (fun x => mkPk u cc0 (splitChunks u.payload u.chunks).length x.1 x.2) := rfl

theorem goPk_eq_map (u : TSUnit) (cc0 n k : Nat) (cs : List Bytes) :
    goPk u cc0 n k cs = (cs.zipIdx k).map (fun x => mkPk u cc0 n x.1 x.2) := by
  induction cs generalizing k with
  | nil => rfl
  | cons c r ih => simp [goPk, List.zipIdx_cons, ih]

theorem packetsOf_eq_go (u : TSUnit) (cc0 : Nat) :
    packetsOf u cc0 = goPk u cc0 (splitChunks u.payload u.chunks).length 0 (splitChunks u.payload u.chunks) := by
  rw [goPk_eq_map, packetsOf_eq_map]

/-! ### chunks -/

theorem splitChunks_length (bs : Bytes) (cs : List Nat) : (splitChunks bs cs).length = cs.length := by
  induction cs generalizing bs with
  | nil => rfl
  | cons c r ih => simp [splitChunks, ih]

theorem splitChunks_lengths (bs : Bytes) (cs : List Nat) (h : cs.sum ≤ bs.length) :
    (splitChunks bs cs).map List.length = cs := by
  induction cs generalizing bs with
  | nil => rfl
  | cons c r ih =>
    simp only [List.sum_cons] at h
    have : r.sum ≤ (bs.drop c).length := by simp; omega
    simp only [splitChunks, List.map_cons, ih _ this, List.length_take]
    congr 1; omega

theorem splitChunks_take (bs : Bytes) (cs : List Nat) (i : Nat) :
    (splitChunks bs cs).take i = splitChunks bs (cs.take i) := by
  induction cs generalizing bs i with
  | nil => simp [splitChunks]
  | cons c r ih =>
    cases i with
    | zero => simp [splitChunks]
    | succ i => simp [splitChunks, ih]

theorem splitChunks_flatten_take (bs : Bytes) (cs : List Nat) : (splitChunks bs cs).flatten = bs.take cs.sum := by
  induction cs generalizing bs with
  | nil => simp [splitChunks]
  | cons c r ih => simp [splitChunks, ih, List.take_add]

theorem packetsOf_length (u : TSUnit) (cc0 : Nat) : (packetsOf u cc0).length = u.chunks.length := by
  rw [packetsOf_eq_map]; simp [splitChunks_length]

theorem packetsOf_pid (u : TSUnit) (cc0 : Nat) : ∀ p ∈ packetsOf u cc0, p.header.pid = u.pid := by
  intro p hp
  rw [packetsOf_eq_map] at hp
  obtain ⟨x, _, rfl⟩ := List.mem_map.mp hp
  rfl

/-! ### one packet -/

theorem pkPayload_cases (u : TSUnit) (n : Nat) (c : Bytes) (i : Nat) :
    pkPayload u n c i = c ∨
    (u.psi = true ∧ u.padPayload = true ∧ i + 1 = n ∧ c.length < 184 ∧
      pkPayload u n c i = c ++ List.replicate (184 - c.length) 0xff) := by
  unfold pkPayload
  split
  · rename_i h
    simp only [Bool.and_eq_true, decide_eq_true_eq] at h
    exact Or.inr ⟨h.1.1.1, h.1.1.2, h.1.2, h.2, rfl⟩
  · exact Or.inl rfl

theorem pkPayload_length (u : TSUnit) (n : Nat) (c : Bytes) (i : Nat) :
    (pkPayload u n c i).length = c.length ∨ (c.length < 184 ∧ (pkPayload u n c i).length = 184) := by
  rcases pkPayload_cases u n c i with h | ⟨_, _, _, h1, h⟩
  · rw [h]; exact Or.inl rfl
  · rw [h]; refine Or.inr ⟨h1, ?_⟩; simp; omega

/-- an adaptation field as the reference multiplexer emits it: well-formed, in the demuxer's delivered form, occupying
`t` bytes in all -/
structure AFGood (a : PacketAdaptationField) (t : Int) : Prop where
  wf : a.isOneByteStuffing = false → AFWF a
  one : a.isOneByteStuffing = true → a = oneByteAF
  canon : a.isOneByteStuffing = false → AFCanon a
  size : (if a.isOneByteStuffing = true then 1 else 1 + afSize a) = t

theorem stuffAF_good (l : Nat) : AFGood (stuffAF l) (l + 1) := by
  unfold stuffAF
  split
  · rename_i h; subst h
    exact ⟨fun h => (by cases h), fun _ => rfl, fun h => (by cases h), rfl⟩
  · rename_i h
    have hl : (0 : Int) < ((l - 1 : Nat) : Int) ∨ l = 1 := by omega
    refine ⟨fun _ => ⟨fun h => (by cases h), fun h => (by cases h), fun h => (by cases h), fun h => (by cases h),
      fun h => (by cases h)⟩, fun h => (by cases h), fun _ => ?_, ?_⟩
    · refine ⟨?_, ?_, fun _ => rfl, fun _ => rfl, fun _ => rfl, fun _ => ⟨rfl, rfl⟩, fun _ => rfl, fun e h => (by cases h)⟩
      · simp [afSize]; omega
      · simp; omega
    · simp [afSize]; omega

theorem firstAF_good (c0 : Nat) (a : PacketAdaptationField) (h : FirstAFOK c0 (some a)) (hc : c0 < 184) :
    AFGood a (184 - (c0 : Int)) := by
  have h := h hc
  rcases h with ⟨h1, h2, h3⟩ | ⟨h1, h2, h3, h4⟩
  · refine ⟨fun h => ?_, fun _ => h2, fun h => ?_, ?_⟩
    · rw [h1] at h; cases h
    · rw [h1] at h; cases h
    · simp [h1]; omega
  · refine ⟨fun _ => h2, fun h => ?_, fun _ => h3, ?_⟩
    · rw [h1] at h; cases h
    · simp [h1]; omega

theorem pkAF_good (u : TSUnit) (P : Bytes) (i : Nat) (hP : P.length ≤ 184)
    (hf : i = 0 → P.length < 184 → FirstAFOK P.length u.firstAF) :
    (pkAF u P i = none ∧ P.length = 184) ∨ ∃ a, pkAF u P i = some a ∧ AFGood a (184 - (P.length : Int)) := by
  unfold pkAF
  split
  · rename_i h; exact Or.inl ⟨rfl, h⟩
  · rename_i h
    have hs : AFGood (stuffAF (183 - P.length)) (184 - (P.length : Int)) := by
      have := stuffAF_good (183 - P.length)
      have e : (((183 - P.length : Nat) : Int) + 1) = 184 - (P.length : Int) := by omega
      rwa [e] at this
    right
    split
    · rename_i hi
      cases ha : u.firstAF with
      | none => exact ⟨_, rfl, hs⟩
      | some a =>
        refine ⟨a, rfl, ?_⟩
        have := hf hi (by omega)
        rw [ha] at this
        exact firstAF_good _ a this (by omega)
    · exact ⟨_, rfl, hs⟩

theorem mkPk_wf (u : TSUnit) (cc0 n : Nat) (c : Bytes) (i : Nat) (hu : UnitWF u) (hc2 : c.length ≤ 184)
    (h0 : i = 0 → c.length = u.chunks.headD 0) :
    PacketWF (mkPk u cc0 n c i) ∧ PacketCanon (mkPk u cc0 n c i) ∧ PacketExact (mkPk u cc0 n c i) ∧
      StartPayload (mkPk u cc0 n c i) := by
  have hP : (pkPayload u n c i).length ≤ 184 := by
    rcases pkPayload_length u n c i with h | ⟨_, h⟩ <;> omega
  have hf : i = 0 → (pkPayload u n c i).length < 184 → FirstAFOK (pkPayload u n c i).length u.firstAF := by
    intro hi hl
    rcases pkPayload_length u n c i with h | ⟨_, h⟩
    · rw [h, h0 hi]; exact hu.af
    · omega
  have hcc : (cc0 + i) % 16 < 16 := Nat.mod_lt _ (by decide)
  rcases pkAF_good u (pkPayload u n c i) i hP hf with ⟨ha, hl⟩ | ⟨a, ha, hg⟩
  · refine ⟨⟨hu.pid, (by show 0 < 4; decide), hcc, ?_⟩, ⟨fun _ => ha, ?_, ?_⟩, ?_, ⟨rfl, hu.tei, hcc⟩⟩
    · intro h; simp [mkPk, ha] at h
    · intro a h; simp [mkPk, ha] at h
    · intro h; cases h
    · simp [PacketExact, packetHeadSize, mkPk, ha]; omega
  · refine ⟨⟨hu.pid, (by show 0 < 4; decide), hcc, ?_⟩, ⟨?_, ?_, ?_⟩, ?_, ⟨rfl, hu.tei, hcc⟩⟩
    · intro _
      show AFOK (pkAF u (pkPayload u n c i) i)
      rw [ha]; exact hg.wf
    · intro h; simp [mkPk, ha] at h
    · intro a' h
      have : a' = a := by simp [mkPk, ha] at h; exact h.symm
      subst this
      exact ⟨hg.one, hg.canon⟩
    · intro h; cases h
    · have := hg.size
      simp only [PacketExact, packetHeadSize, mkPk, ha, Option.isSome_some, if_true]
      omega

/-- only the first packet of a unit can announce a discontinuity -/
theorem mkPk_di (u : TSUnit) (cc0 n : Nat) (c : Bytes) (i : Nat) (hi : i ≠ 0) : pktDI (mkPk u cc0 n c i) = false := by
  have hs : ∀ l, (stuffAF l).discontinuityIndicator = false := by
    intro l; unfold stuffAF; split <;> rfl
  unfold pktDI mkPk pkAF
  simp only [hi, if_false]
  split <;> simp [hs]

theorem chunk_at (u : TSUnit) (h : UnitWF u) (x : Bytes × Nat) (hx : x ∈ (splitChunks u.payload u.chunks).zipIdx) :
    u.chunks[x.2]? = some x.1.length := by
  have h1 := List.mem_zipIdx_iff_getElem?.mp hx
  have h2 := splitChunks_lengths u.payload u.chunks (Nat.le_of_eq h.sum)
  have : ((splitChunks u.payload u.chunks).map List.length)[x.2]? = some x.1.length := by
    rw [List.getElem?_map, h1]; rfl
  rwa [h2] at this

/-- every packet of a well-formed unit is well-formed, in the demuxer's delivered form, exactly 188 bytes, and an accepted
payload packet -/
theorem packetsOf_wf (u : TSUnit) (cc0 : Nat) (h : UnitWF u) :
    ∀ p ∈ packetsOf u cc0, PacketWF p ∧ PacketCanon p ∧ PacketExact p ∧ StartPayload p := by
  intro p hp
  rw [packetsOf_eq_map] at hp
  obtain ⟨x, hx, rfl⟩ := List.mem_map.mp hp
  have hc := chunk_at u h x hx
  refine mkPk_wf u cc0 _ x.1 x.2 h (h.rng _ (List.mem_of_getElem? hc)).2 ?_
  intro h0
  rw [h0] at hc
  rw [List.headD_eq_head?_getD, List.head?_eq_getElem?, hc]; rfl

theorem packetsOf_ne (u : TSUnit) (cc0 : Nat) (h : UnitWF u) : packetsOf u cc0 ≠ [] := by
  intro e
  have := packetsOf_length u cc0
  rw [e] at this
  exact h.ne (List.length_eq_zero_iff.mp this.symm)

theorem packetsOf_eq_unit (u : TSUnit) (cc0 : Nat) (h : UnitWF u) : packetsOf u cc0 = (unitPk u cc0).packets := by
  have := packetsOf_ne u cc0 h
  unfold unitPk UnitPk.packets
  cases hp : packetsOf u cc0 with
  | nil => exact (this hp).elim
  | cons p r => rfl

/-! ### counters -/

theorem goPk_continues (u : TSUnit) (cc0 n : Nat) (r : List Bytes) (k : Nat)
    (h : ∀ p ∈ goPk u cc0 n (k + 1) r, PlainPayload p) : Continues ((cc0 + k) % 16) (goPk u cc0 n (k + 1) r) := by
  induction r generalizing k with
  | nil => exact True.intro
  | cons c r ih =>
    simp only [goPk] at h ⊢
    refine ⟨h _ (by simp), by simp [mkPk], ?_, ?_⟩
    · show (cc0 + (k + 1)) % 16 = ((cc0 + k) % 16 + 1) % 16
      omega
    · exact ih (k + 1) (fun p hp => h p (by simp [hp]))

theorem goPk_di (u : TSUnit) (cc0 n : Nat) (r : List Bytes) (k : Nat) :
    ∀ p ∈ goPk u cc0 n (k + 1) r, pktDI p = false := by
  induction r generalizing k with
  | nil => intro p hp; cases hp
  | cons c r ih =>
    intro p hp
    simp only [goPk, List.mem_cons] at hp
    rcases hp with rfl | hp
    · exact mkPk_di u cc0 n c (k + 1) (by omega)
    · exact ih (k + 1) p hp

/-- PUSI exactly on the first packet, counters cc0, cc0+1, … modulo 16 -/
theorem unitPk_ok (u : TSUnit) (cc0 : Nat) (h : UnitWF u) :
    UnitOK' (unitPk u cc0) ∧ (unitPk u cc0).first.header.continuityCounter = cc0 % 16 := by
  have hwf := packetsOf_wf u cc0 h
  have hne := packetsOf_ne u cc0 h
  unfold unitPk
  rw [packetsOf_eq_go] at hwf hne ⊢
  cases hcs : splitChunks u.payload u.chunks with
  | nil => rw [hcs] at hne; exact (hne rfl).elim
  | cons c r =>
    rw [hcs] at hwf
    simp only [goPk] at hwf ⊢
    refine ⟨⟨(hwf _ (by simp)).2.2.2, by simp [mkPk], ?_⟩, rfl⟩
    refine goPk_continues u cc0 _ r 0 (fun p hp => ?_)
    obtain ⟨h1, h2, h3⟩ := (hwf p (List.mem_cons_of_mem _ hp)).2.2.2
    exact ⟨h1, h2, goPk_di u cc0 _ r 0 p hp, h3⟩

theorem goPk_lastCC (u : TSUnit) (cc0 n : Nat) (cs : List Bytes) (k : Nat) (h : cs ≠ []) :
    lastCC (goPk u cc0 n k cs) = some ((cc0 + k + cs.length - 1) % 16) := by
  induction cs generalizing k with
  | nil => exact (h rfl).elim
  | cons c r ih =>
    cases r with
    | nil => simp [goPk, lastCC, mkPk]
    | cons c' r' =>
      have := ih (k + 1) (by simp)
      simp only [goPk, lastCC, List.getLast?_cons_cons] at this ⊢
      rw [this]; simp only [List.length_cons]; congr 2; omega

theorem packetsOf_lastCC (u : TSUnit) (cc0 : Nat) (h : UnitWF u) :
    lastCC (packetsOf u cc0) = some ((cc0 + u.chunks.length - 1) % 16) := by
  rw [packetsOf_eq_go, goPk_lastCC, splitChunks_length]; · rfl
  intro e
  have := splitChunks_length u.payload u.chunks
  rw [e] at this
  exact h.ne (List.length_eq_zero_iff.mp this.symm)

/-! ### payloads -/

theorem goPk_concat (u : TSUnit) (cc0 n : Nat) (cs : List Bytes) (k : Nat) (h : cs ≠ []) (hn : k + cs.length = n) :
    concatPayload (goPk u cc0 n k cs) = cs.flatten ++
      List.replicate (if (u.psi && u.padPayload) = true then 184 - (cs.getLastD []).length else 0) 0xff := by
  induction cs generalizing k with
  | nil => exact (h rfl).elim
  | cons c r ih =>
    cases r with
    | nil =>
      simp only [goPk, concatPayload_cons, concatPayload_nil, List.flatten_cons, List.flatten_nil, List.append_nil,
        List.getLastD_cons, List.getLastD_nil]
      show pkPayload u n c k = _
      rcases pkPayload_cases u n c k with e | ⟨h1, h2, _, _, e⟩
      · rw [e]
        unfold pkPayload at e
        split at e
        · rename_i hc
          simp only [Bool.and_eq_true, decide_eq_true_eq] at hc
          have := congrArg List.length e
          simp at this; omega
        · rename_i hc
          by_cases hpp : (u.psi && u.padPayload) = true
          · have : ¬ c.length < 184 := by
              intro hl; apply hc
              simp only [List.length_cons, List.length_nil] at hn
              simp [hpp, hl, hn] at hc ⊢
            simp only [hpp, if_true]
            have : 184 - c.length = 0 := by omega
            simp [this]
          · simp [hpp]
      · rw [e]; simp [h1, h2]
    | cons c' r' =>
      have := ih (k + 1) (by simp) (by simp only [List.length_cons] at hn ⊢; omega)
      simp only [goPk, concatPayload_cons] at this ⊢
      rw [this]
      have e : pkPayload u n c k = c := by
        rcases pkPayload_cases u n c k with e | ⟨_, _, h3, _, _⟩
        · exact e
        · simp only [List.length_cons] at hn; omega
      show pkPayload u n c k ++ _ = _
      rw [e]; simp

theorem splitChunks_ne (u : TSUnit) (h : UnitWF u) : splitChunks u.payload u.chunks ≠ [] := by
  intro e
  have := splitChunks_length u.payload u.chunks
  rw [e] at this
  exact h.ne (List.length_eq_zero_iff.mp this.symm)

theorem concat_packetsOf (u : TSUnit) (cc0 : Nat) (h : UnitWF u) :
    concatPayload (packetsOf u cc0) = u.payload ++ List.replicate (padLen u) 0xff := by
  rw [packetsOf_eq_go, goPk_concat u cc0 _ _ 0 (splitChunks_ne u h) (by simp), C02.splitChunks_flatten _ _ h.sum]
  congr 2
  unfold padLen
  have h2 := splitChunks_lengths u.payload u.chunks (Nat.le_of_eq h.sum)
  have h3 : ((splitChunks u.payload u.chunks).map List.length).getLast? = u.chunks.getLast? := by rw [h2]
  rw [List.getLast?_map] at h3
  have hne := splitChunks_ne u h
  cases hg : (splitChunks u.payload u.chunks).getLast? with
  | none => exact (hne (List.getLast?_eq_none_iff.mp hg)).elim
  | some c =>
    rw [hg] at h3
    simp only [List.getLastD_eq_getLast?, hg, ← h3, Option.map_some, Option.getD_some]

theorem goPk_take_concat (u : TSUnit) (cc0 n : Nat) (cs : List Bytes) (k i : Nat) (hi : i < cs.length)
    (hn : k + cs.length = n) : concatPayload ((goPk u cc0 n k cs).take i) = (cs.take i).flatten := by
  induction cs generalizing k i with
  | nil => simp at hi
  | cons c r ih =>
    cases i with
    | zero => simp [concatPayload_nil]
    | succ i =>
      simp only [List.length_cons] at hi hn
      have e : pkPayload u n c k = c := by
        rcases pkPayload_cases u n c k with e | ⟨_, _, h3, _, _⟩
        · exact e
        · omega
      simp only [goPk, List.take_succ_cons, concatPayload_cons, List.flatten_cons]
      rw [ih (k + 1) i (by omega) (by omega)]
      show pkPayload u n c k ++ _ = _
      rw [e]

/-- the payload carried by the first `i` packets (i less than the number of packets: no padding involved) -/
theorem concat_take_packetsOf (u : TSUnit) (cc0 : Nat) (h : UnitWF u) (i : Nat) (hi : i < u.chunks.length) :
    concatPayload ((packetsOf u cc0).take i) = u.payload.take ((u.chunks.take i).sum) := by
  have _ := h
  rw [packetsOf_eq_go, goPk_take_concat u cc0 _ _ 0 i (by rw [splitChunks_length]; exact hi) (by simp),
    splitChunks_take, splitChunks_flatten_take]

theorem expectedOf_eq (u : TSUnit) (cc0 : Nat) (h : UnitWF u) :
    expectedOf u cc0 = u.data.map fun d => { d with firstPacket := some { (unitPk u cc0).first with payload := [] }, pid := u.pid } := by
  have := packetsOf_ne u cc0 h
  unfold expectedOf unitPk
  cases hp : packetsOf u cc0 with
  | nil => exact (this hp).elim
  | cons p r => rfl

/-! ### chains -/

theorem chainPk_eq (cc : Nat) (us : List TSUnit) (h : ∀ u ∈ us, UnitWF u) :
    chainPk cc us = (chainUnits cc us).flatMap UnitPk.packets := by
  induction us generalizing cc with
  | nil => rfl
  | cons u r ih =>
    simp only [chainPk, chainUnits, List.flatMap_cons]
    rw [ih _ (fun v hv => h v (by simp [hv])), packetsOf_eq_unit u cc (h u (by simp))]

theorem getLast?_split {α : Type} (l : List α) (x : α) (h : l.getLast? = some x) : l = l.dropLast ++ [x] := by
  have hne : l ≠ [] := by intro e; rw [e] at h; cases h
  have := List.dropLast_concat_getLast hne
  rw [List.getLast?_eq_some_getLast hne] at h
  cases h
  exact this.symm

/-- counters run on modulo 16 across the units of a PID -/
theorem chain_ok (us : List TSUnit) (h : ∀ u ∈ us, UnitWF u) (cc : Nat) (hcc : cc < 16) (q : List Packet)
    (hq : QueueLeadsTo q cc) : ChainOK' q (chainUnits cc us) := by
  induction us generalizing cc q with
  | nil => exact True.intro
  | cons u r ih =>
    have hu := h u (by simp)
    obtain ⟨hok, hfirst⟩ := unitPk_ok u cc hu
    simp only [chainUnits, ChainOK']
    refine ⟨hok, ?_, ih (fun v hv => h v (by simp [hv])) _ (Nat.mod_lt _ (by decide)) _ ?_⟩
    · rw [hfirst, Nat.mod_eq_of_lt hcc]; exact hq
    · rw [← packetsOf_eq_unit u cc hu]
      have hl := packetsOf_lastCC u cc hu
      unfold lastCC at hl
      cases hg : (packetsOf u cc).getLast? with
      | none => rw [hg] at hl; cases hl
      | some last =>
        rw [hg] at hl
        simp only [Option.map_some, Option.some.injEq] at hl
        have hlen : 1 ≤ u.chunks.length := by
          have := hu.ne
          cases hc : u.chunks with
          | nil => exact (this hc).elim
          | cons _ _ => simp
        refine Or.inr ⟨_, last, getLast?_split _ _ hg, ?_, ?_⟩
        · rw [hl]; exact Nat.mod_lt _ (by decide)
        · rw [hl, packetsOf_length]; omega

/-! ### per PID -/

/-- the fold step of `perPID` -/
def foldStep (acc : List Packet × List DemuxerData × Nat) (u : TSUnit) : List Packet × List DemuxerData × Nat :=
  (acc.1 ++ packetsOf u acc.2.2, acc.2.1 ++ expectedOf u acc.2.2, (acc.2.2 + (packetsOf u acc.2.2).length) % 16)

theorem foldl_chain (us : List TSUnit) (ps : List Packet) (ds : List DemuxerData) (cc : Nat) :
    (us.foldl foldStep (ps, ds, cc)).1 = ps ++ chainPk cc us ∧
    (us.foldl foldStep (ps, ds, cc)).2.1 = ds ++ chainExp cc us := by
  induction us generalizing ps ds cc with
  | nil => simp [chainPk, chainExp]
  | cons u r ih =>
    simp only [List.foldl_cons, chainPk, chainExp]
    have := ih (ps ++ packetsOf u cc) (ds ++ expectedOf u cc) ((cc + (packetsOf u cc).length) % 16)
    simp only [foldStep, nextCC, ← List.append_assoc]
    exact this

theorem perPID_eq (units : List TSUnit) :
    perPID units = ((units.map (·.pid)).eraseDups).map fun pid =>
      (pid, chainPk 0 (units.filter (·.pid == pid)), chainExp 0 (units.filter (·.pid == pid))) := by
  unfold perPID
  apply List.map_congr_left
  intro pid _
  have := foldl_chain (units.filter (·.pid == pid)) [] [] 0
  simp only [List.nil_append] at this
  rw [← this.1, ← this.2]
  rfl

theorem expectedList_eq (m : StreamModel) : expectedList m = (pidsOf m).map fun pid => (pid, chainExp 0 (unitsOn m pid)) := by
  unfold expectedList pidsOf unitsOn
  rw [perPID_eq, List.map_map]
  rfl

/-- the association list that `StreamModel.packets` merges -/
theorem packets_eq (m : StreamModel) :
    m.packets = mergeBy m.schedule ((pidsOf m).map fun pid => (pid, chainPk 0 (unitsOn m pid))) := by
  unfold StreamModel.packets pidsOf unitsOn
  rw [perPID_eq, List.map_map]
  rfl

/-! ### the merge -/

/-- what is stored under key `k` -/
def getK (k : Nat) (rest : List (Nat × List Packet)) : List Packet :=
  match rest.find? (·.1 == k) with
  | some e => e.2
  | none => []

def updK (pid : Nat) (ps : List Packet) (e : Nat × List Packet) : Nat × List Packet := if e.1 == pid then (pid, ps) else e

theorem mergeBy_cons_some (pid : Nat) (sched : List Nat) (rest : List (Nat × List Packet)) (k' : Nat) (p : Packet)
    (ps : List Packet) (h : rest.find? (·.1 == pid) = some (k', p :: ps)) :
    mergeBy (pid :: sched) rest = p :: mergeBy sched (rest.map (updK pid ps)) := by
  rw [mergeBy]; simp only [h]; rfl

theorem mergeBy_cons_skip (pid : Nat) (sched : List Nat) (rest : List (Nat × List Packet))
    (h : getK pid rest = []) : mergeBy (pid :: sched) rest = mergeBy sched rest := by
  rw [mergeBy]
  unfold getK at h
  split
  · rename_i k' p ps hf
    rw [hf] at h; cases h
  · rfl

theorem getK_upd_same (pid : Nat) (ps : List Packet) (rest : List (Nat × List Packet)) (e : Nat × List Packet)
    (h : rest.find? (·.1 == pid) = some e) : getK pid (rest.map (updK pid ps)) = ps := by
  induction rest with
  | nil => cases h
  | cons x r ih =>
    unfold getK at ih ⊢
    simp only [List.map_cons, List.find?_cons] at h ⊢
    by_cases hx : (x.1 == pid) = true
    · simp [updK, hx]
    · simp only [hx] at h
      have : ((updK pid ps x).1 == pid) = false := by simp [updK, hx]
      simp only [this]
      exact ih h

theorem getK_upd_other (pid k : Nat) (ps : List Packet) (rest : List (Nat × List Packet)) (hk : k ≠ pid) :
    getK k (rest.map (updK pid ps)) = getK k rest := by
  induction rest with
  | nil => rfl
  | cons x r ih =>
    unfold getK at ih ⊢
    simp only [List.map_cons, List.find?_cons]
    by_cases hx : (x.1 == pid) = true
    · have h1 : (x.1 == k) = false := by
        simp only [beq_iff_eq] at hx; simp only [beq_eq_false_iff_ne, ne_eq]; omega
      have h2 : ((updK pid ps x).1 == k) = false := by
        simp only [updK, hx, if_true, beq_eq_false_iff_ne, ne_eq]; omega
      simp only [h1, h2]; exact ih
    · have : updK pid ps x = x := by simp [updK, hx]
      rw [this]
      cases hxk : x.1 == k
      · simp only []; exact ih
      · rfl

theorem keys_upd (pid : Nat) (ps : List Packet) (rest : List (Nat × List Packet)) :
    (rest.map (updK pid ps)).map (·.1) = rest.map (·.1) := by
  rw [List.map_map]
  apply List.map_congr_left
  intro e _
  simp only [Function.comp, updK]
  split
  · rename_i h; simp only [beq_iff_eq] at h; exact h.symm
  · rfl

/-- invariant of the merge: keys pairwise distinct, every packet stored under its own PID -/
structure MergeInv (rest : List (Nat × List Packet)) : Prop where
  keys : (rest.map (·.1)).Nodup
  pids : ∀ e ∈ rest, ∀ p ∈ e.2, p.header.pid = e.1

theorem MergeInv.upd {rest : List (Nat × List Packet)} (h : MergeInv rest) (pid k' : Nat) (p : Packet) (ps : List Packet)
    (hf : rest.find? (·.1 == pid) = some (k', p :: ps)) : MergeInv (rest.map (updK pid ps)) := by
  refine ⟨by rw [keys_upd]; exact h.keys, ?_⟩
  intro e he q hq
  obtain ⟨x, hx, rfl⟩ := List.mem_map.mp he
  unfold updK at hq ⊢
  split at hq
  · rename_i hxp
    simp only [hxp, if_true]
    have hm := List.mem_of_find?_eq_some hf
    have hk := List.find?_some hf
    simp only [beq_iff_eq] at hk
    have := h.pids _ hm q (List.mem_cons_of_mem _ hq)
    simp only at this; omega
  · rename_i hxp
    simp only [hxp]
    exact h.pids x hx q hq

theorem filter_none_of_pid (l : List Packet) (k k' : Nat) (h : ∀ p ∈ l, p.header.pid = k') (hk : k' ≠ k) :
    l.filter (fun p => p.header.pid == k) = [] := by
  rw [List.filter_eq_nil_iff]
  intro p hp
  rw [h p hp]; simp [hk]

theorem filter_all_of_pid (l : List Packet) (k : Nat) (h : ∀ p ∈ l, p.header.pid = k) :
    l.filter (fun p => p.header.pid == k) = l := by
  rw [List.filter_eq_self]
  intro p hp
  rw [h p hp]; simp

theorem flatten_filter_absent (rest : List (Nat × List Packet)) (k : Nat)
    (hp : ∀ e ∈ rest, ∀ p ∈ e.2, p.header.pid = e.1) (hk : k ∉ rest.map (·.1)) :
    ((rest.map (·.2)).flatten).filter (fun p => p.header.pid == k) = [] := by
  induction rest with
  | nil => rfl
  | cons x r ih =>
    simp only [List.map_cons, List.flatten_cons, List.filter_append, List.mem_cons, not_or] at hk ⊢
    rw [ih (fun e he => hp e (by simp [he])) hk.2,
      filter_none_of_pid x.2 k x.1 (hp x (by simp)) (fun e => hk.1 e.symm)]
    rfl

theorem flatten_filter (rest : List (Nat × List Packet)) (k : Nat) (h : MergeInv rest) :
    ((rest.map (·.2)).flatten).filter (fun p => p.header.pid == k) = getK k rest := by
  induction rest with
  | nil => rfl
  | cons x r ih =>
    obtain ⟨hk, hp⟩ := h
    simp only [List.map_cons, List.nodup_cons] at hk
    have hr : MergeInv r := ⟨hk.2, fun e he => hp e (by simp [he])⟩
    unfold getK at ih ⊢
    simp only [List.map_cons, List.flatten_cons, List.filter_append, List.find?_cons]
    by_cases hx : (x.1 == k) = true
    · simp only [hx]
      simp only [beq_iff_eq] at hx
      rw [filter_all_of_pid x.2 k (fun p hq => by rw [hp x (by simp) p hq, hx]),
        flatten_filter_absent r k hr.pids (by rw [← hx]; exact hk.1)]
      simp
    · have hx' : (x.1 == k) = false := by simpa using hx
      simp only [hx']
      rw [filter_none_of_pid x.2 k x.1 (hp x (by simp)) (by simpa using hx), ih hr]
      rfl

theorem mergeBy_filter (sched : List Nat) (rest : List (Nat × List Packet)) (k : Nat) (h : MergeInv rest) :
    (mergeBy sched rest).filter (fun p => p.header.pid == k) = getK k rest := by
  induction sched generalizing rest with
  | nil => rw [mergeBy]; exact flatten_filter rest k h
  | cons pid sched ih =>
    cases hg : getK pid rest with
    | nil => rw [mergeBy_cons_skip pid sched rest hg]; exact ih rest h
    | cons p ps =>
      unfold getK at hg
      cases hf : rest.find? (·.1 == pid) with
      | none => rw [hf] at hg; cases hg
      | some e =>
        rw [hf] at hg
        obtain ⟨k', l⟩ := e
        simp only at hg
        subst hg
        rw [mergeBy_cons_some pid sched rest k' p ps hf, List.filter_cons, ih _ (h.upd pid k' p ps hf)]
        have hm := List.mem_of_find?_eq_some hf
        have hk := List.find?_some hf
        simp only [beq_iff_eq] at hk
        have hpp : p.header.pid = pid := by
          have := h.pids _ hm p (by simp)
          simp only at this; omega
        by_cases hkp : k = pid
        · subst hkp
          rw [getK_upd_same k ps rest _ hf]
          simp [hpp, getK, hf]
        · rw [getK_upd_other pid k ps rest hkp]
          have : (p.header.pid == k) = false := by simp [hpp]; omega
          simp [this]

theorem nodup_eraseDups_aux (n : Nat) (l : List Nat) (h : l.length ≤ n) : l.eraseDups.Nodup := by
  induction n generalizing l with
  | zero =>
    have : l = [] := List.length_eq_zero_iff.mp (by omega)
    subst this; simp
  | succ n ih =>
    cases l with
    | nil => simp
    | cons a as =>
      rw [List.eraseDups_cons, List.nodup_cons]
      refine ⟨?_, ih _ ?_⟩
      · rw [List.mem_eraseDups, List.mem_filter]
        intro ⟨_, h2⟩; simp at h2
      · have := List.length_filter_le (fun b => !b == a) as
        simp only [List.length_cons] at h; omega

theorem nodup_eraseDups (l : List Nat) : l.eraseDups.Nodup := nodup_eraseDups_aux l.length l (Nat.le_refl _)

theorem chainPk_pid (pid cc : Nat) (us : List TSUnit) (h : ∀ u ∈ us, u.pid = pid) : ∀ p ∈ chainPk cc us, p.header.pid = pid := by
  induction us generalizing cc with
  | nil => intro p hp; cases hp
  | cons u r ih =>
    intro p hp
    simp only [chainPk, List.mem_append] at hp
    rcases hp with hp | hp
    · rw [packetsOf_pid u cc p hp]; exact h u (by simp)
    · exact ih _ (fun v hv => h v (by simp [hv])) p hp

theorem unitsOn_pid (m : StreamModel) (pid : Nat) : ∀ u ∈ unitsOn m pid, u.pid = pid := by
  intro u hu
  have := (List.mem_filter.mp hu).2
  simpa using this

theorem model_inv (m : StreamModel) : MergeInv ((pidsOf m).map fun pid => (pid, chainPk 0 (unitsOn m pid))) := by
  refine ⟨?_, ?_⟩
  · rw [List.map_map]
    have : ((fun (x : Nat × List Packet) => x.1) ∘ fun pid => (pid, chainPk 0 (unitsOn m pid))) = id := rfl
    rw [this, List.map_id]
    exact nodup_eraseDups _
  · intro e he p hp
    obtain ⟨pid, _, rfl⟩ := List.mem_map.mp he
    exact chainPk_pid pid 0 _ (unitsOn_pid m pid) p hp

theorem getK_map (F : Nat → List Packet) (pids : List Nat) (k : Nat) :
    getK k (pids.map fun pid => (pid, F pid)) = if k ∈ pids then F k else [] := by
  induction pids with
  | nil => rfl
  | cons a r ih =>
    unfold getK at ih ⊢
    simp only [List.map_cons, List.find?_cons]
    by_cases ha : a = k
    · subst ha; simp
    · have : (a == k) = false := by simpa using ha
      simp only [this, ih, List.mem_cons]
      have : ¬ k = a := fun e => ha e.symm
      simp [this]

theorem getK_model (m : StreamModel) (k : Nat) :
    getK k ((pidsOf m).map fun pid => (pid, chainPk 0 (unitsOn m pid))) = chainPk 0 (unitsOn m k) := by
  rw [getK_map (fun pid => chainPk 0 (unitsOn m pid))]
  split
  · rfl
  · rename_i hk
    have : unitsOn m k = [] := by
      unfold unitsOn
      rw [List.filter_eq_nil_iff]
      intro u hu hpk
      apply hk
      unfold pidsOf
      rw [List.mem_eraseDups, List.mem_map]
      exact ⟨u, hu, by simpa using hpk⟩
    rw [this]; rfl

/-- the merge keeps every PID's packets, in order, whatever the schedule -/
theorem packets_filter (m : StreamModel) (pid : Nat) :
    m.packets.filter (fun p => p.header.pid == pid) = chainPk 0 (unitsOn m pid) := by
  rw [packets_eq, mergeBy_filter _ _ _ (model_inv m), getK_model]

theorem chainPk_mem (cc : Nat) (us : List TSUnit) (p : Packet) (hp : p ∈ chainPk cc us) : ∃ u ∈ us, ∃ cc, p ∈ packetsOf u cc := by
  induction us generalizing cc with
  | nil => cases hp
  | cons u r ih =>
    simp only [chainPk, List.mem_append] at hp
    rcases hp with hp | hp
    · exact ⟨u, by simp, cc, hp⟩
    · obtain ⟨v, hv, c, hc⟩ := ih _ hp
      exact ⟨v, by simp [hv], c, hc⟩

theorem packets_mem (m : StreamModel) (p : Packet) (hp : p ∈ m.packets) : ∃ u ∈ m.units, ∃ cc, p ∈ packetsOf u cc := by
  have : p ∈ m.packets.filter (fun q => q.header.pid == p.header.pid) := by
    rw [List.mem_filter]; exact ⟨hp, by simp⟩
  rw [packets_filter] at this
  obtain ⟨u, hu, cc, hc⟩ := chainPk_mem 0 _ p this
  exact ⟨u, (List.mem_filter.mp hu).1, cc, hc⟩

theorem mergeBy_prefix (n k : Nat) (sh : List Nat) (rest : List (Nat × List Packet)) (hn : n ≤ (getK k rest).length) :
    ∃ tl, mergeBy (List.replicate n k ++ sh) rest = (getK k rest).take n ++ tl := by
  induction n generalizing rest with
  | zero => exact ⟨mergeBy sh rest, by simp⟩
  | succ n ih =>
    cases hg : getK k rest with
    | nil => rw [hg] at hn; simp at hn
    | cons p ps =>
      have hg' := hg
      unfold getK at hg
      cases hf : rest.find? (·.1 == k) with
      | none => rw [hf] at hg; cases hg
      | some e =>
        rw [hf] at hg
        obtain ⟨k', l⟩ := e
        simp only at hg
        subst hg
        rw [List.replicate_succ, List.cons_append, mergeBy_cons_some k _ rest k' p ps hf]
        have h2 := getK_upd_same k ps rest _ hf
        rw [hg'] at hn
        obtain ⟨tl, ht⟩ := ih (rest.map (updK k ps)) (by rw [h2]; simp at hn; omega)
        rw [h2] at ht
        exact ⟨tl, by rw [ht]; simp⟩

/-- a schedule that starts with `n` entries for PID 0 puts the first `n` packets of PID 0 first -/
theorem packets_prefix (m : StreamModel) (n : Nat) (sh : List Nat) (hs : m.schedule = List.replicate n 0 ++ sh)
    (hn : n ≤ (chainPk 0 (unitsOn m 0)).length) : ∃ rest, m.packets = (chainPk 0 (unitsOn m 0)).take n ++ rest := by
  rw [packets_eq, hs, ← getK_model m 0]
  exact mergeBy_prefix n 0 sh _ (by rw [getK_model]; exact hn)

/-! ### bytes -/

theorem tsEncode_length (p : Packet) (h : PacketWF p) (hc : PacketCanon p) (hx : PacketExact p) : (tsEncode p).length = 188 :=
  writePacket_length188 p _ (C11.writePacket_eq_tsEncode_wf p h hc hx)

theorem parsesTo_map (ps : List Packet) (h : ∀ p ∈ ps, PacketWF p ∧ PacketCanon p ∧ PacketExact p) :
    ParsesTo (ps.map tsEncode) ps := by
  induction ps with
  | nil => exact True.intro
  | cons p r ih =>
    obtain ⟨h1, h2, h3⟩ := h p (by simp)
    exact ⟨C11.parse_tsEncode p h1 h2 h3, ih (fun q hq => h q (by simp [hq]))⟩

/-- the stream parses back, packet by packet, to the packets of the model -/
theorem chunks_parse (m : StreamModel) (h : ∀ u ∈ m.units, UnitWF u) :
    ParsesTo (chunksOf m) m.packets ∧ ∀ c ∈ chunksOf m, c.length = 188 := by
  have hall : ∀ p ∈ m.packets, PacketWF p ∧ PacketCanon p ∧ PacketExact p := by
    intro p hp
    obtain ⟨u, hu, cc, hc⟩ := packets_mem m p hp
    obtain ⟨h1, h2, h3, _⟩ := packetsOf_wf u cc (h u hu) p hc
    exact ⟨h1, h2, h3⟩
  refine ⟨parsesTo_map _ hall, ?_⟩
  intro c hc
  obtain ⟨p, hp, rfl⟩ := List.mem_map.mp hc
  obtain ⟨h1, h2, h3⟩ := hall p hp
  exact tsEncode_length p h1 h2 h3

/-! ### non-vacuity -/

/-- PCR + random access indicator + 166 stuffing bytes: adaptation_field_length 173 = 183 - 10 -/
def exFirstAF : PacketAdaptationField :=
  { pcr := some { base := 6442450941, extension := 299 }, length := 173, stuffingLength := 166,
    randomAccessIndicator := true, hasPCR := true }

/-- three packets (10, 184, 5 payload bytes), the first one with a PCR -/
def exUnitA : TSUnit :=
  { pid := 0x100, payload := (List.range 199).map (· % 251), data := [{ pid := 0x100 }], psi := false,
    chunks := [10, 184, 5], firstAF := some exFirstAF }

/-- two packets, no adaptation field given -/
def exUnitB : TSUnit :=
  { pid := 0x100, payload := List.replicate 185 0xab, data := [{ pid := 0x100 }], psi := false, chunks := [184, 1] }

/-- two packets on the other PID, the first one with the one-byte adaptation field -/
def exUnitC : TSUnit :=
  { pid := 0x101, payload := List.replicate 203 0xcd, data := [{ pid := 0x101 }], psi := false, chunks := [183, 20],
    firstAF := some oneByteAF }

def exModel : StreamModel :=
  { units := [exUnitA, exUnitC, exUnitB], schedule := [0x100, 0x101, 0x100, 0x100, 0x101, 0x100, 0x100] }

theorem exFirstAF_wf : AFWF exFirstAF :=
  ⟨fun _ => (by decide), fun h => absurd h (by decide), fun h => absurd h (by decide), fun h => absurd h (by decide),
   fun h => absurd h (by decide)⟩

theorem exFirstAF_canon : AFCanon exFirstAF := by
  refine ⟨by decide, by decide, by decide, by decide, by decide, by decide, by decide, ?_⟩
  intro e he; cases he

theorem exUnitA_wf : UnitWF exUnitA := by
  refine ⟨by decide, by decide, by decide, by decide +kernel, rfl, ?_⟩
  intro _
  exact Or.inr ⟨rfl, exFirstAF_wf, exFirstAF_canon, by decide⟩

theorem exUnitB_wf : UnitWF exUnitB :=
  ⟨by decide, by decide, by decide, by decide +kernel, rfl, True.intro⟩

theorem exUnitC_wf : UnitWF exUnitC := by
  refine ⟨by decide, by decide, by decide, by decide +kernel, rfl, ?_⟩
  intro _
  exact Or.inl ⟨rfl, rfl, rfl⟩

theorem exModel_wf : ∀ u ∈ exModel.units, UnitWF u := by
  intro u hu
  simp only [exModel, List.mem_cons, List.not_mem_nil, or_false] at hu
  rcases hu with rfl | rfl | rfl
  · exact exUnitA_wf
  · exact exUnitC_wf
  · exact exUnitB_wf

/-- seven packets, each encoded in 188 bytes -/
example : (chunksOf exModel).length = 7 ∧ ∀ c ∈ chunksOf exModel, c.length = 188 := by decide +kernel

/-- the PIDs alternate as scheduled, counters run per PID, the unit starts are where they belong -/
example : exModel.packets.map (fun p => (p.header.pid, p.header.continuityCounter, p.header.payloadUnitStartIndicator,
      p.header.hasAdaptationField, p.payload.length)) =
    [(0x100, 0, true, true, 10), (0x101, 0, true, true, 183), (0x100, 1, false, false, 184), (0x100, 2, false, true, 5),
     (0x101, 1, false, true, 20), (0x100, 3, true, false, 184), (0x100, 4, false, true, 1)] := by decide +kernel

example : ParsesTo (chunksOf exModel) exModel.packets ∧ ∀ c ∈ chunksOf exModel, c.length = 188 :=
  chunks_parse exModel exModel_wf

end Astits.RefMux
