module
public import Init
import all Init.Data.Array.QSort.Basic

/-!
# `Array.qsort` returns a permutation of its input

Core's `Array.qsort` only ever modifies its argument through `Vector.swap`, so its result is a
permutation of the input.  The `let rec` helpers `Array.qpartition.loop` and `Array.qsort.sort`
are private to `Init.Data.Array.QSort.Basic`; `import all` makes them (and their functional
induction principles) nameable here.
-/

public section

namespace Astits.RefMux

/-- The inner loop of `qpartition` only swaps. -/
private theorem qpartition_loop_perm {α : Type} {n : Nat} (lt : α → α → Bool) (lo hi : Nat)
    (hhi : hi < n) (pivot : α) (as : Vector α n) (i k : Nat)
    (ilo : lo ≤ i) (ik : i ≤ k) (w : k ≤ hi) :
    (Array.qpartition.loop lt lo hi hhi pivot as i k ilo ik w).2.Perm as := by
  induction as, i, k, ilo, ik, w using Array.qpartition.loop.induct lt lo hi hhi pivot with
  | case1 as i k ilo ik w h hlt ih =>
    rw [Array.qpartition.loop, dif_pos h, if_pos hlt]
    exact ih.trans (Vector.swap_perm _ _)
  | case2 as i k ilo ik w h hlt ih =>
    rw [Array.qpartition.loop, dif_pos h, if_neg hlt]
    exact ih
  | case3 as i k ilo ik w h =>
    rw [Array.qpartition.loop, dif_neg h]
    exact Vector.swap_perm (by omega) hhi

/-- `qpartition` only swaps. -/
private theorem qpartition_perm {α : Type} {n : Nat} (as : Vector α n) (lt : α → α → Bool)
    (lo hi : Nat) (w : lo ≤ hi) (hlo : lo < n) (hhi : hi < n) :
    (Array.qpartition as lt lo hi w hlo hhi).2.Perm as := by
  unfold Array.qpartition
  refine (qpartition_loop_perm ..).trans ?_
  have ite_perm : ∀ (c : Prop) [Decidable c] (xs ys : Vector α n), xs.Perm ys →
      (if c then xs else ys).Perm ys := by
    intro c _ xs ys h
    split
    · exact h
    · exact Vector.Perm.refl _
  refine (ite_perm _ _ _ (Vector.swap_perm _ _)).trans ?_
  refine (ite_perm _ _ _ (Vector.swap_perm _ _)).trans ?_
  exact ite_perm _ _ _ (Vector.swap_perm _ _)

/-- The recursive worker of `qsort` returns a permutation of its argument. -/
private theorem qsort_sort_perm {α : Type} (lt : α → α → Bool) {n : Nat} (as : Vector α n)
    (lo hi : Nat) (w : lo ≤ hi) (hlo : lo < n) (hhi : hi < n) :
    (Array.qsort.sort lt as lo hi w hlo hhi).Perm as := by
  induction as, lo, hi, w, hlo, hhi using Array.qsort.sort.induct lt with
  | case1 as lo hi w hlo hhi h₁ mid hmid as' heq h₂ =>
    have hp := qpartition_perm as lt lo hi w hlo hhi
    rw [Array.qsort.sort, dif_pos h₁]
    simp only [heq, dif_pos h₂]
    rw [heq] at hp
    exact hp
  | case2 as lo hi w hlo hhi h₁ mid hmid as' heq h₂ ih₁ _ ih₂ =>
    have hp := qpartition_perm as lt lo hi w hlo hhi
    rw [Array.qsort.sort, dif_pos h₁]
    simp only [heq, dif_neg h₂]
    rw [heq] at hp
    exact ih₂.trans (ih₁.trans hp)
  | case3 as lo hi w hlo hhi h₁ =>
    rw [Array.qsort.sort, dif_neg h₁]

/-- `Array.qsort` (any bounds) returns a permutation of its input. -/
theorem qsort_perm' {α : Type} (as : Array α) (lt : α → α → Bool) (lo hi : Nat) :
    (as.qsort lt lo hi).toList.Perm as.toList := by
  unfold Array.qsort
  split
  · exact List.Perm.refl _
  · exact (qsort_sort_perm lt as.toVector _ _ _ _ _).toArray.toList

/-- `as.qsort lt` is `Array.qsort as lt 0 (as.size - 1)` (the default bounds). -/
theorem qsort_default {α : Type} (as : Array α) (lt : α → α → Bool) :
    as.qsort lt = Array.qsort as lt 0 (as.size - 1) := rfl

/-- Core's `Array.qsort` returns a permutation of its input. -/
theorem qsort_perm {α : Type} (as : Array α) (lt : α → α → Bool) :
    (as.qsort lt).toList.Perm as.toList :=
  qsort_perm' as lt 0 (as.size - 1)

theorem mem_qsort {α : Type} (as : Array α) (lt : α → α → Bool) (x : α) :
    x ∈ (as.qsort lt).toList ↔ x ∈ as.toList :=
  (qsort_perm as lt).mem_iff

theorem qsort_length {α : Type} (as : Array α) (lt : α → α → Bool) :
    (as.qsort lt).toList.length = as.toList.length :=
  (qsort_perm as lt).length_eq

example (as : Array (Nat × List Nat)) (x : Nat × List Nat) :
    x ∈ (as.qsort (fun a b => a.1 < b.1)).toList ↔ x ∈ as.toList :=
  mem_qsort as (fun a b => decide (a.1 < b.1)) x

end Astits.RefMux
