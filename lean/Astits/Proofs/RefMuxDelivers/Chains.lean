/-
C02, whole-stream form — what the accumulator of one PID hands over for a chain of units, and what it parses to:
(A) PIDs that are not flushed early (elementary streams, DVB SI): one group per unit, the previous unit at every unit
start and the last one at the end of the stream; (B) table PIDs (PID 0, PMT PIDs): every unit flushed by the packet that
carries its last section byte, stuffing-only tails handed over at the next unit start (or at the end) and parsing to
nothing.
-/
import Astits.Proofs.RefMuxDelivers.NoErr
namespace Astits.RefMux
open Astits Astits.MuxDemux Astits.PerPid

/-! ## splitting the packets of a PID -/

theorem groupsFromP_append (pm : ProgramMap) (pid : Nat) (q l1 l2 : List Packet) :
    groupsFromP pm pid q (l1 ++ l2) =
      (accRun pm pid q l1).1.filter (fun g => !g.isEmpty) ++ groupsFromP pm pid (accRun pm pid q l1).2 l2 := by
  unfold groupsFromP
  rw [accRun_append]
  simp only [List.filter_append, List.append_assoc]

theorem okAll_append (a b : List (Res (List DemuxerData))) : okAll (a ++ b) = okAll a ++ okAll b := by
  unfold okAll
  rw [List.flatMap_append]

theorem parsedOn_append (pm : ProgramMap) (pid : Nat) (q l1 l2 : List Packet) :
    parsedOn pm pid q (l1 ++ l2) =
      okAll (((accRun pm pid q l1).1.filter (fun g => !g.isEmpty)).map (parseData · .none pm)) ++
        parsedOn pm pid (accRun pm pid q l1).2 l2 := by
  unfold parsedOn
  rw [groupsFromP_append, List.map_append, okAll_append]

theorem parsedOn_nil' (pm : ProgramMap) (pid : Nat) (q : List Packet) (h : q = [] ∨ parseData q .none pm = .ok []) :
    parsedOn pm pid q [] = [] := by
  rw [parsedOn_nil]
  rcases h with rfl | h
  · rfl
  · split
    · rfl
    · rw [h]; rfl

theorem groupsFromP_nil (pm : ProgramMap) (pid : Nat) (q : List Packet) :
    groupsFromP pm pid q [] = if q.isEmpty then [] else [q] := by
  simp [groupsFromP, accRun]

theorem filter_replicate_nil (n : Nat) :
    (List.replicate n ([] : List Packet)).filter (fun g => !g.isEmpty) = [] := by
  simp

/-! ## (A) PIDs without early flush -/

theorem groupsFromP_units (pm : ProgramMap) (pid : Nat) (hnp : early pid pm = false) (us : List UnitPk)
    (hc : ChainOK' [] us) : groupsFromP pm pid [] (us.flatMap UnitPk.packets) = us.map UnitPk.packets := by
  have hrun := accRun_units' pm pid [] us hnp hc
  obtain ⟨f1, f2⟩ := flushed_units us
  unfold groupsFromP
  rw [hrun]
  simp only
  rw [f1]
  cases us with
  | nil => simp [finalQueue]
  | cons u r =>
    rw [f2 (by simp)]
    have hl : ∃ w, (u :: r).getLast? = some w := ⟨(u :: r).getLast (by simp), List.getLast?_eq_some_getLast (by simp)⟩
    obtain ⟨w, hw⟩ := hl
    have := dropLast_getLast_map UnitPk.packets (u :: r)
    rw [hw] at this ⊢
    simp only [Option.map_some, Option.toList_some, Option.getD_some] at this ⊢
    have hne : w.packets.isEmpty = false := by simp [UnitPk.packets]
    rw [hne]
    exact this

/-! ## (B) table PIDs -/

/-- one unit of a table PID through the accumulator: `out` is what the group flushed at its last section byte parses
to, `b` the stuffing-only packets left queued behind it -/
structure TStep (pm : ProgramMap) (pid : Nat) (U : UnitPk) (out : List DemuxerData) (b : List Packet) : Prop where
  split : ∃ a pk, U.packets = a ++ [pk] ++ b ∧ parseData (a ++ [pk]) .none pm = .ok out ∧
    ∀ q, QueueLeadsTo q U.first.header.continuityCounter →
      accRun pm pid q U.packets =
        ((if a = [] then [] else q :: List.replicate (a.length - 1) []) ++ [a ++ [pk]] ++ List.replicate b.length [], b)
  tail : b = [] ∨ parseData b .none pm = .ok []

theorem queueLeadsTo_suffix (x b : List Packet) (n : Nat) (h : QueueLeadsTo (x ++ b) n) : QueueLeadsTo b n := by
  cases hb : b with
  | nil => exact Or.inl rfl
  | cons y r =>
    rcases h with h | ⟨q', last, e, h1, h2⟩
    · rw [hb] at h; simp at h
    · right
      have hne : b ≠ [] := by rw [hb]; simp
      have hl : (x ++ b).getLast (by simp [hne]) = b.getLast hne := List.getLast_append_of_ne_nil _ hne
      have hl2 : (x ++ b).getLast (by simp [hne]) = last := by
        simp only [e]
        simp
      refine ⟨b.dropLast, last, ?_, h1, h2⟩
      rw [← hb, ← hl2, hl]
      exact (List.dropLast_concat_getLast hne).symm

theorem nonempty_filter_step (q a : List Packet) (pk : Packet) (n : Nat) :
    ((if a = [] then [] else q :: List.replicate (a.length - 1) []) ++ [a ++ [pk]] ++
        List.replicate n ([] : List Packet)).filter (fun g => !g.isEmpty) =
      (if a = [] ∨ q = [] then [] else [q]) ++ [a ++ [pk]] := by
  have h1 : (a ++ [pk]).isEmpty = false := by cases a <;> rfl
  by_cases ha : a = []
  · subst ha
    simp
  · by_cases hq : q = []
    · subst hq
      simp [ha, h1]
    · have hq' : q.isEmpty = false := by cases q with
        | nil => exact absurd rfl hq
        | cons _ _ => rfl
      simp [ha, hq, hq', h1]

/-- **a table PID delivers the data of every unit once, in order**; the stuffing tails contribute nothing.  `steps`
lists the units with their data and tails; consecutive units are linked by the continuity counter (`ChainOK'`). -/
theorem table_chain (pm : ProgramMap) (pid : Nat) :
    ∀ (steps : List (UnitPk × List DemuxerData × List Packet)) (q0 q : List Packet),
      (∀ t ∈ steps, TStep pm pid t.1 t.2.1 t.2.2) → ChainOK' q0 (steps.map (·.1)) →
      (∃ x, q0 = x ++ q) → (q = [] ∨ parseData q .none pm = .ok []) →
      parsedOn pm pid q (steps.flatMap (·.1.packets)) = steps.flatMap (·.2.1) ∧
      ∀ g ∈ groupsFromP pm pid q (steps.flatMap (·.1.packets)), ∃ ds, parseData g .none pm = .ok ds := by
  intro steps
  induction steps with
  | nil =>
    intro q0 q _ _ _ hq
    simp only [List.flatMap_nil]
    refine ⟨parsedOn_nil' pm pid q hq, ?_⟩
    intro g hg
    rw [groupsFromP_nil] at hg
    rcases hq with rfl | hq
    · simp at hg
    · split at hg
      · cases hg
      · simp only [List.mem_cons, List.not_mem_nil, or_false] at hg
        subst hg; exact ⟨_, hq⟩
  | cons t r ih =>
    intro q0 q hst hc hsuf hq
    obtain ⟨hu, hlead, hrest⟩ := hc
    obtain ⟨x, hx⟩ := hsuf
    have hlead' : QueueLeadsTo q t.1.first.header.continuityCounter :=
      queueLeadsTo_suffix x q _ (hx ▸ hlead)
    have hT := hst t (by simp)
    obtain ⟨a, pk, hsplit, hparse, hrun⟩ := hT.split
    have hrun' := hrun q hlead'
    simp only [List.flatMap_cons]
    obtain ⟨i1, i2⟩ := ih t.1.packets t.2.2 (fun t' ht' => hst t' (by simp [ht'])) hrest
      ⟨a ++ [pk], by rw [hsplit]⟩ hT.tail
    have hfl : (accRun pm pid q t.1.packets).1.filter (fun g => !g.isEmpty) =
        (if a = [] ∨ q = [] then [] else [q]) ++ [a ++ [pk]] := by
      rw [hrun']; exact nonempty_filter_step q a pk _
    have h2 : (accRun pm pid q t.1.packets).2 = t.2.2 := by rw [hrun']
    constructor
    · rw [parsedOn_append, hfl, h2, i1]
      congr 1
      by_cases hc' : a = [] ∨ q = []
      · simp [hc', okAll, hparse]
      · rcases hq with hq | hq
        · exact absurd (Or.inr hq) hc'
        · simp [hc', okAll, hparse, hq]
    · intro g hg
      rw [groupsFromP_append, hfl, h2] at hg
      rcases List.mem_append.mp hg with hg | hg
      · rcases List.mem_append.mp hg with hg | hg
        · split at hg
          · cases hg
          · simp only [List.mem_cons, List.not_mem_nil, or_false] at hg
            subst hg
            rcases hq with hq | hq
            · rename_i hn; exact absurd (Or.inr hq) hn
            · exact ⟨_, hq⟩
        · simp only [List.mem_cons, List.not_mem_nil, or_false] at hg
          subst hg; exact ⟨_, hparse⟩
      · exact i2 g hg

end Astits.RefMux
