/-
C02, whole-stream form — units whose START packet may announce a discontinuity.

`Proofs/Units.lean`, `Proofs/PSIComplete.lean` and `Proofs/PSICompleteNext.lean` are about units all of whose packets
are `PlainPayload` (no discontinuity indicator).  Since fix F14 of `packetAccumulator.add`, a discontinuity announced by
the first packet of a unit does not concern what was accumulated before; here the same statements are proved for
`UnitOK'` units: the start packet is any accepted payload packet with the unit-start flag (discontinuity indicator set
or not), the continuation packets are plain.
-/
import Astits.Proofs.PSICompleteNext
import Astits.Proofs.PerPidData
namespace Astits.RefMux
open Astits Astits.MuxDemux Astits.PerPid Astits.PSIComplete

/-- a payload packet the pool accepts (it may announce a discontinuity) -/
def StartPayload (p : Packet) : Prop :=
  p.header.hasPayload = true ∧ p.header.transportErrorIndicator = false ∧ p.header.continuityCounter < 16

theorem StartPayload.of_plain {p : Packet} (h : PlainPayload p) : StartPayload p := ⟨h.1, h.2.1, h.2.2.2⟩

/-- a unit: start packet with the unit-start flag (any discontinuity indicator), plain continuation packets, counters
running on -/
def UnitOK' (u : UnitPk) : Prop :=
  StartPayload u.first ∧ u.first.header.payloadUnitStartIndicator = true ∧ Continues u.first.header.continuityCounter u.rest

theorem UnitOK'.of_ok {u : UnitPk} (h : UnitOK u) : UnitOK' u := ⟨StartPayload.of_plain h.1, h.2.1, h.2.2⟩

def ChainOK' : List Packet → List UnitPk → Prop
  | _, [] => True
  | q, u :: r => UnitOK' u ∧ QueueLeadsTo q u.first.header.continuityCounter ∧ ChainOK' u.packets r

theorem unitOK'_start (u : UnitPk) (h : UnitOK' u) : ∀ x ∈ u.packets, StartPayload x := by
  obtain ⟨h1, _, h3⟩ := h
  intro p hp
  rcases List.mem_cons.mp hp with rfl | hp'
  · exact h1
  · exact StartPayload.of_plain (PSIComplete.continues_plain _ _ h3 p hp')

/-! ## the unit start -/

/-- **a unit start whose counter continues the queue (or an empty queue), discontinuity indicator set or not**: the
queue is flushed and the packet starts the new one — on a table PID, unless the packet alone already looks complete:
then it is flushed itself and the queue is dropped -/
theorem accAdd_start (pm : ProgramMap) (pid : Nat) (q : List Packet) (p : Packet) (hp : StartPayload p)
    (hpusi : p.header.payloadUnitStartIndicator = true) (hq : QueueLeadsTo q p.header.continuityCounter) :
    accAdd pm pid q p = if (pid == 0 || pm.has pid) && isPSIComplete [p] then ([p], []) else (q, [p]) := by
  obtain ⟨hpay, _, _⟩ := hp
  rcases hq with rfl | ⟨q', last, rfl, hl, hcc⟩
  · unfold accAdd
    cases hdi : pktDI p <;> cases hc : ((pid == 0 || pm.has pid) && isPSIComplete [p]) <;>
      simp_all [isSameAsPrevious, hasDiscontinuity, lastCC]
  · have hlast : lastCC (q' ++ [last]) = some last.header.continuityCounter := lastCC_append q' last
    have hsame : isSameAsPrevious (q' ++ [last]) p = false := by
      simp only [isSameAsPrevious, hlast, hpay, Bool.true_and, beq_eq_false_iff_ne, ne_eq]
      rw [hcc]; exact succ_mod_ne _ hl
    have hcont : (p.header.hasPayload && p.header.continuityCounter != (last.header.continuityCounter + 1) % 16
        || !p.header.hasPayload && p.header.continuityCounter != last.header.continuityCounter) = false := by
      simp [hpay, hcc]
    unfold accAdd
    cases hdi : pktDI p <;> cases hc : ((pid == 0 || pm.has pid) && isPSIComplete [p]) <;>
      simp_all [hasDiscontinuity]

theorem accAdd_start_plain (pm : ProgramMap) (pid : Nat) (q : List Packet) (p : Packet)
    (hnp : (pid == 0 || pm.has pid) = false) (hp : StartPayload p) (hpusi : p.header.payloadUnitStartIndicator = true)
    (hq : QueueLeadsTo q p.header.continuityCounter) : accAdd pm pid q p = (q, [p]) := by
  rw [accAdd_start pm pid q p hp hpusi hq, hnp]
  simp

theorem accAdd_start_table (pm : ProgramMap) (pid : Nat) (q : List Packet) (p : Packet)
    (htab : (pid == 0 || pm.has pid) = true) (hp : StartPayload p) (hpusi : p.header.payloadUnitStartIndicator = true)
    (hq : QueueLeadsTo q p.header.continuityCounter) :
    accAdd pm pid q p = if isPSIComplete [p] then ([p], []) else (q, [p]) := by
  rw [accAdd_start pm pid q p hp hpusi hq, htab]
  simp

/-! ## PIDs without early flush -/

theorem accRun_unit' (pm : ProgramMap) (pid : Nat) (q : List Packet) (u : UnitPk)
    (hnp : (pid == 0 || pm.has pid) = false) (hu : UnitOK' u) (hq : QueueLeadsTo q u.first.header.continuityCounter) :
    accRun pm pid q u.packets = (q :: List.replicate u.rest.length [], u.packets) := by
  obtain ⟨hp, hpusi, hc⟩ := hu
  have h1 := accAdd_start_plain pm pid q u.first hnp hp hpusi hq
  have h2 := accRun_continues pm pid [] u.first u.rest hnp hp.2.2 hc
  simp only [UnitPk.packets, accRun, h1]
  simp only [List.nil_append] at h2
  simp [h2]

theorem accRun_units' (pm : ProgramMap) (pid : Nat) (q : List Packet) (us : List UnitPk)
    (hnp : (pid == 0 || pm.has pid) = false) (h : ChainOK' q us) :
    accRun pm pid q (us.flatMap UnitPk.packets) = (expectedFlushes q us, finalQueue q us) := by
  induction us generalizing q with
  | nil => simp [accRun, expectedFlushes, finalQueue]
  | cons u r ih =>
    obtain ⟨hu, hq, hr⟩ := h
    simp only [List.flatMap_cons, accRun_append, accRun_unit' pm pid q u hnp hu hq, ih u.packets hr,
      expectedFlushes, finalQueue]

/-! ## table PIDs -/

theorem table_unit_run_head' (pm : ProgramMap) (pid : Nat) (htab : (pid == 0 || pm.has pid) = true) (q : List Packet)
    (u : UnitPk) (hu : UnitOK' u) (hq : QueueLeadsTo q u.first.header.continuityCounter)
    (a : List Packet) (pk : Packet) (b : List Packet) (hsplit : u.packets = a ++ [pk] ++ b)
    (ptr : Nat) (filler : Bytes) (secs : List Bytes) (stuffing : Bytes)
    (L : UnitLayout (concatPayload u.packets) ptr filler secs stuffing)
    (hbefore : (concatPayload a).length < 1 + ptr + secs.flatten.length)
    (hat : 1 + ptr + secs.flatten.length ≤ (concatPayload (a ++ [pk])).length)
    (hcut : ConformantCut a ptr secs) :
    accRun pm pid q (a ++ [pk]) =
      ((if a = [] then [] else q :: List.replicate (a.length - 1) []) ++ [a ++ [pk]], []) := by
  have hinc : ∀ i, 0 < i → i ≤ a.length → isPSIComplete (a.take i) = false := by
    intro i hi hia
    have hU : concatPayload u.packets = concatPayload (a.take i ++ (a.drop i ++ [pk] ++ b)) := by
      rw [hsplit]; congr 1
      conv => lhs; rw [← List.take_append_drop i a]
      simp only [List.append_assoc]
    have hlen : (concatPayload (a.take i)).length ≤ (concatPayload a).length := by
      conv => rhs; rw [← List.take_append_drop i a, concatPayload_append]
      simp
    cases hc : isPSIComplete (a.take i) with
    | false => rfl
    | true =>
      rcases (complete_group L _ _ hU).mp hc with h | ⟨k, hk, hkl, h⟩
      · omega
      · exact absurd h (hcut i hi hia k hk hkl)
  have hcomp : isPSIComplete (a ++ [pk]) = true := by
    have hU : concatPayload u.packets = concatPayload ((a ++ [pk]) ++ b) := by rw [hsplit]
    exact (complete_group L _ _ hU).mpr (Or.inl hat)
  obtain ⟨hp, hpusi, hc⟩ := hu
  cases a with
  | nil =>
    have e : u.first = pk ∧ u.rest = b := by
      simp only [UnitPk.packets, List.nil_append, List.singleton_append, List.cons.injEq] at hsplit
      exact hsplit
    obtain ⟨e1, e2⟩ := e
    have h1 := accAdd_start_table pm pid q u.first htab hp hpusi hq
    rw [e1] at h1
    have hc1 : isPSIComplete [pk] = true := by simpa using hcomp
    rw [hc1] at h1
    simp only [if_true] at h1
    simp [accRun, h1]
  | cons p a' =>
    have e : u.first = p ∧ u.rest = a' ++ [pk] ++ b := by
      simp only [UnitPk.packets, List.cons_append, List.cons.injEq] at hsplit
      simpa using hsplit
    obtain ⟨e1, e2⟩ := e
    have h1 := accAdd_start_table pm pid q u.first htab hp hpusi hq
    rw [e1] at h1
    have hc1 : isPSIComplete [p] = false := by simpa using hinc 1 (by omega) (by simp)
    rw [hc1] at h1
    simp only [Bool.false_eq_true, if_false] at h1
    rw [e1, e2] at hc
    have h2 := accRun_table_complete pm pid [] p a' pk htab (e1 ▸ hp.2.2) hc.left (by
      intro i hi
      have := hinc (i + 2) (by omega) (by simp; omega)
      simpa using this) (by simpa using hcomp)
    simp only [List.nil_append] at h2
    simp only [List.cons_append, accRun, h1, h2]
    simp

theorem table_unit_run_tail' (pm : ProgramMap) (pid : Nat) (htab : (pid == 0 || pm.has pid) = true)
    (u : UnitPk) (hu : UnitOK' u)
    (a : List Packet) (pk : Packet) (b : List Packet) (hsplit : u.packets = a ++ [pk] ++ b)
    (ptr : Nat) (filler : Bytes) (secs : List Bytes) (stuffing : Bytes)
    (L : UnitLayout (concatPayload u.packets) ptr filler secs stuffing)
    (hat : 1 + ptr + secs.flatten.length ≤ (concatPayload (a ++ [pk])).length) :
    (∀ x ∈ concatPayload b, x = 0xff) ∧
    ((concatPayload b).length ≤ 256 → accRun pm pid [] b = (List.replicate b.length [], b)) := by
  have hb : concatPayload b = stuffing.drop ((concatPayload (a ++ [pk])).length - ([ptr] ++ filler ++ secs.flatten).length) := by
    apply suffix_eq_drop (concatPayload (a ++ [pk])) _ ([ptr] ++ filler ++ secs.flatten)
    · rw [← concatPayload_append, ← hsplit, L.eq]
    · have := L.fill; simp at hat ⊢; omega
  have hbff : ∀ x ∈ concatPayload b, x = 0xff := by
    intro x hx; rw [hb] at hx; exact L.stuff x (List.mem_of_mem_drop hx)
  refine ⟨hbff, fun htail => ?_⟩
  have htl : ∀ i, i < b.length → isPSIComplete (b.take (i + 1)) = false := by
    intro i _
    have hsplitb : concatPayload b = concatPayload (b.take (i + 1)) ++ concatPayload (b.drop (i + 1)) := by
      rw [← concatPayload_append, List.take_append_drop]
    have hff : ∀ x ∈ concatPayload (b.take (i + 1)), x = 0xff := by
      intro x hx; apply hbff; rw [hsplitb]; exact List.mem_append_left _ hx
    have hle : (concatPayload (b.take (i + 1))).length ≤ 256 := by
      have : (concatPayload b).length = (concatPayload (b.take (i + 1))).length + (concatPayload (b.drop (i + 1))).length := by
        rw [hsplitb, List.length_append]
      omega
    unfold isPSIComplete
    rw [complete_all_ff _ hff]
    simp; omega
  have hc : ∃ prev, Continues prev b := by
    obtain ⟨_, _, hc⟩ := hu
    cases a with
    | nil =>
      simp only [UnitPk.packets, List.nil_append, List.singleton_append, List.cons.injEq] at hsplit
      exact ⟨_, hsplit.2 ▸ hc⟩
    | cons p a' =>
      have e : u.rest = (a' ++ [pk]) ++ b := by
        simp only [UnitPk.packets, List.cons_append, List.cons.injEq] at hsplit
        simpa using hsplit.2
      rw [e] at hc
      exact hc.right
  exact accRun_table_headless pm pid b htab hc htl

theorem table_unit_run' (pm : ProgramMap) (pid : Nat) (htab : (pid == 0 || pm.has pid) = true) (q : List Packet)
    (u : UnitPk) (hu : UnitOK' u) (hq : QueueLeadsTo q u.first.header.continuityCounter)
    (a : List Packet) (pk : Packet) (b : List Packet) (hsplit : u.packets = a ++ [pk] ++ b)
    (ptr : Nat) (filler : Bytes) (secs : List Bytes) (stuffing : Bytes)
    (L : UnitLayout (concatPayload u.packets) ptr filler secs stuffing)
    (hbefore : (concatPayload a).length < 1 + ptr + secs.flatten.length)
    (hat : 1 + ptr + secs.flatten.length ≤ (concatPayload (a ++ [pk])).length)
    (hcut : ConformantCut a ptr secs) (htail : (concatPayload b).length ≤ 256) :
    accRun pm pid q u.packets =
      ((if a = [] then [] else q :: List.replicate (a.length - 1) []) ++ [a ++ [pk]] ++ List.replicate b.length [], b) := by
  have h1 := table_unit_run_head' pm pid htab q u hu hq a pk b hsplit ptr filler secs stuffing L hbefore hat hcut
  have h2 := (table_unit_run_tail' pm pid htab u hu a pk b hsplit ptr filler secs stuffing L hat).2 htail
  rw [hsplit, accRun_append, h1]
  simp only [h2]

/-- what the group flushed at the last section byte parses to -/
theorem written_unit_parse' (pm : ProgramMap) (pid : Nat) (htab : (pid == 0 || pm.has pid) = true) (hcat : pid ≠ 1)
    (u : UnitPk) (hon : u.first.header.pid = pid)
    (a : List Packet) (pk : Packet) (b : List Packet) (hsplit : u.packets = a ++ [pk] ++ b)
    (pf : Nat) (ss ss' : List PSISection) (stuffing : Bytes)
    (W : WrittenUnit (concatPayload u.packets) pf ss ss' stuffing)
    (hat : 1 + pf + ((ss.map secBytes).flatten).length ≤ (concatPayload (a ++ [pk])).length) :
    parseData (a ++ [pk]) .none pm =
      .ok (psiToData { pointerField := (pf : Int), sections := ss' } (firstOf u.packets) pid) := by
  have hhead : (a ++ [pk]).headD default = u.packets.headD default := by
    rw [hsplit, headD_append_left (a ++ [pk]) b _ (by simp)]
  have hfirst : firstOf (a ++ [pk]) = firstOf u.packets := by unfold firstOf; rw [hhead]
  rw [← hfirst]
  have hU := W.bytes
  rw [hsplit, concatPayload_append] at hU
  have hpay : concatPayload (a ++ [pk]) = [pf] ++ List.replicate pf 0 ++ (ss.map secBytes).flatten
      ++ stuffing.take ((concatPayload (a ++ [pk])).length - ([pf] ++ List.replicate pf 0 ++ (ss.map secBytes).flatten).length) := by
    have h1 := prefix_eq_take _ _ _ hU.symm
    rw [List.take_append] at h1
    have hle : ([pf] ++ List.replicate pf 0 ++ (ss.map secBytes).flatten).length ≤ (concatPayload (a ++ [pk])).length := by
      simp at hat ⊢; omega
    rw [List.take_of_length_le hle] at h1
    exact h1
  refine parseData_written pm pid htab hcat (a ++ [pk]) ?_ pf ss ss' W.rt _ ?_ hpay
  · rw [hhead]; exact hon
  · intro x hx; exact W.stuff x (List.mem_of_mem_take hx)

/-! ## the first call: a group flushed at its last packet is returned by the call that reads that packet -/

theorem dataLoop_silent' (pm : ProgramMap) (pid : Nat) :
    ∀ (l : List Packet) (cs : List Bytes) (rest : List Bytes) (d : Demux) (fuel : Nat),
      Rep d (cs ++ rest) → ParsesTo cs l → d.programMap = pm →
      (∀ p ∈ l, p.header.pid = pid ∧ StartPayload p) →
      (accRun pm pid (d.pool.get pid) l).1 = List.replicate l.length [] →
      ∃ d1, d.dataLoop (fuel + l.length) = d1.dataLoop fuel ∧ Rep d1 rest ∧
        d1.pool.get pid = (accRun pm pid (d.pool.get pid) l).2 ∧ d1.programMap = pm ∧
        d1.dataBuffer = d.dataBuffer ∧ d1.r.data = d.r.data ∧ d1.r.pos = d.r.pos + 188 * l.length := by
  intro l
  induction l with
  | nil =>
    intro cs rest d fuel hrep hpt hpm _ _
    cases cs with
    | nil => exact ⟨d, rfl, hrep, rfl, hpm, rfl, rfl, rfl⟩
    | cons c cs => exact hpt.elim
  | cons p l ih =>
    intro cs rest d fuel hrep hpt hpm hon hrun
    cases cs with
    | nil => exact hpt.elim
    | cons c cs =>
      obtain ⟨hpc, hpt'⟩ := hpt
      obtain ⟨d', hnp, hrep', ⟨hpool, hpm', hbuf⟩, hdata, hpos⟩ := nextPacket_cons_pos d c (cs ++ rest) p hrep hpc
      obtain ⟨hpid, hplain⟩ := hon p (by simp)
      have hadd := poolAdd_on_pid pm d.pool p pid hpid hplain.1 hplain.2.1
      simp only [accRun, List.length_cons, List.replicate_succ, List.cons.injEq] at hrun
      obtain ⟨hfl, hrun'⟩ := hrun
      have e : fuel + (p :: l).length = (fuel + l.length) + 1 := by simp; omega
      rw [e, MuxDemux.dataLoop_succ d _ (by rw [hnp]; exact hrep'.parser), hnp]
      simp only [hpm', hpm, hpool, hadd, hfl, List.isEmpty_nil, if_true]
      have hrep1 : Rep (withPool d' (d.pool.put pid (accAdd pm pid (d.pool.get pid) p).2)) (cs ++ rest) :=
        hrep'.transfer ⟨rfl, rfl, rfl, rfl, rfl⟩
      obtain ⟨d1, h1, h2, h3, h4, h5, h6, h7⟩ := ih cs rest _ fuel hrep1 hpt' (by show d'.programMap = pm; rw [hpm', hpm])
        (fun x hx => hon x (by simp [hx])) (by
          show (accRun pm pid ((d.pool.put pid (accAdd pm pid (d.pool.get pid) p).2).get pid) l).1 = _
          rw [Pool.get_put_same]; exact hrun')
      refine ⟨d1, h1, h2, ?_, h4, ?_, ?_, ?_⟩
      · rw [h3]
        show (accRun pm pid ((d.pool.put pid (accAdd pm pid (d.pool.get pid) p).2).get pid) l).2 = _
        rw [Pool.get_put_same]
        simp [accRun]
      · rw [h5]; exact hbuf
      · rw [h6]; exact hdata
      · rw [h7]
        show d'.r.pos + 188 * l.length = _
        rw [hpos]; simp; omega

theorem dataLoop_flush' (pm : ProgramMap) (pid : Nat) (p : Packet) (c : Bytes) (rest : List Bytes) (d : Demux) (fuel : Nat)
    (hrep : Rep d (c :: rest)) (hpc : (parsePacket none).val c = .ok p) (hpm : d.programMap = pm)
    (hpid : p.header.pid = pid) (hplain : StartPayload p) (hbuf : d.dataBuffer = [])
    (g : List Packet) (hg : (accAdd pm pid (d.pool.get pid) p).1 = g) (hne : g ≠ [])
    (x : DemuxerData) (xs : List DemuxerData) (hparse : parseData g .none pm = .ok (x :: xs)) :
    ∃ d', d.dataLoop (fuel + 1) = (.ok x, d') ∧ Rep d' rest ∧ d'.dataBuffer = xs ∧
      d'.pool.get pid = (accAdd pm pid (d.pool.get pid) p).2 ∧ d'.r.data = d.r.data ∧ d'.r.pos = d.r.pos + 188 := by
  obtain ⟨d1, hnp, hrep', ⟨hpool, hpm', hbuf'⟩, hdata, hpos⟩ := nextPacket_cons_pos d c rest p hrep hpc
  have hadd := poolAdd_on_pid pm d.pool p pid hpid hplain.1 hplain.2.1
  rw [MuxDemux.dataLoop_succ d _ (by rw [hnp]; exact hrep'.parser), hnp]
  have hge : g.isEmpty = false := by cases g with
    | nil => exact absurd rfl hne
    | cons _ _ => rfl
  simp only [hpm', hpm, hpool, hadd, hg, hge, Bool.false_eq_true, if_false, hparse]
  obtain ⟨u1, u2, u3, u4⟩ := updateData_cons (withPool d1 (d.pool.put pid (accAdd pm pid (d.pool.get pid) p).2)) x xs
  refine ⟨_, rfl, ?_, ?_, ?_, ?_, ?_⟩
  · exact (hrep'.transfer (d' := withPool d1 _) ⟨rfl, rfl, rfl, rfl, rfl⟩).transfer u2
  · rw [u4]
    show d1.dataBuffer ++ xs = xs
    rw [hbuf', hbuf]; rfl
  · rw [u3]
    show (d.pool.put pid _).get pid = _
    rw [Pool.get_put_same]
  · rw [u2.1]; exact hdata
  · rw [u2.1]; exact hpos

theorem nextData_group' (pm : ProgramMap) (pid : Nat) (a : List Packet) (pk : Packet) (csA : List Bytes) (cK : Bytes)
    (rest : List Bytes) (d : Demux) (hrep : Rep d (csA ++ cK :: rest)) (hpa : ParsesTo csA a)
    (hpk : (parsePacket none).val cK = .ok pk) (hpm : d.programMap = pm) (hbuf : d.dataBuffer = [])
    (hon : ∀ p ∈ a ++ [pk], p.header.pid = pid ∧ StartPayload p)
    (g q' : List Packet) (hne : g ≠ [])
    (hrun : accRun pm pid (d.pool.get pid) (a ++ [pk]) = (List.replicate a.length [] ++ [g], q'))
    (x : DemuxerData) (xs : List DemuxerData) (hparse : parseData g .none pm = .ok (x :: xs)) :
    ∃ d', d.nextData = (.ok x, d') ∧ Rep d' rest ∧ d'.dataBuffer = xs ∧ d'.pool.get pid = q' ∧
      d'.r.data = d.r.data ∧ d'.r.pos = d.r.pos + 188 * (a.length + 1) := by
  rw [accRun_append] at hrun
  simp only [Prod.mk.injEq] at hrun
  obtain ⟨hr1, hr2⟩ := hrun
  have hr1a : (accRun pm pid (d.pool.get pid) a).1 = List.replicate a.length [] := by
    have := congrArg (List.take a.length) hr1
    have hl : (accRun pm pid (d.pool.get pid) a).1.length = a.length := by
      clear hr1 hr2 this hrep hpa hon
      generalize d.pool.get pid = q
      induction a generalizing q with
      | nil => rfl
      | cons p r ih => simp [accRun, ih]
    rw [List.take_left' hl, List.take_left' (by simp)] at this
    exact this
  have hr1b : (accAdd pm pid (accRun pm pid (d.pool.get pid) a).2 pk).1 = g := by
    rw [hr1a] at hr1
    have := List.append_cancel_left hr1
    simpa [accRun] using this
  have hr2' : (accAdd pm pid (accRun pm pid (d.pool.get pid) a).2 pk).2 = q' := by simpa [accRun] using hr2
  have hfuel : ∃ f, d.r.data.length + 2 = f + 1 + a.length := by
    have h1 := length_le_flatten188 _ hrep.len
    have h2 : (csA ++ cK :: rest).flatten.length ≤ d.r.data.length := by
      rw [← hrep.data, List.length_drop]; omega
    have h3 : csA.length = a.length := by
      clear hrep h1 h2 hr1 hr2 hr1a hr1b hr2' hon
      induction csA generalizing a with
      | nil => cases a with
        | nil => rfl
        | cons _ _ => exact hpa.elim
      | cons c cs ih => cases a with
        | nil => exact hpa.elim
        | cons p r => simp [ih r hpa.2]
    simp only [List.length_append, List.length_cons] at h1
    exact ⟨d.r.data.length + 2 - 1 - a.length, by omega⟩
  obtain ⟨f, hf⟩ := hfuel
  unfold Demux.nextData
  simp only [hbuf, hf]
  have hrep0 : Rep d (csA ++ (cK :: rest)) := hrep
  obtain ⟨d1, h1, h2, h3, h4, h5, h6, h7⟩ := dataLoop_silent' pm pid a csA (cK :: rest) d (f + 1) hrep0 hpa hpm
    (fun p hp => hon p (by simp [hp])) hr1a
  rw [h1]
  obtain ⟨hpidk, hplaink⟩ := hon pk (by simp)
  obtain ⟨d', e1, e2, e3, e4, e5, e6⟩ := dataLoop_flush' pm pid pk cK rest d1 f h2 hpk h4 hpidk hplaink (by rw [h5, hbuf])
    g (by rw [h3]; exact hr1b) hne x xs hparse
  refine ⟨d', e1, e2, e3, ?_, ?_, ?_⟩
  · rw [e4, h3]; exact hr2'
  · rw [e5, h6]
  · rw [e6, h7]; omega

end Astits.RefMux
