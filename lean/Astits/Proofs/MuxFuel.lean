/-
The fuel of the muxer's packetisation loop.

`writeDataLoop` is fuel-recursive; its `0` branch returns `.err .other`, an outcome the Go `for` loop does not
have.  `Mux.writeData` starts it with fuel `data.length + 2`.  This file proves

* (F1) fuel monotonicity: a run that does not reach the `0` branch returns the same result with any larger fuel;
* (F2) from the start state of `WriteData` (payloadStart = true) fuel `data.length + 3` ALWAYS suffices, and fuel
  `data.length + 2` suffices EXCEPT in exactly one corner: 1 payload byte, a PES header written on exactly 184
  bytes, and an adaptation field that is sent alone first (then 4 iterations are needed, the fuel is 3);
  a PES header with `6 + calcPESOptionalHeaderLength … ≤ 183` is never in that corner;
* (F3) the corollaries for `Mux.writeData`, and the provenance of every error it returns.
-/
import Astits.Proofs.MuxCounters
namespace Astits.MuxFuel
open Astits.MuxCounters

abbrev LoopOut := Res (List Bytes) × WrappingCounter × Option PacketAdaptationField × List Bytes

/-! ### the instrumented loop -/

/-- `writeDataLoop` (in the named-pieces form of `MuxCounters.loop_succ`), additionally reporting whether the run
ended in the fuel-exhausted `0` branch -/
def loopT (pid : Nat) (hdr : PESHeader) : Nat → (data : Bytes) → (ps waf : Bool)
    → (af : Option PacketAdaptationField) → (cc : WrappingCounter) → (acc : List Bytes) → LoopOut × Bool
  | 0, _, _, _, af, cc, acc => ((.err .other, cc, af, acc), true)
  | fuel + 1, data, ps, waf, af, cc, acc =>
    if data.isEmpty then ((.ok acc, cc, af, acc), false)
    else if ps ∧ bytesAvail waf af < 6 + (calcPESOptionalHeaderLength hdr.optionalHeader : Int) then
      match (if waf then af else none) with
      | none => ((.err .other, cc, af, acc), false)
      | some a =>
        (match writePacket (afOnlyPkt pid (cc.get % 16) { a with stuffingLength := bytesAvail waf af }) 188 with
         | .ok bs => loopT pid hdr fuel data ps false (some { a with stuffingLength := 0 }) cc (acc ++ [bs])
         | .err e => ((.err e, cc, some { a with stuffingLength := bytesAvail waf af }, acc), false)
         | .panic => ((.panic, cc, some { a with stuffingLength := bytesAvail waf af }, acc), false))
    else
      match writePESData hdr data ps (bytesAvail waf af) with
      | .ok (payload, ntot, npayload) =>
        (match writePacket (payloadPkt pid ps cc.inc.get payload
            (stuffPair (bytesAvail waf af - ntot) (if waf then af else none) af).1) 188 with
         | .ok bs => loopT pid hdr fuel (data.drop npayload) false false
             (stuffPair (bytesAvail waf af - ntot) (if waf then af else none) af).2 cc.inc (acc ++ [bs])
         | .err e => ((.err e, cc.inc, (stuffPair (bytesAvail waf af - ntot) (if waf then af else none) af).2, acc), false)
         | .panic => ((.panic, cc.inc, (stuffPair (bytesAvail waf af - ntot) (if waf then af else none) af).2, acc), false))
      | .err e => ((.err e, cc.inc, af, acc), false)
      | .panic => ((.panic, cc.inc, af, acc), false)

/-- the run reaches the `0` branch of `writeDataLoop` -/
def Exhausted (pid : Nat) (hdr : PESHeader) (fuel : Nat) (data : Bytes) (ps waf : Bool)
    (af : Option PacketAdaptationField) (cc : WrappingCounter) (acc : List Bytes) : Prop :=
  (loopT pid hdr fuel data ps waf af cc acc).2 = true

instance (pid hdr fuel data ps waf af cc acc) : Decidable (Exhausted pid hdr fuel data ps waf af cc acc) := by
  unfold Exhausted; infer_instance

/-- the instrumented loop projects onto the model's loop -/
theorem loopT_fst (pid : Nat) (hdr : PESHeader) (fuel : Nat) : ∀ (data : Bytes) (ps waf : Bool)
    (af : Option PacketAdaptationField) (cc : WrappingCounter) (acc : List Bytes),
    (loopT pid hdr fuel data ps waf af cc acc).1 = writeDataLoop pid hdr fuel data ps waf af cc acc := by
  induction fuel with
  | zero => intros; rfl
  | succ fuel ih =>
    intro data ps waf af cc acc
    rw [loop_succ]
    unfold loopT
    split
    · rfl
    · split
      · split
        · rename_i h; rw [h]
        · rename_i a h
          rw [h]
          simp only
          split
          · rename_i bs hw; rw [hw]; exact ih _ _ _ _ _ _
          · rename_i e hw; rw [hw]
          · rename_i hw; rw [hw]
      · split
        · rename_i payload ntot np hp
          rw [hp]
          simp only
          split
          · rename_i bs hw; rw [hw]; exact ih _ _ _ _ _ _
          · rename_i e hw; rw [hw]
          · rename_i hw; rw [hw]
        · rename_i e hp; rw [hp]
        · rename_i hp; rw [hp]

/-- a run that ends in the `0` branch returns `.err .other` (what the model reports there) -/
theorem loopT_exhausted_result (pid : Nat) (hdr : PESHeader) (fuel : Nat) : ∀ (data : Bytes) (ps waf : Bool)
    (af : Option PacketAdaptationField) (cc : WrappingCounter) (acc : List Bytes),
    (loopT pid hdr fuel data ps waf af cc acc).2 = true →
    (loopT pid hdr fuel data ps waf af cc acc).1.1 = .err .other := by
  induction fuel with
  | zero => intros; rfl
  | succ fuel ih =>
    intro data ps waf af cc acc
    unfold loopT
    split
    · intro h; cases h
    · split
      · split
        · intro h; cases h
        · split
          · exact ih _ _ _ _ _ _
          · intro h; cases h
          · intro h; cases h
      · split
        · split
          · exact ih _ _ _ _ _ _
          · intro h; cases h
          · intro h; cases h
        · intro h; cases h
        · intro h; cases h

theorem exhausted_result (pid : Nat) (hdr : PESHeader) (fuel : Nat) (data : Bytes) (ps waf : Bool)
    (af : Option PacketAdaptationField) (cc : WrappingCounter) (acc : List Bytes)
    (h : Exhausted pid hdr fuel data ps waf af cc acc) :
    (writeDataLoop pid hdr fuel data ps waf af cc acc).1 = .err .other := by
  rw [← loopT_fst]; exact loopT_exhausted_result _ _ _ _ _ _ _ _ _ h

/-! ### (F1) fuel monotonicity -/

theorem loopT_succ_of_not_exhausted (pid : Nat) (hdr : PESHeader) (fuel : Nat) : ∀ (data : Bytes) (ps waf : Bool)
    (af : Option PacketAdaptationField) (cc : WrappingCounter) (acc : List Bytes),
    (loopT pid hdr fuel data ps waf af cc acc).2 = false →
    loopT pid hdr (fuel + 1) data ps waf af cc acc = loopT pid hdr fuel data ps waf af cc acc := by
  induction fuel with
  | zero => intro data ps waf af cc acc h; cases h
  | succ fuel ih =>
    intro data ps waf af cc acc
    rw [loopT.eq_def pid hdr (fuel + 1 + 1), loopT.eq_def pid hdr (fuel + 1)]
    simp only
    split
    · intro _; rfl
    · split
      · split
        · intro _; rfl
        · split
          · exact ih _ _ _ _ _ _
          · intro _; rfl
          · intro _; rfl
      · split
        · split
          · exact ih _ _ _ _ _ _
          · intro _; rfl
          · intro _; rfl
        · intro _; rfl
        · intro _; rfl

theorem loopT_add_of_not_exhausted (pid : Nat) (hdr : PESHeader) (fuel : Nat) (data : Bytes) (ps waf : Bool)
    (af : Option PacketAdaptationField) (cc : WrappingCounter) (acc : List Bytes)
    (h : (loopT pid hdr fuel data ps waf af cc acc).2 = false) (k : Nat) :
    loopT pid hdr (fuel + k) data ps waf af cc acc = loopT pid hdr fuel data ps waf af cc acc := by
  induction k with
  | zero => rfl
  | succ k ih =>
    rw [← Nat.add_assoc, loopT_succ_of_not_exhausted _ _ _ _ _ _ _ _ _ (by rw [ih]; exact h), ih]

/-- **(F1) fuel monotonicity.**  A run that does not end in the `0` branch returns the same result, and again
does not end in the `0` branch, with every larger fuel. -/
theorem fuel_mono (pid : Nat) (hdr : PESHeader) (fuel fuel' : Nat) (data : Bytes) (ps waf : Bool)
    (af : Option PacketAdaptationField) (cc : WrappingCounter) (acc : List Bytes)
    (h : ¬ Exhausted pid hdr fuel data ps waf af cc acc) (hle : fuel ≤ fuel') :
    writeDataLoop pid hdr fuel' data ps waf af cc acc = writeDataLoop pid hdr fuel data ps waf af cc acc ∧
    ¬ Exhausted pid hdr fuel' data ps waf af cc acc := by
  have h' : (loopT pid hdr fuel data ps waf af cc acc).2 = false := by
    unfold Exhausted at h; simpa using h
  obtain ⟨k, rfl⟩ := Nat.exists_eq_add_of_le hle
  have e := loopT_add_of_not_exhausted pid hdr fuel data ps waf af cc acc h' k
  constructor
  · rw [← loopT_fst, ← loopT_fst, e]
  · unfold Exhausted; rw [e, h']; simp

/-- contrapositive: exhaustion is downward closed in the fuel -/
theorem exhausted_of_le (pid : Nat) (hdr : PESHeader) (fuel fuel' : Nat) (data : Bytes) (ps waf : Bool)
    (af : Option PacketAdaptationField) (cc : WrappingCounter) (acc : List Bytes)
    (h : Exhausted pid hdr fuel' data ps waf af cc acc) (hle : fuel ≤ fuel') :
    Exhausted pid hdr fuel data ps waf af cc acc := by
  by_cases hx : Exhausted pid hdr fuel data ps waf af cc acc
  · exact hx
  · exact absurd h (fuel_mono pid hdr fuel fuel' data ps waf af cc acc hx hle).2

/-! ### `writePESData` inverted -/

/-- number of PES header bytes written in this packet (0 once the header is out) -/
def hlen (hdr : PESHeader) (data : Bytes) (ps : Bool) : Nat :=
  (if ps then pesHeaderBytes hdr data.length else []).length

/-- Go dereferences a nil pointer while writing the optional PES header -/
def PesNil (hdr : PESHeader) : Prop :=
  hasPESOptionalHeader hdr.streamID = true ∧ (hdr.optionalHeader.map pesOptNilDeref).getD false = true

theorem hlen_false (hdr : PESHeader) (data : Bytes) : hlen hdr data false = 0 := by simp [hlen]
theorem hlen_true (hdr : PESHeader) (data : Bytes) : hlen hdr data true = (pesHeaderBytes hdr data.length).length := by
  simp [hlen]

theorem bytesAvail_false (af : Option PacketAdaptationField) : bytesAvail false af = 184 := by simp [bytesAvail]

theorem wpd_ok_inv (h : PESHeader) (d : Bytes) (ps : Bool) (bA : Int) (payload : Bytes) (ntot np : Nat)
    (hw : writePESData h d ps bA = .ok (payload, ntot, np)) :
    ¬ (ps = true ∧ PesNil h) ∧ (hlen h d ps : Int) ≤ bA ∧ np = min (bA - hlen h d ps).toNat d.length ∧
      ntot = hlen h d ps + np := by
  unfold writePESData at hw
  unfold hlen PesNil
  split at hw
  · cases hw
  · rename_i hnil
    generalize (if ps = true then pesHeaderBytes h d.length else []) = hb at hw ⊢
    simp only at hw
    split at hw
    · cases hw
    · rename_i hn
      simp only [Res.ok.injEq, Prod.mk.injEq] at hw
      obtain ⟨rfl, rfl, rfl⟩ := hw
      exact ⟨hnil, by omega, rfl, rfl⟩

theorem wpd_ok_of (h : PESHeader) (d : Bytes) (ps : Bool) (bA : Int)
    (h1 : ¬ (ps = true ∧ PesNil h)) (h2 : (hlen h d ps : Int) ≤ bA) :
    ∃ payload, writePESData h d ps bA =
      .ok (payload, hlen h d ps + min (bA - hlen h d ps).toNat d.length, min (bA - hlen h d ps).toNat d.length) := by
  unfold writePESData
  unfold hlen PesNil at *
  rw [if_neg h1]
  generalize (if ps = true then pesHeaderBytes h d.length else []) = hb at h2 ⊢
  simp only
  rw [if_neg (by omega)]
  exact ⟨_, rfl⟩

theorem wpd_panic_inv (h : PESHeader) (d : Bytes) (ps : Bool) (bA : Int)
    (hw : writePESData h d ps bA = .panic) : (ps = true ∧ PesNil h) ∨ bA < (hlen h d ps : Int) := by
  by_cases h1 : ps = true ∧ PesNil h
  · exact Or.inl h1
  · by_cases h2 : (hlen h d ps : Int) ≤ bA
    · obtain ⟨p, e⟩ := wpd_ok_of h d ps bA h1 h2
      rw [e] at hw; cases hw
    · exact Or.inr (by omega)

/-! ### the payload packet of the loop is always written when no caller adaptation field is in it -/

theorem payload_write_ne_err (pid : Nat) (hdr : PESHeader) (data : Bytes) (ps waf : Bool)
    (af : Option PacketAdaptationField) (ccv : Nat) (payload : Bytes) (ntot np : Nat)
    (hp : writePESData hdr data ps (bytesAvail waf af) = .ok (payload, ntot, np)) (e : Err) :
    writePacket (payloadPkt pid ps ccv payload
      (stuffPair (bytesAvail waf af - ntot) (if waf then af else none) af).1) 188 ≠ .err e := by
  intro hw
  have hpo := writePESData_ok _ _ _ _ _ _ _ hp
  have he := writePacket_err _ _ _ hw
  have hf := payload_fits pid ps ccv payload (if waf then af else none) af (bytesAvail waf af) ntot
    (bytesAvail_none waf af) (bytesAvail_some waf af) hpo.2
  apply hf
  have hl : (payloadPkt pid ps ccv payload
      (stuffPair (bytesAvail waf af - ↑ntot) (if waf = true then af else none) af).fst).payload.length = ntot := hpo.1
  rw [hl] at he
  exact he

theorem payload_write_ne_panic (pid : Nat) (ps : Bool) (ccv : Nat) (payload : Bytes) (left : Int)
    (af : Option PacketAdaptationField) :
    writePacket (payloadPkt pid ps ccv payload (stuffPair left none af).1) 188 ≠ .panic := by
  intro hw
  have hn := stuffPair_noNil left none af (by intro a ha; cases ha)
  rcases writePacket_panic _ _ hw with ⟨h1, h2⟩ | ⟨_, h2⟩
  · simp only [payloadPkt, mkHdr] at h1 h2
    rw [Option.isNone_iff_eq_none] at h2
    rw [h2] at h1
    cases h1
  · simp only [payloadPkt] at h2
    rw [hn] at h2
    cases h2

theorem payload_write_ok (pid : Nat) (hdr : PESHeader) (data : Bytes) (ps : Bool)
    (af : Option PacketAdaptationField) (ccv : Nat) (payload : Bytes) (ntot np : Nat)
    (hp : writePESData hdr data ps (bytesAvail false af) = .ok (payload, ntot, np)) :
    ∃ bs, writePacket (payloadPkt pid ps ccv payload
      (stuffPair (bytesAvail false af - ntot) (if false then af else none) af).1) 188 = .ok bs := by
  cases hw : writePacket (payloadPkt pid ps ccv payload
      (stuffPair (bytesAvail false af - ntot) (if false then af else none) af).1) 188 with
  | ok bs => exact ⟨bs, rfl⟩
  | err e => exact absurd hw (payload_write_ne_err pid hdr data ps false af ccv payload ntot np hp e)
  | panic => exact absurd hw (payload_write_ne_panic pid ps ccv payload _ af)

/-! ### step equations of the instrumented loop -/

theorem loopT_afOnly_ok (pid : Nat) (hdr : PESHeader) (fuel : Nat) (data : Bytes) (ps waf : Bool)
    (af : Option PacketAdaptationField) (cc : WrappingCounter) (acc : List Bytes) (a : PacketAdaptationField) (bs : Bytes)
    (hne : data.isEmpty = false)
    (hc : ps = true ∧ bytesAvail waf af < 6 + (calcPESOptionalHeaderLength hdr.optionalHeader : Int))
    (ha : (if waf then af else none) = some a)
    (hw : writePacket (afOnlyPkt pid (cc.get % 16) { a with stuffingLength := bytesAvail waf af }) 188 = .ok bs) :
    loopT pid hdr (fuel + 1) data ps waf af cc acc =
      loopT pid hdr fuel data ps false (some { a with stuffingLength := 0 }) cc (acc ++ [bs]) := by
  rw [loopT.eq_def pid hdr (fuel + 1)]
  simp only
  rw [if_neg (by simp [hne]), if_pos hc]
  split
  · rename_i h; rw [ha] at h; cases h
  · rename_i a' h
    rw [ha] at h
    cases h
    rw [hw]

theorem loopT_payload_ok (pid : Nat) (hdr : PESHeader) (fuel : Nat) (data : Bytes) (ps waf : Bool)
    (af : Option PacketAdaptationField) (cc : WrappingCounter) (acc : List Bytes) (payload : Bytes) (ntot np : Nat)
    (bs : Bytes) (hne : data.isEmpty = false)
    (hc : ¬ (ps = true ∧ bytesAvail waf af < 6 + (calcPESOptionalHeaderLength hdr.optionalHeader : Int)))
    (hp : writePESData hdr data ps (bytesAvail waf af) = .ok (payload, ntot, np))
    (hw : writePacket (payloadPkt pid ps cc.inc.get payload
            (stuffPair (bytesAvail waf af - ntot) (if waf then af else none) af).1) 188 = .ok bs) :
    loopT pid hdr (fuel + 1) data ps waf af cc acc =
      loopT pid hdr fuel (data.drop np) false false
        (stuffPair (bytesAvail waf af - ntot) (if waf then af else none) af).2 cc.inc (acc ++ [bs]) := by
  rw [loopT.eq_def pid hdr (fuel + 1)]
  simp only
  rw [if_neg (by simp [hne]), if_neg hc, hp]
  simp only
  rw [hw]

theorem isEmpty_false_length {α : Type} (l : List α) (h : ¬ l.isEmpty = true) : 1 ≤ l.length := by
  cases l with
  | nil => simp at h
  | cons x xs => simp

/-! ### (F2) how much fuel is enough -/

/-- once the PES header is out (no adaptation field of the caller is pending) every iteration consumes
`min 184 (remaining)` bytes: fuel `⌈L/184⌉ + 1` suffices -/
theorem tail_not_exhausted (pid : Nat) (hdr : PESHeader) (fuel : Nat) : ∀ (data : Bytes)
    (af : Option PacketAdaptationField) (cc : WrappingCounter) (acc : List Bytes),
    data.length + 184 ≤ 184 * fuel → (loopT pid hdr fuel data false false af cc acc).2 = false := by
  induction fuel with
  | zero => intro data af cc acc h; omega
  | succ fuel ih =>
    intro data af cc acc h
    unfold loopT
    split
    · rfl
    · rename_i hne
      have hL := isEmpty_false_length data hne
      split
      · rename_i hc; exact absurd hc.1 (by decide)
      · split
        · rename_i payload ntot np hp
          split
          · apply ih
            obtain ⟨_, h2, h3, _⟩ := wpd_ok_inv _ _ _ _ _ _ _ hp
            rw [bytesAvail_false, hlen_false] at h3
            rw [List.length_drop]
            omega
          · rfl
          · rfl
        · rfl
        · rfl

/-- the packet that carries the PES header, no adaptation field of the caller pending: fuel `L + 1` suffices
unless the header fills the packet (184 bytes) and there is exactly 1 payload byte, where 3 are needed -/
theorem second_not_exhausted (pid : Nat) (hdr : PESHeader) (fuel : Nat) (data : Bytes)
    (af : Option PacketAdaptationField) (cc : WrappingCounter) (acc : List Bytes)
    (hf : data.length + 1 ≤ fuel) (hc : data.length = 1 → hlen hdr data true = 184 → 3 ≤ fuel) :
    (loopT pid hdr fuel data true false af cc acc).2 = false := by
  cases fuel with
  | zero => omega
  | succ fuel =>
    unfold loopT
    split
    · rfl
    · rename_i hne
      have hL := isEmpty_false_length data hne
      split
      · split
        · rfl
        · rename_i a h; simp at h
      · split
        · rename_i payload ntot np hp
          split
          · apply tail_not_exhausted
            obtain ⟨_, h2, h3, _⟩ := wpd_ok_inv _ _ _ _ _ _ _ hp
            rw [bytesAvail_false] at h2 h3
            rw [List.length_drop]
            omega
          · rfl
          · rfl
        · rfl
        · rfl

/-- **(F2), general form.**  From a state with the PES header still to be written (`payloadStart = true`, as
`WriteData` starts the loop), fuel `data.length + 2` suffices unless there is exactly 1 payload byte, the PES header
is written on exactly 184 bytes and an adaptation field is to be written (`writeAf` with a non-nil field) — where
fuel `data.length + 3` suffices.  (`fuel ≥ data.length + 3` therefore ALWAYS suffices.) -/
theorem start_not_exhausted (pid : Nat) (hdr : PESHeader) (fuel : Nat) (data : Bytes) (waf : Bool)
    (af : Option PacketAdaptationField) (cc : WrappingCounter) (acc : List Bytes)
    (hf : data.length + 2 ≤ fuel)
    (hc : data.length = 1 → hlen hdr data true = 184 → (if waf then af else none).isSome = true →
      data.length + 3 ≤ fuel) :
    (loopT pid hdr fuel data true waf af cc acc).2 = false := by
  cases fuel with
  | zero => omega
  | succ fuel =>
    unfold loopT
    split
    · rfl
    · rename_i hne
      have hL := isEmpty_false_length data hne
      split
      · split
        · rfl
        · rename_i a ha
          split
          · apply second_not_exhausted
            · omega
            · intro h1 h2
              have := hc h1 h2 (by rw [ha]; rfl)
              omega
          · rfl
          · rfl
      · split
        · rename_i payload ntot np hp
          split
          · apply tail_not_exhausted
            rw [List.length_drop]
            omega
          · rfl
          · rfl
        · rfl
        · rfl

/-! ### the corner: a PES header written on exactly 184 bytes -/

/-- a PES header that is written on exactly 184 bytes announces exactly 184 bytes (no uint8 wrap-around is
involved at that length); so `6 + calcPESOptionalHeaderLength … ≤ 183` excludes the corner -/
theorem hdr184 (h : PESHeader) (n : Nat) (hl : (pesHeaderBytes h n).length = 184) :
    6 + calcPESOptionalHeaderLength h.optionalHeader = 184 := by
  unfold pesHeaderBytes at hl
  simp only [List.length_append, length_ite, List.length_cons, List.length_nil, beBytes_length] at hl
  cases ho : h.optionalHeader with
  | none => rw [ho] at hl; simp only at hl; split at hl <;> simp at hl
  | some oh =>
    rw [ho] at hl
    simp only [pesOptionalHeaderBytes_length] at hl
    rw [calcPESOptionalHeaderLength_some oh (by split at hl <;> omega)]
    split at hl <;> omega

theorem tail_exhausted_one (pid : Nat) (hdr : PESHeader) (x : Nat) (af : Option PacketAdaptationField)
    (cc : WrappingCounter) (acc : List Bytes) : (loopT pid hdr 1 [x] false false af cc acc).2 = true := by
  obtain ⟨payload, hp⟩ := wpd_ok_of hdr [x] false (bytesAvail false af) (by simp)
    (by rw [hlen_false, bytesAvail_false]; decide)
  obtain ⟨bs, hw⟩ := payload_write_ok pid hdr [x] false af cc.inc.get payload _ _ hp
  rw [loopT_payload_ok pid hdr 0 [x] false false af cc acc payload _ _ bs rfl (by simp) hp hw]
  rfl

theorem second_exhausted (pid : Nat) (hdr : PESHeader) (x : Nat) (af : Option PacketAdaptationField)
    (cc : WrappingCounter) (acc : List Bytes) (hA : hlen hdr [x] true = 184) (hn : ¬ PesNil hdr) :
    (loopT pid hdr 2 [x] true false af cc acc).2 = true := by
  have hC := hdr184 hdr 1 (by rw [hlen_true] at hA; exact hA)
  obtain ⟨payload, hp⟩ := wpd_ok_of hdr [x] true (bytesAvail false af) (fun h => hn h.2)
    (by rw [hA, bytesAvail_false]; decide)
  obtain ⟨bs, hw⟩ := payload_write_ok pid hdr [x] true af cc.inc.get payload _ _ hp
  rw [loopT_payload_ok pid hdr 1 [x] true false af cc acc payload _ _ bs rfl
    (by rw [bytesAvail_false]; intro h; have := h.2; omega) hp hw]
  have h0 : min (bytesAvail false af - ↑(hlen hdr [x] true)).toNat [x].length = 0 := by
    rw [hA, bytesAvail_false]; simp
  rw [h0, List.drop_zero]
  exact tail_exhausted_one _ _ _ _ _ _

theorem start_exhausted (pid : Nat) (hdr : PESHeader) (x : Nat) (waf : Bool) (af : Option PacketAdaptationField)
    (cc : WrappingCounter) (acc : List Bytes) (a : PacketAdaptationField) (bs : Bytes)
    (hA : hlen hdr [x] true = 184) (hn : ¬ PesNil hdr) (ha : (if waf then af else none) = some a)
    (hw : writePacket (afOnlyPkt pid (cc.get % 16) { a with stuffingLength := bytesAvail waf af }) 188 = .ok bs) :
    (loopT pid hdr 3 [x] true waf af cc acc).2 = true := by
  have hC := hdr184 hdr 1 (by rw [hlen_true] at hA; exact hA)
  have h1 := bytesAvail_some waf af a ha
  have h2 := afSize_ge_one a
  rw [loopT_afOnly_ok pid hdr 2 [x] true waf af cc acc a bs rfl ⟨rfl, by omega⟩ ha hw]
  exact second_exhausted _ _ _ _ _ _ hA hn

theorem second_exhausted_inv (pid : Nat) (hdr : PESHeader) (fuel : Nat) (data : Bytes)
    (af : Option PacketAdaptationField) (cc : WrappingCounter) (acc : List Bytes)
    (h : (loopT pid hdr (fuel + 1) data true false af cc acc).2 = true) : ¬ PesNil hdr := by
  unfold loopT at h
  split at h
  · cases h
  · split at h
    · split at h
      · cases h
      · rename_i a ha; simp at ha
    · split at h
      · rename_i payload ntot np hp
        have := (wpd_ok_inv _ _ _ _ _ _ _ hp).1
        exact fun hn => this ⟨rfl, hn⟩
      · cases h
      · cases h

theorem start_exhausted_inv (pid : Nat) (hdr : PESHeader) (fuel : Nat) (data : Bytes) (waf : Bool)
    (af : Option PacketAdaptationField) (cc : WrappingCounter) (acc : List Bytes) (hf : data.length + 1 ≤ fuel)
    (h : (loopT pid hdr (fuel + 1) data true waf af cc acc).2 = true) :
    ∃ a bs, (if waf then af else none) = some a ∧
      writePacket (afOnlyPkt pid (cc.get % 16) { a with stuffingLength := bytesAvail waf af }) 188 = .ok bs ∧
      (loopT pid hdr fuel data true false (some { a with stuffingLength := 0 }) cc (acc ++ [bs])).2 = true := by
  unfold loopT at h
  split at h
  · cases h
  · split at h
    · split at h
      · cases h
      · rename_i a ha
        split at h
        · rename_i bs hw
          exact ⟨a, bs, ha, hw, h⟩
        · cases h
        · cases h
    · split at h
      · split at h
        · rw [tail_not_exhausted _ _ _ _ _ _ _ (by rw [List.length_drop]; omega)] at h
          cases h
        · cases h
        · cases h
      · cases h
      · cases h

/-- **(F2), exact characterisation.**  Started as `WriteData` starts it (`payloadStart = true`, fuel
`data.length + 2`), the loop reaches the fuel-exhausted branch **iff** there is exactly 1 payload byte, the PES
header is written on exactly 184 bytes (without a nil dereference), and the caller's adaptation field is written
first, alone (successfully).  Then four iterations are needed (adaptation field; PES header, which fills its
packet; the byte; the final emptiness test) and the fuel is three. -/
theorem start_exhausted_iff (pid : Nat) (hdr : PESHeader) (data : Bytes) (waf : Bool)
    (af : Option PacketAdaptationField) (cc : WrappingCounter) (acc : List Bytes) :
    Exhausted pid hdr (data.length + 2) data true waf af cc acc ↔
      data.length = 1 ∧ (pesHeaderBytes hdr 1).length = 184 ∧ ¬ PesNil hdr ∧
      ∃ a bs, (if waf then af else none) = some a ∧
        writePacket (afOnlyPkt pid (cc.get % 16) { a with stuffingLength := bytesAvail waf af }) 188 = .ok bs := by
  unfold Exhausted
  constructor
  · intro h
    obtain ⟨a, bs, ha, hw, h2⟩ := start_exhausted_inv pid hdr (data.length + 1) data waf af cc acc (Nat.le_refl _) h
    have hn := second_exhausted_inv _ _ _ _ _ _ _ h2
    by_cases h1 : data.length = 1
    · by_cases hA : hlen hdr data true = 184
      · rw [hlen_true, h1] at hA
        exact ⟨h1, hA, hn, a, bs, ha, hw⟩
      · rw [start_not_exhausted pid hdr _ data waf af cc acc (Nat.le_refl _) (fun _ h' => absurd h' hA)] at h
        cases h
    · rw [start_not_exhausted pid hdr _ data waf af cc acc (Nat.le_refl _) (fun h' => absurd h' h1)] at h
      cases h
  · rintro ⟨h1, hA, hn, a, bs, ha, hw⟩
    obtain ⟨x, rfl⟩ := List.length_eq_one_iff.1 h1
    exact start_exhausted pid hdr x waf af cc acc a bs (by rw [hlen_true]; exact hA) hn ha hw

/-- **(F2), sufficiency for headers of at most 183 bytes**: every `hdr` with
`6 + calcPESOptionalHeaderLength hdr.optionalHeader ≤ 183`, every payload, adaptation field, counter and accumulator:
the run with fuel `data.length + 2` does not reach the `0` branch; hence it equals the run with any larger fuel. -/
theorem fuel_suffices (pid : Nat) (hdr : PESHeader) (hC : 6 + calcPESOptionalHeaderLength hdr.optionalHeader ≤ 183)
    (data : Bytes) (waf : Bool) (af : Option PacketAdaptationField) (cc : WrappingCounter) (acc : List Bytes) :
    ¬ Exhausted pid hdr (data.length + 2) data true waf af cc acc ∧
    ∀ k, writeDataLoop pid hdr (data.length + 2 + k) data true waf af cc acc =
         writeDataLoop pid hdr (data.length + 2) data true waf af cc acc := by
  have h : ¬ Exhausted pid hdr (data.length + 2) data true waf af cc acc := by
    rw [start_exhausted_iff]
    rintro ⟨_, hA, _⟩
    have := hdr184 hdr 1 hA
    omega
  exact ⟨h, fun k => (fuel_mono pid hdr _ _ data true waf af cc acc h (Nat.le_add_right _ _)).1⟩

/-- one more unit of fuel ALWAYS suffices (whatever the header length) -/
theorem fuel_plus_one_suffices (pid : Nat) (hdr : PESHeader) (data : Bytes) (waf : Bool)
    (af : Option PacketAdaptationField) (cc : WrappingCounter) (acc : List Bytes) (fuel : Nat)
    (hf : data.length + 3 ≤ fuel) :
    ¬ Exhausted pid hdr fuel data true waf af cc acc := by
  unfold Exhausted
  rw [start_not_exhausted pid hdr fuel data waf af cc acc (by omega) (fun _ _ _ => hf)]
  simp

/-- outside the corner, fuel `data.length + 2` gives the fuel-free result -/
theorem fuel_suffices_of_not_corner (pid : Nat) (hdr : PESHeader) (data : Bytes) (waf : Bool)
    (af : Option PacketAdaptationField) (cc : WrappingCounter) (acc : List Bytes)
    (hc : ¬ (data.length = 1 ∧ (pesHeaderBytes hdr 1).length = 184 ∧ (if waf then af else none).isSome = true)) (k : Nat) :
    writeDataLoop pid hdr (data.length + 2 + k) data true waf af cc acc =
      writeDataLoop pid hdr (data.length + 2) data true waf af cc acc := by
  have h : ¬ Exhausted pid hdr (data.length + 2) data true waf af cc acc := by
    rw [start_exhausted_iff]
    rintro ⟨h1, hA, _, a, _, ha, _⟩
    exact hc ⟨h1, hA, by rw [ha]; rfl⟩
  exact (fuel_mono pid hdr _ _ data true waf af cc acc h (Nat.le_add_right _ _)).1

/-- in the corner the fuel-free result (any fuel ≥ `data.length + 3` = 4) differs from the model's: the model
returns `.err .other`, having emitted the same three packets the longer run emits and then returns as success -/
theorem corner_results (pid : Nat) (hdr : PESHeader) (data : Bytes) (waf : Bool)
    (af : Option PacketAdaptationField) (cc : WrappingCounter) (acc : List Bytes)
    (h : Exhausted pid hdr (data.length + 2) data true waf af cc acc) :
    (writeDataLoop pid hdr (data.length + 2) data true waf af cc acc).1 = .err .other ∧
    ∀ k, writeDataLoop pid hdr (data.length + 3 + k) data true waf af cc acc =
         writeDataLoop pid hdr (data.length + 3) data true waf af cc acc :=
  ⟨exhausted_result _ _ _ _ _ _ _ _ _ h,
   fun k => (fuel_mono pid hdr _ _ data true waf af cc acc
     (fuel_plus_one_suffices pid hdr data waf af cc acc _ (Nat.le_refl _)) (Nat.le_add_right _ k)).1⟩

/-! ### the corner, computed: what the model returns and what the fuel-free loop returns -/

theorem tail_one_run (pid : Nat) (hdr : PESHeader) (x : Nat) (af : Option PacketAdaptationField)
    (cc : WrappingCounter) (acc : List Bytes) :
    ∃ bs af', loopT pid hdr 1 [x] false false af cc acc = ((.err .other, cc.inc, af', acc ++ [bs]), true) ∧
      ∀ j, loopT pid hdr (j + 2) [x] false false af cc acc = ((.ok (acc ++ [bs]), cc.inc, af', acc ++ [bs]), false) := by
  obtain ⟨payload, hp⟩ := wpd_ok_of hdr [x] false (bytesAvail false af) (by simp)
    (by rw [hlen_false, bytesAvail_false]; decide)
  obtain ⟨bs, hw⟩ := payload_write_ok pid hdr [x] false af cc.inc.get payload _ _ hp
  refine ⟨bs, (stuffPair (bytesAvail false af - ↑(hlen hdr [x] false +
      min (bytesAvail false af - ↑(hlen hdr [x] false)).toNat [x].length)) (if false = true then af else none) af).2, ?_, ?_⟩
  · rw [loopT_payload_ok pid hdr 0 [x] false false af cc acc payload _ _ bs rfl (by simp) hp hw]
    rfl
  · intro j
    rw [loopT_payload_ok pid hdr (j + 1) [x] false false af cc acc payload _ _ bs rfl (by simp) hp hw]
    have hd : List.drop (min (bytesAvail false af - ↑(hlen hdr [x] false)).toNat [x].length) [x] = [] := by
      rw [hlen_false, bytesAvail_false]; simp
    rw [hd]
    rfl

theorem second_run (pid : Nat) (hdr : PESHeader) (x : Nat) (af : Option PacketAdaptationField)
    (cc : WrappingCounter) (acc : List Bytes) (hA : hlen hdr [x] true = 184) (hn : ¬ PesNil hdr) :
    ∃ bs1 bs2 af', loopT pid hdr 2 [x] true false af cc acc =
        ((.err .other, cc.inc.inc, af', acc ++ [bs1] ++ [bs2]), true) ∧
      ∀ j, loopT pid hdr (j + 3) [x] true false af cc acc =
        ((.ok (acc ++ [bs1] ++ [bs2]), cc.inc.inc, af', acc ++ [bs1] ++ [bs2]), false) := by
  have hC := hdr184 hdr 1 (by rw [hlen_true] at hA; exact hA)
  obtain ⟨payload, hp⟩ := wpd_ok_of hdr [x] true (bytesAvail false af) (fun h => hn h.2)
    (by rw [hA, bytesAvail_false]; decide)
  obtain ⟨bs, hw⟩ := payload_write_ok pid hdr [x] true af cc.inc.get payload _ _ hp
  have hc : ¬ (true = true ∧ bytesAvail false af < 6 + (calcPESOptionalHeaderLength hdr.optionalHeader : Int)) := by
    rw [bytesAvail_false]; intro h; have := h.2; omega
  have hd : List.drop (min (bytesAvail false af - ↑(hlen hdr [x] true)).toNat [x].length) [x] = [x] := by
    rw [hA, bytesAvail_false]; simp
  obtain ⟨bs2, af', e1, e2⟩ := tail_one_run pid hdr x
    (stuffPair (bytesAvail false af - ↑(hlen hdr [x] true +
      min (bytesAvail false af - ↑(hlen hdr [x] true)).toNat [x].length)) (if false = true then af else none) af).2
    cc.inc (acc ++ [bs])
  refine ⟨bs, bs2, af', ?_, ?_⟩
  · rw [loopT_payload_ok pid hdr 1 [x] true false af cc acc payload _ _ bs rfl hc hp hw, hd]
    exact e1
  · intro j
    rw [loopT_payload_ok pid hdr (j + 2) [x] true false af cc acc payload _ _ bs rfl hc hp hw, hd]
    exact e2 j

/-- **the corner, computed.**  Under the condition of `start_exhausted_iff` the model's run (fuel 3) and every
run with more fuel emit the same three packets `bs0, bs1, bs2` (adaptation field alone; PES header; the byte) and
end with the same counter and adaptation field; the model's run then reports `.err .other`, the longer runs — the
Go loop — report success. -/
theorem start_run (pid : Nat) (hdr : PESHeader) (x : Nat) (waf : Bool) (af : Option PacketAdaptationField)
    (cc : WrappingCounter) (acc : List Bytes) (a : PacketAdaptationField) (bs0 : Bytes)
    (hA : hlen hdr [x] true = 184) (hn : ¬ PesNil hdr) (ha : (if waf then af else none) = some a)
    (hw : writePacket (afOnlyPkt pid (cc.get % 16) { a with stuffingLength := bytesAvail waf af }) 188 = .ok bs0) :
    ∃ bs1 bs2 af', loopT pid hdr 3 [x] true waf af cc acc =
        ((.err .other, cc.inc.inc, af', acc ++ [bs0] ++ [bs1] ++ [bs2]), true) ∧
      ∀ j, loopT pid hdr (j + 4) [x] true waf af cc acc =
        ((.ok (acc ++ [bs0] ++ [bs1] ++ [bs2]), cc.inc.inc, af', acc ++ [bs0] ++ [bs1] ++ [bs2]), false) := by
  have hC := hdr184 hdr 1 (by rw [hlen_true] at hA; exact hA)
  have h1 := bytesAvail_some waf af a ha
  have h2 := afSize_ge_one a
  obtain ⟨bs1, bs2, af', e1, e2⟩ := second_run pid hdr x (some { a with stuffingLength := 0 }) cc (acc ++ [bs0]) hA hn
  refine ⟨bs1, bs2, af', ?_, ?_⟩
  · rw [loopT_afOnly_ok pid hdr 2 [x] true waf af cc acc a bs0 rfl ⟨rfl, by omega⟩ ha hw]
    exact e1
  · intro j
    rw [loopT_afOnly_ok pid hdr (j + 3) [x] true waf af cc acc a bs0 rfl ⟨rfl, by omega⟩ ha hw]
    exact e2 j

/-- the same, for `writeDataLoop`, from the hypothesis that the model's run is exhausted -/
theorem corner_runs (pid : Nat) (hdr : PESHeader) (data : Bytes) (waf : Bool)
    (af : Option PacketAdaptationField) (cc : WrappingCounter) (acc : List Bytes)
    (h : Exhausted pid hdr (data.length + 2) data true waf af cc acc) :
    ∃ bs0 bs1 bs2 cc' af',
      writeDataLoop pid hdr (data.length + 2) data true waf af cc acc =
        (.err .other, cc', af', acc ++ [bs0] ++ [bs1] ++ [bs2]) ∧
      ∀ k, writeDataLoop pid hdr (data.length + 3 + k) data true waf af cc acc =
        (.ok (acc ++ [bs0] ++ [bs1] ++ [bs2]), cc', af', acc ++ [bs0] ++ [bs1] ++ [bs2]) := by
  obtain ⟨h1, hA, hn, a, bs0, ha, hw⟩ := (start_exhausted_iff _ _ _ _ _ _ _).1 h
  obtain ⟨x, rfl⟩ := List.length_eq_one_iff.1 h1
  obtain ⟨bs1, bs2, af', e1, e2⟩ := start_run pid hdr x waf af cc acc a bs0 (by rw [hlen_true]; exact hA) hn ha hw
  refine ⟨bs0, bs1, bs2, cc.inc.inc, af', ?_, ?_⟩
  · rw [← loopT_fst]; exact congrArg Prod.fst e1
  · intro k
    rw [← loopT_fst]
    have := e2 k
    rw [show k + 4 = [x].length + 3 + k by simp; omega] at this
    exact congrArg Prod.fst this

/-! ### where the errors of the loop come from -/

/-- no adaptation field of the caller pending, PES header announced with at most 184 bytes: the only error the
loop can return is the fuel-exhausted one -/
theorem nowaf_err (pid : Nat) (hdr : PESHeader) (hC : 6 + calcPESOptionalHeaderLength hdr.optionalHeader ≤ 184)
    (fuel : Nat) : ∀ (data : Bytes) (ps : Bool) (af : Option PacketAdaptationField) (cc : WrappingCounter)
    (acc : List Bytes) (e : Err), (loopT pid hdr fuel data ps false af cc acc).1.1 = .err e →
    (loopT pid hdr fuel data ps false af cc acc).2 = true := by
  induction fuel with
  | zero => intros; rfl
  | succ fuel ih =>
    intro data ps af cc acc e
    unfold loopT
    split
    · intro h; cases h
    · split
      · rename_i hc
        exfalso
        have := hc.2
        rw [bytesAvail_false] at this
        omega
      · split
        · rename_i payload ntot np hp
          split
          · exact ih _ _ _ _ _ e
          · rename_i e' hw
            exact absurd hw (payload_write_ne_err pid hdr data ps false af cc.inc.get payload ntot np hp e')
          · intro h; cases h
        · rename_i e' hp
          exact absurd hp (writePESData_ne_err _ _ _ _ _)
        · intro h; cases h

/-- **provenance of the loop's errors**, from the start state of `WriteData` (`payloadStart = true`,
`writeAf = af.isSome`) with a PES header announced with at most 184 bytes (longer ones are rejected by `WriteData`
beforehand): an error is either the fuel-exhausted one, or it is the error `writePacket` returned for the
adaptation-field-only packet (the caller's adaptation field is too large for one packet). -/
theorem start_err (pid : Nat) (hdr : PESHeader) (hC : 6 + calcPESOptionalHeaderLength hdr.optionalHeader ≤ 184)
    (fuel : Nat) (data : Bytes) (af : Option PacketAdaptationField) (cc : WrappingCounter) (acc : List Bytes) (e : Err)
    (h : (loopT pid hdr fuel data true af.isSome af cc acc).1.1 = .err e) :
    (loopT pid hdr fuel data true af.isSome af cc acc).2 = true ∨
    ∃ a, af = some a ∧ bytesAvail true af < 6 + (calcPESOptionalHeaderLength hdr.optionalHeader : Int) ∧
      writePacket (afOnlyPkt pid (cc.get % 16) { a with stuffingLength := bytesAvail true af }) 188 = .err e := by
  cases af with
  | none => exact Or.inl (nowaf_err pid hdr hC fuel data true none cc acc e h)
  | some a =>
    simp only [Option.isSome_some] at h ⊢
    cases fuel with
    | zero => left; rfl
    | succ fuel =>
      revert h
      unfold loopT
      split
      · intro h; cases h
      · split
        · rename_i hc
          split
          · rename_i ha; simp at ha
          · rename_i a' ha
            simp only [if_true, Option.some.injEq] at ha
            subst ha
            split
            · intro h; exact Or.inl (nowaf_err pid hdr hC fuel _ _ _ _ _ e h)
            · rename_i e' hw
              intro h
              simp only [Res.err.injEq] at h
              subst h
              exact Or.inr ⟨a, rfl, hc.2, hw⟩
            · intro h; cases h
        · split
          · rename_i payload ntot np hp
            split
            · intro h; exact Or.inl (nowaf_err pid hdr hC fuel _ _ _ _ _ e h)
            · rename_i e' hw
              exact absurd hw (payload_write_ne_err pid hdr data true true (some a) cc.inc.get payload ntot np hp e')
            · intro h; cases h
          · rename_i e' hp
            exact absurd hp (writePESData_ne_err _ _ _ _ _)
          · intro h; cases h

/-! ### (F3) `Mux.writeData` -/

/-- `Mux.writeData` with `k` more units of fuel for the packetisation loop (`writeDataK 0 = Mux.writeData`) -/
def writeDataK (k : Nat) (m : Mux) (d : MuxerData) : MuxOut × Mux × MuxerData :=
  match m.ccOf d.pid with
  | none => ({ err := some .pidNotFound }, m, d)
  | some cc =>
    if 6 + calcPESOptionalHeaderLength d.pes.header.optionalHeader > 184 then ({ err := some .other }, m, d) else
    let force := (d.adaptationField.map (·.randomAccessIndicator)).getD false && d.pid == m.pcrPID
    match m.retransmitTables force with
    | (.err e, m1) => ({ err := some e }, m1, d)
    | (.panic, m1) => ({ panic := true }, m1, d)
    | (.ok tcs, m1) =>
      let st := (m1.streams.find? (·.elementaryPID == d.pid)).map (·.streamType) |>.getD 0
      let hdr : PESHeader := if d.pes.header.streamID = 0 then { d.pes.header with streamID := toPESStreamID st } else d.pes.header
      let (r, cc', af', acc) := writeDataLoop d.pid hdr (d.pes.data.length + 2 + k) d.pes.data true d.adaptationField.isSome
        d.adaptationField cc []
      let m2 := m1.setCC d.pid cc'
      let emitted := tcs ++ acc
      let reached := cc'.value ≠ cc.value ∨ r.isOk
      let d' : MuxerData := { d with pes := { d.pes with header := if reached ∧ !d.pes.data.isEmpty then hdr else d.pes.header } }
      match r with
      | .ok _ =>
        ({ n := chunksLen emitted, chunks := emitted }, m2,
          { d' with adaptationField := af'.map fun a => { a with stuffingLength := 0 } })
      | .err e => ({ n := chunksLen emitted, err := some e, chunks := emitted }, m2, { d' with adaptationField := af' })
      | .panic => ({ panic := true, chunks := emitted }, m2, d')

theorem writeDataK_zero (m : Mux) (d : MuxerData) : writeDataK 0 m d = m.writeData d := rfl

theorem dataHdr_optionalHeader (m1 : Mux) (d : MuxerData) :
    (dataHdr m1 d).optionalHeader = d.pes.header.optionalHeader := by
  unfold dataHdr; split <;> rfl

/-- the corner, read off the caller's data: 1 payload byte, an adaptation field, a PES header announced with 184
bytes (necessary for exhaustion whatever the muxer state; see `start_exhausted_iff` for the exact condition) -/
def DataCorner (d : MuxerData) : Prop :=
  d.pes.data.length = 1 ∧ d.adaptationField.isSome = true ∧
    6 + calcPESOptionalHeaderLength d.pes.header.optionalHeader = 184

instance (d : MuxerData) : Decidable (DataCorner d) := by unfold DataCorner; infer_instance

theorem dataLoop_fuel (m1 : Mux) (d : MuxerData) (cc : WrappingCounter) (hc : ¬ DataCorner d) (k : Nat) :
    writeDataLoop d.pid (dataHdr m1 d) (d.pes.data.length + 2 + k) d.pes.data true d.adaptationField.isSome
      d.adaptationField cc [] = dataLoop m1 d cc := by
  unfold dataLoop
  apply fuel_suffices_of_not_corner
  rintro ⟨h1, hA, h3⟩
  apply hc
  refine ⟨h1, ?_, ?_⟩
  · cases hd : d.adaptationField with
    | none => rw [hd] at h3; simp at h3
    | some a => rfl
  · rw [← dataHdr_optionalHeader m1 d]; exact hdr184 _ 1 hA

/-- **(F3)** outside the corner the fuel of `Mux.writeData` is irrelevant: the call returns what the same
definition returns with `k` more units of fuel, for every `k` — result, new muxer state and the caller's data as the
muxer leaves it.  (For every muxer state; `¬ DataCorner d` holds in particular when the PES header is announced
with at most 183 bytes.) -/
theorem writeData_fuel_irrelevant (m : Mux) (d : MuxerData) (hc : ¬ DataCorner d) (k : Nat) :
    writeDataK k m d = m.writeData d := by
  cases hcc : m.ccOf d.pid with
  | none => unfold writeDataK Mux.writeData; rw [hcc]
  | some cc =>
    by_cases hfit : 6 + calcPESOptionalHeaderLength d.pes.header.optionalHeader > 184
    · unfold writeDataK Mux.writeData; rw [hcc]; simp only [hfit, if_true]
    · cases hr : m.retransmitTables (dataForce m d) with
      | mk r m1 =>
        unfold dataForce at hr
        unfold writeDataK Mux.writeData; rw [hcc]; simp only [hfit, if_false]; rw [hr]
        cases r with
        | err e => rfl
        | panic => rfl
        | ok tcs =>
          have := dataLoop_fuel m1 d cc hc k
          unfold dataLoop dataHdr at this
          simp only
          rw [this]
          generalize writeDataLoop _ _ _ _ _ _ _ _ _ = L
          obtain ⟨r, cc', af', acc'⟩ := L
          cases r <;> rfl

theorem writeData_fuel_irrelevant_183 (m : Mux) (d : MuxerData)
    (h : 6 + calcPESOptionalHeaderLength d.pes.header.optionalHeader ≤ 183) (k : Nat) :
    writeDataK k m d = m.writeData d :=
  writeData_fuel_irrelevant m d (fun hc => by have := hc.2.2; omega) k

/-! ### provenance of the errors of `Mux.writeData` -/

theorem writePacket_err_other (p : Packet) (target : Nat) (e : Err) (h : writePacket p target = .err e) :
    e = .other := by
  unfold writePacket at h
  split at h
  · cases h
  · split at h
    · cases h
    · split at h
      · cases h; rfl
      · cases h

theorem writeData_ok_tables_err (m : Mux) (d : MuxerData) (cc : WrappingCounter) (hcc : m.ccOf d.pid = some cc)
    (hfit : ¬ 6 + calcPESOptionalHeaderLength d.pes.header.optionalHeader > 184)
    (tcs : List Bytes) (m1 : Mux) (hr : m.retransmitTables (dataForce m d) = (.ok tcs, m1)) (e : Err) :
    (m.writeData d).1.err = some e ↔ (dataLoop m1 d cc).1 = .err e := by
  unfold Mux.writeData
  rw [hcc]
  simp only [hfit, if_false]
  unfold dataForce at hr
  rw [hr]
  unfold dataLoop dataHdr
  simp only
  generalize writeDataLoop _ _ _ _ _ _ _ _ _ = L
  obtain ⟨r, cc', af', acc'⟩ := L
  cases r <;> simp

/-- the reasons for which `Mux.writeData` returns an error -/
inductive ErrReason (m : Mux) (d : MuxerData) (e : Err) : Prop where
  /-- the PID was not added -/
  | pidNotFound (h : m.ccOf d.pid = none) (he : e = .pidNotFound)
  /-- the PES header can never fit in one packet -/
  | headerTooLong (h : 6 + calcPESOptionalHeaderLength d.pes.header.optionalHeader > 184) (he : e = .other)
  /-- the tables were due and could not be generated -/
  | tables (h : (m.retransmitTables (dataForce m d)).1 = .err e)
  /-- the caller's adaptation field leaves no room for the PES header, is sent in a packet of its own, and
  `writePacket` rejects that packet (the field is larger than a packet) -/
  | afTooLarge (cc : WrappingCounter) (a : PacketAdaptationField) (hcc : m.ccOf d.pid = some cc)
      (ha : d.adaptationField = some a)
      (hroom : bytesAvail true (some a) < 6 + (calcPESOptionalHeaderLength d.pes.header.optionalHeader : Int))
      (hw : writePacket (afOnlyPkt d.pid (cc.get % 16) { a with stuffingLength := bytesAvail true (some a) }) 188 = .err e)
      (he : e = .other)
  /-- MODEL ARTEFACT (no counterpart in Go): the fuel of the packetisation loop ran out -/
  | fuel (h : DataCorner d) (he : e = .other)

/-- **(F3), provenance.**  Every error returned by `Mux.writeData` has one of the five reasons of `ErrReason`;
the last one (fuel) only in the corner. -/
theorem writeData_err_reason (m : Mux) (d : MuxerData) (e : Err) (h : (m.writeData d).1.err = some e) :
    ErrReason m d e := by
  cases hcc : m.ccOf d.pid with
  | none =>
    unfold Mux.writeData at h; rw [hcc] at h
    simp only [Option.some.injEq] at h
    exact .pidNotFound hcc h.symm
  | some cc =>
    by_cases hfit : 6 + calcPESOptionalHeaderLength d.pes.header.optionalHeader > 184
    · unfold Mux.writeData at h; rw [hcc] at h; simp only [hfit, if_true, Option.some.injEq] at h
      exact .headerTooLong hfit h.symm
    · cases hr : m.retransmitTables (dataForce m d) with
      | mk r m1 =>
        cases r with
        | err e' =>
          have hr' := hr
          unfold dataForce at hr
          unfold Mux.writeData at h; rw [hcc] at h; simp only [hfit, if_false] at h; rw [hr] at h
          simp only [Option.some.injEq] at h
          subst h
          exact .tables (by rw [hr'])
        | panic =>
          unfold dataForce at hr
          unfold Mux.writeData at h; rw [hcc] at h; simp only [hfit, if_false] at h; rw [hr] at h
          cases h
        | ok tcs =>
          have hl := (writeData_ok_tables_err m d cc hcc hfit tcs m1 hr e).1 h
          unfold dataLoop at hl
          rw [← loopT_fst] at hl
          have hopt := dataHdr_optionalHeader m1 d
          rcases start_err d.pid (dataHdr m1 d) (by rw [hopt]; omega) _ _ _ _ _ e hl with hx | ⟨a, ha, hroom, hw⟩
          · have he : (Res.err Err.other : Res (List Bytes)) = Res.err e := by
              rw [← hl]; exact (loopT_exhausted_result _ _ _ _ _ _ _ _ _ hx).symm
            simp only [Res.err.injEq] at he
            obtain ⟨h1, hA, _, a, _, ha, _⟩ := (start_exhausted_iff _ _ _ _ _ _ _).1 hx
            refine .fuel ⟨h1, ?_, ?_⟩ he.symm
            · cases hd : d.adaptationField with
              | none => rw [hd] at ha; simp at ha
              | some a => rfl
            · rw [← hopt]; exact hdr184 _ 1 hA
          · rw [hopt, ha] at hroom
            rw [ha] at hw
            exact .afTooLarge cc a hcc ha hroom hw (writePacket_err_other _ _ _ hw)

/-- with a PES header announced with at most 183 bytes the fuel reason does not occur: `Mux.writeData` returns an
error only for the reasons the Go code has -/
theorem writeData_err_reason_183 (m : Mux) (d : MuxerData) (e : Err)
    (hC : 6 + calcPESOptionalHeaderLength d.pes.header.optionalHeader ≤ 183) (h : (m.writeData d).1.err = some e) :
    (m.ccOf d.pid = none ∧ e = .pidNotFound) ∨
    (m.retransmitTables (dataForce m d)).1 = .err e ∨
    (e = .other ∧ ∃ cc a, m.ccOf d.pid = some cc ∧ d.adaptationField = some a ∧
      bytesAvail true (some a) < 6 + (calcPESOptionalHeaderLength d.pes.header.optionalHeader : Int) ∧
      writePacket (afOnlyPkt d.pid (cc.get % 16) { a with stuffingLength := bytesAvail true (some a) }) 188 = .err e) := by
  cases writeData_err_reason m d e h with
  | pidNotFound h he => exact Or.inl ⟨h, he⟩
  | headerTooLong h he => omega
  | tables h => exact Or.inr (Or.inl h)
  | afTooLarge cc a hcc ha hroom hw he => exact Or.inr (Or.inr ⟨he, cc, a, hcc, ha, hroom, hw⟩)
  | fuel h he => have := h.2.2; omega

/-! ### the corner at the level of `Mux.writeData` -/

/-- how `WriteData` turns the loop's outcome into its result (the last part of `Mux.writeData`) -/
def finish (d : MuxerData) (cc : WrappingCounter) (tcs : List Bytes) (m1 : Mux) (hdr : PESHeader) (L : LoopOut) :
    MuxOut × Mux × MuxerData :=
  let (r, cc', af', acc) := L
  let m2 := m1.setCC d.pid cc'
  let emitted := tcs ++ acc
  let reached := cc'.value ≠ cc.value ∨ r.isOk
  let d' : MuxerData := { d with pes := { d.pes with header := if reached ∧ !d.pes.data.isEmpty then hdr else d.pes.header } }
  match r with
  | .ok _ =>
    ({ n := chunksLen emitted, chunks := emitted }, m2,
      { d' with adaptationField := af'.map fun a => { a with stuffingLength := 0 } })
  | .err e => ({ n := chunksLen emitted, err := some e, chunks := emitted }, m2, { d' with adaptationField := af' })
  | .panic => ({ panic := true, chunks := emitted }, m2, d')

theorem writeDataK_ok_tables (k : Nat) (m : Mux) (d : MuxerData) (cc : WrappingCounter) (hcc : m.ccOf d.pid = some cc)
    (hfit : ¬ 6 + calcPESOptionalHeaderLength d.pes.header.optionalHeader > 184)
    (tcs : List Bytes) (m1 : Mux) (hr : m.retransmitTables (dataForce m d) = (.ok tcs, m1)) :
    writeDataK k m d = finish d cc tcs m1 (dataHdr m1 d)
      (writeDataLoop d.pid (dataHdr m1 d) (d.pes.data.length + 2 + k) d.pes.data true d.adaptationField.isSome
        d.adaptationField cc []) := by
  unfold writeDataK
  rw [hcc]
  simp only [hfit, if_false]
  unfold dataForce at hr
  rw [hr]
  unfold dataHdr finish
  simp only

/-- **the corner at the level of `WriteData`.**  When the tables step succeeds (chunks `tcs`) and the loop run of
`Mux.writeData` is exhausted, the call returns `Err.other` having handed `tcs` and three packets to the writer; the
same definition with any additional fuel — the Go code — hands over the same chunks, reaches the same muxer state,
returns the same byte count, and reports success. -/
theorem writeData_corner (m : Mux) (d : MuxerData) (cc : WrappingCounter) (hcc : m.ccOf d.pid = some cc)
    (hfit : ¬ 6 + calcPESOptionalHeaderLength d.pes.header.optionalHeader > 184)
    (tcs : List Bytes) (m1 : Mux) (hr : m.retransmitTables (dataForce m d) = (.ok tcs, m1))
    (hx : Exhausted d.pid (dataHdr m1 d) (d.pes.data.length + 2) d.pes.data true d.adaptationField.isSome
            d.adaptationField cc []) :
    ∃ bs0 bs1 bs2,
      (m.writeData d).1.err = some .other ∧ (m.writeData d).1.chunks = tcs ++ [bs0, bs1, bs2] ∧
      ∀ k, (writeDataK (k + 1) m d).1.err = none ∧ (writeDataK (k + 1) m d).1.panic = false ∧
        (writeDataK (k + 1) m d).1.chunks = (m.writeData d).1.chunks ∧
        (writeDataK (k + 1) m d).1.n = (m.writeData d).1.n ∧
        (writeDataK (k + 1) m d).2.1 = (m.writeData d).2.1 := by
  obtain ⟨bs0, bs1, bs2, cc', af', e1, e2⟩ := corner_runs _ _ _ _ _ _ _ hx
  have h0 : m.writeData d = _ := (writeDataK_zero m d).symm.trans (writeDataK_ok_tables 0 m d cc hcc hfit tcs m1 hr)
  rw [Nat.add_zero, e1] at h0
  have hk : ∀ k, writeDataK (k + 1) m d = _ := fun k => writeDataK_ok_tables (k + 1) m d cc hcc hfit tcs m1 hr
  refine ⟨bs0, bs1, bs2, ?_, ?_, ?_⟩
  · rw [h0]; rfl
  · rw [h0]; simp [finish]
  · intro k
    have := hk k
    rw [show d.pes.data.length + 2 + (k + 1) = d.pes.data.length + 3 + k by omega, e2 k] at this
    rw [this, h0]
    exact ⟨rfl, rfl, rfl, rfl, rfl⟩

end Astits.MuxFuel
