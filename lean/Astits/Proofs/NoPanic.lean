/-
C03 helpers: no parser of the model yields `.panic` (reading side), bottom-up.
Core (Hoare triples, iterator primitives) → Packet → PES → Desc → PSI → Demux.
-/
import Astits.Proofs.NoPanic.Core
import Astits.Proofs.NoPanic.Packet
import Astits.Proofs.NoPanic.PES
import Astits.Proofs.NoPanic.Desc
import Astits.Proofs.NoPanic.PSI
import Astits.Proofs.NoPanic.Demux
