/-
C15 helper: the Annex C decode / encode formulas in Nat arithmetic and a structural checking loop that
walks the calendar day by day next to the MJD number.
-/
import Astits.Model.DVB
import Astits.Spec.DVB
namespace Astits.MJD

/-- `decodeYMD` in natural-number arithmetic (valid for mjd ≥ 15079, where every quantity is positive) -/
def decodeNat (mjd : Nat) : Nat × Nat × Nat :=
  let yt := (20 * mjd - 301564) / 7305
  let a := yt * 1461 / 4
  let mt := ((10 * mjd - 149561 - 10 * a) * 1000) / 306001
  let b := mt * 306001 / 10000
  let d := mjd - 14956 - a - b
  let k := if mt = 14 ∨ mt = 15 then 1 else 0
  (1900 + yt + k, mt - 1 - k * 12, d)

/-- `encodeMJD` in natural-number arithmetic (valid from 1900-03-01 on) -/
def encodeNat (y m d : Nat) : Nat :=
  let l := if m ≤ 2 then 1 else 0
  14956 + d + (y - 1900 - l) * 1461 / 4 + (m + 1 + l * 12) * 306001 / 10000

/-- walk `n` days from (`mjd`, `date`): every day must decode to the calendar date and encode back;
returns the date reached, or none at the first disagreement -/
def walk : Nat → Nat → Nat × Nat × Nat → Option (Nat × Nat × Nat)
  | 0, _, date => some date
  | n + 1, mjd, date =>
    if decodeNat mjd == date && encodeNat date.1 date.2.1 date.2.2 == mjd then walk n (mjd + 1) (Spec.nextDay date) else none

/-- `n` days after `date` -/
def stepN : Nat → Nat × Nat × Nat → Nat × Nat × Nat
  | 0, d => d
  | n + 1, d => stepN n (Spec.nextDay d)

theorem stepN_succ (n : Nat) (d : Nat × Nat × Nat) : stepN (n + 1) d = Spec.nextDay (stepN n d) := by
  induction n generalizing d with
  | zero => rfl
  | succ n ih => rw [stepN, ih (Spec.nextDay d)]; rfl

theorem stepN_add (a b : Nat) (d : Nat × Nat × Nat) : stepN (a + b) d = stepN b (stepN a d) := by
  induction a generalizing d with
  | zero => simp [stepN]
  | succ a ih => rw [Nat.succ_add, stepN, ih]; rfl

theorem dateAfter_eq (n : Nat) : Spec.dateAfter n = stepN n (1900, 3, 1) := by
  induction n with
  | zero => rfl
  | succ n ih => rw [Spec.dateAfter, ih, stepN_succ]

theorem walk_spec (n mjd : Nat) (date last : Nat × Nat × Nat) (h : walk n mjd date = some last) :
    ∀ i, i < n → decodeNat (mjd + i) = stepN i date ∧
      encodeNat (stepN i date).1 (stepN i date).2.1 (stepN i date).2.2 = mjd + i := by
  induction n generalizing mjd date with
  | zero => intro i hi; omega
  | succ n ih =>
    intro i hi
    unfold walk at h
    split at h
    · rename_i hc
      simp only [Bool.and_eq_true, beq_iff_eq] at hc
      cases i with
      | zero => simpa [stepN] using hc
      | succ j =>
        have := ih (mjd + 1) (Spec.nextDay date) h j (by omega)
        have e : mjd + (j + 1) = mjd + 1 + j := by omega
        rw [e]
        simpa [stepN] using this
    · cases h

theorem walk_last (n mjd : Nat) (date last : Nat × Nat × Nat) (h : walk n mjd date = some last) :
    last = stepN n date := by
  induction n generalizing mjd date with
  | zero => simp [walk] at h; simp [stepN, h]
  | succ n ih =>
    unfold walk at h
    split at h
    · have := ih (mjd + 1) (Spec.nextDay date) h
      simpa [stepN] using this
    · cases h

/-! ### the Int-valued model functions themselves, walked over the whole range -/

def toI (d : Nat × Nat × Nat) : Int × Int × Int := ((d.1 : Int), (d.2.1 : Int), (d.2.2 : Int))

/-- one day: the model's decode gives the calendar date, the model of Go's time.Date maps that date to the linear
day count, the model of Go's Year/Month/Day maps it back, the model's encode gives the MJD -/
def dayOK (mjd : Nat) (date : Nat × Nat × Nat) : Bool :=
  decodeYMD (mjd : Int) == toI date
  && unixOfDate (date.1 : Int) (date.2.1 : Int) (date.2.2 : Int) == ((mjd : Int) - 40587) * 86400
  && civilFromDays ((mjd : Int) - 40587) == toI date
  && encodeMJD (date.1 : Int) (date.2.1 : Int) (date.2.2 : Int) == (mjd : Int)

def walkI : Nat → Nat → Nat × Nat × Nat → Bool
  | 0, _, _ => true
  | n + 1, mjd, date => dayOK mjd date && walkI n (mjd + 1) (Spec.nextDay date)

theorem walkI_spec (n mjd : Nat) (date : Nat × Nat × Nat) (h : walkI n mjd date = true) :
    ∀ i, i < n → dayOK (mjd + i) (stepN i date) = true := by
  induction n generalizing mjd date with
  | zero => intro i hi; omega
  | succ n ih =>
    intro i hi
    simp only [walkI, Bool.and_eq_true] at h
    cases i with
    | zero => simpa [stepN] using h.1
    | succ j =>
      have := ih (mjd + 1) (Spec.nextDay date) h.2 j (by omega)
      have e : mjd + (j + 1) = mjd + 1 + j := by omega
      rw [e]; simpa [stepN] using this

end Astits.MJD
