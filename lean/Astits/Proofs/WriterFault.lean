/-
C18, writer side — a failing `io.Writer` under the muxer.

The muxer model (`Astits/Model/Mux.lean`) returns the chunks a call hands to the writer.  This file adds the layer
between those chunks and the `io.Writer`: the SEQUENCE OF `Write` CALLS the real code issues for them, a writer that
fails at its k-th `Write` (once, or from then on), and what the call returns then.

It is a TRANSCRIPTION of Go control flow — like the reader layer of `Astits/Proofs/Chunking/*` — validated by the C18
correspondence run (cases `writer-fault-*` / `writer-nofault-*` of `Astits/Driver/MuxProps.lean`, which arm the fault
at the k-th `Write` of the last call and compare `err` and `n ≤ accepted` with the Go harness's `recWriter`):

* `FWriter` is the harness's `recWriter`: call counter, `failAt`, `once`, `done`; a failing call accepts nothing.
* astikit's `BitsWriter` issues one `Write` per completed byte for bit / integer writes and one `Write` per aligned
  `[]byte` (transport private data, payload); a table (PAT / PMT) is assembled in a buffer and written with ONE `Write`.
* errors are checked per GROUP of calls: `writePacket` checks after the sync byte, after the header batch, after the
  adaptation field, after the payload, and after every trailing stuffing byte, and returns the count reached BEFORE the
  failing group; `WriteData` / `WriteTables` return the count reached before the failing PACKET / TABLE
  (`return bytesWritten, err`).  Within a group a `BitsWriterBatch` latches the first error and `Err()` returns it
  (`C18.batch_errors_returned`: no `return …, nil` behind a batch).
* the run stops at the first failing `Write`: that is where `n` and `err` are decided.  With a PERMANENTLY failing
  writer nothing is accepted afterwards (`FWriter.stuck`).  With a writer that fails ONCE the real code may still get
  later `Write`s of the same call accepted (see the findings at the end of `Astits/Props/C18.lean`); they can only add to
  the accepted bytes, so `n ≤ accepted` is not affected.
-/
import Astits.Model.Mux
namespace Astits.WriterFault

/-! ## the failing writer -/

/-- the harness's `recWriter` -/
structure FWriter where
  buf : Bytes := []
  calls : Nat := 0
  failAt : Option Nat := none
  once : Bool := false
  done : Bool := false
  deriving Repr, DecidableEq

/-- does the next `Write` fail? (`w.failAt >= 0 && !w.done && i >= w.failAt`) -/
def FWriter.fails (w : FWriter) : Bool :=
  match w.failAt with
  | some f => !w.done && decide (f ≤ w.calls)
  | none => false

/-- one `Write(p)`: `true` = all of `p` accepted, `false` = `(0, err)` -/
def FWriter.write (w : FWriter) (p : Bytes) : Bool × FWriter :=
  if w.fails then (false, { w with calls := w.calls + 1, done := w.once })
  else (true, { w with calls := w.calls + 1, buf := w.buf ++ p })

/-- the next `N` calls are not hit -/
def FWriter.safeFor (w : FWriter) (N : Nat) : Prop := ∀ f, w.failAt = some f → w.done = true ∨ w.calls + N ≤ f

/-- the writer after `cs` accepted calls -/
def FWriter.advance (w : FWriter) (cs : List Bytes) : FWriter :=
  { w with calls := w.calls + cs.length, buf := w.buf ++ cs.flatten }

/-- the writer right after the call number `k` of `cs` has failed -/
def FWriter.stopAt (w : FWriter) (k : Nat) (cs : List Bytes) : FWriter :=
  { w with calls := w.calls + k + 1, buf := w.buf ++ (cs.take k).flatten, done := w.once }

theorem FWriter.fails_false_of_safe {w : FWriter} {N : Nat} (h : w.safeFor (N + 1)) : w.fails = false := by
  unfold FWriter.fails
  cases hf : w.failAt with
  | none => rfl
  | some f =>
    rcases h f hf with hd | hle
    · simp [hd]
    · have : ¬ f ≤ w.calls := by omega
      simp [this]

theorem FWriter.write_safe {w : FWriter} {N : Nat} (h : w.safeFor (N + 1)) (p : Bytes) :
    w.write p = (true, { w with calls := w.calls + 1, buf := w.buf ++ p }) ∧
    ({ w with calls := w.calls + 1, buf := w.buf ++ p } : FWriter).safeFor N := by
  refine ⟨by unfold FWriter.write; rw [FWriter.fails_false_of_safe h]; rfl, ?_⟩
  intro f hf
  rcases h f hf with hd | hle
  · exact Or.inl hd
  · exact Or.inr (by simp only; omega)

theorem FWriter.write_hit {w : FWriter} (hf : w.failAt = some w.calls) (hd : w.done = false) (p : Bytes) :
    w.write p = (false, { w with calls := w.calls + 1, done := w.once }) := by
  unfold FWriter.write FWriter.fails
  simp [hf, hd]

/-- a permanently failing writer that has failed accepts nothing any more -/
def FWriter.stuck (w : FWriter) : Prop := ∃ f, w.failAt = some f ∧ f < w.calls ∧ w.done = false ∧ w.once = false

theorem FWriter.stuck_write {w : FWriter} (h : w.stuck) (p : Bytes) :
    (w.write p).1 = false ∧ (w.write p).2.buf = w.buf ∧ (w.write p).2.stuck := by
  obtain ⟨f, hf, hlt, hd, ho⟩ := h
  have hfails : w.fails = true := by
    unfold FWriter.fails
    have : f ≤ w.calls := by omega
    simp [hf, hd, this]
  have hw : w.write p = (false, { w with calls := w.calls + 1, done := w.once }) := by
    unfold FWriter.write; rw [hfails]; rfl
  rw [hw]
  refine ⟨rfl, rfl, f, hf, by simp only; omega, ?_, ho⟩
  simp only
  rw [ho]

/-! ## groups of `Write` calls -/

/-- `Write` calls whose errors are checked together -/
abbrev Group := List Bytes
/-- the groups of one muxer call, in order -/
abbrev Program := List Group

def callsOf (prog : Program) : List Bytes := prog.flatten
def totalCalls (prog : Program) : Nat := (callsOf prog).length
def bytesOf (prog : Program) : Bytes := (callsOf prog).flatten

@[simp] theorem callsOf_nil : callsOf [] = [] := rfl
@[simp] theorem callsOf_cons (g : Group) (r : Program) : callsOf (g :: r) = g ++ callsOf r := by simp [callsOf]
@[simp] theorem totalCalls_nil : totalCalls [] = 0 := rfl
@[simp] theorem totalCalls_cons (g : Group) (r : Program) : totalCalls (g :: r) = g.length + totalCalls r := by
  simp [totalCalls]
@[simp] theorem bytesOf_nil : bytesOf [] = [] := rfl
@[simp] theorem bytesOf_cons (g : Group) (r : Program) : bytesOf (g :: r) = g.flatten ++ bytesOf r := by
  simp [bytesOf]

/-- the calls of a group until the first failure (a batch ignores the calls behind it; a direct write returns) -/
def runGroup (w : FWriter) : Group → Bool × FWriter
  | [] => (true, w)
  | c :: r =>
    match w.write c with
    | (true, w1) => runGroup w1 r
    | (false, w1) => (false, w1)

structure RunOut where
  n : Nat
  failed : Bool
  w : FWriter
  deriving Repr, DecidableEq

/-- the groups until the first failure; `credited` = the byte count reached so far -/
def runProgram (w : FWriter) (credited : Nat) : Program → RunOut
  | [] => ⟨credited, false, w⟩
  | g :: r =>
    match runGroup w g with
    | (true, w1) => runProgram w1 (credited + g.flatten.length) r
    | (false, w1) => ⟨credited, true, w1⟩

/-- the count returned when call number `k` fails: the bytes of the groups that were complete before its group -/
def creditedAt : Program → Nat → Nat
  | [], _ => 0
  | g :: r, k => if k < g.length then 0 else g.flatten.length + creditedAt r (k - g.length)

theorem runGroup_safe (g : Group) : ∀ (w : FWriter), w.safeFor g.length → runGroup w g = (true, w.advance g) := by
  induction g with
  | nil => intro w _; simp [runGroup, FWriter.advance]
  | cons c r ih =>
    intro w h
    obtain ⟨h1, h2⟩ := FWriter.write_safe (N := r.length) h c
    unfold runGroup
    rw [h1]
    simp only
    rw [ih _ h2]
    simp [FWriter.advance, Nat.add_assoc, Nat.add_comm 1]

theorem runGroup_hit (g : Group) : ∀ (w : FWriter) (k : Nat), w.failAt = some (w.calls + k) → w.done = false →
    k < g.length → runGroup w g = (false, w.stopAt k g) := by
  induction g with
  | nil => intro w k _ _ hk; simp at hk
  | cons c r ih =>
    intro w k hf hd hk
    cases k with
    | zero =>
      unfold runGroup
      rw [FWriter.write_hit (by simpa using hf) hd]
      simp [FWriter.stopAt]
    | succ k =>
      have hs : w.safeFor (0 + 1) := by
        intro f hf'
        rw [hf] at hf'
        simp only [Option.some.injEq] at hf'
        exact Or.inr (by omega)
      obtain ⟨h1, _⟩ := FWriter.write_safe hs c
      unfold runGroup
      rw [h1]
      simp only
      have hf1 : ({ w with calls := w.calls + 1, buf := w.buf ++ c } : FWriter).failAt =
          some (({ w with calls := w.calls + 1, buf := w.buf ++ c } : FWriter).calls + k) := by
        simp only; rw [hf]; congr 1; omega
      rw [ih { w with calls := w.calls + 1, buf := w.buf ++ c } k hf1 hd (by simpa using hk)]
      simp [FWriter.stopAt, Nat.add_assoc, Nat.add_comm 1]

theorem runProgram_safe (prog : Program) : ∀ (w : FWriter) (c : Nat), w.safeFor (totalCalls prog) →
    runProgram w c prog = ⟨c + (bytesOf prog).length, false, w.advance (callsOf prog)⟩ := by
  induction prog with
  | nil => intro w c _; simp [runProgram, FWriter.advance]
  | cons g r ih =>
    intro w c h
    have hg : w.safeFor g.length := by
      intro f hf
      rcases h f hf with hd | hle
      · exact Or.inl hd
      · exact Or.inr (by simp only [totalCalls_cons] at hle; omega)
    have hr : (w.advance g).safeFor (totalCalls r) := by
      intro f hf
      rcases h f hf with hd | hle
      · exact Or.inl hd
      · exact Or.inr (by simp only [totalCalls_cons] at hle; simp only [FWriter.advance]; omega)
    unfold runProgram
    rw [runGroup_safe g w hg]
    simp only
    rw [ih _ _ hr]
    simp [FWriter.advance, Nat.add_assoc]

/-- **the generic fault theorem**: the fault armed at call `k` of the program is hit; the run reports a failure with
the count of the groups completed before, and the writer has accepted exactly the first `k` calls -/
theorem runProgram_hit (prog : Program) : ∀ (w : FWriter) (c k : Nat), w.failAt = some (w.calls + k) → w.done = false →
    k < totalCalls prog →
    runProgram w c prog = ⟨c + creditedAt prog k, true, w.stopAt k (callsOf prog)⟩ := by
  induction prog with
  | nil => intro w c k _ _ hk; simp at hk
  | cons g r ih =>
    intro w c k hf hd hk
    unfold runProgram creditedAt
    by_cases hkg : k < g.length
    · rw [runGroup_hit g w k hf hd hkg, if_pos hkg]
      simp only [Nat.add_zero, callsOf_cons, RunOut.mk.injEq, true_and]
      simp only [FWriter.stopAt, List.take_append_of_le_length (Nat.le_of_lt hkg)]
    · have hg : w.safeFor g.length := by
        intro f hf'
        rw [hf] at hf'
        simp only [Option.some.injEq] at hf'
        exact Or.inr (by omega)
      rw [runGroup_safe g w hg, if_neg hkg]
      simp only
      have hf2 : (w.advance g).failAt = some ((w.advance g).calls + (k - g.length)) := by
        simp only [FWriter.advance]; rw [hf]; congr 1; omega
      rw [ih (w.advance g) _ (k - g.length) hf2 hd (by simp only [totalCalls_cons] at hk; omega)]
      simp only [callsOf_cons, RunOut.mk.injEq, true_and]
      refine ⟨by omega, ?_⟩
      have ht : List.take k (g ++ callsOf r) = g ++ List.take (k - g.length) (callsOf r) := by
        rw [List.take_append]
        rw [List.take_of_length_le (by omega)]
      simp only [FWriter.stopAt, FWriter.advance, ht, List.flatten_append, List.append_assoc, FWriter.mk.injEq,
        and_true, true_and]
      omega

/-- what is credited never exceeds what the writer accepted before the failure -/
theorem creditedAt_le (prog : Program) : ∀ k, creditedAt prog k ≤ ((callsOf prog).take k).flatten.length := by
  induction prog with
  | nil => intro k; simp [creditedAt]
  | cons g r ih =>
    intro k
    unfold creditedAt
    by_cases hkg : k < g.length
    · rw [if_pos hkg]; exact Nat.zero_le _
    · rw [if_neg hkg]
      have ht : List.take k (callsOf (g :: r)) = g ++ List.take (k - g.length) (callsOf r) := by
        rw [callsOf_cons, List.take_append]
        rw [List.take_of_length_le (by omega)]
      rw [ht, List.flatten_append, List.length_append]
      have := ih (k - g.length)
      omega

theorem take_flatten_prefix (cs : List Bytes) (k : Nat) : (cs.take k).flatten <+: cs.flatten := by
  refine ⟨(cs.drop k).flatten, ?_⟩
  rw [← List.flatten_append, List.take_append_drop]

/-! ## a muxer call under the failing writer -/

/-- what the caller and the writer see -/
structure FaultOut where
  n : Int
  err : Option Err
  panic : Bool
  w : FWriter
  deriving Repr

/-- the `Write` calls of the fault-free call are issued one after the other; the first one that fails decides the
result (`err` = an error wrapping the writer's, `n` = the count reached before the failing group); when none fails the
call ends as in the fault-free model (which may be an error of its own, behind some chunks) -/
def underFault (o : MuxOut) (prog : Program) (w : FWriter) : FaultOut :=
  let r := runProgram w 0 prog
  if r.failed then { n := r.n, err := some .io, panic := false, w := r.w }
  else { n := o.n, err := o.err, panic := o.panic, w := r.w }

theorem underFault_of_failed {o : MuxOut} {prog : Program} {w w' : FWriter} {n : Nat}
    (h : runProgram w 0 prog = ⟨n, true, w'⟩) : underFault o prog w = ⟨n, some .io, false, w'⟩ := by
  unfold underFault; rw [h]; rfl

theorem underFault_of_ok {o : MuxOut} {prog : Program} {w w' : FWriter} {n : Nat}
    (h : runProgram w 0 prog = ⟨n, false, w'⟩) : underFault o prog w = ⟨o.n, o.err, o.panic, w'⟩ := by
  unfold underFault; rw [h]; rfl

/-- **fault inside the call**: for every `k` below the number of `Write` calls of the call and BOTH modes (`w.once`
is arbitrary): the call returns the injected error, does not panic, returns a count that does not exceed what the
writer accepted, and what the writer accepted is a prefix of the fault-free output (exactly the first `k` calls); a
permanently failing writer is left in a state that accepts nothing more -/
theorem underFault_hit (o : MuxOut) (prog : Program) (w : FWriter) (k : Nat) (hb : bytesOf prog = o.chunks.flatten)
    (hf : w.failAt = some (w.calls + k)) (hd : w.done = false) (hk : k < totalCalls prog) :
    (underFault o prog w).err = some .io ∧ (underFault o prog w).panic = false ∧
    (underFault o prog w).n = (creditedAt prog k : Nat) ∧
    (underFault o prog w).n ≤ (((underFault o prog w).w.buf.length - w.buf.length : Nat) : Int) ∧
    (underFault o prog w).w.buf = w.buf ++ ((callsOf prog).take k).flatten ∧
    ((callsOf prog).take k).flatten <+: o.chunks.flatten ∧
    (underFault o prog w).w.calls = w.calls + k + 1 ∧ (underFault o prog w).w.done = w.once ∧
    (w.once = false → (underFault o prog w).w.stuck) := by
  have hr := runProgram_hit prog w 0 k hf hd hk
  rw [Nat.zero_add] at hr
  rw [underFault_of_failed hr]
  refine ⟨rfl, rfl, rfl, ?_, rfl, ?_, rfl, rfl, ?_⟩
  · have := creditedAt_le prog k
    simp only [FWriter.stopAt, List.length_append, Nat.add_sub_cancel_left]
    exact Int.ofNat_le.mpr this
  · rw [← hb]; exact take_flatten_prefix _ _
  · intro ho
    exact ⟨w.calls + k, hf, by simp only [FWriter.stopAt]; omega, by simp only [FWriter.stopAt]; exact ho, ho⟩

/-- **fault beyond the call** (or no fault armed, or a one-shot fault already spent): the call ends exactly as in the
fault-free model and the writer has accepted all its chunks -/
theorem underFault_safe (o : MuxOut) (prog : Program) (w : FWriter) (hb : bytesOf prog = o.chunks.flatten)
    (hs : w.safeFor (totalCalls prog)) :
    (underFault o prog w).n = o.n ∧ (underFault o prog w).err = o.err ∧ (underFault o prog w).panic = o.panic ∧
    (underFault o prog w).w.buf = w.buf ++ o.chunks.flatten ∧
    (underFault o prog w).w.calls = w.calls + totalCalls prog := by
  have hr := runProgram_safe prog w 0 hs
  rw [underFault_of_ok hr]
  refine ⟨rfl, rfl, rfl, ?_, rfl⟩
  simp only [FWriter.advance]
  rw [← hb]; rfl

theorem safeFor_of_beyond (w : FWriter) (N k : Nat) (hf : w.failAt = some (w.calls + k)) (hk : N ≤ k) : w.safeFor N := by
  intro f hf'
  rw [hf] at hf'
  simp only [Option.some.injEq] at hf'
  exact Or.inr (by omega)

theorem safeFor_of_none (w : FWriter) (N : Nat) (hf : w.failAt = none) : w.safeFor N := by
  intro f hf'; rw [hf] at hf'; cases hf'

/-! ## the `Write` calls of the three calls -/

/-- one `Write` per byte -/
def perByte (bs : Bytes) : List Bytes := bs.map fun b => [b]
/-- one `Write` for an aligned `[]byte` (none for an empty one) -/
def one (bs : Bytes) : List Bytes := if bs.isEmpty then [] else [bs]

theorem perByte_flatten (bs : Bytes) : (perByte bs).flatten = bs := by
  induction bs with
  | nil => rfl
  | cons b r ih => simp only [perByte, List.map_cons, List.flatten_cons] at ih ⊢; rw [ih]; rfl

theorem perByte_length (bs : Bytes) : (perByte bs).length = bs.length := by simp [perByte]

theorem one_flatten (bs : Bytes) : (one bs).flatten = bs := by
  unfold one
  cases bs with
  | nil => rfl
  | cons b r => simp

/-- bytes `[0, a)` one by one, `[a, a + n)` in one call, then one by one up to the last `pl` bytes, which are one call -/
def cutCalls (bs : Bytes) (a n pl : Nat) : List Bytes :=
  perByte (bs.take a) ++ one ((bs.drop a).take n) ++
    perByte (((bs.drop a).drop n).take (((bs.drop a).drop n).length - pl)) ++
    one (((bs.drop a).drop n).drop (((bs.drop a).drop n).length - pl))

theorem cutCalls_flatten (bs : Bytes) (a n pl : Nat) : (cutCalls bs a n pl).flatten = bs := by
  unfold cutCalls
  simp only [List.flatten_append, perByte_flatten, one_flatten, List.append_assoc, List.take_append_drop]

/-- offset of the transport private data inside a packet whose adaptation field is `a` -/
def privOffOf (a : PacketAdaptationField) : Nat :=
  4 + 2 + (if a.hasPCR then 6 else 0) + (if a.hasOPCR then 6 else 0) + (if a.hasSplicingCountdown then 1 else 0) + 1

/-- the `Write` calls of one packet of `WriteData`, located as the test driver does (`writeCallsOfPacket` in
`Astits/Driver/MuxProps.lean`): one per byte, except the transport private data and the payload -/
def dataPacketCalls (bs : Bytes) : Group :=
  match (parsePacket none).val bs with
  | .ok p =>
    cutCalls bs (match p.adaptationField with | some a => privOffOf a | none => 4)
      (match p.adaptationField with | some a => a.transportPrivateData.length | none => 0) p.payload.length
  | _ => perByte bs

theorem dataPacketCalls_flatten (bs : Bytes) : (dataPacketCalls bs).flatten = bs := by
  unfold dataPacketCalls
  split
  · exact cutCalls_flatten _ _ _ _
  · exact perByte_flatten _

/-- tables: one `Write` per table, each checked on its own -/
def tablesProgram (cs : List Bytes) : Program := cs.map fun c => [c]

theorem tablesProgram_bytes (cs : List Bytes) : bytesOf (tablesProgram cs) = cs.flatten := by
  induction cs with
  | nil => rfl
  | cons c r ih => simp only [tablesProgram, List.map_cons, bytesOf_cons] at ih ⊢; rw [ih]; simp

theorem tablesProgram_calls (cs : List Bytes) : totalCalls (tablesProgram cs) = cs.length := by
  induction cs with
  | nil => rfl
  | cons c r ih => simp only [tablesProgram, List.map_cons, totalCalls_cons] at ih ⊢; rw [ih]; simp; omega

/-- `WriteData`: the tables that are due (one group each), then one group per packet -/
def dataProgram (nt : Nat) (chunks : List Bytes) : Program :=
  tablesProgram (chunks.take nt) ++ (chunks.drop nt).map dataPacketCalls

theorem bytesOf_append (p q : Program) : bytesOf (p ++ q) = bytesOf p ++ bytesOf q := by
  simp [bytesOf, callsOf]

theorem packets_bytes (cs : List Bytes) : bytesOf (cs.map dataPacketCalls) = cs.flatten := by
  induction cs with
  | nil => rfl
  | cons c r ih => simp only [List.map_cons, bytesOf_cons, List.flatten_cons, dataPacketCalls_flatten, ih]

theorem dataProgram_bytes (nt : Nat) (chunks : List Bytes) : bytesOf (dataProgram nt chunks) = chunks.flatten := by
  unfold dataProgram
  rw [bytesOf_append, tablesProgram_bytes, packets_bytes, ← List.flatten_append, List.take_append_drop]

/-- `WritePacket`: the groups of `writePacket` — sync byte; header batch; adaptation field; payload; every trailing
stuffing byte on its own -/
def packetGroups (p : Packet) (bs : Bytes) : Program :=
  let a := p.adaptationField.getD default
  let afLen := if p.header.hasAdaptationField then (afBytes a).length else 0
  let priv := if !a.isOneByteStuffing && a.hasTransportPrivateData then a.transportPrivateData.length else 0
  let plLen := if p.header.hasPayload then p.payload.length else 0
  [one (bs.take 1), perByte ((bs.drop 1).take 3),
   cutCalls (((bs.drop 1).drop 3).take afLen) (privOffOf a - 4) priv 0,
   one ((((bs.drop 1).drop 3).drop afLen).take plLen)]
  ++ ((((bs.drop 1).drop 3).drop afLen).drop plLen).map fun b => [[b]]

theorem stuffing_bytes (bs : Bytes) : bytesOf (bs.map fun b => [[b]]) = bs := by
  induction bs with
  | nil => rfl
  | cons b r ih => simp only [List.map_cons, bytesOf_cons, ih]; rfl

theorem packetGroups_bytes (p : Packet) (bs : Bytes) : bytesOf (packetGroups p bs) = bs := by
  unfold packetGroups
  simp only [bytesOf_append, bytesOf_cons, bytesOf_nil, one_flatten, perByte_flatten, cutCalls_flatten, stuffing_bytes,
    List.append_nil, List.append_assoc, List.take_append_drop]

def packetProgram (p : Packet) (chunks : List Bytes) : Program :=
  match chunks with
  | [bs] => packetGroups p bs
  | cs => tablesProgram cs

theorem packetProgram_bytes (p : Packet) (chunks : List Bytes) : bytesOf (packetProgram p chunks) = chunks.flatten := by
  unfold packetProgram
  split
  · rw [packetGroups_bytes]; simp
  · exact tablesProgram_bytes _

end Astits.WriterFault

namespace Astits
open WriterFault

/-- number of table chunks at the head of `WriteData`'s output -/
def Mux.tableChunks (m : Mux) (d : MuxerData) : Nat :=
  match m.retransmitTables ((d.adaptationField.map (·.randomAccessIndicator)).getD false && d.pid == m.pcrPID) with
  | (.ok cs, _) => cs.length
  | _ => 0

def Mux.tablesProg (m : Mux) : Program := tablesProgram m.writeTablesCall.1.chunks
def Mux.dataProg (m : Mux) (d : MuxerData) : Program := dataProgram (m.tableChunks d) (m.writeData d).1.chunks
def Mux.packetProg (m : Mux) (p : Packet) : Program := packetProgram p (m.writePacketCall p).1.chunks

/-- `WriteTables` / `WriteData` / `WritePacket` on a failing writer -/
def Mux.writeTablesF (m : Mux) (w : FWriter) : FaultOut := underFault m.writeTablesCall.1 m.tablesProg w
def Mux.writeDataF (m : Mux) (d : MuxerData) (w : FWriter) : FaultOut := underFault (m.writeData d).1 (m.dataProg d) w
def Mux.writePacketF (m : Mux) (p : Packet) (w : FWriter) : FaultOut := underFault (m.writePacketCall p).1 (m.packetProg p) w

end Astits
