/-
C02 (PSI side) helper: exact characterisation of `isPSICompleteBytes` on the prefixes of a PSI unit
(pointer_field, filler, sections, 0xFF stuffing), and what the accumulator of a table PID does with the packets
of such a unit.
-/
import Astits.Model.Demux
import Astits.Proofs.Units
import Astits.Proofs.PSIRT
namespace Astits.PSIComplete

/-! ### a pure walker equal to `psiCompleteLoop` -/

/-- `psiCompleteLoop` on natural-number offsets; an iterator error is `false` -/
def walk : Nat → Bytes → Nat → Bool
  | 0, _, _ => false
  | f + 1, bs, o =>
    if o < bs.length then
      if shouldStopPSIParsing (bs.getD o 0) then true
      else if bs.length < o + 3 then false
      else walk f bs (o + 3 + ((bs.getD (o + 1) 0 % 16) * 256 + bs.getD (o + 2) 0))
    else decide (bs.length = o)

def toB : Res (Bool × It) → Bool
  | .ok (b, _) => b
  | _ => false

theorem bind_of_err {α β} {x : P α} {f : α → P β} {i : It} {e : Err} (h : x i = .err e) :
    (x >>= f) i = .err e := by
  rw [P.bind_run, h]

theorem nextByte_nat (bs : Bytes) (o : Nat) (h : o < bs.length) :
    It.nextByte ⟨bs, (o : Int)⟩ = .ok (bs.getD o 0, ⟨bs, ((o + 1 : Nat) : Int)⟩) := by
  have h1 : ¬ ((bs.length : Int) < (o : Int) + 1) := by omega
  have h2 : ¬ ((o : Int) < 0) := by omega
  simp only [It.nextByte, h1, h2, if_false, Int.toNat_natCast]
  rfl

theorem nextBytes2_err (bs : Bytes) (o : Nat) (h : bs.length < o + 2) :
    It.nextBytes 2 ⟨bs, (o : Int)⟩ = .err .other := by
  have h1 : (bs.length : Int) < (o : Int) + 2 := by omega
  simp only [It.nextBytes, h1, if_true]

theorem nextBytes2_nat (bs : Bytes) (o : Nat) (h : o + 2 ≤ bs.length) :
    It.nextBytes 2 ⟨bs, (o : Int)⟩ = .ok ((bs.drop o).take 2, ⟨bs, ((o + 2 : Nat) : Int)⟩) := by
  have h1 : ¬ (bs.length : Int) < (o : Int) + 2 := by omega
  have h2 : ¬ ((2 : Int) < 0 ∨ (o : Int) < 0) := by omega
  simp only [It.nextBytes, h1, h2, if_false, Int.toNat_natCast]
  rfl

theorem take2_getD0 (bs : Bytes) (o : Nat) : ((bs.drop o).take 2).getD 0 0 = bs.getD o 0 := by
  simp only [List.getD_eq_getElem?_getD, List.getElem?_take, List.getElem?_drop]
  simp

theorem take2_getD1 (bs : Bytes) (o : Nat) : ((bs.drop o).take 2).getD 1 0 = bs.getD (o + 1) 0 := by
  simp only [List.getD_eq_getElem?_getD, List.getElem?_take, List.getElem?_drop]
  simp

theorem len_off_run (i : It) : (do let l ← It.len; let o ← It.offset; pure (decide (l ≥ o)) : P Bool) i
    = .ok (decide ((i.bs.length : Int) ≥ i.off), i) := rfl

theorem loop_eq_walk (f : Nat) (bs : Bytes) (o : Nat) :
    toB (psiCompleteLoop f ⟨bs, (o : Int)⟩) = walk f bs o := by
  induction f generalizing o with
  | zero => rfl
  | succ f ih =>
    unfold psiCompleteLoop walk
    rw [PSIRT.P.bind_of_ok (PSIRT.hasBytesLeft_run _)]
    by_cases h : o < bs.length
    · have h' : (o : Int) < (bs.length : Int) := by omega
      simp only [h, h', decide_true, if_true]
      rw [PSIRT.P.bind_of_ok (nextByte_nat bs o h)]
      by_cases hs : shouldStopPSIParsing (bs.getD o 0) = true
      · simp only [hs, if_true, len_off_run, toB]
        simp; omega
      · simp only [hs, Bool.false_eq_true, if_false]
        by_cases h3 : bs.length < o + 3
        · rw [bind_of_err (nextBytes2_err bs (o + 1) (by omega))]
          simp only [h3, if_true, toB]
        · rw [PSIRT.P.bind_of_ok (nextBytes2_nat bs (o + 1) (by omega))]
          simp only [h3, if_false, take2_getD0, take2_getD1]
          have hsk : ∀ n : Nat, It.skip (n : Int) ⟨bs, ((o + 1 + 2 : Nat) : Int)⟩ = .ok ((), ⟨bs, ((o + 3 + n : Nat) : Int)⟩) := by
            intro n
            simp only [It.skip]
            congr 3
            all_goals omega
          rw [PSIRT.P.bind_of_ok (hsk _)]
          exact ih _
    · have h' : ¬ (o : Int) < (bs.length : Int) := by omega
      simp only [h, h', decide_false, Bool.false_eq_true, if_false, len_off_run, toB]
      simp; omega

/-- `isPSICompleteBytes` in terms of the pure walker -/
def completeNat (bs : Bytes) : Bool :=
  if bs.length < 1 then false
  else if 1 + bs.getD 0 0 < bs.length then walk (bs.length + 1) bs (1 + bs.getD 0 0) else false

theorem nextByte_zero (b : Nat) (r : Bytes) : It.nextByte ⟨b :: r, 0⟩ = .ok (b, ⟨b :: r, 1⟩) := by
  simp [It.nextByte]
  omega

def toB' : Res Bool → Bool
  | .ok b => b
  | _ => false

theorem isPSICompleteBytes_eq (bs : Bytes) : isPSICompleteBytes bs = toB' ((do
    let b ← It.nextByte
    It.skip b
    let more ← It.hasBytesLeft
    if !more then pure false
    else psiCompleteLoop (bs.length + 1) : P Bool).val bs) := by
  unfold isPSICompleteBytes
  simp only
  split <;> simp_all [toB']

theorem toB'_val (p : P Bool) (bs : Bytes) : toB' (p.val bs) = toB (p ⟨bs, 0⟩) := by
  unfold P.val
  cases p ⟨bs, 0⟩ with
  | ok r => rfl
  | err e => rfl
  | panic => rfl

theorem complete_eq (bs : Bytes) : isPSICompleteBytes bs = completeNat bs := by
  rw [isPSICompleteBytes_eq, toB'_val]
  cases bs with
  | nil => rfl
  | cons b r =>
    rw [PSIRT.P.bind_of_ok (nextByte_zero b r)]
    have hs : It.skip (b : Int) ⟨b :: r, 1⟩ = .ok ((), ⟨b :: r, ((1 + b : Nat) : Int)⟩) := by
      simp [It.skip]
    rw [PSIRT.P.bind_of_ok hs, PSIRT.P.bind_of_ok (PSIRT.hasBytesLeft_run _)]
    unfold completeNat
    simp only [List.length_cons, List.getD_cons_zero]
    have h0 : ¬ (r.length + 1 < 1) := by omega
    simp only [h0, if_false]
    by_cases h1 : 1 + b < r.length + 1
    · have h1' : ((1 + b : Nat) : Int) < ((r.length + 1 : Nat) : Int) := by omega
      simp only [h1, h1', decide_true, Bool.not_true, Bool.false_eq_true, if_false, if_true]
      exact loop_eq_walk _ _ _
    · have h1' : ¬ ((1 + b : Nat) : Int) < ((r.length + 1 : Nat) : Int) := by omega
      simp only [h1, h1', decide_false, Bool.not_false, if_true, if_false, P.pure_run, toB]

/-! ### the walker on the prefixes of a unit -/

/-- a section image: 3-byte header whose table id does not stop the parsing and whose 12-bit section_length is the
number of bytes that follow -/
def SecImage (sec : Bytes) : Prop :=
  ∃ t x y body, sec = t :: x :: y :: body ∧ shouldStopPSIParsing t = false ∧ (x % 16) * 256 + y = body.length

theorem SecImage.length_ge {sec : Bytes} (h : SecImage sec) : 3 ≤ sec.length := by
  obtain ⟨t, x, y, body, rfl, _, _⟩ := h
  simp

/-- the offsets at which the sections end, the first one starting at `o` -/
def bounds (o : Nat) : List Bytes → List Nat
  | [] => []
  | s :: r => (o + s.length) :: bounds (o + s.length) r

theorem getD_take_lt (l : Bytes) (n i : Nat) (h : i < n) : (l.take n).getD i 0 = l.getD i 0 := by
  simp [List.getD_eq_getElem?_getD, List.getElem?_take, h]

theorem getD_pre0 (pre : Bytes) (a : Nat) (r : Bytes) : (pre ++ a :: r).getD pre.length 0 = a := by
  simp [List.getD_eq_getElem?_getD]

theorem getD_pre1 (pre : Bytes) (a b : Nat) (r : Bytes) : (pre ++ a :: b :: r).getD (pre.length + 1) 0 = b := by
  simp [List.getD_eq_getElem?_getD, List.getElem?_append_right]

theorem getD_pre2 (pre : Bytes) (a b c : Nat) (r : Bytes) : (pre ++ a :: b :: c :: r).getD (pre.length + 2) 0 = c := by
  simp [List.getD_eq_getElem?_getD, List.getElem?_append_right]

theorem mem_bounds_gt (o : Nat) (secs : List Bytes) (hs : ∀ s ∈ secs, SecImage s) (n : Nat) (h : n ∈ bounds o secs) :
    o + 3 ≤ n := by
  induction secs generalizing o with
  | nil => cases h
  | cons s r ih =>
    have h3 := (hs s (by simp)).length_ge
    rcases List.mem_cons.mp h with rfl | h'
    · omega
    · have := ih (o + s.length) (fun x hx => hs x (by simp [hx])) h'
      omega

theorem walk_prefix (secs : List Bytes) (pre stuffing : Bytes) (n f : Nat)
    (hs : ∀ s ∈ secs, SecImage s) (hst : ∀ b ∈ stuffing.head?, shouldStopPSIParsing b = true)
    (h1 : pre.length < n) (h2 : n ≤ (pre ++ (secs.flatten ++ stuffing)).length) (hf : n < pre.length + f) :
    walk f ((pre ++ (secs.flatten ++ stuffing)).take n) pre.length = true ↔
      (pre.length + secs.flatten.length ≤ n ∨ n ∈ bounds pre.length secs) := by
  induction secs generalizing pre f with
  | nil =>
    cases f with
    | zero => omega
    | succ f =>
      unfold walk
      have hl : ((pre ++ (([] : List Bytes).flatten ++ stuffing)).take n).length = n := by
        rw [List.length_take]; omega
      simp only [hl, h1, if_true]
      cases stuffing with
      | nil => simp at h2; omega
      | cons b r =>
        have hb : shouldStopPSIParsing b = true := hst b (by simp)
        rw [getD_take_lt _ _ _ h1]
        simp only [List.flatten_nil, List.nil_append, getD_pre0, hb, if_true, List.length_nil, bounds]
        simp; omega
  | cons s r ih =>
    obtain ⟨t, x, y, body, rfl, hstop, hlen⟩ := hs _ (List.mem_cons_self)
    have hr : ∀ s ∈ r, SecImage s := fun s h => hs s (List.mem_cons_of_mem _ h)
    cases f with
    | zero => omega
    | succ f =>
      unfold walk
      have hl : ((pre ++ ((((t :: x :: y :: body) :: r) : List Bytes).flatten ++ stuffing)).take n).length = n := by
        rw [List.length_take]; omega
      have hfull : pre ++ ((((t :: x :: y :: body) :: r) : List Bytes).flatten ++ stuffing)
          = pre ++ t :: x :: y :: (body ++ (r.flatten ++ stuffing)) := by simp
      simp only [hl, h1, if_true]
      rw [getD_take_lt _ _ _ h1]
      rw [hfull, getD_pre0]
      simp only [hstop, Bool.false_eq_true, if_false]
      by_cases h3 : n < pre.length + 3
      · simp only [h3, if_true, Bool.false_eq_true, false_iff, not_or]
        constructor
        · simp; omega
        · intro hm
          have := mem_bounds_gt pre.length _ hs n hm
          omega
      · simp only [h3, if_false]
        rw [getD_take_lt _ _ _ (by omega : pre.length + 1 < n), getD_take_lt _ _ _ (by omega : pre.length + 2 < n),
          getD_pre1, getD_pre2, hlen]
        obtain ⟨pre', hp'⟩ : ∃ pre', pre' = pre ++ t :: x :: y :: body := ⟨_, rfl⟩
        have hlen' : pre'.length = pre.length + 3 + body.length := by rw [hp']; simp; omega
        have efull : pre ++ t :: x :: y :: (body ++ (r.flatten ++ stuffing))
            = pre' ++ (r.flatten ++ stuffing) := by rw [hp']; simp
        have hsl : (t :: x :: y :: body).length = 3 + body.length := by simp; omega
        rw [← hlen', efull]
        simp only [bounds, List.mem_cons, List.flatten_cons, List.length_append, hsl]
        have h2' : n ≤ (pre' ++ (r.flatten ++ stuffing)).length := by rw [← efull, ← hfull]; exact h2
        have eb : pre.length + (3 + body.length) = pre'.length := by omega
        rw [eb]
        by_cases h4 : pre'.length < n
        · rw [ih pre' f hr h4 h2' (by omega)]
          constructor
          · rintro (h | h)
            · left; omega
            · right; right; exact h
          · rintro (h | h | h)
            · left; omega
            · omega
            · right; exact h
        · -- the jump lands at or beyond the end of the available bytes
          cases f with
          | zero => omega
          | succ f =>
            unfold walk
            have hl2 : ((pre' ++ (r.flatten ++ stuffing)).take n).length = n := by
              rw [List.length_take]; omega
            simp only [hl2, h4, if_false, decide_eq_true_eq]
            constructor
            · intro h; right; left; omega
            · rintro (h | h | h)
              · omega
              · omega
              · have := mem_bounds_gt _ r hr n h
                omega

theorem mem_bounds_iff (o : Nat) (secs : List Bytes) (n : Nat) :
    n ∈ bounds o secs ↔ ∃ k, 0 < k ∧ k ≤ secs.length ∧ n = o + (secs.take k).flatten.length := by
  induction secs generalizing o with
  | nil => simp [bounds]; intro k hk hk0; omega
  | cons s r ih =>
    simp only [bounds, List.mem_cons, ih, List.length_cons]
    constructor
    · rintro (h | ⟨k, hk, hkr, h⟩)
      · exact ⟨1, by omega, by omega, by simp [h]⟩
      · exact ⟨k + 1, by omega, by omega, by simp [h]; omega⟩
    · rintro ⟨k, hk, hkr, h⟩
      cases k with
      | zero => omega
      | succ k =>
        cases k with
        | zero => left; simp at h; exact h
        | succ k => right; exact ⟨k + 1, by omega, by omega, by simp at h ⊢; omega⟩

theorem flatten_length_pos (secs : List Bytes) (hs : ∀ s ∈ secs, SecImage s) (hne : secs ≠ []) :
    3 ≤ secs.flatten.length := by
  cases secs with
  | nil => exact absurd rfl hne
  | cons s r => have := (hs s (by simp)).length_ge; simp; omega

theorem take_flatten_le (secs : List Bytes) (k : Nat) : (secs.take k).flatten.length ≤ secs.flatten.length := by
  have : secs.flatten = (secs.take k).flatten ++ (secs.drop k).flatten := by
    rw [← List.flatten_append, List.take_append_drop]
  rw [this, List.length_append]
  omega

theorem take_flatten_pos (secs : List Bytes) (hs : ∀ s ∈ secs, SecImage s) (hne : secs ≠ []) (k : Nat) (hk : 0 < k) :
    3 ≤ (secs.take k).flatten.length := by
  apply flatten_length_pos
  · intro s h; exact hs s (List.mem_of_mem_take h)
  · cases secs with
    | nil => exact absurd rfl hne
    | cons a r => cases k with
      | zero => omega
      | succ k => simp

/-- the last boundary is the end of the sections -/
theorem take_all_flatten (secs : List Bytes) (k : Nat) (h : secs.length ≤ k) : (secs.take k).flatten = secs.flatten := by
  rw [List.take_of_length_le h]

/-- **E1, for `n` within the unit** -/
theorem complete_iff_le (ptr : Nat) (filler stuffing : Bytes) (secs : List Bytes) (hfl : filler.length = ptr)
    (hs : ∀ s ∈ secs, SecImage s) (hne : secs ≠ []) (hst : ∀ b ∈ stuffing.head?, shouldStopPSIParsing b = true)
    (n : Nat) (hn : n ≤ ([ptr] ++ filler ++ secs.flatten ++ stuffing).length) :
    isPSICompleteBytes (([ptr] ++ filler ++ secs.flatten ++ stuffing).take n) = true ↔
      (1 + ptr + secs.flatten.length ≤ n ∨
        ∃ k, 0 < k ∧ k < secs.length ∧ n = 1 + ptr + (secs.take k).flatten.length) := by
  have h3 := flatten_length_pos secs hs hne
  have eu : [ptr] ++ filler ++ secs.flatten ++ stuffing = (ptr :: filler) ++ (secs.flatten ++ stuffing) := by simp
  have hpl : (ptr :: filler).length = 1 + ptr := by simp; omega
  have hrhs : (1 + ptr + secs.flatten.length ≤ n ∨ n ∈ bounds (1 + ptr) secs) ↔
      (1 + ptr + secs.flatten.length ≤ n ∨
        ∃ k, 0 < k ∧ k < secs.length ∧ n = 1 + ptr + (secs.take k).flatten.length) := by
    rw [mem_bounds_iff]
    constructor
    · rintro (h | ⟨k, hk, hkl, h⟩)
      · left; exact h
      · by_cases hk2 : k < secs.length
        · right; exact ⟨k, hk, hk2, h⟩
        · left; rw [take_all_flatten _ _ (by omega)] at h; omega
    · rintro (h | ⟨k, hk, hkl, h⟩)
      · left; exact h
      · right; exact ⟨k, hk, by omega, h⟩
  rw [complete_eq]
  rw [eu] at hn ⊢
  unfold completeNat
  have hl : (((ptr :: filler) ++ (secs.flatten ++ stuffing)).take n).length = n := by
    rw [List.length_take]; omega
  rw [hl]
  by_cases h0 : n < 1
  · simp only [h0, if_true, Bool.false_eq_true, false_iff, not_or, not_exists, not_and]
    constructor
    · omega
    · intro k _ _; omega
  · simp only [h0, if_false]
    have hg : (((ptr :: filler) ++ (secs.flatten ++ stuffing)).take n).getD 0 0 = ptr := by
      rw [getD_take_lt _ _ _ (by omega)]; rfl
    rw [hg]
    by_cases h1 : 1 + ptr < n
    · simp only [h1, if_true]
      rw [← hpl, walk_prefix secs (ptr :: filler) stuffing n (n + 1) hs hst (by omega) hn (by omega), hpl]
      exact hrhs
    · simp only [h1, if_false, Bool.false_eq_true, false_iff, not_or, not_exists, not_and]
      constructor
      · omega
      · intro k hk _ h
        have := take_flatten_pos secs hs hne k hk
        omega

/-- **E1 (`complete_iff`)**: the exact set of prefix lengths of a PSI unit at which the completeness test answers
true: from the last byte of the last section on — and at the offsets where an inner section ends exactly at the end
of the bytes available -/
theorem complete_iff (ptr : Nat) (filler stuffing : Bytes) (secs : List Bytes) (hfl : filler.length = ptr)
    (hs : ∀ s ∈ secs, SecImage s) (hne : secs ≠ []) (hst : ∀ b ∈ stuffing, b = 0xff) (n : Nat) :
    isPSICompleteBytes (([ptr] ++ filler ++ secs.flatten ++ stuffing).take n) = true ↔
      (1 + ptr + secs.flatten.length ≤ n ∨
        ∃ k, 0 < k ∧ k < secs.length ∧ n = 1 + ptr + (secs.take k).flatten.length) := by
  have hst' : ∀ b ∈ stuffing.head?, shouldStopPSIParsing b = true := by
    intro b hb
    have : b ∈ stuffing := List.mem_of_mem_head? hb
    rw [hst b this]; decide
  by_cases hn : n ≤ ([ptr] ++ filler ++ secs.flatten ++ stuffing).length
  · exact complete_iff_le ptr filler stuffing secs hfl hs hne hst' n hn
  · have ht : ([ptr] ++ filler ++ secs.flatten ++ stuffing).take n
        = ([ptr] ++ filler ++ secs.flatten ++ stuffing).take ([ptr] ++ filler ++ secs.flatten ++ stuffing).length := by
      rw [List.take_of_length_le (by omega), List.take_length]
    rw [ht, complete_iff_le ptr filler stuffing secs hfl hs hne hst' _ (Nat.le_refl _)]
    have hlen : ([ptr] ++ filler ++ secs.flatten ++ stuffing).length = 1 + ptr + secs.flatten.length + stuffing.length := by
      simp; omega
    have hle := fun k => take_flatten_le secs k
    constructor
    · rintro (h | ⟨k, hk, hkl, h⟩)
      · left; omega
      · left; omega
    · rintro (h | ⟨k, hk, hkl, h⟩)
      · left; omega
      · have := hle k; omega

/-! ### stuffing-only payloads -/

theorem getD_all_ff (l : Bytes) (h : ∀ b ∈ l, b = 0xff) (i : Nat) (hi : i < l.length) : l.getD i 0 = 0xff := by
  rw [List.getD_eq_getElem?_getD, List.getElem?_eq_getElem hi]
  exact h _ (List.getElem_mem hi)

/-- bytes that are all 0xFF look like a complete unit exactly when there are more than 256 of them (the first one is
read as pointer_field 255, the byte at offset 256 as a stop table id) -/
theorem complete_all_ff (l : Bytes) (h : ∀ b ∈ l, b = 0xff) : isPSICompleteBytes l = decide (256 < l.length) := by
  rw [complete_eq]
  unfold completeNat
  by_cases h0 : l.length < 1
  · simp only [h0, if_true]
    have : ¬ 256 < l.length := by omega
    simp [this]
  · simp only [h0, if_false]
    rw [getD_all_ff l h 0 (by omega)]
    by_cases h1 : 256 < l.length
    · have : 1 + 255 < l.length := by omega
      simp only [this, if_true, h1, decide_true]
      unfold walk
      simp only [this, if_true, getD_all_ff l h (1 + 255) this]
      rfl
    · have : ¬ 1 + 255 < l.length := by omega
      simp [this, h1]

/-! ### E2: the accumulator of a table PID -/

theorem concatPayload_append (a b : List Packet) : concatPayload (a ++ b) = concatPayload a ++ concatPayload b := by
  simp [concatPayload]

/-- a continuation packet with the next counter on a table PID: appended, and everything is flushed at once if the
queue now looks complete -/
theorem accAdd_table_cont (pm : ProgramMap) (pid : Nat) (q : List Packet) (last p : Packet)
    (htab : (pid == 0 || pm.has pid) = true) (hl : last.header.continuityCounter < 16)
    (hp : PlainPayload p) (hpusi : p.header.payloadUnitStartIndicator = false)
    (hcc : p.header.continuityCounter = (last.header.continuityCounter + 1) % 16) :
    accAdd pm pid (q ++ [last]) p =
      if isPSIComplete (q ++ [last] ++ [p]) then (q ++ [last] ++ [p], []) else ([], q ++ [last] ++ [p]) := by
  obtain ⟨hpay, _, hdi, _⟩ := hp
  have hlast : lastCC (q ++ [last]) = some last.header.continuityCounter := lastCC_append q last
  have hsame : isSameAsPrevious (q ++ [last]) p = false := by
    simp only [isSameAsPrevious, hlast, hpay, Bool.true_and, beq_eq_false_iff_ne, ne_eq]
    rw [hcc]; exact succ_mod_ne _ hl
  have hdisc : hasDiscontinuity (q ++ [last]) p = false := by
    simp only [hasDiscontinuity, hdi, hlast, hpay, Bool.false_or, Bool.true_and, Bool.not_true, Bool.false_and, Bool.or_false]
    simp [hcc]
  unfold accAdd
  simp only [hsame, hdisc, hpusi, htab, Bool.false_and, Bool.false_eq_true, if_false, Bool.true_and]

/-- a continuation packet arriving at an empty queue of a table PID (what follows an early flush) -/
theorem accAdd_table_headless (pm : ProgramMap) (pid : Nat) (p : Packet)
    (htab : (pid == 0 || pm.has pid) = true) (hp : PlainPayload p) (hpusi : p.header.payloadUnitStartIndicator = false) :
    accAdd pm pid [] p = if isPSIComplete [p] then ([p], []) else ([], [p]) := by
  obtain ⟨hpay, _, hdi, _⟩ := hp
  unfold accAdd
  simp [isSameAsPrevious, hasDiscontinuity, lastCC, hdi, hpusi, htab]

/-- a unit start on a table PID: the previous queue is flushed — unless the new packet alone already looks complete:
then the new packet is what is flushed and the previous queue is dropped -/
theorem accAdd_table_start (pm : ProgramMap) (pid : Nat) (q : List Packet) (p : Packet)
    (htab : (pid == 0 || pm.has pid) = true) (hp : PlainPayload p) (hpusi : p.header.payloadUnitStartIndicator = true)
    (hq : QueueLeadsTo q p.header.continuityCounter) :
    accAdd pm pid q p = if isPSIComplete [p] then ([p], []) else (q, [p]) := by
  obtain ⟨hpay, _, hdi, _⟩ := hp
  rcases hq with rfl | ⟨q', last, rfl, hl, hcc⟩
  · unfold accAdd
    simp [isSameAsPrevious, hasDiscontinuity, lastCC, hdi, hpusi, htab]
  · have hlast : lastCC (q' ++ [last]) = some last.header.continuityCounter := lastCC_append q' last
    have hsame : isSameAsPrevious (q' ++ [last]) p = false := by
      simp only [isSameAsPrevious, hlast, hpay, Bool.true_and, beq_eq_false_iff_ne, ne_eq]
      rw [hcc]; exact succ_mod_ne _ hl
    have hdisc : hasDiscontinuity (q' ++ [last]) p = false := by
      simp only [hasDiscontinuity, hdi, hlast, hpay, Bool.false_or, Bool.true_and, Bool.not_true, Bool.false_and, Bool.or_false]
      simp [hcc]
    unfold accAdd
    simp [hsame, hdisc, hpusi, htab]

/-- continuation packets that never make the queue look complete are appended one by one -/
theorem accRun_table_incomplete (pm : ProgramMap) (pid : Nat) (g : List Packet) (last : Packet) (r : List Packet)
    (htab : (pid == 0 || pm.has pid) = true) (hl : last.header.continuityCounter < 16)
    (hc : Continues last.header.continuityCounter r)
    (hinc : ∀ i, i < r.length → isPSIComplete (g ++ [last] ++ r.take (i + 1)) = false) :
    accRun pm pid (g ++ [last]) r = (List.replicate r.length [], g ++ [last] ++ r) := by
  induction r generalizing g last with
  | nil => simp [accRun]
  | cons p r ih =>
    obtain ⟨hp, hpusi, hcc, hrest⟩ := hc
    have h0 : isPSIComplete (g ++ [last] ++ [p]) = false := by simpa using hinc 0 (by simp)
    have h1 := accAdd_table_cont pm pid g last p htab hl hp hpusi hcc
    rw [h0] at h1
    simp only [Bool.false_eq_true, if_false] at h1
    simp only [accRun, h1]
    have := ih (g ++ [last]) p hp.2.2.2 hrest (by
      intro i hi
      have := hinc (i + 1) (by simp; omega)
      simpa using this)
    rw [this]
    simp [List.replicate_succ]

/-- … and the packet that makes the queue look complete flushes all of it -/
theorem accRun_table_complete (pm : ProgramMap) (pid : Nat) (g : List Packet) (last : Packet) (a : List Packet) (pk : Packet)
    (htab : (pid == 0 || pm.has pid) = true) (hl : last.header.continuityCounter < 16)
    (hc : Continues last.header.continuityCounter (a ++ [pk]))
    (hinc : ∀ i, i < a.length → isPSIComplete (g ++ [last] ++ a.take (i + 1)) = false)
    (hcomp : isPSIComplete (g ++ [last] ++ a ++ [pk]) = true) :
    accRun pm pid (g ++ [last]) (a ++ [pk]) = (List.replicate a.length [] ++ [g ++ [last] ++ a ++ [pk]], []) := by
  induction a generalizing g last with
  | nil =>
    obtain ⟨hp, hpusi, hcc, _⟩ := hc
    have h1 := accAdd_table_cont pm pid g last pk htab hl hp hpusi hcc
    simp only [List.append_nil] at hcomp
    rw [hcomp] at h1
    simp only [if_true] at h1
    simp [accRun, h1]
  | cons p r ih =>
    obtain ⟨hp, hpusi, hcc, hrest⟩ := hc
    have h0 : isPSIComplete (g ++ [last] ++ [p]) = false := by simpa using hinc 0 (by simp)
    have h1 := accAdd_table_cont pm pid g last p htab hl hp hpusi hcc
    rw [h0] at h1
    simp only [Bool.false_eq_true, if_false] at h1
    simp only [List.cons_append, accRun, h1]
    have := ih (g ++ [last]) p hp.2.2.2 hrest (by
      intro i hi
      have := hinc (i + 1) (by simp; omega)
      simpa using this) (by simpa using hcomp)
    rw [this]
    simp [List.replicate_succ]

/-- the packets following an early flush (no unit start among them) pile up as long as they do not look complete -/
theorem accRun_table_headless (pm : ProgramMap) (pid : Nat) (b : List Packet)
    (htab : (pid == 0 || pm.has pid) = true) (hc : ∃ prev, Continues prev b)
    (hinc : ∀ i, i < b.length → isPSIComplete (b.take (i + 1)) = false) :
    accRun pm pid [] b = (List.replicate b.length [], b) := by
  cases b with
  | nil => simp [accRun]
  | cons p r =>
    obtain ⟨prev, hp, hpusi, hcc, hrest⟩ := hc
    have h0 : isPSIComplete [p] = false := by simpa using hinc 0 (by simp)
    have h1 := accAdd_table_headless pm pid p htab hp hpusi
    rw [h0] at h1
    simp only [Bool.false_eq_true, if_false] at h1
    simp only [accRun, h1]
    have := accRun_table_incomplete pm pid [] p r htab hp.2.2.2 hrest (by
      intro i hi
      have := hinc (i + 1) (by simp; omega)
      simpa using this)
    simp only [List.nil_append] at this
    rw [this]
    simp [List.replicate_succ]

theorem _root_.Astits.Continues.left {prev : Nat} {x y : List Packet} (h : Continues prev (x ++ y)) : Continues prev x := by
  induction x generalizing prev with
  | nil => trivial
  | cons p r ih =>
    obtain ⟨h1, h2, h3, h4⟩ := h
    exact ⟨h1, h2, h3, ih h4⟩

theorem _root_.Astits.Continues.right {prev : Nat} {x y : List Packet} (h : Continues prev (x ++ y)) : ∃ prev', Continues prev' y := by
  induction x generalizing prev with
  | nil => exact ⟨prev, h⟩
  | cons p r ih =>
    obtain ⟨_, _, _, h4⟩ := h
    exact ih h4

/-- the bytes of a PSI unit: pointer_field, filler, at least one section, 0xFF stuffing -/
structure UnitLayout (U : Bytes) (ptr : Nat) (filler : Bytes) (secs : List Bytes) (stuffing : Bytes) : Prop where
  eq : U = [ptr] ++ filler ++ secs.flatten ++ stuffing
  fill : filler.length = ptr
  images : ∀ s ∈ secs, SecImage s
  ne : secs ≠ []
  stuff : ∀ b ∈ stuffing, b = 0xff

/-- conformant cut points (ISO/IEC 13818-1 2.4.4.1: a packet in which a section starts carries a pointer_field):
none of the packet edges after the packets `a` is the start of the second or a later section -/
def ConformantCut (a : List Packet) (ptr : Nat) (secs : List Bytes) : Prop :=
  ∀ i, 0 < i → i ≤ a.length → ∀ j, 0 < j → j < secs.length →
    (concatPayload (a.take i)).length ≠ 1 + ptr + (secs.take j).flatten.length

theorem prefix_eq_take {α} (U x y : List α) (h : U = x ++ y) : x = U.take x.length := by
  rw [h, List.take_left]

theorem suffix_eq_drop {α} (x y x' y' : List α) (h : x ++ y = x' ++ y') (hl : x'.length ≤ x.length) :
    y = y'.drop (x.length - x'.length) := by
  have h1 : (x ++ y).drop x.length = y := List.drop_left
  rw [h, List.drop_append] at h1
  have : x'.drop x.length = [] := List.drop_of_length_le hl
  rw [this, List.nil_append] at h1
  exact h1.symm

/-- the completeness test on a group of leading packets of a unit, by E1 -/
theorem complete_group {U : Bytes} {ptr : Nat} {filler : Bytes} {secs : List Bytes} {stuffing : Bytes}
    (L : UnitLayout U ptr filler secs stuffing) (x y : List Packet) (h : U = concatPayload (x ++ y)) :
    isPSIComplete x = true ↔ (1 + ptr + secs.flatten.length ≤ (concatPayload x).length ∨
      ∃ k, 0 < k ∧ k < secs.length ∧ (concatPayload x).length = 1 + ptr + (secs.take k).flatten.length) := by
  rw [concatPayload_append] at h
  have := prefix_eq_take U _ _ h
  unfold isPSIComplete
  have hc := complete_iff ptr filler stuffing secs L.fill L.images L.ne L.stuff (concatPayload x).length
  rw [← L.eq, ← this] at hc
  exact hc

/-- the packets of a unit as far as the one carrying the last section byte: nothing but the previous queue (at the
unit start) is flushed before that packet, and that packet flushes the whole group; the queue is empty afterwards -/
theorem table_unit_run_head (pm : ProgramMap) (pid : Nat) (htab : (pid == 0 || pm.has pid) = true) (q : List Packet)
    (u : UnitPk) (hu : UnitOK u) (hq : QueueLeadsTo q u.first.header.continuityCounter)
    (a : List Packet) (pk : Packet) (b : List Packet) (hsplit : u.packets = a ++ [pk] ++ b)
    (ptr : Nat) (filler : Bytes) (secs : List Bytes) (stuffing : Bytes)
    (L : UnitLayout (concatPayload u.packets) ptr filler secs stuffing)
    (hbefore : (concatPayload a).length < 1 + ptr + secs.flatten.length)
    (hat : 1 + ptr + secs.flatten.length ≤ (concatPayload (a ++ [pk])).length)
    (hcut : ConformantCut a ptr secs) :
    accRun pm pid q (a ++ [pk]) =
      ((if a = [] then [] else q :: List.replicate (a.length - 1) []) ++ [a ++ [pk]], []) := by
  have hinc : ∀ i, 0 < i → i ≤ a.length → isPSIComplete (a.take i) = false := by
    intro i hi hia
    have hU : concatPayload u.packets = concatPayload (a.take i ++ (a.drop i ++ [pk] ++ b)) := by
      rw [hsplit]; congr 1
      conv => lhs; rw [← List.take_append_drop i a]
      simp only [List.append_assoc]
    have hlen : (concatPayload (a.take i)).length ≤ (concatPayload a).length := by
      conv => rhs; rw [← List.take_append_drop i a, concatPayload_append]
      simp
    cases hc : isPSIComplete (a.take i) with
    | false => rfl
    | true =>
      rcases (complete_group L _ _ hU).mp hc with h | ⟨k, hk, hkl, h⟩
      · omega
      · exact absurd h (hcut i hi hia k hk hkl)
  have hcomp : isPSIComplete (a ++ [pk]) = true := by
    have hU : concatPayload u.packets = concatPayload ((a ++ [pk]) ++ b) := by rw [hsplit]
    exact (complete_group L _ _ hU).mpr (Or.inl hat)
  obtain ⟨hp, hpusi, hc⟩ := hu
  cases a with
  | nil =>
    have e : u.first = pk ∧ u.rest = b := by
      simp only [UnitPk.packets, List.nil_append, List.singleton_append, List.cons.injEq] at hsplit
      exact hsplit
    obtain ⟨e1, e2⟩ := e
    have h1 := accAdd_table_start pm pid q u.first htab hp hpusi hq
    rw [e1] at h1
    have hc1 : isPSIComplete [pk] = true := by simpa using hcomp
    rw [hc1] at h1
    simp only [if_true] at h1
    simp [accRun, h1]
  | cons p a' =>
    have e : u.first = p ∧ u.rest = a' ++ [pk] ++ b := by
      simp only [UnitPk.packets, List.cons_append, List.cons.injEq] at hsplit
      simpa using hsplit
    obtain ⟨e1, e2⟩ := e
    have h1 := accAdd_table_start pm pid q u.first htab hp hpusi hq
    rw [e1] at h1
    have hc1 : isPSIComplete [p] = false := by simpa using hinc 1 (by omega) (by simp)
    rw [hc1] at h1
    simp only [Bool.false_eq_true, if_false] at h1
    rw [e1, e2] at hc
    have h2 := accRun_table_complete pm pid [] p a' pk htab (e1 ▸ hp.2.2.2) hc.left (by
      intro i hi
      have := hinc (i + 2) (by omega) (by simp; omega)
      simpa using this) (by simpa using hcomp)
    simp only [List.nil_append] at h2
    simp only [List.cons_append, accRun, h1, h2]
    simp

/-- the stuffing-only packets after it pile up as a headless group (no more than 256 bytes of them) -/
theorem table_unit_run_tail (pm : ProgramMap) (pid : Nat) (htab : (pid == 0 || pm.has pid) = true)
    (u : UnitPk) (hu : UnitOK u)
    (a : List Packet) (pk : Packet) (b : List Packet) (hsplit : u.packets = a ++ [pk] ++ b)
    (ptr : Nat) (filler : Bytes) (secs : List Bytes) (stuffing : Bytes)
    (L : UnitLayout (concatPayload u.packets) ptr filler secs stuffing)
    (hat : 1 + ptr + secs.flatten.length ≤ (concatPayload (a ++ [pk])).length) :
    (∀ x ∈ concatPayload b, x = 0xff) ∧
    ((concatPayload b).length ≤ 256 → accRun pm pid [] b = (List.replicate b.length [], b)) := by
  have hb : concatPayload b = stuffing.drop ((concatPayload (a ++ [pk])).length - ([ptr] ++ filler ++ secs.flatten).length) := by
    apply suffix_eq_drop (concatPayload (a ++ [pk])) _ ([ptr] ++ filler ++ secs.flatten)
    · rw [← concatPayload_append, ← hsplit, L.eq]
    · have := L.fill; simp at hat ⊢; omega
  have hbff : ∀ x ∈ concatPayload b, x = 0xff := by
    intro x hx; rw [hb] at hx; exact L.stuff x (List.mem_of_mem_drop hx)
  refine ⟨hbff, fun htail => ?_⟩
  have htl : ∀ i, i < b.length → isPSIComplete (b.take (i + 1)) = false := by
    intro i _
    have hsplitb : concatPayload b = concatPayload (b.take (i + 1)) ++ concatPayload (b.drop (i + 1)) := by
      rw [← concatPayload_append, List.take_append_drop]
    have hff : ∀ x ∈ concatPayload (b.take (i + 1)), x = 0xff := by
      intro x hx; apply hbff; rw [hsplitb]; exact List.mem_append_left _ hx
    have hle : (concatPayload (b.take (i + 1))).length ≤ 256 := by
      have : (concatPayload b).length = (concatPayload (b.take (i + 1))).length + (concatPayload (b.drop (i + 1))).length := by
        rw [hsplitb, List.length_append]
      omega
    unfold isPSIComplete
    rw [complete_all_ff _ hff]
    simp; omega
  have hc : ∃ prev, Continues prev b := by
    obtain ⟨_, _, hc⟩ := hu
    cases a with
    | nil =>
      simp only [UnitPk.packets, List.nil_append, List.singleton_append, List.cons.injEq] at hsplit
      exact ⟨_, hsplit.2 ▸ hc⟩
    | cons p a' =>
      have e : u.rest = (a' ++ [pk]) ++ b := by
        simp only [UnitPk.packets, List.cons_append, List.cons.injEq] at hsplit
        simpa using hsplit.2
      rw [e] at hc
      exact hc.right
  exact accRun_table_headless pm pid b htab hc htl

/-- **E2**: the whole unit through the accumulator of a table PID -/
theorem table_unit_run (pm : ProgramMap) (pid : Nat) (htab : (pid == 0 || pm.has pid) = true) (q : List Packet)
    (u : UnitPk) (hu : UnitOK u) (hq : QueueLeadsTo q u.first.header.continuityCounter)
    (a : List Packet) (pk : Packet) (b : List Packet) (hsplit : u.packets = a ++ [pk] ++ b)
    (ptr : Nat) (filler : Bytes) (secs : List Bytes) (stuffing : Bytes)
    (L : UnitLayout (concatPayload u.packets) ptr filler secs stuffing)
    (hbefore : (concatPayload a).length < 1 + ptr + secs.flatten.length)
    (hat : 1 + ptr + secs.flatten.length ≤ (concatPayload (a ++ [pk])).length)
    (hcut : ConformantCut a ptr secs) (htail : (concatPayload b).length ≤ 256) :
    accRun pm pid q u.packets =
      ((if a = [] then [] else q :: List.replicate (a.length - 1) []) ++ [a ++ [pk]] ++ List.replicate b.length [], b) := by
  have h1 := table_unit_run_head pm pid htab q u hu hq a pk b hsplit ptr filler secs stuffing L hbefore hat hcut
  have h2 := (table_unit_run_tail pm pid htab u hu a pk b hsplit ptr filler secs stuffing L hat).2 htail
  rw [hsplit, accRun_append, h1]
  simp only [h2]

/-! ### E3: what the flushed group parses to -/

open PSIRT

theorem bind_ok_inv {α β} {x : P α} {f : α → P β} {i : It} {r : β × It} (h : (x >>= f) i = .ok r) :
    ∃ a i1, x i = .ok (a, i1) ∧ f a i1 = .ok r := by
  rw [P.bind_run] at h
  cases e : x i with
  | ok v => obtain ⟨a, i1⟩ := v; rw [e] at h; exact ⟨a, i1, rfl, h⟩
  | err _ => rw [e] at h; cases h
  | panic => rw [e] at h; cases h

theorem seek_ret_inv {α} (n : Int) (v : α) (i : It) (r : α × It)
    (h : (do It.seek n; return v : P α) i = .ok r) : r = (v, ⟨i.bs, n⟩) := by
  simp only [P.bind_run, It.seek] at h
  cases h; rfl

/-- whatever `parsePSISection` returns without the stop flag, it has read a 3-byte header with a table id that does
not stop the parsing and stands right after the `section_length` bytes that follow -/
theorem parsePSISection_inv (bs : Bytes) (off : Nat) (s : PSISection) (i' : It)
    (h : parsePSISection ⟨bs, (off : Int)⟩ = .ok ((s, false), i')) :
    off + 3 ≤ bs.length ∧ shouldStopPSIParsing (bs.getD off 0) = false ∧
      i'.off = ((off + 3 + ((bs.getD (off + 1) 0 % 16) * 256 + bs.getD (off + 2) 0) : Nat) : Int) := by
  unfold parsePSISection at h
  obtain ⟨o0, i0, h0, h⟩ := bind_ok_inv h
  rw [offset_run] at h0
  cases h0
  by_cases hlt : off < bs.length
  · rw [P.bind_of_ok (nextByte_nat bs off hlt)] at h
    by_cases hs : shouldStopPSIParsing (bs.getD off 0) = true
    · simp only [hs, if_true] at h
      cases h
    · simp only [hs, Bool.false_eq_true, if_false] at h
      by_cases h3 : bs.length < off + 3
      · rw [bind_of_err (nextBytes2_err bs (off + 1) (by omega))] at h
        cases h
      · rw [P.bind_of_ok (nextBytes2_nat bs (off + 1) (by omega))] at h
        simp only [take2_getD0, take2_getD1] at h
        refine ⟨by omega, by simpa using hs, ?_⟩
        rw [P.bind_of_ok (offset_run _)] at h
        simp only [] at h
        generalize (bs.getD (off + 1) 0 % 16 * 256 + bs.getD (off + 1 + 1) 0) = sl at h ⊢
        have fin : ∀ (v : PSISection × Bool) (j : It) (r : (PSISection × Bool) × It),
            (do It.seek (((off + 1 + 2 : Nat) : Int) + (sl : Int)); pure v : P (PSISection × Bool)) j = .ok r →
            r.2.off = ((off + 3 + sl : Nat) : Int) := by
          intro v j r hr
          have := seek_ret_inv _ v j r hr
          rw [this]
          show ((off + 1 + 2 : Nat) : Int) + (sl : Int) = _
          omega
        split at h
        · obtain ⟨sh, i1, _, h⟩ := bind_ok_inv h
          obtain ⟨d, i2, _, h⟩ := bind_ok_inv h
          split at h
          · obtain ⟨_, i3, _, h⟩ := bind_ok_inv h
            obtain ⟨cb, i4, _, h⟩ := bind_ok_inv h
            obtain ⟨_, i5, _, h⟩ := bind_ok_inv h
            obtain ⟨data, i6, _, h⟩ := bind_ok_inv h
            split at h
            · cases h
            · exact fin _ _ _ h
          · exact fin _ _ _ h
        · exact fin _ _ _ h
  · have : It.nextByte ⟨bs, (off : Int)⟩ = .err .other := by
      have : (bs.length : Int) < (off : Int) + 1 := by omega
      simp only [It.nextByte, this, if_true]
    rw [bind_of_err this] at h
    cases h

/-- the bytes `writePSISection` produces for a section ([] when it fails) -/
def secBytes (s : PSISection) : Bytes :=
  match writePSISection s with
  | .ok b => b
  | _ => []

/-- a section that round-trips is written as a well-formed section image -/
theorem SectionRT.image {s s' : PSISection} (h : SectionRT s s') :
    writePSISection s = .ok (secBytes s) ∧ SecImage (secBytes s) := by
  obtain ⟨sec, hw, _, hp⟩ := h
  have hsb : secBytes s = sec := by unfold secBytes; rw [hw]
  rw [hsb]
  refine ⟨hw, ?_⟩
  have h0 := hp sec 0 [] ⟨[], by simp, rfl⟩
  have h0' : parsePSISection ⟨sec, ((0 : Nat) : Int)⟩ = .ok ((s', false), ⟨sec, 0 + ((sec.length : Nat) : Int)⟩) := h0
  obtain ⟨h3, hstop, hoff⟩ := parsePSISection_inv sec 0 s' _ h0'
  simp only at hoff
  cases sec with
  | nil => simp at h3
  | cons t sec =>
  cases sec with
  | nil => simp at h3
  | cons x sec =>
  cases sec with
  | nil => simp at h3
  | cons y body =>
    refine ⟨t, x, y, body, rfl, by simpa using hstop, ?_⟩
    simp only [List.getD_cons_zero, List.getD_cons_succ, List.length_cons, Nat.zero_add] at hoff
    omega

theorem sections_images {ss ss' : List PSISection} (h : SectionsRT ss ss') :
    writePSISections ss = .ok (ss.map secBytes).flatten ∧ ∀ s ∈ ss.map secBytes, SecImage s := by
  induction h with
  | nil => exact ⟨rfl, by simp⟩
  | @cons s s' r r' hs _ ih =>
    obtain ⟨hw, him⟩ := SectionRT.image hs
    obtain ⟨hwr, himr⟩ := ih
    constructor
    · simp [writePSISections, hw, hwr]
    · intro x hx
      simp only [List.map_cons, List.mem_cons] at hx
      rcases hx with rfl | hx
      · exact him
      · exact himr x hx

/-- the section `parsePSISection` returns for a stop table id -/
def stopSection (t : Nat) : PSISection := { header := some { tableID := t, tableType := tableType t } }

theorem parsePSISection_stop (bs : Bytes) (off : Int) (t : Nat) (r : Bytes) (hat : It.At ⟨bs, off⟩ (t :: r))
    (hs : shouldStopPSIParsing t = true) :
    parsePSISection ⟨bs, off⟩ = .ok ((stopSection t, true), ⟨bs, off + 1⟩) := by
  unfold parsePSISection
  rw [P.bind_of_ok (offset_run _), P.bind_of_ok (nextByte_at bs off t r hat)]
  simp only [hs, if_true]
  rfl

/-- the sections behind which 0xFF stuffing stands: parsed back, followed by the stop section if there is stuffing -/
theorem parsePSISections_stuffed (ss ss' : List PSISection) (h : SectionsRT ss ss') (stuffing : Bytes)
    (hst : ∀ b ∈ stuffing, b = 0xff) :
    ∀ (fuel : Nat) (bs : Bytes) (off : Int), ss.length + 1 < fuel →
      It.At ⟨bs, off⟩ ((ss.map secBytes).flatten ++ stuffing) →
      ∃ i', parsePSISections fuel ⟨bs, off⟩ = .ok (ss' ++ (if stuffing = [] then [] else [stopSection 0xff]), i') := by
  induction h with
  | nil =>
    intro fuel bs off hf hat
    cases fuel with
    | zero => simp at hf
    | succ f =>
      unfold parsePSISections
      rw [P.bind_of_ok (hasBytesLeft_run _)]
      have hl := It.At.len hat
      simp only [List.map_nil, List.flatten_nil, List.nil_append] at hat hl
      cases stuffing with
      | nil =>
        simp only [List.length_nil] at hl
        have hn : ¬ (off < (bs.length : Int)) := by omega
        simp only [hn, decide_false, Bool.false_eq_true, if_false, P.pure_run, if_true, List.append_nil]
        exact ⟨_, rfl⟩
      | cons b r =>
        have hb : b = 0xff := hst b (by simp)
        subst hb
        simp only [List.length_cons] at hl
        have hn : off < (bs.length : Int) := by omega
        simp only [hn, decide_true, if_true]
        rw [P.bind_of_ok (parsePSISection_stop bs off 0xff r hat (by decide))]
        simp only [if_true, P.pure_run, List.nil_append]
        exact ⟨_, rfl⟩
  | @cons s s' r r' hs _ ih =>
    intro fuel bs off hf hat
    obtain ⟨hw, _⟩ := SectionRT.image hs
    obtain ⟨sec, hw', hpos, hp⟩ := hs
    have hsec : secBytes s = sec := by rw [hw] at hw'; cases hw'; rfl
    cases fuel with
    | zero => simp at hf
    | succ f =>
      unfold parsePSISections
      rw [P.bind_of_ok (hasBytesLeft_run _)]
      have hat' : It.At ⟨bs, off⟩ (sec ++ ((r.map secBytes).flatten ++ stuffing)) := by
        simpa [hsec] using hat
      have hl := It.At.len hat'
      simp only [List.length_append] at hl
      have hn : off < (bs.length : Int) := by omega
      simp only [hn, decide_true, if_true]
      rw [P.bind_of_ok (hp bs off _ hat')]
      simp only [Bool.false_eq_true, if_false]
      have hat2 := It.At.advance hat' (sec.length : Nat) rfl
      obtain ⟨i', hi'⟩ := ih f bs _ (by simp at hf; omega) hat2
      rw [P.bind_of_ok hi']
      exact ⟨_, rfl⟩

theorem writePSIData_bytes (pf : Nat) (hpf : pf < 256) (ss ss' : List PSISection) (h : SectionsRT ss ss') :
    writePSIData { pointerField := (pf : Int), sections := ss } =
      .ok ([pf] ++ List.replicate pf 0 ++ (ss.map secBytes).flatten) := by
  obtain ⟨hws, _⟩ := sections_images h
  unfold writePSIData
  simp only [hws, Res.bind_ok, Res.pure_eq]
  have : ((pf : Int) % 256).toNat = pf := by omega
  simp [this]

/-- `parsePSIData` on a written unit followed by 0xFF stuffing -/
theorem parsePSIData_stuffed (pf : Nat) (ss ss' : List PSISection) (h : SectionsRT ss ss') (stuffing : Bytes)
    (hst : ∀ b ∈ stuffing, b = 0xff) :
    ∃ i', parsePSIData ⟨[pf] ++ List.replicate pf 0 ++ (ss.map secBytes).flatten ++ stuffing, 0⟩ =
      .ok ({ pointerField := (pf : Int), sections := ss' ++ (if stuffing = [] then [] else [stopSection 0xff]) }, i') := by
  obtain ⟨_, him⟩ := sections_images h
  have hlen : ss.length ≤ (ss.map secBytes).flatten.length := by
    apply length_le_flatten
    intro a ha
    have := (him (secBytes a) (List.mem_map_of_mem ha)).length_ge
    omega
  generalize hB : [pf] ++ List.replicate pf 0 ++ (ss.map secBytes).flatten ++ stuffing = B
  have hBl : B.length = 1 + pf + (ss.map secBytes).flatten.length + stuffing.length := by
    rw [← hB]; simp; omega
  unfold parsePSIData
  have a0 : It.At ⟨B, 0⟩ (pf :: (List.replicate pf 0 ++ ((ss.map secBytes).flatten ++ stuffing))) :=
    ⟨[], by rw [← hB]; simp, rfl⟩
  rw [P.bind_of_ok (nextByte_at _ _ _ _ a0)]
  have hs : It.skip (pf : Int) ⟨B, 0 + 1⟩ = .ok ((), ⟨B, 0 + 1 + (pf : Int)⟩) := rfl
  rw [P.bind_of_ok hs]
  have hf : fuelOf ⟨B, 0 + 1 + (pf : Int)⟩ = .ok (B.length + 1, ⟨B, 0 + 1 + (pf : Int)⟩) := rfl
  rw [P.bind_of_ok hf]
  have a1 : It.At ⟨B, 0 + 1 + (pf : Int)⟩ ((ss.map secBytes).flatten ++ stuffing) :=
    ⟨[pf] ++ List.replicate pf 0, by rw [← hB]; simp, by simp; omega⟩
  obtain ⟨i', hi'⟩ := parsePSISections_stuffed ss ss' h stuffing hst (B.length + 1) B _ (by omega) a1
  rw [P.bind_of_ok hi']
  exact ⟨_, rfl⟩

theorem psiToData_sections (d : PSIData) (fp : Packet) (pid : Nat) :
    psiToData d fp pid = psiToData { pointerField := 0, sections := d.sections } fp pid := rfl

/-- a stop section contributes no data -/
theorem psiToData_stop (pf : Int) (ss : List PSISection) (t : Nat) (c : Bool) (fp : Packet) (pid : Nat) :
    psiToData { pointerField := pf, sections := ss ++ (if c then [] else [stopSection t]) } fp pid
      = psiToData { pointerField := pf, sections := ss } fp pid := by
  cases c <;> simp [psiToData, stopSection]

theorem isPSIPayload_of_table (pm : ProgramMap) (pid : Nat) (h : (pid == 0 || pm.has pid) = true) :
    isPSIPayload pid pm = true := by
  unfold isPSIPayload
  rw [h]; rfl

/-- the first packet of a group as `parseData` records it -/
def firstOf (g : List Packet) : Packet :=
  { adaptationField := (g.headD default).adaptationField, header := (g.headD default).header, payload := [] }

/-- **E3, group level**: a group of a table PID whose payload is a written PSI unit followed by any amount of 0xFF
stuffing parses to the data of the unit's sections — each once, in order -/
theorem parseData_written (pm : ProgramMap) (pid : Nat) (htab : (pid == 0 || pm.has pid) = true) (hcat : pid ≠ 1)
    (g : List Packet) (hpid : (g.headD default).header.pid = pid)
    (pf : Nat) (ss ss' : List PSISection) (h : SectionsRT ss ss') (stuffing : Bytes) (hst : ∀ b ∈ stuffing, b = 0xff)
    (hpay : concatPayload g = [pf] ++ List.replicate pf 0 ++ (ss.map secBytes).flatten ++ stuffing) :
    parseData g .none pm = .ok (psiToData { pointerField := (pf : Int), sections := ss' } (firstOf g) pid) := by
  obtain ⟨i', hi'⟩ := parsePSIData_stuffed pf ss ss' h stuffing hst
  have hval : parsePSIData.val (concatPayload g) =
      .ok { pointerField := (pf : Int), sections := ss' ++ (if stuffing = [] then [] else [stopSection 0xff]) } := by
    unfold P.val
    rw [hpay, hi']
  unfold parseData
  simp only [hpid, hval, isPSIPayload_of_table pm pid htab, if_true]
  have h1 : (pid == 1) = false := by simpa using hcat
  simp only [h1, Bool.false_eq_true, if_false]
  have := psiToData_stop (pf : Int) ss' 0xff (decide (stuffing = [])) (firstOf g) pid
  simp only [decide_eq_true_eq] at this
  rw [← this]
  rfl

/-- `parsePSIData` on stuffing only: pointer_field 255, and the stop section if more than 256 bytes are there -/
theorem parsePSIData_all_ff (l : Bytes) (hl : 0 < l.length) (h : ∀ b ∈ l, b = 0xff) :
    ∃ i', parsePSIData ⟨l, 0⟩ =
      .ok ({ pointerField := 255, sections := if 256 < l.length then [stopSection 0xff] else [] }, i') := by
  unfold parsePSIData
  have n0 : It.nextByte ⟨l, 0⟩ = .ok (255, ⟨l, ((0 + 1 : Nat) : Int)⟩) := by
    have := nextByte_nat l 0 hl
    rw [getD_all_ff l h 0 hl] at this
    exact this
  rw [P.bind_of_ok n0]
  have hs : It.skip ((255 : Nat) : Int) ⟨l, ((0 + 1 : Nat) : Int)⟩ = .ok ((), ⟨l, ((256 : Nat) : Int)⟩) := rfl
  rw [P.bind_of_ok hs]
  have hf : fuelOf ⟨l, ((256 : Nat) : Int)⟩ = .ok (l.length + 1, ⟨l, ((256 : Nat) : Int)⟩) := rfl
  rw [P.bind_of_ok hf]
  have hsec : ∃ i', parsePSISections (l.length + 1) ⟨l, ((256 : Nat) : Int)⟩ =
      .ok (if 256 < l.length then [stopSection 0xff] else [], i') := by
    unfold parsePSISections
    rw [P.bind_of_ok (hasBytesLeft_run _)]
    by_cases h256 : 256 < l.length
    · have hn : ((256 : Nat) : Int) < (l.length : Int) := by omega
      simp only [hn, decide_true, if_true, h256]
      have hat : It.At ⟨l, ((256 : Nat) : Int)⟩ (0xff :: l.drop 257) := by
        refine ⟨l.take 256, ?_, by simp; omega⟩
        have : l.drop 256 = l[256] :: l.drop 257 := List.drop_eq_getElem_cons h256
        rw [← h l[256] (List.getElem_mem h256), ← this, List.take_append_drop]
      rw [P.bind_of_ok (parsePSISection_stop l _ 0xff _ hat (by decide))]
      exact ⟨_, rfl⟩
    · have hn : ¬ ((256 : Nat) : Int) < (l.length : Int) := by omega
      simp only [hn, decide_false, Bool.false_eq_true, if_false, h256]
      exact ⟨_, rfl⟩
  obtain ⟨i', hi'⟩ := hsec
  rw [P.bind_of_ok hi']
  exact ⟨_, rfl⟩

/-- a group of a table PID that carries stuffing only yields no data (and no error) -/
theorem parseData_stuffing (pm : ProgramMap) (pid : Nat) (htab : (pid == 0 || pm.has pid) = true)
    (g : List Packet) (hpid : (g.headD default).header.pid = pid)
    (hl : 0 < (concatPayload g).length) (h : ∀ b ∈ concatPayload g, b = 0xff) :
    parseData g .none pm = .ok [] := by
  obtain ⟨i', hi'⟩ := parsePSIData_all_ff _ hl h
  have hval : parsePSIData.val (concatPayload g) =
      .ok { pointerField := 255, sections := if 256 < (concatPayload g).length then [stopSection 0xff] else [] } := by
    unfold P.val
    rw [hi']
  unfold parseData
  simp only [hpid, hval, isPSIPayload_of_table pm pid htab, if_true]
  by_cases h1 : (pid == 1) = true
  · simp [h1]
  · simp only [h1, Bool.false_eq_true, if_false]
    split <;> simp [psiToData, stopSection]

/-- a parsed PAT section contributes exactly one PAT datum, in its place -/
theorem psiToData_cons_pat (pf : Int) (c : Nat) (h : PSISectionHeader) (sh : PSISectionSyntaxHeader) (x : PATData)
    (r : List PSISection) (fp : Packet) (pid : Nat) (ht : h.tableID = 0) :
    psiToData { pointerField := pf, sections := parsedSection c h sh { pat := some x } :: r } fp pid =
      { firstPacket := some fp, pid := pid, pat := some x } :: psiToData { pointerField := pf, sections := r } fp pid := by
  simp [psiToData, parsedSection, ht, isEIT]

/-- a parsed PMT section contributes exactly one PMT datum, in its place -/
theorem psiToData_cons_pmt (pf : Int) (c : Nat) (h : PSISectionHeader) (sh : PSISectionSyntaxHeader) (x : PMTData)
    (r : List PSISection) (fp : Packet) (pid : Nat) (ht : h.tableID = 2) :
    psiToData { pointerField := pf, sections := parsedSection c h sh { pmt := some x } :: r } fp pid =
      { firstPacket := some fp, pid := pid, pmt := some x } :: psiToData { pointerField := pf, sections := r } fp pid := by
  simp [psiToData, parsedSection, ht, isEIT]

/-! ### E2 + E3 for a unit written by `writePSIData` -/

/-- `U` is what `writePSIData` produces for the sections `ss` behind pointer field `pf` (sections that round-trip to
`ss'`), followed by 0xFF stuffing -/
structure WrittenUnit (U : Bytes) (pf : Nat) (ss ss' : List PSISection) (stuffing : Bytes) : Prop where
  ptr_lt : pf < 256
  rt : SectionsRT ss ss'
  ne : ss ≠ []
  stuff : ∀ b ∈ stuffing, b = 0xff
  eq : ∃ bs, writePSIData { pointerField := (pf : Int), sections := ss } = .ok bs ∧ U = bs ++ stuffing

theorem WrittenUnit.bytes {U : Bytes} {pf : Nat} {ss ss' : List PSISection} {stuffing : Bytes}
    (W : WrittenUnit U pf ss ss' stuffing) :
    U = [pf] ++ List.replicate pf 0 ++ (ss.map secBytes).flatten ++ stuffing := by
  obtain ⟨bs, hw, hU⟩ := W.eq
  rw [writePSIData_bytes pf W.ptr_lt ss ss' W.rt] at hw
  cases hw
  exact hU

theorem WrittenUnit.layout {U : Bytes} {pf : Nat} {ss ss' : List PSISection} {stuffing : Bytes}
    (W : WrittenUnit U pf ss ss' stuffing) :
    UnitLayout U pf (List.replicate pf 0) (ss.map secBytes) stuffing :=
  ⟨W.bytes, by simp, (sections_images W.rt).2, by simpa using W.ne, W.stuff⟩

theorem headD_append_left {α} (x y : List α) (d : α) (h : x ≠ []) : (x ++ y).headD d = x.headD d := by
  cases x with
  | nil => exact absurd rfl h
  | cons _ _ => rfl

/-- **E2 + E3 (pool and `parseData` level)** for a PAT/PMT unit written by `writePSIData` -/
theorem written_unit_delivered (pm : ProgramMap) (pid : Nat) (htab : (pid == 0 || pm.has pid) = true) (hcat : pid ≠ 1)
    (q : List Packet) (u : UnitPk) (hu : UnitOK u) (hq : QueueLeadsTo q u.first.header.continuityCounter)
    (hon : u.first.header.pid = pid)
    (a : List Packet) (pk : Packet) (b : List Packet) (hsplit : u.packets = a ++ [pk] ++ b)
    (pf : Nat) (ss ss' : List PSISection) (stuffing : Bytes)
    (W : WrittenUnit (concatPayload u.packets) pf ss ss' stuffing)
    (hbefore : (concatPayload a).length < 1 + pf + ((ss.map secBytes).flatten).length)
    (hat : 1 + pf + ((ss.map secBytes).flatten).length ≤ (concatPayload (a ++ [pk])).length)
    (hcut : ConformantCut a pf (ss.map secBytes)) :
    accRun pm pid q (a ++ [pk]) =
      ((if a = [] then [] else q :: List.replicate (a.length - 1) []) ++ [a ++ [pk]], []) ∧
    parseData (a ++ [pk]) .none pm =
      .ok (psiToData { pointerField := (pf : Int), sections := ss' } (firstOf u.packets) pid) := by
  refine ⟨table_unit_run_head pm pid htab q u hu hq a pk b hsplit pf _ _ stuffing W.layout hbefore hat hcut, ?_⟩
  have hhead : (a ++ [pk]).headD default = u.packets.headD default := by
    rw [hsplit, headD_append_left (a ++ [pk]) b _ (by simp)]
  have hfirst : firstOf (a ++ [pk]) = firstOf u.packets := by unfold firstOf; rw [hhead]
  rw [← hfirst]
  have hU := W.bytes
  rw [hsplit, concatPayload_append] at hU
  -- the group's payload: the written bytes and the part of the stuffing that fits its last packet
  have hpay : concatPayload (a ++ [pk]) = [pf] ++ List.replicate pf 0 ++ (ss.map secBytes).flatten
      ++ stuffing.take ((concatPayload (a ++ [pk])).length - ([pf] ++ List.replicate pf 0 ++ (ss.map secBytes).flatten).length) := by
    have h1 := prefix_eq_take _ _ _ hU.symm
    rw [List.take_append] at h1
    have hle : ([pf] ++ List.replicate pf 0 ++ (ss.map secBytes).flatten).length ≤ (concatPayload (a ++ [pk])).length := by
      simp at hat ⊢; omega
    rw [List.take_of_length_le hle] at h1
    exact h1
  refine parseData_written pm pid htab hcat (a ++ [pk]) ?_ pf ss ss' W.rt _ ?_ hpay
  · rw [hhead]; exact hon
  · intro x hx; exact W.stuff x (List.mem_of_mem_take hx)

end Astits.PSIComplete
