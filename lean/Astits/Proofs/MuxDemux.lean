/-
C01 support — composing the muxer model with the demuxer model on one elementary PID.

M1  the packets `writeDataLoop` builds (`loopPkts`), what it writes (`loop_written`), their shape (`loop_chain`,
    `loop_good`);
M2  every emitted chunk parses back to the (normalised) packet (`written_parses`);
M3  one unit through `parseData` (`parseData_pes_unit`);
M4  a history of muxer calls, demultiplexed at the pool + `parseData` level (`history_delivered`).
-/
import Astits.Proofs.MuxCounters
import Astits.Proofs.PacketRTCanon
import Astits.Proofs.PESRT
import Astits.Proofs.Units
import Astits.Props.C02
import Astits.Props.C11
namespace Astits.MuxDemux
open Astits.MuxCounters Astits.PacketRT Astits.PESRT

/-! ## M1 — the packets of one `writeDataLoop` run -/

/-- `cs` are the 188-byte chunks `writePacket` emits for the packets `pks`, one each, in order -/
def Written : List Packet → List Bytes → Prop
  | [], [] => True
  | p :: ps, c :: cs => writePacket p 188 = .ok c ∧ Written ps cs
  | _, _ => False

theorem Written.nil : Written [] [] := trivial

theorem Written.cons {p : Packet} {c : Bytes} {ps : List Packet} {cs : List Bytes}
    (h : writePacket p 188 = .ok c) (hr : Written ps cs) : Written (p :: ps) (c :: cs) := ⟨h, hr⟩

theorem Written.length {ps : List Packet} {cs : List Bytes} (h : Written ps cs) : ps.length = cs.length := by
  induction ps generalizing cs with
  | nil => cases cs with
    | nil => rfl
    | cons _ _ => exact h.elim
  | cons p ps ih => cases cs with
    | nil => exact h.elim
    | cons c cs => simp [ih h.2]

/-- the packets built by `writeDataLoop` (same recursion, packets instead of bytes; `[]` where the loop fails) -/
def loopPkts (pid : Nat) (hdr : PESHeader) : Nat → Bytes → Bool → Bool → Option PacketAdaptationField
    → WrappingCounter → List Packet
  | 0, _, _, _, _, _ => []
  | fuel + 1, data, ps, waf, af, cc =>
    if data.isEmpty then []
    else if ps ∧ bytesAvail waf af < 6 + (calcPESOptionalHeaderLength hdr.optionalHeader : Int) then
      match (if waf then af else none) with
      | none => []
      | some a =>
        afOnlyPkt pid (cc.get % 16) { a with stuffingLength := bytesAvail waf af } ::
          loopPkts pid hdr fuel data ps false (some { a with stuffingLength := 0 }) cc
    else
      match writePESData hdr data ps (bytesAvail waf af) with
      | .ok (payload, ntot, npayload) =>
        payloadPkt pid ps cc.inc.get payload (stuffPair (bytesAvail waf af - ntot) (if waf then af else none) af).1 ::
          loopPkts pid hdr fuel (data.drop npayload) false false
            (stuffPair (bytesAvail waf af - ntot) (if waf then af else none) af).2 cc.inc
      | _ => []

/-- the payload-carrying packets -/
def payloadOnly (pks : List Packet) : List Packet := pks.filter (·.header.hasPayload)

theorem concatPayload_nil : concatPayload [] = [] := rfl
theorem concatPayload_cons (p : Packet) (r : List Packet) : concatPayload (p :: r) = p.payload ++ concatPayload r := by
  simp [concatPayload]

/-- shape of a successful `writePESData` -/
theorem writePESData_shape (h : PESHeader) (d : Bytes) (ps : Bool) (bA : Int) (payload : Bytes) (ntot np : Nat)
    (hw : writePESData h d ps bA = .ok (payload, ntot, np)) :
    payload = (if ps then pesHeaderBytes h d.length else []) ++ d.take np ∧ np ≤ d.length := by
  unfold writePESData at hw
  split at hw
  · cases hw
  · generalize (if ps = true then pesHeaderBytes h d.length else []) = hb at hw ⊢
    simp only at hw
    split at hw
    · cases hw
    · simp only [Res.ok.injEq, Prod.mk.injEq] at hw
      obtain ⟨rfl, rfl, rfl⟩ := hw
      exact ⟨rfl, Nat.min_le_right _ _⟩

theorem lastCC_getD_cons (p : Packet) (r : List Packet) (v : Nat) :
    (lastCC (p :: r)).getD v = (lastCC r).getD p.header.continuityCounter := by
  cases r with
  | nil => simp [lastCC]
  | cons x t =>
    have hs : (x :: t).getLast? = some ((x :: t).getLast (by simp)) := List.getLast?_eq_some_getLast (by simp)
    simp [lastCC, List.getLast?_cons_cons, hs]

/-- **what a successful run of the loop writes**: the chunks appended to the accumulator are the `writePacket` images
of `loopPkts`, one each and in order; the payloads of these packets, concatenated, are the PES header (if still to be
written) followed by all the data; the returned counter is the counter of the last payload-carrying packet. -/
theorem loop_written (pid : Nat) (hdr : PESHeader) :
    ∀ (fuel : Nat) (data : Bytes) (ps waf : Bool) (af : Option PacketAdaptationField) (cc : WrappingCounter)
      (acc l : List Bytes) (cc' : WrappingCounter) (af' : Option PacketAdaptationField) (acc' : List Bytes),
      writeDataLoop pid hdr fuel data ps waf af cc acc = (.ok l, cc', af', acc') →
      ∃ cs, l = acc ++ cs ∧ acc' = acc ++ cs ∧ Written (loopPkts pid hdr fuel data ps waf af cc) cs ∧
        ((ps = true → data ≠ []) →
          concatPayload (payloadOnly (loopPkts pid hdr fuel data ps waf af cc))
            = (if ps then pesHeaderBytes hdr data.length else []) ++ data) ∧
        cc'.value = (lastCC (payloadOnly (loopPkts pid hdr fuel data ps waf af cc))).getD cc.value := by
  intro fuel
  induction fuel with
  | zero =>
    intro data ps waf af cc acc l cc' af' acc' h
    simp [writeDataLoop] at h
  | succ fuel ih =>
    intro data ps waf af cc acc l cc' af' acc' h
    rw [loop_succ] at h
    unfold loopPkts
    split at h
    · rename_i he
      simp only [Prod.mk.injEq, Res.ok.injEq] at h
      obtain ⟨rfl, rfl, rfl, rfl⟩ := h
      have hd : data = [] := List.isEmpty_iff.mp he
      subst hd
      refine ⟨[], by simp, by simp, by simp [Written], ?_, by simp [payloadOnly, lastCC]⟩
      intro hne
      have hps : ps = false := by
        cases ps with
        | false => rfl
        | true => exact absurd rfl (hne rfl)
      subst hps
      simp [concatPayload, payloadOnly]
    · rename_i he
      rw [if_neg he]
      split at h
      · rename_i hbr
        rw [if_pos hbr]
        split at h
        · cases h
        · rename_i a hpk
          rw [hpk]
          simp only
          split at h
          · rename_i bs hw
            obtain ⟨cs, e1, e2, e3, e4, e5⟩ := ih data ps false _ cc (acc ++ [bs]) l cc' af' acc' h
            refine ⟨bs :: cs, by simpa using e1, by simpa using e2, ⟨hw, e3⟩, ?_, ?_⟩
            · intro hne; rw [← e4 hne]; rfl
            · rw [e5]; rfl
          · cases h
          · cases h
      · rename_i hbr
        rw [if_neg hbr]
        split at h
        · rename_i payload ntot np hpes
          rw [hpes]
          simp only at h ⊢
          split at h
          · rename_i bs hw
            obtain ⟨cs, e1, e2, e3, e4, e5⟩ := ih (data.drop np) false false _ cc.inc (acc ++ [bs]) l cc' af' acc' h
            obtain ⟨s1, _⟩ := writePESData_shape _ _ _ _ _ _ _ hpes
            refine ⟨bs :: cs, by simpa using e1, by simpa using e2, ⟨hw, e3⟩, ?_, ?_⟩
            · intro _
              have hf : ∀ (x : Option PacketAdaptationField) (r : List Packet),
                  payloadOnly (payloadPkt pid ps cc.inc.get payload x :: r)
                    = payloadPkt pid ps cc.inc.get payload x :: payloadOnly r := by
                intro x r; simp [payloadOnly, payloadPkt, mkHdr]
              rw [hf, concatPayload_cons, e4 (by intro hh; cases hh)]
              simp only [payloadPkt, Bool.false_eq_true, if_false, List.nil_append]
              rw [s1, List.append_assoc, List.take_append_drop]
            · rw [e5]
              simp only [payloadOnly, List.filter_cons, payloadPkt, mkHdr, if_true]
              rw [lastCC_getD_cons]
              rfl
          · cases h
          · cases h
        · cases h
        · cases h

/-! ### shape of the packets: unit-start flag, continuity counters, no announced discontinuity -/

/-- the adaptation field a `WriteData` caller may pass: not the one-byte form, well-formed (`AFWF`: every announced
part present and within its bit width), no stuffing requested (the muxer computes the stuffing itself) and no
discontinuity announced (the demuxer drops the queued unit when it sees one) -/
structure CallerAF (a : PacketAdaptationField) : Prop where
  notOne : a.isOneByteStuffing = false
  wf : AFWF a
  noStuffing : a.stuffingLength = 0
  noDI : a.discontinuityIndicator = false

/-- loop invariant on the adaptation field: it is written only when there is one, and then it is a `CallerAF` -/
def AFHyp (waf : Bool) (af : Option PacketAdaptationField) : Prop :=
  waf = true → ∃ a, af = some a ∧ CallerAF a

theorem AFHyp.false (af : Option PacketAdaptationField) : AFHyp false af := fun h => by cases h

/-- payload-carrying packets of one unit as the loop emits them: the first has the unit-start flag iff the PES header
is still to be written, the counters are the successors of `v`, none announces a discontinuity -/
def Chain : Bool → Nat → List Packet → Prop
  | _, _, [] => True
  | ps, v, p :: r => PlainPayload p ∧ p.header.payloadUnitStartIndicator = ps ∧ p.header.continuityCounter = next v ∧
      Chain false p.header.continuityCounter r

theorem stuffPair_fst (left : Int) (pktAF af : Option PacketAdaptationField) :
    (stuffPair left pktAF af).1 =
      if left > 0 then
        (match pktAF with
         | none => some (newStuffingAF left)
         | some a => some { a with stuffingLength := left })
      else pktAF := by
  unfold stuffPair
  split
  · cases pktAF <;> rfl
  · rfl

theorem newStuffingAF_DI (l : Int) : (newStuffingAF l).discontinuityIndicator = false := by
  unfold newStuffingAF; split <;> rfl

theorem stuffPair_DI (left : Int) (pktAF af : Option PacketAdaptationField)
    (h : ∀ a, pktAF = some a → a.discontinuityIndicator = false) :
    (((stuffPair left pktAF af).1).map (·.discontinuityIndicator)).getD false = false := by
  rw [stuffPair_fst]
  split
  · cases pktAF with
    | none => simp [newStuffingAF_DI]
    | some a => simpa using h a rfl
  · cases pktAF with
    | none => rfl
    | some a => simpa using h a rfl

theorem pktAF_DI (waf : Bool) (af : Option PacketAdaptationField) (h : AFHyp waf af) :
    ∀ a, (if waf then af else none) = some a → a.discontinuityIndicator = false := by
  intro a ha
  cases waf with
  | false => simp at ha
  | true =>
    obtain ⟨b, hb, hc⟩ := h rfl
    simp only [if_true] at ha
    rw [hb] at ha
    cases ha
    exact hc.noDI

/-- **shape of the payload-carrying packets** of a run (successful or not): `Chain` -/
theorem loop_chain (pid : Nat) (hdr : PESHeader) :
    ∀ (fuel : Nat) (data : Bytes) (ps waf : Bool) (af : Option PacketAdaptationField) (cc : WrappingCounter),
      CCInv cc → AFHyp waf af →
      Chain ps cc.value (payloadOnly (loopPkts pid hdr fuel data ps waf af cc)) := by
  intro fuel
  induction fuel with
  | zero => intro data ps waf af cc _ _; simp [loopPkts, payloadOnly, Chain]
  | succ fuel ih =>
    intro data ps waf af cc hcc haf
    unfold loopPkts
    split
    · simp [payloadOnly, Chain]
    · split
      · split
        · simp [payloadOnly, Chain]
        · rename_i a hpk
          have : payloadOnly (afOnlyPkt pid (cc.get % 16) { a with stuffingLength := bytesAvail waf af } ::
              loopPkts pid hdr fuel data ps false (some { a with stuffingLength := 0 }) cc)
              = payloadOnly (loopPkts pid hdr fuel data ps false (some { a with stuffingLength := 0 }) cc) := by
            simp [payloadOnly, afOnlyPkt, mkHdr]
          rw [this]
          exact ih data ps false _ cc hcc (AFHyp.false _)
      · split
        · rename_i payload ntot np hpes
          have hf : ∀ (x : Option PacketAdaptationField) (r : List Packet),
              payloadOnly (payloadPkt pid ps cc.inc.get payload x :: r) = payloadPkt pid ps cc.inc.get payload x :: payloadOnly r := by
            intro x r; simp [payloadOnly, payloadPkt, mkHdr]
          rw [hf]
          have hnx : cc.inc.get = next cc.value := inc_get cc hcc
          refine ⟨⟨rfl, rfl, ?_, ?_⟩, rfl, hnx, ?_⟩
          · have := stuffPair_DI (bytesAvail waf af - ↑ntot) (if waf = true then af else none) af (pktAF_DI waf af haf)
            simp only [pktDI, payloadPkt, mkHdr]
            rw [this]; simp
          · show cc.inc.get < 16
            rw [hnx]; have := next_le cc.value; omega
          · exact ih (data.drop np) false false _ cc.inc (ccInv_inc cc hcc) (AFHyp.false _)
        · simp [payloadOnly, Chain]

/-! ### every packet is well-formed and fills its 188 bytes -/

theorem AFWF_setStuffing {a : PacketAdaptationField} (h : AFWF a) (l : Int) : AFWF { a with stuffingLength := l } :=
  ⟨h.pcr, h.opcr, h.splice, h.priv, h.ext⟩

theorem AFOK_newStuffing (l : Int) : AFOK (some (newStuffingAF l)) := by
  unfold newStuffingAF
  split
  · intro h; cases h
  · intro _
    exact ⟨fun h => (by cases h), fun h => (by cases h), fun h => (by cases h), fun h => (by cases h), fun h => (by cases h)⟩

/-- the payload packet the loop builds fills its 188 bytes exactly -/
theorem payload_full (pid : Nat) (pusi : Bool) (ccv : Nat) (payload : Bytes) (pktAF af : Option PacketAdaptationField)
    (bA : Int) (ntot : Nat)
    (hnone : pktAF = none → bA = 184)
    (hsome : ∀ a, pktAF = some a → bA = 183 - afSize a ∧ a.isOneByteStuffing = false ∧ a.stuffingLength = 0)
    (h0 : (ntot : Int) ≤ bA) :
    packetHeadSize (payloadPkt pid pusi ccv payload (stuffPair (bA - ntot) pktAF af).1) + ntot = 188 := by
  rw [stuffPair_fst]
  unfold packetHeadSize payloadPkt mkHdr
  by_cases hl : bA - ntot > 0
  · simp only [hl, if_true]
    cases pktAF with
    | none =>
      have := hnone rfl
      simp only [Option.isSome_some, if_true]
      unfold newStuffingAF
      by_cases h1 : bA - ↑ntot = 1
      · simp only [h1, if_true]; omega
      · simp only [h1, if_false, Bool.false_eq_true]
        unfold afSize
        simp only [Bool.false_eq_true, if_false]
        split <;> omega
    | some a =>
      obtain ⟨e1, e2, e3⟩ := hsome a rfl
      have hs := afSize_setStuffing a (bA - ntot)
      simp only [Option.isSome_some, if_true]
      show 4 + (if a.isOneByteStuffing = true then 1 else 1 + afSize { a with stuffingLength := bA - ntot }) + (ntot : Int) = 188
      rw [hs, e2, e3]
      simp only [hl, if_true, Bool.false_eq_true, if_false]
      omega
  · simp only [hl, if_false]
    cases pktAF with
    | none =>
      have := hnone rfl
      simp only [Option.isSome_none, Bool.false_eq_true, if_false]; omega
    | some a =>
      obtain ⟨e1, e2, e3⟩ := hsome a rfl
      simp only [Option.isSome_some, if_true, e2, Bool.false_eq_true, if_false]
      omega

theorem stuffPair_AFOK (left : Int) (pktAF af : Option PacketAdaptationField)
    (h : ∀ a, pktAF = some a → AFWF a) :
    (stuffPair left pktAF af).1.isSome = true → AFOK (stuffPair left pktAF af).1 := by
  rw [stuffPair_fst]
  split
  · cases pktAF with
    | none => intro _; exact AFOK_newStuffing left
    | some a => intro _ _; exact AFWF_setStuffing (h a rfl) left
  · cases pktAF with
    | none => intro hh; cases hh
    | some a => intro _ _; exact h a rfl

/-- a packet as the round-trip theorems want it -/
def GoodPkt (pid : Nat) (p : Packet) : Prop := PacketWF p ∧ C11.PacketFull p ∧ p.header.pid = pid

/-- **every packet the loop builds is well-formed, fills its 188 bytes and is on `pid`** -/
theorem loop_good (pid : Nat) (hdr : PESHeader) (hpid : pid < 8192) :
    ∀ (fuel : Nat) (data : Bytes) (ps waf : Bool) (af : Option PacketAdaptationField) (cc : WrappingCounter),
      CCInv cc → AFHyp waf af →
      ∀ p ∈ loopPkts pid hdr fuel data ps waf af cc, GoodPkt pid p := by
  intro fuel
  induction fuel with
  | zero => intro data ps waf af cc _ _ p hp; simp [loopPkts] at hp
  | succ fuel ih =>
    intro data ps waf af cc hcc haf p hp
    unfold loopPkts at hp
    split at hp
    · cases hp
    · split at hp
      · split at hp
        · cases hp
        · rename_i a hpk
          rcases List.mem_cons.mp hp with rfl | hp'
          · refine ⟨⟨hpid, by simp [afOnlyPkt, mkHdr], ?_, ?_⟩, ?_, rfl⟩
            · show cc.get % 16 < 16; omega
            · intro _ _
              cases waf with
              | false => simp at hpk
              | true =>
                obtain ⟨b, hb, hc⟩ := haf rfl
                simp only [if_true] at hpk
                rw [hb] at hpk; cases hpk
                exact AFWF_setStuffing hc.wf _
            · intro h; simp [afOnlyPkt, mkHdr] at h
          · exact ih data ps false _ cc hcc (AFHyp.false _) p hp'
      · split at hp
        · rename_i payload ntot np hpes
          rcases List.mem_cons.mp hp with rfl | hp'
          · have hp2 := writePESData_ok _ _ _ _ _ _ _ hpes
            have hnx : cc.inc.get = next cc.value := inc_get cc hcc
            have hwfa : ∀ a, (if waf = true then af else none) = some a → CallerAF a := by
              intro a ha
              cases waf with
              | false => simp at ha
              | true =>
                obtain ⟨b, hb, hc⟩ := haf rfl
                simp only [if_true] at ha
                rw [hb] at ha; cases ha; exact hc
            refine ⟨⟨hpid, by simp [payloadPkt, mkHdr], ?_, ?_⟩, ?_, rfl⟩
            · show cc.inc.get < 16
              rw [hnx]; have := next_le cc.value; omega
            · intro h
              exact stuffPair_AFOK _ _ _ (fun a ha => (hwfa a ha).wf) h
            · intro _
              have := payload_full pid ps cc.inc.get payload (if waf = true then af else none) af (bytesAvail waf af) ntot
                (by
                  intro hn
                  cases waf with
                  | false => simp [bytesAvail]
                  | true =>
                    obtain ⟨b, hb, _⟩ := haf rfl
                    simp [hb] at hn)
                (fun a ha => ⟨bytesAvail_some waf af a ha, (hwfa a ha).notOne, (hwfa a ha).noStuffing⟩) hp2.2
              have hl : (payloadPkt pid ps cc.inc.get payload
                  (stuffPair (bytesAvail waf af - ↑ntot) (if waf = true then af else none) af).fst).payload.length = ntot := hp2.1
              rw [hl]; exact this
          · exact ih (data.drop np) false false _ cc.inc (ccInv_inc cc hcc) (AFHyp.false _) p hp'
        · cases hp

/-! ### the first packets, explicitly: what happens to the caller's adaptation field -/

theorem loopPkts_succ (pid : Nat) (hdr : PESHeader) (fuel : Nat) (data : Bytes) (ps waf : Bool)
    (af : Option PacketAdaptationField) (cc : WrappingCounter) :
    loopPkts pid hdr (fuel + 1) data ps waf af cc =
    if data.isEmpty then []
    else if ps ∧ bytesAvail waf af < 6 + (calcPESOptionalHeaderLength hdr.optionalHeader : Int) then
      match (if waf then af else none) with
      | none => []
      | some a =>
        afOnlyPkt pid (cc.get % 16) { a with stuffingLength := bytesAvail waf af } ::
          loopPkts pid hdr fuel data ps false (some { a with stuffingLength := 0 }) cc
    else
      match writePESData hdr data ps (bytesAvail waf af) with
      | .ok (payload, ntot, npayload) =>
        payloadPkt pid ps cc.inc.get payload (stuffPair (bytesAvail waf af - ntot) (if waf then af else none) af).1 ::
          loopPkts pid hdr fuel (data.drop npayload) false false
            (stuffPair (bytesAvail waf af - ntot) (if waf then af else none) af).2 cc.inc
      | _ => [] := rfl

/-- the stuffing-only adaptation field: packets without a caller's adaptation field get `none` when the payload
fills the packet, and `newStuffingAF left` when `left` bytes are spare -/
theorem stuffPair_none (left : Int) (af : Option PacketAdaptationField) :
    (stuffPair left none af).1 = if left > 0 then some (newStuffingAF left) else none := by
  rw [stuffPair_fst]

/-- the caller's adaptation field in the packet it is written in: as is when the payload fills the packet, with
`stuffingLength := left` when `left` bytes are spare -/
theorem stuffPair_some (left : Int) (a : PacketAdaptationField) (af : Option PacketAdaptationField) :
    (stuffPair left (some a) af).1 = if left > 0 then some { a with stuffingLength := left } else some a := by
  rw [stuffPair_fst]

/-- **the PES header fits behind the adaptation field** (or there is none): the first packet carries the unit-start
flag, the next counter value, the PES header and the first payload bytes, and the caller's adaptation field (stuffed
when the whole PES packet is shorter than the room available) -/
theorem loopPkts_fits (pid : Nat) (hdr : PESHeader) (fuel : Nat) (data : Bytes) (waf : Bool)
    (af : Option PacketAdaptationField) (cc : WrappingCounter) (payload : Bytes) (ntot np : Nat)
    (hd : data ≠ [])
    (hfit : ¬ bytesAvail waf af < 6 + (calcPESOptionalHeaderLength hdr.optionalHeader : Int))
    (hw : writePESData hdr data true (bytesAvail waf af) = .ok (payload, ntot, np)) :
    loopPkts pid hdr (fuel + 1) data true waf af cc =
      payloadPkt pid true cc.inc.get payload (stuffPair (bytesAvail waf af - ntot) (if waf then af else none) af).1 ::
        loopPkts pid hdr fuel (data.drop np) false false
          (stuffPair (bytesAvail waf af - ntot) (if waf then af else none) af).2 cc.inc := by
  have he : data.isEmpty = false := by
    cases data with
    | nil => exact absurd rfl hd
    | cons _ _ => rfl
  rw [loopPkts_succ, if_neg (by simp [he]), if_neg (fun h => hfit h.2), hw]

/-- **the PES header does not fit behind the adaptation field**: the adaptation field travels alone, in a packet
without payload that carries the *current* counter value (not incremented) and is stuffed to 188 bytes; the loop
then goes on without adaptation field — the first payload-carrying packet (unit-start flag, PES header) has no
adaptation field of the caller's, only stuffing if the PES packet is short (`loopPkts_fits` with `waf = false`,
`stuffPair_none`).  The demuxer's pool ignores the payload-less packet, so the caller's adaptation field does not
reach `DemuxerData.FirstPacket` in this case. -/
theorem loopPkts_nofit (pid : Nat) (hdr : PESHeader) (fuel : Nat) (data : Bytes) (a : PacketAdaptationField)
    (cc : WrappingCounter) (hd : data ≠ [])
    (hnofit : bytesAvail true (some a) < 6 + (calcPESOptionalHeaderLength hdr.optionalHeader : Int)) :
    loopPkts pid hdr (fuel + 1) data true true (some a) cc =
      afOnlyPkt pid (cc.get % 16) { a with stuffingLength := 183 - afSize a } ::
        loopPkts pid hdr fuel data true false (some { a with stuffingLength := 0 }) cc := by
  have he : data.isEmpty = false := by
    cases data with
    | nil => exact absurd rfl hd
    | cons _ _ => rfl
  have hb : bytesAvail true (some a) = 183 - afSize a := bytesAvail_some true (some a) a rfl
  rw [loopPkts_succ, if_neg (by simp [he]), if_pos ⟨rfl, hnofit⟩]
  simp only [if_true, hb]

/-- continuation packets (no unit-start flag, no caller's adaptation field): 184 payload bytes each, the last one
stuffed -/
theorem loopPkts_cont (pid : Nat) (hdr : PESHeader) (fuel : Nat) (data : Bytes) (af : Option PacketAdaptationField)
    (cc : WrappingCounter) (hd : data ≠ []) :
    loopPkts pid hdr (fuel + 1) data false false af cc =
      payloadPkt pid false cc.inc.get (data.take 184) (stuffPair (184 - (min 184 data.length : Nat)) none af).1 ::
        loopPkts pid hdr fuel (data.drop 184) false false af cc.inc := by
  have he : data.isEmpty = false := by
    cases data with
    | nil => exact absurd rfl hd
    | cons _ _ => rfl
  have hw : writePESData hdr data false (bytesAvail false af) = .ok (data.take (min 184 data.length), min 184 data.length, min 184 data.length) := by
    simp [writePESData, bytesAvail]
  have ht : data.take (min 184 data.length) = data.take 184 := by
    rw [List.take_eq_take_iff]; omega
  have hdp : data.drop (min 184 data.length) = data.drop 184 := by
    by_cases h : 184 ≤ data.length
    · rw [Nat.min_eq_left h]
    · rw [Nat.min_eq_right (by omega), List.drop_length, List.drop_eq_nil_of_le (by omega)]
  rw [loopPkts_succ, if_neg (by simp [he]), if_neg (by simp), hw]
  simp only [Bool.false_eq_true, if_false, ht, hdp]
  have hb : bytesAvail false af = 184 := by simp [bytesAvail]
  rw [hb]
  congr 2
  unfold stuffPair
  split <;> rfl

/-! ## M2 — every emitted chunk parses back to the normalised packet -/

/-- the demuxer's packet sequence for a sequence of 188-byte chunks: `parsePacket` of each chunk, in order -/
def ParsesTo : List Bytes → List Packet → Prop
  | [], [] => True
  | c :: cs, p :: ps => (parsePacket none).val c = .ok p ∧ ParsesTo cs ps
  | _, _ => False

theorem ParsesTo.unique {cs : List Bytes} {s s' : List Packet} (h : ParsesTo cs s) (h' : ParsesTo cs s') : s = s' := by
  induction cs generalizing s s' with
  | nil =>
    cases s with
    | nil => cases s' with
      | nil => rfl
      | cons _ _ => exact h'.elim
    | cons _ _ => exact h.elim
  | cons c cs ih =>
    cases s with
    | nil => exact h.elim
    | cons p ps =>
      cases s' with
      | nil => exact h'.elim
      | cons p' ps' =>
        have e : Res.ok p = Res.ok p' := h.1.symm.trans h'.1
        rw [Res.ok.inj e, ih h.2 h'.2]

theorem ParsesTo.append_inv {a b : List Bytes} {s : List Packet} (h : ParsesTo (a ++ b) s) :
    ∃ s1 s2, s = s1 ++ s2 ∧ ParsesTo a s1 ∧ ParsesTo b s2 := by
  induction a generalizing s with
  | nil => exact ⟨[], s, rfl, trivial, h⟩
  | cons c a ih =>
    cases s with
    | nil => exact h.elim
    | cons p ps =>
      obtain ⟨s1, s2, e, h1, h2⟩ := ih h.2
      exact ⟨p :: s1, s2, by rw [e]; rfl, ⟨h.1, h1⟩, h2⟩

theorem ParsesTo.nil_inv {s : List Packet} (h : ParsesTo [] s) : s = [] := by
  cases s with
  | nil => rfl
  | cons _ _ => exact h.elim

/-- **M2**: the chunks written for well-formed packets that fill their 188 bytes parse back, one by one, to the
normalised packets (`normalise`: computed adaptation-field fields recomputed, nothing else changes) -/
theorem written_parses {pks : List Packet} {cs : List Bytes} (hw : Written pks cs)
    (hg : ∀ p ∈ pks, PacketWF p ∧ C11.PacketFull p) : ParsesTo cs (pks.map normalise) := by
  induction pks generalizing cs with
  | nil =>
    cases cs with
    | nil => trivial
    | cons _ _ => exact hw.elim
  | cons p pks ih =>
    cases cs with
    | nil => exact hw.elim
    | cons c cs =>
      obtain ⟨h1, h2⟩ := hg p (by simp)
      exact ⟨C11.packet_roundtrip p h1 h2 c hw.1, ih hw.2 (fun q hq => hg q (by simp [hq]))⟩

theorem normalise_header (p : Packet) : (normalise p).header = p.header := rfl

theorem normalise_payload (p : Packet) (h : p.header.hasPayload = true) : (normalise p).payload = p.payload := by
  simp [normalise, normaliseWith, h]

theorem payloadOnly_map_normalise (l : List Packet) :
    payloadOnly (l.map normalise) = (payloadOnly l).map normalise := by
  induction l with
  | nil => rfl
  | cons p r ih =>
    simp only [payloadOnly, List.map_cons, List.filter_cons, normalise_header] at ih ⊢
    by_cases hp : p.header.hasPayload = true
    · simp only [hp, if_true, List.map_cons, ih]
    · simp only [hp, Bool.false_eq_true, if_false, ih]

theorem concatPayload_map_normalise (l : List Packet) (h : ∀ p ∈ l, p.header.hasPayload = true) :
    concatPayload (l.map normalise) = concatPayload l := by
  induction l with
  | nil => rfl
  | cons p r ih =>
    rw [List.map_cons, concatPayload_cons, concatPayload_cons, normalise_payload p (h p (by simp)),
      ih (fun q hq => h q (by simp [hq]))]

theorem payloadOnly_mem {l : List Packet} {p : Packet} (h : p ∈ payloadOnly l) : p.header.hasPayload = true := by
  simpa using (List.mem_filter.mp h).2

theorem normAF_DI (a : PacketAdaptationField) (h : a.discontinuityIndicator = false) :
    (normAF a).discontinuityIndicator = false := by
  unfold normAF
  split
  · rfl
  · exact h

theorem pktDI_normalise (p : Packet) (h : pktDI p = false) : pktDI (normalise p) = false := by
  unfold pktDI at h ⊢
  simp only [normalise, normaliseWith]
  cases hc : p.header.hasAdaptationField with
  | false => simp
  | true =>
    rw [hc] at h
    cases ha : p.adaptationField with
    | none => simp
    | some a =>
      rw [ha] at h
      simp only [Bool.true_and, Option.map_some, Option.getD_some] at h
      simp [normAF_DI a h]

theorem plainPayload_normalise (p : Packet) (h : PlainPayload p) : PlainPayload (normalise p) :=
  ⟨h.1, h.2.1, pktDI_normalise p h.2.2.1, h.2.2.2⟩

theorem chain_normalise (ps : Bool) (v : Nat) (l : List Packet) (h : Chain ps v l) : Chain ps v (l.map normalise) := by
  induction l generalizing ps v with
  | nil => trivial
  | cons p r ih =>
    obtain ⟨h1, h2, h3, h4⟩ := h
    exact ⟨plainPayload_normalise p h1, h2, h3, ih _ _ h4⟩

/-! ## M3 — one unit through `parseData` -/

/-- an elementary-stream PID as the demuxer sees it: not the CAT PID (whose units are dropped) and not a PID whose
payload is parsed as PSI (`isPSIPayload`: PID 0, the PMT PIDs of the program map, 0x10–0x14, 0x1e, 0x1f) -/
def ESPid (pid : Nat) (pm : ProgramMap) : Prop := pid ≠ 1 ∧ isPSIPayload pid pm = false

theorem ESPid.notEarly {pid : Nat} {pm : ProgramMap} (h : ESPid pid pm) : (pid == 0 || pm.has pid) = false := by
  have := h.2
  unfold isPSIPayload at this
  rw [Bool.or_eq_false_iff] at this
  exact this.1

/-- what `NextData` returns for a PES unit: the first packet without its payload, the PES, the PID -/
def pesDelivered (pid : Nat) (hdr : PESHeader) (data : Bytes) (first : Packet) : DemuxerData :=
  { firstPacket := some { first with payload := [] },
    pes := some { data := data, header := { hdr with packetLength := pesPacketLengthFor hdr data.length } },
    pid := pid }

theorem pesHeaderBytes_start (h : PESHeader) (n : Nat) : ∃ r, pesHeaderBytes h n = 0 :: 0 :: 1 :: r := by
  unfold pesHeaderBytes
  exact ⟨_, by simp only [List.cons_append, List.nil_append]; rfl⟩

theorem isPESPayload_written (h : PESHeader) (n : Nat) (data : Bytes) : isPESPayload (pesHeaderBytes h n ++ data) = true := by
  obtain ⟨r, hr⟩ := pesHeaderBytes_start h n
  rw [hr]
  simp [isPESPayload]

/-- **M3**: a group of packets on an elementary-stream PID whose concatenated payload is a written PES packet
(`pesHeaderBytes hdr data.length ++ data`, header `PESHeaderOk`) is parsed by `parseData` into exactly one
`DemuxerData`: the first packet (payload removed), the PES with the written payload and the written header
(`PacketLength` as the writer computed it), the PID; no error. -/
theorem parseData_pes_unit (pm : ProgramMap) (first : Packet) (rest : List Packet) (hdr : PESHeader) (data : Bytes)
    (hpid : ESPid first.header.pid pm) (hok : PESHeaderOk hdr)
    (hc : concatPayload (first :: rest) = pesHeaderBytes hdr data.length ++ data) :
    parseData (first :: rest) .none pm = .ok [pesDelivered first.header.pid hdr data first] := by
  have h1 : (first.header.pid == 1) = false := by simpa using hpid.1
  have hv : parsePESData.val (pesHeaderBytes hdr data.length ++ data)
      = .ok { data := data, header := { hdr with packetLength := pesPacketLengthFor hdr data.length } } := by
    unfold P.val
    rw [parsePESData_written hdr data hok]
  unfold parseData
  simp only [List.headD_cons, hc, h1, hpid.2, isPESPayload_written, hv, Bool.false_eq_true, if_false, if_true]
  rfl

/-! ## M4 — a PID's units through the pool and `parseData` -/

/-- the groups of packets of `pid` handed to `parseData` while the packet stream `s` is read from an empty pool (in
order), followed by the group the end-of-stream drain hands over for `pid` -/
def groupsOn (pm : ProgramMap) (pid : Nat) (s : List Packet) : List (List Packet) :=
  (C07.flushesOf pm pid [] s).filter (fun g => !g.isEmpty) ++
    (if ((C07.queueAfter pm [] s).get pid).isEmpty then [] else [(C07.queueAfter pm [] s).get pid])

/-- what the demuxer delivers for `pid`: `parseData` (no custom parser) of each group, in order -/
def deliveredOn (pm : ProgramMap) (pid : Nat) (s : List Packet) : List (Res (List DemuxerData)) :=
  (groupsOn pm pid s).map fun g => parseData g .none pm

/-- packets without payload (adaptation-field-only packets) leave no trace in the pool -/
theorem flushes_ignore_nopayload (pm : ProgramMap) (pid : Nat) (s : List Packet) (pool : Pool) :
    (C07.flushesOf pm pid pool s).filter (fun g => !g.isEmpty)
      = (C07.flushesOf pm pid pool (s.filter (·.header.hasPayload))).filter (fun g => !g.isEmpty) ∧
    C07.queueAfter pm pool s = C07.queueAfter pm pool (s.filter (·.header.hasPayload)) := by
  induction s generalizing pool with
  | nil => exact ⟨rfl, rfl⟩
  | cons p r ih =>
    by_cases hp : p.header.hasPayload = true
    · have hf : (p :: r).filter (·.header.hasPayload) = p :: r.filter (·.header.hasPayload) := by simp [hp]
      rw [hf]
      obtain ⟨i1, i2⟩ := ih (poolAdd pm pool p).2
      constructor
      · simp only [C07.flushesOf]
        split
        · simp only [List.filter_cons, i1]
        · exact i1
      · simp only [C07.queueAfter, i2]
    · have hp' : p.header.hasPayload = false := by simpa using hp
      have hf : (p :: r).filter (·.header.hasPayload) = r.filter (·.header.hasPayload) := by simp [hp']
      rw [hf]
      have hig := C07.poolAdd_ignores pm pool p (Or.inr hp')
      obtain ⟨i1, i2⟩ := ih pool
      constructor
      · simp only [C07.flushesOf, hig]
        split
        · simpa using i1
        · exact i1
      · simp only [C07.queueAfter, hig, i2]

theorem dropLast_getLast_map {α β : Type} (f : α → β) (l : List α) :
    l.dropLast.map f ++ (l.getLast?.map f).toList = l.map f := by
  induction l with
  | nil => rfl
  | cons x r ih =>
    cases r with
    | nil => rfl
    | cons y t =>
      rw [List.dropLast_cons_cons, List.getLast?_cons_cons, List.map_cons, List.cons_append, ih]
      rfl

/-- the groups handed to `parseData` are the units, each once, in order -/
theorem groupsOn_units (pm : ProgramMap) (pid : Nat) (s : List Packet) (us : List UnitPk)
    (hnp : (pid == 0 || pm.has pid) = false)
    (hf : (s.filter fun p => p.header.pid == pid && p.header.hasPayload) = us.flatMap UnitPk.packets)
    (hon : ∀ u ∈ us, C02.unitOnPID pid u) (hc : ChainOK [] us) :
    groupsOn pm pid s = us.map UnitPk.packets := by
  obtain ⟨g1, g2⟩ := flushes_ignore_nopayload pm pid s []
  have hf' : ((s.filter (·.header.hasPayload)).filter fun p => p.header.pid == pid) = us.flatMap UnitPk.packets := by
    rw [← hf, List.filter_filter]
  obtain ⟨u1, u2⟩ := C02.units_flushed pm pid (s.filter (·.header.hasPayload)) us hnp hf' hon hc
  unfold groupsOn
  rw [g1, g2, u1]
  cases us with
  | nil =>
    have hs : ((s.filter (·.header.hasPayload)).filter fun p => p.header.pid == pid) = [] := by rw [hf']; rfl
    have hq := (C07.per_pid pm pid (s.filter (·.header.hasPayload)) [] [] rfl).2
    rw [hs] at hq
    simp only [C07.queueAfter, Pool.get] at hq
    simp [hq]
  | cons u r =>
    rw [u2 (by simp)]
    have hl : ∃ w, (u :: r).getLast? = some w := ⟨(u :: r).getLast (by simp), List.getLast?_eq_some_getLast (by simp)⟩
    obtain ⟨w, hw⟩ := hl
    have := dropLast_getLast_map UnitPk.packets (u :: r)
    rw [hw] at this ⊢
    simp only [Option.map_some, Option.toList_some, Option.getD_some] at this ⊢
    have hne : w.packets.isEmpty = false := by simp [UnitPk.packets]
    rw [hne]
    exact this

/-- one written PES as the demuxer receives it: effective header, payload, the packets carrying it -/
structure PESUnit where
  hdr : PESHeader
  data : Bytes
  unit : UnitPk

/-- **M4 (pool + `parseData` level)**: let the packets of `pid` that carry payload be, in stream order, the packets of
units `ws` (anything may be interleaved on other PIDs; packets of `pid` without payload may stand anywhere), each unit
a start packet with the unit-start flag and continuation packets, continuity counters running on within and across
units, no announced discontinuity (`ChainOK`), its payloads concatenating to a written PES packet with a
`PESHeaderOk` header.  Then what the demuxer delivers for `pid` — the groups flushed when the next unit starts and
the last one at the end-of-stream drain, each through `parseData` — is exactly one PES per unit, in order, each with
its first packet, payload, header and PID; no error, nothing lost, duplicated or reordered. -/
theorem units_delivered (pm : ProgramMap) (pid : Nat) (hes : ESPid pid pm) (s : List Packet) (ws : List PESUnit)
    (hf : (s.filter fun p => p.header.pid == pid && p.header.hasPayload) = ws.flatMap (·.unit.packets))
    (hon : ∀ w ∈ ws, C02.unitOnPID pid w.unit) (hc : ChainOK [] (ws.map (·.unit)))
    (hw : ∀ w ∈ ws, PESHeaderOk w.hdr ∧
      concatPayload w.unit.packets = pesHeaderBytes w.hdr w.data.length ++ w.data) :
    deliveredOn pm pid s = ws.map fun w => .ok [pesDelivered pid w.hdr w.data w.unit.first] := by
  have hg := groupsOn_units pm pid s (ws.map (·.unit)) hes.notEarly
    (by rw [hf]; simp [List.flatMap_map])
    (by intro u hu; obtain ⟨w, hw1, rfl⟩ := List.mem_map.mp hu; exact hon w hw1) hc
  unfold deliveredOn
  rw [hg, List.map_map, List.map_map]
  apply List.map_congr_left
  intro w hwm
  obtain ⟨h1, h2⟩ := hw w hwm
  have hp : w.unit.first.header.pid = pid := hon w hwm w.unit.first (by simp [UnitPk.packets])
  simp only [Function.comp, UnitPk.packets] at h2 ⊢
  rw [parseData_pes_unit pm w.unit.first w.unit.rest w.hdr w.data (by rw [hp]; exact hes) h1 h2, hp]

/-! ## linking to the muxer: every chunk is a `writePacket` image of 188 bytes, whose PID the parser reads back -/

theorem P_bind_ok_inv {α β} {x : P α} {f : α → P β} {i : It} {r : β × It} (h : (x >>= f) i = .ok r) :
    ∃ a i', x i = .ok (a, i') ∧ f a i' = .ok r := by
  rw [P.bind_run] at h
  split at h
  · exact ⟨_, _, ‹_›, h⟩
  · cases h
  · cases h

theorem P_val_ok_inv {α} {x : P α} {bs : Bytes} {a : α} (h : x.val bs = .ok a) : ∃ i', x ⟨bs, 0⟩ = .ok (a, i') := by
  unfold P.val at h
  split at h
  · rename_i a' i' hx
    cases h
    exact ⟨i', hx⟩
  · cases h
  · cases h

theorem parsePacket_pid_188 (bs : Bytes) (p : Packet) (hl : bs.length = 188)
    (h : (parsePacket none).val bs = .ok p) : p.header.pid = pktPID bs := by
  obtain ⟨i', h⟩ := P_val_ok_inv h
  unfold parsePacket at h
  obtain ⟨b, i1, h1, h⟩ := P_bind_ok_inv h
  have e1 : i1 = ⟨bs, 1⟩ := by
    simp [It.nextByte, hl] at h1
    exact h1.2.symm
  subst e1
  split at h
  · cases h
  obtain ⟨l, i2, h2, h⟩ := P_bind_ok_inv h
  simp only [It.len, Res.ok.injEq, Prod.mk.injEq] at h2
  obtain ⟨rfl, rfl⟩ := h2
  obtain ⟨_, i3, h3, h⟩ := P_bind_ok_inv h
  simp only [It.seek, Res.ok.injEq, Prod.mk.injEq, true_and] at h3
  subst h3
  obtain ⟨o, i4, h4, h⟩ := P_bind_ok_inv h
  simp only [It.offset, Res.ok.injEq, Prod.mk.injEq] at h4
  obtain ⟨rfl, rfl⟩ := h4
  obtain ⟨hd, i5, h5, h⟩ := P_bind_ok_inv h
  have ehd : hd.pid = pktPID bs := by
    unfold parsePacketHeader at h5
    obtain ⟨x, i6, h6, h5⟩ := P_bind_ok_inv h5
    simp only [P.pure_run, Res.ok.injEq, Prod.mk.injEq] at h5
    simp only [It.nextBytes, hl, mpegTsPacketSize] at h6
    simp at h6
    obtain ⟨rfl, _⟩ := h6
    rw [← h5.1]
    simp [headerOfBytes, pktPID, List.getD_eq_getElem?_getD]
  obtain ⟨af, i6, _, h⟩ := P_bind_ok_inv h
  simp only at h
  split at h
  · cases h
  split at h
  · obtain ⟨_, i7, _, h⟩ := P_bind_ok_inv h
    obtain ⟨pl, i8, _, h⟩ := P_bind_ok_inv h
    simp only [P.pure_run, Res.ok.injEq, Prod.mk.injEq] at h
    rw [← h.1]; exact ehd
  · simp only [P.pure_run, Res.ok.injEq, Prod.mk.injEq] at h
    rw [← h.1]; exact ehd

theorem afBytes_length_le (a : PacketAdaptationField) (h1 : a.isOneByteStuffing = false) :
    ((afBytes a).length : Int) ≤ 1 + afSize a := Int.le_of_eq (Astits.MuxWhole.afBytes_length a h1)

theorem writePacket_length188 (p : Packet) (bs : Bytes) (h : writePacket p 188 = .ok bs) : bs.length = 188 := by
  unfold writePacket at h
  split at h
  · cases h
  · split at h
    · cases h
    · split at h
      · cases h
      · rename_i h1 h2 h3
        simp only [Res.ok.injEq] at h
        subst h
        have hhead : (([syncByte] ++ hdrBytes p.header ++ (if p.header.hasAdaptationField = true then afBytes (p.adaptationField.getD default) else [])).length : Int)
            ≤ packetHeadSize p := by
          unfold packetHeadSize
          simp only [List.length_append, List.length_cons, List.length_nil, C04.hdrBytes_length]
          by_cases hc : p.header.hasAdaptationField = true
          · simp only [hc, if_true]
            cases ha : p.adaptationField with
            | none => exact absurd ⟨hc, by simp [ha]⟩ h1
            | some a =>
              simp only [Option.getD_some]
              cases ho : a.isOneByteStuffing with
              | true => simp [afBytes, ho]
              | false =>
                have := afBytes_length_le a ho
                simp only [Bool.false_eq_true, if_false]
                omega
          · simp [hc]
        have hbody : ((if p.header.hasPayload = true then p.payload else []).length : Int) ≤ p.payload.length := by
          split <;> simp
        simp only [List.length_append, List.length_replicate] at hhead ⊢
        omega

def IsImage (c : Bytes) : Prop := ∃ p, writePacket p 188 = .ok c

theorem generatePAT_image (m : Mux) (bs : Bytes) (m' : Mux) (h : m.generatePAT = (.ok bs, m')) : IsImage bs := by
  unfold Mux.generatePAT at h
  simp only at h
  split at h
  · split at h
    · rename_i c hw
      simp only [Prod.mk.injEq, Res.ok.injEq] at h
      rw [← h.1]; exact ⟨_, hw⟩
    · simp at h
    · simp at h
  · simp at h
  · simp at h

theorem generatePMT_image (m : Mux) (bs : Bytes) (m' : Mux) (h : m.generatePMT = (.ok bs, m')) : IsImage bs := by
  unfold Mux.generatePMT at h
  split at h
  · simp at h
  · simp only at h
    split at h
    · split at h
      · rename_i c hw
        simp only [Prod.mk.injEq, Res.ok.injEq] at h
        rw [← h.1]; exact ⟨_, hw⟩
      · simp at h
      · simp at h
    · simp at h
    · simp at h

theorem writeTables_images (m : Mux) (cs : List Bytes) (h : m.writeTables.1 = .ok cs) : ∀ c ∈ cs, IsImage c := by
  unfold Mux.writeTables at h
  split at h
  · rename_i pat m1 h1
    split at h
    · rename_i pmt m2 h2
      simp only [Res.ok.injEq] at h
      subst h
      intro c hc
      simp only [List.mem_cons, List.not_mem_nil, or_false] at hc
      rcases hc with rfl | rfl
      · exact generatePAT_image m _ m1 h1
      · exact generatePMT_image m1 _ m2 h2
    · cases h
    · cases h
  · cases h
  · cases h

theorem retransmitTables_images (m : Mux) (force : Bool) (cs : List Bytes) (h : (m.retransmitTables force).1 = .ok cs) :
    ∀ c ∈ cs, IsImage c := by
  unfold Mux.retransmitTables at h
  simp only at h
  split at h
  · simp only [Res.ok.injEq] at h; subst h; intro c hc; cases hc
  · split at h
    · rename_i cs' m' hw
      simp only [Res.ok.injEq] at h; subst h
      exact writeTables_images _ _ (by rw [hw])
    · rename_i r m' hne hw
      simp only at h
      exact writeTables_images _ _ (by rw [hw]; exact h)

theorem writeTablesCall_images (m : Mux) : ∀ c ∈ m.writeTablesCall.1.chunks, IsImage c := by
  unfold Mux.writeTablesCall
  split
  · rename_i cs m' hw
    exact writeTables_images m cs (by rw [hw])
  · intro c hc; cases hc
  · intro c hc; cases hc

/-- a `WriteData` call that returned neither an error nor a panic -/
def Succeeded (m : Mux) (d : MuxerData) : Prop := (m.writeData d).1.err = none ∧ (m.writeData d).1.panic = false

theorem writeData_success (m : Mux) (d : MuxerData) (hs : Succeeded m d) :
    ∃ cc tcs m1 l cc' af' acc', m.ccOf d.pid = some cc ∧
      ¬ 6 + calcPESOptionalHeaderLength d.pes.header.optionalHeader > 184 ∧
      m.retransmitTables (dataForce m d) = (.ok tcs, m1) ∧
      dataLoop m1 d cc = (.ok l, cc', af', acc') ∧
      (m.writeData d).1.chunks = tcs ++ acc' ∧ (m.writeData d).2.1 = m1.setCC d.pid cc' := by
  obtain ⟨he, hp⟩ := hs
  cases hcc : m.ccOf d.pid with
  | none => exfalso; unfold Mux.writeData at he; rw [hcc] at he; simp at he
  | some cc =>
    by_cases hfit : 6 + calcPESOptionalHeaderLength d.pes.header.optionalHeader > 184
    · exfalso; unfold Mux.writeData at he; rw [hcc] at he; simp [hfit] at he
    · cases hr : m.retransmitTables (dataForce m d) with
      | mk r m1 =>
        have hr' := hr
        unfold Mux.writeData at he hp
        rw [hcc] at he hp
        simp only [hfit, if_false] at he hp
        unfold dataForce at hr
        rw [hr] at he hp
        cases r with
        | err e => simp at he
        | panic => simp at hp
        | ok tcs =>
          obtain ⟨h1, h2, _⟩ := writeData_ok_tables m d cc hcc hfit tcs m1 hr'
          have key : ∃ l cc' af' acc', dataLoop m1 d cc = (.ok l, cc', af', acc') := by
            unfold dataLoop dataHdr
            simp only at he hp ⊢
            revert he hp
            generalize writeDataLoop _ _ _ _ _ _ _ _ _ = L
            obtain ⟨r, cc', af', acc'⟩ := L
            intro he hp
            cases r with
            | ok l => exact ⟨l, cc', af', acc', rfl⟩
            | err e => simp at he
            | panic => simp at hp
          obtain ⟨l, cc', af', acc', hk⟩ := key
          rw [hk] at h1 h2
          exact ⟨cc, tcs, m1, l, cc', af', acc', rfl, hfit, rfl, hk, h1, h2⟩

/-- the packets a `WriteData` call made in state `m` builds on its PID -/
def callPkts (m : Mux) (d : MuxerData) : List Packet :=
  loopPkts d.pid (dataHdr m d) (d.pes.data.length + 2) d.pes.data true d.adaptationField.isSome d.adaptationField
    ((m.ccOf d.pid).getD default)

theorem dataHdr_congr (m m1 : Mux) (d : MuxerData) (h : m1.streams = m.streams) : dataHdr m1 d = dataHdr m d := by
  unfold dataHdr; rw [h]

theorem Written.images {pks : List Packet} {cs : List Bytes} (h : Written pks cs) : ∀ c ∈ cs, IsImage c := by
  induction pks generalizing cs with
  | nil => cases cs with
    | nil => intro c hc; cases hc
    | cons _ _ => exact h.elim
  | cons p pks ih => cases cs with
    | nil => exact h.elim
    | cons c cs =>
      intro x hx
      rcases List.mem_cons.mp hx with rfl | hx
      · exact ⟨p, h.1⟩
      · exact ih h.2 x hx

/-- table chunks: `writePacket` images on PID 0 or 0x1000 -/
def TableChunks (tcs : List Bytes) : Prop := ∀ c ∈ tcs, IsImage c ∧ (pktPID c = 0 ∨ pktPID c = 4096)

theorem tables_chunks {m m' : Mux} {cs : List Bytes} (ht : TablesEmitted m cs m' ∨ TablesSilent m cs m')
    (hi : ∀ c ∈ cs, IsImage c) : TableChunks cs := by
  intro c hc
  refine ⟨hi c hc, ?_⟩
  rcases ht with ⟨pat, pmt, rfl, a1, _, _, b1, _⟩ | ht
  · simp only [List.mem_cons, List.not_mem_nil, or_false] at hc
    rcases hc with rfl | rfl
    · exact Or.inl a1
    · exact Or.inr b1
  · rw [ht.1] at hc; cases hc

/-- **anatomy of a successful `WriteData`** -/
theorem data_call (m : Mux) (d : MuxerData) (hinv : MuxInv m) (hs : Succeeded m d) :
    ∃ tcs cs cc, (m.writeData d).1.chunks = tcs ++ cs ∧ TableChunks tcs ∧
      Written (callPkts m d) cs ∧ (∀ c ∈ cs, pktPID c = d.pid) ∧
      m.ccOf d.pid = some cc ∧ CCInv cc ∧ d.pid ≠ 0 ∧ d.pid ≠ 4096 ∧ d.pid < 8192 ∧
      stored m d.pid = cc.value ∧
      stored (m.writeData d).2.1 d.pid = (lastCC (payloadOnly (callPkts m d))).getD cc.value ∧
      (d.pes.data ≠ [] → concatPayload (payloadOnly (callPkts m d))
        = pesHeaderBytes (dataHdr m d) d.pes.data.length ++ d.pes.data) := by
  obtain ⟨cc, tcs, m1, l, cc', af', acc', hcc, hfit, hr, hloop, hch, hst⟩ := writeData_success m d hs
  have hlk : lookup m.esCC d.pid = some cc := hcc
  have hes := hinv.es _ (lookup_mem _ _ _ hlk)
  have ht : TablesEmitted m tcs m1 ∨ TablesSilent m tcs m1 := by
    rcases retransmitTables_spec m (dataForce m d) hinv.pat hinv.pmt with ⟨tcs', hr', ht⟩ | ⟨hr', _⟩
    · rw [hr] at hr' ht
      simp only [Res.ok.injEq] at hr'
      subst hr'
      exact ht
    · rw [hr] at hr'; cases hr'
  have hstep1 : MuxInv m1 ∧ StepAdv m tcs m1 := by
    rcases ht with ht | ht
    · exact tablesEmitted_step hinv ht
    · exact tablesSilent_step hinv ht
  have hsame : SameES m m1 := by
    rcases ht with ⟨_, _, _, _, _, _, _, _, _, _, _, hs⟩ | ht
    · exact hs
    · exact ht.2.2.2
  have hlk1 : lookup m1.esCC d.pid = some cc := by rw [hsame.esCC]; exact hlk
  have hhdr : dataHdr m1 d = dataHdr m d := dataHdr_congr m m1 d hsame.streams
  unfold dataLoop at hloop
  rw [hhdr] at hloop
  obtain ⟨cs, e1, e2, e3, e4, e5⟩ := loop_written d.pid (dataHdr m d) _ _ _ _ _ _ _ _ _ _ _ hloop
  simp only [List.nil_append] at e1 e2
  subst e2
  obtain ⟨new, n1, n2, _, n4, _, _⟩ := writeDataLoop_counters d.pid (dataHdr m d) hes.2.2.2 (d.pes.data.length + 2) d.pes.data true
    d.adaptationField.isSome d.adaptationField cc [] hes.1
  rw [hloop] at n1 n4
  simp only [List.nil_append] at n1 n4
  subst n1
  obtain ⟨_, i2, _⟩ := setCC_step m1 d.pid cc cc' hstep1.1 n4 hlk1
  have hcp : callPkts m d = loopPkts d.pid (dataHdr m d) (d.pes.data.length + 2) d.pes.data true d.adaptationField.isSome
      d.adaptationField cc := by
    unfold callPkts; rw [hcc]; rfl
  refine ⟨tcs, acc', cc, hch, tables_chunks ht (retransmitTables_images m _ tcs (by rw [hr])), by rw [hcp]; exact e3, n2, hcc,
    hes.1, hes.2.1, hes.2.2.1, hes.2.2.2, stored_es_some m d.pid cc hes.2.1 hes.2.2.1 hlk, ?_, ?_⟩
  · rw [hst, i2, hcp, e5]
  · intro hne
    rw [hcp, e4 (fun _ => hne)]; rfl

/-! ### one call as a unit -/

/-- input of a `WriteData` call (made in state `m`) for which the round trip is claimed: the effective PES header
(stream id defaulted from the stream type) is `PESHeaderOk`, the adaptation field — if any — is a `CallerAF`, there
is payload -/
structure GoodData (m : Mux) (d : MuxerData) : Prop where
  hdr : PESHeaderOk (dataHdr m d)
  af : ∀ a, d.adaptationField = some a → CallerAF a
  data : d.pes.data ≠ []

/-- the unit the demuxer receives for the call: the payload-carrying packets, as parsed back -/
def unitOfCall (m : Mux) (d : MuxerData) : UnitPk :=
  ⟨((payloadOnly (callPkts m d)).map normalise).headD default, ((payloadOnly (callPkts m d)).map normalise).tail⟩

def writeOf (m : Mux) (d : MuxerData) : PESUnit := { hdr := dataHdr m d, data := d.pes.data, unit := unitOfCall m d }

def lastOf (u : UnitPk) : Nat := (lastCC u.packets).getD 0

theorem chain_continues (v : Nat) (r : List Packet) (hv : v ≤ 15) (h : Chain false v r) : Continues v r := by
  induction r generalizing v with
  | nil => trivial
  | cons p r ih =>
    obtain ⟨h1, h2, h3, h4⟩ := h
    exact ⟨h1, h2, by rw [h3, next_mod v hv], ih _ (by have := h1.2.2.2; omega) h4⟩

theorem lastCC_map_normalise (l : List Packet) : lastCC (l.map normalise) = lastCC l := by
  unfold lastCC
  rw [List.getLast?_map, Option.map_map]
  rfl

theorem AFHyp_of_caller (af : Option PacketAdaptationField) (h : ∀ a, af = some a → CallerAF a) : AFHyp af.isSome af := by
  intro hs
  cases af with
  | none => cases hs
  | some a => exact ⟨a, rfl, h a rfl⟩

theorem callPkts_eq (m : Mux) (d : MuxerData) (cc : WrappingCounter) (hcc : m.ccOf d.pid = some cc) :
    callPkts m d = loopPkts d.pid (dataHdr m d) (d.pes.data.length + 2) d.pes.data true d.adaptationField.isSome
      d.adaptationField cc := by
  unfold callPkts; rw [hcc]; rfl

/-- **one successful, well-formed `WriteData` as the demuxer sees it** -/
theorem call_unit (m : Mux) (d : MuxerData) (hinv : MuxInv m) (hs : Succeeded m d) (hg : GoodData m d) :
    (unitOfCall m d).packets = (payloadOnly (callPkts m d)).map normalise ∧ UnitOK (unitOfCall m d) ∧
    (unitOfCall m d).first.header.continuityCounter = next (stored m d.pid) ∧
    stored (m.writeData d).2.1 d.pid = lastOf (unitOfCall m d) ∧
    C02.unitOnPID d.pid (unitOfCall m d) ∧
    concatPayload (unitOfCall m d).packets = pesHeaderBytes (dataHdr m d) d.pes.data.length ++ d.pes.data := by
  obtain ⟨tcs, cs, cc, _, _, _, _, hcc, hci, _, _, hpid, hsm, hst, hconc⟩ := data_call m d hinv hs
  have hcp := callPkts_eq m d cc hcc
  have hafh := AFHyp_of_caller d.adaptationField hg.af
  have hchain := loop_chain d.pid (dataHdr m d) (d.pes.data.length + 2) d.pes.data true d.adaptationField.isSome
    d.adaptationField cc hci hafh
  have hgood := loop_good d.pid (dataHdr m d) hpid (d.pes.data.length + 2) d.pes.data true d.adaptationField.isSome
    d.adaptationField cc hci hafh
  rw [← hcp] at hchain hgood
  have hconc := hconc hg.data
  cases hpo : payloadOnly (callPkts m d) with
  | nil =>
    rw [hpo] at hconc
    obtain ⟨r, hr⟩ := pesHeaderBytes_start (dataHdr m d) d.pes.data.length
    rw [hr] at hconc
    cases hconc
  | cons f r =>
    have hu : unitOfCall m d = ⟨normalise f, r.map normalise⟩ := by
      unfold unitOfCall; rw [hpo]; rfl
    rw [hpo] at hchain hconc hst
    have hmem : ∀ p ∈ f :: r, p.header.hasPayload = true ∧ p.header.pid = d.pid := by
      intro p hp
      have hp' : p ∈ payloadOnly (callPkts m d) := by rw [hpo]; exact hp
      exact ⟨payloadOnly_mem hp', (hgood p (List.mem_filter.mp hp').1).2.2⟩
    have hcn := chain_normalise _ _ _ hchain
    obtain ⟨c1, c2, c3, c4⟩ := hcn
    rw [hu]
    refine ⟨rfl, ⟨c1, c2, chain_continues _ _ (Nat.le_of_lt_succ c1.2.2.2) c4⟩, by rw [hsm]; exact c3, ?_, ?_, ?_⟩
    · rw [hst]
      unfold lastOf UnitPk.packets
      show _ = (lastCC ((f :: r).map normalise)).getD 0
      rw [lastCC_map_normalise]
      simp [lastCC_getD_cons]
    · intro p hp
      simp only [UnitPk.packets] at hp
      have hp' : p ∈ (f :: r).map normalise := hp
      obtain ⟨q, hq, rfl⟩ := List.mem_map.mp hp'
      exact (hmem q hq).2
    · show concatPayload ((f :: r).map normalise) = _
      rw [concatPayload_map_normalise _ (fun p hp => (hmem p hp).1), hconc]

/-! ### a history of muxer calls, seen on one PID -/

/-- the packets of `pid` that reach the pool: on `pid` and carrying payload -/
def onPid (pid : Nat) (p : Packet) : Bool := p.header.pid == pid && p.header.hasPayload

/-- condition on each call of the history, in the state in which it is made: admissible (`OpOK`); every
`WriteData` succeeded; those on `pid` have `GoodData` input -/
def HistOK (pid : Nat) (m : Mux) (op : Op) : Prop :=
  OpOK op ∧ ∀ d, op = .data d → Succeeded m d ∧ (d.pid = pid → GoodData m d)

def opWrites (pid : Nat) (m : Mux) : Op → List PESUnit
  | .data d => if d.pid = pid then [writeOf m d] else []
  | _ => []

/-- the PES written on `pid` by the history, in order, each with the state-dependent header actually written -/
def writesOn (pid : Nat) : Mux → List Op → List PESUnit
  | _, [] => []
  | m, op :: ops => opWrites pid m op ++ writesOn pid (step m op).2 ops

/-- units whose counters run on from the stored value `v` -/
def UnitsFrom : Nat → List UnitPk → Prop
  | _, [] => True
  | v, u :: r => UnitOK u ∧ u.first.header.continuityCounter = next v ∧ UnitsFrom (lastOf u) r

theorem continues_plain (prev : Nat) (r : List Packet) (h : Continues prev r) : ∀ x ∈ r, PlainPayload x := by
  induction r generalizing prev with
  | nil => intro x hx; cases hx
  | cons y r ih =>
    obtain ⟨hy, _, _, hr⟩ := h
    intro x hx
    rcases List.mem_cons.mp hx with rfl | hx'
    · exact hy
    · exact ih _ hr x hx'

theorem unitOK_plain (u : UnitPk) (h : UnitOK u) : ∀ x ∈ u.packets, PlainPayload x := by
  intro x hx
  rcases List.mem_cons.mp hx with rfl | hx'
  · exact h.1
  · exact continues_plain _ _ h.2.2 x hx'

theorem unit_last (u : UnitPk) (h : UnitOK u) :
    ∃ q' last, u.packets = q' ++ [last] ∧ last.header.continuityCounter < 16 ∧ last.header.continuityCounter = lastOf u := by
  have hne : u.packets ≠ [] := by simp [UnitPk.packets]
  refine ⟨u.packets.dropLast, u.packets.getLast hne, (List.dropLast_concat_getLast hne).symm, ?_, ?_⟩
  · exact (unitOK_plain u h _ (List.getLast_mem hne)).2.2.2
  · unfold lastOf lastCC
    rw [List.getLast?_eq_some_getLast hne]
    rfl

theorem chainOK_of_unitsFrom (q : List Packet) (v : Nat) (us : List UnitPk)
    (hq : q = [] ∨ ∃ q' last, q = q' ++ [last] ∧ last.header.continuityCounter < 16 ∧ last.header.continuityCounter = v)
    (h : UnitsFrom v us) : ChainOK q us := by
  induction us generalizing q v with
  | nil => trivial
  | cons u r ih =>
    obtain ⟨h1, h2, h3⟩ := h
    refine ⟨h1, ?_, ih u.packets (lastOf u) (Or.inr (unit_last u h1)) h3⟩
    rcases hq with rfl | ⟨q', last, rfl, hl, hv⟩
    · exact Or.inl rfl
    · refine Or.inr ⟨q', last, rfl, hl, ?_⟩
      rw [h2, ← hv, next_mod _ (Nat.le_of_lt_succ hl)]

theorem offpid_filter (pid : Nat) (cs : List Bytes) (s : List Packet) (h : ∀ c ∈ cs, IsImage c ∧ pktPID c ≠ pid)
    (hs : ParsesTo cs s) : s.filter (onPid pid) = [] := by
  induction cs generalizing s with
  | nil => rw [ParsesTo.nil_inv hs]; rfl
  | cons c cs ih =>
    cases s with
    | nil => rfl
    | cons p ps =>
      obtain ⟨⟨q, hq⟩, hne⟩ := h c (by simp)
      have hp := parsePacket_pid_188 c p (writePacket_length188 q c hq) hs.1
      have : onPid pid p = false := by
        unfold onPid
        have : (p.header.pid == pid) = false := by rw [hp]; simpa using hne
        rw [this]; rfl
      rw [List.filter_cons, this]
      exact ih ps (fun x hx => h x (by simp [hx])) hs.2

theorem ccsOn_none (p : Nat) (cs : List Bytes) (h : ∀ c ∈ cs, pktPID c ≠ p) : ccsOn p cs = [] := by
  unfold ccsOn
  have : cs.filter (fun c => pktPID c == p) = [] := by
    rw [List.filter_eq_nil_iff]
    intro c hc
    simpa using h c hc
  rw [this]; rfl

theorem stepOK_of_hist (pid : Nat) (m : Mux) (op : Op) (hinv : MuxInv m) (hok : HistOK pid m op) : StepOK m op :=
  ⟨hok.1, fun d hd => noBurn_of_noPanic m d hinv (hok.2 d hd).1.2⟩

theorem stored_offpid (pid : Nat) (m : Mux) (op : Op) (hinv : MuxInv m) (hok : StepOK m op)
    (h : ∀ c ∈ (step m op).1, pktPID c ≠ pid) : stored (step m op).2 pid = stored m pid := by
  have := (step_adv m op hinv hok).2 pid
  rw [ccsOn_none pid _ h] at this
  exact this.2

theorem filter_onPid_all (pid : Nat) (l : List Packet) (h : ∀ p ∈ l, p.header.pid = pid) :
    l.filter (onPid pid) = payloadOnly l := by
  unfold payloadOnly
  apply List.filter_congr
  intro p hp
  simp [onPid, h p hp]

/-- the chunks of a call that writes nothing on `pid` -/
theorem op_offpid_chunks (pid : Nat) (hp0 : pid ≠ 0) (hp1 : pid ≠ 4096) (m : Mux) (op : Op) (hinv : MuxInv m)
    (hok : HistOK pid m op) (hw : opWrites pid m op = []) :
    ∀ c ∈ (step m op).1, IsImage c ∧ pktPID c ≠ pid := by
  cases op with
  | add es => intro c hc; cases hc
  | remove p => intro c hc; cases hc
  | setPCR p => intro c hc; cases hc
  | tables =>
    intro c hc
    have hi := writeTablesCall_images m c hc
    rcases writeTablesCall_spec m hinv.pat hinv.pmt with ⟨pat, pmt, e, a1, _, _, b1, _⟩ | ⟨e, _⟩
    · have hc' : c ∈ m.writeTablesCall.1.chunks := hc
      rw [e] at hc'
      simp only [List.mem_cons, List.not_mem_nil, or_false] at hc'
      rcases hc' with rfl | rfl
      · exact ⟨hi, by rw [a1]; exact fun h => hp0 h.symm⟩
      · exact ⟨hi, by rw [b1]; exact fun h => hp1 h.symm⟩
    · have hc' : c ∈ m.writeTablesCall.1.chunks := hc
      rw [e] at hc'; cases hc'
  | data d =>
    have hd : d.pid ≠ pid := by
      intro h
      simp [opWrites, h] at hw
    obtain ⟨tcs, cs, cc, hch, htc, hwr, hcp, _⟩ := data_call m d hinv (hok.2 d rfl).1
    intro c hc
    have hc' : c ∈ (m.writeData d).1.chunks := hc
    rw [hch] at hc'
    rcases List.mem_append.mp hc' with h | h
    · obtain ⟨h1, h2⟩ := htc c h
      refine ⟨h1, ?_⟩
      rcases h2 with h2 | h2 <;> rw [h2]
      · exact fun h => hp0 h.symm
      · exact fun h => hp1 h.symm
    · exact ⟨hwr.images c h, by rw [hcp c h]; exact hd⟩

/-- **one call of the history, as the demuxer's pool sees it on `pid`** -/
theorem op_stream (pid : Nat) (hp0 : pid ≠ 0) (hp1 : pid ≠ 4096) (m : Mux) (op : Op) (hinv : MuxInv m)
    (hok : HistOK pid m op) (s : List Packet) (hs : ParsesTo (step m op).1 s) :
    s.filter (onPid pid) = (opWrites pid m op).flatMap (·.unit.packets) ∧
    (∀ r, UnitsFrom (stored (step m op).2 pid) r → UnitsFrom (stored m pid) ((opWrites pid m op).map (·.unit) ++ r)) ∧
    (∀ w ∈ opWrites pid m op, C02.unitOnPID pid w.unit ∧ PESHeaderOk w.hdr ∧
      concatPayload w.unit.packets = pesHeaderBytes w.hdr w.data.length ++ w.data) := by
  by_cases hw : opWrites pid m op = []
  · have hall := op_offpid_chunks pid hp0 hp1 m op hinv hok hw
    have hst := stored_offpid pid m op hinv (stepOK_of_hist pid m op hinv hok) (fun c hc => (hall c hc).2)
    rw [hw, hst]
    exact ⟨offpid_filter pid _ s hall hs, fun r hr => hr, fun w hw => by cases hw⟩
  · cases op with
    | add es => exact absurd rfl hw
    | remove p => exact absurd rfl hw
    | setPCR p => exact absurd rfl hw
    | tables => exact absurd rfl hw
    | data d =>
      have hd : d.pid = pid := by
        apply Classical.byContradiction
        intro h
        exact hw (by simp [opWrites, h])
      have hwe : opWrites pid m (.data d) = [writeOf m d] := by simp [opWrites, hd]
      obtain ⟨hsucc, hgood⟩ := hok.2 d rfl
      have hg := hgood hd
      obtain ⟨tcs, cs, cc, hch, htc, hwr, hcp, hcc, hci, _, _, hpid, _⟩ := data_call m d hinv hsucc
      obtain ⟨u1, u2, u3, u4, u5, u6⟩ := call_unit m d hinv hsucc hg
      have hs' : ParsesTo (tcs ++ cs) s := by
        have : (step m (.data d)).1 = tcs ++ cs := hch
        rw [this] at hs; exact hs
      obtain ⟨st, sc, rfl, hst, hsc⟩ := hs'.append_inv
      have hgoodp := loop_good d.pid (dataHdr m d) hpid (d.pes.data.length + 2) d.pes.data true d.adaptationField.isSome
        d.adaptationField cc hci (AFHyp_of_caller _ hg.af)
      rw [← callPkts_eq m d cc hcc] at hgoodp
      have hsc' : sc = (callPkts m d).map normalise :=
        hsc.unique (written_parses hwr (fun p hp => ⟨(hgoodp p hp).1, (hgoodp p hp).2.1⟩))
      have hf1 : st.filter (onPid pid) = [] := by
        refine offpid_filter pid tcs st (fun c hc => ?_) hst
        obtain ⟨h1, h2⟩ := htc c hc
        refine ⟨h1, ?_⟩
        rcases h2 with h2 | h2 <;> rw [h2]
        · exact fun h => hp0 h.symm
        · exact fun h => hp1 h.symm
      have hf2 : sc.filter (onPid pid) = (unitOfCall m d).packets := by
        rw [hsc', filter_onPid_all pid _ (by
          intro p hp
          obtain ⟨q, hq, rfl⟩ := List.mem_map.mp hp
          rw [normalise_header, (hgoodp q hq).2.2, hd]), payloadOnly_map_normalise, u1]
      rw [hwe]
      refine ⟨?_, ?_, ?_⟩
      · rw [List.filter_append, hf1, hf2]; simp [writeOf]
      · intro r hr
        have e1 : stored (step m (.data d)).2 pid = lastOf (unitOfCall m d) := by rw [← hd]; exact u4
        rw [e1] at hr
        exact ⟨u2, by rw [← hd]; exact u3, hr⟩
      · intro w hw
        simp only [List.mem_cons, List.not_mem_nil, or_false] at hw
        subst hw
        exact ⟨by rw [← hd]; exact u5, hg.hdr, u6⟩

/-- **the whole history, as the demuxer's pool sees it on `pid`** -/
theorem run_stream (pid : Nat) (hp0 : pid ≠ 0) (hp1 : pid ≠ 4096) (m : Mux) (ops : List Op) (hinv : MuxInv m)
    (hok : RunAll (HistOK pid) m ops) (s : List Packet) (hs : ParsesTo (run m ops).1 s) :
    s.filter (onPid pid) = (writesOn pid m ops).flatMap (·.unit.packets) ∧
    UnitsFrom (stored m pid) ((writesOn pid m ops).map (·.unit)) ∧
    (∀ w ∈ writesOn pid m ops, C02.unitOnPID pid w.unit ∧ PESHeaderOk w.hdr ∧
      concatPayload w.unit.packets = pesHeaderBytes w.hdr w.data.length ++ w.data) := by
  induction ops generalizing m s with
  | nil =>
    have : s = [] := ParsesTo.nil_inv hs
    subst this
    exact ⟨rfl, trivial, fun w hw => by cases hw⟩
  | cons op ops ih =>
    have hs' : ParsesTo ((step m op).1 ++ (run (step m op).2 ops).1) s := hs
    obtain ⟨s1, s2, rfl, h1, h2⟩ := hs'.append_inv
    obtain ⟨a1, a2, a3⟩ := op_stream pid hp0 hp1 m op hinv hok.1 s1 h1
    obtain ⟨b1, b2, b3⟩ := ih (step m op).2 (step_inv m op hinv hok.1.1) hok.2 s2 h2
    refine ⟨?_, ?_, ?_⟩
    · rw [List.filter_append, a1, b1]; simp [writesOn]
    · have := a2 _ b2
      simpa [writesOn] using this
    · intro w hw
      simp only [writesOn, List.mem_append] at hw
      rcases hw with hw | hw
      · exact a3 w hw
      · exact b3 w hw

/-- **C01, model level, pool + `parseData`**: end-to-end mux → demux on one elementary PID. -/
theorem history_delivered (pm : ProgramMap) (pid : Nat) (hes : ESPid pid pm) (hpmt : pid ≠ 4096)
    (m : Mux) (ops : List Op) (hinv : MuxInv m) (hok : RunAll (HistOK pid) m ops)
    (s : List Packet) (hs : ParsesTo (run m ops).1 s) :
    deliveredOn pm pid s =
      (writesOn pid m ops).map fun w => .ok [pesDelivered pid w.hdr w.data w.unit.first] := by
  have hp0 : pid ≠ 0 := by
    intro h
    have := hes.notEarly
    simp [h] at this
  obtain ⟨r1, r2, r3⟩ := run_stream pid hp0 hpmt m ops hinv hok s hs
  exact units_delivered pm pid hes s (writesOn pid m ops) r1 (fun w hw => (r3 w hw).1)
    (chainOK_of_unitsFrom [] _ _ (Or.inl rfl) r2) (fun w hw => (r3 w hw).2)

end Astits.MuxDemux
