/-
C01 support, final step — lifting the pool-level mux → demux theorem (`Proofs/MuxDemux.lean`) to sequences of
`Demux.NextData` calls: reader and packet buffer, the packet loop, the data buffer, the end-of-stream drain.
-/
import Astits.Proofs.MuxDemux
namespace Astits.MuxDemux
open Astits.MuxCounters Astits.PacketRT Astits.PESRT

instance (pid : Nat) (pm : ProgramMap) : Decidable (ESPid pid pm) := by unfold ESPid; infer_instance

/-! ## the reader and the packet buffer -/

theorem readFull_chunk (r : Reader) (c rest : Bytes) (hf : r.faultAt = none) (hd : r.data.drop r.pos = c ++ rest)
    (hc : c.length = 188) : r.readFull 188 = (c, none, { r with pos := r.pos + 188 }) := by
  have hlen : r.data.length - r.pos = 188 + rest.length := by
    have := congrArg List.length hd
    simp only [List.length_drop, List.length_append, hc] at this
    exact this
  have hfa : r.faultActive = none := by unfold Reader.faultActive; rw [hf]; split <;> rfl
  have htake : (r.data.drop r.pos).take 188 = c := by
    rw [hd, ← hc, List.take_left']
    rfl
  unfold Reader.readFull
  simp only [hfa, hlen, htake]
  rw [if_pos (by omega)]

theorem readFull_end (r : Reader) (hf : r.faultAt = none) (hd : r.data.drop r.pos = []) :
    r.readFull 188 = ([], some .eof, r) := by
  have hlen : r.data.length - r.pos = 0 := by
    have := congrArg List.length hd
    simpa using this
  have hfa : r.faultActive = none := by unfold Reader.faultActive; rw [hf]; split <;> rfl
  unfold Reader.readFull
  simp only [hfa, hlen]
  rw [if_neg (by omega), if_pos trivial]

theorem bufferNext_chunk (d : Demux) (fuel : Nat) (c rest : Bytes) (p : Packet) (hf : d.r.faultAt = none)
    (hd : d.r.data.drop d.r.pos = c ++ rest) (hc : c.length = 188) (hs : d.skipper = .none)
    (hp : (parsePacket none).val c = .ok p) :
    d.bufferNext 188 (fuel + 1) = (.ok p, { d with r := { d.r with pos := d.r.pos + 188 } }) := by
  unfold Demux.bufferNext
  simp only [readFull_chunk d.r c rest hf hd hc, hp]
  unfold Demux.consultSkipper
  simp only [hs]
  rfl

theorem bufferNext_end (d : Demux) (fuel : Nat) (hf : d.r.faultAt = none) (hd : d.r.data.drop d.r.pos = []) :
    d.bufferNext 188 (fuel + 1) = (.err .eof, d) := by
  unfold Demux.bufferNext
  simp only [readFull_end d.r hf hd]

/-- the demuxer reads whole 188-byte chunks `rest` from here on; no fault injected, no skipper, no custom parser,
packet size 188 (already fixed, or about to be fixed by the `DemuxerOptPacketSize(188)` option) -/
structure Rep (d : Demux) (rest : List Bytes) : Prop where
  data : d.r.data.drop d.r.pos = rest.flatten
  len : ∀ c ∈ rest, c.length = 188
  fault : d.r.faultAt = none
  skipper : d.skipper = .none
  parser : d.parser = .none
  size : d.packetSize = some 188 ∨ (d.packetSize = none ∧ d.optPacketSize = 188)

/-- same pool, program map and data buffer -/
def SameData (d d' : Demux) : Prop :=
  d'.pool = d.pool ∧ d'.programMap = d.programMap ∧ d'.dataBuffer = d.dataBuffer

theorem nextPacket_some (d : Demux) (hs : d.packetSize = some 188) :
    d.nextPacket = d.bufferNext 188 (d.r.data.length + 2) := by
  unfold Demux.nextPacket
  simp only [hs]

theorem nextPacket_none (d : Demux) (hs : d.packetSize = none) (ho : d.optPacketSize = 188) :
    d.nextPacket = ({ d with packetSize := some 188 } : Demux).bufferNext 188 (d.r.data.length + 2) := by
  unfold Demux.nextPacket
  simp only [hs, ho]
  rfl

theorem nextPacket_cons (d : Demux) (c : Bytes) (rest : List Bytes) (p : Packet) (h : Rep d (c :: rest))
    (hp : (parsePacket none).val c = .ok p) :
    ∃ d', d.nextPacket = (.ok p, d') ∧ Rep d' rest ∧ SameData d d' := by
  have hc := h.len c (by simp)
  have hd : d.r.data.drop d.r.pos = c ++ rest.flatten := by rw [h.data]; rfl
  have hdrop : d.r.data.drop (d.r.pos + 188) = rest.flatten := by
    rw [← List.drop_drop, hd, ← hc, List.drop_left']
    rfl
  rcases h.size with hs | ⟨hs, ho⟩
  · rw [nextPacket_some d hs, bufferNext_chunk d _ c rest.flatten p h.fault hd hc h.skipper hp]
    exact ⟨_, rfl, ⟨hdrop, fun x hx => h.len x (by simp [hx]), h.fault, h.skipper, h.parser, Or.inl hs⟩, rfl, rfl, rfl⟩
  · rw [nextPacket_none d hs ho,
      bufferNext_chunk { d with packetSize := some 188 } _ c rest.flatten p h.fault hd hc h.skipper hp]
    exact ⟨_, rfl, ⟨hdrop, fun x hx => h.len x (by simp [hx]), h.fault, h.skipper, h.parser, Or.inl rfl⟩, rfl, rfl, rfl⟩

theorem nextPacket_nil (d : Demux) (h : Rep d []) :
    ∃ d', d.nextPacket = (.err .eof, d') ∧ Rep d' [] ∧ SameData d d' := by
  have hd : d.r.data.drop d.r.pos = [] := by rw [h.data]; rfl
  rcases h.size with hs | ⟨hs, ho⟩
  · rw [nextPacket_some d hs, bufferNext_end d _ h.fault hd]
    exact ⟨_, rfl, h, rfl, rfl, rfl⟩
  · rw [nextPacket_none d hs ho, bufferNext_end { d with packetSize := some 188 } _ h.fault hd]
    exact ⟨_, rfl, ⟨hd, h.len, h.fault, h.skipper, h.parser, Or.inl rfl⟩, rfl, rfl, rfl⟩

/-! ## the pool: unique keys, each queue holds packets of its PID; the end-of-stream dump -/

def PoolWF : Pool → Prop
  | [] => True
  | (k, q) :: r => (∀ e ∈ r, e.1 ≠ k) ∧ (∀ p ∈ q, p.header.pid = k) ∧ PoolWF r

theorem get_nil_of_no_key (pool : Pool) (k : Nat) (h : ∀ e ∈ pool, e.1 ≠ k) : pool.get k = [] := by
  induction pool with
  | nil => rfl
  | cons e r ih =>
    obtain ⟨k', q⟩ := e
    have : k' ≠ k := h (k', q) (by simp)
    simp only [Pool.get, this, if_false]
    exact ih (fun x hx => h x (by simp [hx]))

theorem key_of_get_ne_nil (pool : Pool) (k : Nat) (h : pool.get k ≠ []) : ∃ e ∈ pool, e.1 = k := by
  apply Classical.byContradiction
  intro hn
  apply h
  apply get_nil_of_no_key
  intro e he hk
  exact hn ⟨e, he, hk⟩

theorem get_pid (pool : Pool) (k : Nat) (h : PoolWF pool) : ∀ p ∈ pool.get k, p.header.pid = k := by
  induction pool with
  | nil => intro p hp; cases hp
  | cons e r ih =>
    obtain ⟨k', q⟩ := e
    obtain ⟨_, h2, h3⟩ := h
    by_cases hk : k' = k
    · subst hk; simp only [Pool.get, if_true]; exact h2
    · simp only [Pool.get, hk, if_false]; exact ih h3

theorem key_put (pool : Pool) (k : Nat) (q : List Packet) (e : Nat × List Packet) (he : e ∈ pool.put k q) :
    e.1 = k ∨ ∃ e' ∈ pool, e'.1 = e.1 := by
  induction pool with
  | nil =>
    simp only [Pool.put, List.mem_cons, List.not_mem_nil, or_false] at he
    rw [he]; exact Or.inl rfl
  | cons x r ih =>
    obtain ⟨k', v⟩ := x
    by_cases hk : k' = k
    · simp only [Pool.put, hk, if_true, List.mem_cons] at he
      rcases he with he | he
      · rw [he]; exact Or.inl rfl
      · exact Or.inr ⟨e, by simp [he], rfl⟩
    · simp only [Pool.put, hk, if_false, List.mem_cons] at he
      rcases he with he | he
      · exact Or.inr ⟨(k', v), by simp, by rw [he]⟩
      · rcases ih he with h | ⟨e', h1, h2⟩
        · exact Or.inl h
        · exact Or.inr ⟨e', by simp [h1], h2⟩

theorem wf_put (pool : Pool) (k : Nat) (q : List Packet) (h : PoolWF pool) (hq : ∀ p ∈ q, p.header.pid = k) :
    PoolWF (pool.put k q) := by
  induction pool with
  | nil => exact ⟨fun e he => (by cases he), hq, trivial⟩
  | cons x r ih =>
    obtain ⟨k', v⟩ := x
    obtain ⟨h1, h2, h3⟩ := h
    by_cases hk : k' = k
    · simp only [Pool.put, hk, if_true]
      exact ⟨fun e he => (by rw [← hk]; exact h1 e he), hq, h3⟩
    · simp only [Pool.put, hk, if_false]
      refine ⟨?_, h2, ih h3⟩
      intro e he
      rcases key_put r k q e he with h | ⟨e', he', hke⟩
      · rw [h]; exact fun hh => hk hh.symm
      · rw [← hke]; exact h1 e' he'

/-- what `accAdd` flushes and what it queues are packets of the old queue or the new packet -/
theorem accAdd_mem (pm : ProgramMap) (pid : Nat) (q : List Packet) (p : Packet) :
    (∀ x ∈ (accAdd pm pid q p).1, x ∈ q ∨ x = p) ∧ (∀ x ∈ (accAdd pm pid q p).2, x ∈ q ∨ x = p) := by
  unfold accAdd
  split
  · exact ⟨fun x hx => (by cases hx), fun x hx => Or.inl hx⟩
  · simp only
    by_cases hd : hasDiscontinuity q p = true <;> by_cases hu : p.header.payloadUnitStartIndicator = true <;>
      simp only [hd, hu, if_true, Bool.false_eq_true, if_false] <;> split <;>
      (constructor <;> intro x hx <;> simp at hx <;> grind)

theorem wf_poolAdd (pm : ProgramMap) (pool : Pool) (p : Packet) (h : PoolWF pool) :
    PoolWF (poolAdd pm pool p).2 ∧ ∀ x ∈ (poolAdd pm pool p).1, x.header.pid = p.header.pid := by
  unfold poolAdd
  split
  · exact ⟨h, fun x hx => (by cases hx)⟩
  · split
    · exact ⟨h, fun x hx => (by cases hx)⟩
    · have hm := accAdd_mem pm p.header.pid (pool.get p.header.pid) p
      have hg := get_pid pool p.header.pid h
      simp only
      constructor
      · apply wf_put _ _ _ h
        intro x hx
        rcases hm.2 x hx with h1 | h1
        · exact hg x h1
        · rw [h1]
      · intro x hx
        rcases hm.1 x hx with h1 | h1
        · exact hg x h1
        · rw [h1]

theorem mem_insertSorted (e x : Nat × List Packet) (l : Pool) : x ∈ insertSorted e l ↔ x = e ∨ x ∈ l := by
  induction l with
  | nil => simp [insertSorted]
  | cons y r ih =>
    unfold insertSorted
    split
    · simp
    · simp only [List.mem_cons, ih]
      constructor
      · rintro (h | h | h)
        · exact Or.inr (Or.inl h)
        · exact Or.inl h
        · exact Or.inr (Or.inr h)
      · rintro (h | h | h)
        · exact Or.inr (Or.inl h)
        · exact Or.inl h
        · exact Or.inr (Or.inr h)

theorem wf_insertSorted (e : Nat × List Packet) (l : Pool) (h : PoolWF l) (hk : ∀ x ∈ l, x.1 ≠ e.1)
    (hp : ∀ p ∈ e.2, p.header.pid = e.1) : PoolWF (insertSorted e l) := by
  induction l with
  | nil => exact ⟨fun x hx => (by cases hx), hp, trivial⟩
  | cons y r ih =>
    obtain ⟨k', v⟩ := y
    obtain ⟨h1, h2, h3⟩ := h
    unfold insertSorted
    split
    · exact ⟨hk, hp, h1, h2, h3⟩
    · refine ⟨?_, h2, ih h3 (fun x hx => hk x (by simp [hx]))⟩
      intro x hx
      rcases (mem_insertSorted e x r).mp hx with rfl | hx'
      · exact fun hh => hk (k', v) (by simp) hh.symm
      · exact h1 x hx'

theorem get_insertSorted (e : Nat × List Packet) (l : Pool) (k : Nat) (hk : ∀ x ∈ l, x.1 ≠ e.1) :
    (insertSorted e l).get k = if e.1 = k then e.2 else l.get k := by
  induction l with
  | nil => simp [insertSorted, Pool.get]
  | cons y r ih =>
    obtain ⟨k', v⟩ := y
    unfold insertSorted
    split
    · simp only [Pool.get]
    · have hne : k' ≠ e.1 := hk (k', v) (by simp)
      simp only [Pool.get, ih (fun x hx => hk x (by simp [hx]))]
      by_cases h1 : k' = k
      · have : ¬ e.1 = k := fun hh => hne (h1.trans hh.symm)
        simp [h1, this]
      · simp [h1]

theorem mem_sorted (pool : Pool) (x : Nat × List Packet) : x ∈ pool.sorted ↔ x ∈ pool := by
  induction pool with
  | nil => simp [Pool.sorted]
  | cons e r ih =>
    have : Pool.sorted (e :: r) = insertSorted e (Pool.sorted r) := rfl
    rw [this, mem_insertSorted, ih]; simp

theorem length_insertSorted (e : Nat × List Packet) (l : Pool) : (insertSorted e l).length = l.length + 1 := by
  induction l with
  | nil => rfl
  | cons y r ih =>
    unfold insertSorted
    split
    · rfl
    · simp [ih]

theorem length_sorted (pool : Pool) : pool.sorted.length = pool.length := by
  induction pool with
  | nil => rfl
  | cons e r ih =>
    have : Pool.sorted (e :: r) = insertSorted e (Pool.sorted r) := rfl
    rw [this, length_insertSorted, ih]; rfl

theorem wf_sorted (pool : Pool) (h : PoolWF pool) : PoolWF pool.sorted ∧ ∀ k, pool.sorted.get k = pool.get k := by
  induction pool with
  | nil => exact ⟨trivial, fun _ => rfl⟩
  | cons e r ih =>
    obtain ⟨k', v⟩ := e
    obtain ⟨h1, h2, h3⟩ := h
    obtain ⟨i1, i2⟩ := ih h3
    have hs : Pool.sorted ((k', v) :: r) = insertSorted (k', v) (Pool.sorted r) := rfl
    have hk : ∀ x ∈ Pool.sorted r, x.1 ≠ k' := fun x hx => h1 x ((mem_sorted r x).mp hx)
    rw [hs]
    refine ⟨wf_insertSorted _ _ i1 hk h2, ?_⟩
    intro k
    rw [get_insertSorted _ _ _ hk, i2]
    simp only [Pool.get]

/-- the dump loop on a well-formed list: nothing left, or the queue of one key comes out and that key disappears -/
theorem dump_go_spec (l : Pool) (h : PoolWF l) :
    ((poolDump.go l).1 = [] ∧ (poolDump.go l).2 = [] ∧ ∀ k, l.get k = []) ∨
    (∃ k, (poolDump.go l).1 = l.get k ∧ (poolDump.go l).1 ≠ [] ∧ (poolDump.go l).2.get k = [] ∧
      (∀ k', k' ≠ k → (poolDump.go l).2.get k' = l.get k') ∧ PoolWF (poolDump.go l).2 ∧
      (∀ p ∈ (poolDump.go l).1, p.header.pid = k) ∧ (poolDump.go l).2.length < l.length ∧
      ∀ e ∈ (poolDump.go l).2, e ∈ l) := by
  induction l with
  | nil => left; exact ⟨rfl, rfl, fun _ => rfl⟩
  | cons e r ih =>
    obtain ⟨k0, q⟩ := e
    obtain ⟨h1, h2, h3⟩ := h
    by_cases hq : q.isEmpty = true
    · have hgo : poolDump.go ((k0, q) :: r) = poolDump.go r := by simp [poolDump.go, hq]
      have hq' : q = [] := List.isEmpty_iff.mp hq
      rw [hgo]
      rcases ih h3 with ⟨a1, a0, a2⟩ | ⟨k, b1, b2, b3, b4, b5, b6, b7, b8⟩
      · left
        refine ⟨a1, a0, fun k => ?_⟩
        by_cases hk : k0 = k
        · simp [Pool.get, hk, hq']
        · simp [Pool.get, hk, a2 k]
      · right
        have hkk : k0 ≠ k := by
          intro hh
          obtain ⟨e, he, hke⟩ := key_of_get_ne_nil r k (by rw [← b1]; exact b2)
          exact h1 e he (hke.trans hh.symm)
        refine ⟨k, by simp [Pool.get, hkk, b1], b2, b3, ?_, b5, b6, by simp; omega, fun e he => by simp [b8 e he]⟩
        intro k' hk'
        by_cases hk0 : k0 = k'
        · subst hk0
          simp only [Pool.get, if_true, hq']
          exact get_nil_of_no_key _ _ (fun e he => h1 e (b8 e he))
        · simp [Pool.get, hk0, b4 k' hk']
    · have hgo : poolDump.go ((k0, q) :: r) = (q, r) := by simp [poolDump.go, hq]
      right
      rw [hgo]
      refine ⟨k0, by simp [Pool.get], ?_, get_nil_of_no_key _ _ h1, ?_, h3, h2, by simp, fun e he => by simp [he]⟩
      · intro hh
        have hh' : q = [] := hh
        rw [hh'] at hq; exact hq rfl
      · intro k' hk'
        have : ¬ k0 = k' := fun hh => hk' hh.symm
        simp [Pool.get, this]

/-- **`poolDump`** on a well-formed pool -/
theorem poolDump_spec (pool : Pool) (h : PoolWF pool) :
    ((poolDump pool).1 = [] ∧ (poolDump pool).2 = [] ∧ ∀ k, pool.get k = []) ∨
    (∃ k, (poolDump pool).1 = pool.get k ∧ (poolDump pool).1 ≠ [] ∧ (poolDump pool).2.get k = [] ∧
      (∀ k', k' ≠ k → (poolDump pool).2.get k' = pool.get k') ∧ PoolWF (poolDump pool).2 ∧
      (∀ p ∈ (poolDump pool).1, p.header.pid = k) ∧ (poolDump pool).2.length < pool.length) := by
  obtain ⟨w1, w2⟩ := wf_sorted pool h
  have : poolDump pool = poolDump.go pool.sorted := rfl
  rw [this]
  rcases dump_go_spec pool.sorted w1 with ⟨a1, a0, a2⟩ | ⟨k, b1, b2, b3, b4, b5, b6, b7, _⟩
  · left; exact ⟨a1, a0, fun k => by rw [← w2]; exact a2 k⟩
  · right
    exact ⟨k, by rw [b1, w2], b2, b3, fun k' hk' => by rw [b4 k' hk', w2], b5, b6, by rw [← length_sorted pool]; exact b7⟩

/-! ## `parseData`: the PID of what it returns; independence of the program map on elementary-stream PIDs -/

theorem psiToData_pid (d : PSIData) (fp : Packet) (pid : Nat) : ∀ x ∈ psiToData d fp pid, x.pid = pid := by
  intro x hx
  unfold psiToData at hx
  simp only [List.mem_flatten, List.mem_map] at hx
  obtain ⟨l, ⟨s, _, rfl⟩, hx⟩ := hx
  split at hx
  · cases hx
  · split at hx
    · simp only [List.mem_append] at hx
      rcases hx with hx | hx
      · repeat' split at hx
        all_goals (first | (cases hx; done) | (simp only [List.mem_cons, List.not_mem_nil, or_false] at hx; rw [hx]))
      · split at hx
        · simp only [List.mem_cons, List.not_mem_nil, or_false] at hx; rw [hx]
        · cases hx
    · cases hx

theorem parseData_pid (g : List Packet) (pm : ProgramMap) (ds : List DemuxerData) (h : parseData g .none pm = .ok ds) :
    ∀ x ∈ ds, x.pid = (g.headD default).header.pid := by
  unfold parseData at h
  simp only at h
  split at h
  · simp only [Res.ok.injEq] at h; subst h; intro x hx; cases hx
  · split at h
    · split at h
      · simp only [Res.ok.injEq] at h; subst h
        exact psiToData_pid _ _ _
      · cases h
      · cases h
    · split at h
      · split at h
        · simp only [Res.ok.injEq] at h; subst h
          intro x hx
          simp only [List.mem_cons, List.not_mem_nil, or_false] at hx
          rw [hx]
        · cases h
        · cases h
      · simp only [Res.ok.injEq] at h; subst h; intro x hx; cases hx

theorem parseData_es_indep (g : List Packet) (pid : Nat) (pm pm' : ProgramMap) (h : ESPid pid pm) (h' : ESPid pid pm')
    (hg : (g.headD default).header.pid = pid) : parseData g .none pm = parseData g .none pm' := by
  unfold parseData
  simp only [hg, h.2, h'.2]

/-! ## `NextData`: equations of the drain and of the packet loop (no custom parser) -/

theorem logParser_none (d : Demux) (ps : List Packet) (hp : d.parser = .none) : d.logParser ps = d := by
  unfold Demux.logParser; simp [hp]

/-- the state after the pool has been replaced -/
def withPool (d : Demux) (pool : Pool) : Demux := { d with pool := pool }

theorem drain_succ (d : Demux) (fuel : Nat) (hp : d.parser = .none) :
    d.drain (fuel + 1) =
      if (poolDump d.pool).1.isEmpty then (.err .eof, withPool d (poolDump d.pool).2)
      else match parseData (poolDump d.pool).1 .none d.programMap with
        | .ok ds =>
          (match ((withPool d (poolDump d.pool).2).updateData ds).1 with
           | some x => (.ok x, ((withPool d (poolDump d.pool).2).updateData ds).2)
           | none => ((withPool d (poolDump d.pool).2).updateData ds).2.drain fuel)
        | .err _ => (withPool d (poolDump d.pool).2).drain fuel
        | .panic => (.panic, withPool d (poolDump d.pool).2) := by
  have h1 : ∀ ps, (withPool d (poolDump d.pool).2).logParser ps = withPool d (poolDump d.pool).2 :=
    fun ps => logParser_none _ ps hp
  have h2 : (withPool d (poolDump d.pool).2).parser = .none := hp
  have h3 : (withPool d (poolDump d.pool).2).programMap = d.programMap := rfl
  rw [Demux.drain]
  show (if (poolDump d.pool).1.isEmpty then (Res.err Err.eof, withPool d (poolDump d.pool).2)
    else match parseData (poolDump d.pool).1 ((withPool d (poolDump d.pool).2).logParser (poolDump d.pool).1).parser
        ((withPool d (poolDump d.pool).2).logParser (poolDump d.pool).1).programMap with
      | .ok ds =>
          (match (((withPool d (poolDump d.pool).2).logParser (poolDump d.pool).1).updateData ds).1 with
           | some x => (.ok x, (((withPool d (poolDump d.pool).2).logParser (poolDump d.pool).1).updateData ds).2)
           | none => (((withPool d (poolDump d.pool).2).logParser (poolDump d.pool).1).updateData ds).2.drain fuel)
      | .err _ => ((withPool d (poolDump d.pool).2).logParser (poolDump d.pool).1).drain fuel
      | .panic => (.panic, (withPool d (poolDump d.pool).2).logParser (poolDump d.pool).1)) = _
  simp only [h1, h2, h3]

theorem dataLoop_succ (d : Demux) (fuel : Nat) (hp : d.nextPacket.2.parser = .none) :
    d.dataLoop (fuel + 1) =
      match d.nextPacket.1 with
      | .err .eof => d.nextPacket.2.drain (d.nextPacket.2.pool.length + 1)
      | .err e => (.err e, d.nextPacket.2)
      | .panic => (.panic, d.nextPacket.2)
      | .ok p =>
        if (poolAdd d.nextPacket.2.programMap d.nextPacket.2.pool p).1.isEmpty then
          (withPool d.nextPacket.2 (poolAdd d.nextPacket.2.programMap d.nextPacket.2.pool p).2).dataLoop fuel
        else
          match parseData (poolAdd d.nextPacket.2.programMap d.nextPacket.2.pool p).1 .none d.nextPacket.2.programMap with
          | .err e => (.err e, withPool d.nextPacket.2 (poolAdd d.nextPacket.2.programMap d.nextPacket.2.pool p).2)
          | .panic => (.panic, withPool d.nextPacket.2 (poolAdd d.nextPacket.2.programMap d.nextPacket.2.pool p).2)
          | .ok ds =>
            match ((withPool d.nextPacket.2 (poolAdd d.nextPacket.2.programMap d.nextPacket.2.pool p).2).updateData ds).1 with
            | some x => (.ok x, ((withPool d.nextPacket.2 (poolAdd d.nextPacket.2.programMap d.nextPacket.2.pool p).2).updateData ds).2)
            | none => ((withPool d.nextPacket.2 (poolAdd d.nextPacket.2.programMap d.nextPacket.2.pool p).2).updateData ds).2.dataLoop fuel := by
  rw [Demux.dataLoop]
  generalize d.nextPacket = np at hp ⊢
  obtain ⟨r, d1⟩ := np
  simp only at hp ⊢
  have h1 : ∀ pool ps, (withPool d1 pool).logParser ps = withPool d1 pool := fun pool ps => logParser_none _ ps hp
  have h2 : ∀ pool, (withPool d1 pool).parser = .none := fun _ => hp
  cases r with
  | err e => cases e <;> rfl
  | panic => rfl
  | ok p =>
    show (if (poolAdd d1.programMap d1.pool p).1.isEmpty then (withPool d1 (poolAdd d1.programMap d1.pool p).2).dataLoop fuel
      else match parseData (poolAdd d1.programMap d1.pool p).1
          ((withPool d1 (poolAdd d1.programMap d1.pool p).2).logParser (poolAdd d1.programMap d1.pool p).1).parser
          ((withPool d1 (poolAdd d1.programMap d1.pool p).2).logParser (poolAdd d1.programMap d1.pool p).1).programMap with
        | .err e => (.err e, (withPool d1 (poolAdd d1.programMap d1.pool p).2).logParser (poolAdd d1.programMap d1.pool p).1)
        | .panic => (.panic, (withPool d1 (poolAdd d1.programMap d1.pool p).2).logParser (poolAdd d1.programMap d1.pool p).1)
        | .ok ds =>
          match (((withPool d1 (poolAdd d1.programMap d1.pool p).2).logParser (poolAdd d1.programMap d1.pool p).1).updateData ds).1 with
          | some x => (.ok x, (((withPool d1 (poolAdd d1.programMap d1.pool p).2).logParser (poolAdd d1.programMap d1.pool p).1).updateData ds).2)
          | none => (((withPool d1 (poolAdd d1.programMap d1.pool p).2).logParser (poolAdd d1.programMap d1.pool p).1).updateData ds).2.dataLoop fuel) = _
    simp only [h1, h2]
    rfl

/-! ## what `NextData` is still to return on one PID -/

/-- packets of `pid` the pool accepts -/
def accepted (pid : Nat) (p : Packet) : Bool :=
  p.header.pid == pid && p.header.hasPayload && !p.header.transportErrorIndicator

/-- the groups the accumulator of `pid` hands to `parseData`, starting from queue `q`, while the accepted packets `l`
arrive, and the one the end-of-stream drain hands over -/
def groupsFrom (pid : Nat) (q l : List Packet) : List (List Packet) :=
  (accRun [] pid q l).1.filter (fun g => !g.isEmpty) ++
    (if (accRun [] pid q l).2.isEmpty then [] else [(accRun [] pid q l).2])

def okAll (rs : List (Res (List DemuxerData))) : List DemuxerData :=
  rs.flatMap fun r => match r with | .ok ds => ds | _ => []

/-- the `DemuxerData` of `pid` among results of `NextData` -/
def pidOut (pid : Nat) (rs : List (Res DemuxerData)) : List DemuxerData :=
  rs.filterMap fun r => match r with | .ok x => if x.pid = pid then some x else none | _ => none

def expectC (pid : Nat) (buf : List DemuxerData) (q l : List Packet) : List DemuxerData :=
  buf.filter (·.pid == pid) ++ okAll ((groupsFrom pid q l).map (parseData · .none []))

/-- what is still to come on `pid`: buffered data, then the parsed groups -/
def expect (pid : Nat) (d : Demux) (s : List Packet) : List DemuxerData :=
  expectC pid d.dataBuffer (d.pool.get pid) (s.filter (accepted pid))

theorem groupsFrom_nil (pid : Nat) (q : List Packet) : groupsFrom pid q [] = if q.isEmpty then [] else [q] := by
  simp [groupsFrom, accRun]

theorem groupsFrom_cons (pid : Nat) (q : List Packet) (p : Packet) (l : List Packet) :
    groupsFrom pid q (p :: l) =
      (if (accAdd [] pid q p).1.isEmpty then [] else [(accAdd [] pid q p).1]) ++ groupsFrom pid (accAdd [] pid q p).2 l := by
  simp only [groupsFrom, accRun, List.filter_cons]
  split <;> simp_all

theorem ESPid.nil {pid : Nat} {pm : ProgramMap} (h : ESPid pid pm) : ESPid pid [] := by
  refine ⟨h.1, ?_⟩
  have := h.2
  unfold isPSIPayload at this ⊢
  simp only [Bool.or_eq_false_iff] at this ⊢
  exact ⟨⟨this.1.1, rfl⟩, this.2⟩

theorem accAdd_pm_indep (pm : ProgramMap) (pid : Nat) (q : List Packet) (p : Packet) (h : ESPid pid pm) :
    accAdd pm pid q p = accAdd [] pid q p := by
  have h1 := h.notEarly
  have h2 := h.nil.notEarly
  unfold accAdd
  simp only [h1, h2]

/-- one packet through the pool, seen from `pid` -/
theorem poolAdd_on (pid : Nat) (pm : ProgramMap) (pool : Pool) (p : Packet) (h : ESPid pid pm) :
    (accepted pid p = true →
      (poolAdd pm pool p).1 = (accAdd [] pid (pool.get pid) p).1 ∧
      (poolAdd pm pool p).2.get pid = (accAdd [] pid (pool.get pid) p).2) ∧
    (accepted pid p = false →
      (poolAdd pm pool p).2.get pid = pool.get pid ∧ ((poolAdd pm pool p).1 = [] ∨ p.header.pid ≠ pid)) := by
  unfold accepted
  constructor
  · intro ha
    simp only [Bool.and_eq_true, beq_iff_eq, Bool.not_eq_true'] at ha
    obtain ⟨⟨h1, h2⟩, h3⟩ := ha
    unfold poolAdd
    simp only [h3, h2, Bool.false_eq_true, if_false, Bool.not_true, h1, Pool.get_put_same]
    rw [accAdd_pm_indep pm pid _ p h]
    exact ⟨rfl, rfl⟩
  · intro ha
    by_cases hp : p.header.pid = pid
    · have hig : p.header.transportErrorIndicator = true ∨ p.header.hasPayload = false := by
        simp only [hp, beq_self_eq_true, Bool.true_and] at ha
        cases h2 : p.header.hasPayload
        · exact Or.inr rfl
        · cases h3 : p.header.transportErrorIndicator
          · simp [h2, h3] at ha
          · exact Or.inl rfl
      rw [C07.poolAdd_ignores pm pool p hig]
      exact ⟨rfl, Or.inl rfl⟩
    · exact ⟨C07.poolAdd_other_pid pm pool p pid (fun hh => hp hh.symm), Or.inr hp⟩

theorem pidOut_cons (pid : Nat) (r : Res DemuxerData) (rs : List (Res DemuxerData)) :
    pidOut pid (r :: rs) = pidOut pid [r] ++ pidOut pid rs := by
  unfold pidOut
  simp only [List.filterMap_cons, List.filterMap_nil]
  split <;> simp

theorem filter_pid_all (pid : Nat) (ds : List DemuxerData) (h : ∀ x ∈ ds, x.pid = pid) : ds.filter (·.pid == pid) = ds := by
  rw [List.filter_eq_self]
  intro x hx
  simp [h x hx]

theorem filter_pid_none (pid : Nat) (ds : List DemuxerData) (k : Nat) (hk : k ≠ pid) (h : ∀ x ∈ ds, x.pid = k) :
    ds.filter (·.pid == pid) = [] := by
  rw [List.filter_eq_nil_iff]
  intro x hx
  simp [h x hx, hk]


/-! ## one `NextData` call -/

def isEOF : Res DemuxerData → Bool
  | .err .eof => true
  | _ => false

/-- post-condition of a `NextData`-like step made in state `d` with packets `s` still to be read: either the end of
the stream is reported and nothing was expected on `pid` any more, or what is returned plus what is expected
afterwards is what was expected before -/
def StepPost (pid : Nat) (e : List DemuxerData) (out : Res DemuxerData × Demux) : Prop :=
  ∃ cs' s', Rep out.2 cs' ∧ ParsesTo cs' s' ∧ PoolWF out.2.pool ∧
    (isEOF out.1 = true → e = []) ∧
    (isEOF out.1 = false → pidOut pid [out.1] ++ expect pid out.2 s' = e)

/-- same reader, options and packet buffer -/
def SameIO (d d' : Demux) : Prop :=
  d'.r = d.r ∧ d'.skipper = d.skipper ∧ d'.parser = d.parser ∧ d'.packetSize = d.packetSize ∧
  d'.optPacketSize = d.optPacketSize

theorem Rep.transfer {d d' : Demux} {cs : List Bytes} (h : Rep d cs) (hs : SameIO d d') : Rep d' cs := by
  obtain ⟨h1, h2, h3, h4, h5⟩ := hs
  exact ⟨by rw [h1]; exact h.data, h.len, by rw [h1]; exact h.fault, by rw [h2]; exact h.skipper,
    by rw [h3]; exact h.parser, by rw [h4, h5]; exact h.size⟩

theorem updateData_nil (d : Demux) : d.updateData [] = (none, d) := rfl

theorem updateData_cons (d : Demux) (x : DemuxerData) (rest : List DemuxerData) :
    (d.updateData (x :: rest)).1 = some x ∧ SameIO d (d.updateData (x :: rest)).2 ∧
    (d.updateData (x :: rest)).2.pool = d.pool ∧ (d.updateData (x :: rest)).2.dataBuffer = d.dataBuffer ++ rest :=
  ⟨rfl, ⟨rfl, rfl, rfl, rfl, rfl⟩, rfl, rfl⟩

theorem headD_mem {α} (l : List α) (a : α) (h : l ≠ []) : l.headD a ∈ l := by
  cases l with
  | nil => exact absurd rfl h
  | cons x r => simp

theorem expect_eq (pid : Nat) (d : Demux) (s : List Packet) (hb : d.dataBuffer = []) :
    expect pid d s = okAll ((groupsFrom pid (d.pool.get pid) (s.filter (accepted pid))).map (parseData · .none [])) := by
  simp [expect, expectC, hb]

theorem okAll_cons (r : Res (List DemuxerData)) (rs : List (Res (List DemuxerData))) :
    okAll (r :: rs) = (match r with | .ok ds => ds | _ => []) ++ okAll rs := by
  cases r <;> simp [okAll]

/-- the end-of-stream drain -/
theorem drain_post (pid : Nat) :
    ∀ (fuel : Nat) (d : Demux), Rep d [] → PoolWF d.pool → d.dataBuffer = [] → ESPid pid d.programMap →
      d.pool.length < fuel → StepPost pid (expect pid d []) (d.drain fuel) := by
  intro fuel
  induction fuel with
  | zero => intro d _ _ _ _ hl; omega
  | succ fuel ih =>
    intro d hrep hwf hbuf hes hl
    rw [drain_succ d fuel hrep.parser]
    have hexp := expect_eq pid d [] hbuf
    simp only [List.filter_nil, groupsFrom_nil] at hexp
    have hio : SameIO d (withPool d (poolDump d.pool).2) := ⟨rfl, rfl, rfl, rfl, rfl⟩
    have hrep1 : Rep (withPool d (poolDump d.pool).2) [] := hrep.transfer hio
    rcases poolDump_spec d.pool hwf with ⟨a1, a0, a2⟩ | ⟨k, b1, b2, b3, b4, b5, b6, b7⟩
    · rw [a1]
      simp only [List.isEmpty_nil, if_true]
      refine ⟨[], [], hrep1, trivial, by show PoolWF (poolDump d.pool).2; rw [a0]; trivial, ?_, ?_⟩
      · intro _; rw [hexp, a2 pid]; rfl
      · intro h; cases h
    · have hne : (poolDump d.pool).1.isEmpty = false := by
        cases hg : (poolDump d.pool).1 with
        | nil => exact absurd hg b2
        | cons _ _ => rfl
      rw [hne]
      simp only [Bool.false_eq_true, if_false]
      have hhead : (((poolDump d.pool).1).headD default).header.pid = k := b6 _ (headD_mem _ _ b2)
      have hbuf1 : (withPool d (poolDump d.pool).2).dataBuffer = [] := hbuf
      have hpm1 : (withPool d (poolDump d.pool).2).programMap = d.programMap := rfl
      have hl1 : (withPool d (poolDump d.pool).2).pool.length < fuel := by
        show (poolDump d.pool).2.length < fuel; omega
      have ih1 := ih (withPool d (poolDump d.pool).2) hrep1 b5 hbuf1 (by rw [hpm1]; exact hes) hl1
      have hexp1 := expect_eq pid (withPool d (poolDump d.pool).2) [] hbuf1
      simp only [List.filter_nil, groupsFrom_nil] at hexp1
      by_cases hk : k = pid
      · subst hk
        have hq : d.pool.get k = (poolDump d.pool).1 := b1.symm
        have hE : expect k d [] = okAll [parseData (poolDump d.pool).1 .none []] := by
          rw [hexp, hq, hne]; rfl
        have hE1 : expect k (withPool d (poolDump d.pool).2) [] = [] := by
          rw [hexp1]
          show okAll (List.map _ (if ((poolDump d.pool).2.get k).isEmpty = true then [] else _)) = []
          rw [b3]; rfl
        have hpar : parseData (poolDump d.pool).1 .none d.programMap = parseData (poolDump d.pool).1 .none [] :=
          parseData_es_indep _ k _ _ hes hes.nil hhead
        rw [hE, ← hpar]
        rw [hE1] at ih1
        cases hr : parseData (poolDump d.pool).1 .none d.programMap with
        | ok ds =>
          have hpid := parseData_pid _ _ _ hr
          rw [hhead] at hpid
          cases ds with
          | nil =>
            simp only [updateData_nil]
            exact ih1
          | cons x more =>
            obtain ⟨u1, u2, u3, u4⟩ := updateData_cons (withPool d (poolDump d.pool).2) x more
            simp only [u1]
            refine ⟨[], [], hrep1.transfer u2, trivial, by rw [u3]; exact b5, fun h => (by cases h), fun _ => ?_⟩
            simp only [expect, expectC, u4, u3, hbuf1, List.nil_append, List.filter_nil, groupsFrom_nil]
            show pidOut k [Res.ok x] ++ (List.filter _ more ++ okAll (List.map _ (if ((poolDump d.pool).2.get k).isEmpty = true then [] else _))) = _
            rw [b3, filter_pid_all k more (fun y hy => hpid y (by simp [hy]))]
            simp [pidOut, hpid x (by simp), okAll]
        | err e =>
          simp only
          exact ih1
        | panic =>
          simp only
          refine ⟨[], [], hrep1, trivial, b5, fun h => (by cases h), fun _ => ?_⟩
          rw [hE1]; rfl
      · have hq : (poolDump d.pool).2.get pid = d.pool.get pid := b4 pid (fun hh => hk hh.symm)
        have hE1 : expect pid (withPool d (poolDump d.pool).2) [] = expect pid d [] := by
          rw [hexp1, hexp]
          show okAll (List.map _ (if ((poolDump d.pool).2.get pid).isEmpty = true then [] else [(poolDump d.pool).2.get pid])) = _
          rw [hq]
        rw [hE1] at ih1
        cases hr : parseData (poolDump d.pool).1 .none d.programMap with
        | ok ds =>
          have hpid := parseData_pid _ _ _ hr
          rw [hhead] at hpid
          cases ds with
          | nil =>
            simp only [updateData_nil]
            exact ih1
          | cons x more =>
            obtain ⟨u1, u2, u3, u4⟩ := updateData_cons (withPool d (poolDump d.pool).2) x more
            simp only [u1]
            refine ⟨[], [], hrep1.transfer u2, trivial, by rw [u3]; exact b5, fun h => (by cases h), fun _ => ?_⟩
            rw [← hE1]
            simp only [expect, expectC, u4, u3, hbuf1, List.nil_append]
            rw [filter_pid_none pid more k hk (fun y hy => hpid y (by simp [hy]))]
            have hx : x.pid ≠ pid := by rw [hpid x (by simp)]; exact hk
            simp [pidOut, hx]
        | err e =>
          simp only
          exact ih1
        | panic =>
          simp only
          refine ⟨[], [], hrep1, trivial, b5, fun h => (by cases h), fun _ => ?_⟩
          rw [hE1]; rfl

theorem parseData_err (g : List Packet) (pm : ProgramMap) (e : Err) (h : parseData g .none pm = .err e) : e = .other := by
  unfold parseData at h
  simp only at h
  split at h
  · cases h
  · split at h
    · split at h
      · cases h
      · simp only [Res.err.injEq] at h; exact h.symm
      · cases h
    · split at h
      · split at h
        · cases h
        · simp only [Res.err.injEq] at h; exact h.symm
        · cases h
      · cases h

theorem expect_sameData (pid : Nat) (d d' : Demux) (s : List Packet) (h : SameData d d') :
    expect pid d' s = expect pid d s := by
  unfold expect
  rw [h.1, h.2.2]

/-- the packet loop -/
theorem dataLoop_post (pid : Nat) :
    ∀ (cs : List Bytes) (s : List Packet) (fuel : Nat) (d : Demux), Rep d cs → ParsesTo cs s → PoolWF d.pool →
      d.dataBuffer = [] → ESPid pid d.programMap → cs.length < fuel →
      StepPost pid (expect pid d s) (d.dataLoop fuel) := by
  intro cs
  induction cs with
  | nil =>
    intro s fuel d hrep hs hwf hbuf hes hl
    have hs0 := ParsesTo.nil_inv hs
    subst hs0
    obtain ⟨d1, hnp, hrep1, hsd⟩ := nextPacket_nil d hrep
    cases fuel with
    | zero => omega
    | succ f =>
      rw [dataLoop_succ d f (by rw [hnp]; exact hrep1.parser), hnp]
      simp only
      rw [← expect_sameData pid d d1 [] hsd]
      exact drain_post pid _ d1 hrep1 (by rw [hsd.1]; exact hwf) (by rw [hsd.2.2]; exact hbuf)
        (by rw [hsd.2.1]; exact hes) (by omega)
  | cons c cs ih =>
    intro s fuel d hrep hs hwf hbuf hes hl
    cases s with
    | nil => exact hs.elim
    | cons p s' =>
      obtain ⟨hp, hs'⟩ := hs
      obtain ⟨d1, hnp, hrep1, hsd⟩ := nextPacket_cons d c cs p hrep hp
      cases fuel with
      | zero => omega
      | succ f =>
        rw [dataLoop_succ d f (by rw [hnp]; exact hrep1.parser), hnp]
        simp only
        rw [← expect_sameData pid d d1 (p :: s') hsd]
        have hwf1 : PoolWF d1.pool := by rw [hsd.1]; exact hwf
        have hbuf1 : d1.dataBuffer = [] := by rw [hsd.2.2]; exact hbuf
        have hes1 : ESPid pid d1.programMap := by rw [hsd.2.1]; exact hes
        obtain ⟨w1, w2⟩ := wf_poolAdd d1.programMap d1.pool p hwf1
        obtain ⟨on1, on2⟩ := poolAdd_on pid d1.programMap d1.pool p hes1
        generalize hg : (poolAdd d1.programMap d1.pool p).1 = g at *
        generalize hpl : (poolAdd d1.programMap d1.pool p).2 = pool' at *
        have hio : SameIO d1 (withPool d1 pool') := ⟨rfl, rfl, rfl, rfl, rfl⟩
        have hrep2 : Rep (withPool d1 pool') cs := hrep1.transfer hio
        have hbuf2 : (withPool d1 pool').dataBuffer = [] := hbuf1
        have hes2 : ESPid pid (withPool d1 pool').programMap := hes1
        have ih2 := ih s' f (withPool d1 pool') hrep2 hs' w1 hbuf2 hes2 (by simp at hl; omega)
        have hexp := expect_eq pid d1 (p :: s') hbuf1
        have hexp2 := expect_eq pid (withPool d1 pool') s' hbuf2
        have hpool2 : (withPool d1 pool').pool = pool' := rfl
        rw [hpool2] at hexp2
        -- the expectation before, in terms of the expectation after
        have hE : expect pid d1 (p :: s') =
            (if accepted pid p = true ∧ g.isEmpty = false then okAll [parseData g .none []] else []) ++
              expect pid (withPool d1 pool') s' := by
          rw [hexp, hexp2]
          by_cases ha : accepted pid p = true
          · obtain ⟨o1, o2⟩ := on1 ha
            simp only [List.filter_cons, ha, if_true, groupsFrom_cons, ← o1, ← o2, true_and]
            cases hge : g.isEmpty <;> simp [okAll]
          · have ha' : accepted pid p = false := by simpa using ha
            obtain ⟨o1, _⟩ := on2 ha'
            simp only [List.filter_cons, ha', Bool.false_eq_true, if_false, false_and, List.nil_append, o1]
        by_cases hge : g.isEmpty = true
        · simp only [hge, if_true]
          rw [hE]
          simp only [hge, Bool.true_eq_false, and_false, if_false, List.nil_append]
          exact ih2
        · have hge' : g.isEmpty = false := by simpa using hge
          have hgne : g ≠ [] := by intro hh; rw [hh] at hge'; cases hge'
          simp only [hge', Bool.false_eq_true, if_false]
          have hhead : (g.headD default).header.pid = p.header.pid := w2 _ (headD_mem _ _ hgne)
          by_cases ha : accepted pid p = true
          · have hppid : p.header.pid = pid := by
              unfold accepted at ha
              simp only [Bool.and_eq_true, beq_iff_eq] at ha
              exact ha.1.1
            rw [hppid] at hhead
            have hpar : parseData g .none d1.programMap = parseData g .none [] :=
              parseData_es_indep _ pid _ _ hes1 hes1.nil hhead
            rw [hE]
            simp only [ha, hge', and_self, if_true]
            rw [← hpar]
            cases hr : parseData g .none d1.programMap with
            | ok ds =>
              have hpid := parseData_pid _ _ _ hr
              rw [hhead] at hpid
              cases ds with
              | nil =>
                simp only [updateData_nil]
                simpa [okAll] using ih2
              | cons x more =>
                obtain ⟨u1, u2, u3, u4⟩ := updateData_cons (withPool d1 pool') x more
                simp only [u1]
                refine ⟨cs, s', hrep2.transfer u2, hs', by rw [u3]; exact w1, fun h => (by cases h), fun _ => ?_⟩
                simp only [expect, expectC, u4, u3, hbuf2, List.nil_append, List.filter_nil]
                rw [filter_pid_all pid more (fun y hy => hpid y (by simp [hy]))]
                simp [pidOut, hpid x (by simp), okAll]
            | err e =>
              simp only
              have he := parseData_err _ _ _ hr
              subst he
              refine ⟨cs, s', hrep2, hs', w1, fun h => (by cases h), fun _ => ?_⟩
              simp [pidOut, okAll]
            | panic =>
              simp only
              refine ⟨cs, s', hrep2, hs', w1, fun h => (by cases h), fun _ => ?_⟩
              simp [pidOut, okAll]
          · have ha' : accepted pid p = false := by simpa using ha
            have hppid : p.header.pid ≠ pid := by
              rcases (on2 ha').2 with h1 | h1
              · exact absurd h1 hgne
              · exact h1
            rw [hE]
            simp only [ha', Bool.false_eq_true, false_and, if_false, List.nil_append]
            cases hr : parseData g .none d1.programMap with
            | ok ds =>
              have hpid := parseData_pid _ _ _ hr
              rw [hhead] at hpid
              cases ds with
              | nil =>
                simp only [updateData_nil]
                exact ih2
              | cons x more =>
                obtain ⟨u1, u2, u3, u4⟩ := updateData_cons (withPool d1 pool') x more
                simp only [u1]
                refine ⟨cs, s', hrep2.transfer u2, hs', by rw [u3]; exact w1, fun h => (by cases h), fun _ => ?_⟩
                simp only [expect, expectC, u4, u3, hbuf2, List.nil_append, List.filter_nil]
                rw [filter_pid_none pid more _ hppid (fun y hy => hpid y (by simp [hy]))]
                have hx : x.pid ≠ pid := by rw [hpid x (by simp)]; exact hppid
                simp [pidOut, hx]
            | err e =>
              simp only
              have he := parseData_err _ _ _ hr
              subst he
              refine ⟨cs, s', hrep2, hs', w1, fun h => (by cases h), fun _ => ?_⟩
              simp [pidOut]
            | panic =>
              simp only
              refine ⟨cs, s', hrep2, hs', w1, fun h => (by cases h), fun _ => ?_⟩
              simp [pidOut]

theorem length_le_flatten188 (cs : List Bytes) (h : ∀ c ∈ cs, c.length = 188) : cs.length ≤ cs.flatten.length := by
  induction cs with
  | nil => simp
  | cons c r ih =>
    have := h c (by simp)
    have := ih (fun x hx => h x (by simp [hx]))
    simp only [List.flatten_cons, List.length_append, List.length_cons]
    omega

/-- **one `NextData` call** -/
theorem nextData_post (pid : Nat) (cs : List Bytes) (s : List Packet) (d : Demux) (hrep : Rep d cs) (hs : ParsesTo cs s)
    (hwf : PoolWF d.pool) (hes : ESPid pid d.programMap) : StepPost pid (expect pid d s) d.nextData := by
  unfold Demux.nextData
  cases hb : d.dataBuffer with
  | nil =>
    simp only
    refine dataLoop_post pid cs s _ d hrep hs hwf hb hes ?_
    have h1 := length_le_flatten188 cs hrep.len
    have h2 : cs.flatten.length ≤ d.r.data.length := by
      rw [← hrep.data, List.length_drop]; omega
    omega
  | cons x rest =>
    simp only
    refine ⟨cs, s, hrep.transfer ⟨rfl, rfl, rfl, rfl, rfl⟩, hs, hwf, fun h => (by cases h), fun _ => ?_⟩
    simp only [expect, expectC, hb, List.filter_cons]
    by_cases hx : x.pid = pid
    · simp [pidOut, hx]
    · simp [pidOut, hx]

/-- call `NextData` up to `n` times, stopping at `ErrNoMorePackets`: the results, and whether the end was reached -/
def collect : Nat → Demux → List (Res DemuxerData) × Bool
  | 0, _ => ([], false)
  | n + 1, d =>
    if isEOF d.nextData.1 then ([], true)
    else (d.nextData.1 :: (collect n d.nextData.2).1, (collect n d.nextData.2).2)

/-- the demuxer after `k` calls of `NextData` -/
def after : Nat → Demux → Demux
  | 0, d => d
  | k + 1, d => after k d.nextData.2

/-- **a sequence of `NextData` calls, on one PID** -/
theorem collect_pid (pid : Nat) :
    ∀ (n : Nat) (d : Demux) (cs : List Bytes) (s : List Packet), Rep d cs → ParsesTo cs s → PoolWF d.pool →
      (∀ k, k < n → ESPid pid (after k d).programMap) → (collect n d).2 = true →
      pidOut pid (collect n d).1 = expect pid d s := by
  intro n
  induction n with
  | zero => intro d cs s _ _ _ _ he; simp [collect] at he
  | succ n ih =>
    intro d cs s hrep hs hwf hsafe he
    obtain ⟨cs', s', p1, p2, p3, p4, p5⟩ := nextData_post pid cs s d hrep hs hwf (hsafe 0 (by omega))
    unfold collect at he ⊢
    by_cases heof : isEOF d.nextData.1 = true
    · simp only [heof, if_true]
      rw [p4 heof]; rfl
    · have heof' : isEOF d.nextData.1 = false := by simpa using heof
      simp only [heof', Bool.false_eq_true, if_false] at he ⊢
      rw [pidOut_cons, ih d.nextData.2 cs' s' p1 p2 p3 (fun k hk => hsafe (k + 1) (by omega)) he]
      exact p5 heof'

/-- a fresh demuxer on `bytes`, created with `DemuxerOptPacketSize(188)` -/
def demuxOf (bytes : Bytes) : Demux := { r := { data := bytes }, optPacketSize := 188 }

theorem rep_demuxOf (cs : List Bytes) (h : ∀ c ∈ cs, c.length = 188) : Rep (demuxOf cs.flatten) cs :=
  ⟨rfl, h, rfl, rfl, rfl, Or.inr ⟨rfl, rfl⟩⟩

/-- **`NextData` sequences deliver, on an elementary-stream PID, exactly the parsed groups of the accumulator** -/
theorem nextData_delivers (pid : Nat) (cs : List Bytes) (s : List Packet) (hs : ParsesTo cs s)
    (hlen : ∀ c ∈ cs, c.length = 188)
    (n : Nat) (hsafe : ∀ k, k < n → ESPid pid (after k (demuxOf cs.flatten)).programMap)
    (hend : (collect n (demuxOf cs.flatten)).2 = true) :
    pidOut pid (collect n (demuxOf cs.flatten)).1 =
      okAll ((groupsFrom pid [] (s.filter (accepted pid))).map (parseData · .none [])) := by
  rw [collect_pid pid n _ cs s (rep_demuxOf cs hlen) hs trivial hsafe hend]
  exact expect_eq pid _ s rfl

/-! ## termination of the `NextData` call sequence -/

/-- lexicographic order on (chunks still to read, pool entries, buffered data) -/
def measLt (a b : Nat × Nat × Nat) : Prop :=
  a.1 < b.1 ∨ (a.1 = b.1 ∧ (a.2.1 < b.2.1 ∨ (a.2.1 = b.2.1 ∧ a.2.2 < b.2.2)))

theorem measLt_of_fst {a : Nat × Nat × Nat} {n x y : Nat} (m x' y' : Nat) (h : measLt a (n, x, y)) (hn : n < m) :
    measLt a (m, x', y') := by
  rcases h with h | ⟨h, _⟩
  · exact Or.inl (by simp only at h ⊢; omega)
  · exact Or.inl (by simp only at h ⊢; omega)

theorem measLt_of_snd {a : Nat × Nat × Nat} {n x y : Nat} (x' y' : Nat) (h : measLt a (n, x, y)) (hx : x ≤ x') :
    measLt a (n, x', y') ∨ (a.1 = n ∧ a.2.1 = x' ∧ x = x' ∧ a.2.2 < y) := by
  rcases h with h | ⟨h1, h2 | ⟨h2, h3⟩⟩
  · exact Or.inl (Or.inl h)
  · exact Or.inl (Or.inr ⟨h1, Or.inl (by simp only at h2 ⊢; omega)⟩)
  · by_cases hxx : x = x'
    · subst hxx
      exact Or.inr ⟨h1, h2, rfl, h3⟩
    · exact Or.inl (Or.inr ⟨h1, Or.inl (by simp only at h2 ⊢; omega)⟩)

/-- progress of a `NextData`-like step: unless the end of the stream is reported, the measure decreases -/
def Prog (μ : Nat × Nat × Nat) (out : Res DemuxerData × Demux) : Prop :=
  ∃ cs' s', Rep out.2 cs' ∧ ParsesTo cs' s' ∧
    (isEOF out.1 = false → measLt (cs'.length, out.2.pool.length, out.2.dataBuffer.length) μ)

theorem dump_go_shrinks (l : Pool) : (poolDump.go l).1 ≠ [] → (poolDump.go l).2.length < l.length := by
  induction l with
  | nil => intro h; exact absurd rfl h
  | cons e r ih =>
    obtain ⟨k, q⟩ := e
    by_cases hq : q.isEmpty = true
    · have hgo : poolDump.go ((k, q) :: r) = poolDump.go r := by simp [poolDump.go, hq]
      rw [hgo]
      intro h
      have := ih h
      simp only [List.length_cons]; omega
    · have hgo : poolDump.go ((k, q) :: r) = (q, r) := by simp [poolDump.go, hq]
      rw [hgo]
      intro _
      simp

theorem poolDump_shrinks (pool : Pool) (h : (poolDump pool).1 ≠ []) : (poolDump pool).2.length < pool.length := by
  have : poolDump pool = poolDump.go pool.sorted := rfl
  rw [this] at h ⊢
  rw [← length_sorted pool]
  exact dump_go_shrinks _ h

theorem drain_prog : ∀ (fuel : Nat) (d : Demux), Rep d [] → d.dataBuffer = [] →
    Prog (0, d.pool.length, 0) (d.drain fuel) := by
  intro fuel
  induction fuel with
  | zero =>
    intro d hrep _
    exact ⟨[], [], hrep, trivial, fun h => by simp [Demux.drain, isEOF] at h⟩
  | succ fuel ih =>
    intro d hrep hbuf
    rw [drain_succ d fuel hrep.parser]
    have hio : SameIO d (withPool d (poolDump d.pool).2) := ⟨rfl, rfl, rfl, rfl, rfl⟩
    have hrep1 : Rep (withPool d (poolDump d.pool).2) [] := hrep.transfer hio
    by_cases hge : (poolDump d.pool).1.isEmpty = true
    · simp only [hge, if_true]
      exact ⟨[], [], hrep1, trivial, fun h => by simp [isEOF] at h⟩
    · have hgne : (poolDump d.pool).1 ≠ [] := by
        intro hh; rw [hh] at hge; exact hge rfl
      have hsh := poolDump_shrinks d.pool hgne
      simp only [hge, Bool.false_eq_true, if_false]
      have ih1 := ih (withPool d (poolDump d.pool).2) hrep1 hbuf
      have hmono : ∀ out, Prog (0, (withPool d (poolDump d.pool).2).pool.length, 0) out → Prog (0, d.pool.length, 0) out := by
        intro out ⟨cs', s', q1, q2, q3⟩
        refine ⟨cs', s', q1, q2, fun h => ?_⟩
        rcases measLt_of_snd d.pool.length 0 (q3 h) (by show (poolDump d.pool).2.length ≤ _; omega) with h1 | ⟨_, h2, h3, _⟩
        · exact h1
        · have : (withPool d (poolDump d.pool).2).pool.length = (poolDump d.pool).2.length := rfl
          omega
      have hret : ∀ (r : Res DemuxerData) (d3 : Demux), SameIO d d3 → d3.pool = (poolDump d.pool).2 →
          Prog (0, d.pool.length, 0) (r, d3) := by
        intro r d3 hio3 hp3
        refine ⟨[], [], hrep.transfer hio3, trivial, fun _ => Or.inr ⟨rfl, Or.inl ?_⟩⟩
        show d3.pool.length < d.pool.length
        rw [hp3]; exact hsh
      cases hr : parseData (poolDump d.pool).1 .none d.programMap with
      | ok ds =>
        cases ds with
        | nil =>
          simp only [updateData_nil]
          exact hmono _ ih1
        | cons x more =>
          obtain ⟨u1, u2, u3, _⟩ := updateData_cons (withPool d (poolDump d.pool).2) x more
          simp only [u1]
          exact hret _ _ u2 u3
      | err e =>
        simp only
        exact hmono _ ih1
      | panic =>
        simp only
        exact hret _ _ hio rfl

theorem dataLoop_prog : ∀ (cs : List Bytes) (s : List Packet) (fuel : Nat) (d : Demux), Rep d cs → ParsesTo cs s →
    d.dataBuffer = [] → cs.length < fuel → Prog (cs.length, d.pool.length, 0) (d.dataLoop fuel) := by
  intro cs
  induction cs with
  | nil =>
    intro s fuel d hrep hs hbuf hl
    obtain ⟨d1, hnp, hrep1, hsd⟩ := nextPacket_nil d hrep
    cases fuel with
    | zero => omega
    | succ f =>
      rw [dataLoop_succ d f (by rw [hnp]; exact hrep1.parser), hnp]
      simp only
      have := drain_prog (d1.pool.length + 1) d1 hrep1 (by rw [hsd.2.2]; exact hbuf)
      have e : d1.pool.length = d.pool.length := by rw [hsd.1]
      show Prog (0, d.pool.length, 0) _
      rw [← e]
      exact this
  | cons c cs ih =>
    intro s fuel d hrep hs hbuf hl
    cases s with
    | nil => exact hs.elim
    | cons p s' =>
      obtain ⟨hp, hs'⟩ := hs
      obtain ⟨d1, hnp, hrep1, hsd⟩ := nextPacket_cons d c cs p hrep hp
      cases fuel with
      | zero => omega
      | succ f =>
        rw [dataLoop_succ d f (by rw [hnp]; exact hrep1.parser), hnp]
        simp only
        have hbuf1 : d1.dataBuffer = [] := by rw [hsd.2.2]; exact hbuf
        generalize (poolAdd d1.programMap d1.pool p).1 = g
        generalize (poolAdd d1.programMap d1.pool p).2 = pool'
        have hio : SameIO d1 (withPool d1 pool') := ⟨rfl, rfl, rfl, rfl, rfl⟩
        have hrep2 : Rep (withPool d1 pool') cs := hrep1.transfer hio
        have ih2 := ih s' f (withPool d1 pool') hrep2 hs' hbuf1 (by simp at hl; omega)
        have hmono : ∀ out, Prog (cs.length, (withPool d1 pool').pool.length, 0) out →
            Prog ((c :: cs).length, d.pool.length, 0) out := by
          intro out ⟨cs', s'', q1, q2, q3⟩
          exact ⟨cs', s'', q1, q2, fun h => measLt_of_fst _ _ _ (q3 h) (by simp)⟩
        have hret : ∀ (r : Res DemuxerData) (d3 : Demux), SameIO d1 d3 → Prog ((c :: cs).length, d.pool.length, 0) (r, d3) := by
          intro r d3 hio3
          exact ⟨cs, s', hrep1.transfer hio3, hs', fun _ => Or.inl (by simp)⟩
        by_cases hge : g.isEmpty = true
        · simp only [hge, if_true]
          exact hmono _ ih2
        · simp only [hge, Bool.false_eq_true, if_false]
          cases hr : parseData g .none d1.programMap with
          | ok ds =>
            cases ds with
            | nil =>
              simp only [updateData_nil]
              exact hmono _ ih2
            | cons x more =>
              obtain ⟨u1, u2, _, _⟩ := updateData_cons (withPool d1 pool') x more
              simp only [u1]
              exact hret _ _ u2
          | err e =>
            simp only
            exact hret _ _ hio
          | panic =>
            simp only
            exact hret _ _ hio

theorem nextData_prog (cs : List Bytes) (s : List Packet) (d : Demux) (hrep : Rep d cs) (hs : ParsesTo cs s) :
    Prog (cs.length, d.pool.length, d.dataBuffer.length) d.nextData := by
  unfold Demux.nextData
  cases hb : d.dataBuffer with
  | nil =>
    simp only
    refine dataLoop_prog cs s _ d hrep hs hb ?_
    have h1 := length_le_flatten188 cs hrep.len
    have h2 : cs.flatten.length ≤ d.r.data.length := by
      rw [← hrep.data, List.length_drop]; omega
    omega
  | cons x rest =>
    simp only
    exact ⟨cs, s, hrep.transfer ⟨rfl, rfl, rfl, rfl, rfl⟩, hs,
      fun _ => Or.inr ⟨rfl, Or.inr ⟨rfl, by simp⟩⟩⟩

/-- **the call sequence terminates**: after finitely many calls `NextData` reports the end of the stream -/
theorem collect_terminates :
    ∀ (a b c : Nat) (d : Demux) (cs : List Bytes) (s : List Packet), cs.length = a → d.pool.length = b →
      d.dataBuffer.length = c → Rep d cs → ParsesTo cs s → ∃ n, (collect n d).2 = true := by
  intro a
  induction a using Nat.strongRecOn with
  | _ a iha =>
    intro b
    induction b using Nat.strongRecOn with
    | _ b ihb =>
      intro c
      induction c using Nat.strongRecOn with
      | _ c ihc =>
        intro d cs s ha hb hc hrep hs
        obtain ⟨cs', s', q1, q2, q3⟩ := nextData_prog cs s d hrep hs
        by_cases heof : isEOF d.nextData.1 = true
        · exact ⟨1, by simp [collect, heof]⟩
        · have heof' : isEOF d.nextData.1 = false := by simpa using heof
          have hm := q3 heof'
          rw [ha, hb, hc] at hm
          have key : ∃ n, (collect n d.nextData.2).2 = true := by
            rcases hm with h1 | ⟨h1, h2 | ⟨h2, h3⟩⟩
            · exact iha _ h1 _ _ _ _ _ rfl rfl rfl q1 q2
            · exact ihb _ h2 _ _ _ _ h1 rfl rfl q1 q2
            · exact ihc _ h3 _ _ _ h1 h2 rfl q1 q2
          obtain ⟨n, hn⟩ := key
          exact ⟨n + 1, by simp [collect, heof', hn]⟩

/-- once the end has been reached, more calls add nothing -/
theorem collect_stable (n : Nat) (d : Demux) (h : (collect n d).2 = true) (m : Nat) :
    collect (n + m) d = collect n d := by
  induction n generalizing d with
  | zero => simp [collect] at h
  | succ n ih =>
    have e : n + 1 + m = (n + m) + 1 := by omega
    rw [e]
    unfold collect at h ⊢
    by_cases heof : isEOF d.nextData.1 = true
    · simp [heof]
    · have heof' : isEOF d.nextData.1 = false := by simpa using heof
      simp only [heof', Bool.false_eq_true, if_false] at h ⊢
      rw [ih _ h]

theorem nextData_terminates (cs : List Bytes) (s : List Packet) (hs : ParsesTo cs s) (hlen : ∀ c ∈ cs, c.length = 188) :
    ∃ n, (collect n (demuxOf cs.flatten)).2 = true :=
  collect_terminates _ _ _ _ cs s rfl rfl rfl (rep_demuxOf cs hlen) hs

/-! ## the muxer's output through `NextData` -/

theorem groupsFrom_units (pid : Nat) (us : List UnitPk) (hnp : (pid == 0 || ProgramMap.has [] pid) = false)
    (hc : ChainOK [] us) : groupsFrom pid [] (us.flatMap UnitPk.packets) = us.map UnitPk.packets := by
  have hrun := accRun_units [] pid [] us hnp hc
  obtain ⟨f1, f2⟩ := flushed_units us
  unfold groupsFrom
  rw [hrun]
  simp only
  rw [f1]
  cases us with
  | nil => simp [finalQueue]
  | cons u r =>
    rw [f2 (by simp)]
    have hl : ∃ w, (u :: r).getLast? = some w := ⟨(u :: r).getLast (by simp), List.getLast?_eq_some_getLast (by simp)⟩
    obtain ⟨w, hw⟩ := hl
    have := dropLast_getLast_map UnitPk.packets (u :: r)
    rw [hw] at this ⊢
    simp only [Option.map_some, Option.toList_some, Option.getD_some] at this ⊢
    have hne : w.packets.isEmpty = false := by simp [UnitPk.packets]
    rw [hne]
    exact this

theorem accepted_of_plain (l : List Packet) (h : ∀ p ∈ l, PlainPayload p) :
    l.filter (fun p => !p.header.transportErrorIndicator) = l := by
  rw [List.filter_eq_self]
  intro p hp
  simp [(h p hp).2.1]

theorem chainOK_plain (q : List Packet) (us : List UnitPk) (h : ChainOK q us) :
    ∀ p ∈ us.flatMap UnitPk.packets, PlainPayload p := by
  induction us generalizing q with
  | nil => intro p hp; cases hp
  | cons u r ih =>
    obtain ⟨h1, _, h3⟩ := h
    intro p hp
    simp only [List.flatMap_cons, List.mem_append] at hp
    rcases hp with hp | hp
    · exact unitOK_plain u h1 p hp
    · exact ih _ h3 p hp

/-- every chunk of an admissible history is a `writePacket` image (188 bytes) -/
theorem run_images (pid : Nat) (m : Mux) (ops : List Op) (hinv : MuxInv m) (hok : RunAll (HistOK pid) m ops) :
    ∀ c ∈ (run m ops).1, IsImage c := by
  induction ops generalizing m with
  | nil => intro c hc; cases hc
  | cons op ops ih =>
    intro c hc
    have hc' : c ∈ (step m op).1 ++ (run (step m op).2 ops).1 := hc
    rcases List.mem_append.mp hc' with h | h
    · cases op with
      | add es => cases h
      | remove p => cases h
      | setPCR p => cases h
      | tables => exact writeTablesCall_images m c h
      | data d =>
        obtain ⟨tcs, cs, cc, hch, htc, hwr, _⟩ := data_call m d hinv (hok.1.2 d rfl).1
        have h' : c ∈ (m.writeData d).1.chunks := h
        rw [hch] at h'
        rcases List.mem_append.mp h' with h1 | h1
        · exact (htc c h1).1
        · exact hwr.images c h1
    · exact ih (step m op).2 (step_inv m op hinv hok.1.1) hok.2 c h

/-- **C01 on the model, through `Demux.NextData`.** -/
theorem history_nextData_partial (pid : Nat) (hpmt : pid ≠ 4096) (m : Mux) (ops : List Op) (hinv : MuxInv m)
    (hok : RunAll (HistOK pid) m ops) (s : List Packet) (hs : ParsesTo (run m ops).1 s)
    (n : Nat) (hsafe : ∀ k, k < n → ESPid pid (after k (demuxOf (run m ops).1.flatten)).programMap)
    (hend : (collect n (demuxOf (run m ops).1.flatten)).2 = true) :
    pidOut pid (collect n (demuxOf (run m ops).1.flatten)).1 =
      (writesOn pid m ops).map fun w => pesDelivered pid w.hdr w.data w.unit.first := by
  have hn : 0 < n := by
    cases n with
    | zero => simp [collect] at hend
    | succ k => omega
  have hes : ESPid pid [] := hsafe 0 hn
  have hp0 : pid ≠ 0 := by
    intro h
    have := hes.notEarly
    simp [h] at this
  have hlen : ∀ c ∈ (run m ops).1, c.length = 188 := by
    intro c hc
    obtain ⟨q, hq⟩ := run_images pid m ops hinv hok c hc
    exact writePacket_length188 q c hq
  rw [nextData_delivers pid _ s hs hlen n hsafe hend]
  obtain ⟨r1, r2, r3⟩ := run_stream pid hp0 hpmt m ops hinv hok s hs
  have hc : ChainOK [] ((writesOn pid m ops).map (·.unit)) := chainOK_of_unitsFrom [] _ _ (Or.inl rfl) r2
  have hacc : s.filter (accepted pid) = ((writesOn pid m ops).map (·.unit)).flatMap UnitPk.packets := by
    have e1 : s.filter (accepted pid) = (s.filter (onPid pid)).filter (fun p => !p.header.transportErrorIndicator) := by
      rw [List.filter_filter]
      apply List.filter_congr
      intro p _
      simp only [accepted, onPid]
      cases (p.header.pid == pid) <;> cases p.header.hasPayload <;> cases p.header.transportErrorIndicator <;> rfl
    have e2 : (writesOn pid m ops).flatMap (·.unit.packets) = ((writesOn pid m ops).map (·.unit)).flatMap UnitPk.packets := by
      simp [List.flatMap_map]
    rw [e1, r1, e2, accepted_of_plain _ (chainOK_plain [] _ hc)]
  rw [hacc, groupsFrom_units pid _ hes.notEarly hc]
  have key : ∀ (ws : List PESUnit),
      (∀ w ∈ ws, C02.unitOnPID pid w.unit ∧ PESHeaderOk w.hdr ∧
        concatPayload w.unit.packets = pesHeaderBytes w.hdr w.data.length ++ w.data) →
      okAll (((ws.map (·.unit)).map UnitPk.packets).map (parseData · .none []))
        = ws.map fun w => pesDelivered pid w.hdr w.data w.unit.first := by
    intro ws
    induction ws with
    | nil => intro _; rfl
    | cons w r ih =>
      intro hall
      obtain ⟨h1, h2, h3⟩ := hall w (by simp)
      have hp : w.unit.first.header.pid = pid := h1 w.unit.first (by simp [UnitPk.packets])
      have hpd := parseData_pes_unit [] w.unit.first w.unit.rest w.hdr w.data (by rw [hp]; exact hes) h2 h3
      simp only [List.map_cons, okAll_cons]
      rw [ih (fun x hx => hall x (by simp [hx]))]
      have : parseData w.unit.packets .none [] = .ok [pesDelivered pid w.hdr w.data w.unit.first] := by
        rw [← hp]; exact hpd
      rw [this]
      rfl
  exact key _ r3

/-- the same with termination made explicit: there is a number of calls after which `NextData` reports the end of the
stream, and from then on the data collected for `pid` are exactly the PES written -/
theorem history_nextData_all_partial (pid : Nat) (hpmt : pid ≠ 4096) (m : Mux) (ops : List Op) (hinv : MuxInv m)
    (hok : RunAll (HistOK pid) m ops) (s : List Packet) (hs : ParsesTo (run m ops).1 s)
    (hsafe : ∀ k, ESPid pid (after k (demuxOf (run m ops).1.flatten)).programMap) :
    ∃ n, (collect n (demuxOf (run m ops).1.flatten)).2 = true ∧
      ∀ k, pidOut pid (collect (n + k) (demuxOf (run m ops).1.flatten)).1 =
        (writesOn pid m ops).map fun w => pesDelivered pid w.hdr w.data w.unit.first := by
  have hlen : ∀ c ∈ (run m ops).1, c.length = 188 := by
    intro c hc
    obtain ⟨q, hq⟩ := run_images pid m ops hinv hok c hc
    exact writePacket_length188 q c hq
  obtain ⟨n, hn⟩ := nextData_terminates (run m ops).1 s hs hlen
  refine ⟨n, hn, fun k => ?_⟩
  rw [collect_stable n _ hn k]
  exact history_nextData_partial pid hpmt m ops hinv hok s hs n (fun k _ => hsafe k) hn

end Astits.MuxDemux
