/-
Helper lemmas for C10: GF(2)-linearity of the LFSR step, table step = 8 bit-serial steps.
-/
import Astits.Model.CRC
import Astits.Spec.CRC
namespace Astits

theorem crcBit_xor (x y : BitVec 32) : crcBit (x ^^^ y) = crcBit x ^^^ crcBit y := by
  unfold crcBit
  rw [BitVec.msb_xor]
  cases hx : x.msb <;> cases hy : y.msb
  · simp [BitVec.shiftLeft_xor_distrib]
  · simp [BitVec.shiftLeft_xor_distrib]; ac_rfl
  · simp [BitVec.shiftLeft_xor_distrib]; ac_rfl
  · simp [BitVec.shiftLeft_xor_distrib]
    have : x <<< 1 ^^^ 79764919#32 ^^^ (y <<< 1 ^^^ 79764919#32)
        = (x <<< 1 ^^^ y <<< 1) ^^^ (79764919#32 ^^^ 79764919#32) := by ac_rfl
    rw [this]; simp

theorem crcBits8_xor (x y : BitVec 32) : crcBits8 (x ^^^ y) = crcBits8 x ^^^ crcBits8 y := by
  unfold crcBits8
  simp only [crcBit_xor]

theorem crcBit_small (c : BitVec 32) (h : c.toNat < 2147483648) : crcBit c = c <<< 1 := by
  unfold crcBit
  have : c.msb = false := by
    rw [BitVec.msb_eq_decide]; simp; omega
  simp [this]

theorem shl1_toNat (c : BitVec 32) (h : c.toNat < 2147483648) : (c <<< 1).toNat = c.toNat * 2 := by
  rw [BitVec.toNat_shiftLeft]; simp; omega

/-- a register whose top 8 bits are clear is just shifted by 8 steps -/
theorem crcBits8_small (c : BitVec 32) (h : c.toNat < 16777216) : crcBits8 c = c <<< 8 := by
  unfold crcBits8
  have h1 := shl1_toNat c (by omega)
  rw [crcBit_small c (by omega)]
  have h2 := shl1_toNat (c <<< 1) (by omega)
  rw [crcBit_small (c <<< 1) (by omega)]
  have h3 := shl1_toNat (c <<< 1 <<< 1) (by omega)
  rw [crcBit_small (c <<< 1 <<< 1) (by omega)]
  have h4 := shl1_toNat (c <<< 1 <<< 1 <<< 1) (by omega)
  rw [crcBit_small (c <<< 1 <<< 1 <<< 1) (by omega)]
  have h5 := shl1_toNat (c <<< 1 <<< 1 <<< 1 <<< 1) (by omega)
  rw [crcBit_small (c <<< 1 <<< 1 <<< 1 <<< 1) (by omega)]
  have h6 := shl1_toNat (c <<< 1 <<< 1 <<< 1 <<< 1 <<< 1) (by omega)
  rw [crcBit_small (c <<< 1 <<< 1 <<< 1 <<< 1 <<< 1) (by omega)]
  have h7 := shl1_toNat (c <<< 1 <<< 1 <<< 1 <<< 1 <<< 1 <<< 1) (by omega)
  rw [crcBit_small (c <<< 1 <<< 1 <<< 1 <<< 1 <<< 1 <<< 1) (by omega)]
  rw [crcBit_small (c <<< 1 <<< 1 <<< 1 <<< 1 <<< 1 <<< 1 <<< 1) (by omega)]
  simp [← BitVec.shiftLeft_add]

/-! ### the bit-serial specification in terms of `crcBit` -/

def topBit (x : Bool) : BitVec 32 := if x then 0x80000000#32 else 0#32

theorem feedBit_eq (c : BitVec 32) (x : Bool) : Spec.crcFeedBit c x = crcBit (c ^^^ topBit x) := by
  unfold Spec.crcFeedBit crcBit topBit
  cases x
  · simp
  · have hm : (c ^^^ 0x80000000#32).msb = !c.msb := by
      rw [BitVec.msb_xor]; simp [BitVec.msb_eq_decide]
    have hs : (c ^^^ 0x80000000#32) <<< 1 = c <<< 1 := by
      rw [BitVec.shiftLeft_xor_distrib]; simp
    simp only [if_true, hm, hs]
    cases c.msb <;> simp

/-- byte value of 8 bits, MSB first, as a 32-bit word -/
def wordOfBits (x7 x6 x5 x4 x3 x2 x1 x0 : Bool) : BitVec 32 :=
  BitVec.ofNat 32 (b2n x7 * 128 + b2n x6 * 64 + b2n x5 * 32 + b2n x4 * 16 + b2n x3 * 8 + b2n x2 * 4 + b2n x1 * 2 + b2n x0)

theorem feed8_eq (c : BitVec 32) (x7 x6 x5 x4 x3 x2 x1 x0 : Bool) :
    [x7, x6, x5, x4, x3, x2, x1, x0].foldl Spec.crcFeedBit c
      = crcBits8 (c ^^^ (wordOfBits x7 x6 x5 x4 x3 x2 x1 x0 <<< 24)) := by
  simp only [List.foldl, feedBit_eq, crcBit_xor, crcBits8_xor]
  unfold crcBits8
  generalize crcBit (crcBit (crcBit (crcBit (crcBit (crcBit (crcBit (crcBit c))))))) = C
  simp only [BitVec.xor_assoc]
  congr 1
  cases x7 <;> cases x6 <;> cases x5 <;> cases x4 <;> cases x3 <;> cases x2 <;> cases x1 <;> cases x0 <;> decide

theorem word_of_byte : ∀ b : Fin 256,
    BitVec.ofNat 32 b.val = wordOfBits (b.val.testBit 7) (b.val.testBit 6) (b.val.testBit 5) (b.val.testBit 4)
      (b.val.testBit 3) (b.val.testBit 2) (b.val.testBit 1) (b.val.testBit 0) := by
  decide +kernel

theorem feedByte_eq (c : BitVec 32) (b : Nat) (hb : b < 256) :
    Spec.crcFeedByte c b = crcBits8 (c ^^^ (BitVec.ofNat 32 b <<< 24)) := by
  unfold Spec.crcFeedByte Spec.bitsOfByte
  rw [feed8_eq, ← word_of_byte ⟨b, hb⟩]

theorem mask24 : (0x00ffffff#32) = BitVec.ofNat 32 (2^24 - 1) := by decide
theorem mask8 : (0xff#32) = BitVec.ofNat 32 (2^8 - 1) := by decide

/-- splitting the register: low 24 bits are shifted out untouched, the top byte indexes the table -/
theorem split_top (c B : BitVec 32) :
    c ^^^ (B <<< 24) = (c &&& 0x00ffffff#32) ^^^ ((((c >>> 24) ^^^ B) &&& 0xff#32) <<< 24) := by
  apply BitVec.eq_of_getLsbD_eq
  intro i hi
  rw [mask24, mask8]
  simp only [BitVec.getLsbD_xor, BitVec.getLsbD_and, BitVec.getLsbD_shiftLeft, BitVec.getLsbD_ushiftRight,
    BitVec.getLsbD_ofNat, Nat.testBit_two_pow_sub_one]
  by_cases h : i < 24
  · simp [h, hi]
  · have h8 : i - 24 < 8 := by omega
    have : 24 + (i - 24) = i := by omega
    simp [h, hi, h8, this]
    omega

theorem lo_shl (c : BitVec 32) : (c &&& 0x00ffffff#32) <<< 8 = c <<< 8 := by
  apply BitVec.eq_of_getLsbD_eq
  intro i hi
  rw [mask24]
  simp only [BitVec.getLsbD_and, BitVec.getLsbD_shiftLeft, BitVec.getLsbD_ofNat, Nat.testBit_two_pow_sub_one]
  by_cases h : i < 8
  · simp [h]
  · have : i - 8 < 24 := by omega
    simp [h, hi, this]
    omega

theorem lo_small (c : BitVec 32) : (c &&& 0x00ffffff#32).toNat < 16777216 := by
  rw [mask24, BitVec.toNat_and]
  have : (BitVec.ofNat 32 (2 ^ 24 - 1)).toNat = 2^24 - 1 := by decide
  rw [this, Nat.and_two_pow_sub_one_eq_mod]
  omega

/-- the table-driven step of `updateCRC32` is eight bit-serial steps on `c ⊕ (b << 24)` -/
theorem crcStep_eq_bits8 (c : BitVec 32) (b : Nat) :
    crcStep c b = crcBits8 (c ^^^ (BitVec.ofNat 32 b <<< 24)) := by
  unfold crcStep crcTableEntry
  rw [split_top c (BitVec.ofNat 32 b), crcBits8_xor, crcBits8_small _ (lo_small c), lo_shl]

theorem crcStep_eq_spec (c : BitVec 32) (b : Nat) (hb : b < 256) :
    crcStep c b = Spec.crcFeedByte c b := by
  rw [crcStep_eq_bits8, feedByte_eq c b hb]

end Astits
