/-
C05 support — continuity counters of the muxer model, at three levels:
1. what bytes 1..3 of an emitted 188-byte chunk say (PID, payload flag, continuity counter);
2. one `writeDataLoop` / `Mux.writeData`;
3. tables and whole histories of API calls.
-/
import Astits.Model.Mux
import Astits.Proofs.Layout
namespace Astits.MuxCounters

/-! ## Level 1 — observers on emitted chunks -/

/-- PID announced by bytes 1..2 of a chunk -/
def pktPID (bs : Bytes) : Nat := (bs.getD 1 0 % 32) * 256 + bs.getD 2 0
/-- payload flag (bit 4 of byte 3) -/
def pktHasPayload (bs : Bytes) : Bool := decide (bs.getD 3 0 / 16 % 2 = 1)
/-- continuity counter (low nibble of byte 3) -/
def pktCC (bs : Bytes) : Nat := bs.getD 3 0 % 16

theorem hdrBytes_length (h : PacketHeader) : (hdrBytes h).length = 3 := by
  simp [hdrBytes, packFields, fieldsWidth, beBytes]

theorem hdrBytes_eq (h : PacketHeader) :
    hdrBytes h = [(hdrBytes h).getD 0 0, (hdrBytes h).getD 1 0, (hdrBytes h).getD 2 0] := by
  have hl := hdrBytes_length h
  generalize hdrBytes h = l at *
  match l, hl with
  | [a, b, c], _ => rfl

/-- a successful `writePacket` starts with the sync byte and the three header bytes -/
theorem writePacket_ok_shape (p : Packet) (target : Nat) (bs : Bytes) (h : writePacket p target = .ok bs) :
    ∃ rest, bs = syncByte :: (hdrBytes p.header ++ rest) := by
  unfold writePacket at h
  split at h
  · cases h
  · split at h
    · cases h
    · split at h
      · cases h
      · simp only [Res.ok.injEq] at h
        subst h
        exact ⟨_, by simp only [List.cons_append, List.append_assoc]; rfl⟩

/-- **Level 1**: bytes 1..3 of an emitted chunk carry the header's PID, payload flag and continuity counter -/
theorem writePacket_observe (p : Packet) (target : Nat) (bs : Bytes) (h : writePacket p target = .ok bs)
    (hpid : p.header.pid < 8192) (htsc : p.header.transportScramblingControl < 4)
    (hcc : p.header.continuityCounter < 16) :
    pktPID bs = p.header.pid ∧ pktHasPayload bs = p.header.hasPayload ∧ pktCC bs = p.header.continuityCounter := by
  obtain ⟨rest, rfl⟩ := writePacket_ok_shape p target bs h
  have hr := header_roundtrip p.header hpid htsc hcc
  rw [hdrBytes_eq p.header]
  generalize (hdrBytes p.header).getD 0 0 = b0 at *
  generalize (hdrBytes p.header).getD 1 0 = b1 at *
  generalize (hdrBytes p.header).getD 2 0 = b2 at *
  have e1 := congrArg PacketHeader.pid hr
  have e2 := congrArg PacketHeader.hasPayload hr
  have e3 := congrArg PacketHeader.continuityCounter hr
  simp only [headerOfBytes] at e1 e2 e3
  refine ⟨?_, ?_, ?_⟩
  · simpa [pktPID] using e1
  · simpa [pktHasPayload] using e2
  · simpa [pktCC] using e3

/-! ## Level 2 — one `WriteData` -/

/-- successor of a stored 4-bit counter value; a fresh counter holds 16 and yields 0 first -/
def next (v : Nat) : Nat := if v + 1 > 15 then 0 else v + 1

/-- `adv v n`: the stored value after `n` increments -/
def adv : Nat → Nat → Nat
  | v, 0 => v
  | v, n + 1 => adv (next v) n

/-- `succs v n`: the `n` counter values handed out after the stored value `v` -/
def succs : Nat → Nat → List Nat
  | _, 0 => []
  | v, n + 1 => next v :: succs (next v) n

/-- invariant of every continuity counter the muxer holds -/
def CCInv (c : WrappingCounter) : Prop := c.wrapAt = 15 ∧ c.value ≤ 16

theorem next_le (v : Nat) : next v ≤ 15 := by unfold next; split <;> omega
theorem next_ne (v : Nat) (h : v ≤ 16) : next v ≠ v := by unfold next; split <;> omega
theorem next_mod (v : Nat) (h : v ≤ 15) : next v = (v + 1) % 16 := by unfold next; split <;> omega
theorem next_fresh : next 16 = 0 := rfl

theorem inc_eq (c : WrappingCounter) (h : c.wrapAt = 15) : c.inc = { value := next c.value, wrapAt := 15 } := by
  unfold WrappingCounter.inc next
  rw [h]
  split <;> simp

theorem ccInv_fresh : CCInv (newWrappingCounter 15) := ⟨rfl, by decide⟩
theorem ccInv_inc (c : WrappingCounter) (h : CCInv c) : CCInv c.inc := by
  rw [inc_eq c h.1]; exact ⟨rfl, by have := next_le c.value; simp only; omega⟩
theorem inc_value (c : WrappingCounter) (h : CCInv c) : c.inc.value = next c.value := by
  rw [inc_eq c h.1]
theorem inc_get (c : WrappingCounter) (h : CCInv c) : c.inc.get = next c.value := by
  rw [inc_eq c h.1]; rfl

theorem adv_succ (v n : Nat) : adv v (n + 1) = next (adv v n) := by
  induction n generalizing v with
  | zero => rfl
  | succ n ih => rw [adv, ih (next v)]; rfl
theorem adv_add (v a b : Nat) : adv v (a + b) = adv (adv v a) b := by
  induction a generalizing v with
  | zero => simp [adv]
  | succ a ih => rw [Nat.add_right_comm, adv, ih]; rfl
theorem adv_le (v n : Nat) (h : v ≤ 16) : adv v n ≤ 16 := by
  induction n generalizing v with
  | zero => exact h
  | succ n ih => rw [adv]; exact ih _ (by have := next_le v; omega)
theorem adv_pos_le (v n : Nat) : adv v (n + 1) ≤ 15 := by
  rw [adv_succ]; exact next_le _
theorem succs_length (v n : Nat) : (succs v n).length = n := by
  induction n generalizing v with
  | zero => rfl
  | succ n ih => simp [succs, ih]
theorem succs_add (v a b : Nat) : succs v (a + b) = succs v a ++ succs (adv v a) b := by
  induction a generalizing v with
  | zero => simp [succs, adv]
  | succ a ih => rw [Nat.add_right_comm, succs, ih]; rfl

/-- counters of the payload-carrying chunks, in order -/
def payloadCCs (cs : List Bytes) : List Nat := (cs.filter pktHasPayload).map pktCC

theorem payloadCCs_nil : payloadCCs [] = [] := rfl
theorem payloadCCs_append (a b : List Bytes) : payloadCCs (a ++ b) = payloadCCs a ++ payloadCCs b := by
  simp [payloadCCs]
theorem payloadCCs_cons_payload (c : Bytes) (cs : List Bytes) (h : pktHasPayload c = true) :
    payloadCCs (c :: cs) = pktCC c :: payloadCCs cs := by simp [payloadCCs, h]
theorem payloadCCs_cons_nopayload (c : Bytes) (cs : List Bytes) (h : pktHasPayload c = false) :
    payloadCCs (c :: cs) = payloadCCs cs := by simp [payloadCCs, h]

/-! ### size bookkeeping of the payload branch -/

theorem afSize_ge_one (a : PacketAdaptationField) : 1 ≤ afSize a := by
  unfold afSize
  have h1 : (0:Int) ≤ (a.transportPrivateData.length : Int) := Int.natCast_nonneg _
  have h2 : (0:Int) ≤ (afExtSize (a.adaptationExtensionField.getD defaultExt) : Int) := Int.natCast_nonneg _
  split <;> split <;> split <;> split <;> split <;> split <;> omega

theorem afSize_setStuffing (a : PacketAdaptationField) (l : Int) :
    afSize { a with stuffingLength := l } =
      afSize a - (if a.stuffingLength > 0 then a.stuffingLength else 0) + (if l > 0 then l else 0) := by
  unfold afSize
  simp only
  omega

/-- `writePESData` never returns an error; when it succeeds the bytes fit in what was available -/
theorem writePESData_ne_err (h : PESHeader) (d : Bytes) (ps : Bool) (bA : Int) (e : Err) :
    writePESData h d ps bA ≠ .err e := by
  unfold writePESData
  split
  · simp
  · generalize (if ps = true then pesHeaderBytes h d.length else []) = hdr
    simp only
    split <;> simp

theorem writePESData_ok (h : PESHeader) (d : Bytes) (ps : Bool) (bA : Int) (payload : Bytes) (ntot np : Nat)
    (hw : writePESData h d ps bA = .ok (payload, ntot, np)) :
    payload.length = ntot ∧ (ntot : Int) ≤ bA := by
  unfold writePESData at hw
  split at hw
  · cases hw
  · generalize (if ps = true then pesHeaderBytes h d.length else []) = hdr at hw
    simp only at hw
    split at hw
    · cases hw
    · rename_i hn
      simp only [Res.ok.injEq, Prod.mk.injEq] at hw
      obtain ⟨rfl, rfl, rfl⟩ := hw
      constructor
      · simp [List.length_take]
      · have := Nat.min_le_left (bA - ↑hdr.length).toNat d.length
        simp only [Int.natCast_add]
        omega

/-! ### the loop step in named pieces -/

/-- adaptation fields (of the packet, of the caller) once `left` spare bytes must be stuffed -/
def stuffPair (left : Int) (pktAF af : Option PacketAdaptationField) :
    Option PacketAdaptationField × Option PacketAdaptationField :=
  if left > 0 then
    (match pktAF with
     | none => (some (newStuffingAF left), af)
     | some a => (some { a with stuffingLength := left }, some { a with stuffingLength := left }))
  else (pktAF, af)

def mkHdr (pid : Nat) (hasAF hasPayload pusi : Bool) (ccv : Nat) : PacketHeader :=
  { continuityCounter := ccv, hasAdaptationField := hasAF, hasPayload := hasPayload,
    payloadUnitStartIndicator := pusi, pid := pid, transportErrorIndicator := false, transportPriority := false,
    transportScramblingControl := 0 }

/-- the payload-carrying packet the loop builds -/
def payloadPkt (pid : Nat) (pusi : Bool) (ccv : Nat) (payload : Bytes) (pktAF : Option PacketAdaptationField) : Packet :=
  { adaptationField := pktAF, header := mkHdr pid pktAF.isSome true pusi ccv, payload := payload }

/-- the adaptation-field-only packet the loop builds -/
def afOnlyPkt (pid : Nat) (ccv : Nat) (a : PacketAdaptationField) : Packet :=
  { adaptationField := some a, header := mkHdr pid true false false ccv, payload := [] }

/-- bytes available behind the 4-byte header and the adaptation field of this packet -/
def bytesAvail (waf : Bool) (af : Option PacketAdaptationField) : Int :=
  188 - (4 + (if waf then 1 + afSize (af.getD default) else 0))

/-- one iteration of `writeDataLoop`, with its `let`s named (definitional unfolding) -/
theorem loop_succ (pid : Nat) (hdr : PESHeader) (fuel : Nat) (data : Bytes) (ps waf : Bool)
    (af : Option PacketAdaptationField) (cc : WrappingCounter) (acc : List Bytes) :
    writeDataLoop pid hdr (fuel+1) data ps waf af cc acc =
    if data.isEmpty then (.ok acc, cc, af, acc)
    else if ps ∧ bytesAvail waf af < 6 + (calcPESOptionalHeaderLength hdr.optionalHeader : Int) then
      match (if waf then af else none) with
      | none => (.err .other, cc, af, acc)
      | some a =>
        (match writePacket (afOnlyPkt pid (cc.get % 16) { a with stuffingLength := bytesAvail waf af }) 188 with
         | .ok bs => writeDataLoop pid hdr fuel data ps false (some { a with stuffingLength := 0 }) cc (acc ++ [bs])
         | .err e => (.err e, cc, some { a with stuffingLength := bytesAvail waf af }, acc)
         | .panic => (.panic, cc, some { a with stuffingLength := bytesAvail waf af }, acc))
    else
      match writePESData hdr data ps (bytesAvail waf af) with
      | .ok (payload, ntot, npayload) =>
        let sp := stuffPair (bytesAvail waf af - ntot) (if waf then af else none) af
        (match writePacket (payloadPkt pid ps cc.inc.get payload sp.1) 188 with
         | .ok bs => writeDataLoop pid hdr fuel (data.drop npayload) false false sp.2 cc.inc (acc ++ [bs])
         | .err e => (.err e, cc.inc, sp.2, acc)
         | .panic => (.panic, cc.inc, sp.2, acc))
      | .err e => (.err e, cc.inc, af, acc)
      | .panic => (.panic, cc.inc, af, acc) := by
  rfl

theorem bytesAvail_none (waf : Bool) (af : Option PacketAdaptationField)
    (h : (if waf then af else none) = none) : bytesAvail waf af ≤ 184 := by
  unfold bytesAvail
  cases waf
  · simp
  · have := afSize_ge_one (af.getD default)
    simp only [if_true]; omega

theorem bytesAvail_some (waf : Bool) (af : Option PacketAdaptationField) (a : PacketAdaptationField)
    (h : (if waf then af else none) = some a) : bytesAvail waf af = 183 - afSize a := by
  unfold bytesAvail
  cases waf
  · simp at h
  · simp only [if_true] at h ⊢
    subst h
    simp only [Option.getD_some]; omega

theorem afNilDeref_setStuffing (a : PacketAdaptationField) (l : Int) :
    afNilDeref { a with stuffingLength := l } = afNilDeref a := rfl

theorem afNilDeref_newStuffing (l : Int) : afNilDeref (newStuffingAF l) = false := by
  unfold newStuffingAF
  split <;> rfl

theorem stuffPair_noNil (left : Int) (pktAF af : Option PacketAdaptationField)
    (h : ∀ a, pktAF = some a → afNilDeref a = false) :
    ((stuffPair left pktAF af).1.map afNilDeref).getD false = false := by
  unfold stuffPair
  split
  · cases pktAF with
    | none => simp [afNilDeref_newStuffing]
    | some a => simp [afNilDeref_setStuffing, h a rfl]
  · cases pktAF with
    | none => rfl
    | some a => simp [h a rfl]

/-- the payload packet built by the loop always passes `writePacket`'s size check -/
theorem payload_fits (pid : Nat) (pusi : Bool) (ccv : Nat) (payload : Bytes) (pktAF af : Option PacketAdaptationField)
    (bA : Int) (ntot : Nat)
    (hnone : pktAF = none → bA ≤ 184) (hsome : ∀ a, pktAF = some a → bA = 183 - afSize a) (h0 : (ntot : Int) ≤ bA) :
    ¬ ((188 : Int) - packetHeadSize (payloadPkt pid pusi ccv payload (stuffPair (bA - ntot) pktAF af).1) < ntot) := by
  unfold stuffPair packetHeadSize payloadPkt mkHdr
  by_cases hl : bA - ntot > 0
  · simp only [hl, if_true]
    cases pktAF with
    | none =>
      have := hnone rfl
      simp only [Option.isSome_some, if_true]
      unfold newStuffingAF
      by_cases h1 : bA - ↑ntot = 1
      · simp only [h1, if_true]; omega
      · simp only [h1, if_false, Bool.false_eq_true]
        unfold afSize
        simp only [Bool.false_eq_true, if_false]
        split <;> omega
    | some a =>
      have := hsome a rfl
      have hs := afSize_setStuffing a (bA - ntot)
      have h1 := afSize_ge_one a
      simp only [Option.isSome_some, if_true]
      simp only [hl, if_true] at hs
      split
      · omega
      · rw [hs]; split at hs <;> omega
  · simp only [hl, if_false]
    cases pktAF with
    | none =>
      have := hnone rfl
      simp only [Option.isSome_none, Bool.false_eq_true, if_false]; omega
    | some a =>
      have := hsome a rfl
      have h1 := afSize_ge_one a
      simp only [Option.isSome_some, if_true]
      split <;> omega

theorem writePacket_err (p : Packet) (target : Nat) (e : Err) (h : writePacket p target = .err e) :
    (target : Int) - packetHeadSize p < p.payload.length := by
  unfold writePacket at h
  split at h
  · cases h
  · split at h
    · cases h
    · split at h
      · assumption
      · cases h

theorem writePacket_panic (p : Packet) (target : Nat) (h : writePacket p target = .panic) :
    (p.header.hasAdaptationField = true ∧ p.adaptationField.isNone = true) ∨
    (p.header.hasAdaptationField = true ∧ (p.adaptationField.map afNilDeref).getD false = true) := by
  unfold writePacket at h
  split at h
  · left; assumption
  · split at h
    · right; assumption
    · split at h <;> cases h

/-! ### well-formed loop inputs, and the loop's post-condition -/

/-- Inputs on which the payload branch of the loop cannot fail:
* while the PES header is still to be written (`ps`): writing it dereferences no nil pointer and it is
  no longer than the length announced by `calcPESOptionalHeaderLength` (the length the loop plans with);
* the caller's adaptation field is only written in the first packet(s) (`ps`), and writing it dereferences no
  nil pointer. -/
structure LoopWF (hdr : PESHeader) (ps waf : Bool) (af : Option PacketAdaptationField) : Prop where
  pesNoNil : ps = true →
    ¬ (hasPESOptionalHeader hdr.streamID = true ∧ (hdr.optionalHeader.map pesOptNilDeref).getD false = true)
  pesHdrLen : ps = true →
    ∀ n, ((pesHeaderBytes hdr n).length : Int) ≤ 6 + (calcPESOptionalHeaderLength hdr.optionalHeader : Int)
  afFirst : ps = false → waf = false
  afNoNil : waf = true → ∀ a, af = some a → afNilDeref a = false

theorem LoopWF.after_afOnly {hdr : PESHeader} {ps waf : Bool} {af : Option PacketAdaptationField}
    (h : LoopWF hdr ps waf af) (af' : Option PacketAdaptationField) : LoopWF hdr ps false af' :=
  ⟨h.pesNoNil, h.pesHdrLen, fun _ => rfl, fun h => (by cases h)⟩

theorem LoopWF.after_payload (hdr : PESHeader) (af' : Option PacketAdaptationField) : LoopWF hdr false false af' :=
  ⟨fun h => (by cases h), fun h => (by cases h), fun _ => rfl, fun h => (by cases h)⟩

/-- under `LoopWF`, `writePESData` in the payload branch does not panic -/
theorem writePESData_ne_panic (hdr : PESHeader) (data : Bytes) (ps waf : Bool) (af : Option PacketAdaptationField)
    (hwf : LoopWF hdr ps waf af)
    (hbr : ¬ (ps = true ∧ bytesAvail waf af < 6 + (calcPESOptionalHeaderLength hdr.optionalHeader : Int))) :
    writePESData hdr data ps (bytesAvail waf af) ≠ .panic := by
  unfold writePESData
  cases ps with
  | true =>
    have h1 := hwf.pesNoNil rfl
    have h2 := hwf.pesHdrLen rfl data.length
    have h3 : ¬ (bytesAvail waf af < 6 + (calcPESOptionalHeaderLength hdr.optionalHeader : Int)) := fun h => hbr ⟨rfl, h⟩
    rw [if_neg (fun h => h1 h.2)]
    simp only [if_true]
    rw [if_neg (by omega)]
    simp
  | false =>
    have hw := hwf.afFirst rfl
    subst hw
    simp [bytesAvail]

/-- Post-condition of a run of the loop started with counter `cc` and accumulator `acc`; `wf` says whether
the inputs were well-formed.  `new` = chunks emitted by this run. -/
def LoopPost (wf : Prop) (pid : Nat) (cc : WrappingCounter) (acc : List Bytes)
    (out : Res (List Bytes) × WrappingCounter × Option PacketAdaptationField × List Bytes) : Prop :=
  ∃ new : List Bytes,
    out.2.2.2 = acc ++ new ∧
    (∀ c ∈ new, pktPID c = pid) ∧
    payloadCCs new = succs cc.value (payloadCCs new).length ∧
    CCInv out.2.1 ∧
    (out.2.1.value = adv cc.value (payloadCCs new).length ∨
      (¬ wf ∧ out.1 = .panic ∧ out.2.1.value = adv cc.value ((payloadCCs new).length + 1))) ∧
    (∀ l, out.1 = .ok l → l = acc ++ new)

theorem post_stop (wf : Prop) (pid : Nat) (cc : WrappingCounter) (acc : List Bytes) (hcc : CCInv cc)
    (r : Res (List Bytes)) (af : Option PacketAdaptationField) (hr : ∀ l, r = .ok l → l = acc) :
    LoopPost wf pid cc acc (r, cc, af, acc) :=
  ⟨[], by simp, by simp, rfl, hcc, Or.inl rfl, by simpa using hr⟩

theorem post_burn (wf : Prop) (pid : Nat) (cc : WrappingCounter) (acc : List Bytes) (hcc : CCInv cc)
    (af : Option PacketAdaptationField) (hwf : ¬ wf) :
    LoopPost wf pid cc acc (.panic, cc.inc, af, acc) :=
  ⟨[], by simp, by simp, rfl, ccInv_inc cc hcc, Or.inr ⟨hwf, rfl, by simp [payloadCCs, adv, inc_value cc hcc]⟩,
    by intro l h; cases h⟩

theorem post_cons_nopayload (wf wf' : Prop) (pid : Nat) (cc : WrappingCounter) (acc : List Bytes) (bs : Bytes)
    (out : Res (List Bytes) × WrappingCounter × Option PacketAdaptationField × List Bytes)
    (h : LoopPost wf' pid cc (acc ++ [bs]) out) (hwf : wf → wf') (h1 : pktPID bs = pid) (h2 : pktHasPayload bs = false) :
    LoopPost wf pid cc acc out := by
  obtain ⟨new, e1, e2, e3, e4, e5, e6⟩ := h
  refine ⟨bs :: new, by simpa using e1, ?_, ?_, e4, ?_, by simpa using e6⟩
  · intro c hc
    rcases List.mem_cons.1 hc with rfl | hc
    · exact h1
    · exact e2 c hc
  · rw [payloadCCs_cons_nopayload bs new h2]; exact e3
  · rw [payloadCCs_cons_nopayload bs new h2]
    rcases e5 with e5 | ⟨n, e5⟩
    · exact Or.inl e5
    · exact Or.inr ⟨fun w => n (hwf w), e5⟩

theorem post_cons_payload (wf wf' : Prop) (pid : Nat) (cc : WrappingCounter) (acc : List Bytes) (bs : Bytes)
    (out : Res (List Bytes) × WrappingCounter × Option PacketAdaptationField × List Bytes) (hcc : CCInv cc)
    (h : LoopPost wf' pid cc.inc (acc ++ [bs]) out) (hwf : wf → wf') (h1 : pktPID bs = pid)
    (h2 : pktHasPayload bs = true) (h3 : pktCC bs = next cc.value) :
    LoopPost wf pid cc acc out := by
  obtain ⟨new, e1, e2, e3, e4, e5, e6⟩ := h
  rw [inc_value cc hcc] at e3 e5
  refine ⟨bs :: new, by simpa using e1, ?_, ?_, e4, ?_, by simpa using e6⟩
  · intro c hc
    rcases List.mem_cons.1 hc with rfl | hc
    · exact h1
    · exact e2 c hc
  · rw [payloadCCs_cons_payload bs new h2, List.length_cons, succs, h3, ← e3]
  · rw [payloadCCs_cons_payload bs new h2, List.length_cons]
    rcases e5 with e5 | ⟨n, e5⟩
    · exact Or.inl e5
    · exact Or.inr ⟨fun w => n (hwf w), e5⟩

/-- **Level 2 (loop)**: every run of `writeDataLoop` satisfies `LoopPost` -/
theorem loop_post (pid : Nat) (hdr : PESHeader) (hpid : pid < 8192) :
    ∀ (fuel : Nat) (data : Bytes) (ps waf : Bool) (af : Option PacketAdaptationField) (cc : WrappingCounter)
      (acc : List Bytes), CCInv cc →
      LoopPost (LoopWF hdr ps waf af) pid cc acc (writeDataLoop pid hdr fuel data ps waf af cc acc) := by
  intro fuel
  induction fuel with
  | zero =>
    intro data ps waf af cc acc hcc
    exact post_stop _ _ _ _ hcc _ _ (by intro l h; cases h)
  | succ fuel ih =>
    intro data ps waf af cc acc hcc
    rw [loop_succ]
    split
    · exact post_stop _ _ _ _ hcc _ _ (by intro l h; cases h; rfl)
    · split
      · -- the adaptation field travels alone
        split
        · exact post_stop _ _ _ _ hcc _ _ (by intro l h; cases h)
        · rename_i a hpk
          split
          · rename_i bs hw
            have ho := writePacket_observe _ _ _ hw (by simpa [afOnlyPkt, mkHdr] using hpid)
              (by simp [afOnlyPkt, mkHdr]) (by simp only [afOnlyPkt, mkHdr]; omega)
            exact post_cons_nopayload _ _ _ _ _ _ _ (ih data ps false _ cc (acc ++ [bs]) hcc)
              (fun w => w.after_afOnly _) ho.1 ho.2.1
          · exact post_stop _ _ _ _ hcc _ _ (by intro l h; cases h)
          · exact post_stop _ _ _ _ hcc _ _ (by intro l h; cases h)
      · rename_i hbr
        split
        · rename_i payload ntot np hpes
          have hp := writePESData_ok _ _ _ _ _ _ _ hpes
          simp only []
          split
          · rename_i bs hw
            have ho := writePacket_observe _ _ _ hw (by simpa [payloadPkt, mkHdr] using hpid)
              (by simp [payloadPkt, mkHdr])
              (by simp only [payloadPkt, mkHdr, inc_get cc hcc]; have := next_le cc.value; omega)
            have h3 : pktCC bs = next cc.value := by rw [ho.2.2]; simp only [payloadPkt, mkHdr, inc_get cc hcc]
            exact post_cons_payload _ _ _ _ _ _ _ hcc
              (ih (data.drop np) false false _ cc.inc (acc ++ [bs]) (ccInv_inc cc hcc))
              (fun _ => LoopWF.after_payload hdr _) ho.1 ho.2.1 h3
          · rename_i e hw
            exfalso
            have he := writePacket_err _ _ _ hw
            have hf := payload_fits pid ps cc.inc.get payload (if waf then af else none) af (bytesAvail waf af) ntot
              (bytesAvail_none waf af) (bytesAvail_some waf af) hp.2
            apply hf
            have hl : (payloadPkt pid ps cc.inc.get payload
                (stuffPair (bytesAvail waf af - ↑ntot) (if waf = true then af else none) af).fst).payload.length = ntot := hp.1
            rw [hl] at he
            exact he
          · rename_i hw
            by_cases hwf : LoopWF hdr ps waf af
            · exfalso
              have hn := stuffPair_noNil (bytesAvail waf af - ↑ntot) (if waf = true then af else none) af
                (by
                  intro a ha
                  cases waf with
                  | false => simp at ha
                  | true => exact hwf.afNoNil rfl a (by simpa using ha))
              rcases writePacket_panic _ _ hw with ⟨h1, h2⟩ | ⟨_, h2⟩
              · simp only [payloadPkt, mkHdr] at h1 h2
                rw [Option.isNone_iff_eq_none] at h2
                rw [h2] at h1
                cases h1
              · simp only [payloadPkt] at h2
                rw [hn] at h2
                cases h2
            · exact post_burn _ _ _ _ hcc _ hwf
        · rename_i e hpes
          exact absurd hpes (writePESData_ne_err _ _ _ _ _)
        · rename_i hpes
          by_cases hwf : LoopWF hdr ps waf af
          · exact absurd hpes (writePESData_ne_panic hdr data ps waf af hwf hbr)
          · exact post_burn _ _ _ _ hcc _ hwf

/-- **Level 2 (loop), plain form.**  `new` are the chunks of this run: all on `pid`; the payload-carrying ones
carry the successive values after `cc`; adaptation-field-only chunks do not advance the counter; the returned
counter is `cc` advanced once per payload-carrying chunk — or once more, which can only happen when the result is
`.panic` (never `.ok`, never `.err`) and the inputs are not `LoopWF`. -/
theorem writeDataLoop_counters (pid : Nat) (hdr : PESHeader) (hpid : pid < 8192) (fuel : Nat) (data : Bytes)
    (ps waf : Bool) (af : Option PacketAdaptationField) (cc : WrappingCounter) (acc : List Bytes) (hcc : CCInv cc) :
    ∃ new : List Bytes,
      (writeDataLoop pid hdr fuel data ps waf af cc acc).2.2.2 = acc ++ new ∧
      (∀ c ∈ new, pktPID c = pid) ∧
      payloadCCs new = succs cc.value (payloadCCs new).length ∧
      CCInv (writeDataLoop pid hdr fuel data ps waf af cc acc).2.1 ∧
      ((writeDataLoop pid hdr fuel data ps waf af cc acc).2.1.value = adv cc.value (payloadCCs new).length ∨
        (¬ LoopWF hdr ps waf af ∧ (writeDataLoop pid hdr fuel data ps waf af cc acc).1 = .panic ∧
          (writeDataLoop pid hdr fuel data ps waf af cc acc).2.1.value = adv cc.value ((payloadCCs new).length + 1))) ∧
      (∀ l, (writeDataLoop pid hdr fuel data ps waf af cc acc).1 = .ok l → l = acc ++ new) :=
  loop_post pid hdr hpid fuel data ps waf af cc acc hcc

/-- on well-formed inputs no counter value is burnt -/
theorem writeDataLoop_wf_exact (pid : Nat) (hdr : PESHeader) (hpid : pid < 8192) (fuel : Nat) (data : Bytes)
    (ps waf : Bool) (af : Option PacketAdaptationField) (cc : WrappingCounter) (acc : List Bytes) (hcc : CCInv cc)
    (hwf : LoopWF hdr ps waf af) :
    ∃ new : List Bytes,
      (writeDataLoop pid hdr fuel data ps waf af cc acc).2.2.2 = acc ++ new ∧
      (∀ c ∈ new, pktPID c = pid) ∧
      payloadCCs new = succs cc.value (payloadCCs new).length ∧
      (writeDataLoop pid hdr fuel data ps waf af cc acc).2.1.value = adv cc.value (payloadCCs new).length := by
  obtain ⟨new, e1, e2, e3, _, e5, _⟩ := loop_post pid hdr hpid fuel data ps waf af cc acc hcc
  refine ⟨new, e1, e2, e3, ?_⟩
  rcases e5 with e5 | ⟨n, _⟩
  · exact e5
  · exact absurd hwf n

/-! ### lifting to `Mux.writeData` -/

def dataForce (m : Mux) (d : MuxerData) : Bool :=
  (d.adaptationField.map (·.randomAccessIndicator)).getD false && d.pid == m.pcrPID

/-- the PES header `WriteData` packetises (stream id defaulted from the stream type) -/
def dataHdr (m1 : Mux) (d : MuxerData) : PESHeader :=
  if d.pes.header.streamID = 0 then
    { d.pes.header with streamID := toPESStreamID ((m1.streams.find? (·.elementaryPID == d.pid)).map (·.streamType) |>.getD 0) }
  else d.pes.header

/-- the loop call made by `WriteData` -/
def dataLoop (m1 : Mux) (d : MuxerData) (cc : WrappingCounter) :=
  writeDataLoop d.pid (dataHdr m1 d) (d.pes.data.length + 2) d.pes.data true d.adaptationField.isSome d.adaptationField cc []

theorem writeData_rejected (m : Mux) (d : MuxerData)
    (h : m.ccOf d.pid = none ∨ 6 + calcPESOptionalHeaderLength d.pes.header.optionalHeader > 184) :
    (m.writeData d).1.chunks = [] ∧ (m.writeData d).2.1 = m := by
  unfold Mux.writeData
  split
  · exact ⟨rfl, rfl⟩
  · split
    · exact ⟨rfl, rfl⟩
    · rename_i cc hcc hfit
      rcases h with h | h
      · rw [h] at hcc; cases hcc
      · exact absurd h hfit

theorem writeData_tables_failed (m : Mux) (d : MuxerData) (cc : WrappingCounter) (hcc : m.ccOf d.pid = some cc)
    (hfit : ¬ 6 + calcPESOptionalHeaderLength d.pes.header.optionalHeader > 184)
    (hr : (m.retransmitTables (dataForce m d)).1.isOk = false) :
    (m.writeData d).1.chunks = [] ∧ (m.writeData d).2.1 = (m.retransmitTables (dataForce m d)).2 := by
  unfold Mux.writeData
  rw [hcc]
  simp only [hfit, if_false]
  unfold dataForce at hr ⊢
  split
  · rename_i e m1 h; rw [h]; exact ⟨rfl, rfl⟩
  · rename_i m1 h; rw [h]; exact ⟨rfl, rfl⟩
  · rename_i tcs m1 h; rw [h] at hr; cases hr

theorem writeData_ok_tables (m : Mux) (d : MuxerData) (cc : WrappingCounter) (hcc : m.ccOf d.pid = some cc)
    (hfit : ¬ 6 + calcPESOptionalHeaderLength d.pes.header.optionalHeader > 184)
    (tcs : List Bytes) (m1 : Mux) (hr : m.retransmitTables (dataForce m d) = (.ok tcs, m1)) :
    (m.writeData d).1.chunks = tcs ++ (dataLoop m1 d cc).2.2.2 ∧
    (m.writeData d).2.1 = m1.setCC d.pid (dataLoop m1 d cc).2.1 ∧
    ((m.writeData d).1.panic = true ↔ (dataLoop m1 d cc).1 = .panic) := by
  unfold Mux.writeData
  rw [hcc]
  simp only [hfit, if_false]
  unfold dataForce at hr
  rw [hr]
  unfold dataLoop dataHdr
  simp only
  generalize writeDataLoop _ _ _ _ _ _ _ _ _ = L
  obtain ⟨r, cc', af', acc'⟩ := L
  cases r <;> simp

/-- **Level 2 (`WriteData`)**: when the tables step succeeded with chunks `tcs` and state `m1`, the call emits
`tcs ++ new` and stores `cc'` for `d.pid` (`setCC` touches nothing else: see `setCC_frame`, `lookup_setCC`);
`new`/`cc'` satisfy the loop's post-condition with respect to the counter `cc` of `d.pid`. -/
theorem writeData_counters (m : Mux) (d : MuxerData) (cc : WrappingCounter) (hcc : m.ccOf d.pid = some cc)
    (hfit : ¬ 6 + calcPESOptionalHeaderLength d.pes.header.optionalHeader > 184)
    (hinv : CCInv cc) (hpid : d.pid < 8192)
    (tcs : List Bytes) (m1 : Mux) (hr : m.retransmitTables (dataForce m d) = (.ok tcs, m1)) :
    ∃ (new : List Bytes) (cc' : WrappingCounter),
      (m.writeData d).1.chunks = tcs ++ new ∧
      (m.writeData d).2.1 = m1.setCC d.pid cc' ∧
      (∀ c ∈ new, pktPID c = d.pid) ∧
      payloadCCs new = succs cc.value (payloadCCs new).length ∧
      CCInv cc' ∧
      (cc'.value = adv cc.value (payloadCCs new).length ∨
        (¬ LoopWF (dataHdr m1 d) true d.adaptationField.isSome d.adaptationField ∧ (m.writeData d).1.panic = true ∧
          cc'.value = adv cc.value ((payloadCCs new).length + 1))) := by
  obtain ⟨h1, h2, h3⟩ := writeData_ok_tables m d cc hcc hfit tcs m1 hr
  obtain ⟨new, e1, e2, e3, e4, e5, _⟩ := loop_post d.pid (dataHdr m1 d) hpid (d.pes.data.length + 2) d.pes.data true
    d.adaptationField.isSome d.adaptationField cc [] hinv
  refine ⟨new, (dataLoop m1 d cc).2.1, ?_, h2, e2, e3, e4, ?_⟩
  · rw [h1]; unfold dataLoop; rw [e1]; rfl
  · rcases e5 with e5 | ⟨n, e5, e6⟩
    · exact Or.inl e5
    · exact Or.inr ⟨n, h3.2 e5, e6⟩

/-! ## Level 3 — tables and histories -/

/-! ### association lists of counters -/

def lookup (l : List (Nat × WrappingCounter)) (p : Nat) : Option WrappingCounter := (l.find? (·.1 == p)).map (·.2)

theorem ccOf_eq (m : Mux) (p : Nat) : m.ccOf p = lookup m.esCC p := rfl
theorem keptCC_eq (m : Mux) (p : Nat) : m.keptCC p = (lookup m.removedCC p).getD (newWrappingCounter 15) := rfl

theorem lookup_nil (p : Nat) : lookup [] p = none := rfl
theorem lookup_cons (e : Nat × WrappingCounter) (l : List (Nat × WrappingCounter)) (p : Nat) :
    lookup (e :: l) p = if e.1 = p then some e.2 else lookup l p := by
  unfold lookup
  by_cases h : e.1 = p
  · simp [h]
  · simp [h]

theorem lookup_append (l l' : List (Nat × WrappingCounter)) (p : Nat) :
    lookup (l ++ l') p = (lookup l p).or (lookup l' p) := by
  induction l with
  | nil => simp [lookup_nil]
  | cons e l ih =>
    rw [List.cons_append, lookup_cons, lookup_cons, ih]
    split <;> simp

theorem lookup_filter_ne (l : List (Nat × WrappingCounter)) (p q : Nat) (h : p ≠ q) :
    lookup (l.filter (·.1 != q)) p = lookup l p := by
  induction l with
  | nil => rfl
  | cons e l ih =>
    by_cases he : e.1 = q
    · have hqp : ¬ q = p := fun hh => h hh.symm
      simp [he, lookup_cons, ih, hqp]
    · simp [he, lookup_cons, ih]

theorem lookup_filter_self (l : List (Nat × WrappingCounter)) (p : Nat) :
    lookup (l.filter (·.1 != p)) p = none := by
  induction l with
  | nil => rfl
  | cons e l ih =>
    by_cases he : e.1 = p
    · simp [he, ih]
    · simp [he, lookup_cons, ih]

theorem lookup_none_iff (l : List (Nat × WrappingCounter)) (p : Nat) :
    lookup l p = none ↔ l.any (·.1 == p) = false := by
  induction l with
  | nil => simp [lookup_nil]
  | cons e l ih =>
    rw [lookup_cons, List.any_cons]
    by_cases he : e.1 = p
    · simp [he]
    · simp [he, ih]

theorem lookup_mem (l : List (Nat × WrappingCounter)) (p : Nat) (c : WrappingCounter) (h : lookup l p = some c) :
    (p, c) ∈ l := by
  induction l with
  | nil => cases h
  | cons e l ih =>
    rw [lookup_cons] at h
    by_cases he : e.1 = p
    · simp only [he, if_true, Option.some.injEq] at h
      obtain ⟨a, b⟩ := e
      simp only at he h
      subst he h
      exact List.mem_cons_self
    · simp only [he, if_false] at h
      exact List.mem_cons_of_mem _ (ih h)

theorem lookup_setCC (l : List (Nat × WrappingCounter)) (pid p : Nat) (c : WrappingCounter) :
    lookup (l.map fun e => if e.1 == pid then (pid, c) else e) p =
      if p = pid then (lookup l p).map (fun _ => c) else lookup l p := by
  induction l with
  | nil => simp [lookup_nil]
  | cons e l ih =>
    rw [List.map_cons, lookup_cons, lookup_cons, ih]
    by_cases he : e.1 = pid
    · by_cases hp : p = pid
      · subst hp; simp [he]
      · have : ¬ pid = p := fun h => hp h.symm
        have : ¬ e.1 = p := fun h => hp (h ▸ he)
        simp [*]
    · by_cases hp : p = pid
      · subst hp; simp [he]
      · simp [he, hp]

theorem any_filter_ne {α : Type} (f : α → Nat) (l : List α) (pid p : Nat) :
    (l.filter (fun x => f x != pid)).any (fun x => f x == p) = (decide (p ≠ pid) && l.any (fun x => f x == p)) := by
  induction l with
  | nil => simp
  | cons e l ih =>
    by_cases he : f e = pid
    · by_cases hp : p = pid
      · simp [he, hp]
      · have : ¬ pid = p := fun h => hp h.symm
        simp [he, hp, ih, this]
    · by_cases hp : p = pid
      · simp [he, hp]
      · simp [he, hp, ih]

/-! ### the stored counter of a PID -/

/-- the counter value the muxer holds for PID `p`: PAT / PMT counter, the stream's counter, the counter kept for a
removed stream, or 16 (fresh: nothing sent yet) -/
def stored (m : Mux) (p : Nat) : Nat :=
  if p = 0 then m.patCC.value
  else if p = 4096 then m.pmtCC.value
  else match lookup m.esCC p with
    | some c => c.value
    | none => match lookup m.removedCC p with
      | some c => c.value
      | none => 16

/-- structural invariant of the muxer state -/
structure MuxInv (m : Mux) : Prop where
  pat : CCInv m.patCC
  pmt : CCInv m.pmtCC
  es : ∀ e ∈ m.esCC, CCInv e.2 ∧ e.1 ≠ 0 ∧ e.1 ≠ 4096 ∧ e.1 < 8192
  removed : ∀ e ∈ m.removedCC, CCInv e.2
  link : ∀ p, m.streams.any (·.elementaryPID == p) = m.esCC.any (·.1 == p)

theorem muxInv_new (period : Nat) : MuxInv (newMux period) :=
  ⟨ccInv_fresh, ccInv_fresh, (by intro e h; cases h), (by intro e h; cases h), (by intro p; rfl)⟩

theorem stored_new (period p : Nat) : stored (newMux period) p = 16 := by
  unfold stored
  split
  · rfl
  · split
    · rfl
    · rfl

/-- `Adv v cs v'`: the counter values `cs` are the successive values handed out from stored value `v`, leaving `v'` -/
def Adv (v : Nat) (cs : List Nat) (v' : Nat) : Prop := cs = succs v cs.length ∧ v' = adv v cs.length

theorem Adv.nil (v : Nat) : Adv v [] v := ⟨rfl, rfl⟩
theorem Adv.single (v : Nat) : Adv v [next v] (next v) := ⟨rfl, rfl⟩
theorem Adv.append {v v' v'' : Nat} {a b : List Nat} (h1 : Adv v a v') (h2 : Adv v' b v'') : Adv v (a ++ b) v'' := by
  obtain ⟨a1, a2⟩ := h1
  obtain ⟨b1, b2⟩ := h2
  subst a2
  constructor
  · rw [List.length_append, succs_add, ← a1, ← b1]
  · rw [List.length_append, adv_add]; exact b2

/-- counters of the payload-carrying chunks of PID `p`, in emission order -/
def ccsOn (p : Nat) (cs : List Bytes) : List Nat := payloadCCs (cs.filter (fun c => pktPID c == p))

theorem ccsOn_nil (p : Nat) : ccsOn p [] = [] := rfl
theorem ccsOn_append (p : Nat) (a b : List Bytes) : ccsOn p (a ++ b) = ccsOn p a ++ ccsOn p b := by
  simp [ccsOn, payloadCCs_append]
theorem ccsOn_same (p : Nat) (cs : List Bytes) (h : ∀ c ∈ cs, pktPID c = p) : ccsOn p cs = payloadCCs cs := by
  unfold ccsOn
  rw [List.filter_eq_self.2]
  intro c hc; simp [h c hc]
theorem ccsOn_other (p q : Nat) (cs : List Bytes) (h : ∀ c ∈ cs, pktPID c = q) (hpq : p ≠ q) : ccsOn p cs = [] := by
  unfold ccsOn
  rw [List.filter_eq_nil_iff.2]
  · rfl
  · intro c hc; simp [h c hc]; exact fun h => hpq h.symm

/-! ### tables -/

/-- `m'` holds the same streams and stream counters as `m` -/
structure SameES (m m' : Mux) : Prop where
  esCC : m'.esCC = m.esCC
  removedCC : m'.removedCC = m.removedCC
  streams : m'.streams = m.streams

theorem SameES.refl (m : Mux) : SameES m m := ⟨rfl, rfl, rfl⟩
theorem SameES.trans {a b c : Mux} (h1 : SameES a b) (h2 : SameES b c) : SameES a c :=
  ⟨h2.esCC.trans h1.esCC, h2.removedCC.trans h1.removedCC, h2.streams.trans h1.streams⟩

theorem tablePacket_observe (pid ccv : Nat) (payload bs : Bytes) (h : writePacket (tablePacket pid ccv payload) 188 = .ok bs)
    (hpid : pid < 8192) (hcc : ccv < 16) : pktPID bs = pid ∧ pktHasPayload bs = true ∧ pktCC bs = ccv :=
  writePacket_observe _ _ _ h hpid (by simp [tablePacket]) hcc

theorem generatePAT_ok (m : Mux) (bs : Bytes) (m' : Mux) (h : m.generatePAT = (.ok bs, m')) (hp : CCInv m.patCC) :
    pktPID bs = 0 ∧ pktHasPayload bs = true ∧ pktCC bs = next m.patCC.value ∧
    m'.patCC = m.patCC.inc ∧ m'.pmtCC = m.pmtCC ∧ SameES m m' ∧ m'.pcrPID = m.pcrPID := by
  unfold Mux.generatePAT at h
  simp only at h
  split at h
  · rename_i payload hpsi
    split at h
    · rename_i bs' hw
      simp only [Prod.mk.injEq, Res.ok.injEq] at h
      obtain ⟨rfl, rfl⟩ := h
      have ho := tablePacket_observe 0 _ _ _ hw (by decide) (by rw [inc_get _ hp]; have := next_le m.patCC.value; omega)
      rw [inc_get _ hp] at ho
      exact ⟨ho.1, ho.2.1, ho.2.2, rfl, rfl, ⟨rfl, rfl, rfl⟩, rfl⟩
    · simp at h
    · simp at h
  · simp at h
  · simp at h

theorem generatePMT_ok (m : Mux) (bs : Bytes) (m' : Mux) (h : m.generatePMT = (.ok bs, m')) (hp : CCInv m.pmtCC) :
    pktPID bs = 4096 ∧ pktHasPayload bs = true ∧ pktCC bs = next m.pmtCC.value ∧
    m'.pmtCC = m.pmtCC.inc ∧ m'.patCC = m.patCC ∧ SameES m m' ∧ m'.pcrPID = m.pcrPID := by
  unfold Mux.generatePMT at h
  split at h
  · simp at h
  · simp only at h
    split at h
    · rename_i payload hpsi
      split at h
      · rename_i bs' hw
        simp only [Prod.mk.injEq, Res.ok.injEq] at h
        obtain ⟨rfl, rfl⟩ := h
        have ho := tablePacket_observe pmtStartPID _ _ _ hw (by decide)
          (by rw [inc_get _ hp]; have := next_le m.pmtCC.value; omega)
        rw [inc_get _ hp] at ho
        exact ⟨ho.1, ho.2.1, ho.2.2, rfl, rfl, ⟨rfl, rfl, rfl⟩, rfl⟩
      · simp at h
      · simp at h
    · simp at h
    · simp at h

/-- the two table packets were emitted from state `m`, leading to `m'` -/
def TablesEmitted (m : Mux) (cs : List Bytes) (m' : Mux) : Prop :=
  ∃ pat pmt, cs = [pat, pmt] ∧
    pktPID pat = 0 ∧ pktHasPayload pat = true ∧ pktCC pat = next m.patCC.value ∧
    pktPID pmt = 4096 ∧ pktHasPayload pmt = true ∧ pktCC pmt = next m.pmtCC.value ∧
    m'.patCC = m.patCC.inc ∧ m'.pmtCC = m.pmtCC.inc ∧ SameES m m'

/-- nothing was emitted and no counter moved -/
def TablesSilent (m : Mux) (cs : List Bytes) (m' : Mux) : Prop :=
  cs = [] ∧ m'.patCC = m.patCC ∧ m'.pmtCC = m.pmtCC ∧ SameES m m'

/-- **Level 3 (tables)**: `WriteTables` either emits exactly one packet on PID 0 and one on PID 0x1000 carrying
the successors of `patCC` / `pmtCC`, or (error, panic) returns the state it was called with -/
theorem writeTables_spec (m : Mux) (hp : CCInv m.patCC) (hq : CCInv m.pmtCC) :
    (∃ cs, m.writeTables.1 = .ok cs ∧ TablesEmitted m cs m.writeTables.2) ∨
    (m.writeTables.1.isOk = false ∧ m.writeTables.2 = m) := by
  unfold Mux.writeTables
  split
  · rename_i pat m1 h1
    have g1 := generatePAT_ok m pat m1 h1 hp
    split
    · rename_i pmt m2 h2
      have g2 := generatePMT_ok m1 pmt m2 h2 (by rw [g1.2.2.2.2.1]; exact hq)
      left
      refine ⟨[pat, pmt], rfl, pat, pmt, rfl, g1.1, g1.2.1, g1.2.2.1, g2.1, g2.2.1, ?_, ?_, ?_, ?_⟩
      · rw [g2.2.2.1, g1.2.2.2.2.1]
      · show m2.patCC = _; rw [g2.2.2.2.2.1, g1.2.2.2.1]
      · show m2.pmtCC = _; rw [g2.2.2.2.1, g1.2.2.2.2.1]
      · exact g1.2.2.2.2.2.1.trans g2.2.2.2.2.2.1
    · right; exact ⟨rfl, rfl⟩
    · right; exact ⟨rfl, rfl⟩
  · right; exact ⟨rfl, rfl⟩
  · right; exact ⟨rfl, rfl⟩

theorem writeTablesCall_spec (m : Mux) (hp : CCInv m.patCC) (hq : CCInv m.pmtCC) :
    TablesEmitted m m.writeTablesCall.1.chunks m.writeTablesCall.2 ∨
    (m.writeTablesCall.1.chunks = [] ∧ m.writeTablesCall.2 = m) := by
  unfold Mux.writeTablesCall
  rcases writeTables_spec m hp hq with ⟨cs, h1, h2⟩ | ⟨h1, h2⟩
  · left
    revert h1 h2
    generalize m.writeTables = r
    obtain ⟨r1, r2⟩ := r
    intro h1 h2
    simp only at h1
    subst h1
    exact h2
  · right
    revert h1 h2
    generalize m.writeTables = r
    obtain ⟨r1, r2⟩ := r
    intro h1 h2
    cases r1 with
    | ok a => cases h1
    | err e => exact ⟨rfl, h2⟩
    | panic => exact ⟨rfl, h2⟩

theorem retransmitTables_spec (m : Mux) (force : Bool) (hp : CCInv m.patCC) (hq : CCInv m.pmtCC) :
    (∃ cs, (m.retransmitTables force).1 = .ok cs ∧
      (TablesEmitted m cs (m.retransmitTables force).2 ∨ TablesSilent m cs (m.retransmitTables force).2)) ∨
    ((m.retransmitTables force).1.isOk = false ∧ TablesSilent m [] (m.retransmitTables force).2) := by
  unfold Mux.retransmitTables
  simp only
  by_cases hc : (!force && decide (m.retransmitCounter + 1 < m.period)) = true
  · rw [if_pos hc]
    left; exact ⟨[], rfl, Or.inr ⟨rfl, rfl, rfl, ⟨rfl, rfl, rfl⟩⟩⟩
  · rw [if_neg hc]
    have key := writeTables_spec { m with retransmitCounter := m.retransmitCounter + 1 } hp hq
    revert key
    generalize Mux.writeTables { m with retransmitCounter := m.retransmitCounter + 1 } = r
    obtain ⟨r1, r2⟩ := r
    intro key
    rcases key with ⟨cs, h1, h2⟩ | ⟨h1, h2⟩
    · simp only at h1 h2
      subst h1
      left
      obtain ⟨pat, pmt, e0, e1, e2, e3, e4, e5, e6, e7, e8, e9⟩ := h2
      exact ⟨cs, rfl, Or.inl ⟨pat, pmt, e0, e1, e2, e3, e4, e5, e6, e7, e8, ⟨e9.esCC, e9.removedCC, e9.streams⟩⟩⟩
    · simp only at h1 h2
      subst h2
      right
      cases r1 with
      | ok a => cases h1
      | err e => exact ⟨rfl, rfl, rfl, rfl, ⟨rfl, rfl, rfl⟩⟩
      | panic => exact ⟨rfl, rfl, rfl, rfl, ⟨rfl, rfl, rfl⟩⟩

/-! ### effect of each API call on the stored counters -/

/-- emitting `cs` took the muxer from `m` to `m'`: on every PID the payload-carrying chunks of `cs` carry the
successive values after the counter stored in `m`, and `m'` stores the last of them -/
def StepAdv (m : Mux) (cs : List Bytes) (m' : Mux) : Prop := ∀ p, Adv (stored m p) (ccsOn p cs) (stored m' p)

theorem StepAdv.trans {a b c : Mux} {cs cs' : List Bytes} (h1 : StepAdv a cs b) (h2 : StepAdv b cs' c) :
    StepAdv a (cs ++ cs') c := by
  intro p; rw [ccsOn_append]; exact (h1 p).append (h2 p)

theorem StepAdv.of_eq {m m' : Mux} (h : ∀ p, stored m' p = stored m p) : StepAdv m [] m' := by
  intro p; rw [h p]; exact Adv.nil _

theorem stored_congr {m m' : Mux} (h1 : m'.patCC = m.patCC) (h2 : m'.pmtCC = m.pmtCC) (h3 : SameES m m') (p : Nat) :
    stored m' p = stored m p := by
  unfold stored; rw [h1, h2, h3.esCC, h3.removedCC]

theorem stored_zero (m : Mux) : stored m 0 = m.patCC.value := by simp [stored]
theorem stored_pmt (m : Mux) : stored m 4096 = m.pmtCC.value := by simp [stored]
theorem stored_es (m : Mux) (p : Nat) (h0 : p ≠ 0) (h1 : p ≠ 4096) :
    stored m p = match lookup m.esCC p with
      | some c => c.value
      | none => match lookup m.removedCC p with
        | some c => c.value
        | none => 16 := by simp [stored, h0, h1]

theorem stored_es_some (m : Mux) (p : Nat) (c : WrappingCounter) (h0 : p ≠ 0) (h1 : p ≠ 4096)
    (h : lookup m.esCC p = some c) : stored m p = c.value := by rw [stored_es m p h0 h1, h]

theorem MuxInv.of_same {m m' : Mux} (h : MuxInv m) (h1 : m'.patCC = m.patCC) (h2 : m'.pmtCC = m.pmtCC)
    (h3 : SameES m m') : MuxInv m' :=
  ⟨h1 ▸ h.pat, h2 ▸ h.pmt, h3.esCC ▸ h.es, h3.removedCC ▸ h.removed, by rw [h3.esCC, h3.streams]; exact h.link⟩

/-- `SetPCRPID` moves no counter -/
theorem setPCRPID_step (m : Mux) (pid : Nat) (h : MuxInv m) :
    MuxInv (m.setPCRPID pid) ∧ ∀ p, stored (m.setPCRPID pid) p = stored m p :=
  ⟨h.of_same rfl rfl ⟨rfl, rfl, rfl⟩, stored_congr rfl rfl ⟨rfl, rfl, rfl⟩⟩

/-- `AddElementaryStream` with an explicit PID (succeeding or failing) moves no counter: a re-added PID
continues from the counter kept at its removal -/
theorem add_step (m : Mux) (es : PMTElementaryStream) (h : MuxInv m) (h0 : es.elementaryPID ≠ 0)
    (h1 : es.elementaryPID ≠ 4096) (h2 : es.elementaryPID < 8192) :
    MuxInv (m.addElementaryStream es).2 ∧ ∀ p, stored (m.addElementaryStream es).2 p = stored m p := by
  unfold Mux.addElementaryStream
  rw [if_pos h0]
  split
  · exact ⟨h, fun _ => rfl⟩
  · rename_i hs
    have hno : lookup m.esCC es.elementaryPID = none := by
      rw [lookup_none_iff, ← h.link]; simpa using hs
    constructor
    · refine ⟨h.pat, h.pmt, ?_, ?_, ?_⟩
      · intro e he
        simp only [List.mem_append, List.mem_filter, List.mem_singleton] at he
        rcases he with ⟨he, _⟩ | rfl
        · exact h.es e he
        · refine ⟨?_, h0, h1, h2⟩
          rw [keptCC_eq]
          cases hk : lookup m.removedCC es.elementaryPID with
          | none => exact ccInv_fresh
          | some c => exact h.removed _ (lookup_mem _ _ _ hk)
      · intro e he
        simp only [List.mem_filter] at he
        exact h.removed e he.1
      · intro p
        simp only [List.any_append, List.any_cons, List.any_nil, Bool.or_false]
        rw [h.link p, any_filter_ne (fun e : Nat × WrappingCounter => e.1)]
        by_cases hp : p = es.elementaryPID
        · subst hp
          have := (lookup_none_iff _ _).1 hno
          simp [this]
        · simp [hp]
    · intro p
      by_cases hp0 : p = 0
      · subst hp0; rw [stored_zero, stored_zero]
      · by_cases hp1 : p = 4096
        · subst hp1; rw [stored_pmt, stored_pmt]
        · rw [stored_es _ p hp0 hp1, stored_es _ p hp0 hp1]
          simp only
          by_cases hp : p = es.elementaryPID
          · subst hp
            rw [lookup_append, lookup_filter_self, hno, lookup_cons, if_pos rfl, keptCC_eq]
            cases hk : lookup m.removedCC es.elementaryPID with
            | none => rfl
            | some c => rfl
          · have hne : ¬ es.elementaryPID = p := fun hh => hp hh.symm
            rw [lookup_append, lookup_filter_ne _ _ _ hp, lookup_cons, if_neg hne, lookup_nil, Option.or_none,
              lookup_filter_ne _ _ _ hp]

/-- `RemoveElementaryStream` (succeeding or failing) moves no counter: the stream's counter is kept -/
theorem remove_step (m : Mux) (pid : Nat) (h : MuxInv m) :
    MuxInv (m.removeElementaryStream pid).2 ∧ ∀ p, stored (m.removeElementaryStream pid).2 p = stored m p := by
  unfold Mux.removeElementaryStream
  split
  · rename_i hs
    have hin : m.esCC.any (·.1 == pid) = true := by rw [← h.link]; exact hs
    obtain ⟨c, hc⟩ : ∃ c, lookup m.esCC pid = some c := by
      cases hl : lookup m.esCC pid with
      | none => rw [(lookup_none_iff _ _).1 hl] at hin; cases hin
      | some c => exact ⟨c, rfl⟩
    have hcm := h.es _ (lookup_mem _ _ _ hc)
    constructor
    · refine ⟨h.pat, h.pmt, ?_, ?_, ?_⟩
      · intro e he
        simp only [List.mem_filter] at he
        exact h.es e he.1
      · intro e he
        simp only [List.mem_append, List.mem_filter, ccOf_eq, hc, List.mem_singleton] at he
        rcases he with ⟨he, _⟩ | rfl
        · exact h.removed e he
        · exact hcm.1
      · intro p
        simp only
        rw [any_filter_ne (fun e : PMTElementaryStream => e.elementaryPID),
          any_filter_ne (fun e : Nat × WrappingCounter => e.1), h.link p]
    · intro p
      by_cases hp0 : p = 0
      · subst hp0; rw [stored_zero, stored_zero]
      · by_cases hp1 : p = 4096
        · subst hp1; rw [stored_pmt, stored_pmt]
        · rw [stored_es _ p hp0 hp1, stored_es _ p hp0 hp1]
          simp only [ccOf_eq, hc]
          by_cases hp : p = pid
          · subst hp
            rw [lookup_filter_self, lookup_append, lookup_filter_self, lookup_cons, if_pos rfl, hc]
            rfl
          · have hne : ¬ pid = p := fun hh => hp hh.symm
            rw [lookup_filter_ne _ _ _ hp, lookup_append, lookup_filter_ne _ _ _ hp, lookup_cons, if_neg hne,
              lookup_nil, Option.or_none]
  · exact ⟨h, fun _ => rfl⟩

theorem tablesSilent_step {m m' : Mux} {cs : List Bytes} (h : MuxInv m) (ht : TablesSilent m cs m') :
    MuxInv m' ∧ StepAdv m cs m' := by
  obtain ⟨rfl, e1, e2, e3⟩ := ht
  exact ⟨h.of_same e1 e2 e3, StepAdv.of_eq (stored_congr e1 e2 e3)⟩

theorem tablesEmitted_ccsOn {m m' : Mux} {cs : List Bytes} (ht : TablesEmitted m cs m') (p : Nat) :
    ccsOn p cs = if p = 0 then [next m.patCC.value] else if p = 4096 then [next m.pmtCC.value] else [] := by
  obtain ⟨pat, pmt, rfl, a1, a2, a3, b1, b2, b3, _⟩ := ht
  unfold ccsOn
  by_cases hp0 : p = 0
  · subst hp0
    simp [a1, b1, payloadCCs, a2, a3]
  · by_cases hp1 : p = 4096
    · subst hp1
      simp [a1, b1, payloadCCs, b2, b3]
    · have : ¬ 0 = p := fun h => hp0 h.symm
      have : ¬ 4096 = p := fun h => hp1 h.symm
      simp [payloadCCs, *]

theorem tablesEmitted_step {m m' : Mux} {cs : List Bytes} (h : MuxInv m) (ht : TablesEmitted m cs m') :
    MuxInv m' ∧ StepAdv m cs m' := by
  have hcs := tablesEmitted_ccsOn ht
  obtain ⟨pat, pmt, rfl, a1, a2, a3, b1, b2, b3, c1, c2, c3⟩ := ht
  constructor
  · exact ⟨c1 ▸ ccInv_inc _ h.pat, c2 ▸ ccInv_inc _ h.pmt, c3.esCC ▸ h.es, c3.removedCC ▸ h.removed,
      by rw [c3.esCC, c3.streams]; exact h.link⟩
  · intro p
    rw [hcs p]
    by_cases hp0 : p = 0
    · subst hp0
      rw [if_pos rfl, stored_zero, stored_zero, c1, inc_value _ h.pat]; exact Adv.single _
    · by_cases hp1 : p = 4096
      · subst hp1
        rw [if_neg hp0, if_pos rfl, stored_pmt, stored_pmt, c2, inc_value _ h.pmt]; exact Adv.single _
      · rw [if_neg hp0, if_neg hp1, stored_es _ p hp0 hp1, stored_es _ p hp0 hp1, c3.esCC, c3.removedCC]
        exact Adv.nil _

theorem tables_ccsOn_other {m m' : Mux} {cs : List Bytes} (ht : TablesEmitted m cs m' ∨ TablesSilent m cs m') (p : Nat)
    (h0 : p ≠ 0) (h1 : p ≠ 4096) : ccsOn p cs = [] := by
  rcases ht with ht | ht
  · rw [tablesEmitted_ccsOn ht, if_neg h0, if_neg h1]
  · rw [ht.1]; rfl

/-- **Level 3 (`WriteTables` call)** -/
theorem writeTablesCall_step (m : Mux) (h : MuxInv m) :
    MuxInv m.writeTablesCall.2 ∧ StepAdv m m.writeTablesCall.1.chunks m.writeTablesCall.2 := by
  rcases writeTablesCall_spec m h.pat h.pmt with ht | ⟨h1, h2⟩
  · exact tablesEmitted_step h ht
  · rw [h1, h2]; exact ⟨h, StepAdv.of_eq fun _ => rfl⟩

/-! ### `WriteData` as a step -/

theorem setCC_esCC (m : Mux) (pid : Nat) (c : WrappingCounter) :
    (m.setCC pid c).esCC = m.esCC.map fun e => if e.1 == pid then (pid, c) else e := rfl

/-- `setCC` touches only `esCC` -/
theorem setCC_frame (m : Mux) (pid : Nat) (c : WrappingCounter) :
    (m.setCC pid c).patCC = m.patCC ∧ (m.setCC pid c).pmtCC = m.pmtCC ∧ (m.setCC pid c).removedCC = m.removedCC ∧
    (m.setCC pid c).streams = m.streams ∧ (m.setCC pid c).pcrPID = m.pcrPID := ⟨rfl, rfl, rfl, rfl, rfl⟩

theorem any_setCC (l : List (Nat × WrappingCounter)) (pid p : Nat) (c : WrappingCounter) :
    (l.map fun e => if e.1 == pid then (pid, c) else e).any (·.1 == p) = l.any (·.1 == p) := by
  induction l with
  | nil => rfl
  | cons e l ih =>
    rw [List.map_cons, List.any_cons, List.any_cons, ih]
    by_cases he : e.1 = pid
    · simp [he]
    · simp [he]

theorem setCC_step (m : Mux) (pid : Nat) (cc c : WrappingCounter) (h : MuxInv m) (hc : CCInv c)
    (hl : lookup m.esCC pid = some cc) :
    MuxInv (m.setCC pid c) ∧ stored (m.setCC pid c) pid = c.value ∧
      ∀ p, p ≠ pid → stored (m.setCC pid c) p = stored m p := by
  have hpid := (h.es _ (lookup_mem _ _ _ hl)).2
  refine ⟨⟨h.pat, h.pmt, ?_, h.removed, ?_⟩, ?_, ?_⟩
  · intro e he
    rw [setCC_esCC, List.mem_map] at he
    obtain ⟨e0, he0, rfl⟩ := he
    by_cases hh : e0.1 = pid
    · simp only [hh, beq_self_eq_true, if_true]
      exact ⟨hc, hpid⟩
    · simp only [beq_iff_eq, hh, if_false]
      exact h.es e0 he0
  · intro p
    rw [setCC_esCC, any_setCC]; exact h.link p
  · rw [stored_es _ pid hpid.1 hpid.2.1, setCC_esCC, lookup_setCC, if_pos rfl, hl]; rfl
  · intro p hp
    by_cases hp0 : p = 0
    · subst hp0; rw [stored_zero, stored_zero]; rfl
    · by_cases hp1 : p = 4096
      · subst hp1; rw [stored_pmt, stored_pmt]; rfl
      · rw [stored_es _ p hp0 hp1, stored_es _ p hp0 hp1, setCC_esCC, lookup_setCC, if_neg hp]; rfl

/-- "no counter value is consumed by a withheld packet", for one `WriteData`: the counter stored for `d.pid`
advanced exactly once per payload-carrying chunk this call emitted on `d.pid` -/
def NoBurn (m : Mux) (d : MuxerData) : Prop :=
  stored (m.writeData d).2.1 d.pid = adv (stored m d.pid) (ccsOn d.pid (m.writeData d).1.chunks).length

/-- well-formed `WriteData` input (independent of the muxer state): writing the PES header and the adaptation
field dereferences no nil pointer, and the PES header bytes are no longer than `calcPESOptionalHeaderLength`
announces (whatever stream id is defaulted) -/
structure DataWF (d : MuxerData) : Prop where
  pesNoNil : (d.pes.header.optionalHeader.map pesOptNilDeref).getD false = false
  pesHdrLen : ∀ sid n, ((pesHeaderBytes { d.pes.header with streamID := sid } n).length : Int)
      ≤ 6 + (calcPESOptionalHeaderLength d.pes.header.optionalHeader : Int)
  afNoNil : ∀ a, d.adaptationField = some a → afNilDeref a = false

theorem DataWF.loopWF {d : MuxerData} (h : DataWF d) (m1 : Mux) :
    LoopWF (dataHdr m1 d) true d.adaptationField.isSome d.adaptationField := by
  have hopt : (dataHdr m1 d).optionalHeader = d.pes.header.optionalHeader := by
    unfold dataHdr; split <;> rfl
  have hself : ∀ hh : PESHeader, ({ hh with streamID := hh.streamID } : PESHeader) = hh := fun _ => rfl
  refine ⟨fun _ => ?_, fun _ n => ?_, fun hh => (by cases hh), fun _ => h.afNoNil⟩
  · rw [hopt, h.pesNoNil]; simp
  · rw [hopt]
    have := h.pesHdrLen (dataHdr m1 d).streamID n
    have e : ({ d.pes.header with streamID := (dataHdr m1 d).streamID } : PESHeader) = dataHdr m1 d := by
      unfold dataHdr; split
      · rfl
      · exact hself _
    rw [e] at this
    exact this

/-- **Level 3 (`WriteData` call)**: the invariant is kept; unless a counter value was burnt, the emitted chunks
advance every PID's stored counter consistently; a burnt value only occurs together with a panic, on input
that is not `DataWF`, and then exactly one value is skipped. -/
theorem writeData_step (m : Mux) (d : MuxerData) (h : MuxInv m) :
    MuxInv (m.writeData d).2.1 ∧
    (NoBurn m d → StepAdv m (m.writeData d).1.chunks (m.writeData d).2.1) ∧
    (¬ NoBurn m d → (m.writeData d).1.panic = true ∧ ¬ DataWF d ∧
      stored (m.writeData d).2.1 d.pid = adv (stored m d.pid) ((ccsOn d.pid (m.writeData d).1.chunks).length + 1)) := by
  cases hcc : m.ccOf d.pid with
  | none =>
    obtain ⟨e1, e2⟩ := writeData_rejected m d (Or.inl hcc)
    unfold NoBurn
    rw [e1, e2]
    exact ⟨h, fun _ => StepAdv.of_eq fun _ => rfl, fun hn => absurd rfl hn⟩
  | some cc =>
    by_cases hfit : 6 + calcPESOptionalHeaderLength d.pes.header.optionalHeader > 184
    · obtain ⟨e1, e2⟩ := writeData_rejected m d (Or.inr hfit)
      unfold NoBurn
      rw [e1, e2]
      exact ⟨h, fun _ => StepAdv.of_eq fun _ => rfl, fun hn => absurd rfl hn⟩
    · have hlk : lookup m.esCC d.pid = some cc := hcc
      have hes := h.es _ (lookup_mem _ _ _ hlk)
      rcases retransmitTables_spec m (dataForce m d) h.pat h.pmt with ⟨tcs, hr, ht⟩ | ⟨hr, ht⟩
      · -- tables step succeeded
        have hr' : m.retransmitTables (dataForce m d) = (.ok tcs, (m.retransmitTables (dataForce m d)).2) := by
          rw [← hr]
        generalize (m.retransmitTables (dataForce m d)).2 = m1 at hr' ht
        have hstep1 : MuxInv m1 ∧ StepAdv m tcs m1 := by
          rcases ht with ht | ht
          · exact tablesEmitted_step h ht
          · exact tablesSilent_step h ht
        have hes1 : m1.esCC = m.esCC := by
          rcases ht with ⟨_, _, _, _, _, _, _, _, _, _, _, hs⟩ | ht
          · exact hs.esCC
          · exact ht.2.2.2.esCC
        have hst1 : stored m1 d.pid = stored m d.pid := by
          have := hstep1.2 d.pid
          rw [tables_ccsOn_other ht d.pid hes.2.1 hes.2.2.1] at this
          exact this.2
        obtain ⟨new, cc', c1, c2, c3, c4, c5, c6⟩ := writeData_counters m d cc hcc hfit hes.1 hes.2.2.2 tcs m1 hr'
        have hlk1 : lookup m1.esCC d.pid = some cc := by rw [hes1]; exact hlk
        obtain ⟨i1, i2, i3⟩ := setCC_step m1 d.pid cc cc' hstep1.1 c5 hlk1
        have hsm : stored m d.pid = cc.value := stored_es_some m d.pid cc hes.2.1 hes.2.2.1 hlk
        have hnew : ccsOn d.pid (tcs ++ new) = payloadCCs new := by
          rw [ccsOn_append, tables_ccsOn_other ht d.pid hes.2.1 hes.2.2.1, List.nil_append, ccsOn_same _ _ c3]
        unfold NoBurn
        rw [c1, c2, hnew, i2, hsm]
        refine ⟨i1, fun hnb => ?_, fun hnb => ?_⟩
        · refine hstep1.2.trans ?_
          intro p
          by_cases hp : p = d.pid
          · subst hp
            rw [ccsOn_same _ _ c3, i2, hst1, hsm]
            exact ⟨c4, hnb⟩
          · rw [ccsOn_other p d.pid new c3 hp, i3 p hp]; exact Adv.nil _
        · rcases c6 with c6 | ⟨w, pn, c6⟩
          · exact absurd c6 hnb
          · exact ⟨pn, fun hd => w (hd.loopWF m1), c6⟩
      · -- tables step failed: nothing emitted
        obtain ⟨e1, e2⟩ := writeData_tables_failed m d cc hcc hfit hr
        obtain ⟨i1, i2⟩ := tablesSilent_step h ht
        unfold NoBurn
        rw [e1, e2]
        refine ⟨i1, fun _ => i2, fun hn => ?_⟩
        exfalso; apply hn
        have := i2 d.pid
        rw [ccsOn_nil] at this
        exact this.2

/-! ### histories of API calls -/

/-- the muxer API calls that matter for continuity counters -/
inductive Op where
  | add (es : PMTElementaryStream)      -- `AddElementaryStream` with an explicit PID
  | remove (pid : Nat)                  -- `RemoveElementaryStream`
  | setPCR (pid : Nat)                  -- `SetPCRPID`
  | tables                              -- `WriteTables`
  | data (d : MuxerData)                -- `WriteData`

/-- one call: the chunks handed to the writer and the new state (failed calls included: they return the
state the model leaves behind and whatever was emitted before the failure) -/
def step (m : Mux) : Op → List Bytes × Mux
  | .add es => ([], (m.addElementaryStream es).2)
  | .remove pid => ([], (m.removeElementaryStream pid).2)
  | .setPCR pid => ([], m.setPCRPID pid)
  | .tables => (m.writeTablesCall.1.chunks, m.writeTablesCall.2)
  | .data d => ((m.writeData d).1.chunks, (m.writeData d).2.1)

/-- a history: everything emitted, in order, and the final state -/
def run : Mux → List Op → List Bytes × Mux
  | m, [] => ([], m)
  | m, op :: ops => ((step m op).1 ++ (run (step m op).2 ops).1, (run (step m op).2 ops).2)

/-- static side condition of a call: explicitly added PIDs are 13-bit, non-zero and not the PMT PID -/
def OpOK : Op → Prop
  | .add es => es.elementaryPID ≠ 0 ∧ es.elementaryPID ≠ 4096 ∧ es.elementaryPID < 8192
  | _ => True

/-- `P` holds for every call of the history, in the state in which the call is made -/
def RunAll (P : Mux → Op → Prop) : Mux → List Op → Prop
  | _, [] => True
  | m, op :: ops => P m op ∧ RunAll P (step m op).2 ops

/-- the call is admissible and, if it is a `WriteData`, burns no counter value -/
def StepOK (m : Mux) (op : Op) : Prop := OpOK op ∧ ∀ d, op = .data d → NoBurn m d

theorem step_inv (m : Mux) (op : Op) (h : MuxInv m) (hok : OpOK op) : MuxInv (step m op).2 := by
  cases op with
  | add es => exact (add_step m es h hok.1 hok.2.1 hok.2.2).1
  | remove pid => exact (remove_step m pid h).1
  | setPCR pid => exact (setPCRPID_step m pid h).1
  | tables => exact (writeTablesCall_step m h).1
  | data d => exact (writeData_step m d h).1

/-- **per-step preservation**: an admissible call keeps the invariant and advances every PID's stored counter
exactly along the payload-carrying chunks it emits -/
theorem step_adv (m : Mux) (op : Op) (h : MuxInv m) (hok : StepOK m op) :
    MuxInv (step m op).2 ∧ StepAdv m (step m op).1 (step m op).2 := by
  refine ⟨step_inv m op h hok.1, ?_⟩
  cases op with
  | add es => exact StepAdv.of_eq (add_step m es h hok.1.1 hok.1.2.1 hok.1.2.2).2
  | remove pid => exact StepAdv.of_eq (remove_step m pid h).2
  | setPCR pid => exact StepAdv.of_eq (setPCRPID_step m pid h).2
  | tables => exact (writeTablesCall_step m h).2
  | data d => exact (writeData_step m d h).2.1 (hok.2 d rfl)

theorem run_adv (m : Mux) (ops : List Op) (h : MuxInv m) (hok : RunAll StepOK m ops) :
    MuxInv (run m ops).2 ∧ StepAdv m (run m ops).1 (run m ops).2 := by
  induction ops generalizing m with
  | nil => exact ⟨h, StepAdv.of_eq fun _ => rfl⟩
  | cons op ops ih =>
    obtain ⟨h1, h2⟩ := step_adv m op h hok.1
    obtain ⟨h3, h4⟩ := ih (step m op).2 h1 hok.2
    exact ⟨h3, h2.trans h4⟩

theorem succs_mod (v k : Nat) (hv : v ≤ 15) : succs v k = (List.range k).map (fun i => (v + 1 + i) % 16) := by
  induction k generalizing v with
  | zero => rfl
  | succ k ih =>
    rw [succs, ih (next v) (next_le v), List.range_succ_eq_map, List.map_cons, List.map_map, next_mod v hv]
    congr 1
    apply List.map_congr_left
    intro i _
    simp only [Function.comp]
    omega

/-- counter values handed out by a fresh counter: 0, 1, …, 15, 0, 1, … -/
theorem succs_fresh (k : Nat) : succs 16 k = (List.range k).map (· % 16) := by
  cases k with
  | zero => rfl
  | succ k =>
    rw [succs, next_fresh, succs_mod 0 k (by omega), List.range_succ_eq_map, List.map_cons, List.map_map]
    congr 1
    apply List.map_congr_left
    intro i _
    simp only [Function.comp]
    omega

/-- **Level 3 (history theorem)**.  Start from a new muxer and make any sequence of calls (stream additions with
explicit PIDs `< 8192` other than 0 and 0x1000, removals, `SetPCRPID`, `WriteTables`, `WriteData`; failed calls
included) in which no `WriteData` burns a counter value.  Then on every PID `p` the payload-carrying chunks, in
emission order, carry the continuity counters 0, 1, 2, … modulo 16 — across table retransmissions, removal and
re-addition of the stream — and the muxer's stored counter for `p` is the last one sent (16 = none sent yet). -/
theorem history_counters (period : Nat) (ops : List Op) (hok : RunAll StepOK (newMux period) ops) (p : Nat) :
    ccsOn p (run (newMux period) ops).1
        = (List.range (ccsOn p (run (newMux period) ops).1).length).map (· % 16) ∧
    stored (run (newMux period) ops).2 p = adv 16 (ccsOn p (run (newMux period) ops).1).length := by
  have h := (run_adv (newMux period) ops (muxInv_new period) hok).2 p
  rw [stored_new] at h
  exact ⟨by rw [← succs_fresh]; exact h.1, h.2⟩

/-- same from an arbitrary state satisfying the invariant: the counters continue from the stored value -/
theorem history_counters_from (m : Mux) (ops : List Op) (h : MuxInv m) (hok : RunAll StepOK m ops) (p : Nat) :
    Adv (stored m p) (ccsOn p (run m ops).1) (stored (run m ops).2 p) :=
  (run_adv m ops h hok).2 p

theorem runAll_mono (P Q : Mux → Op → Prop) (hQ : ∀ m op, Q m op → OpOK op)
    (hPQ : ∀ m op, MuxInv m → P m op → Q m op) (m : Mux) (ops : List Op) (h : MuxInv m)
    (hP : RunAll P m ops) : RunAll Q m ops := by
  induction ops generalizing m with
  | nil => trivial
  | cons op ops ih =>
    have hq := hPQ m op h hP.1
    exact ⟨hq, ih _ (step_inv m op h (hQ m op hq)) hP.2⟩

/-- sufficient condition 1: no `WriteData` of the history panics -/
def StepNoPanic (m : Mux) (op : Op) : Prop := OpOK op ∧ ∀ d, op = .data d → (m.writeData d).1.panic = false

/-- sufficient condition 2 (static): every `WriteData` input is well-formed -/
def StepWF (_ : Mux) (op : Op) : Prop := OpOK op ∧ ∀ d, op = .data d → DataWF d

theorem noBurn_of_noPanic (m : Mux) (d : MuxerData) (h : MuxInv m) (hp : (m.writeData d).1.panic = false) :
    NoBurn m d := by
  apply Classical.byContradiction
  intro hn
  have := ((writeData_step m d h).2.2 hn).1
  rw [hp] at this; cases this

theorem noBurn_of_wf (m : Mux) (d : MuxerData) (h : MuxInv m) (hd : DataWF d) : NoBurn m d := by
  apply Classical.byContradiction
  intro hn
  exact ((writeData_step m d h).2.2 hn).2.1 hd

theorem history_counters_noPanic (period : Nat) (ops : List Op) (hok : RunAll StepNoPanic (newMux period) ops) (p : Nat) :
    ccsOn p (run (newMux period) ops).1
        = (List.range (ccsOn p (run (newMux period) ops).1).length).map (· % 16) ∧
    stored (run (newMux period) ops).2 p = adv 16 (ccsOn p (run (newMux period) ops).1).length :=
  history_counters period ops
    (runAll_mono StepNoPanic StepOK (fun _ _ h => h.1)
      (fun m _ hm h => ⟨h.1, fun d hd => noBurn_of_noPanic m d hm (h.2 d hd)⟩) _ ops (muxInv_new period) hok) p

theorem runAll_wf (m : Mux) (ops : List Op) (h : ∀ op ∈ ops, OpOK op ∧ ∀ d, op = .data d → DataWF d) :
    RunAll StepWF m ops := by
  induction ops generalizing m with
  | nil => trivial
  | cons op ops ih =>
    exact ⟨h op List.mem_cons_self, ih _ (fun o ho => h o (List.mem_cons_of_mem _ ho))⟩

theorem history_counters_wf (period : Nat) (ops : List Op)
    (hok : ∀ op ∈ ops, OpOK op ∧ ∀ d, op = .data d → DataWF d) (p : Nat) :
    ccsOn p (run (newMux period) ops).1
        = (List.range (ccsOn p (run (newMux period) ops).1).length).map (· % 16) ∧
    stored (run (newMux period) ops).2 p = adv 16 (ccsOn p (run (newMux period) ops).1).length :=
  history_counters period ops
    (runAll_mono StepWF StepOK (fun _ _ h => h.1)
      (fun m _ hm h => ⟨h.1, fun d hd => noBurn_of_wf m d hm (h.2 d hd)⟩) _ ops (muxInv_new period)
      (runAll_wf _ ops hok)) p

/-! ### a concrete sufficient condition for `DataWF`: declared PES header length = written length -/

/-- un-truncated length of the optional PES header fields behind PES_header_data_length -/
def pesOptRawLen (h : PESOptionalHeader) : Nat :=
  (if h.ptsDTSIndicator = 2 then 5 else if h.ptsDTSIndicator = 3 then 10 else 0)
   + (if h.hasESCR then 6 else 0) + (if h.hasESRate then 3 else 0) + (if h.hasDSMTrickMode then 1 else 0)
   + (if h.hasAdditionalCopyInfo then 1 else 0)
   + (if h.hasExtension then
        1 + (if h.hasPrivateData then 16 else 0) + (if h.hasProgramPacketSequenceCounter then 2 else 0)
          + (if h.hasPSTDBuffer then 2 else 0) + (if h.hasExtension2 then 1 + h.extension2Data.length else 0)
      else 0)

theorem length_ite {α : Type} (c : Prop) [Decidable c] (a b : List α) :
    (if c then a else b).length = if c then a.length else b.length := by split <;> rfl

theorem ptsBytes_length (f : Nat) (c : ClockReference) : (ptsBytes f c).length = 5 := by
  simp [ptsBytes, packFields, fieldsWidth, beBytes]
theorem escrBytes_length (c : ClockReference) : (escrBytes c).length = 6 := by
  simp [escrBytes, packFields, fieldsWidth, beBytes]
theorem dsmBytes_length (m : DSMTrickMode) : (dsmBytes m).length = 1 := by
  unfold dsmBytes
  simp only
  split
  · simp [packFields, fieldsWidth, beBytes]
  · split
    · simp [packFields, fieldsWidth, beBytes]
    · split <;> simp [packFields, fieldsWidth, beBytes]
theorem bytesN_length (bs : Bytes) (n pad : Nat) : (bytesN bs n pad).length = n := by
  unfold bytesN
  split
  · rw [List.length_take]; omega
  · rw [List.length_append, List.length_replicate]; omega
theorem packFields_length (fs : List (Nat × Nat)) : (packFields fs).length = fieldsWidth fs / 8 := by
  unfold packFields; exact beBytes_length _ _

/-- the optional PES header is written on exactly `3 + pesOptRawLen` bytes -/
theorem pesOptionalHeaderBytes_length (h : PESOptionalHeader) :
    (pesOptionalHeaderBytes h).length = 3 + pesOptRawLen h := by
  unfold pesOptionalHeaderBytes pesOptRawLen
  simp only [List.length_append, length_ite, ptsBytes_length, escrBytes_length, dsmBytes_length, bytesN_length,
    List.length_cons, List.length_nil, packFields_length, fieldsWidth]
  simp only [Nat.reduceAdd, Nat.reduceDiv, Nat.add_zero]
  by_cases h2 : h.ptsDTSIndicator = 2
  · cases hE : h.hasExtension <;> simp only [h2, if_true, if_false, Bool.false_eq_true, Nat.reduceEqDiff] <;> omega
  · by_cases h3 : h.ptsDTSIndicator = 3
    · cases hE : h.hasExtension <;> simp only [h3, if_true, if_false, Bool.false_eq_true, Nat.reduceEqDiff] <;> omega
    · cases hE : h.hasExtension <;> simp only [h2, h3, if_true, if_false, Bool.false_eq_true] <;> omega

/-- without uint8 overflow the announced length is the written length -/
theorem calcPESOptionalHeaderLength_some (h : PESOptionalHeader) (hl : pesOptRawLen h < 253) :
    calcPESOptionalHeaderLength (some h) = 3 + pesOptRawLen h := by
  unfold calcPESOptionalHeaderLength calcPESOptionalHeaderDataLength
  unfold pesOptRawLen at hl ⊢
  simp only
  cases hE : h.hasExtension
  · simp only [hE, Bool.false_eq_true, if_false] at hl ⊢; omega
  · cases hE2 : h.hasExtension2
    · simp only [hE, hE2, Bool.false_eq_true, if_true, if_false] at hl ⊢; omega
    · simp only [hE, hE2, if_true] at hl ⊢
      have : h.extension2Data.length % 256 = h.extension2Data.length := by omega
      rw [this]; omega

theorem pesHeaderBytes_length_le (h : PESHeader) (n : Nat)
    (hfit : ∀ oh, h.optionalHeader = some oh → pesOptRawLen oh < 253) :
    ((pesHeaderBytes h n).length : Int) ≤ 6 + (calcPESOptionalHeaderLength h.optionalHeader : Int) := by
  unfold pesHeaderBytes
  simp only [List.length_append, length_ite, List.length_cons, List.length_nil, beBytes_length]
  cases ho : h.optionalHeader with
  | none => simp only [calcPESOptionalHeaderLength]; split <;> simp
  | some oh =>
    rw [calcPESOptionalHeaderLength_some oh (hfit oh ho)]
    simp only [pesOptionalHeaderBytes_length]
    split <;> simp <;> omega

/-- `WriteData` input whose well-formedness can be read off the data: no nil pointer behind a set flag, and an
optional PES header whose fields do not overflow the 8-bit PES_header_data_length -/
structure DataOK (d : MuxerData) : Prop where
  pesNoNil : (d.pes.header.optionalHeader.map pesOptNilDeref).getD false = false
  pesLen : ∀ oh, d.pes.header.optionalHeader = some oh → pesOptRawLen oh < 253
  afNoNil : ∀ a, d.adaptationField = some a → afNilDeref a = false

theorem DataOK.wf {d : MuxerData} (h : DataOK d) : DataWF d :=
  ⟨h.pesNoNil, fun sid n => pesHeaderBytes_length_le { d.pes.header with streamID := sid } n h.pesLen, h.afNoNil⟩

/-- the stored counter is the counter of the last payload-carrying chunk sent (16 iff none yet) -/
theorem adv_last (v k : Nat) : (succs v (k + 1)).getLast? = some (adv v (k + 1)) := by
  rw [succs_add v k 1, adv_succ]
  simp [succs]

theorem stored_is_last {v' : Nat} {l : List Nat} (h : Adv 16 l v') :
    (l = [] ∧ v' = 16) ∨ (l.getLast? = some v' ∧ v' ≤ 15) := by
  obtain ⟨h1, h2⟩ := h
  cases hk : l.length with
  | zero => left; exact ⟨List.length_eq_zero_iff.1 hk, by rw [h2, hk]; rfl⟩
  | succ k =>
    right
    rw [hk] at h1 h2
    rw [h1, h2]
    exact ⟨adv_last 16 k, adv_pos_le 16 k⟩

end Astits.MuxCounters
