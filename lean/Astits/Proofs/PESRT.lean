/-
Whole-header round trip for PES (C12): the optional header is cut into segments (one per optional field); each
segment has a small lemma "the parser step reads exactly this segment and returns the field"; the main lemma chains
them.  Iterator lemmas (`It.At`, `nextBytes_at`, …) come from `Proofs/PSIRT.lean`.
-/
import Astits.Proofs.PSIRT
import Astits.Proofs.Layout
namespace Astits.PESRT
open Astits.PSIRT

/-! ### the three flag bytes -/

theorem pes_byte0 (sc prio dai copy orig : Nat) (h1 : sc < 4) (h2 : prio ≤ 1) (h3 : dai ≤ 1) (h4 : copy ≤ 1) (h5 : orig ≤ 1) :
    ∃ b, packFields [(2, 2), (sc, 2), (prio, 1), (dai, 1), (copy, 1), (orig, 1)] = [b] ∧ b / 64 = 2 ∧ b / 16 % 4 = sc ∧
      b / 8 % 2 = prio ∧ b / 4 % 2 = dai ∧ b / 2 % 2 = copy ∧ b % 2 = orig := by
  refine ⟨((((((0 * 4 + 2 % 4) * 4 + sc % 4) * 2 + prio % 2) * 2 + dai % 2) * 2 + copy % 2) * 2 + orig % 2) % 256, ?_, ?_, ?_, ?_, ?_, ?_, ?_⟩
  · simp only [packFields, fieldsWidth, fieldsValue, beBytes]
    simp only [Nat.reducePow, Nat.pow_zero, Nat.div_one, Nat.pow_one]
  all_goals omega

theorem pes_byte1 (ind escr rate dsm aci ext : Nat) (h1 : ind < 4) (h2 : escr ≤ 1) (h3 : rate ≤ 1) (h4 : dsm ≤ 1) (h5 : aci ≤ 1)
    (h6 : ext ≤ 1) :
    ∃ f, packFields [(ind, 2), (escr, 1), (rate, 1), (dsm, 1), (aci, 1), (0, 1), (ext, 1)] = [f] ∧ f / 64 % 4 = ind ∧
      f / 32 % 2 = escr ∧ f / 16 % 2 = rate ∧ f / 8 % 2 = dsm ∧ f / 4 % 2 = aci ∧ f / 2 % 2 = 0 ∧ f % 2 = ext := by
  refine ⟨(((((((0 * 4 + ind % 4) * 2 + escr % 2) * 2 + rate % 2) * 2 + dsm % 2) * 2 + aci % 2) * 2 + 0 % 2) * 2 + ext % 2) % 256,
    ?_, ?_, ?_, ?_, ?_, ?_, ?_, ?_⟩
  · simp only [packFields, fieldsWidth, fieldsValue, beBytes]
    simp only [Nat.reducePow, Nat.pow_zero, Nat.div_one, Nat.pow_one]
  all_goals omega

theorem pes_byte_ext (priv psc pstd ext2 : Nat) (h1 : priv ≤ 1) (h2 : psc ≤ 1) (h3 : pstd ≤ 1) (h4 : ext2 ≤ 1) :
    ∃ e, packFields [(priv, 1), (0, 1), (psc, 1), (pstd, 1), (7, 3), (ext2, 1)] = [e] ∧ e / 128 % 2 = priv ∧
      e / 64 % 2 = 0 ∧ e / 32 % 2 = psc ∧ e / 16 % 2 = pstd ∧ e % 2 = ext2 := by
  refine ⟨((((((0 * 2 + priv % 2) * 2 + 0 % 2) * 2 + psc % 2) * 2 + pstd % 2) * 8 + 7 % 8) * 2 + ext2 % 2) % 256, ?_, ?_, ?_, ?_, ?_, ?_⟩
  · simp only [packFields, fieldsWidth, fieldsValue, beBytes]
    simp only [Nat.reducePow, Nat.pow_zero, Nat.div_one, Nat.pow_one]
  all_goals omega

/-! ### segment steps -/

/-- `p` reads exactly `xs` and returns `a`, wherever `xs` stands -/
def Step {α} (p : P α) (xs : Bytes) (a : α) : Prop :=
  ∀ (bs : Bytes) (off : Int) (r : Bytes), It.At ⟨bs, off⟩ (xs ++ r) → p ⟨bs, off⟩ = .ok (a, ⟨bs, off + ((xs.length : Nat) : Int)⟩)

theorem Step.pure_nil {α} (a : α) : Step (pure a : P α) [] a := by
  intro bs off r _
  simp

theorem step_optP {α} (c : Bool) (p : P α) (xs : Bytes) (a : α) (h : c = true → Step p xs a) :
    Step (optP c p) (if c then xs else []) (if c then some a else none) := by
  cases c with
  | false => intro bs off r _; simp [optP]
  | true =>
    intro bs off r hat
    simp only [if_true] at hat ⊢
    exact optP_true_of_ok (h rfl bs off r hat)

theorem step_ite {α} (c : Bool) (p : P α) (xs : Bytes) (a d : α) (h : c = true → Step p xs a) :
    Step (if c then p else pure d) (if c then xs else []) (if c then a else d) := by
  cases c with
  | false => intro bs off r _; simp
  | true =>
    intro bs off r hat
    simp only [if_true] at hat ⊢
    exact h rfl bs off r hat



theorem b2n_eq_one (b : Bool) : (b2n b = 1) = (b = true) := by cases b <;> simp [b2n]

theorem ptsBytes_length (flag : Nat) (c : ClockReference) : (ptsBytes flag c).length = 5 := by
  simp [ptsBytes, packFields, fieldsWidth, beBytes_length]

theorem escrBytes_length (c : ClockReference) : (escrBytes c).length = 6 := by
  simp [escrBytes, packFields, fieldsWidth, beBytes_length]

theorem step_pts (flag base : Nat) (hb : base < 8589934592) :
    Step parsePTSOrDTS (ptsBytes flag { base := base, extension := 0 }) { base := base, extension := 0 } := by
  intro bs off r hat
  unfold parsePTSOrDTS
  rw [P.bind_of_ok (nextBytes_at bs off _ _ 5 (by simp [ptsBytes_length]) hat)]
  simp only [P.pure_run, pts_roundtrip flag base hb, ptsBytes_length]
  rfl

theorem step_escr (base ext : Nat) (hb : base < 8589934592) (he : ext < 512) :
    Step parseESCR (escrBytes { base := base, extension := ext }) { base := base, extension := ext } := by
  intro bs off r hat
  unfold parseESCR
  rw [P.bind_of_ok (nextBytes_at bs off _ _ 6 (by simp [escrBytes_length]) hat)]
  simp only [P.pure_run, escr_roundtrip base ext hb he, escrBytes_length]
  rfl

theorem step_rate (r : Nat) (hr : r < 4194304) :
    Step (do let bs ← It.nextBytes 3; pure ((bs.getD 0 0 % 128) * 32768 + bs.getD 1 0 * 128 + bs.getD 2 0 / 2) : P Nat)
      (packFields [(1, 1), (r, 22), (1, 1)]) r := by
  intro bs off rest hat
  have hl : (packFields [(1, 1), (r, 22), (1, 1)]).length = 3 := by simp [packFields, fieldsWidth, beBytes_length]
  rw [P.bind_of_ok (nextBytes_at bs off _ _ 3 (by simp [hl]) hat)]
  simp only [P.pure_run, hl]
  have : (List.getD (packFields [(1, 1), (r, 22), (1, 1)]) 0 0 % 128) * 32768 + List.getD (packFields [(1, 1), (r, 22), (1, 1)]) 1 0 * 128
      + List.getD (packFields [(1, 1), (r, 22), (1, 1)]) 2 0 / 2 = r := by
    simp only [packFields, fieldsWidth, fieldsValue, beBytes, List.getD_cons_zero, List.getD_cons_succ]
    simp only [Nat.reducePow, Nat.pow_zero, Nat.div_one, Nat.pow_one]
    omega
  rw [this]
  rfl

/-- trick-mode values the parser can deliver: the fields the mode does not use are zero, the others fit their bits -/
def DSMOk (m : DSMTrickMode) : Bool :=
  decide (m.trickModeControl < 8) && decide (m.fieldID < 4) && decide (m.intraSliceRefresh < 2) && decide (m.frequencyTruncation < 4)
  && decide (m.repeatControl < 32) &&
  (if m.trickModeControl = 0 ∨ m.trickModeControl = 3 then m.repeatControl == 0
   else if m.trickModeControl = 2 then m.intraSliceRefresh == 0 && m.frequencyTruncation == 0 && m.repeatControl == 0
   else if m.trickModeControl = 1 ∨ m.trickModeControl = 4 then m.fieldID == 0 && m.intraSliceRefresh == 0 && m.frequencyTruncation == 0
   else m.fieldID == 0 && m.intraSliceRefresh == 0 && m.frequencyTruncation == 0 && m.repeatControl == 0)

theorem dsm_all : ∀ (tmc : Fin 8) (fid : Fin 4) (isr : Fin 2) (ft : Fin 4) (rc : Fin 32),
    let m : DSMTrickMode := { fieldID := fid.val, frequencyTruncation := ft.val, intraSliceRefresh := isr.val, repeatControl := rc.val, trickModeControl := tmc.val }
    DSMOk m = true → (dsmBytes m).length = 1 ∧ parseDSMTrickMode ((dsmBytes m).getD 0 0) = m := by
  decide +kernel

theorem dsm_roundtrip (m : DSMTrickMode) (h : DSMOk m = true) :
    (dsmBytes m).length = 1 ∧ parseDSMTrickMode ((dsmBytes m).getD 0 0) = m := by
  obtain ⟨fid, ft, isr, rc, tmc⟩ := m
  have hb := h
  simp only [DSMOk, Bool.and_eq_true, decide_eq_true_eq] at hb
  obtain ⟨⟨⟨⟨⟨h1, h2⟩, h3⟩, h4⟩, h5⟩, _⟩ := hb
  exact dsm_all ⟨tmc, h1⟩ ⟨fid, h2⟩ ⟨isr, h3⟩ ⟨ft, h4⟩ ⟨rc, h5⟩ h



theorem list1 (l : Bytes) (h : l.length = 1) : l = [l.getD 0 0] := by
  match l, h with
  | [a], _ => rfl

theorem step_dsm (m : DSMTrickMode) (h : DSMOk m = true) :
    Step (do let b ← It.nextByte; pure (parseDSMTrickMode b) : P DSMTrickMode) (dsmBytes m) m := by
  intro bs off r hat
  obtain ⟨hl, hm⟩ := dsm_roundtrip m h
  rw [list1 _ hl] at hat
  generalize (dsmBytes m).getD 0 0 = x at hat hm
  have hat' : It.At ⟨bs, off⟩ (x :: r) := by simpa using hat
  rw [P.bind_of_ok (nextByte_at bs off _ _ hat')]
  simp only [P.pure_run, hm, hl]
  rfl

theorem step_aci (a : Nat) (ha : a < 128) :
    Step (do let b ← It.nextByte; pure (b % 128) : P Nat) (packFields [(1, 1), (a, 7)]) a := by
  intro bs off r hat
  have hb : packFields [(1, 1), (a, 7)] = [128 + a] := by
    simp only [packFields, fieldsWidth, fieldsValue, beBytes]
    simp only [Nat.reducePow, Nat.pow_zero, Nat.div_one, Nat.pow_one]
    congr 1
    omega
  rw [hb] at hat ⊢
  rw [P.bind_of_ok (nextByte_at bs off _ _ (by simpa using hat))]
  simp only [P.pure_run]
  have : (128 + a) % 128 = a := by omega
  rw [this]
  rfl

theorem step_priv (pd : Bytes) (h : pd.length = 16) : Step (It.nextBytes 16) (bytesN pd 16 0) pd := by
  intro bs off r hat
  have hb : bytesN pd 16 0 = pd := by
    unfold bytesN; rw [if_pos (by omega)]; exact List.take_of_length_le (by omega)
  rw [hb] at hat ⊢
  rw [nextBytes_at bs off _ _ 16 (by simp [h]) hat, h]
  rfl

theorem step_psc (psc mid osl : Nat) (h1 : psc < 128) (h2 : mid < 2) (h3 : osl < 64) :
    Step (do let bs ← It.nextBytes 2; pure (bs.getD 0 0 % 128, bs.getD 1 0 / 64 % 2, bs.getD 1 0 % 64) : P (Nat × Nat × Nat))
      (packFields [(1, 1), (psc, 7), (1, 1), (mid, 1), (osl, 6)]) (psc, mid, osl) := by
  intro bs off r hat
  have hb : packFields [(1, 1), (psc, 7), (1, 1), (mid, 1), (osl, 6)] = [128 + psc, 128 + mid * 64 + osl] := by
    simp only [packFields, fieldsWidth, fieldsValue, beBytes]
    simp only [Nat.reducePow, Nat.pow_zero, Nat.div_one, Nat.pow_one]
    congr 1
    · omega
    · congr 1; omega
  rw [hb] at hat ⊢
  rw [P.bind_of_ok (nextBytes_at bs off _ _ 2 (by simp) hat)]
  simp only [P.pure_run, List.getD_cons_zero, List.getD_cons_succ]
  have e1 : (128 + psc) % 128 = psc := by omega
  have e2 : (128 + mid * 64 + osl) / 64 % 2 = mid := by omega
  have e3 : (128 + mid * 64 + osl) % 64 = osl := by omega
  rw [e1, e2, e3]
  rfl

theorem step_pstd (scale size : Nat) (h1 : scale < 2) (h2 : size < 8192) :
    Step (do let bs ← It.nextBytes 2; pure (bs.getD 0 0 / 32 % 2, (bs.getD 0 0 % 32) * 256 + bs.getD 1 0) : P (Nat × Nat))
      (packFields [(1, 2), (scale, 1), (size, 13)]) (scale, size) := by
  intro bs off r hat
  have hb : packFields [(1, 2), (scale, 1), (size, 13)] = [64 + scale * 32 + size / 256, size % 256] := by
    simp only [packFields, fieldsWidth, fieldsValue, beBytes]
    simp only [Nat.reducePow, Nat.pow_zero, Nat.div_one, Nat.pow_one]
    congr 1
    · omega
    · congr 1; omega
  rw [hb] at hat ⊢
  rw [P.bind_of_ok (nextBytes_at bs off _ _ 2 (by simp) hat)]
  simp only [P.pure_run, List.getD_cons_zero, List.getD_cons_succ]
  have e1 : (64 + scale * 32 + size / 256) / 32 % 2 = scale := by omega
  have e2 : (64 + scale * 32 + size / 256) % 32 * 256 + size % 256 = size := by omega
  rw [e1, e2]
  rfl

theorem step_ext2 (data : Bytes) (h : data.length < 128) :
    Step (do let b ← It.nextByte; let d ← It.nextBytes (b % 128 : Nat); pure (b % 128, d) : P (Nat × Bytes))
      (packFields [(1, 1), (data.length, 7)] ++ data) (data.length, data) := by
  intro bs off r hat
  have hb : packFields [(1, 1), (data.length, 7)] = [128 + data.length] := by
    simp only [packFields, fieldsWidth, fieldsValue, beBytes]
    simp only [Nat.reducePow, Nat.pow_zero, Nat.div_one, Nat.pow_one]
    congr 1
    omega
  rw [hb] at hat ⊢
  have hat' : It.At ⟨bs, off⟩ ((128 + data.length) :: (data ++ r)) := by simpa using hat
  rw [P.bind_of_ok (nextByte_at bs off _ _ hat')]
  have a1 := It.At.advance1 hat'
  have e : (128 + data.length) % 128 = data.length := by omega
  rw [e]
  rw [P.bind_of_ok (nextBytes_at bs _ _ _ _ rfl a1)]
  simp only [P.pure_run]
  congr 2
  simp only [It.mk.injEq, true_and, List.length_append, List.length_cons, List.length_nil]
  omega



/-! ### well-formed optional headers -/

structure PESOptOk (h : PESOptionalHeader) : Prop where
  markerBits : h.markerBits = 2
  scramblingControl : h.scramblingControl < 4
  ind : h.ptsDTSIndicator < 4
  pts : if h.ptsDTSIndicator = 2 ∨ h.ptsDTSIndicator = 3 then ∃ b : Nat, b < 8589934592 ∧ h.pts = some { base := b, extension := 0 } else h.pts = none
  dts : if h.ptsDTSIndicator = 3 then ∃ b : Nat, b < 8589934592 ∧ h.dts = some { base := b, extension := 0 } else h.dts = none
  escr : if h.hasESCR then ∃ b e : Nat, b < 8589934592 ∧ e < 512 ∧ h.escr = some { base := b, extension := e } else h.escr = none
  esRate : if h.hasESRate then h.esRate < 4194304 else h.esRate = 0
  dsm : if h.hasDSMTrickMode then ∃ m, h.dsmTrickMode = some m ∧ DSMOk m = true else h.dsmTrickMode = none
  aci : if h.hasAdditionalCopyInfo then h.additionalCopyInfo < 128 else h.additionalCopyInfo = 0
  noCRC : h.hasCRC = false ∧ h.crc = 0
  noOptionalFields : h.hasOptionalFields = false
  noPack : h.hasPackHeaderField = false ∧ h.packField = 0
  headerLength : h.headerLength = calcPESOptionalHeaderDataLength h
  extFlags : h.hasExtension = false → h.hasPrivateData = false ∧ h.hasProgramPacketSequenceCounter = false ∧ h.hasPSTDBuffer = false ∧ h.hasExtension2 = false
  priv : if h.hasPrivateData then h.privateData.length = 16 else h.privateData = []
  psc : if h.hasProgramPacketSequenceCounter then h.packetSequenceCounter < 128 ∧ h.mpeg1OrMPEG2ID < 2 ∧ h.originalStuffingLength < 64 else h.packetSequenceCounter = 0 ∧ h.mpeg1OrMPEG2ID = 0 ∧ h.originalStuffingLength = 0
  pstd : if h.hasPSTDBuffer then h.pstdBufferScale < 2 ∧ h.pstdBufferSize < 8192 else h.pstdBufferScale = 0 ∧ h.pstdBufferSize = 0
  ext2 : if h.hasExtension2 then h.extension2Data.length < 128 ∧ h.extension2Length = h.extension2Data.length else h.extension2Data = [] ∧ h.extension2Length = 0

/-- PTS then DTS, as `ptsDTSIndicator` says -/
theorem seg_ptsdts (ind : Nat) (pts dts : Option ClockReference) (hi : ind < 4)
    (hp : if ind = 2 ∨ ind = 3 then ∃ b : Nat, b < 8589934592 ∧ pts = some { base := b, extension := 0 } else pts = none)
    (hd : if ind = 3 then ∃ b : Nat, b < 8589934592 ∧ dts = some { base := b, extension := 0 } else dts = none)
    (bs : Bytes) (off : Int) (r : Bytes)
    (hat : It.At ⟨bs, off⟩ ((if ind = 2 then ptsBytes 2 (pts.getD default) else [])
      ++ ((if ind = 3 then ptsBytes 3 (pts.getD default) ++ ptsBytes 1 (dts.getD default) else []) ++ r))) :
    ∃ off1 off2, optP (decide (ind = 2 ∨ ind = 3)) parsePTSOrDTS ⟨bs, off⟩ = .ok (pts, ⟨bs, off1⟩) ∧
      optP (decide (ind = 3)) parsePTSOrDTS ⟨bs, off1⟩ = .ok (dts, ⟨bs, off2⟩) ∧ It.At ⟨bs, off2⟩ r := by
  by_cases h2 : ind = 2
  · subst h2
    simp only [true_or, if_true] at hp
    simp only [show ¬ (2 = 3) by decide, if_false] at hd hat
    obtain ⟨b, hb, rfl⟩ := hp
    subst hd
    simp only [if_true, Option.getD_some, List.nil_append] at hat
    refine ⟨_, _, optP_true_of_ok (step_pts 2 b hb bs off r hat), optP_false _ _, It.At.advance hat _ rfl⟩
  · by_cases h3 : ind = 3
    · subst h3
      simp only [or_true, if_true] at hp hd
      obtain ⟨b, hb, rfl⟩ := hp
      obtain ⟨c, hc, rfl⟩ := hd
      simp only [show ¬ (3 = 2) by decide, if_false, if_true, Option.getD_some, List.nil_append, List.append_assoc] at hat
      have a1 := It.At.advance hat _ rfl
      exact ⟨_, _, optP_true_of_ok (step_pts 3 b hb bs off _ hat), optP_true_of_ok (step_pts 1 c hc bs _ _ a1), It.At.advance a1 _ rfl⟩
    · have h23 : ¬ (ind = 2 ∨ ind = 3) := by omega
      rw [if_neg h23] at hp
      rw [if_neg h3] at hd
      subst hp; subst hd
      simp only [h2, h3, if_false, List.nil_append] at hat
      refine ⟨off, off, ?_, ?_, hat⟩
      · simp only [h23, decide_false]; rfl
      · simp only [h3, decide_false]; rfl

theorem seg_escr (c : Bool) (v : Option ClockReference)
    (ok : if c then ∃ b e : Nat, b < 8589934592 ∧ e < 512 ∧ v = some { base := b, extension := e } else v = none) :
    Step (optP c parseESCR) (if c then escrBytes (v.getD default) else []) v := by
  cases c with
  | false => simp only [Bool.false_eq_true, if_false] at ok ⊢; subst ok; intro bs off r _; simp [optP]
  | true =>
    simp only [if_true] at ok ⊢
    obtain ⟨b, e, hb, he, rfl⟩ := ok
    intro bs off r hat
    exact optP_true_of_ok (step_escr b e hb he bs off r hat)

theorem seg_rate (c : Bool) (v : Nat) (ok : if c then v < 4194304 else v = 0) :
    Step (if c = true then (do let bs ← It.nextBytes 3; pure ((bs.getD 0 0 % 128) * 32768 + bs.getD 1 0 * 128 + bs.getD 2 0 / 2)) else pure 0 : P Nat)
      (if c then packFields [(1, 1), (v, 22), (1, 1)] else []) v := by
  cases c with
  | false => simp only [Bool.false_eq_true, if_false] at ok ⊢; subst ok; intro bs off r _; simp
  | true => simp only [if_true] at ok ⊢; exact step_rate v ok

theorem seg_dsm (c : Bool) (v : Option DSMTrickMode)
    (ok : if c then ∃ m, v = some m ∧ DSMOk m = true else v = none) :
    Step (optP c (do let b ← It.nextByte; pure (parseDSMTrickMode b))) (if c then dsmBytes (v.getD default) else []) v := by
  cases c with
  | false => simp only [Bool.false_eq_true, if_false] at ok ⊢; subst ok; intro bs off r _; simp [optP]
  | true =>
    simp only [if_true] at ok ⊢
    obtain ⟨m, rfl, hm⟩ := ok
    intro bs off r hat
    exact optP_true_of_ok (step_dsm m hm bs off r hat)

theorem seg_aci (c : Bool) (v : Nat) (ok : if c then v < 128 else v = 0) :
    Step (if c = true then (do let b ← It.nextByte; pure (b % 128)) else pure 0 : P Nat)
      (if c then packFields [(1, 1), (v, 7)] else []) v := by
  cases c with
  | false => simp only [Bool.false_eq_true, if_false] at ok ⊢; subst ok; intro bs off r _; simp
  | true => simp only [if_true] at ok ⊢; exact step_aci v ok

theorem seg_priv (c : Bool) (v : Bytes) (ok : if c then v.length = 16 else v = []) :
    Step (if c = true then It.nextBytes 16 else pure [] : P Bytes) (if c then bytesN v 16 0 else []) v := by
  cases c with
  | false => simp only [Bool.false_eq_true, if_false] at ok ⊢; subst ok; intro bs off r _; simp
  | true => simp only [if_true] at ok ⊢; exact step_priv v ok

theorem seg_psc (c : Bool) (psc mid osl : Nat)
    (ok : if c then psc < 128 ∧ mid < 2 ∧ osl < 64 else psc = 0 ∧ mid = 0 ∧ osl = 0) :
    Step (if c = true then (do let bs ← It.nextBytes 2; pure (bs.getD 0 0 % 128, bs.getD 1 0 / 64 % 2, bs.getD 1 0 % 64)) else pure (0, 0, 0) : P (Nat × Nat × Nat))
      (if c then packFields [(1, 1), (psc, 7), (1, 1), (mid, 1), (osl, 6)] else []) (psc, mid, osl) := by
  cases c with
  | false =>
    simp only [Bool.false_eq_true, if_false] at ok ⊢
    obtain ⟨rfl, rfl, rfl⟩ := ok
    intro bs off r _; simp
  | true => simp only [if_true] at ok ⊢; exact step_psc psc mid osl ok.1 ok.2.1 ok.2.2

theorem seg_pstd (c : Bool) (scale size : Nat) (ok : if c then scale < 2 ∧ size < 8192 else scale = 0 ∧ size = 0) :
    Step (if c = true then (do let bs ← It.nextBytes 2; pure (bs.getD 0 0 / 32 % 2, (bs.getD 0 0 % 32) * 256 + bs.getD 1 0)) else pure (0, 0) : P (Nat × Nat))
      (if c then packFields [(1, 2), (scale, 1), (size, 13)] else []) (scale, size) := by
  cases c with
  | false =>
    simp only [Bool.false_eq_true, if_false] at ok ⊢
    obtain ⟨rfl, rfl⟩ := ok
    intro bs off r _; simp
  | true => simp only [if_true] at ok ⊢; exact step_pstd scale size ok.1 ok.2

theorem seg_ext2 (c : Bool) (len : Nat) (data : Bytes) (ok : if c then data.length < 128 ∧ len = data.length else data = [] ∧ len = 0) :
    Step (if c = true then (do let b ← It.nextByte; let d ← It.nextBytes (b % 128 : Nat); pure (b % 128, d)) else pure (0, []) : P (Nat × Bytes))
      (if c then packFields [(1, 1), (data.length, 7)] ++ data else []) (len, data) := by
  cases c with
  | false =>
    simp only [Bool.false_eq_true, if_false] at ok ⊢
    obtain ⟨rfl, rfl⟩ := ok
    intro bs off r _; simp
  | true =>
    simp only [if_true] at ok ⊢
    obtain ⟨h1, rfl⟩ := ok
    exact step_ext2 data h1

/-! ### the optional header -/


theorem Step.run {α} {p : P α} {xs : Bytes} {a : α} (h : Step p xs a) {bs : Bytes} {off : Int} {r : Bytes}
    (hat : It.At ⟨bs, off⟩ (xs ++ r)) :
    p ⟨bs, off⟩ = .ok (a, ⟨bs, off + ((xs.length : Nat) : Int)⟩) ∧ It.At ⟨bs, off + ((xs.length : Nat) : Int)⟩ r :=
  ⟨h bs off r hat, It.At.advance hat _ rfl⟩


theorem parsePESOptionalHeader_written (h : PESOptionalHeader) (ok : PESOptOk h) (bs : Bytes) (off : Int) (r : Bytes)
    (hat : It.At ⟨bs, off⟩ (pesOptionalHeaderBytes h ++ r)) :
    ∃ j, parsePESOptionalHeader ⟨bs, off⟩ = .ok ((h, off + 3 + ((calcPESOptionalHeaderDataLength h : Nat) : Int)), j) ∧ j.bs = bs := by
  obtain ⟨b, hb, b1, b2, b3, b4, b5, b6⟩ := pes_byte0 h.scramblingControl (b2n h.priority) (b2n h.dataAlignmentIndicator)
    (b2n h.isCopyrighted) (b2n h.isOriginal) ok.scramblingControl (b2n_le _) (b2n_le _) (b2n_le _) (b2n_le _)
  obtain ⟨f, hf, f1, f2, f3, f4, f5, f6, f7⟩ := pes_byte1 h.ptsDTSIndicator (b2n h.hasESCR) (b2n h.hasESRate) (b2n h.hasDSMTrickMode)
    (b2n h.hasAdditionalCopyInfo) (b2n h.hasExtension) ok.ind (b2n_le _) (b2n_le _) (b2n_le _) (b2n_le _) (b2n_le _)
  unfold pesOptionalHeaderBytes at hat
  rw [hb, hf] at hat
  simp only [List.append_assoc, List.singleton_append] at hat
  unfold parsePESOptionalHeader
  rw [P.bind_of_ok (nextByte_at bs off b _ hat)]
  have a1 := It.At.advance1 hat
  rw [P.bind_of_ok (nextByte_at bs _ f _ a1)]
  have a2 := It.At.advance1 a1
  rw [P.bind_of_ok (nextByte_at bs _ _ _ a2)]
  have a3 := It.At.advance1 a2
  rw [P.bind_of_ok (offset_run _)]
  simp only [f1, f2, f3, f4, f5, f6, f7, b1, b2, b3, b4, b5, b6, b2n_eq_one, Bool.decide_eq_true]
  obtain ⟨o1, o2, hpts, hdts, a4⟩ := seg_ptsdts h.ptsDTSIndicator h.pts h.dts ok.ind ok.pts ok.dts bs _ _ a3
  rw [P.bind_of_ok hpts, P.bind_of_ok hdts]
  obtain ⟨r5, a5⟩ := (seg_escr _ _ ok.escr).run a4
  rw [P.bind_of_ok r5]
  obtain ⟨r6, a6⟩ := (seg_rate _ _ ok.esRate).run a5
  rw [P.bind_of_ok r6]
  obtain ⟨r7, a7⟩ := (seg_dsm _ _ ok.dsm).run a6
  rw [P.bind_of_ok r7]
  obtain ⟨r8, a8⟩ := (seg_aci _ _ ok.aci).run a7
  rw [P.bind_of_ok r8]
  generalize o2 + _ + _ + _ + _ = o8 at a8 ⊢
  clear a1 a2 a3 a4 a5 a6 a7 hpts hdts hat r5 r6 r7 r8
  have hpure : ∀ (i : It), (if (0 : Nat) = 1 then (do let bs ← It.nextBytes 2; pure (List.getD bs 0 0 * 256 + List.getD bs 1 0)) else pure 0 : P Nat) i = .ok (0, i) := fun _ => rfl
  rw [P.bind_of_ok (hpure _)]
  have e_crc := ok.noCRC.2
  have e_hasCRC := ok.noCRC.1
  have e_mb := ok.markerBits
  have e_hl := ok.headerLength
  have e_of := ok.noOptionalFields
  have e_pack := ok.noPack.1
  have e_packf := ok.noPack.2
  have e_off : off + 1 + 1 + 1 + ((calcPESOptionalHeaderDataLength h : Nat) : Int) = off + 3 + ((calcPESOptionalHeaderDataLength h : Nat) : Int) := by omega
  rw [e_off]
  by_cases hext : h.hasExtension = true
  · simp only [hext, if_true] at a8 ⊢
    obtain ⟨e, he, g1, g2, g3, g4, g5⟩ := pes_byte_ext (b2n h.hasPrivateData) (b2n h.hasProgramPacketSequenceCounter)
      (b2n h.hasPSTDBuffer) (b2n h.hasExtension2) (b2n_le _) (b2n_le _) (b2n_le _) (b2n_le _)
    rw [he] at a8
    simp only [List.append_assoc, List.cons_append] at a8
    rw [P.bind_of_ok (nextByte_at bs _ e _ a8)]
    have c1 := It.At.advance1 a8
    simp only [g1, g2, g3, g4, g5, b2n_eq_one, Bool.decide_eq_true]
    obtain ⟨s2, c2⟩ := (seg_priv _ _ ok.priv).run c1
    rw [P.bind_of_ok s2]
    have hpure2 : ∀ (i : It), (if (0 : Nat) = 1 then It.nextByte else pure 0 : P Nat) i = .ok (0, i) := fun _ => rfl
    rw [P.bind_of_ok (hpure2 _)]
    obtain ⟨s3, c3⟩ := (seg_psc _ _ _ _ ok.psc).run c2
    rw [P.bind_of_ok s3]
    obtain ⟨s4, c4⟩ := (seg_pstd _ _ _ ok.pstd).run c3
    rw [P.bind_of_ok s4]
    obtain ⟨s5, c5⟩ := (seg_ext2 _ _ _ ok.ext2).run c4
    rw [P.bind_of_ok s5]
    generalize o8 + 1 + _ + _ + _ + _ = o9 at c5 ⊢
    refine ⟨⟨bs, o9⟩, ?_, rfl⟩
    show Res.ok _ = _
    congr 3
    rw [← e_hl]
    clear ok a8 e_hl e_off hb hf b1 b2 b3 b4 b5 b6 f1 f2 f3 f4 f5 f6 f7 c1 c2 c3 c4 c5 s2 s3 s4 s5 he g1 g2 g3 g4 g5
    cases h
    simp only at *
    subst_vars
    rfl
  · simp only [hext] at a8 ⊢
    have hext' : h.hasExtension = false := by simpa using hext
    obtain ⟨x1, x2, x3, x4⟩ := ok.extFlags hext'
    have y1 := ok.priv
    have y2 := ok.psc
    have y3 := ok.pstd
    have y4 := ok.ext2
    simp only [x1, x2, x3, x4, Bool.false_eq_true, if_false] at y1 y2 y3 y4
    obtain ⟨y21, y22, y23⟩ := y2
    obtain ⟨y31, y32⟩ := y3
    obtain ⟨y41, y42⟩ := y4
    refine ⟨⟨bs, o8⟩, ?_, rfl⟩
    show Res.ok _ = _
    congr 3
    rw [← e_hl]
    clear ok a8 e_hl e_off hb hf b1 b2 b3 b4 b5 b6 f1 f2 f3 f4 f5 f6 f7
    cases h
    simp only at *
    subst_vars
    rfl



theorem packFields_length (fs : List (Nat × Nat)) : (packFields fs).length = fieldsWidth fs / 8 := by
  unfold packFields; exact beBytes_length _ _

theorem ite_len {c : Prop} [Decidable c] (xs : Bytes) (n : Nat) (h : c → xs.length = n) :
    (if c then xs else []).length = (if c then n else 0) := by
  split
  · exact h ‹_›
  · rfl

theorem ite_le {c : Prop} [Decidable c] (n : Nat) : (if c then n else 0) ≤ n := by
  split <;> omega

theorem pesOptionalHeaderBytes_length (h : PESOptionalHeader) (ok : PESOptOk h) :
    (pesOptionalHeaderBytes h).length = 3 + calcPESOptionalHeaderDataLength h := by
  have l1 := ite_len (c := h.ptsDTSIndicator = 2) (ptsBytes 2 (h.pts.getD default)) 5 (fun _ => ptsBytes_length _ _)
  have l2 := ite_len (c := h.ptsDTSIndicator = 3) (ptsBytes 3 (h.pts.getD default) ++ ptsBytes 1 (h.dts.getD default)) 10
    (fun _ => by simp [ptsBytes_length])
  have l3 := ite_len (c := h.hasESCR = true) (escrBytes (h.escr.getD default)) 6 (fun _ => escrBytes_length _)
  have l4 := ite_len (c := h.hasESRate = true) (packFields [(1, 1), (h.esRate, 22), (1, 1)]) 3 (fun _ => by simp [packFields_length, fieldsWidth])
  have l5 := ite_len (c := h.hasDSMTrickMode = true) (dsmBytes (h.dsmTrickMode.getD default)) 1 (fun hc => by
    have := ok.dsm
    rw [if_pos hc] at this
    obtain ⟨m, hm, hok⟩ := this
    rw [hm]; exact (dsm_roundtrip m hok).1)
  have l6 := ite_len (c := h.hasAdditionalCopyInfo = true) (packFields [(1, 1), (h.additionalCopyInfo, 7)]) 1 (fun _ => by simp [packFields_length, fieldsWidth])
  have l7 := ite_len (c := h.hasPrivateData = true) (bytesN h.privateData 16 0) 16 (fun hc => by
    have := ok.priv
    rw [if_pos hc] at this
    unfold bytesN; rw [if_pos (by omega)]; simp; omega)
  have l8 := ite_len (c := h.hasProgramPacketSequenceCounter = true)
    (packFields [(1, 1), (h.packetSequenceCounter, 7), (1, 1), (h.mpeg1OrMPEG2ID, 1), (h.originalStuffingLength, 6)]) 2
    (fun _ => by simp [packFields_length, fieldsWidth])
  have l9 := ite_len (c := h.hasPSTDBuffer = true) (packFields [(1, 2), (h.pstdBufferScale, 1), (h.pstdBufferSize, 13)]) 2
    (fun _ => by simp [packFields_length, fieldsWidth])
  have l10 := ite_len (c := h.hasExtension2 = true) (packFields [(1, 1), (h.extension2Data.length, 7)] ++ h.extension2Data)
    (1 + h.extension2Data.length % 256) (fun hc => by
      have := ok.ext2
      rw [if_pos hc] at this
      simp [packFields_length, fieldsWidth]; omega)
  have hx : (if h.hasExtension2 = true then 1 + h.extension2Data.length % 256 else 0) ≤ 128 := by
    have := ok.ext2
    split
    · rename_i hc; rw [if_pos hc] at this; omega
    · omega
  have lb : (packFields [(2, 2), (h.scramblingControl, 2), (b2n h.priority, 1), (b2n h.dataAlignmentIndicator, 1),
      (b2n h.isCopyrighted, 1), (b2n h.isOriginal, 1)]).length = 1 := by simp [packFields_length, fieldsWidth]
  have lf : (packFields [(h.ptsDTSIndicator, 2), (b2n h.hasESCR, 1), (b2n h.hasESRate, 1), (b2n h.hasDSMTrickMode, 1),
      (b2n h.hasAdditionalCopyInfo, 1), (0, 1), (b2n h.hasExtension, 1)]).length = 1 := by simp [packFields_length, fieldsWidth]
  have le : (packFields [(b2n h.hasPrivateData, 1), (0, 1), (b2n h.hasProgramPacketSequenceCounter, 1),
          (b2n h.hasPSTDBuffer, 1), (7, 3), (b2n h.hasExtension2, 1)]).length = 1 := by simp [packFields_length, fieldsWidth]
  have hnest : (if h.ptsDTSIndicator = 2 then 5 else if h.ptsDTSIndicator = 3 then 10 else 0)
      = (if h.ptsDTSIndicator = 2 then 5 else 0) + (if h.ptsDTSIndicator = 3 then 10 else 0) := by
    by_cases h2 : h.ptsDTSIndicator = 2
    · have : ¬ h.ptsDTSIndicator = 3 := by omega
      simp [h2]
    · simp [h2]
  have b1 := ite_le (c := h.ptsDTSIndicator = 2) 5
  have b2 := ite_le (c := h.ptsDTSIndicator = 3) 10
  have b3 := ite_le (c := h.hasESCR = true) 6
  have b4 := ite_le (c := h.hasESRate = true) 3
  have b5 := ite_le (c := h.hasDSMTrickMode = true) 1
  have b6 := ite_le (c := h.hasAdditionalCopyInfo = true) 1
  have b7 := ite_le (c := h.hasPrivateData = true) 16
  have b8 := ite_le (c := h.hasProgramPacketSequenceCounter = true) 2
  have b9 := ite_le (c := h.hasPSTDBuffer = true) 2
  unfold pesOptionalHeaderBytes calcPESOptionalHeaderDataLength
  rw [hnest]
  by_cases hext : h.hasExtension = true
  · simp only [hext, if_true, List.length_append, l1, l2, l3, l4, l5, l6, l7, l8, l9, l10, lb, le, List.length_cons, List.length_nil,
      packFields_length, fieldsWidth]
    omega
  · have hext' : h.hasExtension = false := by simpa using hext
    simp only [hext', Bool.false_eq_true, if_false, List.length_append, l1, l2, l3, l4, l5, l6, lb, List.length_cons, List.length_nil,
      packFields_length, fieldsWidth]
    omega



/-! ### the whole PES packet -/

structure PESHeaderOk (h : PESHeader) : Prop where
  streamID : h.streamID < 256
  optional : if hasPESOptionalHeader h.streamID then ∃ oh, h.optionalHeader = some oh ∧ PESOptOk oh else h.optionalHeader = none

theorem calcData_le (oh : PESOptionalHeader) : calcPESOptionalHeaderDataLength oh < 256 := by
  unfold calcPESOptionalHeaderDataLength; omega

theorem calcData_bound (oh : PESOptionalHeader) (ok : PESOptOk oh) : calcPESOptionalHeaderDataLength oh ≤ 170 := by
  have b0 : (if oh.ptsDTSIndicator = 2 then 5 else if oh.ptsDTSIndicator = 3 then 10 else 0) ≤ 10 := by
    split
    · omega
    · split <;> omega
  have b3 := ite_le (c := oh.hasESCR = true) 6
  have b4 := ite_le (c := oh.hasESRate = true) 3
  have b5 := ite_le (c := oh.hasDSMTrickMode = true) 1
  have b6 := ite_le (c := oh.hasAdditionalCopyInfo = true) 1
  have b7 := ite_le (c := oh.hasPrivateData = true) 16
  have b8 := ite_le (c := oh.hasProgramPacketSequenceCounter = true) 2
  have b9 := ite_le (c := oh.hasPSTDBuffer = true) 2
  have hx : (if oh.hasExtension2 = true then 1 + oh.extension2Data.length % 256 else 0) ≤ 128 := by
    have := ok.ext2
    split
    · rename_i hc; rw [if_pos hc] at this; omega
    · omega
  unfold calcPESOptionalHeaderDataLength
  by_cases hext : oh.hasExtension = true
  · simp only [hext, if_true]; omega
  · have hext' : oh.hasExtension = false := by simpa using hext
    simp only [hext', Bool.false_eq_true, if_false]; omega

theorem be2_bytes (v : Nat) (hv : v < 65536) : ∃ x y, beBytes 2 v = [x, y] ∧ x * 256 + y = v := by
  refine ⟨v / 256 % 256, v % 256, ?_, ?_⟩
  · simp [beBytes]
  · omega

theorem pesPacketLength_cases (h : PESHeader) (n : Nat) :
    pesPacketLengthFor h n = 0 ∨
    (pesPacketLengthFor h n = n + (if hasPESOptionalHeader h.streamID then calcPESOptionalHeaderLength h.optionalHeader else 0) ∧
      n + (if hasPESOptionalHeader h.streamID then calcPESOptionalHeaderLength h.optionalHeader else 0) ≤ 65535) := by
  unfold pesPacketLengthFor
  by_cases hv : isVideoStream h.streamID = true
  · left; simp [hv]
  · simp only [hv, Bool.false_eq_true, if_false]
    by_cases hl : n + (if hasPESOptionalHeader h.streamID then calcPESOptionalHeaderLength h.optionalHeader else 0) > 0xffff
    · left; simp [hl]
    · right
      simp only [hl, if_false]
      exact ⟨trivial, by omega⟩

theorem pesPacketLength_lt (h : PESHeader) (n : Nat) : pesPacketLengthFor h n < 65536 := by
  rcases pesPacketLength_cases h n with h0 | ⟨h1, h2⟩ <;> omega

theorem len_run (i : It) : It.len i = .ok ((i.bs.length : Int), i) := rfl

theorem parsePESHeader_written (h : PESHeader) (payload : Bytes) (ok : PESHeaderOk h) :
    ∃ j, parsePESHeader ⟨pesHeaderBytes h payload.length ++ payload, 3⟩ =
      .ok (({ h with packetLength := pesPacketLengthFor h payload.length },
            (((pesHeaderBytes h payload.length).length : Nat) : Int),
            (((pesHeaderBytes h payload.length ++ payload).length : Nat) : Int)), j) ∧
      j.bs = pesHeaderBytes h payload.length ++ payload := by
  have hL := pesPacketLength_lt h payload.length
  obtain ⟨x, y, hxy, exy⟩ := be2_bytes _ hL
  have hsid : h.streamID % 256 = h.streamID := Nat.mod_eq_of_lt ok.streamID
  have hopt := ok.optional
  have hcases := pesPacketLength_cases h payload.length
  by_cases ho : hasPESOptionalHeader h.streamID = true
  · rw [if_pos ho] at hopt
    obtain ⟨oh, hoh, ook⟩ := hopt
    have hlen := pesOptionalHeaderBytes_length oh ook
    have hcd := calcData_le oh
    have hhb : pesHeaderBytes h payload.length = [0, 0, 1] ++ (h.streamID :: ([x, y] ++ pesOptionalHeaderBytes oh)) := by
      unfold pesHeaderBytes
      rw [hxy, hsid, if_pos ho, hoh]
      simp
    have hhl : (pesHeaderBytes h payload.length).length = 6 + (3 + calcPESOptionalHeaderDataLength oh) := by
      rw [hhb]; simp [hlen]; omega
    have hcalc : calcPESOptionalHeaderLength h.optionalHeader = 3 + calcPESOptionalHeaderDataLength oh := by
      rw [hoh]; simp only [calcPESOptionalHeaderLength]
      have hsum := pesOptionalHeaderBytes_length oh ook
      have := calcData_bound oh ook
      omega
    generalize hbs : pesHeaderBytes h payload.length ++ payload = bs
    have hbytes : bs = [0, 0, 1] ++ (h.streamID :: ([x, y] ++ (pesOptionalHeaderBytes oh ++ payload))) := by
      rw [← hbs, hhb]; simp
    have a3 : It.At ⟨bs, 3⟩ (h.streamID :: ([x, y] ++ (pesOptionalHeaderBytes oh ++ payload))) := ⟨[0, 0, 1], hbytes, rfl⟩
    have hbl : bs.length = (pesHeaderBytes h payload.length).length + payload.length := by
      rw [← hbs]; simp
    unfold parsePESHeader
    rw [P.bind_of_ok (nextByte_at bs 3 _ _ a3)]
    have a4 := It.At.advance1 a3
    rw [P.bind_of_ok (nextBytes_at bs _ _ _ 2 (by simp) a4)]
    have a6 := It.At.advance a4 2 (by simp)
    rw [P.bind_of_ok (offset_run _), P.bind_of_ok (len_run _)]
    simp only [ho, if_true, List.getD_cons_zero, List.getD_cons_succ, exy]
    obtain ⟨j, hj, hjb⟩ := parsePESOptionalHeader_written oh ook bs _ payload a6
    rw [P.bind_of_ok hj]
    refine ⟨j, ?_, hjb⟩
    show Res.ok _ = _
    rw [hoh]
    congr 3
    congr 1
    · omega
    · rcases hcases with h0 | ⟨h1, h2⟩
      · simp only [h0, Nat.lt_irrefl, if_false]
      · rw [if_pos ho, hcalc] at h1
        by_cases hp : pesPacketLengthFor h payload.length > 0
        · simp only [hp, if_true]; omega
        · simp only [hp, if_false]
  · have ho' : hasPESOptionalHeader h.streamID = false := by simpa using ho
    rw [if_neg ho] at hopt
    have hhb : pesHeaderBytes h payload.length = [0, 0, 1] ++ (h.streamID :: [x, y]) := by
      unfold pesHeaderBytes
      rw [hxy, hsid, if_neg ho]
      simp
    have hhl : (pesHeaderBytes h payload.length).length = 6 := by rw [hhb]; rfl
    generalize hbs : pesHeaderBytes h payload.length ++ payload = bs
    have hbytes : bs = [0, 0, 1] ++ (h.streamID :: ([x, y] ++ payload)) := by
      rw [← hbs, hhb]; simp
    have a3 : It.At ⟨bs, 3⟩ (h.streamID :: ([x, y] ++ payload)) := ⟨[0, 0, 1], hbytes, rfl⟩
    have hbl : bs.length = 6 + payload.length := by rw [← hbs]; simp [hhl]
    unfold parsePESHeader
    rw [P.bind_of_ok (nextByte_at bs 3 _ _ a3)]
    have a4 := It.At.advance1 a3
    rw [P.bind_of_ok (nextBytes_at bs _ _ _ 2 (by simp) a4)]
    rw [P.bind_of_ok (offset_run _), P.bind_of_ok (len_run _)]
    simp only [ho', Bool.false_eq_true, if_false, List.getD_cons_zero, List.getD_cons_succ, exy]
    rw [P.bind_of_ok (offset_run _)]
    refine ⟨⟨bs, 3 + 1 + 2⟩, ?_, rfl⟩
    show Res.ok _ = _
    rw [hopt]
    congr 3
    congr 1
    · simp only [hhl]; omega
    · rcases hcases with h0 | ⟨h1, h2⟩
      · simp only [h0, Nat.lt_irrefl, if_false]
      · rw [if_neg ho] at h1
        by_cases hp : pesPacketLengthFor h payload.length > 0
        · simp only [hp, if_true]; omega
        · simp only [hp, if_false]

theorem parsePESData_written (h : PESHeader) (payload : Bytes) (ok : PESHeaderOk h) :
    parsePESData ⟨pesHeaderBytes h payload.length ++ payload, 0⟩ =
      .ok ({ data := payload, header := { h with packetLength := pesPacketLengthFor h payload.length } },
           ⟨pesHeaderBytes h payload.length ++ payload, ((pesHeaderBytes h payload.length ++ payload).length : Nat)⟩) := by
  obtain ⟨j, hj, hjb⟩ := parsePESHeader_written h payload ok
  unfold parsePESData
  rw [P.bind_of_ok (seek_run _ _), P.bind_of_ok hj]
  simp only [List.length_append]
  have : ¬ ((((pesHeaderBytes h payload.length).length + payload.length : Nat) : Int) < (((pesHeaderBytes h payload.length).length : Nat) : Int)) := by omega
  simp only [this, if_false]
  rw [P.bind_of_ok (seek_run _ _)]
  have a : It.At ⟨pesHeaderBytes h payload.length ++ payload, (((pesHeaderBytes h payload.length).length : Nat) : Int)⟩ (payload ++ []) :=
    ⟨pesHeaderBytes h payload.length, by simp, rfl⟩
  obtain ⟨jb, jo⟩ := j
  simp only at hjb
  subst hjb
  rw [P.bind_of_ok (nextBytes_at _ _ payload [] _ (by omega) a)]
  simp only [P.pure_run]
  congr 2
  simp only [It.mk.injEq, true_and]
  omega

end Astits.PESRT
