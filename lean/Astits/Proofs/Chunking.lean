/-
C08 helpers — chunking independence (K1), oversize frames (K2), auto-detected = explicit packet size (K3).

Layers (each in its own module under `Astits/Proofs/Chunking/`):

* `Frame`      — relational Hoare logic for the parser monad; `parsePacket` ignores the extra bytes of a 188+k frame;
* `ReadFull`   — the `io.Reader` contract (`ReadStep`, `Conforms`) and the loop of `io.ReadFull`; over any conforming
                 reader implementation it computes the model's closed formula `Reader.readFull`;
* `Readers`    — the harness reader with a read schedule (`VReader`) and `bufio.Reader` over it (`BReader`) conform;
* `Bufio`      — `bufio.Reader.Peek` / `Discard` over a scheduled reader, on the abstract reader;
* `LowLevel`   — auto-detection over the concrete readers = `autoDetectPacketSize` on the abstract reader;
* `LDemux`     — `NextPacket` / `NextData` over the concrete readers = the model's, on the abstract state;
* `Bisim`      — chunking independence as a bisimulation and for call sequences;
* `Frames`     — a stream in 188+k frames with explicit size 188+k = its 188-byte form with size 188;
* `Sized`      — with a packet buffer in place neither reader kind nor `optPacketSize` matter;
* `AutoDetect` — the exact condition for auto-detection to return a size; auto = explicit; reader kinds.

This module adds the call-sequence form of the frame theorem and a few executable sanity checks of the
definitions.
-/
import Astits.Proofs.Chunking.Frame
import Astits.Proofs.Chunking.ReadFull
import Astits.Proofs.Chunking.Readers
import Astits.Proofs.Chunking.Bufio
import Astits.Proofs.Chunking.LowLevel
import Astits.Proofs.Chunking.LDemux
import Astits.Proofs.Chunking.Bisim
import Astits.Proofs.Chunking.Frames
import Astits.Proofs.Chunking.Sized
import Astits.Proofs.Chunking.AutoDetect
namespace Astits.Chunking

/-- the framed run and the plain run observe the same results for every call sequence -/
theorem run_FrameRel {k : Nat} {fs : Frames} (hw : WellFramed k fs) {T : Tails k} :
    ∀ (cs : List Call) (j : Nat) (d1 d2 : Demux), FrameRel k fs T j d1 d2 → runModel cs d1 = runModel cs d2 := by
  intro cs
  induction cs with
  | nil => intro _ _ _ _; rfl
  | cons c cs ih =>
    intro j d1 d2 h
    cases c with
    | packet =>
      obtain ⟨e, j', _, h', _⟩ := nextPacket_frames hw h
      simp only [runModel]
      rw [e, ih j' _ _ h']
    | data =>
      obtain ⟨e, j', h'⟩ := nextData_frames hw h
      simp only [runModel]
      rw [e, ih j' _ _ h']

/-- the initial states: the plain-side demuxer `d` (explicit size 188, at the start of `plainOf fs ++ T.t2`, no fault)
and the framed-side demuxer (explicit size `188+k`, at the start of `framedOf fs ++ T.t1`, any reader kind) -/
def framedDemux (d : Demux) (k : Nat) (fs : Frames) (T : Tails k) (kk : ReaderKind) : Demux :=
  setF d { d.r with data := framedOf fs ++ T.t1, kind := kk } (188 + k) none

theorem framedDemux_rel {k : Nat} {fs : Frames} {T : Tails k} (d : Demux) (kk : ReaderKind)
    (hdata : d.r.data = plainOf fs ++ T.t2)
    (hpos : d.r.pos = 0) (hf : d.r.faultActive = none) (hopt : d.optPacketSize = 188) (hps : d.packetSize = none) :
    FrameRel k fs T 0 (framedDemux d k fs T kk) d :=
  ⟨_, none, rfl, ⟨rfl, hdata, Or.inl (by simp only [Nat.zero_mul]; exact hpos), Or.inl (by rw [Nat.zero_mul]; exact hpos),
    hf, hf, Nat.zero_le _⟩, hopt, Or.inl ⟨rfl, hps⟩⟩

/-! ### executable sanity checks of the low-level definitions -/

/-- byte-wise `Read`s: `io.ReadFull` still fills the buffer -/
example : (ioReadFull VImpl { r := { data := [1, 2, 3, 4, 5] }, cap := capOne } 3).1 = [1, 2, 3] := by decide
/-- … taking three `Read` calls -/
example : (ioReadFull VImpl { r := { data := [1, 2, 3, 4, 5] }, cap := capOne } 3).2.2.call = 3 := by decide
/-- a single `Read` when the reader fills whole slices -/
example : (ioReadFull VImpl { r := { data := [1, 2, 3, 4, 5] }, cap := capAll } 3).2.2.call = 1 := by decide
/-- short data: `io.ErrUnexpectedEOF` with the bytes read so far -/
example : (ioReadFull VImpl { r := { data := [1, 2], pos := 0 }, cap := capOne } 3).2.1 = some .unexpectedEOF := by decide
/-- an injected fault at offset 1 surfaces after one byte -/
example : (ioReadFull VImpl { r := { data := [1, 2, 3], faultAt := some 1 }, cap := capAll } 3).2.1 = some .injected ∧
    (ioReadFull VImpl { r := { data := [1, 2, 3], faultAt := some 1 }, cap := capAll } 3).1 = [1] := by decide
/-- bufio reads ahead: after delivering 2 bytes, the underlying reader is at 4 (buffer size 4) and 2 bytes are buffered -/
example : (BReader.read { v := { r := { data := [1, 2, 3, 4, 5, 6] } }, size := 4 } 2).2.2.v.r.pos = 4 ∧
    (BReader.read { v := { r := { data := [1, 2, 3, 4, 5, 6] } }, size := 4 } 2).2.2.buf = [3, 4] ∧
    (BReader.read { v := { r := { data := [1, 2, 3, 4, 5, 6] } }, size := 4 } 2).2.2.abs.pos = 2 := by decide
/-- `Peek` consumes nothing, `Discard` skips -/
example : (BReader.peek { v := { r := { data := [1, 2, 3, 4, 5, 6] }, cap := capOne }, size := 4 } 3).1 = [1, 2, 3] ∧
    (BReader.peek { v := { r := { data := [1, 2, 3, 4, 5, 6] }, cap := capOne }, size := 4 } 3).2.2.abs.pos = 0 ∧
    (BReader.discard { v := { r := { data := [1, 2, 3, 4, 5, 6] }, cap := capOne }, size := 4 } 5).abs.pos = 5 := by
  decide

end Astits.Chunking
