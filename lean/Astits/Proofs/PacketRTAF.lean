/-
C11 helper — whole-structure round trip, part 2: the adaptation field (every flag combination, handled part by part).
-/
import Astits.Proofs.PacketRT
namespace Astits.PacketRT
open Astits

theorem ParsesAt.bind_nil {α β} {pre ys : Bytes} {p : P α} {f : α → P β} {a : α} {b : β}
    (h1 : ParsesAt pre p [] a) (h2 : ParsesAt pre (f a) ys b) :
    ParsesAt pre (p >>= f) ys b := by
  have := ParsesAt.bind h1 (by simpa using h2)
  simpa using this

/-- a PCR / OPCR the writer encodes without truncation: present, 33-bit base, 9-bit extension -/
def PcrOK : Option ClockReference → Prop
  | some c => 0 ≤ c.base ∧ c.base < 8589934592 ∧ 0 ≤ c.extension ∧ c.extension < 512
  | none => False

instance : (c : Option ClockReference) → Decidable (PcrOK c)
  | some c => inferInstanceAs (Decidable (0 ≤ c.base ∧ c.base < 8589934592 ∧ 0 ≤ c.extension ∧ c.extension < 512))
  | none => inferInstanceAs (Decidable False)

/-- the extension announced by the flag is present and well-formed -/
def ExtOK : Option PacketAdaptationExtensionField → Prop
  | some e => ExtWF e
  | none => False

theorem pcr_at (pre : Bytes) (c : Option ClockReference) (h : PcrOK c) :
    ParsesAt pre (do let c ← parsePCR; pure (some c) : P (Option ClockReference)) (pcrBytes (c.getD default)) c := by
  cases c with
  | none => exact h.elim
  | some c =>
    obtain ⟨b, x⟩ := c
    obtain ⟨h0, h1, h2, h3⟩ := h
    simp only at h0 h1 h2 h3
    have hb : b = (b.toNat : Int) := (Int.toNat_of_nonneg h0).symm
    have hx : x = (x.toNat : Int) := (Int.toNat_of_nonneg h2).symm
    have r := pcr_roundtrip b.toNat x.toNat (by omega) (by omega)
    rw [← hb, ← hx] at r
    simp only [Option.getD_some]
    unfold parsePCR
    have hl : (pcrBytes { base := b, extension := x }).length = 6 := by simp [pcrBytes, packFields, fieldsWidth, beBytes]
    refine ParsesAt.congr_val (ParsesAt.bind_last (ParsesAt.bind_last (nextBytes_at _ _ 6 (by rw [hl]; rfl)) (ParsesAt.pure _ _)) (ParsesAt.pure _ _)) ?_
    rw [r]


/-- transport private data: length byte, then that many bytes -/
theorem priv_at (pre data : Bytes) (hd : data.length < 256) :
    ParsesAt pre (do
        let l ← It.nextByte
        if l > 0 then do
          let d ← It.nextBytes l
          pure ((l : Int), d)
        else pure ((l : Int), []) : P (Int × Bytes))
      ([data.length] ++ data) ((data.length : Int), data) := by
  refine ParsesAt.bind (nextByte_at _ _) ?_
  by_cases h : data.length > 0
  · rw [if_pos h]
    exact ParsesAt.bind_last (nextBytes_at _ _ _ rfl) (ParsesAt.pure _ _)
  · rw [if_neg h]
    have : data = [] := List.eq_nil_of_length_eq_zero (by omega)
    subst this
    exact ParsesAt.pure _ _

/-- well-formed adaptation field (not the one-byte form): every part announced by a flag is present and its values fit
their bit widths; TransportPrivateDataLength is the length of the private data -/
structure AFWF (a : PacketAdaptationField) : Prop where
  pcr : a.hasPCR = true → PcrOK a.pcr
  opcr : a.hasOPCR = true → PcrOK a.opcr
  splice : a.hasSplicingCountdown = true → 0 ≤ a.spliceCountdown ∧ a.spliceCountdown < 256
  priv : a.hasTransportPrivateData = true →
    a.transportPrivateDataLength = a.transportPrivateData.length ∧ a.transportPrivateData.length < 256
  ext : a.hasAdaptationExtensionField = true → ExtOK a.adaptationExtensionField

/-- what the parser returns for the bytes written for `a` -/
def normAF (a : PacketAdaptationField) : PacketAdaptationField :=
  if a.isOneByteStuffing = true then { length := 0, stuffingLength := 0, isOneByteStuffing := true }
  else
    { adaptationExtensionField := if a.hasAdaptationExtensionField = true then a.adaptationExtensionField.map normExt else none
      opcr := if a.hasOPCR = true then a.opcr else none
      pcr := if a.hasPCR = true then a.pcr else none
      transportPrivateData := if a.hasTransportPrivateData = true then a.transportPrivateData else []
      transportPrivateDataLength := if a.hasTransportPrivateData = true then a.transportPrivateDataLength else 0
      length := afSize a
      stuffingLength := if a.stuffingLength > 0 then a.stuffingLength else 0
      spliceCountdown := if a.hasSplicingCountdown = true then a.spliceCountdown else 0
      isOneByteStuffing := false
      randomAccessIndicator := a.randomAccessIndicator
      discontinuityIndicator := a.discontinuityIndicator
      elementaryStreamPriorityIndicator := a.elementaryStreamPriorityIndicator
      hasAdaptationExtensionField := a.hasAdaptationExtensionField
      hasOPCR := a.hasOPCR
      hasPCR := a.hasPCR
      hasTransportPrivateData := a.hasTransportPrivateData
      hasSplicingCountdown := a.hasSplicingCountdown }

def afFlagByte (a : PacketAdaptationField) : Nat :=
  ((((((b2n a.discontinuityIndicator * 2 + b2n a.randomAccessIndicator) * 2 + b2n a.elementaryStreamPriorityIndicator) * 2
    + b2n a.hasPCR) * 2 + b2n a.hasOPCR) * 2 + b2n a.hasSplicingCountdown) * 2 + b2n a.hasTransportPrivateData) * 2
    + b2n a.hasAdaptationExtensionField

theorem afFlag_bytes (a : PacketAdaptationField) :
    packFields [(b2n a.discontinuityIndicator, 1), (b2n a.randomAccessIndicator, 1),
        (b2n a.elementaryStreamPriorityIndicator, 1), (b2n a.hasPCR, 1), (b2n a.hasOPCR, 1),
        (b2n a.hasSplicingCountdown, 1), (b2n a.hasTransportPrivateData, 1), (b2n a.hasAdaptationExtensionField, 1)]
      = [afFlagByte a] := by
  simp only [packFields, fieldsWidth, fieldsValue, beBytes, afFlagByte, Nat.reducePow]
  have h1 := b2n_le a.discontinuityIndicator
  have h2 := b2n_le a.randomAccessIndicator
  have h3 := b2n_le a.elementaryStreamPriorityIndicator
  have h4 := b2n_le a.hasPCR
  have h5 := b2n_le a.hasOPCR
  have h6 := b2n_le a.hasSplicingCountdown
  have h7 := b2n_le a.hasTransportPrivateData
  have h8 := b2n_le a.hasAdaptationExtensionField
  simp only [List.cons.injEq, and_true]
  omega

theorem afFlag_decode (a : PacketAdaptationField) :
    (afFlagByte a / 16 % 2 = 1) = (a.hasPCR = true) ∧
    (afFlagByte a / 8 % 2 = 1) = (a.hasOPCR = true) ∧
    (afFlagByte a / 4 % 2 = 1) = (a.hasSplicingCountdown = true) ∧
    (afFlagByte a / 2 % 2 = 1) = (a.hasTransportPrivateData = true) ∧
    (afFlagByte a % 2 = 1) = (a.hasAdaptationExtensionField = true) ∧
    (afFlagByte a / 64 % 2 = 1) = (a.randomAccessIndicator = true) ∧
    (afFlagByte a / 128 % 2 = 1) = (a.discontinuityIndicator = true) ∧
    (afFlagByte a / 32 % 2 = 1) = (a.elementaryStreamPriorityIndicator = true) := by
  have h1 := b2n_le a.discontinuityIndicator
  have h2 := b2n_le a.randomAccessIndicator
  have h3 := b2n_le a.elementaryStreamPriorityIndicator
  have h4 := b2n_le a.hasPCR
  have h5 := b2n_le a.hasOPCR
  have h6 := b2n_le a.hasSplicingCountdown
  have h7 := b2n_le a.hasTransportPrivateData
  have h8 := b2n_le a.hasAdaptationExtensionField
  simp only [← b2n_eq_one]
  unfold afFlagByte
  refine ⟨?_, ?_, ?_, ?_, ?_, ?_, ?_, ?_⟩ <;> (apply congrArg (· = 1); omega)

/-- the bytes of the adaptation field that the parser consumes: everything but the stuffing -/
def afCore (a : PacketAdaptationField) : Bytes :=
  if a.isOneByteStuffing = true then [0]
  else
    [calcAFLength a] ++ ([afFlagByte a]
    ++ ((if a.hasPCR = true then pcrBytes (a.pcr.getD default) else [])
    ++ ((if a.hasOPCR = true then pcrBytes (a.opcr.getD default) else [])
    ++ ((if a.hasSplicingCountdown = true then [lowBits a.spliceCountdown 8] else [])
    ++ ((if a.hasTransportPrivateData = true then
          [lowBits a.transportPrivateData.length 8] ++ a.transportPrivateData
        else [])
    ++ (if a.hasAdaptationExtensionField = true then afExtBytes (a.adaptationExtensionField.getD defaultExt) else []))))))

def afStuffing (a : PacketAdaptationField) : Bytes :=
  if a.isOneByteStuffing = true then [] else List.replicate a.stuffingLength.toNat 0xff

theorem afBytes_split (a : PacketAdaptationField) : afBytes a = afCore a ++ afStuffing a := by
  unfold afBytes afCore afStuffing
  split
  · rfl
  · rw [afFlag_bytes]; simp only [List.append_assoc]

theorem afExtBytes_length (e : PacketAdaptationExtensionField) : (afExtBytes e).length = 1 + afExtSize e := by
  unfold afExtBytes afExtSize
  rw [extFlag_bytes]
  cases e.hasLegalTimeWindow <;> cases e.hasPiecewiseRate <;> cases e.hasSeamlessSplice <;>
    simp [packFields, fieldsWidth, beBytes, ptsBytes, ptsOrDTSByteLength]

theorem af_core_at (pre : Bytes) (a : PacketAdaptationField) (h1 : a.isOneByteStuffing = false) (h : AFWF a)
    (hlt : afSize a < 256) : ParsesAt pre parsePacketAdaptationField (afCore a) (normAF a) := by
  have hsz : 1 ≤ afSize a := by
    unfold afSize
    have := afExtSize_bounds (a.adaptationExtensionField.getD defaultExt)
    omega
  have hlen : (calcAFLength a : Int) = afSize a := by unfold calcAFLength; omega
  have hpos : calcAFLength a > 0 := by omega
  unfold parsePacketAdaptationField afCore
  rw [if_neg (show ¬ a.isOneByteStuffing = true by simp [h1])]
  refine ParsesAt.bind (nextByte_at _ _) ?_
  refine ParsesAt.bind_nil (offset_at _) ?_
  rw [if_pos hpos]
  refine ParsesAt.bind (nextByte_at _ _) ?_
  obtain ⟨d1, d2, d3, d4, d5, d6, d7, d8⟩ := afFlag_decode a
  simp only [d1, d2, d3, d4, d5, d6, d7, d8]
  refine ParsesAt.bind (opt_at _ _ _ _ _ a.pcr ?_) ?_
  · intro hc; exact pcr_at _ _ (h.pcr hc)
  refine ParsesAt.bind (opt_at _ _ _ _ _ a.opcr ?_) ?_
  · intro hc; exact pcr_at _ _ (h.opcr hc)
  refine ParsesAt.bind (opt_at _ _ _ _ _ a.spliceCountdown ?_) ?_
  · intro hc
    obtain ⟨s0, s1⟩ := h.splice hc
    have e : lowBits a.spliceCountdown 8 = a.spliceCountdown.toNat := by
      have := lowBits_nat a.spliceCountdown.toNat 8
      rw [Int.toNat_of_nonneg s0] at this
      rw [this]; simp only [Nat.reducePow]; omega
    rw [e]
    refine ParsesAt.congr_val (ParsesAt.bind_last (nextByte_at _ _) (ParsesAt.pure _ _)) ?_
    exact Int.toNat_of_nonneg s0
  refine ParsesAt.bind (opt_at _ _ _ _ _ (a.transportPrivateDataLength, a.transportPrivateData) ?_) ?_
  · intro hc
    obtain ⟨p0, p1⟩ := h.priv hc
    have e : lowBits a.transportPrivateData.length 8 = a.transportPrivateData.length := by
      rw [lowBits_nat]; simp only [Nat.reducePow]; omega
    rw [e]
    refine ParsesAt.congr_val (priv_at _ _ p1) ?_
    rw [p0]
  refine ParsesAt.bind_last (opt_at _ _ _ _ _ (a.adaptationExtensionField.map normExt) ?_) ?_
  · intro hc
    have := h.ext hc
    cases hx : a.adaptationExtensionField with
    | none => rw [hx] at this; exact this.elim
    | some e =>
      rw [hx] at this
      simp only [Option.getD_some, Option.map_some]
      exact ParsesAt.bind_last (afext_at _ _ this) (ParsesAt.pure _ _)
  refine ParsesAt.bind_nil (offset_at _) ?_
  refine ParsesAt.congr_val (ParsesAt.pure _ _) ?_
  unfold normAF
  rw [if_neg (show ¬ a.isOneByteStuffing = true by simp [h1])]
  have l1 : ((if a.hasPCR = true then pcrBytes (a.pcr.getD default) else []).length : Int) = if a.hasPCR = true then 6 else 0 := by
    split <;> simp [pcrBytes, packFields, fieldsWidth, beBytes]
  have l2 : ((if a.hasOPCR = true then pcrBytes (a.opcr.getD default) else []).length : Int) = if a.hasOPCR = true then 6 else 0 := by
    split <;> simp [pcrBytes, packFields, fieldsWidth, beBytes]
  have l3 : ((if a.hasSplicingCountdown = true then [lowBits a.spliceCountdown 8] else []).length : Int) = if a.hasSplicingCountdown = true then 1 else 0 := by
    split <;> simp
  have l4 : ((if a.hasTransportPrivateData = true then
                      [lowBits a.transportPrivateData.length 8] ++ a.transportPrivateData
                    else []).length : Int) = if a.hasTransportPrivateData = true then 1 + (a.transportPrivateData.length : Int) else 0 := by
    split
    · simp; omega
    · simp
  have l5 : ((if a.hasAdaptationExtensionField = true then afExtBytes (a.adaptationExtensionField.getD defaultExt)
                  else []).length : Int) = if a.hasAdaptationExtensionField = true then 1 + (afExtSize (a.adaptationExtensionField.getD defaultExt) : Int) else 0 := by
    split
    · rw [afExtBytes_length]; omega
    · simp
  simp only [PacketAdaptationField.mk.injEq, List.length_append, Int.natCast_add, l1, l2, l3, l4, l5, List.length_cons, List.length_nil]
  have hstuff : afSize a - (if a.stuffingLength > 0 then a.stuffingLength else 0) =
      1 + (if a.hasPCR = true then 6 else 0) + (if a.hasOPCR = true then 6 else 0) + (if a.hasSplicingCountdown = true then 1 else 0)
    + (if a.hasTransportPrivateData = true then 1 + (a.transportPrivateData.length : Int) else 0)
    + (if a.hasAdaptationExtensionField = true then 1 + (afExtSize (a.adaptationExtensionField.getD defaultExt) : Int) else 0) := by
    unfold afSize; omega
  refine ⟨?_, ?_, ?_, ?_, ?_, ?_, ?_, ?_, ?_, ?_, ?_, ?_, ?_, ?_, ?_, ?_, ?_⟩
  all_goals first | trivial | exact Bool.decide_eq_true | exact hlen | (split <;> rfl) | skip
  rw [hlen]
  simp only [Int.natCast_zero, Int.natCast_one, Int.zero_add]
  omega


theorem af_one_at (pre : Bytes) (a : PacketAdaptationField) (h1 : a.isOneByteStuffing = true) :
    ParsesAt pre parsePacketAdaptationField (afCore a) (normAF a) := by
  unfold parsePacketAdaptationField afCore normAF
  rw [if_pos h1, if_pos h1]
  refine ParsesAt.bind_last (nextByte_at _ _) ?_
  refine ParsesAt.bind_nil (offset_at _) ?_
  rw [if_neg (by decide)]
  refine ParsesAt.bind_nil (offset_at _) ?_
  refine ParsesAt.congr_val (ParsesAt.pure _ _) ?_
  simp

/-- adaptation field, both forms -/
theorem af_at (pre : Bytes) (a : PacketAdaptationField) (h : a.isOneByteStuffing = false → AFWF a ∧ afSize a < 256) :
    ParsesAt pre parsePacketAdaptationField (afCore a) (normAF a) := by
  cases h1 : a.isOneByteStuffing
  · exact af_core_at pre a h1 (h h1).1 (h h1).2
  · exact af_one_at pre a h1

/-- bytes written for the adaptation field = 1 + adaptation_field_length, for EVERY adaptation field that is not the
one-byte form (the writer derives the private-data length byte from the data, so no agreement hypothesis is needed) -/
theorem afCore_stuffing_length (a : PacketAdaptationField) (h1 : a.isOneByteStuffing = false) :
    ((afCore a).length : Int) + (afStuffing a).length = 1 + afSize a := by
  unfold afCore afStuffing
  rw [if_neg (show ¬ a.isOneByteStuffing = true by simp [h1]), if_neg (show ¬ a.isOneByteStuffing = true by simp [h1])]
  have l1 : ((if a.hasPCR = true then pcrBytes (a.pcr.getD default) else []).length : Int) = if a.hasPCR = true then 6 else 0 := by
    split <;> simp [pcrBytes, packFields, fieldsWidth, beBytes]
  have l2 : ((if a.hasOPCR = true then pcrBytes (a.opcr.getD default) else []).length : Int) = if a.hasOPCR = true then 6 else 0 := by
    split <;> simp [pcrBytes, packFields, fieldsWidth, beBytes]
  have l3 : ((if a.hasSplicingCountdown = true then [lowBits a.spliceCountdown 8] else []).length : Int) = if a.hasSplicingCountdown = true then 1 else 0 := by
    split <;> simp
  have l4 : ((if a.hasTransportPrivateData = true then
                      [lowBits a.transportPrivateData.length 8] ++ a.transportPrivateData
                    else []).length : Int) = if a.hasTransportPrivateData = true then 1 + (a.transportPrivateData.length : Int) else 0 := by
    split
    · simp; omega
    · simp
  have l5 : ((if a.hasAdaptationExtensionField = true then afExtBytes (a.adaptationExtensionField.getD defaultExt)
                  else []).length : Int) = if a.hasAdaptationExtensionField = true then 1 + (afExtSize (a.adaptationExtensionField.getD defaultExt) : Int) else 0 := by
    split
    · rw [afExtBytes_length]; omega
    · simp
  simp only [List.length_append, Int.natCast_add, l1, l2, l3, l4, l5, List.length_cons, List.length_nil, List.length_replicate]
  unfold afSize
  omega

/-- the earlier form, with the (now unnecessary) agreement hypothesis on TransportPrivateDataLength -/
theorem afBytes_length' (a : PacketAdaptationField) (h1 : a.isOneByteStuffing = false)
    (_hp : a.hasTransportPrivateData = true → a.transportPrivateDataLength = a.transportPrivateData.length) :
    ((afCore a).length : Int) + (afStuffing a).length = 1 + afSize a :=
  afCore_stuffing_length a h1

/-- `afBytes` of any adaptation field that is not the one-byte form has exactly `1 + afSize` bytes -/
theorem afBytes_length_exact (a : PacketAdaptationField) (h1 : a.isOneByteStuffing = false) :
    ((afBytes a).length : Int) = 1 + afSize a := by
  rw [afBytes_split, List.length_append, Int.natCast_add]
  exact afCore_stuffing_length a h1

end Astits.PacketRT
