/-
C14, input side — two unary facts about the descriptor body parsers.

`Fwd p`   : a successful run keeps the bytes, never moves the offset backwards, and stays inside the data when it
            started inside (every body parser: they only use `NextByte` / `NextBytes`).
`Reach e p`: a successful run ends at or behind `e` — the body parsers that are handed the descriptor end
            `offsetDescriptorEnd` and read "the rest" (`restTo`, `restIfAny`, `for i.Offset() < offsetEnd`).
-/
import Astits.Model.Desc
import Astits.Proofs.PSIVerdict
namespace Astits.DescFraming
open Astits.PSIVerdict

/-! ## `Fwd` -/

def Fwd {α} (p : P α) : Prop :=
  ∀ i a j, p i = .ok (a, j) → j.bs = i.bs ∧ i.off ≤ j.off ∧ (i.off ≤ i.bs.length → j.off ≤ i.bs.length)

theorem Fwd.bind {α β} {p : P α} {f : α → P β} (hp : Fwd p) (hf : ∀ a, Fwd (f a)) : Fwd (p >>= f) := by
  intro i b j h
  obtain ⟨a, i1, h1, h2⟩ := bind_inv h
  obtain ⟨e1, m1, w1⟩ := hp i a i1 h1
  obtain ⟨e2, m2, w2⟩ := hf a i1 b j h2
  rw [e1] at e2 w2
  exact ⟨e2, by omega, fun hw => w2 (w1 hw)⟩

theorem Fwd.pure {α} (a : α) : Fwd (pure a : P α) := by
  intro i b j h
  simp only [P.pure_run, Res.ok.injEq, Prod.mk.injEq] at h
  obtain ⟨_, rfl⟩ := h
  exact ⟨rfl, Int.le_refl _, fun h => h⟩

theorem Fwd.fail {α} (e : Err) : Fwd (P.fail e : P α) := by
  intro i b j h; cases h

theorem Fwd.panic {α} : Fwd (P.panic : P α) := by
  intro i b j h; cases h

theorem Fwd.ite {α} {c : Prop} [Decidable c] {p q : P α} (hp : Fwd p) (hq : Fwd q) : Fwd (if c then p else q) := by
  split
  · exact hp
  · exact hq

theorem Fwd_nextByte : Fwd It.nextByte := by
  intro i b j h
  obtain ⟨_, h2, _, rfl⟩ := nextByte_inv h
  exact ⟨rfl, by simp only; omega, fun _ => h2⟩

theorem Fwd_nextBytes (n : Int) : Fwd (It.nextBytes n) := by
  intro i b j h
  obtain ⟨h1, _, h2, _, rfl⟩ := nextBytes_inv h
  exact ⟨rfl, by simp only; omega, fun _ => h2⟩

theorem Fwd_offset : Fwd It.offset := by
  intro i b j h
  simp only [It.offset, Res.ok.injEq, Prod.mk.injEq] at h
  obtain ⟨_, rfl⟩ := h
  exact ⟨rfl, Int.le_refl _, fun h => h⟩

theorem Fwd_loopFuel : Fwd loopFuel := by
  intro i b j h
  simp only [loopFuel, Res.ok.injEq, Prod.mk.injEq] at h
  obtain ⟨_, rfl⟩ := h
  exact ⟨rfl, Int.le_refl _, fun h => h⟩

syntax "fwd_leaf" : tactic
macro_rules | `(tactic| fwd_leaf) => `(tactic| exact Fwd_nextByte)
macro_rules | `(tactic| fwd_leaf) => `(tactic| exact Fwd_nextBytes _)
macro_rules | `(tactic| fwd_leaf) => `(tactic| exact Fwd_offset)
macro_rules | `(tactic| fwd_leaf) => `(tactic| exact Fwd_loopFuel)
macro_rules | `(tactic| fwd_leaf) => `(tactic| exact Fwd.fail _)
macro_rules | `(tactic| fwd_leaf) => `(tactic| exact Fwd.panic)
macro_rules | `(tactic| fwd_leaf) => `(tactic| exact Fwd.pure _)
macro_rules | `(tactic| fwd_leaf) => `(tactic| assumption)

syntax "fwd_step" : tactic
macro_rules | `(tactic| fwd_step) => `(tactic| first
  | (with_reducible fwd_leaf)
  | (with_reducible refine Fwd.bind ?_ (fun _ => ?_))
  | (with_reducible refine Fwd.ite ?_ ?_)
  | (dsimp only)
  | (split))

macro "fwd_auto" : tactic => `(tactic| repeat' fwd_step)

theorem Fwd_parseDVBDurationSeconds  : Fwd (parseDVBDurationSeconds ) := by unfold parseDVBDurationSeconds; fwd_auto
macro_rules | `(tactic| fwd_leaf) => `(tactic| exact Fwd_parseDVBDurationSeconds )
theorem Fwd_parseDVBDurationMinutes  : Fwd (parseDVBDurationMinutes ) := by unfold parseDVBDurationMinutes; fwd_auto
macro_rules | `(tactic| fwd_leaf) => `(tactic| exact Fwd_parseDVBDurationMinutes )
theorem Fwd_parseDVBTime  : Fwd (parseDVBTime ) := by unfold parseDVBTime; fwd_auto
macro_rules | `(tactic| fwd_leaf) => `(tactic| exact Fwd_parseDVBTime )
theorem Fwd_restIfAny (e : Int) : Fwd (restIfAny e) := by unfold restIfAny; fwd_auto
macro_rules | `(tactic| fwd_leaf) => `(tactic| exact Fwd_restIfAny _)
theorem Fwd_restTo (e : Int) : Fwd (restTo e) := by unfold restTo; fwd_auto
macro_rules | `(tactic| fwd_leaf) => `(tactic| exact Fwd_restTo _)
theorem Fwd_byteIf (c : Bool) : Fwd (byteIf c) := by unfold byteIf; fwd_auto
macro_rules | `(tactic| fwd_leaf) => `(tactic| exact Fwd_byteIf _)
theorem Fwd_newDescriptorAVCVideo  : Fwd (newDescriptorAVCVideo ) := by unfold newDescriptorAVCVideo; fwd_auto
macro_rules | `(tactic| fwd_leaf) => `(tactic| exact Fwd_newDescriptorAVCVideo )
theorem Fwd_newDescriptorDataStreamAlignment  : Fwd (newDescriptorDataStreamAlignment ) := by unfold newDescriptorDataStreamAlignment; fwd_auto
macro_rules | `(tactic| fwd_leaf) => `(tactic| exact Fwd_newDescriptorDataStreamAlignment )
theorem Fwd_newDescriptorExtendedEventItem  : Fwd (newDescriptorExtendedEventItem ) := by unfold newDescriptorExtendedEventItem; fwd_auto
macro_rules | `(tactic| fwd_leaf) => `(tactic| exact Fwd_newDescriptorExtendedEventItem )
theorem Fwd_newDescriptorMaximumBitrate  : Fwd (newDescriptorMaximumBitrate ) := by unfold newDescriptorMaximumBitrate; fwd_auto
macro_rules | `(tactic| fwd_leaf) => `(tactic| exact Fwd_newDescriptorMaximumBitrate )
theorem Fwd_newDescriptorPrivateDataIndicator  : Fwd (newDescriptorPrivateDataIndicator ) := by unfold newDescriptorPrivateDataIndicator; fwd_auto
macro_rules | `(tactic| fwd_leaf) => `(tactic| exact Fwd_newDescriptorPrivateDataIndicator )
theorem Fwd_newDescriptorPrivateDataSpecifier  : Fwd (newDescriptorPrivateDataSpecifier ) := by unfold newDescriptorPrivateDataSpecifier; fwd_auto
macro_rules | `(tactic| fwd_leaf) => `(tactic| exact Fwd_newDescriptorPrivateDataSpecifier )
theorem Fwd_newDescriptorService  : Fwd (newDescriptorService ) := by unfold newDescriptorService; fwd_auto
macro_rules | `(tactic| fwd_leaf) => `(tactic| exact Fwd_newDescriptorService )
theorem Fwd_newDescriptorShortEvent  : Fwd (newDescriptorShortEvent ) := by unfold newDescriptorShortEvent; fwd_auto
macro_rules | `(tactic| fwd_leaf) => `(tactic| exact Fwd_newDescriptorShortEvent )
theorem Fwd_newDescriptorStreamIdentifier  : Fwd (newDescriptorStreamIdentifier ) := by unfold newDescriptorStreamIdentifier; fwd_auto
macro_rules | `(tactic| fwd_leaf) => `(tactic| exact Fwd_newDescriptorStreamIdentifier )
theorem Fwd_newDescriptorAC3 (e : Int) : Fwd (newDescriptorAC3 e) := by unfold newDescriptorAC3; fwd_auto
macro_rules | `(tactic| fwd_leaf) => `(tactic| exact Fwd_newDescriptorAC3 _)
theorem Fwd_newDescriptorComponent (e : Int) : Fwd (newDescriptorComponent e) := by unfold newDescriptorComponent; fwd_auto
macro_rules | `(tactic| fwd_leaf) => `(tactic| exact Fwd_newDescriptorComponent _)
theorem Fwd_newDescriptorEnhancedAC3 (e : Int) : Fwd (newDescriptorEnhancedAC3 e) := by unfold newDescriptorEnhancedAC3; fwd_auto
macro_rules | `(tactic| fwd_leaf) => `(tactic| exact Fwd_newDescriptorEnhancedAC3 _)
theorem Fwd_newDescriptorExtensionSupplementaryAudio (e : Int) : Fwd (newDescriptorExtensionSupplementaryAudio e) := by unfold newDescriptorExtensionSupplementaryAudio; fwd_auto
macro_rules | `(tactic| fwd_leaf) => `(tactic| exact Fwd_newDescriptorExtensionSupplementaryAudio _)
theorem Fwd_newDescriptorRegistration (e : Int) : Fwd (newDescriptorRegistration e) := by unfold newDescriptorRegistration; fwd_auto
macro_rules | `(tactic| fwd_leaf) => `(tactic| exact Fwd_newDescriptorRegistration _)
theorem Fwd_newDescriptorContentLoop (e : Int) (fuel : Nat) : Fwd (newDescriptorContentLoop e fuel) := by
  induction fuel with
  | zero => unfold newDescriptorContentLoop; exact Fwd.fail _
  | succ n ih => unfold newDescriptorContentLoop; fwd_auto
macro_rules | `(tactic| fwd_leaf) => `(tactic| exact Fwd_newDescriptorContentLoop _ _)
theorem Fwd_newDescriptorExtendedEventLoop (e : Int) (fuel : Nat) : Fwd (newDescriptorExtendedEventLoop e fuel) := by
  induction fuel with
  | zero => unfold newDescriptorExtendedEventLoop; exact Fwd.fail _
  | succ n ih => unfold newDescriptorExtendedEventLoop; fwd_auto
macro_rules | `(tactic| fwd_leaf) => `(tactic| exact Fwd_newDescriptorExtendedEventLoop _ _)
theorem Fwd_newDescriptorLocalTimeOffsetLoop (e : Int) (fuel : Nat) : Fwd (newDescriptorLocalTimeOffsetLoop e fuel) := by
  induction fuel with
  | zero => unfold newDescriptorLocalTimeOffsetLoop; exact Fwd.fail _
  | succ n ih => unfold newDescriptorLocalTimeOffsetLoop; fwd_auto
macro_rules | `(tactic| fwd_leaf) => `(tactic| exact Fwd_newDescriptorLocalTimeOffsetLoop _ _)
theorem Fwd_newDescriptorParentalRatingLoop (e : Int) (fuel : Nat) : Fwd (newDescriptorParentalRatingLoop e fuel) := by
  induction fuel with
  | zero => unfold newDescriptorParentalRatingLoop; exact Fwd.fail _
  | succ n ih => unfold newDescriptorParentalRatingLoop; fwd_auto
macro_rules | `(tactic| fwd_leaf) => `(tactic| exact Fwd_newDescriptorParentalRatingLoop _ _)
theorem Fwd_newDescriptorSubtitlingLoop (e : Int) (fuel : Nat) : Fwd (newDescriptorSubtitlingLoop e fuel) := by
  induction fuel with
  | zero => unfold newDescriptorSubtitlingLoop; exact Fwd.fail _
  | succ n ih => unfold newDescriptorSubtitlingLoop; fwd_auto
macro_rules | `(tactic| fwd_leaf) => `(tactic| exact Fwd_newDescriptorSubtitlingLoop _ _)
theorem Fwd_newDescriptorTeletextLoop (e : Int) (fuel : Nat) : Fwd (newDescriptorTeletextLoop e fuel) := by
  induction fuel with
  | zero => unfold newDescriptorTeletextLoop; exact Fwd.fail _
  | succ n ih => unfold newDescriptorTeletextLoop; fwd_auto
macro_rules | `(tactic| fwd_leaf) => `(tactic| exact Fwd_newDescriptorTeletextLoop _ _)
theorem Fwd_newDescriptorVBIDataDescLoop (id : Nat) (e : Int) (fuel : Nat) : Fwd (newDescriptorVBIDataDescLoop id e fuel) := by
  induction fuel with
  | zero => unfold newDescriptorVBIDataDescLoop; exact Fwd.fail _
  | succ n ih => unfold newDescriptorVBIDataDescLoop; fwd_auto
macro_rules | `(tactic| fwd_leaf) => `(tactic| exact Fwd_newDescriptorVBIDataDescLoop _ _ _)
theorem Fwd_newDescriptorVBIDataLoop (e : Int) (fuel : Nat) : Fwd (newDescriptorVBIDataLoop e fuel) := by
  induction fuel with
  | zero => unfold newDescriptorVBIDataLoop; exact Fwd.fail _
  | succ n ih => unfold newDescriptorVBIDataLoop; fwd_auto
macro_rules | `(tactic| fwd_leaf) => `(tactic| exact Fwd_newDescriptorVBIDataLoop _ _)
theorem Fwd_newDescriptorContent (e : Int) : Fwd (newDescriptorContent e) := by unfold newDescriptorContent; fwd_auto
macro_rules | `(tactic| fwd_leaf) => `(tactic| exact Fwd_newDescriptorContent _)
theorem Fwd_newDescriptorLocalTimeOffset (e : Int) : Fwd (newDescriptorLocalTimeOffset e) := by unfold newDescriptorLocalTimeOffset; fwd_auto
macro_rules | `(tactic| fwd_leaf) => `(tactic| exact Fwd_newDescriptorLocalTimeOffset _)
theorem Fwd_newDescriptorParentalRating (e : Int) : Fwd (newDescriptorParentalRating e) := by unfold newDescriptorParentalRating; fwd_auto
macro_rules | `(tactic| fwd_leaf) => `(tactic| exact Fwd_newDescriptorParentalRating _)
theorem Fwd_newDescriptorSubtitling (e : Int) : Fwd (newDescriptorSubtitling e) := by unfold newDescriptorSubtitling; fwd_auto
macro_rules | `(tactic| fwd_leaf) => `(tactic| exact Fwd_newDescriptorSubtitling _)
theorem Fwd_newDescriptorTeletext (e : Int) : Fwd (newDescriptorTeletext e) := by unfold newDescriptorTeletext; fwd_auto
macro_rules | `(tactic| fwd_leaf) => `(tactic| exact Fwd_newDescriptorTeletext _)
theorem Fwd_newDescriptorVBIData (e : Int) : Fwd (newDescriptorVBIData e) := by unfold newDescriptorVBIData; fwd_auto
macro_rules | `(tactic| fwd_leaf) => `(tactic| exact Fwd_newDescriptorVBIData _)
theorem Fwd_newDescriptorExtendedEvent  : Fwd (newDescriptorExtendedEvent ) := by unfold newDescriptorExtendedEvent; fwd_auto
macro_rules | `(tactic| fwd_leaf) => `(tactic| exact Fwd_newDescriptorExtendedEvent )
theorem Fwd_newDescriptorUnknown (tag : Nat) (length : Nat) : Fwd (newDescriptorUnknown tag length) := by unfold newDescriptorUnknown; fwd_auto
macro_rules | `(tactic| fwd_leaf) => `(tactic| exact Fwd_newDescriptorUnknown _ _)
theorem Fwd_newDescriptorNetworkName (e : Int) : Fwd (newDescriptorNetworkName e) := by unfold newDescriptorNetworkName; fwd_auto
macro_rules | `(tactic| fwd_leaf) => `(tactic| exact Fwd_newDescriptorNetworkName _)
theorem Fwd_newDescriptorISO639LanguageAndAudioType (e : Int) : Fwd (newDescriptorISO639LanguageAndAudioType e) := by unfold newDescriptorISO639LanguageAndAudioType; fwd_auto
macro_rules | `(tactic| fwd_leaf) => `(tactic| exact Fwd_newDescriptorISO639LanguageAndAudioType _)
theorem Fwd_newDescriptorExtension (e : Int) : Fwd (newDescriptorExtension e) := by unfold newDescriptorExtension; fwd_auto
macro_rules | `(tactic| fwd_leaf) => `(tactic| exact Fwd_newDescriptorExtension _)
theorem Fwd_parseDescriptorSwitch (d : Descriptor) (e : Int) : Fwd (parseDescriptorSwitch d e) := by unfold parseDescriptorSwitch; fwd_auto
macro_rules | `(tactic| fwd_leaf) => `(tactic| exact Fwd_parseDescriptorSwitch _ _)

/-! ## `Reach` -/

/-- a successful run ends at or behind `e` -/
def Reach {α} (e : Int) (p : P α) : Prop := ∀ i a j, p i = .ok (a, j) → e ≤ j.off

/-- whatever `p` did, the continuation reaches `e` -/
theorem Reach.bind_right {α β} {e : Int} {p : P α} {f : α → P β} (hf : ∀ a, Reach e (f a)) : Reach e (p >>= f) := by
  intro i b j h
  obtain ⟨a, i1, _, h2⟩ := bind_inv h
  exact hf a i1 b j h2

/-- `p` reaches `e` and the continuation does not move backwards -/
theorem Reach.bind_left {α β} {e : Int} {p : P α} {f : α → P β} (hp : Reach e p) (hf : ∀ a, Fwd (f a)) :
    Reach e (p >>= f) := by
  intro i b j h
  obtain ⟨a, i1, h1, h2⟩ := bind_inv h
  have := hp i a i1 h1
  have := (hf a i1 b j h2).2.1
  omega

theorem Reach.ite {α} {e : Int} {c : Prop} [Decidable c] {p q : P α} (hp : Reach e p) (hq : Reach e q) :
    Reach e (if c then p else q) := by
  split
  · exact hp
  · exact hq

/-- `for i.Offset() < e { … }`: the loop is left only at or behind `e` -/
theorem Reach.loop_step {α} {e : Int} {p : P α} {v : α} (hp : Reach e p) :
    Reach e (It.offset >>= fun off => if off < e then p else pure v) := by
  intro i b j h
  obtain ⟨o, i1, h1, h2⟩ := bind_inv h
  simp only [It.offset, Res.ok.injEq, Prod.mk.injEq] at h1
  obtain ⟨rfl, rfl⟩ := h1
  split at h2
  · exact hp _ _ _ h2
  · simp only [P.pure_run, Res.ok.injEq, Prod.mk.injEq] at h2
    obtain ⟨_, rfl⟩ := h2
    omega

theorem Reach_restIfAny (e : Int) : Reach e (restIfAny e) := by
  intro i b j h
  unfold restIfAny at h
  obtain ⟨o, i1, h1, h2⟩ := bind_inv h
  simp only [It.offset, Res.ok.injEq, Prod.mk.injEq] at h1
  obtain ⟨rfl, rfl⟩ := h1
  split at h2
  · obtain ⟨_, _, _, _, rfl⟩ := nextBytes_inv h2
    simp only; omega
  · simp only [P.pure_run, Res.ok.injEq, Prod.mk.injEq] at h2
    obtain ⟨_, rfl⟩ := h2
    omega

theorem Reach_restTo (e : Int) : Reach e (restTo e) := by
  intro i b j h
  unfold restTo at h
  obtain ⟨o, i1, h1, h2⟩ := bind_inv h
  simp only [It.offset, Res.ok.injEq, Prod.mk.injEq] at h1
  obtain ⟨rfl, rfl⟩ := h1
  obtain ⟨_, _, _, _, rfl⟩ := nextBytes_inv h2
  simp only; omega

syntax "reach_leaf" : tactic
macro_rules | `(tactic| reach_leaf) => `(tactic| exact Reach_restIfAny _)
macro_rules | `(tactic| reach_leaf) => `(tactic| exact Reach_restTo _)
macro_rules | `(tactic| reach_leaf) => `(tactic| assumption)

syntax "reach_step" : tactic
macro_rules | `(tactic| reach_step) => `(tactic| first
  | (with_reducible reach_leaf)
  | (with_reducible refine Reach.loop_step ?_)
  | (with_reducible refine Reach.bind_left (by with_reducible reach_leaf) (fun _ => by fwd_auto))
  | (with_reducible refine Reach.bind_right (fun _ => ?_))
  | (with_reducible refine Reach.ite ?_ ?_)
  | (dsimp only))

macro "reach_auto" : tactic => `(tactic| repeat' reach_step)

theorem Reach_newDescriptorAC3 (e : Int) : Reach e (newDescriptorAC3 e) := by unfold newDescriptorAC3; reach_auto
macro_rules | `(tactic| reach_leaf) => `(tactic| exact Reach_newDescriptorAC3 _)
theorem Reach_newDescriptorComponent (e : Int) : Reach e (newDescriptorComponent e) := by unfold newDescriptorComponent; reach_auto
macro_rules | `(tactic| reach_leaf) => `(tactic| exact Reach_newDescriptorComponent _)
theorem Reach_newDescriptorEnhancedAC3 (e : Int) : Reach e (newDescriptorEnhancedAC3 e) := by unfold newDescriptorEnhancedAC3; reach_auto
macro_rules | `(tactic| reach_leaf) => `(tactic| exact Reach_newDescriptorEnhancedAC3 _)
theorem Reach_newDescriptorExtensionSupplementaryAudio (e : Int) : Reach e (newDescriptorExtensionSupplementaryAudio e) := by unfold newDescriptorExtensionSupplementaryAudio; reach_auto
macro_rules | `(tactic| reach_leaf) => `(tactic| exact Reach_newDescriptorExtensionSupplementaryAudio _)
theorem Reach_newDescriptorRegistration (e : Int) : Reach e (newDescriptorRegistration e) := by unfold newDescriptorRegistration; reach_auto
macro_rules | `(tactic| reach_leaf) => `(tactic| exact Reach_newDescriptorRegistration _)
theorem Reach_newDescriptorContentLoop (e : Int) (fuel : Nat) : Reach e (newDescriptorContentLoop e fuel) := by
  induction fuel with
  | zero => unfold newDescriptorContentLoop; intro i a j h; cases h
  | succ n ih => unfold newDescriptorContentLoop; reach_auto
macro_rules | `(tactic| reach_leaf) => `(tactic| exact Reach_newDescriptorContentLoop _ _)
theorem Reach_newDescriptorContent (e : Int) : Reach e (newDescriptorContent e) := by unfold newDescriptorContent; reach_auto
macro_rules | `(tactic| reach_leaf) => `(tactic| exact Reach_newDescriptorContent _)
theorem Reach_newDescriptorLocalTimeOffsetLoop (e : Int) (fuel : Nat) : Reach e (newDescriptorLocalTimeOffsetLoop e fuel) := by
  induction fuel with
  | zero => unfold newDescriptorLocalTimeOffsetLoop; intro i a j h; cases h
  | succ n ih => unfold newDescriptorLocalTimeOffsetLoop; reach_auto
macro_rules | `(tactic| reach_leaf) => `(tactic| exact Reach_newDescriptorLocalTimeOffsetLoop _ _)
theorem Reach_newDescriptorLocalTimeOffset (e : Int) : Reach e (newDescriptorLocalTimeOffset e) := by unfold newDescriptorLocalTimeOffset; reach_auto
macro_rules | `(tactic| reach_leaf) => `(tactic| exact Reach_newDescriptorLocalTimeOffset _)
theorem Reach_newDescriptorParentalRatingLoop (e : Int) (fuel : Nat) : Reach e (newDescriptorParentalRatingLoop e fuel) := by
  induction fuel with
  | zero => unfold newDescriptorParentalRatingLoop; intro i a j h; cases h
  | succ n ih => unfold newDescriptorParentalRatingLoop; reach_auto
macro_rules | `(tactic| reach_leaf) => `(tactic| exact Reach_newDescriptorParentalRatingLoop _ _)
theorem Reach_newDescriptorParentalRating (e : Int) : Reach e (newDescriptorParentalRating e) := by unfold newDescriptorParentalRating; reach_auto
macro_rules | `(tactic| reach_leaf) => `(tactic| exact Reach_newDescriptorParentalRating _)
theorem Reach_newDescriptorSubtitlingLoop (e : Int) (fuel : Nat) : Reach e (newDescriptorSubtitlingLoop e fuel) := by
  induction fuel with
  | zero => unfold newDescriptorSubtitlingLoop; intro i a j h; cases h
  | succ n ih => unfold newDescriptorSubtitlingLoop; reach_auto
macro_rules | `(tactic| reach_leaf) => `(tactic| exact Reach_newDescriptorSubtitlingLoop _ _)
theorem Reach_newDescriptorSubtitling (e : Int) : Reach e (newDescriptorSubtitling e) := by unfold newDescriptorSubtitling; reach_auto
macro_rules | `(tactic| reach_leaf) => `(tactic| exact Reach_newDescriptorSubtitling _)
theorem Reach_newDescriptorTeletextLoop (e : Int) (fuel : Nat) : Reach e (newDescriptorTeletextLoop e fuel) := by
  induction fuel with
  | zero => unfold newDescriptorTeletextLoop; intro i a j h; cases h
  | succ n ih => unfold newDescriptorTeletextLoop; reach_auto
macro_rules | `(tactic| reach_leaf) => `(tactic| exact Reach_newDescriptorTeletextLoop _ _)
theorem Reach_newDescriptorTeletext (e : Int) : Reach e (newDescriptorTeletext e) := by unfold newDescriptorTeletext; reach_auto
macro_rules | `(tactic| reach_leaf) => `(tactic| exact Reach_newDescriptorTeletext _)
theorem Reach_newDescriptorVBIDataLoop (e : Int) (fuel : Nat) : Reach e (newDescriptorVBIDataLoop e fuel) := by
  induction fuel with
  | zero => unfold newDescriptorVBIDataLoop; intro i a j h; cases h
  | succ n ih => unfold newDescriptorVBIDataLoop; reach_auto
macro_rules | `(tactic| reach_leaf) => `(tactic| exact Reach_newDescriptorVBIDataLoop _ _)
theorem Reach_newDescriptorVBIData (e : Int) : Reach e (newDescriptorVBIData e) := by unfold newDescriptorVBIData; reach_auto
macro_rules | `(tactic| reach_leaf) => `(tactic| exact Reach_newDescriptorVBIData _)
theorem Reach_newDescriptorNetworkName (e : Int) : Reach e (newDescriptorNetworkName e) := by unfold newDescriptorNetworkName; reach_auto
macro_rules | `(tactic| reach_leaf) => `(tactic| exact Reach_newDescriptorNetworkName _)
theorem Reach_newDescriptorISO639LanguageAndAudioType (e : Int) : Reach e (newDescriptorISO639LanguageAndAudioType e) := by unfold newDescriptorISO639LanguageAndAudioType; reach_auto
macro_rules | `(tactic| reach_leaf) => `(tactic| exact Reach_newDescriptorISO639LanguageAndAudioType _)
theorem Reach_newDescriptorExtension (e : Int) : Reach e (newDescriptorExtension e) := by unfold newDescriptorExtension; reach_auto
macro_rules | `(tactic| reach_leaf) => `(tactic| exact Reach_newDescriptorExtension _)

end Astits.DescFraming
