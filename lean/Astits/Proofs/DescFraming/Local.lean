/-
C14, input side — locality of a descriptor: a relational ("two runs") logic for the body parsers.

`Ext b b' more i i'` : the two iterators stand at the same distance behind their bases `b` / `b'`, and the bytes of
the second one from `b'` on are the bytes of the first one from `b` on, followed by `more`.
`ES A p q` : from `Ext`-related states, when `p` succeeds on the first then `q` succeeds on the second with the SAME
value, and the states are related again.  With `more = []` and the roles exchanged this is an equivalence: the value
of a body parser is a function of the bytes from the base on — it cannot depend on anything before the descriptor,
nor on the absolute offset, nor on the total length of the data (the fuel of the loops is `len + 1`).
-/
import Astits.Proofs.DescFraming
namespace Astits.DescFraming
open Astits.PSIVerdict

/-! ## monad facts -/

theorem bind_of_ok {α β} {x : P α} {f : α → P β} {i i1 : It} {a : α} (h : x i = .ok (a, i1)) :
    (x >>= f) i = f a i1 := by
  rw [P.bind_run, h]

theorem P.bind_assoc {α β γ} (x : P α) (f : α → P β) (g : β → P γ) :
    (x >>= f) >>= g = x >>= fun a => f a >>= g := by
  funext i
  rw [P.bind_run, P.bind_run, P.bind_run]
  cases x i with
  | ok r => obtain ⟨a, i1⟩ := r; simp only [P.bind_run]
  | err e => rfl
  | panic => rfl

theorem P.pure_bind {α β} (a : α) (f : α → P β) : (pure a : P α) >>= f = f a := by
  funext i
  rw [P.bind_run]
  rfl

/-! ## the relation -/

structure Ext (b b' : Nat) (more : Bytes) (i i' : It) : Prop where
  off : i'.off - b' = i.off - b
  lo : (b : Int) ≤ i.off
  hi : i.off ≤ i.bs.length
  hb' : b' ≤ i'.bs.length
  bs : i'.bs.drop b' = i.bs.drop b ++ more

namespace Ext
variable {b b' : Nat} {more : Bytes} {i i' : It}

theorem len (h : Ext b b' more i i') : (i'.bs.length : Int) - b' = i.bs.length - b + more.length := by
  have := congrArg List.length h.bs
  simp only [List.length_drop, List.length_append] at this
  have := h.lo; have := h.hi; have := h.hb'
  omega

theorem drop_off (h : Ext b b' more i i') : i'.bs.drop i'.off.toNat = i.bs.drop i.off.toNat ++ more := by
  have h1 := h.lo; have h2 := h.hi; have h3 := h.off
  have e1 : i.off.toNat = b + (i.off - b).toNat := by omega
  have e2 : i'.off.toNat = b' + (i.off - b).toNat := by omega
  rw [e1, e2, ← List.drop_drop, h.bs, List.drop_append_of_le_length, List.drop_drop]
  rw [List.length_drop]
  omega

/-- both offsets move forward by the same amount, staying inside the first data -/
theorem move (h : Ext b b' more i i') (n : Int) (h0 : 0 ≤ n) (hn : i.off + n ≤ i.bs.length) :
    Ext b b' more ⟨i.bs, i.off + n⟩ ⟨i'.bs, i'.off + n⟩ :=
  ⟨by have := h.off; simp only; omega, by have := h.lo; simp only; omega, hn, h.hb', h.bs⟩

end Ext

/-- see the header comment; `A` is an extra precondition on the second state (used for the loop fuel only) -/
def ES {α} (b b' : Nat) (more : Bytes) (A : It → Prop) (p q : P α) : Prop :=
  ∀ i i' a j, Ext b b' more i i' → A i' → p i = .ok (a, j) → ∃ j', q i' = .ok (a, j') ∧ Ext b b' more j j'

/-- no extra precondition -/
abbrev T : It → Prop := fun _ => True

section rules
variable {b b' : Nat} {more : Bytes}

theorem ES.weaken {α} {A : It → Prop} {p q : P α} (h : ES b b' more T p q) : ES b b' more A p q :=
  fun i i' a j hE _ hp => h i i' a j hE trivial hp

theorem ES.bind {α β} {A : It → Prop} {p q : P α} {f g : α → P β} (hp : ES b b' more A p q)
    (hf : ∀ a, ES b b' more T (f a) (g a)) : ES b b' more A (p >>= f) (q >>= g) := by
  intro i i' c j hE hA h
  obtain ⟨a, i1, h1, h2⟩ := bind_inv h
  obtain ⟨i1', h1', hE1⟩ := hp i i' a i1 hE hA h1
  obtain ⟨j', h2', hE2⟩ := hf a i1 i1' c j hE1 trivial h2
  exact ⟨j', by rw [bind_of_ok h1']; exact h2', hE2⟩

theorem ES.pure {α} {A : It → Prop} (a : α) : ES b b' more A (pure a : P α) (pure a) := by
  intro i i' c j hE _ h
  simp only [P.pure_run, Res.ok.injEq, Prod.mk.injEq] at h
  obtain ⟨rfl, rfl⟩ := h
  exact ⟨i', rfl, hE⟩

theorem ES.fail {α} {A : It → Prop} (e : Err) (q : P α) : ES b b' more A (P.fail e : P α) q := by
  intro i i' c j _ _ h; cases h

theorem ES.panic {α} {A : It → Prop} (q : P α) : ES b b' more A (P.panic : P α) q := by
  intro i i' c j _ _ h; cases h

theorem ES.ite {α} {A : It → Prop} {c : Prop} [Decidable c] {p q p2 q2 : P α} (h1 : ES b b' more A p q)
    (h2 : ES b b' more A p2 q2) : ES b b' more A (if c then p else p2) (if c then q else q2) := by
  split
  · exact h1
  · exact h2

/-- the absolute offset is not the same on both sides — only its distance to the base is -/
theorem ES.offset_bind {β} {A : It → Prop} {f g : Int → P β}
    (h : ∀ o o' : Int, o' - b' = o - b → ES b b' more A (f o) (g o')) :
    ES b b' more A (It.offset >>= f) (It.offset >>= g) := by
  intro i i' c j hE hA hp
  obtain ⟨o, i1, h1, h2⟩ := bind_inv hp
  simp only [It.offset, Res.ok.injEq, Prod.mk.injEq] at h1
  obtain ⟨rfl, rfl⟩ := h1
  obtain ⟨j', hj, hE'⟩ := h i.off i'.off hE.off i i' c j hE hA h2
  exact ⟨j', hj, hE'⟩

/-- the fuel `len + 1` is not the same on both sides either: all that is kept is that it exceeds the length -/
theorem ES.fuel_bind {β} {A : It → Prop} {f g : Nat → P β}
    (h : ∀ n n' : Nat, ES b b' more (fun i' => i'.bs.length < n') (f n) (g n')) :
    ES b b' more A (loopFuel >>= f) (loopFuel >>= g) := by
  intro i i' c j hE _ hp
  obtain ⟨n, i1, h1, h2⟩ := bind_inv hp
  simp only [loopFuel, Res.ok.injEq, Prod.mk.injEq] at h1
  obtain ⟨rfl, rfl⟩ := h1
  obtain ⟨j', hj, hE'⟩ := h (i.bs.length + 1) (i'.bs.length + 1) i i' c j hE (Nat.lt_succ_self _) h2
  exact ⟨j', hj, hE'⟩

theorem ES_nextBytes {A : It → Prop} (n : Int) : ES b b' more A (It.nextBytes n) (It.nextBytes n) := by
  intro i i' a j hE _ h
  obtain ⟨hn, h0, hl, ha, rfl⟩ := nextBytes_inv h
  have hlen := hE.len
  have hoff := hE.off
  have hlo := hE.lo
  refine ⟨⟨i'.bs, i'.off + n⟩, ?_, hE.move n hn hl⟩
  unfold It.nextBytes
  have c1 : ¬ ((i'.bs.length : Int) < i'.off + n) := by omega
  have c2 : ¬ (n < 0 ∨ i'.off < 0) := by omega
  rw [if_neg c1, if_neg c2, hE.drop_off, List.take_append_of_le_length, ← ha]
  rw [List.length_drop]
  omega

theorem ES_nextByte {A : It → Prop} : ES b b' more A It.nextByte It.nextByte := by
  intro i i' a j hE _ h
  obtain ⟨h0, hl, ha, rfl⟩ := nextByte_inv h
  have hlen := hE.len
  have hoff := hE.off
  have hlo := hE.lo
  refine ⟨⟨i'.bs, i'.off + 1⟩, ?_, hE.move 1 (by omega) hl⟩
  unfold It.nextByte
  have c1 : ¬ ((i'.bs.length : Int) < i'.off + 1) := by omega
  have c2 : ¬ (i'.off < 0) := by omega
  rw [if_neg c1, if_neg c2]
  have hv : i'.bs.getD i'.off.toNat 0 = i.bs.getD i.off.toNat 0 := by
    have e1 : i'.bs[i'.off.toNat]? = (i'.bs.drop i'.off.toNat)[0]? := by rw [List.getElem?_drop]; rfl
    have e2 : i.bs[i.off.toNat]? = (i.bs.drop i.off.toNat)[0]? := by rw [List.getElem?_drop]; rfl
    rw [List.getD_eq_getElem?_getD, List.getD_eq_getElem?_getD, e1, e2, hE.drop_off, List.getElem?_append_left]
    rw [List.length_drop]
    omega
  rw [hv, ha]

end rules

/-! ## more leaves -/

section leaves
variable {b b' : Nat} {more : Bytes}

theorem ES.ite' {α} {A : It → Prop} {c c' : Prop} [Decidable c] [Decidable c'] {p q p2 q2 : P α} (hc : c ↔ c')
    (h1 : ES b b' more A p q) (h2 : ES b b' more A p2 q2) :
    ES b b' more A (if c then p else p2) (if c' then q else q2) := by
  by_cases h : c
  · rw [if_pos h, if_pos (hc.1 h)]; exact h1
  · rw [if_neg h, if_neg (fun h' => h (hc.2 h'))]; exact h2

theorem ES_restIfAny {A : It → Prop} {e e' : Int} (he : e' - b' = e - b) :
    ES b b' more A (restIfAny e) (restIfAny e') := by
  unfold restIfAny
  refine ES.offset_bind (fun o o' ho => ?_)
  have e1 : e' - o' = e - o := by omega
  rw [e1]
  exact ES.ite' (by omega) (ES_nextBytes _) (ES.pure _)

theorem ES_restTo {A : It → Prop} {e e' : Int} (he : e' - b' = e - b) :
    ES b b' more A (restTo e) (restTo e') := by
  unfold restTo
  refine ES.offset_bind (fun o o' ho => ?_)
  have e1 : e' - o' = e - o := by omega
  rw [e1]
  exact ES_nextBytes _

theorem ES_byteIf {A : It → Prop} (c : Bool) : ES b b' more A (byteIf c) (byteIf c) := by
  unfold byteIf
  exact ES.ite ES_nextByte (ES.pure _)

end leaves

/-! ## the `for i.Offset() < offsetEnd` loops, once and for all -/

/-- the common shape of the eight loops of descriptor.go -/
def genLoop {α β} (body : P α) (comb : α → List β → List β) (e : Int) : Nat → P (List β)
  | 0 => P.fail
  | f + 1 => do
    let off ← It.offset
    if off < e then
      let x ← body
      let rest ← genLoop body comb e f
      return comb x rest
    else return []

theorem genLoop_succ {α β} (body : P α) (comb : α → List β → List β) (e : Int) (f : Nat) :
    genLoop body comb e (f + 1) = It.offset >>= fun off =>
      if off < e then body >>= fun x => genLoop body comb e f >>= fun rest => pure (comb x rest) else pure [] := rfl

/-- an iteration that succeeds consumes at least one byte -/
def Prog {α} (p : P α) : Prop := ∀ i a j, p i = .ok (a, j) → j.bs = i.bs ∧ i.off + 1 ≤ j.off

theorem Prog.bind {α β} {p : P α} {f : α → P β} (hp : Prog p) (hf : ∀ a, Fwd (f a)) : Prog (p >>= f) := by
  intro i c j h
  obtain ⟨a, i1, h1, h2⟩ := bind_inv h
  obtain ⟨e1, m1⟩ := hp i a i1 h1
  obtain ⟨e2, m2, _⟩ := hf a i1 c j h2
  exact ⟨e2.trans e1, by omega⟩

theorem Prog_nextByte : Prog It.nextByte := by
  intro i a j h
  obtain ⟨_, _, _, rfl⟩ := nextByte_inv h
  exact ⟨rfl, Int.le_refl _⟩

theorem Prog_nextBytes (n : Int) (hn : 1 ≤ n) : Prog (It.nextBytes n) := by
  intro i a j h
  obtain ⟨_, _, _, _, rfl⟩ := nextBytes_inv h
  exact ⟨rfl, by simp only; omega⟩

/-- **the loops do not depend on their fuel, nor on where they stand**: with ANY fuel exceeding the bytes left on the
second side, the second run reproduces the first -/
theorem ES_genLoop {α β} {b b' : Nat} {more : Bytes} {body body' : P α} (comb : α → List β → List β)
    (hb : ES b b' more T body body') (hprog : Prog body') {e e' : Int} (he : e' - b' = e - b) :
    ∀ n n' : Nat, ES b b' more (fun i' => (i'.bs.length : Int) - i'.off < n')
      (genLoop body comb e n) (genLoop body' comb e' n') := by
  intro n
  induction n with
  | zero => intro n' i i' a j _ _ h; cases h
  | succ n ih =>
    intro n' i i' a j hE hA h
    have hlen := hE.len
    have hoff := hE.off
    have hlo := hE.lo
    have hhi := hE.hi
    cases n' with
    | zero => exfalso; have hA' : (i'.bs.length : Int) - i'.off < (0 : Nat) := hA; omega
    | succ m =>
      rw [genLoop_succ] at h ⊢
      obtain ⟨o, i1, h1, h⟩ := bind_inv h
      simp only [It.offset, Res.ok.injEq, Prod.mk.injEq] at h1
      obtain ⟨rfl, rfl⟩ := h1
      have ho : It.offset i' = .ok (i'.off, i') := rfl
      rw [bind_of_ok ho]
      by_cases hc : i.off < e
      · have hc' : i'.off < e' := by omega
        rw [if_pos hc] at h
        rw [if_pos hc']
        obtain ⟨x, i2, h2, h⟩ := bind_inv h
        obtain ⟨r, i3, h3, h⟩ := bind_inv h
        simp only [P.pure_run, Res.ok.injEq, Prod.mk.injEq] at h
        obtain ⟨rfl, rfl⟩ := h
        obtain ⟨i2', h2', hE2⟩ := hb i i' x i2 hE trivial h2
        obtain ⟨hbs, hadv⟩ := hprog i' x i2' h2'
        have hA2 : (i2'.bs.length : Int) - i2'.off < m := by
          rw [hbs]; have hA' : (i'.bs.length : Int) - i'.off < ((m + 1 : Nat) : Int) := hA; omega
        obtain ⟨i3', h3', hE3⟩ := ih m i2 i2' r i3 hE2 hA2 h3
        exact ⟨i3', by rw [bind_of_ok h2', bind_of_ok h3']; rfl, hE3⟩
      · have hc' : ¬ i'.off < e' := by omega
        rw [if_neg hc] at h
        rw [if_neg hc']
        simp only [P.pure_run, Res.ok.injEq, Prod.mk.injEq] at h
        obtain ⟨rfl, rfl⟩ := h
        exact ⟨i', rfl, hE⟩

/-- the form used right behind `loopFuel` -/
theorem ES_genLoop_fuel {α β} {b b' : Nat} {more : Bytes} {body body' : P α} (comb : α → List β → List β)
    (hb : ES b b' more T body body') (hprog : Prog body') {e e' : Int} (he : e' - b' = e - b) (n n' : Nat) :
    ES b b' more (fun i' => i'.bs.length < n') (genLoop body comb e n) (genLoop body' comb e' n') := by
  intro i i' a j hE hA h
  refine ES_genLoop comb hb hprog he n n' i i' a j hE ?_ h
  have := hE.off; have := hE.lo
  simp only
  omega


/-! ## the tactic -/

syntax "es_leaf" : tactic
macro_rules | `(tactic| es_leaf) => `(tactic| exact ES_nextByte)
macro_rules | `(tactic| es_leaf) => `(tactic| exact ES_nextBytes _)
macro_rules | `(tactic| es_leaf) => `(tactic| exact ES.pure _)
macro_rules | `(tactic| es_leaf) => `(tactic| exact ES.fail _ _)
macro_rules | `(tactic| es_leaf) => `(tactic| exact ES.panic _)
macro_rules | `(tactic| es_leaf) => `(tactic| exact ES_byteIf _)
macro_rules | `(tactic| es_leaf) => `(tactic| exact ES_restIfAny (by omega))
macro_rules | `(tactic| es_leaf) => `(tactic| exact ES_restTo (by omega))
macro_rules | `(tactic| es_leaf) => `(tactic| assumption)

syntax "es_step" : tactic
macro_rules | `(tactic| es_step) => `(tactic| first
  | es_leaf
  | (with_reducible refine ES.offset_bind (fun _ _ _ => ?_))
  | (with_reducible refine ES.fuel_bind (fun _ _ => ?_))
  | (with_reducible refine ES.bind ?_ (fun _ => ?_))
  | (with_reducible refine ES.ite ?_ ?_)
  | (dsimp only)
  | (split))

macro "es_auto" : tactic => `(tactic| repeat' es_step)

section parsers
variable {b b' : Nat} {more : Bytes}

theorem ES_parseDVBDurationSeconds {A : It → Prop} : ES b b' more A parseDVBDurationSeconds parseDVBDurationSeconds := by
  unfold parseDVBDurationSeconds; es_auto
macro_rules | `(tactic| es_leaf) => `(tactic| exact ES_parseDVBDurationSeconds)
theorem ES_parseDVBDurationMinutes {A : It → Prop} : ES b b' more A parseDVBDurationMinutes parseDVBDurationMinutes := by
  unfold parseDVBDurationMinutes; es_auto
macro_rules | `(tactic| es_leaf) => `(tactic| exact ES_parseDVBDurationMinutes)
theorem ES_parseDVBTime {A : It → Prop} : ES b b' more A parseDVBTime parseDVBTime := by
  unfold parseDVBTime; es_auto
macro_rules | `(tactic| es_leaf) => `(tactic| exact ES_parseDVBTime)

/-! ### the loops: bodies, equations with `genLoop`, `ES` -/

def contentBody : P DescriptorContentItem := do
  let bs ← It.nextBytes 2
  return { contentNibbleLevel1 := bs.getD 0 0 / 16 % 16, contentNibbleLevel2 := bs.getD 0 0 % 16, userByte := bs.getD 1 0 }

theorem contentLoop_eq (e : Int) (f : Nat) : newDescriptorContentLoop e f = genLoop contentBody List.cons e f := by
  induction f with
  | zero => rfl
  | succ n ih =>
    rw [genLoop_succ, ← ih]
    conv => lhs; unfold newDescriptorContentLoop
    unfold contentBody
    simp only [P.bind_assoc, P.pure_bind]

theorem ES_contentLoop {e e' : Int} (he : e' - b' = e - b) (n n' : Nat) :
    ES b b' more (fun i' => i'.bs.length < n') (newDescriptorContentLoop e n) (newDescriptorContentLoop e' n') := by
  rw [contentLoop_eq, contentLoop_eq]
  refine ES_genLoop_fuel _ ?_ ?_ he n n'
  · unfold contentBody; es_auto
  · unfold contentBody; exact Prog.bind (Prog_nextBytes 2 (by decide)) (fun _ => by fwd_auto)
macro_rules | `(tactic| es_leaf) => `(tactic| exact ES_contentLoop (by omega) _ _)

theorem extendedEventLoop_eq (e : Int) (f : Nat) :
    newDescriptorExtendedEventLoop e f = genLoop newDescriptorExtendedEventItem List.cons e f := by
  induction f with
  | zero => rfl
  | succ n ih =>
    rw [genLoop_succ, ← ih]
    conv => lhs; unfold newDescriptorExtendedEventLoop

theorem ES_extendedEventLoop {e e' : Int} (he : e' - b' = e - b) (n n' : Nat) :
    ES b b' more (fun i' => i'.bs.length < n') (newDescriptorExtendedEventLoop e n) (newDescriptorExtendedEventLoop e' n') := by
  rw [extendedEventLoop_eq, extendedEventLoop_eq]
  refine ES_genLoop_fuel _ ?_ ?_ he n n'
  · unfold newDescriptorExtendedEventItem; es_auto
  · unfold newDescriptorExtendedEventItem; exact Prog.bind Prog_nextByte (fun _ => by fwd_auto)
macro_rules | `(tactic| es_leaf) => `(tactic| exact ES_extendedEventLoop (by omega) _ _)

def localTimeOffsetBody : P DescriptorLocalTimeOffsetItem := do
  let countryCode ← It.nextBytes 3
  let b ← It.nextByte
  let localTimeOffset ← parseDVBDurationMinutes
  let timeOfChange ← parseDVBTime
  let nextTimeOffset ← parseDVBDurationMinutes
  return { countryCode := countryCode, countryRegionID := b / 4 % 64, localTimeOffset := localTimeOffset, localTimeOffsetPolarity := b % 2 = 1, nextTimeOffset := nextTimeOffset, timeOfChange := timeOfChange }

theorem localTimeOffsetLoop_eq (e : Int) (f : Nat) :
    newDescriptorLocalTimeOffsetLoop e f = genLoop localTimeOffsetBody List.cons e f := by
  induction f with
  | zero => rfl
  | succ n ih =>
    rw [genLoop_succ, ← ih]
    conv => lhs; unfold newDescriptorLocalTimeOffsetLoop
    unfold localTimeOffsetBody
    simp only [P.bind_assoc, P.pure_bind]

theorem ES_localTimeOffsetLoop {e e' : Int} (he : e' - b' = e - b) (n n' : Nat) :
    ES b b' more (fun i' => i'.bs.length < n') (newDescriptorLocalTimeOffsetLoop e n) (newDescriptorLocalTimeOffsetLoop e' n') := by
  rw [localTimeOffsetLoop_eq, localTimeOffsetLoop_eq]
  refine ES_genLoop_fuel _ ?_ ?_ he n n'
  · unfold localTimeOffsetBody; es_auto
  · unfold localTimeOffsetBody; exact Prog.bind (Prog_nextBytes 3 (by decide)) (fun _ => by fwd_auto)
macro_rules | `(tactic| es_leaf) => `(tactic| exact ES_localTimeOffsetLoop (by omega) _ _)

def parentalRatingBody : P DescriptorParentalRatingItem := do
  let bs ← It.nextBytes 4
  return { countryCode := bs.take 3, rating := bs.getD 3 0 }

theorem parentalRatingLoop_eq (e : Int) (f : Nat) :
    newDescriptorParentalRatingLoop e f = genLoop parentalRatingBody List.cons e f := by
  induction f with
  | zero => rfl
  | succ n ih =>
    rw [genLoop_succ, ← ih]
    conv => lhs; unfold newDescriptorParentalRatingLoop
    unfold parentalRatingBody
    simp only [P.bind_assoc, P.pure_bind]

theorem ES_parentalRatingLoop {e e' : Int} (he : e' - b' = e - b) (n n' : Nat) :
    ES b b' more (fun i' => i'.bs.length < n') (newDescriptorParentalRatingLoop e n) (newDescriptorParentalRatingLoop e' n') := by
  rw [parentalRatingLoop_eq, parentalRatingLoop_eq]
  refine ES_genLoop_fuel _ ?_ ?_ he n n'
  · unfold parentalRatingBody; es_auto
  · unfold parentalRatingBody; exact Prog.bind (Prog_nextBytes 4 (by decide)) (fun _ => by fwd_auto)
macro_rules | `(tactic| es_leaf) => `(tactic| exact ES_parentalRatingLoop (by omega) _ _)

def subtitlingBody : P DescriptorSubtitlingItem := do
  let language ← It.nextBytes 3
  let type ← It.nextByte
  let c ← It.nextBytes 2
  let a ← It.nextBytes 2
  return { ancillaryPageID := a.getD 0 0 * 256 + a.getD 1 0, compositionPageID := c.getD 0 0 * 256 + c.getD 1 0, language := language, type := type }

theorem subtitlingLoop_eq (e : Int) (f : Nat) :
    newDescriptorSubtitlingLoop e f = genLoop subtitlingBody List.cons e f := by
  induction f with
  | zero => rfl
  | succ n ih =>
    rw [genLoop_succ, ← ih]
    conv => lhs; unfold newDescriptorSubtitlingLoop
    unfold subtitlingBody
    simp only [P.bind_assoc, P.pure_bind]

theorem ES_subtitlingLoop {e e' : Int} (he : e' - b' = e - b) (n n' : Nat) :
    ES b b' more (fun i' => i'.bs.length < n') (newDescriptorSubtitlingLoop e n) (newDescriptorSubtitlingLoop e' n') := by
  rw [subtitlingLoop_eq, subtitlingLoop_eq]
  refine ES_genLoop_fuel _ ?_ ?_ he n n'
  · unfold subtitlingBody; es_auto
  · unfold subtitlingBody; exact Prog.bind (Prog_nextBytes 3 (by decide)) (fun _ => by fwd_auto)
macro_rules | `(tactic| es_leaf) => `(tactic| exact ES_subtitlingLoop (by omega) _ _)

def teletextBody : P DescriptorTeletextItem := do
  let language ← It.nextBytes 3
  let b ← It.nextByte
  let p ← It.nextByte
  return { language := language, magazine := b % 8, page := (p / 16 % 16) * 10 + p % 16, type := b / 8 % 32 }

theorem teletextLoop_eq (e : Int) (f : Nat) :
    newDescriptorTeletextLoop e f = genLoop teletextBody List.cons e f := by
  induction f with
  | zero => rfl
  | succ n ih =>
    rw [genLoop_succ, ← ih]
    conv => lhs; unfold newDescriptorTeletextLoop
    unfold teletextBody
    simp only [P.bind_assoc, P.pure_bind]

theorem ES_teletextLoop {e e' : Int} (he : e' - b' = e - b) (n n' : Nat) :
    ES b b' more (fun i' => i'.bs.length < n') (newDescriptorTeletextLoop e n) (newDescriptorTeletextLoop e' n') := by
  rw [teletextLoop_eq, teletextLoop_eq]
  refine ES_genLoop_fuel _ ?_ ?_ he n n'
  · unfold teletextBody; es_auto
  · unfold teletextBody; exact Prog.bind (Prog_nextBytes 3 (by decide)) (fun _ => by fwd_auto)
macro_rules | `(tactic| es_leaf) => `(tactic| exact ES_teletextLoop (by omega) _ _)

def vbiDescComb (id : Nat) (b : Nat) (rest : List DescriptorVBIDataDescriptor) : List DescriptorVBIDataDescriptor :=
  if isKnownVBIDataServiceID id then { fieldParity := b / 32 % 2 = 1, lineOffset := b % 32 } :: rest else rest

theorem vbiDescLoop_eq (id : Nat) (e : Int) (f : Nat) :
    newDescriptorVBIDataDescLoop id e f = genLoop It.nextByte (vbiDescComb id) e f := by
  induction f with
  | zero => rfl
  | succ n ih =>
    rw [genLoop_succ, ← ih]
    conv => lhs; unfold newDescriptorVBIDataDescLoop
    unfold vbiDescComb
    cases isKnownVBIDataServiceID id <;> simp

theorem ES_vbiDescLoop (id : Nat) {e e' : Int} (he : e' - b' = e - b) (n n' : Nat) :
    ES b b' more (fun i' => i'.bs.length < n') (newDescriptorVBIDataDescLoop id e n) (newDescriptorVBIDataDescLoop id e' n') := by
  rw [vbiDescLoop_eq, vbiDescLoop_eq]
  exact ES_genLoop_fuel _ ES_nextByte Prog_nextByte he n n'
macro_rules | `(tactic| es_leaf) => `(tactic| exact ES_vbiDescLoop _ (by omega) _ _)

def vbiBody : P DescriptorVBIDataService := do
  let id ← It.nextByte
  let dataServiceDescriptorLength ← It.nextByte
  let off ← It.offset
  let fuel' ← loopFuel
  let descs ← newDescriptorVBIDataDescLoop id (off + dataServiceDescriptorLength) fuel'
  return { dataServiceID := id, descriptors := descs }

theorem vbiLoop_eq (e : Int) (f : Nat) : newDescriptorVBIDataLoop e f = genLoop vbiBody List.cons e f := by
  induction f with
  | zero => rfl
  | succ n ih =>
    rw [genLoop_succ, ← ih]
    conv => lhs; unfold newDescriptorVBIDataLoop
    unfold vbiBody
    simp only [P.bind_assoc, P.pure_bind]

theorem ES_vbiLoop {e e' : Int} (he : e' - b' = e - b) (n n' : Nat) :
    ES b b' more (fun i' => i'.bs.length < n') (newDescriptorVBIDataLoop e n) (newDescriptorVBIDataLoop e' n') := by
  rw [vbiLoop_eq, vbiLoop_eq]
  refine ES_genLoop_fuel _ ?_ ?_ he n n'
  · unfold vbiBody; es_auto
  · unfold vbiBody; exact Prog.bind Prog_nextByte (fun _ => by fwd_auto)
macro_rules | `(tactic| es_leaf) => `(tactic| exact ES_vbiLoop (by omega) _ _)

/-! ### the body parsers -/

theorem ES_newDescriptorAVCVideo {A : It → Prop} : ES b b' more A newDescriptorAVCVideo newDescriptorAVCVideo := by
  unfold newDescriptorAVCVideo; es_auto
macro_rules | `(tactic| es_leaf) => `(tactic| exact ES_newDescriptorAVCVideo)
theorem ES_newDescriptorDataStreamAlignment {A : It → Prop} : ES b b' more A newDescriptorDataStreamAlignment newDescriptorDataStreamAlignment := by
  unfold newDescriptorDataStreamAlignment; es_auto
macro_rules | `(tactic| es_leaf) => `(tactic| exact ES_newDescriptorDataStreamAlignment)
theorem ES_newDescriptorMaximumBitrate {A : It → Prop} : ES b b' more A newDescriptorMaximumBitrate newDescriptorMaximumBitrate := by
  unfold newDescriptorMaximumBitrate; es_auto
macro_rules | `(tactic| es_leaf) => `(tactic| exact ES_newDescriptorMaximumBitrate)
theorem ES_newDescriptorPrivateDataIndicator {A : It → Prop} : ES b b' more A newDescriptorPrivateDataIndicator newDescriptorPrivateDataIndicator := by
  unfold newDescriptorPrivateDataIndicator; es_auto
macro_rules | `(tactic| es_leaf) => `(tactic| exact ES_newDescriptorPrivateDataIndicator)
theorem ES_newDescriptorPrivateDataSpecifier {A : It → Prop} : ES b b' more A newDescriptorPrivateDataSpecifier newDescriptorPrivateDataSpecifier := by
  unfold newDescriptorPrivateDataSpecifier; es_auto
macro_rules | `(tactic| es_leaf) => `(tactic| exact ES_newDescriptorPrivateDataSpecifier)
theorem ES_newDescriptorService {A : It → Prop} : ES b b' more A newDescriptorService newDescriptorService := by
  unfold newDescriptorService; es_auto
macro_rules | `(tactic| es_leaf) => `(tactic| exact ES_newDescriptorService)
theorem ES_newDescriptorShortEvent {A : It → Prop} : ES b b' more A newDescriptorShortEvent newDescriptorShortEvent := by
  unfold newDescriptorShortEvent; es_auto
macro_rules | `(tactic| es_leaf) => `(tactic| exact ES_newDescriptorShortEvent)
theorem ES_newDescriptorStreamIdentifier {A : It → Prop} : ES b b' more A newDescriptorStreamIdentifier newDescriptorStreamIdentifier := by
  unfold newDescriptorStreamIdentifier; es_auto
macro_rules | `(tactic| es_leaf) => `(tactic| exact ES_newDescriptorStreamIdentifier)
theorem ES_newDescriptorExtendedEvent {A : It → Prop} : ES b b' more A newDescriptorExtendedEvent newDescriptorExtendedEvent := by
  unfold newDescriptorExtendedEvent; es_auto
macro_rules | `(tactic| es_leaf) => `(tactic| exact ES_newDescriptorExtendedEvent)
theorem ES_newDescriptorAC3 {A : It → Prop} {e e' : Int} (he : e' - b' = e - b) : ES b b' more A (newDescriptorAC3 e) (newDescriptorAC3 e') := by
  unfold newDescriptorAC3; es_auto
macro_rules | `(tactic| es_leaf) => `(tactic| exact ES_newDescriptorAC3 (by omega))
theorem ES_newDescriptorComponent {A : It → Prop} {e e' : Int} (he : e' - b' = e - b) : ES b b' more A (newDescriptorComponent e) (newDescriptorComponent e') := by
  unfold newDescriptorComponent; es_auto
macro_rules | `(tactic| es_leaf) => `(tactic| exact ES_newDescriptorComponent (by omega))
theorem ES_newDescriptorEnhancedAC3 {A : It → Prop} {e e' : Int} (he : e' - b' = e - b) : ES b b' more A (newDescriptorEnhancedAC3 e) (newDescriptorEnhancedAC3 e') := by
  unfold newDescriptorEnhancedAC3; es_auto
macro_rules | `(tactic| es_leaf) => `(tactic| exact ES_newDescriptorEnhancedAC3 (by omega))
theorem ES_newDescriptorExtensionSupplementaryAudio {A : It → Prop} {e e' : Int} (he : e' - b' = e - b) : ES b b' more A (newDescriptorExtensionSupplementaryAudio e) (newDescriptorExtensionSupplementaryAudio e') := by
  unfold newDescriptorExtensionSupplementaryAudio; es_auto
macro_rules | `(tactic| es_leaf) => `(tactic| exact ES_newDescriptorExtensionSupplementaryAudio (by omega))
theorem ES_newDescriptorRegistration {A : It → Prop} {e e' : Int} (he : e' - b' = e - b) : ES b b' more A (newDescriptorRegistration e) (newDescriptorRegistration e') := by
  unfold newDescriptorRegistration; es_auto
macro_rules | `(tactic| es_leaf) => `(tactic| exact ES_newDescriptorRegistration (by omega))
theorem ES_newDescriptorContent {A : It → Prop} {e e' : Int} (he : e' - b' = e - b) : ES b b' more A (newDescriptorContent e) (newDescriptorContent e') := by
  unfold newDescriptorContent; es_auto
macro_rules | `(tactic| es_leaf) => `(tactic| exact ES_newDescriptorContent (by omega))
theorem ES_newDescriptorLocalTimeOffset {A : It → Prop} {e e' : Int} (he : e' - b' = e - b) : ES b b' more A (newDescriptorLocalTimeOffset e) (newDescriptorLocalTimeOffset e') := by
  unfold newDescriptorLocalTimeOffset; es_auto
macro_rules | `(tactic| es_leaf) => `(tactic| exact ES_newDescriptorLocalTimeOffset (by omega))
theorem ES_newDescriptorParentalRating {A : It → Prop} {e e' : Int} (he : e' - b' = e - b) : ES b b' more A (newDescriptorParentalRating e) (newDescriptorParentalRating e') := by
  unfold newDescriptorParentalRating; es_auto
macro_rules | `(tactic| es_leaf) => `(tactic| exact ES_newDescriptorParentalRating (by omega))
theorem ES_newDescriptorSubtitling {A : It → Prop} {e e' : Int} (he : e' - b' = e - b) : ES b b' more A (newDescriptorSubtitling e) (newDescriptorSubtitling e') := by
  unfold newDescriptorSubtitling; es_auto
macro_rules | `(tactic| es_leaf) => `(tactic| exact ES_newDescriptorSubtitling (by omega))
theorem ES_newDescriptorTeletext {A : It → Prop} {e e' : Int} (he : e' - b' = e - b) : ES b b' more A (newDescriptorTeletext e) (newDescriptorTeletext e') := by
  unfold newDescriptorTeletext; es_auto
macro_rules | `(tactic| es_leaf) => `(tactic| exact ES_newDescriptorTeletext (by omega))
theorem ES_newDescriptorVBIData {A : It → Prop} {e e' : Int} (he : e' - b' = e - b) : ES b b' more A (newDescriptorVBIData e) (newDescriptorVBIData e') := by
  unfold newDescriptorVBIData; es_auto
macro_rules | `(tactic| es_leaf) => `(tactic| exact ES_newDescriptorVBIData (by omega))
theorem ES_newDescriptorNetworkName {A : It → Prop} {e e' : Int} (he : e' - b' = e - b) : ES b b' more A (newDescriptorNetworkName e) (newDescriptorNetworkName e') := by
  unfold newDescriptorNetworkName; es_auto
macro_rules | `(tactic| es_leaf) => `(tactic| exact ES_newDescriptorNetworkName (by omega))
theorem ES_newDescriptorISO639LanguageAndAudioType {A : It → Prop} {e e' : Int} (he : e' - b' = e - b) : ES b b' more A (newDescriptorISO639LanguageAndAudioType e) (newDescriptorISO639LanguageAndAudioType e') := by
  unfold newDescriptorISO639LanguageAndAudioType; es_auto
macro_rules | `(tactic| es_leaf) => `(tactic| exact ES_newDescriptorISO639LanguageAndAudioType (by omega))
theorem ES_newDescriptorExtension {A : It → Prop} {e e' : Int} (he : e' - b' = e - b) : ES b b' more A (newDescriptorExtension e) (newDescriptorExtension e') := by
  unfold newDescriptorExtension; es_auto
macro_rules | `(tactic| es_leaf) => `(tactic| exact ES_newDescriptorExtension (by omega))
theorem ES_newDescriptorUnknown {A : It → Prop} (tag length : Nat) :
    ES b b' more A (newDescriptorUnknown tag length) (newDescriptorUnknown tag length) := by
  unfold newDescriptorUnknown; es_auto
macro_rules | `(tactic| es_leaf) => `(tactic| exact ES_newDescriptorUnknown _ _)

theorem ES_parseDescriptorSwitch {A : It → Prop} (d : Descriptor) {e e' : Int} (he : e' - b' = e - b) :
    ES b b' more A (parseDescriptorSwitch d e) (parseDescriptorSwitch d e') := by
  unfold parseDescriptorSwitch
  repeat' refine ES.ite ?_ ?_
  all_goals (refine ES.bind ?_ (fun _ => ES.pure _); es_leaf)

end parsers

/-! ## one descriptor -/

/-- **locality of one descriptor**: from `Ext`-related states, when `parseDescriptor` succeeds on the first it
succeeds on the second with the same descriptor, having moved by the same amount -/
theorem parseDescriptor_ext {b b' : Nat} {more : Bytes} {i i' : It} (hE : Ext b b' more i i') {d : Descriptor} {j : It}
    (h : parseDescriptor i = .ok (d, j)) :
    ∃ j', parseDescriptor i' = .ok (d, j') ∧ j'.off - b' = j.off - b := by
  unfold parseDescriptor at h ⊢
  obtain ⟨hb, i1, h1, h⟩ := bind_inv h
  obtain ⟨i1', h1', hE1⟩ := ES_nextBytes (A := T) 2 i i' hb i1 hE trivial h1
  rw [bind_of_ok h1']
  dsimp only at h ⊢
  split at h
  · rename_i hpos
    rw [if_pos hpos]
    obtain ⟨o, i2, h2, h⟩ := bind_inv h
    simp only [It.offset, Res.ok.injEq, Prod.mk.injEq] at h2
    obtain ⟨rfl, rfl⟩ := h2
    have ho : It.offset i1' = .ok (i1'.off, i1') := rfl
    rw [bind_of_ok ho]
    obtain ⟨d1, i3, h3, h⟩ := bind_inv h
    obtain ⟨_, i4, h4, h⟩ := bind_inv h
    simp only [It.seek, Res.ok.injEq, Prod.mk.injEq, true_and] at h4
    subst h4
    simp only [P.pure_run, Res.ok.injEq, Prod.mk.injEq] at h
    obtain ⟨rfl, rfl⟩ := h
    have hoff := hE1.off
    have he : (i1'.off + ((hb.getD 1 0 : Nat) : Int)) - b' = (i1.off + ((hb.getD 1 0 : Nat) : Int)) - b := by omega
    have hin : ES b b' more T
        (if isUserDefinedTag ({ length := hb.getD 1 0, tag := hb.getD 0 0 } : Descriptor).tag then do
            let u ← It.nextBytes ({ length := hb.getD 1 0, tag := hb.getD 0 0 } : Descriptor).length
            pure { ({ length := hb.getD 1 0, tag := hb.getD 0 0 } : Descriptor) with userDefined := u }
          else parseDescriptorSwitch { length := hb.getD 1 0, tag := hb.getD 0 0 } (i1.off + ((hb.getD 1 0 : Nat) : Int)))
        (if isUserDefinedTag ({ length := hb.getD 1 0, tag := hb.getD 0 0 } : Descriptor).tag then do
            let u ← It.nextBytes ({ length := hb.getD 1 0, tag := hb.getD 0 0 } : Descriptor).length
            pure { ({ length := hb.getD 1 0, tag := hb.getD 0 0 } : Descriptor) with userDefined := u }
          else parseDescriptorSwitch { length := hb.getD 1 0, tag := hb.getD 0 0 } (i1'.off + ((hb.getD 1 0 : Nat) : Int))) :=
      ES.ite (ES.bind (ES_nextBytes _) (fun _ => ES.pure _)) (ES_parseDescriptorSwitch _ he)
    obtain ⟨i3', h3', _⟩ := hin i1 i1' d1 i3 hE1 trivial h3
    rw [bind_of_ok h3']
    refine ⟨⟨i3'.bs, i1'.off + ((hb.getD 1 0 : Nat) : Int)⟩, rfl, ?_⟩
    simp only
    omega
  · rename_i hz
    rw [if_neg hz]
    simp only [P.pure_run, Res.ok.injEq, Prod.mk.injEq] at h
    obtain ⟨rfl, rfl⟩ := h
    exact ⟨i1', rfl, hE1.off⟩

/-- the descriptor at the head of a byte string (what `parseDescriptor` returns from offset 0), if any -/
def descOf (s : Bytes) : Option Descriptor :=
  match parseDescriptor ⟨s, 0⟩ with
  | .ok (d, _) => some d
  | _ => none

theorem descOf_eq_some {s : Bytes} {d : Descriptor} : descOf s = some d ↔ ∃ j, parseDescriptor ⟨s, 0⟩ = .ok (d, j) := by
  unfold descOf
  constructor
  · intro h
    split at h
    · rename_i d' j hj
      simp only [Option.some.injEq] at h
      subst h
      exact ⟨j, hj⟩
    · cases h
  · intro ⟨j, hj⟩
    rw [hj]

theorem ext_of_drop (bs : Bytes) (o : Nat) (ho : o ≤ bs.length) : Ext 0 o [] ⟨bs.drop o, 0⟩ ⟨bs, o⟩ :=
  ⟨by simp, by simp, by simp, ho, by simp⟩

theorem ext_to_drop (bs : Bytes) (o : Nat) (ho : o ≤ bs.length) : Ext o 0 [] ⟨bs, o⟩ ⟨bs.drop o, 0⟩ :=
  ⟨by simp, by simp, by simp only; omega, by simp, by simp⟩

theorem ext_append (s more : Bytes) : Ext 0 0 more ⟨s, 0⟩ ⟨s ++ more, 0⟩ :=
  ⟨by simp, by simp, by simp, by simp, by simp⟩

/-- **the value of a descriptor is a function of the bytes from its first byte on**: parsing at offset `o` of `bs`
returns `d` exactly when parsing `bs.drop o` from offset 0 does — nothing before `o`, not `o` itself, not the length
of the data enters the result -/
theorem parseDescriptor_suffix (bs : Bytes) (o : Nat) (d : Descriptor) :
    (∃ j, parseDescriptor ⟨bs, o⟩ = .ok (d, j)) ↔ descOf (bs.drop o) = some d := by
  rw [descOf_eq_some]
  constructor
  · intro ⟨j, hj⟩
    have ho : o ≤ bs.length := by
      have := (parseDescriptor_spec _ _ _ hj).2.1
      simp only at this; omega
    obtain ⟨j', hj', _⟩ := parseDescriptor_ext (ext_to_drop bs o ho) hj
    exact ⟨j', hj'⟩
  · intro ⟨j, hj⟩
    by_cases ho : o ≤ bs.length
    · obtain ⟨j', hj', _⟩ := parseDescriptor_ext (ext_of_drop bs o ho) hj
      exact ⟨j', hj'⟩
    · exfalso
      have := (parseDescriptor_spec _ _ _ hj).2.1
      simp only [List.length_drop] at this
      omega

/-- **more bytes behind do not change a descriptor that parsed**: the value depends on no more than the bytes the
parser needed -/
theorem descOf_append (s more : Bytes) (d : Descriptor) (h : descOf s = some d) : descOf (s ++ more) = some d := by
  rw [descOf_eq_some] at h ⊢
  obtain ⟨j, hj⟩ := h
  obtain ⟨j', hj', _⟩ := parseDescriptor_ext (ext_append s more) hj
  exact ⟨j', hj'⟩


theorem slice_append_drop (bs : Bytes) (a n : Nat) : slice bs a n ++ bs.drop (a + n) = bs.drop a := by
  unfold slice
  rw [← List.drop_drop, List.take_append_drop]

/-- a user-defined descriptor (tag 0x80..0xfe) is completely explicit: its value is its tag, its length and exactly
its declared body -/
theorem parseDescriptor_userDefined (bs : Bytes) (o : Nat) (d : Descriptor) (j : It)
    (h : parseDescriptor ⟨bs, o⟩ = .ok (d, j)) (hu : isUserDefinedTag (bs.getD o 0) = true) :
    d = { tag := bs.getD o 0, length := bs.getD (o + 1) 0,
          userDefined := if bs.getD (o + 1) 0 > 0 then slice bs (o + 2) (bs.getD (o + 1) 0) else [] } := by
  unfold parseDescriptor at h
  obtain ⟨hb, i1, h1, h⟩ := bind_inv h
  obtain ⟨_, h0, hlen, hhb, rfl⟩ := nextBytes_inv h1
  simp only at h0 hlen hhb
  have e2 : (2 : Int).toNat = 2 := rfl
  have e3 : ((o : Nat) : Int).toNat = o := by omega
  rw [e2, e3] at hhb
  have g0 : hb.getD 0 0 = bs.getD o 0 := by
    rw [hhb]; have := slice_getD bs o 2 0 (by omega); simpa using this
  have g1 : hb.getD 1 0 = bs.getD (o + 1) 0 := by
    rw [hhb]; exact slice_getD bs o 2 1 (by omega)
  dsimp only at h
  rw [g0, g1] at h
  split at h
  · rename_i hpos
    obtain ⟨o1, i2, h2, h⟩ := bind_inv h
    simp only [It.offset, Res.ok.injEq, Prod.mk.injEq] at h2
    obtain ⟨rfl, rfl⟩ := h2
    obtain ⟨d1, i3, h3, h⟩ := bind_inv h
    obtain ⟨_, i4, h4, h⟩ := bind_inv h
    simp only [P.pure_run, Res.ok.injEq, Prod.mk.injEq] at h
    obtain ⟨rfl, rfl⟩ := h
    try rw [if_pos hu] at h3
    obtain ⟨u, i5, h5, h3⟩ := bind_inv h3
    simp only [P.pure_run, Res.ok.injEq, Prod.mk.injEq] at h3
    obtain ⟨rfl, rfl⟩ := h3
    obtain ⟨_, _, _, hu5, _⟩ := nextBytes_inv h5
    simp only at hu5
    have e4 : ((o : Int) + 2).toNat = o + 2 := by omega
    rw [e4, Int.toNat_natCast] at hu5
    try simp only at hpos
    rw [if_pos hpos, hu5]
    rfl
  · rename_i hz
    simp only [P.pure_run, Res.ok.injEq, Prod.mk.injEq] at h
    obtain ⟨rfl, rfl⟩ := h
    try simp only at hz
    rw [if_neg hz]


end Astits.DescFraming
