/-
C11 helper — whole-structure round trip, part 4: the normal form `normalise` (what the parser returns for written bytes),
its fixed points characterised field by field (`PacketCanon`), idempotence.
-/
import Astits.Proofs.PacketRTPkt
namespace Astits.PacketRT
open Astits

theorem afExtSize_normExt (e : PacketAdaptationExtensionField) : afExtSize (normExt e) = afExtSize e := rfl

theorem normExt_idem (e : PacketAdaptationExtensionField) : normExt (normExt e) = normExt e := by
  obtain ⟨dts, ltw, pr, ss, v, off, len, prv, st⟩ := e
  cases ltw <;> cases pr <;> cases ss <;> cases dts <;> simp [normExt, afExtSize]

theorem afSize_normAF (a : PacketAdaptationField) (h1 : a.isOneByteStuffing = false) : afSize (normAF a) = afSize a := by
  obtain ⟨ext, opcr, pcr, pd, pl, len, sl, sc, one, rai, di, espi, hext, hopcr, hpcr, hpd, hsc⟩ := a
  simp only at h1
  subst h1
  cases hext <;> cases hopcr <;> cases hpcr <;> cases hpd <;> cases hsc <;> cases ext <;>
    simp [normAF, afSize, afExtSize_normExt] <;> omega

theorem normAF_idem (a : PacketAdaptationField) : normAF (normAF a) = normAF a := by
  cases h1 : a.isOneByteStuffing
  · have hs := afSize_normAF a h1
    have hn : (normAF a).isOneByteStuffing = false := by simp [normAF, h1]
    obtain ⟨ext, opcr, pcr, pd, pl, len, sl, sc, one, rai, di, espi, hext, hopcr, hpcr, hpd, hsc⟩ := a
    simp only at h1
    subst h1
    unfold normAF at hs hn ⊢
    simp only [Bool.false_eq_true, if_false] at hs hn ⊢
    rw [hs]
    cases hext <;> cases hopcr <;> cases hpcr <;> cases hpd <;> cases hsc <;> cases ext <;>
      simp [normExt_idem] <;> omega
  · simp [normAF, h1]


/-- an extension field in the form the parser produces -/
structure ExtCanon (e : PacketAdaptationExtensionField) : Prop where
  length : e.length = afExtSize e
  ltw : e.hasLegalTimeWindow = false → e.legalTimeWindowIsValid = false ∧ e.legalTimeWindowOffset = 0
  pr : e.hasPiecewiseRate = false → e.piecewiseRate = 0
  ss : e.hasSeamlessSplice = false → e.spliceType = 0 ∧ e.dtsNextAccessUnit = none
  dts : ∀ d, e.dtsNextAccessUnit = some d → d.extension = 0

theorem cr_ext' (c : ClockReference) : (c = { base := c.base, extension := 0 }) ↔ c.extension = 0 := by
  obtain ⟨b, x⟩ := c
  simp

theorem extCanon_iff (e : PacketAdaptationExtensionField) : ExtCanon e ↔
    (e.length = afExtSize e ∧ (e.hasLegalTimeWindow = false → e.legalTimeWindowIsValid = false ∧ e.legalTimeWindowOffset = 0) ∧
     (e.hasPiecewiseRate = false → e.piecewiseRate = 0) ∧ (e.hasSeamlessSplice = false → e.spliceType = 0 ∧ e.dtsNextAccessUnit = none) ∧
     ∀ d, e.dtsNextAccessUnit = some d → d.extension = 0) :=
  ⟨fun ⟨a, b, c, d, e⟩ => ⟨a, b, c, d, e⟩, fun ⟨a, b, c, d, e⟩ => ⟨a, b, c, d, e⟩⟩

theorem normExt_eq_self_iff (e : PacketAdaptationExtensionField) : normExt e = e ↔ ExtCanon e := by
  rw [extCanon_iff]
  obtain ⟨dts, ltw, pr, ss, v, off, len, prv, st⟩ := e
  cases ltw <;> cases pr <;> cases ss <;> cases dts <;>
    simp [normExt, afExtSize, eq_comm, cr_ext'] <;> grind


/-- the one-byte adaptation field as the parser produces it -/
def oneByteAF : PacketAdaptationField := { length := 0, stuffingLength := 0, isOneByteStuffing := true }

/-- an adaptation field (not the one-byte form) in the form the parser produces -/
structure AFCanon (a : PacketAdaptationField) : Prop where
  length : a.length = afSize a
  stuffing : 0 ≤ a.stuffingLength
  pcr : a.hasPCR = false → a.pcr = none
  opcr : a.hasOPCR = false → a.opcr = none
  splice : a.hasSplicingCountdown = false → a.spliceCountdown = 0
  priv : a.hasTransportPrivateData = false → a.transportPrivateData = [] ∧ a.transportPrivateDataLength = 0
  ext : a.hasAdaptationExtensionField = false → a.adaptationExtensionField = none
  extc : ∀ e, a.adaptationExtensionField = some e → ExtCanon e

theorem afCanon_iff (a : PacketAdaptationField) : AFCanon a ↔
    (a.length = afSize a ∧ 0 ≤ a.stuffingLength ∧ (a.hasPCR = false → a.pcr = none) ∧ (a.hasOPCR = false → a.opcr = none) ∧
     (a.hasSplicingCountdown = false → a.spliceCountdown = 0) ∧
     (a.hasTransportPrivateData = false → a.transportPrivateData = [] ∧ a.transportPrivateDataLength = 0) ∧
     (a.hasAdaptationExtensionField = false → a.adaptationExtensionField = none) ∧
     ∀ e, a.adaptationExtensionField = some e → ExtCanon e) :=
  ⟨fun ⟨a, b, c, d, e, f, g, h⟩ => ⟨a, b, c, d, e, f, g, h⟩, fun ⟨a, b, c, d, e, f, g, h⟩ => ⟨a, b, c, d, e, f, g, h⟩⟩

theorem normAF_eq_self_iff (a : PacketAdaptationField) (h1 : a.isOneByteStuffing = false) : normAF a = a ↔ AFCanon a := by
  rw [afCanon_iff]
  obtain ⟨ext, opcr, pcr, pd, pl, len, sl, sc, one, rai, di, espi, hext, hopcr, hpcr, hpd, hsc⟩ := a
  simp only at h1
  subst h1
  cases hext <;> cases hopcr <;> cases hpcr <;> cases hpd <;> cases hsc <;> cases ext <;>
    simp [normAF, afSize, eq_comm, ← normExt_eq_self_iff] <;> grind


theorem normAF_one (a : PacketAdaptationField) (h1 : a.isOneByteStuffing = true) : normAF a = oneByteAF := by
  simp [normAF, h1, oneByteAF]

/-- the packet the parser returns for the bytes written for a packet that fills its 188 bytes -/
def normalise (p : Packet) : Packet := normaliseWith 0 p

/-- a packet in the form the parser produces: nothing the writer ignores is set, computed fields hold the computed values -/
structure PacketCanon (p : Packet) : Prop where
  af : p.header.hasAdaptationField = false → p.adaptationField = none
  afc : ∀ a, p.adaptationField = some a →
    (a.isOneByteStuffing = true → a = oneByteAF) ∧ (a.isOneByteStuffing = false → AFCanon a)
  payload : p.header.hasPayload = false → p.payload = []

theorem normalise_eq_self_iff (p : Packet) : normalise p = p ↔ PacketCanon p := by
  obtain ⟨af, hd, pl⟩ := p
  have hafc : ∀ a : PacketAdaptationField, normAF a = a ↔
      ((a.isOneByteStuffing = true → a = oneByteAF) ∧ (a.isOneByteStuffing = false → AFCanon a)) := by
    intro a
    cases h1 : a.isOneByteStuffing
    · simp [normAF_eq_self_iff a h1]
    · simp [normAF_one a h1, eq_comm]
  constructor
  · intro h
    simp only [normalise, normaliseWith, Packet.mk.injEq, true_and] at h
    obtain ⟨h1, h2⟩ := h
    refine ⟨?_, ?_, ?_⟩
    · intro hc; simp only at hc; simp [hc] at h1; exact h1.symm
    · intro a ha
      simp only at ha; subst ha
      cases hc : hd.hasAdaptationField
      · simp [hc] at h1
      · simp [hc] at h1; exact (hafc a).mp h1
    · intro hc; simp only at hc; simp [hc] at h2; exact h2
  · intro ⟨c1, c2, c3⟩
    simp only at c1 c2 c3
    simp only [normalise, normaliseWith, Packet.mk.injEq, true_and]
    constructor
    · cases hc : hd.hasAdaptationField
      · simp [c1 hc]
      · cases af with
        | none => simp
        | some a => simp [(hafc a).mpr (c2 a rfl)]
    · cases hc : hd.hasPayload
      · simp [c3 hc]
      · simp

theorem normalise_idem (p : Packet) : normalise (normalise p) = normalise p := by
  obtain ⟨af, hd, pl⟩ := p
  simp only [normalise, normaliseWith, Packet.mk.injEq, true_and]
  constructor
  · cases hd.hasAdaptationField
    · simp
    · cases af <;> simp [normAF_idem]
  · cases hd.hasPayload <;> simp

/-- with a payload that fills the packet the writer appends no padding, and without payload padding is not parsed -/
theorem normaliseWith_padLen (p : Packet)
    (hfill : p.header.hasPayload = true → packetHeadSize p + p.payload.length = 188) :
    normaliseWith (padLen p) p = normalise p := by
  unfold normalise normaliseWith
  cases hc : p.header.hasPayload
  · simp
  · have := hfill hc
    have hp : padLen p = 0 := by
      unfold padLen
      simp only [hc, if_true]
      omega
    rw [hp]

end Astits.PacketRT
