/-
C08 helper (K1, layer 2): the concrete readers of the test harness, as reader implementations.

* `VReader` — the harness reader `vreader` (wrapped in `vseeker` for the seekable kind): the model's `Reader` plus a
  **read schedule** (`cap k` = the most bytes the k-th `Read` hands out) — this is what the abstract `Reader` forgets;
* `BReader` — a `bufio.Reader` of buffer size `size` on top of a `VReader`: `Read`, `Peek`, `Discard` as in Go's
  `bufio` package.  Its abstract reader is the underlying one with the buffered bytes given back.

Both obey the `io.Reader` contract `ReadStep`, hence `io.ReadFull` over either is `Reader.readFull`.
-/
import Astits.Proofs.Chunking.ReadFull
namespace Astits.Chunking

/-! ### the harness reader -/

structure VReader where
  r : Reader
  /-- read schedule: the `k`-th call of `Read` hands out at most `c + 1` bytes when `cap k = some c`, and as many as
  asked for when `cap k = none` -/
  cap : Nat → Option Nat := fun _ => none
  call : Nat := 0

def VReader.chunk (v : VReader) (n : Nat) : Nat :=
  match v.cap v.call with
  | none => n
  | some c => min (c + 1) n

/-- the number of bytes `vreader.Read(p)`, `len(p) = n`, hands out: the chunk limit, never across the fault offset,
never beyond the data -/
def VReader.grant (v : VReader) (n : Nat) : Nat :=
  let n1 := v.chunk n
  let n2 := match v.r.faultActive with
    | some f => if v.r.pos < f ∧ f - v.r.pos < n1 then f - v.r.pos else n1
    | none => n1
  min n2 (v.r.data.length - v.r.pos)

/-- `vreader.Read(p)`, `len(p) = n`: the fault test comes first -/
def VReader.read (v : VReader) (n : Nat) : Bytes × Option ReadErr × VReader :=
  if v.r.faultActive = some v.r.pos then
    ([], some .injected, { v with r := { v.r with faultDone := v.r.faultOnce } })
  else if v.grant n = 0 then ([], some .eof, { v with call := v.call + 1 })
  else ((v.r.data.drop v.r.pos).take (v.grant n), none,
        { v with r := { v.r with pos := v.r.pos + v.grant n }, call := v.call + 1 })

def VImpl : ReaderImpl VReader := { read := VReader.read, abs := fun v => v.r, inv := fun _ => True }

theorem chunk_pos (v : VReader) (n : Nat) (hn : 0 < n) : 0 < v.chunk n ∧ v.chunk n ≤ n := by
  unfold VReader.chunk
  split
  · exact ⟨hn, Nat.le_refl _⟩
  · omega

theorem VReader.grant_eof (v : VReader) (n : Nat) (he : v.r.data.length ≤ v.r.pos) : v.grant n = 0 := by
  unfold VReader.grant
  have h0 : v.r.data.length - v.r.pos = 0 := by omega
  simp only [h0, Nat.min_zero]

theorem VReader.grant_spec (v : VReader) (n : Nat) (hn : 0 < n) (hf : v.r.faultActive ≠ some v.r.pos)
    (he : ¬ v.r.data.length ≤ v.r.pos) :
    0 < v.grant n ∧ v.grant n ≤ n ∧ v.r.pos + v.grant n ≤ v.r.data.length ∧
      ∀ f, v.r.faultActive = some f → v.r.pos < f → v.r.pos + v.grant n ≤ f := by
  obtain ⟨hc0, hcn⟩ := chunk_pos v n hn
  unfold VReader.grant
  cases hfa : v.r.faultActive with
  | none =>
    simp only
    exact ⟨by omega, by omega, by omega, fun f h => by cases h⟩
  | some f =>
    simp only
    have hne : f ≠ v.r.pos := fun e => hf (by rw [hfa, e])
    by_cases hc : v.r.pos < f ∧ f - v.r.pos < v.chunk n
    · simp only [hc, and_self, if_true]
      refine ⟨by omega, by omega, by omega, fun f' h hlt => ?_⟩
      cases h; omega
    · simp only [hc, if_false]
      refine ⟨by omega, by omega, by omega, fun f' h hlt => ?_⟩
      cases h; omega

/-- one `vreader.Read` is a `ReadStep` -/
theorem VReader.read_step (v : VReader) (n : Nat) (hn : 0 < n) :
    ReadStep v.r n (v.read n).1 (v.read n).2.1 (v.read n).2.2.r := by
  unfold ReadStep VReader.read
  by_cases hf : v.r.faultActive = some v.r.pos
  · rw [if_pos hf, if_pos hf]; exact ⟨rfl, rfl, rfl⟩
  · rw [if_neg hf, if_neg hf]
    by_cases he : v.r.data.length ≤ v.r.pos
    · rw [if_pos he, if_pos (v.grant_eof n he)]; exact ⟨rfl, rfl, rfl⟩
    · obtain ⟨h1, h2, h3, h4⟩ := v.grant_spec n hn hf he
      rw [if_neg he, if_neg (by omega)]
      exact ⟨v.grant n, h1, h2, h3, h4, rfl, rfl, rfl⟩

theorem VImpl_conforms : Conforms VImpl := fun v n _ hn => ⟨trivial, v.read_step n hn⟩

/-- what a `Read` leaves untouched -/
theorem VReader.read_frame (v : VReader) (n : Nat) :
    (v.read n).2.2.r.data = v.r.data ∧ (v.read n).2.2.r.kind = v.r.kind ∧ (v.read n).2.2.cap = v.cap := by
  unfold VReader.read
  split
  · exact ⟨rfl, rfl, rfl⟩
  · split <;> exact ⟨rfl, rfl, rfl⟩

/-! ### `bufio.Reader` on top of the harness reader -/

structure BReader where
  v : VReader
  /-- the buffered, not yet delivered bytes `b.buf[b.r:b.w]` -/
  buf : Bytes := []
  /-- `len(b.buf)` -/
  size : Nat := 4096

/-- `bufio.Reader.Read(p)`, `len(p) = n > 0`: from the buffer when it holds bytes; otherwise one `Read` of the
underlying reader — directly into `p` when `p` is at least as large as the buffer, else into the buffer.
(The sticky `b.err` is not modelled: the underlying reader returns bytes or an error, never both, so the error is
always handed out by the same call that received it.) -/
def BReader.read (b : BReader) (n : Nat) : Bytes × Option ReadErr × BReader :=
  if b.buf = [] then
    if b.size ≤ n then
      let res := b.v.read n
      (res.1, res.2.1, { b with v := res.2.2 })
    else
      let res := b.v.read b.size
      if res.1 = [] then ([], res.2.1, { b with v := res.2.2 })
      else (res.1.take n, none, { b with v := res.2.2, buf := res.1.drop n })
  else (b.buf.take n, none, { b with buf := b.buf.drop n })

/-- the reader `bufio` presents: the underlying one with the buffered bytes given back -/
def BReader.abs (b : BReader) : Reader := { b.v.r with pos := b.v.r.pos - b.buf.length }

/-- representation invariant: the buffer holds the bytes just before the underlying position, and the active fault
offset does not lie inside the buffered range -/
structure BReader.Inv (b : BReader) : Prop where
  hle : b.buf.length ≤ b.v.r.pos
  hpos : b.v.r.pos ≤ b.v.r.data.length
  hbuf : b.buf = (b.v.r.data.drop (b.v.r.pos - b.buf.length)).take b.buf.length
  hfault : ∀ f, b.v.r.faultActive = some f → f < b.v.r.pos - b.buf.length ∨ b.v.r.pos ≤ f
  hsize : 0 < b.size

def BImpl : ReaderImpl BReader := { read := BReader.read, abs := BReader.abs, inv := BReader.Inv }

theorem take_take_drop (data : Bytes) (p m n : Nat) (h : n ≤ m) :
    ((data.drop p).take m).take n = (data.drop p).take n := by
  rw [List.take_take, Nat.min_eq_left h]

theorem drop_take_drop (data : Bytes) (p m n : Nat) :
    ((data.drop p).take m).drop n = (data.drop (p + n)).take (m - n) := by
  rw [List.drop_take, List.drop_drop]

theorem buf_drop (data : Bytes) (upos m n : Nat) (h : m ≤ upos) :
    ((data.drop (upos - m)).take m).drop n = (data.drop (upos - (m - n))).take (m - n) := by
  by_cases c : n ≤ m
  · rw [List.drop_take, List.drop_drop]
    have : upos - m + n = upos - (m - n) := by omega
    rw [this]
  · have : m - n = 0 := by omega
    rw [this, List.take_zero, List.drop_eq_nil_iff, List.length_take]
    omega

theorem reader_pos_sub_zero (r : Reader) : ({ r with pos := r.pos - 0 } : Reader) = r := rfl

theorem BReader.abs_nil (b : BReader) (h : b.buf = []) : b.abs = b.v.r := by
  unfold BReader.abs; rw [h]; rfl

/-- serving `n` bytes from a non-empty buffer -/
theorem BReader.read_buffered (b : BReader) (n : Nat) (hn : 0 < n) (hi : b.Inv) (hb : b.buf ≠ []) :
    BReader.Inv { b with buf := b.buf.drop n } ∧
    ReadStep b.abs n (b.buf.take n) none (BReader.abs { b with buf := b.buf.drop n }) := by
  obtain ⟨hle, hpos, hbuf, hfault, hsize⟩ := hi
  have hm : 0 < b.buf.length := List.length_pos_iff.mpr hb
  constructor
  · refine ⟨?_, hpos, ?_, ?_, hsize⟩
    · simp only [List.length_drop]; omega
    · simp only [List.length_drop]
      conv => lhs; rw [hbuf]
      exact buf_drop _ _ _ _ hle
    · intro f hf
      simp only [List.length_drop]
      rcases hfault f hf with h | h
      · left; omega
      · right; exact h
  · unfold ReadStep BReader.abs
    have hnf : ¬ ((({ b.v.r with pos := b.v.r.pos - b.buf.length } : Reader).faultActive) = some (b.v.r.pos - b.buf.length)) := by
      intro e
      rcases hfault _ e with h | h <;> omega
    have hne : ¬ (b.v.r.data.length ≤ b.v.r.pos - b.buf.length) := by omega
    rw [if_neg hnf, if_neg hne]
    refine ⟨min n b.buf.length, by omega, by omega, by simp only; omega, ?_, ?_, rfl, ?_⟩
    · intro f hf hlt
      rcases hfault f hf with h | h
      · simp only at hlt; omega
      · simp only; omega
    · conv => lhs; rw [hbuf]
      simp only [List.take_take]
    · simp only [List.length_drop, Reader.mk.injEq, true_and, and_true]; omega

/-- what one underlying `Read` into the buffer gives: delivery of the first `n` bytes of it -/
theorem BReader.read_fill (b : BReader) (n m : Nat) (hn : 0 < n) (hm : 0 < m) (hi : b.Inv) (hb : b.buf = [])
    (bs : Bytes) (e : Option ReadErr) (v' : VReader) (hres : b.v.read m = (bs, e, v')) :
    (bs = [] →
      BReader.Inv { b with v := v' } ∧ ReadStep b.abs n [] e (BReader.abs { b with v := v' })) ∧
    (bs ≠ [] →
      BReader.Inv { b with v := v', buf := bs.drop n } ∧
      ReadStep b.abs n (bs.take n) none (BReader.abs { b with v := v', buf := bs.drop n })) := by
  obtain ⟨hle, hpos, hbuf, hfault, hsize⟩ := hi
  have hstep := b.v.read_step m hm
  have habs := b.abs_nil hb
  rw [hres] at hstep
  simp only at hstep
  unfold ReadStep at hstep
  by_cases hf : b.v.r.faultActive = some b.v.r.pos
  · rw [if_pos hf] at hstep
    obtain ⟨rfl, rfl, hv'⟩ := hstep
    refine ⟨fun _ => ⟨⟨?_, ?_, ?_, ?_, hsize⟩, ?_⟩, fun h => absurd rfl h⟩
    · simp only [hb, List.length_nil]; omega
    · simp only [hv']; exact hpos
    · simp only [hb, List.length_nil, List.take_zero]
    · intro f _; simp only [hb, List.length_nil, hv']; omega
    · unfold ReadStep
      rw [habs, if_pos hf]
      refine ⟨rfl, rfl, ?_⟩
      unfold BReader.abs
      simp only [hb, List.length_nil, hv']
      rfl
  · rw [if_neg hf] at hstep
    by_cases he : b.v.r.data.length ≤ b.v.r.pos
    · rw [if_pos he] at hstep
      obtain ⟨rfl, rfl, hv'⟩ := hstep
      refine ⟨fun _ => ⟨⟨?_, ?_, ?_, ?_, hsize⟩, ?_⟩, fun h => absurd rfl h⟩
      · simp only [hb, List.length_nil]; omega
      · simp only [hv']; exact hpos
      · simp only [hb, List.length_nil, List.take_zero]
      · intro f _; simp only [hb, List.length_nil, hv']; omega
      · unfold ReadStep
        rw [habs, if_neg hf, if_pos he]
        refine ⟨rfl, rfl, ?_⟩
        unfold BReader.abs
        simp only [hb, List.length_nil, hv']
        rfl
    · rw [if_neg he] at hstep
      obtain ⟨k, hk0, hkm, hklen, hkf, rfl, rfl, hv'⟩ := hstep
      have hlen : ((b.v.r.data.drop b.v.r.pos).take k).length = k := by
        rw [List.length_take, List.length_drop]; omega
      have hne : (b.v.r.data.drop b.v.r.pos).take k ≠ [] := by
        intro e; rw [e] at hlen; simp at hlen; omega
      refine ⟨fun h => absurd h hne, fun _ => ⟨⟨?_, ?_, ?_, ?_, hsize⟩, ?_⟩⟩
      · simp only [List.length_drop, hlen, hv']; omega
      · simp only [hv']; exact hklen
      · simp only [List.length_drop, hlen, hv']
        have := buf_drop b.v.r.data (b.v.r.pos + k) k n (by omega)
        rw [Nat.add_sub_cancel] at this
        exact this
      · intro f hfa
        simp only [List.length_drop, hlen, hv'] at hfa ⊢
        have hfa' : b.v.r.faultActive = some f := hfa
        have hne' : f ≠ b.v.r.pos := fun e => hf (by rw [hfa', e])
        by_cases c : b.v.r.pos < f
        · right; exact hkf f hfa' c
        · left; omega
      · unfold ReadStep
        rw [habs, if_neg hf, if_neg he]
        refine ⟨min n k, by omega, by omega, by omega, ?_, ?_, rfl, ?_⟩
        · intro f hfa hlt
          have := hkf f hfa hlt
          omega
        · simp only [List.take_take]
        · unfold BReader.abs
          simp only [List.length_drop, hlen, hv', Reader.mk.injEq, true_and, and_true]
          omega

theorem VReader.read_length_le (v : VReader) (n : Nat) (hn : 0 < n) : (v.read n).1.length ≤ n := by
  have hst := v.read_step n hn
  unfold ReadStep at hst
  split at hst
  · rw [hst.1]; simp
  · split at hst
    · rw [hst.1]; simp
    · obtain ⟨k, _, hkn, _, _, e, _⟩ := hst
      rw [e, List.length_take]; omega

theorem VReader.read_none_of_bytes (v : VReader) (n : Nat) (hn : 0 < n) (hr : (v.read n).1 ≠ []) :
    (v.read n).2.1 = none := by
  have hst := v.read_step n hn
  unfold ReadStep at hst
  split at hst
  · exact absurd hst.1 hr
  · split at hst
    · exact absurd hst.1 hr
    · obtain ⟨k, _, _, _, _, _, e, _⟩ := hst; exact e

/-- one `Read` passed straight to the underlying reader (empty buffer) -/
theorem BReader.read_direct (b : BReader) (n : Nat) (hn : 0 < n) (hi : b.Inv) (hb : b.buf = []) :
    BReader.Inv { b with v := (b.v.read n).2.2 } ∧
    ReadStep b.abs n (b.v.read n).1 (b.v.read n).2.1 (BReader.abs { b with v := (b.v.read n).2.2 }) := by
  have hl := b.v.read_length_le n hn
  have hnone := b.v.read_none_of_bytes n hn
  rcases hres : b.v.read n with ⟨bs, e, v'⟩
  rw [hres] at hl hnone
  simp only at hl hnone ⊢
  have h := b.read_fill n n hn hn hi hb bs e v' hres
  by_cases hr : bs = []
  · have := h.1 hr
    rw [hr]
    exact this
  · have := h.2 hr
    -- the whole read is delivered: nothing stays in the buffer
    rw [List.take_of_length_le hl, List.drop_eq_nil_of_le hl] at this
    rw [hnone hr]
    have hbb : ({ b with v := v' } : BReader) = { b with v := v', buf := [] } := by
      cases b; simp only at hb; subst hb; rfl
    rw [hbb]
    exact this

/-- `bufio.Reader.Read` obeys the reader contract and keeps the representation invariant -/
theorem BImpl_conforms : Conforms BImpl := by
  intro b n hi hn
  show BReader.Inv (b.read n).2.2 ∧ ReadStep b.abs n (b.read n).1 (b.read n).2.1 (b.read n).2.2.abs
  unfold BReader.read
  by_cases hb : b.buf = []
  · rw [if_pos hb]
    by_cases hs : b.size ≤ n
    · rw [if_pos hs]
      exact b.read_direct n hn hi hb
    · rw [if_neg hs]
      rcases hres : b.v.read b.size with ⟨bs, e, v'⟩
      have h := b.read_fill n b.size hn hi.hsize hi hb bs e v' hres
      simp only
      by_cases hr : bs = []
      · rw [if_pos hr]; exact h.1 hr
      · rw [if_neg hr]; exact h.2 hr
  · rw [if_neg hb]
    exact b.read_buffered n hn hi hb

end Astits.Chunking
