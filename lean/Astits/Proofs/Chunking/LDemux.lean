/-
C08 helper (K1, layer 4): the demuxer over the concrete reader, and its refinement of the model's demuxer.
-/
import Astits.Proofs.Chunking.LowLevel
namespace Astits.Chunking

/-- demuxer state over a concrete reader: `d` holds every field of the model's demuxer state but the reader
(`d.r` is never looked at by the operations below; the reader is `lr`) -/
structure LDemux where
  lr : LReader
  d : Demux

/-- the model state it stands for: the abstract reader put in place -/
def LDemux.abs (ld : LDemux) : Demux := { ld.d with r := ld.lr.abs }

/-- `packetBuffer.next()` over the concrete reader -/
def LDemux.bufferNext (ld : LDemux) (size : Nat) : Nat → Res Packet × LDemux
  | 0 => (.err .other, ld)
  | fuel + 1 =>
    match (ioReadFull LImpl ld.lr size).2.1 with
    | some .injected => (.err .io, { ld with lr := (ioReadFull LImpl ld.lr size).2.2 })
    | some _ => (.err .eof, { ld with lr := (ioReadFull LImpl ld.lr size).2.2 })
    | none =>
      match (parsePacket none).val (ioReadFull LImpl ld.lr size).1 with
      | .ok p =>
        if (ld.d.consultSkipper { p with payload := [] }).1 then
          LDemux.bufferNext
            { lr := (ioReadFull LImpl ld.lr size).2.2, d := (ld.d.consultSkipper { p with payload := [] }).2 } size fuel
        else (.ok p, { lr := (ioReadFull LImpl ld.lr size).2.2, d := (ld.d.consultSkipper { p with payload := [] }).2 })
      | .err e => (.err (if e = .sync then .sync else .other), { ld with lr := (ioReadFull LImpl ld.lr size).2.2 })
      | .panic => (.panic, { ld with lr := (ioReadFull LImpl ld.lr size).2.2 })

/-- the packet buffer creation of `Demuxer.NextPacket` -/
def LDemux.ensureBuffer (ld : LDemux) : Res Nat × LDemux :=
  match ld.d.packetSize with
  | some s => (.ok s, ld)
  | none =>
    if ld.d.optPacketSize ≠ 0 then (.ok ld.d.optPacketSize, { ld with d := { ld.d with packetSize := some ld.d.optPacketSize } })
    else
      match (lAutoDetect ld.lr).1 with
      | .ok s => (.ok s, { lr := (lAutoDetect ld.lr).2, d := { ld.d with packetSize := some s } })
      | .err e => (.err e, { ld with lr := (lAutoDetect ld.lr).2 })
      | .panic => (.panic, { ld with lr := (lAutoDetect ld.lr).2 })

/-- `Demuxer.NextPacket` over the concrete reader -/
def LDemux.nextPacket (ld : LDemux) : Res Packet × LDemux :=
  match ld.ensureBuffer.1 with
  | .ok s => ld.ensureBuffer.2.bufferNext s (ld.ensureBuffer.2.lr.v.r.data.length + 2)
  | .err e => (.err e, ld.ensureBuffer.2)
  | .panic => (.panic, ld.ensureBuffer.2)

/-- what `NextData` does with the packets `ps` flushed by the pool (no reader access): parser, data buffer.
`none`: nothing to return yet, go on with the next packet. -/
def flushStep (d : Demux) (ps : List Packet) (pool' : Pool) : Option (Res DemuxerData) × Demux :=
  if ps.isEmpty then (none, { d with pool := pool' })
  else
    match parseData ps (Demux.logParser { d with pool := pool' } ps).parser
        (Demux.logParser { d with pool := pool' } ps).programMap with
    | .err e => (some (.err e), Demux.logParser { d with pool := pool' } ps)
    | .panic => (some .panic, Demux.logParser { d with pool := pool' } ps)
    | .ok ds =>
      match ((Demux.logParser { d with pool := pool' } ps).updateData ds).1 with
      | some x => (some (.ok x), ((Demux.logParser { d with pool := pool' } ps).updateData ds).2)
      | none => (none, ((Demux.logParser { d with pool := pool' } ps).updateData ds).2)

/-- what `NextData` does with a packet (no reader access): pool, parser, data buffer -/
def packetStep (d : Demux) (p : Packet) : Option (Res DemuxerData) × Demux :=
  flushStep d (poolAdd d.programMap d.pool p).1 (poolAdd d.programMap d.pool p).2

/-- the packet loop of `Demuxer.NextData` over the concrete reader -/
def LDemux.dataLoop (ld : LDemux) : Nat → Res DemuxerData × LDemux
  | 0 => (.err .other, ld)
  | fuel + 1 =>
    match ld.nextPacket.1 with
    | .err .eof =>
      ((ld.nextPacket.2.d.drain (ld.nextPacket.2.d.pool.length + 1)).1,
       { ld.nextPacket.2 with d := (ld.nextPacket.2.d.drain (ld.nextPacket.2.d.pool.length + 1)).2 })
    | .err e => (.err e, ld.nextPacket.2)
    | .panic => (.panic, ld.nextPacket.2)
    | .ok p =>
      match (packetStep ld.nextPacket.2.d p).1 with
      | some res => (res, { ld.nextPacket.2 with d := (packetStep ld.nextPacket.2.d p).2 })
      | none => LDemux.dataLoop { ld.nextPacket.2 with d := (packetStep ld.nextPacket.2.d p).2 } fuel

/-- `Demuxer.NextData` over the concrete reader -/
def LDemux.nextData (ld : LDemux) : Res DemuxerData × LDemux :=
  match ld.d.dataBuffer with
  | x :: rest => (.ok x, { ld with d := { ld.d with dataBuffer := rest } })
  | [] => ld.dataLoop (ld.lr.v.r.data.length + 2)

/-! ### frame lemmas: what does not touch the reader -/

/-- put a reader in place -/
def setR (d : Demux) (x : Reader) : Demux := { d with r := x }

theorem LDemux.abs_eq (ld : LDemux) : ld.abs = setR ld.d ld.lr.abs := rfl

@[simp] theorem setR_r (d : Demux) (x : Reader) : (setR d x).r = x := rfl
@[simp] theorem setR_pool (d : Demux) (x : Reader) : (setR d x).pool = d.pool := rfl
@[simp] theorem setR_parser (d : Demux) (x : Reader) : (setR d x).parser = d.parser := rfl
@[simp] theorem setR_programMap (d : Demux) (x : Reader) : (setR d x).programMap = d.programMap := rfl
@[simp] theorem setR_packetSize (d : Demux) (x : Reader) : (setR d x).packetSize = d.packetSize := rfl
@[simp] theorem setR_optPacketSize (d : Demux) (x : Reader) : (setR d x).optPacketSize = d.optPacketSize := rfl
@[simp] theorem setR_dataBuffer (d : Demux) (x : Reader) : (setR d x).dataBuffer = d.dataBuffer := rfl
@[simp] theorem setR_setR (d : Demux) (x y : Reader) : setR (setR d x) y = setR d y := rfl

theorem setR_upd_pool (d : Demux) (x : Reader) (p : Pool) :
    ({ setR d x with pool := p } : Demux) = setR { d with pool := p } x := rfl
theorem setR_upd_r (d : Demux) (x y : Reader) : ({ setR d x with r := y } : Demux) = setR d y := rfl
theorem setR_upd_packetSize (d : Demux) (x : Reader) (s : Option Nat) :
    ({ setR d x with packetSize := s } : Demux) = setR { d with packetSize := s } x := rfl
theorem setR_upd_dataBuffer (d : Demux) (x : Reader) (s : List DemuxerData) :
    ({ setR d x with dataBuffer := s } : Demux) = setR { d with dataBuffer := s } x := rfl

theorem consultSkipper_setR (d : Demux) (x : Reader) (p : Packet) :
    (setR d x).consultSkipper p = ((d.consultSkipper p).1, setR (d.consultSkipper p).2 x) := by
  obtain ⟨r, o, sk, pa, ps, pool, pm, db, sl, pl, si⟩ := d
  cases sk <;> rfl

theorem logParser_setR (d : Demux) (x : Reader) (ps : List Packet) :
    (setR d x).logParser ps = setR (d.logParser ps) x := by
  obtain ⟨r, o, sk, pa, ps, pool, pm, db, sl, pl, si⟩ := d
  unfold Demux.logParser setR
  simp only
  split <;> rfl

theorem updateData_setR (d : Demux) (x : Reader) (ds : List DemuxerData) :
    (setR d x).updateData ds = ((d.updateData ds).1, setR (d.updateData ds).2 x) := by
  unfold Demux.updateData
  cases ds <;> rfl

theorem drain_setR (x : Reader) : ∀ (fuel : Nat) (d : Demux),
    (setR d x).drain fuel = ((d.drain fuel).1, setR (d.drain fuel).2 x) := by
  intro fuel
  induction fuel with
  | zero => intro d; rfl
  | succ fuel ih =>
    intro d
    unfold Demux.drain
    rcases hpd : poolDump d.pool with ⟨ps, pool'⟩
    simp only [setR_pool, hpd]
    simp only [setR_upd_pool]
    simp only [logParser_setR, setR_parser, setR_programMap]
    split
    · rfl
    · split
      · simp only [updateData_setR]
        split
        · rfl
        · exact ih _
      · exact ih _
      · rfl

/-! ### refinement -/

theorem bufferNext_refines (size : Nat) : ∀ (fuel : Nat) (ld : LDemux), LReader.Inv ld.lr →
    (ld.bufferNext size fuel).1 = (ld.abs.bufferNext size fuel).1 ∧
    (ld.bufferNext size fuel).2.abs = (ld.abs.bufferNext size fuel).2 ∧
    LReader.Inv (ld.bufferNext size fuel).2.lr := by
  intro fuel
  induction fuel with
  | zero => intro ld hi; exact ⟨rfl, rfl, hi⟩
  | succ fuel ih =>
    intro ld hi
    obtain ⟨q1, q2, q3, q4⟩ := lReadFull_refines ld.lr size hi
    rw [LDemux.abs_eq]
    unfold LDemux.bufferNext Demux.bufferNext
    rw [q1, q2]
    rcases hrf : ld.lr.abs.readFull size with ⟨bs, e, r'⟩
    rw [hrf] at q3
    simp only at q3
    simp only [setR_r, hrf]
    simp only [setR_upd_r]
    cases e with
    | some e =>
      cases e <;> exact ⟨rfl, by rw [LDemux.abs_eq, q3], q4⟩
    | none =>
      simp only
      cases hpp : (parsePacket none).val bs with
      | ok p =>
        simp only [consultSkipper_setR]
        by_cases hsk : (ld.d.consultSkipper { p with payload := [] }).1 = true
        · simp only [hsk, if_true]
          have := ih { lr := (ioReadFull LImpl ld.lr size).2.2, d := (ld.d.consultSkipper { p with payload := [] }).2 } q4
          rw [LDemux.abs_eq] at this
          simp only [q3] at this
          exact this
        · simp only [hsk, if_false, Bool.false_eq_true]
          exact ⟨by triv, by rw [LDemux.abs_eq, q3], q4⟩
      | err e => exact ⟨rfl, by rw [LDemux.abs_eq, q3], q4⟩
      | panic => exact ⟨rfl, by rw [LDemux.abs_eq, q3], q4⟩

/-- the packet buffer creation of the model's `nextPacket` -/
def absEnsure (d : Demux) : Res Nat × Demux :=
  match d.packetSize with
  | some s => (.ok s, d)
  | none =>
    if d.optPacketSize ≠ 0 then (.ok d.optPacketSize, { d with packetSize := some d.optPacketSize })
    else
      match (autoDetectPacketSize d.r).1 with
      | .ok s => (.ok s, { d with r := (autoDetectPacketSize d.r).2, packetSize := some s })
      | .err e => (.err e, { d with r := (autoDetectPacketSize d.r).2 })
      | .panic => (.panic, { d with r := (autoDetectPacketSize d.r).2 })

theorem nextPacket_cut (d : Demux) :
    d.nextPacket =
      (match (absEnsure d).1 with
       | .ok s => (absEnsure d).2.bufferNext s ((absEnsure d).2.r.data.length + 2)
       | .err e => (.err e, (absEnsure d).2)
       | .panic => (.panic, (absEnsure d).2)) := by
  obtain ⟨r, o, sk, pa, ps, pool, pm, db, sl, pl, si⟩ := d
  unfold Demux.nextPacket absEnsure
  cases ps with
  | some s => rfl
  | none =>
    simp only
    by_cases ho : o ≠ 0
    · rw [if_pos ho, if_pos ho]
    · rw [if_neg ho, if_neg ho]
      rcases autoDetectPacketSize r with ⟨res, r'⟩
      cases res <;> rfl

theorem ensureBuffer_refines (ld : LDemux) (hi : LReader.Inv ld.lr) :
    ld.ensureBuffer.1 = (absEnsure ld.abs).1 ∧ ld.ensureBuffer.2.abs = (absEnsure ld.abs).2 ∧
    LReader.Inv ld.ensureBuffer.2.lr := by
  obtain ⟨lr, ⟨r, o, sk, pa, ps, pool, pm, db, sl, pl, si⟩⟩ := ld
  simp only at hi
  unfold LDemux.ensureBuffer absEnsure LDemux.abs
  simp only
  cases ps with
  | some s => exact ⟨rfl, rfl, hi⟩
  | none =>
    simp only
    by_cases ho : o ≠ 0
    · rw [if_pos ho, if_pos ho]
      exact ⟨rfl, rfl, hi⟩
    · rw [if_neg ho, if_neg ho]
      obtain ⟨a1, a2, a3⟩ := lAutoDetect_refines lr hi
      rw [a1]
      rcases had : autoDetectPacketSize lr.abs with ⟨res, r'⟩
      rw [had] at a2
      simp only at a2
      cases res with
      | ok s => exact ⟨rfl, by simp only [a2], a3⟩
      | err e => exact ⟨rfl, by simp only [a2], a3⟩
      | panic => exact ⟨rfl, by simp only [a2], a3⟩

theorem abs_data (ld : LDemux) : ld.abs.r.data = ld.lr.v.r.data := rfl

/-- **`NextPacket` over the concrete reader = the model's `nextPacket`** on the abstract state -/
theorem nextPacket_refines (ld : LDemux) (hi : LReader.Inv ld.lr) :
    ld.nextPacket.1 = ld.abs.nextPacket.1 ∧ ld.nextPacket.2.abs = ld.abs.nextPacket.2 ∧
    LReader.Inv ld.nextPacket.2.lr := by
  obtain ⟨e1, e2, e3⟩ := ensureBuffer_refines ld hi
  rw [nextPacket_cut]
  unfold LDemux.nextPacket
  rw [← e1, ← e2]
  cases ld.ensureBuffer.1 with
  | ok s =>
    simp only
    rw [abs_data]
    exact bufferNext_refines s _ _ e3
  | err e => exact ⟨rfl, rfl, e3⟩
  | panic => exact ⟨rfl, rfl, e3⟩

/-- the model's packet loop, cut at the packet step -/
theorem dataLoop_cut (d : Demux) (fuel : Nat) :
    d.dataLoop (fuel + 1) =
      (match d.nextPacket.1 with
       | .err .eof => d.nextPacket.2.drain (d.nextPacket.2.pool.length + 1)
       | .err e => (.err e, d.nextPacket.2)
       | .panic => (.panic, d.nextPacket.2)
       | .ok p =>
         match (packetStep d.nextPacket.2 p).1 with
         | some res => (res, (packetStep d.nextPacket.2 p).2)
         | none => (packetStep d.nextPacket.2 p).2.dataLoop fuel) := by
  conv => lhs; unfold Demux.dataLoop
  rcases d.nextPacket with ⟨rp, d1⟩
  simp only
  cases rp with
  | err e => cases e <;> rfl
  | panic => rfl
  | ok p =>
    simp only
    unfold packetStep flushStep
    rcases poolAdd d1.programMap d1.pool p with ⟨ps, pool'⟩
    simp only
    by_cases he : ps.isEmpty = true
    · simp only [he, if_true]
    · simp only [he, if_false, Bool.false_eq_true]
      cases parseData ps (Demux.logParser { d1 with pool := pool' } ps).parser
          (Demux.logParser { d1 with pool := pool' } ps).programMap with
      | err e => rfl
      | panic => rfl
      | ok ds =>
        simp only
        rcases (Demux.logParser { d1 with pool := pool' } ps).updateData ds with ⟨x, d2⟩
        cases x <;> rfl

theorem flushStep_setR (d : Demux) (x : Reader) (ps : List Packet) (pool' : Pool) :
    flushStep (setR d x) ps pool' = ((flushStep d ps pool').1, setR (flushStep d ps pool').2 x) := by
  unfold flushStep
  simp only [setR_upd_pool]
  simp only [logParser_setR, setR_parser, setR_programMap]
  by_cases he : ps.isEmpty = true
  · simp only [he, if_true]
  · simp only [he, if_false, Bool.false_eq_true]
    cases parseData ps (Demux.logParser { d with pool := pool' } ps).parser
        (Demux.logParser { d with pool := pool' } ps).programMap with
    | err e => rfl
    | panic => rfl
    | ok ds =>
      simp only [updateData_setR]
      cases ((Demux.logParser { d with pool := pool' } ps).updateData ds).1 <;> rfl

theorem packetStep_setR (d : Demux) (x : Reader) (p : Packet) :
    packetStep (setR d x) p = ((packetStep d p).1, setR (packetStep d p).2 x) :=
  flushStep_setR d x _ _

theorem dataLoop_refines : ∀ (fuel : Nat) (ld : LDemux), LReader.Inv ld.lr →
    (ld.dataLoop fuel).1 = (ld.abs.dataLoop fuel).1 ∧ (ld.dataLoop fuel).2.abs = (ld.abs.dataLoop fuel).2 ∧
    LReader.Inv (ld.dataLoop fuel).2.lr := by
  intro fuel
  induction fuel with
  | zero => intro ld hi; exact ⟨rfl, rfl, hi⟩
  | succ fuel ih =>
    intro ld hi
    obtain ⟨n1, n2, n3⟩ := nextPacket_refines ld hi
    rw [dataLoop_cut]
    unfold LDemux.dataLoop
    rw [← n1, ← n2]
    cases ld.nextPacket.1 with
    | err e =>
      cases e
      case eof =>
        simp only
        rw [LDemux.abs_eq, drain_setR, setR_pool]
        exact ⟨rfl, rfl, n3⟩
      all_goals exact ⟨rfl, rfl, n3⟩
    | panic => exact ⟨rfl, rfl, n3⟩
    | ok p =>
      simp only
      rw [LDemux.abs_eq, packetStep_setR]
      simp only
      cases hps : (packetStep ld.nextPacket.2.d p).1 with
      | some res => exact ⟨rfl, rfl, n3⟩
      | none =>
        simp only
        exact ih { ld.nextPacket.2 with d := (packetStep ld.nextPacket.2.d p).2 } n3

/-- **`NextData` over the concrete reader = the model's `nextData`** on the abstract state -/
theorem nextData_refines (ld : LDemux) (hi : LReader.Inv ld.lr) :
    ld.nextData.1 = ld.abs.nextData.1 ∧ ld.nextData.2.abs = ld.abs.nextData.2 ∧
    LReader.Inv ld.nextData.2.lr := by
  unfold LDemux.nextData Demux.nextData
  have hdb : ld.abs.dataBuffer = ld.d.dataBuffer := rfl
  rw [hdb]
  cases ld.d.dataBuffer with
  | cons x rest => exact ⟨rfl, rfl, hi⟩
  | nil =>
    simp only
    rw [abs_data]
    exact dataLoop_refines _ ld hi

end Astits.Chunking
