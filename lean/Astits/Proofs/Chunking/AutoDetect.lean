/-
C08 helper (K3 and the reader kinds): what `autoDetectPacketSize` returns, exactly; auto-detected size = explicit
size on streams whose detection is unambiguous; which reader kinds are interchangeable.
-/
import Astits.Proofs.Chunking.Sized
namespace Astits.Chunking

/-! ### the sync byte search -/

/-- the exact condition for `findSync b = some s`: `s` is the first index in `188..192` holding a sync byte -/
theorem findSync_iff (b : Bytes) (s : Nat) :
    findSync b = some s ↔
      (188 ≤ s ∧ s < 193 ∧ b.getD s 0 = syncByte ∧ ∀ j, 188 ≤ j → j < s → b.getD j 0 ≠ syncByte) := by
  unfold findSync
  rw [List.head?_filter, List.find?_range_eq_some]
  simp only [ge_iff_le, Bool.and_eq_true, decide_eq_true_eq, beq_iff_eq, List.mem_range, Bool.not_and,
    Bool.or_eq_true, Bool.not_eq_eq_eq_not, Bool.not_true, decide_eq_false_iff_not, Nat.not_le,
    beq_eq_false_iff_ne, ne_eq]
  constructor
  · rintro ⟨⟨h1, h2⟩, h3, h4⟩
    refine ⟨h1, h3, h2, fun j hj hjs => ?_⟩
    rcases h4 j hjs with h | h
    · omega
    · exact h
  · rintro ⟨h1, h2, h3, h4⟩
    refine ⟨⟨h1, h3⟩, h2, fun j hjs => ?_⟩
    by_cases c : 188 ≤ j
    · right; exact h4 j c hjs
    · left; omega

theorem findSync_none_iff (b : Bytes) :
    findSync b = none ↔ ∀ j, 188 ≤ j → j < 193 → b.getD j 0 ≠ syncByte := by
  unfold findSync
  rw [List.head?_filter, List.find?_range_eq_none]
  simp only [ge_iff_le, Bool.not_and, Bool.or_eq_true, Bool.not_eq_eq_eq_not, Bool.not_true,
    decide_eq_false_iff_not, Nat.not_le, beq_eq_false_iff_ne, ne_eq]
  constructor
  · intro h j h1 h2
    rcases h j h2 with c | c
    · omega
    · exact c
  · intro h j hj
    by_cases c : 188 ≤ j
    · right; exact h j c hj
    · left; omega

/-- the 193 bytes auto-detection looks at: the next bytes of the stream, zero-padded -/
def peekBytes (r : Reader) : Bytes := padTo ((r.data.drop r.pos).take 193) 193

theorem padTo_take_getD (X : Bytes) (i : Nat) (hi : i < 193) : (padTo (X.take 193) 193).getD i 0 = X.getD i 0 := by
  unfold padTo
  simp only [List.getD_eq_getElem?_getD, List.getElem?_append, List.length_take]
  by_cases c : i < min 193 X.length
  · rw [if_pos c, List.getElem?_take, if_pos hi]
  · rw [if_neg c, List.getElem?_replicate]
    have : X.length ≤ i := by omega
    rw [List.getElem?_eq_none this]
    split <;> rfl

theorem peekBytes_getD (r : Reader) (i : Nat) (hi : i < 193) :
    (peekBytes r).getD i 0 = r.data.getD (r.pos + i) 0 := by
  unfold peekBytes
  rw [padTo_take_getD _ _ hi]
  simp only [List.getD_eq_getElem?_getD, List.getElem?_drop]

/-! ### the peek, without faults -/

theorem not_faultIn_of_none (r : Reader) (n : Nat) (hf : r.faultActive = none) : ¬ faultIn r n := by
  intro ⟨f, h, _⟩; rw [hf] at h; cases h

theorem absPeek_bufio_ok (r : Reader) (hk : r.kind = .bufio) (hf : r.faultActive = none)
    (hne : r.pos < r.data.length) : absPeek r = (peekBytes r, none, r, false) :=
  (absPeek_bufio r hk).2.2 (not_faultIn_of_none r 193 hf) (by omega)

theorem absPeek_bufio_eof (r : Reader) (hk : r.kind = .bufio) (hf : r.faultActive = none)
    (hne : r.data.length ≤ r.pos) : absPeek r = ([], some Err.eof, r, false) :=
  (absPeek_bufio r hk).2.1 (not_faultIn_of_none r 193 hf) (by omega)

theorem absPeek_other_ok (r : Reader) (hk : r.kind ≠ .bufio) (hf : r.faultActive = none)
    (hne : r.pos < r.data.length) :
    absPeek r = (peekBytes r, none, { r with pos := min r.data.length (r.pos + 193) }, true) := by
  rw [absPeek_other r hk]
  unfold Reader.readFull peekBytes
  simp only [hf]
  by_cases c : r.data.length - r.pos ≥ 193
  · simp only [c, if_true]
    have : min r.data.length (r.pos + 193) = r.pos + 193 := by omega
    rw [this]
  · have c0 : ¬ r.data.length - r.pos = 0 := by omega
    simp only [c, c0, if_false]
    have : min r.data.length (r.pos + 193) = r.data.length := by omega
    rw [this, List.take_of_length_le (by rw [List.length_drop]; omega)]

theorem absPeek_other_eof (r : Reader) (hk : r.kind ≠ .bufio) (hf : r.faultActive = none)
    (hne : r.data.length ≤ r.pos) : absPeek r = ([], some Err.eof, r, true) := by
  rw [absPeek_other r hk, readFull_nofault_eof r 193 (by omega) hf hne]

/-! ### unambiguous detection -/

/-- the stream `data`, read from its start, is detected as `size`-byte packets: it starts with a sync byte, the next
sync byte at an offset in `188..192` is at offset `size`.  (A sync byte at an offset in `188..size-1` — inside the first
frame of a `189..192`-byte framing — is excluded: that is the recorded ambiguity `autodetect-heuristic`.) -/
def Unambiguous (data : Bytes) (size : Nat) : Prop :=
  data.getD 0 0 = syncByte ∧ 188 ≤ size ∧ size < 193 ∧ data.getD size 0 = syncByte ∧
    ∀ j, 188 ≤ j → j < size → data.getD j 0 ≠ syncByte

theorem unambiguous_nonempty (data : Bytes) (size : Nat) (h : Unambiguous data size) : 0 < data.length := by
  cases data with
  | nil => have := h.1; simp [syncByte] at this
  | cons _ _ => simp

theorem findSync_peekBytes (r : Reader) (hpos : r.pos = 0) (size : Nat) :
    findSync (peekBytes r) = some size ↔
      (188 ≤ size ∧ size < 193 ∧ r.data.getD size 0 = syncByte ∧
        ∀ j, 188 ≤ j → j < size → r.data.getD j 0 ≠ syncByte) := by
  rw [findSync_iff]
  constructor
  · rintro ⟨h1, h2, h3, h4⟩
    rw [peekBytes_getD r size h2, hpos, Nat.zero_add] at h3
    refine ⟨h1, h2, h3, fun j hj hjs => ?_⟩
    have := h4 j hj hjs
    rw [peekBytes_getD r j (by omega), hpos, Nat.zero_add] at this
    exact this
  · rintro ⟨h1, h2, h3, h4⟩
    refine ⟨h1, h2, ?_, fun j hj hjs => ?_⟩
    · rw [peekBytes_getD r size h2, hpos, Nat.zero_add]; exact h3
    · rw [peekBytes_getD r j (by omega), hpos, Nat.zero_add]; exact h4 j hj hjs

/-- a reader auto-detection can put back where it was: seekable, or a bufio.Reader with a large enough buffer -/
def Rewindable (k : ReaderKind) : Prop := k = .seek ∨ k = .bufio

/-- **the exact condition under which `autoDetectPacketSize` returns `size`** on a rewindable, fault-free reader at
the start of the stream — and the reader is then left (put back) at the start -/
theorem autoDetect_ok_iff (r : Reader) (hk : Rewindable r.kind) (hpos : r.pos = 0) (hf : r.faultActive = none)
    (size : Nat) :
    (autoDetectPacketSize r).1 = .ok size ↔ Unambiguous r.data size := by
  rw [autoDetect_cut]
  by_cases hne : r.pos < r.data.length
  · have hb0 : (peekBytes r).getD 0 0 = r.data.getD 0 0 := by
      rw [peekBytes_getD r 0 (by omega), hpos]
    rcases hk with hk | hk
    · rw [absPeek_other_ok r (by rw [hk]; exact fun h => by cases h) hf hne]
      unfold absAfter
      simp only [hk, hb0]
      by_cases hs : r.data.getD 0 0 = syncByte
      · simp only [hs, ne_eq, not_true_eq_false, if_false]
        cases hfs : findSync (peekBytes r) with
        | none =>
          simp only
          constructor
          · intro h; cases h
          · intro hu
            have := (findSync_peekBytes r hpos size).mpr ⟨hu.2.1, hu.2.2.1, hu.2.2.2.1, hu.2.2.2.2⟩
            rw [hfs] at this; cases this
        | some s =>
          simp only [Bool.not_true, Bool.false_eq_true, if_false]
          constructor
          · intro h
            have hss : s = size := by injection h
            subst hss
            have := (findSync_peekBytes r hpos s).mp hfs
            exact ⟨hs, this⟩
          · intro hu
            have := (findSync_peekBytes r hpos size).mpr ⟨hu.2.1, hu.2.2.1, hu.2.2.2.1, hu.2.2.2.2⟩
            rw [hfs] at this
            injection this with this
            rw [this]
      · simp only [hs, ne_eq, not_false_eq_true, if_true]
        constructor
        · intro h; cases h
        · intro hu; exact absurd hu.1 hs
    · rw [absPeek_bufio_ok r hk hf hne]
      unfold absAfter
      simp only [hk, hb0]
      by_cases hs : r.data.getD 0 0 = syncByte
      · simp only [hs, ne_eq, not_true_eq_false, if_false]
        cases hfs : findSync (peekBytes r) with
        | none =>
          simp only
          constructor
          · intro h; cases h
          · intro hu
            have := (findSync_peekBytes r hpos size).mpr ⟨hu.2.1, hu.2.2.1, hu.2.2.2.1, hu.2.2.2.2⟩
            rw [hfs] at this; cases this
        | some s =>
          simp only [Bool.not_false, if_true]
          constructor
          · intro h
            have hss : s = size := by injection h
            subst hss
            have := (findSync_peekBytes r hpos s).mp hfs
            exact ⟨hs, this⟩
          · intro hu
            have := (findSync_peekBytes r hpos size).mpr ⟨hu.2.1, hu.2.2.1, hu.2.2.2.1, hu.2.2.2.2⟩
            rw [hfs] at this
            injection this with this
            rw [this]
      · simp only [hs, ne_eq, not_false_eq_true, if_true]
        constructor
        · intro h; cases h
        · intro hu; exact absurd hu.1 hs
  · have hne' : r.data.length ≤ r.pos := by omega
    have hnu : ¬ Unambiguous r.data size := by
      intro hu
      have := unambiguous_nonempty _ _ hu
      omega
    rcases hk with hk | hk
    · rw [absPeek_other_eof r (by rw [hk]; exact fun h => by cases h) hf hne']
      unfold absAfter
      simp only
      exact ⟨fun h => (by cases h), fun h => absurd h hnu⟩
    · rw [absPeek_bufio_eof r hk hf hne']
      unfold absAfter
      simp only
      exact ⟨fun h => (by cases h), fun h => absurd h hnu⟩

theorem reader_pos_zero (r : Reader) (p : Nat) (h : r.pos = 0) : ({ ({ r with pos := p } : Reader) with pos := 0 } : Reader) = r := by
  cases r; simp only at h; subst h; rfl

/-- on an unambiguous stream a rewindable reader is left exactly where it was -/
theorem autoDetect_unambiguous (r : Reader) (hk : Rewindable r.kind) (hpos : r.pos = 0) (hf : r.faultActive = none)
    (size : Nat) (hu : Unambiguous r.data size) : autoDetectPacketSize r = (.ok size, r) := by
  have hne : r.pos < r.data.length := by rw [hpos]; exact unambiguous_nonempty _ _ hu
  have hb0 : (peekBytes r).getD 0 0 = syncByte := by
    rw [peekBytes_getD r 0 (by omega), hpos]; exact hu.1
  have hfs : findSync (peekBytes r) = some size :=
    (findSync_peekBytes r hpos size).mpr ⟨hu.2.1, hu.2.2.1, hu.2.2.2.1, hu.2.2.2.2⟩
  rw [autoDetect_cut]
  rcases hk with hk | hk
  · rw [absPeek_other_ok r (by rw [hk]; exact fun h => by cases h) hf hne]
    unfold absAfter
    simp only [hk, hb0, hfs, ne_eq, not_true_eq_false, if_false, Bool.not_true, Bool.false_eq_true]
    cases r; simp only at hpos hk; subst hpos; subst hk; rfl
  · rw [absPeek_bufio_ok r hk hf hne]
    unfold absAfter
    simp only [hk, hb0, hfs, ne_eq, not_true_eq_false, if_false, Bool.not_false, if_true]

/-- **seekable reader vs. peekable bufio.Reader**: at the start of any stream (conformant or not), without fault, one
auto-detection returns the same size or error and leaves both readers at the same position -/
theorem autoDetect_seek_eq_bufio (r : Reader) (hpos : r.pos = 0) (hf : r.faultActive = none) :
    autoDetectPacketSize (setK r .bufio) =
      ((autoDetectPacketSize (setK r .seek)).1, setK (autoDetectPacketSize (setK r .seek)).2 .bufio) := by
  have hfb : (setK r .bufio).faultActive = none := hf
  have hfs : (setK r .seek).faultActive = none := hf
  have hpb : peekBytes (setK r .bufio) = peekBytes r := rfl
  have hps : peekBytes (setK r .seek) = peekBytes r := rfl
  rw [autoDetect_cut, autoDetect_cut]
  by_cases hne : r.pos < r.data.length
  · rw [absPeek_bufio_ok (setK r .bufio) rfl hfb hne,
      absPeek_other_ok (setK r .seek) (fun h => by cases h) hfs hne, hpb, hps]
    unfold absAfter
    simp only [setK, if_true, Bool.not_false, Bool.not_true, Bool.false_eq_true, if_false]
    split
    · rfl
    · split
      · rfl
      · simp only [hpos]
  · have hne' : r.data.length ≤ r.pos := by omega
    rw [absPeek_bufio_eof (setK r .bufio) rfl hfb hne', absPeek_other_eof (setK r .seek) (fun h => by cases h) hfs hne']
    rfl

/-- a reader that can be neither rewound nor peeked (plain `io.Reader`, small bufio buffer) -/
def NotRewindable (k : ReaderKind) : Prop := k = .plain ∨ k = .bufioSmall

/-- **plain readers**: on an unambiguous stream of at least two frames the size is detected, and the reader is left
after the second frame: the first two packets are lost (library behaviour) -/
theorem autoDetect_plain (r : Reader) (hk : NotRewindable r.kind) (hpos : r.pos = 0) (hf : r.faultActive = none)
    (size : Nat) (hu : Unambiguous r.data size) (hlen : 2 * size ≤ r.data.length) :
    autoDetectPacketSize r = (.ok size, { r with pos := 2 * size }) := by
  have hne : r.pos < r.data.length := by rw [hpos]; exact unambiguous_nonempty _ _ hu
  have hb0 : (peekBytes r).getD 0 0 = syncByte := by
    rw [peekBytes_getD r 0 (by omega), hpos]; exact hu.1
  have hfs : findSync (peekBytes r) = some size :=
    (findSync_peekBytes r hpos size).mpr ⟨hu.2.1, hu.2.2.1, hu.2.2.2.1, hu.2.2.2.2⟩
  have h1 := hu.2.1
  have h2 := hu.2.2.1
  have hkb : r.kind ≠ .bufio := by rcases hk with hk | hk <;> (rw [hk]; exact fun h => by cases h)
  rw [autoDetect_cut, absPeek_other_ok r hkb hf hne]
  unfold absAfter
  simp only [hb0, hfs, ne_eq, not_true_eq_false, if_false, Bool.not_true, Bool.false_eq_true]
  have hmin : min r.data.length (r.pos + 193) = 193 := by omega
  have hrf : ({ r with pos := min r.data.length (r.pos + 193) } : Reader).readFull (size - (193 - size)) =
      (((r.data.drop 193).take (size - (193 - size))), none, { r with pos := 2 * size }) := by
    rw [readFull_nofault_full _ _ (show ({ r with pos := min r.data.length (r.pos + 193) } : Reader).faultActive = none from hf)
      (by simp only; omega)]
    simp only [hmin]
    have : 193 + (size - (193 - size)) = 2 * size := by omega
    rw [this]
  simp only [hrf]
  rcases hk with hk | hk
  · simp only [hk]
  · simp only [hk]

/-! ### the demuxer: which differences in reader kind / packet size option are unobservable -/

theorem absEnsure_auto (d : Demux) (hn : d.packetSize = none) (ho : d.optPacketSize = 0) (s : Nat) (r' : Reader)
    (h : autoDetectPacketSize d.r = (.ok s, r')) :
    absEnsure d = (.ok s, { d with r := r', packetSize := some s }) := by
  unfold absEnsure
  rw [hn]
  simp only
  rw [if_neg (by rw [ho]; exact fun h => h rfl), h]

theorem setF_self (d : Demux) : setF d (setK d.r d.r.kind) d.optPacketSize d.packetSize = d := by
  rw [setK_self]; cases d; rfl

/-- **explicit packet size: the reader kind is never looked at** -/
theorem run_kind_independent_explicit (d : Demux) (ho : d.optPacketSize ≠ 0) (kk : ReaderKind) (cs : List Call) :
    runModel cs (setR d (setK d.r kk)) = runModel cs d := by
  cases hps : d.packetSize with
  | some s =>
    apply run_SZ (s := s)
    refine ⟨kk, d.optPacketSize, ?_, hps⟩
    rw [← hps]; cases d; rfl
  | none =>
    apply run_EnsRel (s := d.optPacketSize)
    have h1 : (setR d (setK d.r kk)).packetSize = none := hps
    have h2 : (setR d (setK d.r kk)).optPacketSize ≠ 0 := ho
    refine ⟨rfl, rfl, ?_, ?_, ?_⟩
    · rw [absEnsure_opt _ h1 h2]; rfl
    · rw [absEnsure_opt _ hps ho]
    · rw [absEnsure_opt _ h1 h2, absEnsure_opt _ hps ho]
      exact ⟨kk, d.optPacketSize, rfl, rfl⟩

/-- **K3: auto-detected size = explicit size.**  On a rewindable, fault-free reader at the start of a stream whose
detection is unambiguous (`Unambiguous`: sync byte at 0 and at `size ∈ 188..192`, none at `188..size-1`), the demuxer
with auto-detection and the demuxer told `size` explicitly observe the same results for every call sequence. -/
theorem run_auto_eq_explicit (d : Demux) (hn : d.packetSize = none) (ho : d.optPacketSize = 0)
    (hk : Rewindable d.r.kind) (hpos : d.r.pos = 0) (hf : d.r.faultActive = none) (size : Nat)
    (hu : Unambiguous d.r.data size) (cs : List Call) :
    runModel cs d = runModel cs { d with optPacketSize := size } := by
  symm
  apply run_EnsRel (s := size)
  have hne : size ≠ 0 := by have := hu.2.1; omega
  have h1 : ({ d with optPacketSize := size } : Demux).packetSize = none := hn
  have ha := absEnsure_auto d hn ho size d.r (autoDetect_unambiguous d.r hk hpos hf size hu)
  refine ⟨rfl, rfl, ?_, ?_, ?_⟩
  · rw [absEnsure_opt _ h1 hne]
  · rw [ha]
  · rw [absEnsure_opt _ h1 hne, ha]
    refine ⟨d.r.kind, size, ?_, rfl⟩
    simp only [setK_self]
    rfl

/-- **seekable vs. peekable reader with auto-detection** on an unambiguous stream: same results for every call
sequence -/
theorem run_auto_seek_eq_bufio (d : Demux) (hn : d.packetSize = none) (ho : d.optPacketSize = 0)
    (hk : d.r.kind = .seek) (hpos : d.r.pos = 0) (hf : d.r.faultActive = none) (size : Nat)
    (hu : Unambiguous d.r.data size) (cs : List Call) :
    runModel cs (setR d (setK d.r .bufio)) = runModel cs d := by
  apply run_EnsRel (s := size)
  have ha := absEnsure_auto d hn ho size d.r (autoDetect_unambiguous d.r (Or.inl hk) hpos hf size hu)
  have hb := absEnsure_auto (setR d (setK d.r .bufio)) hn ho size (setK d.r .bufio)
    (autoDetect_unambiguous (setK d.r .bufio) (Or.inr rfl) hpos hf size hu)
  refine ⟨rfl, rfl, ?_, ?_, ?_⟩
  · rw [hb]
  · rw [ha]
  · rw [ha, hb]
    exact ⟨.bufio, d.optPacketSize, rfl, rfl⟩

/-- **plain readers with auto-detection** (no rewind, no peek): the size is detected and the stream is delivered from
its third frame on — exactly the run of the demuxer with that packet buffer positioned after the second frame -/
theorem run_auto_plain (d : Demux) (hn : d.packetSize = none) (ho : d.optPacketSize = 0)
    (hk : NotRewindable d.r.kind) (hpos : d.r.pos = 0) (hf : d.r.faultActive = none) (size : Nat)
    (hu : Unambiguous d.r.data size) (hlen : 2 * size ≤ d.r.data.length) (cs : List Call) :
    runModel cs d = runModel cs { d with r := { d.r with pos := 2 * size }, packetSize := some size } := by
  apply run_EnsRel (s := size)
  have ha := absEnsure_auto d hn ho size _ (autoDetect_plain d.r hk hpos hf size hu hlen)
  have hb := absEnsure_some ({ d with r := { d.r with pos := 2 * size }, packetSize := some size } : Demux) size rfl
  refine ⟨rfl, rfl, ?_, ?_, ?_⟩
  · rw [ha]
  · rw [hb]
  · rw [ha, hb]
    exact SZ_refl size _ rfl

end Astits.Chunking
