/-
C08 helper (K1, layer 1): the `io.Reader` contract and `io.ReadFull`.

The model's `Reader.readFull` is a closed formula.  Here the loop of `io.ReadFull` (`io.ReadAtLeast`) is modelled over
an arbitrary reader implementation whose `Read` obeys the `io.Reader` contract *with progress* (`ReadStep`): each call
returns between 1 and `len(p)` of the next bytes — as few or as many as it likes —, or fails with the injected fault
when the position is the fault offset, or reports `io.EOF` at the end of the data.  Whatever the implementation hands
out per call, the loop computes exactly `Reader.readFull` (`ioReadFull_refines`).
-/
import Astits.Model.Demux
namespace Astits.Chunking

/-- a reader implementation: concrete state `σ`, one `Read(p)` call with `len(p) = n`, the abstract reader it
implements (data, logical position, fault state), and its representation invariant -/
structure ReaderImpl (σ : Type) where
  read : σ → Nat → Bytes × Option ReadErr × σ
  abs : σ → Reader
  inv : σ → Prop

/-- what one `Read(p)`, `len(p) = n > 0`, may do on the abstract reader `r` (the contract of the harness reader
`vreader`, of `bufio.Reader` on top of it, and of every `io.Reader` that makes progress):
* at the active fault offset: no bytes, the injected error, a one-shot fault is consumed;
* otherwise at the end of the data: no bytes, `io.EOF`;
* otherwise `k` bytes for some `1 ≤ k ≤ n`, never reading across the active fault offset. -/
def ReadStep (r : Reader) (n : Nat) (bs : Bytes) (e : Option ReadErr) (r' : Reader) : Prop :=
  if r.faultActive = some r.pos then
    bs = [] ∧ e = some .injected ∧ r' = { r with faultDone := r.faultOnce }
  else if r.data.length ≤ r.pos then
    bs = [] ∧ e = some .eof ∧ r' = r
  else
    ∃ k, 0 < k ∧ k ≤ n ∧ r.pos + k ≤ r.data.length ∧
      (∀ f, r.faultActive = some f → r.pos < f → r.pos + k ≤ f) ∧
      bs = (r.data.drop r.pos).take k ∧ e = none ∧ r' = { r with pos := r.pos + k }

/-- the implementation obeys the contract and keeps its invariant -/
def Conforms {σ} (I : ReaderImpl σ) : Prop :=
  ∀ s n, I.inv s → 0 < n →
    I.inv (I.read s n).2.2 ∧ ReadStep (I.abs s) n (I.read s n).1 (I.read s n).2.1 (I.abs (I.read s n).2.2)

/-- the final error adjustment of `io.ReadAtLeast`: `if n >= min { err = nil } else if n > 0 && err == EOF
{ err = ErrUnexpectedEOF }` -/
def finalErr (min got : Nat) (e : ReadErr) : Option ReadErr :=
  if min ≤ got then none else if 0 < got ∧ e = .eof then some .unexpectedEOF else some e

/-- the loop of `io.ReadAtLeast(r, buf, min)` with `len(buf) = min`: `acc` holds the bytes read so far -/
def ioReadLoop {σ} (I : ReaderImpl σ) (min : Nat) : Nat → σ → Bytes → Bytes × Option ReadErr × σ
  | 0, s, acc => (acc, none, s)
  | fuel + 1, s, acc =>
    if min ≤ acc.length then (acc, none, s)
    else
      let res := I.read s (min - acc.length)
      match res.2.1 with
      | some err => (acc ++ res.1, finalErr min (acc ++ res.1).length err, res.2.2)
      | none => ioReadLoop I min fuel res.2.2 (acc ++ res.1)

/-- `io.ReadFull(r, buf)` with `len(buf) = n` -/
def ioReadFull {σ} (I : ReaderImpl σ) (s : σ) (n : Nat) : Bytes × Option ReadErr × σ :=
  ioReadLoop I n (n + 1) s []

/-! ### the closed formula, one chunk at a time -/

theorem faultActive_pos (r : Reader) (p : Nat) : ({ r with pos := p } : Reader).faultActive = r.faultActive := rfl

theorem readFull_zero (r : Reader) : r.readFull 0 = ([], none, r) := by
  unfold Reader.readFull
  cases hf : r.faultActive with
  | none => simp
  | some f =>
    have : ¬ (r.pos ≤ f ∧ f < r.pos + 0 ∧ f ≤ r.data.length) := by omega
    simp only [this, if_false]
    simp

/-- at the active fault offset -/
theorem readFull_at_fault (r : Reader) (n : Nat) (hn : 0 < n) (hp : r.pos ≤ r.data.length)
    (hf : r.faultActive = some r.pos) :
    r.readFull n = ([], some .injected, { r with faultDone := r.faultOnce }) := by
  unfold Reader.readFull
  have : r.pos ≤ r.pos ∧ r.pos < r.pos + n ∧ r.pos ≤ r.data.length := by omega
  simp only [hf, this, and_self, if_true, Nat.sub_self, List.take_zero]

/-- at the end of the data -/
theorem readFull_at_eof (r : Reader) (n : Nat) (hn : 0 < n) (hp : r.data.length ≤ r.pos)
    (hf : r.faultActive ≠ some r.pos) : r.readFull n = ([], some .eof, r) := by
  unfold Reader.readFull
  have h1 : ¬ (0 ≥ n) := by omega
  have h2 : r.data.length - r.pos = 0 := by omega
  cases hfa : r.faultActive with
  | none => simp only [h2, h1, if_false, if_true]
  | some f =>
    have : ¬ (r.pos ≤ f ∧ f < r.pos + n ∧ f ≤ r.data.length) := by
      intro ⟨a, b, c⟩
      have : f = r.pos := by omega
      rw [this] at hfa; exact hf hfa
    simp only [this, h2, h1, if_false, if_true]

/-- `unexpectedEOF` instead of `EOF` once some bytes were read -/
def afterBytes (e : Option ReadErr) : Option ReadErr :=
  match e with
  | some .eof => some .unexpectedEOF
  | e => e

theorem take_drop_split (data : Bytes) (pos k m : Nat) :
    (data.drop pos).take (k + m) = (data.drop pos).take k ++ (data.drop (pos + k)).take m := by
  rw [List.take_add, List.drop_drop]

/-- a first chunk of `k` bytes followed by a full read of the remaining `n - k` bytes is a full read of `n` bytes -/
theorem readFull_split (r : Reader) (n k : Nat) (hk : 0 < k) (hkn : k ≤ n) (hlen : r.pos + k ≤ r.data.length)
    (hnf : r.faultActive ≠ some r.pos)
    (hfault : ∀ f, r.faultActive = some f → r.pos < f → r.pos + k ≤ f) :
    r.readFull n =
      ((r.data.drop r.pos).take k ++ (({ r with pos := r.pos + k } : Reader).readFull (n - k)).1,
       afterBytes (({ r with pos := r.pos + k } : Reader).readFull (n - k)).2.1,
       (({ r with pos := r.pos + k } : Reader).readFull (n - k)).2.2) := by
  obtain ⟨data, pos, kind, faultAt, faultOnce, faultDone⟩ := r
  simp only at hlen hfault hnf ⊢
  unfold Reader.readFull
  simp only [Reader.faultActive] at hfault hnf ⊢
  generalize (if faultDone = true then none else faultAt) = fa at hfault hnf ⊢
  have hsplit : ∀ m, k ≤ m → (data.drop pos).take m = (data.drop pos).take k ++ (data.drop (pos + k)).take (m - k) := by
    intro m hm
    have : m = k + (m - k) := by omega
    conv => lhs; rw [this]
    exact take_drop_split data pos k (m - k)
  have hall : data.drop pos = (data.drop pos).take k ++ data.drop (pos + k) := by
    rw [← List.drop_drop]; exact (List.take_append_drop k _).symm
  cases fa with
  | some f =>
    have hne : f ≠ pos := fun e => hnf (by rw [e])
    simp only
    by_cases c1 : pos ≤ f ∧ f < pos + n ∧ f ≤ data.length
    · have hpf : pos + k ≤ f := hfault f rfl (by omega)
      have c1' : pos + k ≤ f ∧ f < pos + k + (n - k) ∧ f ≤ data.length := by omega
      simp only [c1, c1', and_self, if_true, afterBytes]
      rw [hsplit (f - pos) (by omega)]
      have : f - pos - k = f - (pos + k) := by omega
      rw [this]
    · have c1' : ¬ (pos + k ≤ f ∧ f < pos + k + (n - k) ∧ f ≤ data.length) := by omega
      simp only [c1, c1', if_false]
      by_cases c2 : data.length - pos ≥ n
      · have c2' : data.length - (pos + k) ≥ n - k := by omega
        simp only [c2, c2', if_true, afterBytes]
        rw [hsplit n hkn]
        have : pos + k + (n - k) = pos + n := by omega
        rw [this]
      · have c2' : ¬ data.length - (pos + k) ≥ n - k := by omega
        have c3 : ¬ data.length - pos = 0 := by omega
        simp only [c2, c2', c3, if_false]
        by_cases c4 : data.length - (pos + k) = 0
        · simp only [c4, if_true, afterBytes, List.append_nil]
          have e1 : pos + k = data.length := by omega
          have e2 : data.drop (pos + k) = [] := by rw [List.drop_eq_nil_iff]; omega
          rw [e1]
          conv => lhs; rw [hall, e2, List.append_nil]
        · simp only [c4, if_false, afterBytes]
          conv => lhs; rw [hall]
  | none =>
    simp only
    by_cases c2 : data.length - pos ≥ n
    · have c2' : data.length - (pos + k) ≥ n - k := by omega
      simp only [c2, c2', if_true, afterBytes]
      rw [hsplit n hkn]
      have : pos + k + (n - k) = pos + n := by omega
      rw [this]
    · have c2' : ¬ data.length - (pos + k) ≥ n - k := by omega
      have c3 : ¬ data.length - pos = 0 := by omega
      simp only [c2, c2', c3, if_false]
      by_cases c4 : data.length - (pos + k) = 0
      · simp only [c4, if_true, afterBytes, List.append_nil]
        have e1 : pos + k = data.length := by omega
        have e2 : data.drop (pos + k) = [] := by rw [List.drop_eq_nil_iff]; omega
        rw [e1]
        conv => lhs; rw [hall, e2, List.append_nil]
      · simp only [c4, if_false, afterBytes]
        conv => lhs; rw [hall]

theorem afterBytes_idem (e : Option ReadErr) : afterBytes (afterBytes e) = afterBytes e := by
  cases e with
  | none => rfl
  | some e => cases e <;> rfl

/-- the loop invariant: with `acc` already read, the loop delivers `acc` followed by what the closed formula reads for
the missing bytes -/
theorem ioReadLoop_spec {σ} (I : ReaderImpl σ) (hc : Conforms I) (min : Nat) :
    ∀ (fuel : Nat) (s : σ) (acc : Bytes), I.inv s → (I.abs s).pos ≤ (I.abs s).data.length →
      min - acc.length < fuel →
      (ioReadLoop I min fuel s acc).1 = acc ++ ((I.abs s).readFull (min - acc.length)).1 ∧
      (ioReadLoop I min fuel s acc).2.1 =
        (if acc = [] then ((I.abs s).readFull (min - acc.length)).2.1
         else afterBytes ((I.abs s).readFull (min - acc.length)).2.1) ∧
      I.abs (ioReadLoop I min fuel s acc).2.2 = ((I.abs s).readFull (min - acc.length)).2.2 ∧
      I.inv (ioReadLoop I min fuel s acc).2.2 ∧
      (I.abs (ioReadLoop I min fuel s acc).2.2).pos ≤ (I.abs (ioReadLoop I min fuel s acc).2.2).data.length := by
  intro fuel
  induction fuel with
  | zero => intro s acc _ _ hf; omega
  | succ fuel ih =>
    intro s acc hinv hpos hf
    unfold ioReadLoop
    by_cases hdone : min ≤ acc.length
    · have h0 : min - acc.length = 0 := by omega
      simp only [hdone, if_true, h0, readFull_zero, List.append_nil, afterBytes]
      refine ⟨trivial, ?_, trivial, hinv, hpos⟩
      split <;> rfl
    · simp only [hdone, if_false]
      have hneed : 0 < min - acc.length := by omega
      obtain ⟨hinv', hstep⟩ := hc s (min - acc.length) hinv hneed
      generalize hres : I.read s (min - acc.length) = res at hinv' hstep ⊢
      obtain ⟨bs, e, s'⟩ := res
      simp only at hinv' hstep ⊢
      unfold ReadStep at hstep
      by_cases hfault : (I.abs s).faultActive = some (I.abs s).pos
      · rw [if_pos hfault] at hstep
        obtain ⟨rfl, rfl, habs⟩ := hstep
        rw [readFull_at_fault _ _ hneed hpos hfault]
        simp only [List.append_nil]
        refine ⟨trivial, ?_, habs, hinv', ?_⟩
        · unfold finalErr
          simp only [hdone, if_false, reduceCtorEq, and_false, afterBytes]
          split <;> rfl
        · rw [habs]; exact hpos
      · rw [if_neg hfault] at hstep
        by_cases heof : (I.abs s).data.length ≤ (I.abs s).pos
        · rw [if_pos heof] at hstep
          obtain ⟨rfl, rfl, habs⟩ := hstep
          rw [readFull_at_eof _ _ hneed heof hfault]
          simp only [List.append_nil]
          refine ⟨trivial, ?_, habs, hinv', ?_⟩
          · unfold finalErr
            simp only [hdone, if_false, and_true, afterBytes]
            cases acc with
            | nil => simp
            | cons a t => simp
          · rw [habs]; exact hpos
        · rw [if_neg heof] at hstep
          obtain ⟨k, hk0, hkn, hklen, hkf, rfl, rfl, habs⟩ := hstep
          simp only
          have hbl : ((I.abs s).data.drop (I.abs s).pos).take k = ((I.abs s).data.drop (I.abs s).pos).take k := rfl
          have hlen : (((I.abs s).data.drop (I.abs s).pos).take k).length = k := by
            rw [List.length_take, List.length_drop]; omega
          have hpos' : (I.abs s').pos ≤ (I.abs s').data.length := by rw [habs]; exact hklen
          have hih := ih s' (acc ++ ((I.abs s).data.drop (I.abs s).pos).take k) hinv' hpos'
            (by rw [List.length_append, hlen]; omega)
          have hneed' : min - (acc ++ ((I.abs s).data.drop (I.abs s).pos).take k).length = min - acc.length - k := by
            rw [List.length_append, hlen]; omega
          rw [hneed', habs] at hih
          obtain ⟨h1, h2, h3, h4, h5⟩ := hih
          rw [readFull_split (I.abs s) (min - acc.length) k hk0 hkn hklen hfault hkf]
          simp only
          refine ⟨?_, ?_, h3, h4, h5⟩
          · rw [h1, List.append_assoc]
          · rw [h2]
            have hne : acc ++ ((I.abs s).data.drop (I.abs s).pos).take k ≠ [] := by
              intro e
              have := congrArg List.length e
              rw [List.length_append, hlen] at this
              simp at this; omega
            simp only [hne, if_false, afterBytes_idem]
            split <;> rfl

/-- **`io.ReadFull` over any conforming reader implementation is the model's `Reader.readFull`** on the abstract
reader: the same bytes, the same error, the same abstract reader afterwards — however the implementation fragments
the bytes -/
theorem ioReadFull_refines {σ} (I : ReaderImpl σ) (hc : Conforms I) (s : σ) (n : Nat) (hinv : I.inv s)
    (hpos : (I.abs s).pos ≤ (I.abs s).data.length) :
    (ioReadFull I s n).1 = ((I.abs s).readFull n).1 ∧
    (ioReadFull I s n).2.1 = ((I.abs s).readFull n).2.1 ∧
    I.abs (ioReadFull I s n).2.2 = ((I.abs s).readFull n).2.2 ∧
    I.inv (ioReadFull I s n).2.2 ∧
    (I.abs (ioReadFull I s n).2.2).pos ≤ (I.abs (ioReadFull I s n).2.2).data.length := by
  have := ioReadLoop_spec I hc n (n + 1) s [] hinv hpos (by simp)
  simpa [ioReadFull] using this

end Astits.Chunking
