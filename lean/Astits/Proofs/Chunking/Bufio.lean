/-
C08 helper (K1, layer 2b): `bufio.Reader.Peek` and `bufio.Reader.Discard` over the harness reader, and what they
amount to on the abstract reader — whatever the read schedule of the underlying reader.
-/
import Astits.Proofs.Chunking.Readers
namespace Astits.Chunking

inductive PeekErr where
  | read (e : ReadErr)
  | bufferFull
  deriving Repr, DecidableEq

/-- the fill loop of `bufio.Reader.Peek(n)`: `for b.w-b.r < n && b.w-b.r < len(b.buf) && b.err == nil { b.fill() }`;
`fill` slides the buffered bytes to the front and issues one `Read` for the free space -/
def BReader.peekLoop (n : Nat) : Nat → BReader → Bytes × Option PeekErr × BReader
  | 0, b => (b.buf.take n, none, b)
  | fuel + 1, b =>
    if n ≤ b.buf.length then (b.buf.take n, none, b)
    else if b.size ≤ b.buf.length then (b.buf, some .bufferFull, b)
    else
      let res := b.v.read (b.size - b.buf.length)
      match res.2.1 with
      | some err => (b.buf ++ res.1, some (.read err), { b with v := res.2.2, buf := b.buf ++ res.1 })
      | none => peekLoop n fuel { b with v := res.2.2, buf := b.buf ++ res.1 }

/-- `bufio.Reader.Peek(n)`: the bytes, the error, the reader afterwards -/
def BReader.peek (b : BReader) (n : Nat) : Bytes × Option PeekErr × BReader := b.peekLoop n (n + 1)

/-- the active fault offset lies among the next `n` positions (and inside the data) -/
def faultIn (r : Reader) (n : Nat) : Prop :=
  ∃ f, r.faultActive = some f ∧ r.pos ≤ f ∧ f < r.pos + n ∧ f ≤ r.data.length

theorem BReader.abs_faultActive (b : BReader) : b.abs.faultActive = b.v.r.faultActive := rfl

theorem peekLoop_spec (n : Nat) :
    ∀ (fuel : Nat) (b : BReader), b.Inv → n ≤ b.size → n - b.buf.length < fuel →
      (b.peekLoop n fuel).2.2.Inv ∧
      (faultIn b.abs n → (b.peekLoop n fuel).2.1 = some (.read .injected) ∧
        (b.peekLoop n fuel).2.2.abs = { b.abs with faultDone := b.abs.faultOnce }) ∧
      (¬ faultIn b.abs n → n ≤ b.abs.data.length - b.abs.pos →
        (b.peekLoop n fuel).1 = (b.abs.data.drop b.abs.pos).take n ∧ (b.peekLoop n fuel).2.1 = none ∧
        (b.peekLoop n fuel).2.2.abs = b.abs) ∧
      (¬ faultIn b.abs n → b.abs.data.length - b.abs.pos < n →
        (b.peekLoop n fuel).1 = b.abs.data.drop b.abs.pos ∧ (b.peekLoop n fuel).2.1 = some (.read .eof) ∧
        (b.peekLoop n fuel).2.2.abs = b.abs) := by
  intro fuel
  induction fuel with
  | zero => intro b _ _ h; omega
  | succ fuel ih =>
    intro b hi hsz hfuel
    obtain ⟨hle, hpos, hbuf, hfault, hsize⟩ := hi
    have hi : b.Inv := ⟨hle, hpos, hbuf, hfault, hsize⟩
    have habs_pos : b.abs.pos = b.v.r.pos - b.buf.length := rfl
    have habs_data : b.abs.data = b.v.r.data := rfl
    unfold BReader.peekLoop
    by_cases h1 : n ≤ b.buf.length
    · rw [if_pos h1]
      have hnf : ¬ faultIn b.abs n := by
        intro ⟨f, hfa, h2, h3, h4⟩
        rw [habs_pos] at h2 h3
        rcases hfault f hfa with h | h <;> omega
      refine ⟨hi, fun h => absurd h hnf, fun _ _ => ⟨?_, rfl, rfl⟩, fun _ h => ?_⟩
      · simp only
        conv => lhs; rw [hbuf]
        rw [habs_pos, habs_data, List.take_take, Nat.min_eq_left h1]
      · rw [habs_pos, habs_data] at h; omega
    · rw [if_neg h1]
      have h2 : ¬ b.size ≤ b.buf.length := by omega
      rw [if_neg h2]
      have hm : 0 < b.size - b.buf.length := by omega
      have hstep := b.v.read_step (b.size - b.buf.length) hm
      rcases hres : b.v.read (b.size - b.buf.length) with ⟨bs, e, v'⟩
      rw [hres] at hstep
      simp only at hstep ⊢
      unfold ReadStep at hstep
      by_cases hf : b.v.r.faultActive = some b.v.r.pos
      · rw [if_pos hf] at hstep
        obtain ⟨rfl, rfl, hv'⟩ := hstep
        simp only [List.append_nil]
        have hfin : faultIn b.abs n := ⟨b.v.r.pos, hf, by rw [habs_pos]; omega, by rw [habs_pos]; omega, hpos⟩
        refine ⟨⟨?_, ?_, ?_, ?_, hsize⟩, fun _ => ⟨by first | rfl | trivial, ?_⟩, fun h => absurd hfin h, fun h => absurd hfin h⟩
        · simp only [hv']; exact hle
        · simp only [hv']; exact hpos
        · simp only [hv']; exact hbuf
        · intro f hfa
          simp only [hv'] at hfa ⊢
          unfold Reader.faultActive at hfa hf
          simp only at hfa
          split at hfa
          · cases hfa
          · rename_i hdone
            by_cases hd : b.v.r.faultDone = true
            · simp [hd] at hf
            · simp only [hd, if_false, Bool.false_eq_true] at hf
              rw [hf] at hfa; cases hfa; right; exact Nat.le_refl _
        · unfold BReader.abs
          simp only [hv']
      · rw [if_neg hf] at hstep
        by_cases he : b.v.r.data.length ≤ b.v.r.pos
        · rw [if_pos he] at hstep
          obtain ⟨rfl, rfl, hv'⟩ := hstep
          simp only [List.append_nil]
          have hnf : ¬ faultIn b.abs n := by
            intro ⟨f, hfa, h2, h3, h4⟩
            rw [habs_pos] at h2 h3
            rw [habs_data] at h4
            have : f = b.v.r.pos := by rcases hfault f hfa with h | h <;> omega
            rw [this] at hfa; exact hf hfa
          have hi' : BReader.Inv { b with v := v' } := by
            refine ⟨?_, ?_, ?_, ?_, hsize⟩
            · simp only [hv']; exact hle
            · simp only [hv']; exact hpos
            · simp only [hv']; exact hbuf
            · intro f hfa; simp only [hv'] at hfa ⊢; exact hfault f hfa
          have habs' : BReader.abs { b with v := v' } = b.abs := by unfold BReader.abs; simp only [hv']
          refine ⟨hi', fun h => absurd h hnf, fun _ h => ?_, fun _ _ => ⟨?_, by first | rfl | trivial, habs'⟩⟩
          · rw [habs_pos, habs_data] at h; omega
          · conv => lhs; rw [hbuf]
            rw [habs_pos, habs_data, List.take_of_length_le]
            rw [List.length_drop]; omega
        · rw [if_neg he] at hstep
          obtain ⟨k, hk0, hkm, hklen, hkf, rfl, rfl, hv'⟩ := hstep
          simp only
          have hlen : ((b.v.r.data.drop b.v.r.pos).take k).length = k := by
            rw [List.length_take, List.length_drop]; omega
          have hi' : BReader.Inv { b with v := v', buf := b.buf ++ (b.v.r.data.drop b.v.r.pos).take k } := by
            refine ⟨?_, ?_, ?_, ?_, hsize⟩
            · simp only [hv', List.length_append, hlen]; omega
            · simp only [hv']; exact hklen
            · simp only [hv', List.length_append, hlen]
              have e1 : b.v.r.pos + k - (b.buf.length + k) = b.v.r.pos - b.buf.length := by omega
              rw [e1, take_drop_split]
              have e2 : b.v.r.pos - b.buf.length + b.buf.length = b.v.r.pos := by omega
              rw [e2, ← hbuf]
            · intro f hfa
              simp only [hv', List.length_append, hlen] at hfa ⊢
              have hfa' : b.v.r.faultActive = some f := hfa
              have hne' : f ≠ b.v.r.pos := fun e => hf (by rw [hfa', e])
              rcases hfault f hfa' with h | h
              · left; omega
              · right; exact hkf f hfa' (by omega)
          have habs' : BReader.abs { b with v := v', buf := b.buf ++ (b.v.r.data.drop b.v.r.pos).take k } = b.abs := by
            unfold BReader.abs
            simp only [hv', List.length_append, hlen, Reader.mk.injEq, true_and, and_true]
            omega
          have := ih { b with v := v', buf := b.buf ++ (b.v.r.data.drop b.v.r.pos).take k } hi' hsz
            (by simp only [List.length_append, hlen]; omega)
          rw [habs'] at this
          exact this

theorem peekLoop_size (n : Nat) : ∀ (fuel : Nat) (b : BReader), (b.peekLoop n fuel).2.2.size = b.size := by
  intro fuel
  induction fuel with
  | zero => intro b; rfl
  | succ fuel ih =>
    intro b
    unfold BReader.peekLoop
    split
    · rfl
    · split
      · rfl
      · dsimp only
        split
        · rfl
        · rw [ih]

theorem peek_size (b : BReader) (n : Nat) : (b.peek n).2.2.size = b.size := peekLoop_size n (n + 1) b

/-- **`Peek(n)`** (`n` within the buffer size) on the abstract reader: nothing is consumed; a fault among the next
`n` positions surfaces (and a one-shot fault is used up); otherwise the next `n` bytes, or all the remaining bytes
with `io.EOF` -/
theorem peek_spec (b : BReader) (n : Nat) (hi : b.Inv) (hsz : n ≤ b.size) :
    (b.peek n).2.2.Inv ∧
    (faultIn b.abs n → (b.peek n).2.1 = some (.read .injected) ∧
      (b.peek n).2.2.abs = { b.abs with faultDone := b.abs.faultOnce }) ∧
    (¬ faultIn b.abs n → n ≤ b.abs.data.length - b.abs.pos →
      (b.peek n).1 = (b.abs.data.drop b.abs.pos).take n ∧ (b.peek n).2.1 = none ∧ (b.peek n).2.2.abs = b.abs) ∧
    (¬ faultIn b.abs n → b.abs.data.length - b.abs.pos < n →
      (b.peek n).1 = b.abs.data.drop b.abs.pos ∧ (b.peek n).2.1 = some (.read .eof) ∧ (b.peek n).2.2.abs = b.abs) :=
  peekLoop_spec n (n + 1) b hi hsz (by omega)

/-! ### Discard -/

/-- the loop of `bufio.Reader.Discard(n)`, `remain` bytes still to skip -/
def BReader.discardLoop : Nat → BReader → Nat → BReader
  | 0, b, _ => b
  | fuel + 1, b, remain =>
    if b.buf ≠ [] then
      let skip := min b.buf.length remain
      if remain - skip = 0 then { b with buf := b.buf.drop skip }
      else discardLoop fuel { b with buf := b.buf.drop skip } (remain - skip)
    else
      let res := b.v.read b.size
      let skip := min res.1.length remain
      if remain - skip = 0 then { b with v := res.2.2, buf := res.1.drop skip }
      else
        match res.2.1 with
        | some _ => { b with v := res.2.2, buf := res.1.drop skip }
        | none => discardLoop fuel { b with v := res.2.2, buf := res.1.drop skip } (remain - skip)

/-- `bufio.Reader.Discard(n)` (the returned count and error are ignored by the caller) -/
def BReader.discard (b : BReader) (n : Nat) : BReader := if n = 0 then b else b.discardLoop (n + 1) n

theorem discardLoop_size : ∀ (fuel : Nat) (b : BReader) (remain : Nat), (b.discardLoop fuel remain).size = b.size := by
  intro fuel
  induction fuel with
  | zero => intro b _; rfl
  | succ fuel ih =>
    intro b remain
    unfold BReader.discardLoop
    split
    · dsimp only
      split
      · rfl
      · rw [ih]
    · dsimp only
      split
      · rfl
      · split
        · rfl
        · rw [ih]

theorem discard_size (b : BReader) (n : Nat) : (b.discard n).size = b.size := by
  unfold BReader.discard
  split
  · rfl
  · exact discardLoop_size _ _ _

theorem reader_pos_eq (r : Reader) (p : Nat) (h : r.pos = p) : ({ r with pos := p } : Reader) = r := by
  cases r; simp only at h; subst h; rfl

theorem discardLoop_spec :
    ∀ (fuel : Nat) (b : BReader) (remain : Nat), b.Inv → 0 < remain → remain < fuel → ¬ faultIn b.abs remain →
      (b.discardLoop fuel remain).Inv ∧
      (b.discardLoop fuel remain).abs = { b.abs with pos := min b.abs.data.length (b.abs.pos + remain) } := by
  intro fuel
  induction fuel with
  | zero => intro b remain _ _ h; omega
  | succ fuel ih =>
    intro b remain hi hr hfuel hnf
    have habs_pos : b.abs.pos = b.v.r.pos - b.buf.length := rfl
    have habs_data : b.abs.data = b.v.r.data := rfl
    unfold BReader.discardLoop
    by_cases hb : b.buf ≠ []
    · rw [if_pos hb]
      have hm : 0 < b.buf.length := List.length_pos_iff.mpr hb
      obtain ⟨hi', hstep⟩ := b.read_buffered remain hr hi hb
      have hdrop : b.buf.drop (min b.buf.length remain) = b.buf.drop remain ∨ remain - min b.buf.length remain = 0 := by
        by_cases c : remain ≤ b.buf.length
        · right; omega
        · left
          rw [Nat.min_eq_left (by omega), List.drop_eq_nil_of_le (Nat.le_refl _), List.drop_eq_nil_of_le (by omega)]
      obtain ⟨hle, hpos, hbuf, hfault, hsize⟩ := hi
      -- the state after skipping `skip` buffered bytes
      have hi2 : BReader.Inv { b with buf := b.buf.drop (min b.buf.length remain) } := by
        refine ⟨?_, hpos, ?_, ?_, hsize⟩
        · simp only [List.length_drop]; omega
        · simp only [List.length_drop]
          have hd := buf_drop b.v.r.data b.v.r.pos b.buf.length (min b.buf.length remain) hle
          rw [← hbuf] at hd
          exact hd
        · intro f hf
          simp only [List.length_drop]
          rcases hfault f hf with h | h
          · left; omega
          · right; exact h
      have habs2 : BReader.abs { b with buf := b.buf.drop (min b.buf.length remain) } =
          { b.abs with pos := b.abs.pos + min b.buf.length remain } := by
        unfold BReader.abs
        simp only [List.length_drop, Reader.mk.injEq, true_and, and_true]
        omega
      by_cases hdone : remain - min b.buf.length remain = 0
      · rw [if_pos hdone]
        refine ⟨hi2, ?_⟩
        rw [habs2]
        simp only [Reader.mk.injEq, true_and, and_true]
        rw [habs_pos, habs_data]; omega
      · rw [if_neg hdone]
        have hnf2 : ¬ faultIn (BReader.abs { b with buf := b.buf.drop (min b.buf.length remain) })
            (remain - min b.buf.length remain) := by
          rw [habs2]
          intro ⟨f, hfa, h2, h3, h4⟩
          exact hnf ⟨f, hfa, by simp only at h2; omega, by simp only at h3; omega, h4⟩
        have := ih _ (remain - min b.buf.length remain) hi2 (by omega) (by omega) hnf2
        refine ⟨this.1, ?_⟩
        rw [this.2, habs2]
        simp only [Reader.mk.injEq, true_and, and_true]
        rw [habs_pos, habs_data]; omega
    · rw [if_neg hb]
      have hb' : b.buf = [] := by
        cases hbb : b.buf with
        | nil => rfl
        | cons _ _ => rw [hbb] at hb; exact absurd (by simp) hb
      rcases hres : b.v.read b.size with ⟨bs, e, v'⟩
      have hfill := b.read_fill remain b.size hr hi.hsize hi hb' bs e v' hres
      have hstepv := b.v.read_step b.size hi.hsize
      rw [hres] at hstepv
      simp only at hstepv ⊢
      have habs0 : b.abs = b.v.r := b.abs_nil hb'
      have hp0 : b.abs.pos = b.v.r.pos := by rw [habs0]
      by_cases hbs : bs = []
      · -- no bytes: the fault is excluded, so this is the end of the data
        obtain ⟨hi1, hst⟩ := hfill.1 hbs
        subst hbs
        simp only [List.length_nil, Nat.zero_min, Nat.sub_zero, List.drop_nil]
        have hr0 : ¬ remain = 0 := by omega
        rw [if_neg hr0]
        unfold ReadStep at hst
        have hnfp : ¬ (b.abs.faultActive = some b.abs.pos) := by
          intro hfa
          have hposle : b.v.r.pos ≤ b.v.r.data.length := hi.hpos
          exact hnf ⟨b.abs.pos, hfa, Nat.le_refl _, by omega, by rw [hp0, habs_data]; exact hposle⟩
        rw [if_neg hnfp] at hst
        have hbb : ({ b with v := v', buf := [] } : BReader) = { b with v := v' } := by
          cases b; simp only at hb'; subst hb'; rfl
        by_cases he : b.abs.data.length ≤ b.abs.pos
        · rw [if_pos he] at hst
          obtain ⟨_, he', habs1⟩ := hst
          rw [he']
          simp only
          rw [hbb]
          refine ⟨hi1, ?_⟩
          rw [habs1]
          symm
          apply reader_pos_eq
          have hpl : b.abs.pos ≤ b.abs.data.length := by rw [hp0, habs_data]; exact hi.hpos
          omega
        · rw [if_neg he] at hst
          obtain ⟨k, hk0, _, _, _, hnil, _⟩ := hst
          have : ((b.abs.data.drop b.abs.pos).take k).length = k := by
            rw [List.length_take, List.length_drop]; omega
          rw [← hnil] at this
          simp at this; omega
      · obtain ⟨hi1, hst⟩ := hfill.2 hbs
        have hnone : e = none := by
          have := b.v.read_none_of_bytes b.size hi.hsize
          rw [hres] at this
          exact this hbs
        subst hnone
        have hbl : 0 < bs.length := List.length_pos_iff.mpr hbs
        have hdrop : bs.drop (min bs.length remain) = bs.drop remain := by
          by_cases c : remain ≤ bs.length
          · rw [Nat.min_eq_right c]
          · rw [Nat.min_eq_left (by omega), List.drop_eq_nil_of_le (Nat.le_refl _), List.drop_eq_nil_of_le (by omega)]
        rw [hdrop]
        -- the abstract position has advanced by `min remain |bs|`
        unfold ReadStep at hst
        have hnfp : ¬ (b.abs.faultActive = some b.abs.pos) := by
          intro hfa
          have hposle : b.v.r.pos ≤ b.v.r.data.length := hi.hpos
          exact hnf ⟨b.abs.pos, hfa, Nat.le_refl _, by omega, by rw [hp0, habs_data]; exact hposle⟩
        rw [if_neg hnfp] at hst
        have hlenv : bs.length ≤ b.abs.data.length - b.abs.pos := by
          unfold ReadStep at hstepv
          rw [← habs0] at hstepv
          rw [if_neg hnfp] at hstepv
          split at hstepv
          · exact absurd hstepv.1 hbs
          · obtain ⟨k, _, _, hkl, _, hbk, _⟩ := hstepv
            rw [hbk, List.length_take, List.length_drop]; omega
        have he : ¬ b.abs.data.length ≤ b.abs.pos := by omega
        rw [if_neg he] at hst
        obtain ⟨k, hk0, hkr, hkl, _, hbk, _, habs1⟩ := hst
        have hklen : k = min remain bs.length := by
          have h1 : (bs.take remain).length = min remain bs.length := List.length_take
          rw [hbk, List.length_take, List.length_drop] at h1
          omega
        by_cases hdone : remain - min bs.length remain = 0
        · rw [if_pos hdone]
          refine ⟨hi1, ?_⟩
          rw [habs1]
          simp only [Reader.mk.injEq, true_and, and_true]
          omega
        · rw [if_neg hdone]
          simp only
          have hnf2 : ¬ faultIn (BReader.abs { b with v := v', buf := bs.drop remain }) (remain - min bs.length remain) := by
            rw [habs1]
            intro ⟨f, hfa, h2, h3, h4⟩
            exact hnf ⟨f, hfa, by simp only at h2; omega, by simp only at h3; omega, h4⟩
          have := ih _ (remain - min bs.length remain) hi1 (by omega) (by omega) hnf2
          refine ⟨this.1, ?_⟩
          rw [this.2, habs1]
          simp only [Reader.mk.injEq, true_and, and_true]
          omega

/-- **`Discard(n)`**, no fault among the next `n` positions: the position advances by `n`, or to the end of the data -/
theorem discard_spec (b : BReader) (n : Nat) (hi : b.Inv) (hn : 0 < n) (hnf : ¬ faultIn b.abs n) :
    (b.discard n).Inv ∧ (b.discard n).abs = { b.abs with pos := min b.abs.data.length (b.abs.pos + n) } := by
  unfold BReader.discard
  rw [if_neg (by omega)]
  exact discardLoop_spec (n + 1) b n hi hn (by omega) hnf

end Astits.Chunking
