/-
C08 helper (K1 reader kinds, K3): once the packet buffer exists (packet size known), `NextPacket` / `NextData` depend
neither on the reader kind nor on the `optPacketSize` option.  Two demuxer states that are about to create packet
buffers of the same size over readers differing only in kind behave alike from then on.
-/
import Astits.Proofs.Chunking.Frames
import Astits.Proofs.Chunking.Bisim
namespace Astits.Chunking

/-- change the reader kind -/
def setK (r : Reader) (kk : ReaderKind) : Reader := { r with kind := kk }

@[simp] theorem setK_data (r : Reader) (kk : ReaderKind) : (setK r kk).data = r.data := rfl
@[simp] theorem setK_pos (r : Reader) (kk : ReaderKind) : (setK r kk).pos = r.pos := rfl
@[simp] theorem setK_setK (r : Reader) (k1 k2 : ReaderKind) : setK (setK r k1) k2 = setK r k2 := rfl
theorem setK_self (r : Reader) : setK r r.kind = r := by cases r; rfl

/-- `io.ReadFull` does not look at the reader kind -/
theorem readFull_setK (r : Reader) (kk : ReaderKind) (n : Nat) :
    (setK r kk).readFull n = ((r.readFull n).1, (r.readFull n).2.1, setK (r.readFull n).2.2 kk) := by
  obtain ⟨data, pos, kind, fa, fo, fd⟩ := r
  unfold Reader.readFull setK
  simp only [Reader.faultActive]
  generalize (if fd = true then none else fa) = fa'
  cases fa' with
  | none =>
    simp only
    by_cases c2 : data.length - pos ≥ n
    · simp only [c2, if_true]
    · simp only [c2, if_false]
      by_cases c3 : data.length - pos = 0
      · simp only [c3, if_true]
      · simp only [c3, if_false]
  | some f =>
    simp only
    by_cases c1 : pos ≤ f ∧ f < pos + n ∧ f ≤ data.length
    · simp only [c1, and_self, if_true]
    · simp only [c1, if_false]
      by_cases c2 : data.length - pos ≥ n
      · simp only [c2, if_true]
      · simp only [c2, if_false]
        by_cases c3 : data.length - pos = 0
        · simp only [c3, if_true]
        · simp only [c3, if_false]

/-- `packetBuffer.next()` looks neither at the reader kind nor at the packet size fields of the demuxer -/
theorem bufferNext_setF_kind (s : Nat) (kk : ReaderKind) (o : Nat) (ps : Option Nat) :
    ∀ (fuel : Nat) (d : Demux),
      (setF d (setK d.r kk) o ps).bufferNext s fuel =
        ((d.bufferNext s fuel).1, setF (d.bufferNext s fuel).2 (setK (d.bufferNext s fuel).2.r kk) o ps) := by
  intro fuel
  induction fuel with
  | zero => intro d; rfl
  | succ fuel ih =>
    intro d
    unfold Demux.bufferNext
    simp only [setF_r, readFull_setK]
    simp only [setF_upd_r]
    rcases d.r.readFull s with ⟨bs, e, r'⟩
    simp only
    have hsr : ({ d with r := r' } : Demux) = setR d r' := rfl
    cases e with
    | some e => cases e <;> rfl
    | none =>
      simp only
      cases (parsePacket none).val bs with
      | ok p =>
        simp only [consultSkipper_setF, hsr, consultSkipper_setR]
        by_cases hsk : (d.consultSkipper { p with payload := [] }).1 = true
        · simp only [hsk, if_true]
          have := ih (setR (d.consultSkipper { p with payload := [] }).2 r')
          simp only [setR_r] at this
          exact this
        · simp only [hsk, if_false, Bool.false_eq_true]
          rfl
      | err e => rfl
      | panic => rfl

theorem bufferNext_keeps (s : Nat) : ∀ (fuel : Nat) (d : Demux),
    (d.bufferNext s fuel).2.packetSize = d.packetSize ∧ (d.bufferNext s fuel).2.optPacketSize = d.optPacketSize ∧
    (d.bufferNext s fuel).2.r.data = d.r.data ∧ (d.bufferNext s fuel).2.dataBuffer = d.dataBuffer := by
  intro fuel d
  have h := bufferNext_setF_kind s d.r.kind d.optPacketSize d.packetSize fuel d
  have e : setF d (setK d.r d.r.kind) d.optPacketSize d.packetSize = d := by
    rw [setK_self]; cases d; rfl
  rw [e] at h
  have h2 := congrArg Prod.snd h
  simp only at h2
  refine ⟨?_, ?_, ?_, ?_⟩
  · conv => lhs; rw [h2]
    rfl
  · conv => lhs; rw [h2]
    rfl
  · -- the data: by induction (the reader is replaced by `readFull`'s)
    clear h h2 e
    induction fuel generalizing d with
    | zero => rfl
    | succ fuel ih =>
      unfold Demux.bufferNext
      have hk := (readFull_kind d.r s).2
      rcases hrf : d.r.readFull s with ⟨bs, e, r'⟩
      rw [hrf] at hk
      simp only at hk ⊢
      cases e with
      | some e => cases e <;> exact hk
      | none =>
        simp only
        cases (parsePacket none).val bs with
        | ok p =>
          simp only
          have hsr : ({ d with r := r' } : Demux) = setR d r' := rfl
          rw [hsr, consultSkipper_setR]
          simp only
          split
          · rw [ih]; exact hk
          · exact hk
        | err e => exact hk
        | panic => exact hk
  · clear h h2 e
    induction fuel generalizing d with
    | zero => rfl
    | succ fuel ih =>
      unfold Demux.bufferNext
      rcases d.r.readFull s with ⟨bs, e, r'⟩
      simp only
      cases e with
      | some e => cases e <;> rfl
      | none =>
        simp only
        cases (parsePacket none).val bs with
        | ok p =>
          simp only
          have hsr : ({ d with r := r' } : Demux) = setR d r' := rfl
          rw [hsr, consultSkipper_setR]
          simp only
          have hdb : (d.consultSkipper { p with payload := [] }).2.dataBuffer = d.dataBuffer := by
            obtain ⟨r, o', sk, pa, ps', pool, pm, db, sl, pl, si⟩ := d
            cases sk <;> rfl
          split
          · rw [ih]; exact hdb
          · exact hdb
        | err e => rfl
        | panic => rfl

/-- states with an existing packet buffer of size `s` that differ only in reader kind and `optPacketSize` -/
def SZ (s : Nat) (d1 d2 : Demux) : Prop :=
  ∃ kk o1, d1 = setF d2 (setK d2.r kk) o1 (some s) ∧ d2.packetSize = some s

theorem nextPacket_SZ {s : Nat} {d1 d2 : Demux} (h : SZ s d1 d2) :
    d1.nextPacket.1 = d2.nextPacket.1 ∧ SZ s d1.nextPacket.2 d2.nextPacket.2 := by
  obtain ⟨kk, o1, rfl, hs⟩ := h
  rw [nextPacket_of_some _ s (setF_packetSize _ _ _ _), nextPacket_of_some d2 s hs]
  simp only [setF_r, setK_data]
  rw [bufferNext_setF_kind]
  exact ⟨rfl, kk, o1, rfl, by rw [(bufferNext_keeps s _ d2).1]; exact hs⟩

theorem drain_keeps' (d : Demux) (fuel : Nat) : (d.drain fuel).2.r = d.r ∧ (d.drain fuel).2.packetSize = d.packetSize :=
  ⟨(drain_keeps d fuel).1, (drain_keeps d fuel).2.2⟩

theorem dataLoop_SZ {s : Nat} : ∀ (fuel : Nat) (d1 d2 : Demux), SZ s d1 d2 →
    (d1.dataLoop fuel).1 = (d2.dataLoop fuel).1 ∧ SZ s (d1.dataLoop fuel).2 (d2.dataLoop fuel).2 := by
  intro fuel
  induction fuel with
  | zero => intro d1 d2 h; exact ⟨rfl, h⟩
  | succ fuel ih =>
    intro d1 d2 h
    rw [dataLoop_cut, dataLoop_cut]
    obtain ⟨e1, kk, o1, hd1, hs⟩ := nextPacket_SZ h
    rw [e1, hd1]
    cases hnp : d2.nextPacket.1 with
    | err e =>
      cases e
      case eof =>
        simp only
        rw [drain_setF, setF_pool]
        obtain ⟨k1, k2⟩ := drain_keeps' d2.nextPacket.2 (d2.nextPacket.2.pool.length + 1)
        refine ⟨rfl, kk, o1, ?_, by rw [k2]; exact hs⟩
        simp only [k1]
      all_goals exact ⟨rfl, kk, o1, rfl, hs⟩
    | panic => exact ⟨rfl, kk, o1, rfl, hs⟩
    | ok p =>
      simp only
      rw [packetStep_setF]
      simp only
      obtain ⟨k1, _, k3⟩ := packetStep_keeps d2.nextPacket.2 p
      have hrel2 : SZ s (setF (packetStep d2.nextPacket.2 p).2 (setK d2.nextPacket.2.r kk) o1 (some s))
          (packetStep d2.nextPacket.2 p).2 := ⟨kk, o1, by rw [k1], by rw [k3]; exact hs⟩
      cases hst : (packetStep d2.nextPacket.2 p).1 with
      | some res => exact ⟨rfl, hrel2⟩
      | none =>
        simp only
        exact ih _ _ hrel2

theorem nextData_SZ {s : Nat} {d1 d2 : Demux} (h : SZ s d1 d2) :
    d1.nextData.1 = d2.nextData.1 ∧ SZ s d1.nextData.2 d2.nextData.2 := by
  obtain ⟨kk, o1, rfl, hs⟩ := h
  unfold Demux.nextData
  rw [setF_dataBuffer]
  cases hdb : d2.dataBuffer with
  | cons x rest =>
    simp only [setF_upd_dataBuffer]
    exact ⟨by triv, kk, o1, rfl, hs⟩
  | nil =>
    simp only [setF_r, setK_data]
    exact dataLoop_SZ _ _ _ ⟨kk, o1, rfl, hs⟩

theorem run_SZ {s : Nat} : ∀ (cs : List Call) (d1 d2 : Demux), SZ s d1 d2 → runModel cs d1 = runModel cs d2 := by
  intro cs
  induction cs with
  | nil => intro _ _ _; rfl
  | cons c cs ih =>
    intro d1 d2 h
    cases c with
    | packet =>
      obtain ⟨e, h'⟩ := nextPacket_SZ h
      simp only [runModel]
      rw [e, ih _ _ h']
    | data =>
      obtain ⟨e, h'⟩ := nextData_SZ h
      simp only [runModel]
      rw [e, ih _ _ h']

/-! ### before the packet buffer exists -/

theorem SZ_refl (s : Nat) (d : Demux) (h : d.packetSize = some s) : SZ s d d := by
  refine ⟨d.r.kind, d.optPacketSize, ?_, h⟩
  rw [setK_self, ← h]
  cases d; rfl

theorem SZ_upd_dataBuffer {s : Nat} {d1 d2 : Demux} (h : SZ s d1 d2) (rest : List DemuxerData) :
    SZ s { d1 with dataBuffer := rest } { d2 with dataBuffer := rest } := by
  obtain ⟨kk, o1, rfl, hs⟩ := h
  exact ⟨kk, o1, rfl, hs⟩

theorem absEnsure_upd_dataBuffer (d : Demux) (rest : List DemuxerData) :
    absEnsure { d with dataBuffer := rest } = ((absEnsure d).1, { (absEnsure d).2 with dataBuffer := rest }) := by
  obtain ⟨r, o, sk, pa, ps, pool, pm, db, sl, pl, si⟩ := d
  unfold absEnsure
  cases ps with
  | some s => rfl
  | none =>
    simp only
    by_cases ho : o ≠ 0
    · simp only [if_pos ho]
    · simp only [if_neg ho]
      rcases autoDetectPacketSize r with ⟨res, r'⟩
      cases res <;> rfl

/-- two states whose packet buffer creation (explicit size, or auto-detection) succeeds with the same size `s` and
leaves states that differ only in reader kind and `optPacketSize` -/
def EnsRel (s : Nat) (d1 d2 : Demux) : Prop :=
  d1.dataBuffer = d2.dataBuffer ∧ d1.r.data.length = d2.r.data.length ∧
  (absEnsure d1).1 = .ok s ∧ (absEnsure d2).1 = .ok s ∧ SZ s (absEnsure d1).2 (absEnsure d2).2

theorem nextPacket_via_ensure (d : Demux) (s : Nat) (h1 : (absEnsure d).1 = .ok s)
    (h2 : (absEnsure d).2.packetSize = some s) : d.nextPacket = (absEnsure d).2.nextPacket := by
  rw [nextPacket_cut, h1, nextPacket_of_some _ s h2]

theorem dataLoop_congr (d e : Demux) (h : d.nextPacket = e.nextPacket) (fuel : Nat) :
    d.dataLoop (fuel + 1) = e.dataLoop (fuel + 1) := by
  rw [dataLoop_cut, dataLoop_cut, h]

theorem SZ_packetSize {s : Nat} {d1 d2 : Demux} (h : SZ s d1 d2) : d1.packetSize = some s ∧ d2.packetSize = some s := by
  obtain ⟨kk, o1, rfl, hs⟩ := h
  exact ⟨rfl, hs⟩

theorem nextPacket_EnsRel {s : Nat} {d1 d2 : Demux} (h : EnsRel s d1 d2) :
    d1.nextPacket.1 = d2.nextPacket.1 ∧ SZ s d1.nextPacket.2 d2.nextPacket.2 := by
  obtain ⟨_, _, h1, h2, hsz⟩ := h
  obtain ⟨p1, p2⟩ := SZ_packetSize hsz
  rw [nextPacket_via_ensure d1 s h1 p1, nextPacket_via_ensure d2 s h2 p2]
  exact nextPacket_SZ hsz

theorem nextData_EnsRel {s : Nat} {d1 d2 : Demux} (h : EnsRel s d1 d2) :
    d1.nextData.1 = d2.nextData.1 ∧ (SZ s d1.nextData.2 d2.nextData.2 ∨ EnsRel s d1.nextData.2 d2.nextData.2) := by
  obtain ⟨hdb, hlen, h1, h2, hsz⟩ := h
  obtain ⟨p1, p2⟩ := SZ_packetSize hsz
  unfold Demux.nextData
  rw [hdb]
  cases hd : d2.dataBuffer with
  | cons x rest =>
    simp only
    refine ⟨by triv, Or.inr ⟨rfl, hlen, ?_, ?_, ?_⟩⟩
    · rw [absEnsure_upd_dataBuffer d1 rest]; exact h1
    · rw [absEnsure_upd_dataBuffer d2 rest]; exact h2
    · rw [absEnsure_upd_dataBuffer d1 rest, absEnsure_upd_dataBuffer d2 rest]
      exact SZ_upd_dataBuffer hsz rest
  | nil =>
    simp only
    rw [hlen, dataLoop_congr d1 _ (nextPacket_via_ensure d1 s h1 p1), dataLoop_congr d2 _ (nextPacket_via_ensure d2 s h2 p2)]
    obtain ⟨e, hs'⟩ := dataLoop_SZ (d2.r.data.length + 1 + 1) _ _ hsz
    exact ⟨e, Or.inl hs'⟩

theorem run_EnsRel {s : Nat} : ∀ (cs : List Call) (d1 d2 : Demux), EnsRel s d1 d2 → runModel cs d1 = runModel cs d2 := by
  intro cs
  induction cs with
  | nil => intro _ _ _; rfl
  | cons c cs ih =>
    intro d1 d2 h
    cases c with
    | packet =>
      obtain ⟨e, h'⟩ := nextPacket_EnsRel h
      simp only [runModel]
      rw [e, run_SZ cs _ _ h']
    | data =>
      obtain ⟨e, h'⟩ := nextData_EnsRel h
      simp only [runModel]
      rw [e]
      rcases h' with h' | h'
      · rw [run_SZ cs _ _ h']
      · rw [ih _ _ h']

end Astits.Chunking
