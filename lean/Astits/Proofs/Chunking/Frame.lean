/-
C08 helper (K2, packet level): a relational Hoare logic for the parser monad `P` relating two runs of a parser
on two slices that share a tail, at the same position inside the tail.  Used to show that `parsePacket`
ignores the `k` extra bytes that follow the sync byte of a `188+k`-byte frame.
-/
import Astits.Proofs.NoPanic.Packet
import Astits.Spec.TS
namespace Astits.Chunking

/-- two iterators over the slices `p1 ++ tl` and `p2 ++ tl`, both positioned inside the shared tail `tl`, at the same
distance from its start -/
def Sh (p1 p2 tl : Bytes) (i1 i2 : It) : Prop :=
  i1.bs = p1 ++ tl ∧ i2.bs = p2 ++ tl ∧ i1.off - p1.length = i2.off - p2.length ∧ (p1.length : Int) ≤ i1.off

/-- related outcomes: same class; values related by `V`, iterators by `S` -/
def RRel {α} (V : α → α → Prop) (S : It → It → Prop) (r1 r2 : Res (α × It)) : Prop :=
  match r1, r2 with
  | .ok (a1, i1), .ok (a2, i2) => V a1 a2 ∧ S i1 i2
  | .err e1, .err e2 => e1 = e2
  | .panic, .panic => True
  | _, _ => False

@[simp] theorem RRel_ok {α} (V : α → α → Prop) (S : It → It → Prop) (a1 a2 : α) (i1 i2 : It) :
    RRel V S (.ok (a1, i1)) (.ok (a2, i2)) = (V a1 a2 ∧ S i1 i2) := rfl
@[simp] theorem RRel_err {α} (V : α → α → Prop) (S : It → It → Prop) (e1 e2 : Err) :
    RRel V S (.err e1 : Res (α × It)) (.err e2) = (e1 = e2) := rfl

/-- `Sim S V p q`: from `S`-related iterators, `p` and `q` have related outcomes -/
def Sim {α} (S : It → It → Prop) (V : α → α → Prop) (p q : P α) : Prop :=
  ∀ i1 i2, S i1 i2 → RRel V S (p i1) (q i2)

section rules
variable {S : It → It → Prop}

theorem Sim.bind {α β} {V : α → α → Prop} {W : β → β → Prop} {p q : P α} {f g : α → P β}
    (hp : Sim S V p q) (hf : ∀ a1 a2, V a1 a2 → Sim S W (f a1) (g a2)) : Sim S W (p >>= f) (q >>= g) := by
  intro i1 i2 hs
  have h1 := hp i1 i2 hs
  show RRel W S ((p >>= f) i1) ((q >>= g) i2)
  rw [P.bind_run, P.bind_run]
  cases e1 : p i1 with
  | ok x =>
    obtain ⟨a1, j1⟩ := x
    cases e2 : q i2 with
    | ok y =>
      obtain ⟨a2, j2⟩ := y
      rw [e1, e2] at h1
      exact hf a1 a2 h1.1 j1 j2 h1.2
    | err _ => rw [e1, e2] at h1; exact h1.elim
    | panic => rw [e1, e2] at h1; exact h1.elim
  | err _ =>
    cases e2 : q i2 with
    | ok y => obtain ⟨a2, j2⟩ := y; rw [e1, e2] at h1; exact h1.elim
    | err _ => rw [e1, e2] at h1; exact h1
    | panic => rw [e1, e2] at h1; exact h1.elim
  | panic =>
    cases e2 : q i2 with
    | ok y => obtain ⟨a2, j2⟩ := y; rw [e1, e2] at h1; exact h1.elim
    | err _ => rw [e1, e2] at h1; exact h1.elim
    | panic => trivial

/-- the common case: the first statement returns equal values -/
theorem Sim.bindE {α β} {W : β → β → Prop} {p : P α} {f g : α → P β}
    (hp : Sim S Eq p p) (hf : ∀ a, Sim S W (f a) (g a)) : Sim S W (p >>= f) (p >>= g) :=
  Sim.bind hp (fun a1 a2 e => by cases e; exact hf a1)

theorem Sim.pure {α} {V : α → α → Prop} (a1 a2 : α) (h : V a1 a2) : Sim S V (pure a1 : P α) (pure a2) :=
  fun _ _ hs => ⟨h, hs⟩

theorem Sim.fail {α} {V : α → α → Prop} (e : Err) : Sim S V (P.fail e : P α) (P.fail e) :=
  fun _ _ _ => rfl

theorem Sim.ite {α} {V : α → α → Prop} {c : Prop} [Decidable c] {p p' q q' : P α}
    (hp : c → Sim S V p p') (hq : ¬ c → Sim S V q q') : Sim S V (if c then p else q) (if c then p' else q') := by
  by_cases h : c
  · rw [if_pos h, if_pos h]; exact hp h
  · rw [if_neg h, if_neg h]; exact hq h

theorem Sim.mono {α} {V W : α → α → Prop} {p q : P α} (h : Sim S V p q) (hvw : ∀ a b, V a b → W a b) :
    Sim S W p q := by
  intro i1 i2 hs
  have := h i1 i2 hs
  cases e1 : p i1 with
  | ok x =>
    obtain ⟨a1, j1⟩ := x
    cases e2 : q i2 with
    | ok y => obtain ⟨a2, j2⟩ := y; rw [e1, e2] at this; exact ⟨hvw _ _ this.1, this.2⟩
    | err _ => rw [e1, e2] at this; exact this.elim
    | panic => rw [e1, e2] at this; exact this.elim
  | err _ =>
    cases e2 : q i2 with
    | ok y => obtain ⟨a2, j2⟩ := y; rw [e1, e2] at this; exact this.elim
    | err _ => rw [e1, e2] at this; exact this
    | panic => rw [e1, e2] at this; exact this.elim
  | panic =>
    cases e2 : q i2 with
    | ok y => obtain ⟨a2, j2⟩ := y; rw [e1, e2] at this; exact this.elim
    | err _ => rw [e1, e2] at this; exact this.elim
    | panic => trivial

end rules

/-! ### the iterator primitives on slices sharing a tail -/

section prims
variable {p1 p2 tl : Bytes}

theorem sh_getD (i1 i2 : It) (h : Sh p1 p2 tl i1 i2) :
    i1.bs.getD i1.off.toNat 0 = i2.bs.getD i2.off.toNat 0 := by
  obtain ⟨h1, h2, h3, h4⟩ := h
  have e1 : i1.off.toNat = p1.length + (i1.off - p1.length).toNat := by omega
  have e2 : i2.off.toNat = p2.length + (i1.off - p1.length).toNat := by omega
  rw [h1, h2, e1, e2]
  simp only [List.getD_eq_getElem?_getD, List.getElem?_append_right (Nat.le_add_right _ _), Nat.add_sub_cancel_left]

theorem sh_drop (i1 i2 : It) (h : Sh p1 p2 tl i1 i2) :
    i1.bs.drop i1.off.toNat = i2.bs.drop i2.off.toNat := by
  obtain ⟨h1, h2, h3, h4⟩ := h
  have e1 : i1.off.toNat = p1.length + (i1.off - p1.length).toNat := by omega
  have e2 : i2.off.toNat = p2.length + (i1.off - p1.length).toNat := by omega
  rw [h1, h2, e1, e2, List.drop_append, List.drop_append,
    List.drop_eq_nil_of_le (Nat.le_add_right _ _), List.drop_eq_nil_of_le (Nat.le_add_right _ _),
    Nat.add_sub_cancel_left, Nat.add_sub_cancel_left]

theorem sh_len (i1 i2 : It) (h : Sh p1 p2 tl i1 i2) :
    (i1.bs.length : Int) - i1.off = (i2.bs.length : Int) - i2.off := by
  obtain ⟨h1, h2, h3, h4⟩ := h
  rw [h1, h2]
  simp only [List.length_append]
  omega

theorem sh_step (i1 i2 : It) (h : Sh p1 p2 tl i1 i2) (n : Int) (hn : 0 ≤ n) :
    Sh p1 p2 tl ⟨i1.bs, i1.off + n⟩ ⟨i2.bs, i2.off + n⟩ := by
  obtain ⟨h1, h2, h3, h4⟩ := h
  exact ⟨h1, h2, by simp only; omega, by simp only; omega⟩

theorem Sim_nextByte : Sim (Sh p1 p2 tl) Eq It.nextByte It.nextByte := by
  intro i1 i2 h
  have hl := sh_len i1 i2 h
  have hg := sh_getD i1 i2 h
  have hs := sh_step i1 i2 h 1 (by omega)
  obtain ⟨h1, h2, h3, h4⟩ := h
  unfold It.nextByte
  by_cases c : (i1.bs.length : Int) < i1.off + 1
  · have c' : (i2.bs.length : Int) < i2.off + 1 := by omega
    rw [if_pos c, if_pos c']; rfl
  · have c' : ¬ (i2.bs.length : Int) < i2.off + 1 := by omega
    have n1 : ¬ i1.off < 0 := by omega
    have n2 : ¬ i2.off < 0 := by omega
    rw [if_neg c, if_neg c', if_neg n1, if_neg n2]
    exact ⟨hg, hs⟩

theorem Sim_nextBytes (n : Int) : Sim (Sh p1 p2 tl) Eq (It.nextBytes n) (It.nextBytes n) := by
  intro i1 i2 h
  have hl := sh_len i1 i2 h
  have hd := sh_drop i1 i2 h
  obtain ⟨h1, h2, h3, h4⟩ := h
  unfold It.nextBytes
  by_cases c : (i1.bs.length : Int) < i1.off + n
  · have c' : (i2.bs.length : Int) < i2.off + n := by omega
    rw [if_pos c, if_pos c']; rfl
  · have c' : ¬ (i2.bs.length : Int) < i2.off + n := by omega
    rw [if_neg c, if_neg c']
    by_cases cn : n < 0
    · have n1 : n < 0 ∨ i1.off < 0 := Or.inl cn
      have n2 : n < 0 ∨ i2.off < 0 := Or.inl cn
      rw [if_pos n1, if_pos n2]; trivial
    · have n1 : ¬ (n < 0 ∨ i1.off < 0) := by omega
      have n2 : ¬ (n < 0 ∨ i2.off < 0) := by omega
      rw [if_neg n1, if_neg n2]
      refine ⟨by rw [hd], ?_⟩
      exact sh_step i1 i2 ⟨h1, h2, h3, h4⟩ n (by omega)

theorem Sim_skip (n : Int) (hn : 0 ≤ n) : Sim (Sh p1 p2 tl) Eq (It.skip n) (It.skip n) := by
  intro i1 i2 h
  exact ⟨rfl, sh_step i1 i2 h n hn⟩

theorem Sim_skip_nat (n : Nat) : Sim (Sh p1 p2 tl) Eq (It.skip (n : Int)) (It.skip (n : Int)) :=
  Sim_skip _ (Int.natCast_nonneg n)

/-- the offsets differ by the difference of the prefix lengths -/
theorem Sim_offset :
    Sim (Sh p1 p2 tl) (fun o1 o2 => o1 - (p1.length : Int) = o2 - (p2.length : Int) ∧ (p1.length : Int) ≤ o1)
      It.offset It.offset := by
  intro i1 i2 h
  exact ⟨⟨h.2.2.1, h.2.2.2⟩, h⟩

theorem Sim_hasBytesLeft : Sim (Sh p1 p2 tl) Eq It.hasBytesLeft It.hasBytesLeft := by
  intro i1 i2 h
  have hl := sh_len i1 i2 h
  refine ⟨?_, h⟩
  show decide _ = decide _
  congr 1
  apply propext
  constructor <;> intro <;> omega

theorem Sim_dump : Sim (Sh p1 p2 tl) Eq It.dump It.dump := by
  intro i1 i2 h
  have hl := sh_len i1 i2 h
  have hd := sh_drop i1 i2 h
  obtain ⟨h1, h2, h3, h4⟩ := h
  unfold It.dump
  by_cases c : ¬ (i1.off < (i1.bs.length : Int))
  · have c' : ¬ (i2.off < (i2.bs.length : Int)) := by omega
    rw [if_pos c, if_pos c']
    exact ⟨rfl, h1, h2, h3, h4⟩
  · have c' : ¬ ¬ (i2.off < (i2.bs.length : Int)) := by omega
    have n1 : ¬ i1.off < 0 := by omega
    have n2 : ¬ i2.off < 0 := by omega
    rw [if_neg c, if_neg c', if_neg n1, if_neg n2]
    refine ⟨hd, h1, h2, ?_, ?_⟩
    · simp only [h1, h2, List.length_append]; omega
    · simp only [h1, List.length_append]; omega

/-- a seek to corresponding absolute offsets inside the tail -/
theorem Sim_seek (n1 n2 : Int) (h : n1 - (p1.length : Int) = n2 - (p2.length : Int)) (h0 : (p1.length : Int) ≤ n1) :
    Sim (Sh p1 p2 tl) Eq (It.seek n1) (It.seek n2) := by
  intro i1 i2 hs
  exact ⟨rfl, hs.1, hs.2.1, h, h0⟩

/-- `b, _ := i.NextByte(); i.Skip(-1)` -/
theorem Sim_peek {β} {W : β → β → Prop} {f g : Nat → P β} (hf : ∀ b, Sim (Sh p1 p2 tl) W (f b) (g b)) :
    Sim (Sh p1 p2 tl) W (It.nextByte >>= fun b => It.skip (-1) >>= fun _ => f b)
      (It.nextByte >>= fun b => It.skip (-1) >>= fun _ => g b) := by
  intro i1 i2 h
  have hl := sh_len i1 i2 h
  have hg := sh_getD i1 i2 h
  rw [P.bind_run, P.bind_run]
  unfold It.nextByte
  by_cases c : (i1.bs.length : Int) < i1.off + 1
  · have c' : (i2.bs.length : Int) < i2.off + 1 := by omega
    rw [if_pos c, if_pos c']; rfl
  · have c' : ¬ (i2.bs.length : Int) < i2.off + 1 := by omega
    have n1 : ¬ i1.off < 0 := by have := h.2.2.2; omega
    have n2 : ¬ i2.off < 0 := by have := h.2.2.2; have := h.2.2.1; omega
    rw [if_neg c, if_neg c', if_neg n1, if_neg n2]
    simp only [P.bind_run, It.skip]
    have e1 : i1.off + 1 + -1 = i1.off := by omega
    have e2 : i2.off + 1 + -1 = i2.off := by omega
    rw [e1, e2, hg]
    exact hf _ _ _ h

end prims

/-! ### a tactic for straight-line parsers run on both slices -/

syntax "sim_leaf" : tactic
macro_rules | `(tactic| sim_leaf) => `(tactic| exact Sim_nextByte)
macro_rules | `(tactic| sim_leaf) => `(tactic| exact Sim_nextBytes _)
macro_rules | `(tactic| sim_leaf) => `(tactic| exact Sim_skip_nat _)
macro_rules | `(tactic| sim_leaf) => `(tactic| exact Sim_hasBytesLeft)
macro_rules | `(tactic| sim_leaf) => `(tactic| exact Sim_dump)
macro_rules | `(tactic| sim_leaf) => `(tactic| exact Sim.fail _)
macro_rules | `(tactic| sim_leaf) => `(tactic| exact Sim.pure _ _ rfl)
macro_rules | `(tactic| sim_leaf) => `(tactic| assumption)

syntax "sim_step" : tactic
macro_rules | `(tactic| sim_step) => `(tactic| first
  | (with_reducible sim_leaf)
  | (with_reducible refine Sim_peek (fun _ => ?_))
  | (with_reducible refine Sim.bind Sim_offset (fun _ _ _ => ?_))
  | (with_reducible refine Sim.bindE ?_ (fun _ => ?_))
  | (with_reducible refine Sim.ite (fun _ => ?_) (fun _ => ?_))
  | (dsimp only)
  | (split))

macro "sim_auto" : tactic => `(tactic| repeat' sim_step)

section parsers
variable {p1 p2 tl : Bytes}

theorem Sim_parsePacketHeader : Sim (Sh p1 p2 tl) Eq parsePacketHeader parsePacketHeader := by
  unfold parsePacketHeader; sim_auto
macro_rules | `(tactic| sim_leaf) => `(tactic| exact Sim_parsePacketHeader)

theorem Sim_parsePCR : Sim (Sh p1 p2 tl) Eq parsePCR parsePCR := by unfold parsePCR; sim_auto
macro_rules | `(tactic| sim_leaf) => `(tactic| exact Sim_parsePCR)

theorem Sim_parsePTSOrDTS : Sim (Sh p1 p2 tl) Eq parsePTSOrDTS parsePTSOrDTS := by unfold parsePTSOrDTS; sim_auto
macro_rules | `(tactic| sim_leaf) => `(tactic| exact Sim_parsePTSOrDTS)

theorem Sim_parseAFExtension : Sim (Sh p1 p2 tl) Eq parseAFExtension parseAFExtension := by
  unfold parseAFExtension; sim_auto
macro_rules | `(tactic| sim_leaf) => `(tactic| exact Sim_parseAFExtension)

theorem Sim_parsePacketAdaptationField :
    Sim (Sh p1 p2 tl) Eq parsePacketAdaptationField parsePacketAdaptationField := by
  unfold parsePacketAdaptationField; sim_auto
  all_goals (refine Sim.pure _ _ ?_; congr 1; omega)

end parsers

/-! ### `parsePacket` on a `188+k`-byte frame -/

/-- a unary postcondition on the left run can be added to a simulation -/
theorem Sim.withPost {α} {S : It → It → Prop} {V : α → α → Prop} {A : It → Prop} {Q : α → Prop} {p q : P α}
    (h : Sim S V p q) (ht : Tr A p (fun a _ => Q a)) (hA : ∀ i1 i2, S i1 i2 → A i1) :
    Sim S (fun a b => V a b ∧ Q a) p q := by
  intro i1 i2 hs
  have h1 := h i1 i2 hs
  have h2 := ht i1 (hA i1 i2 hs)
  cases e1 : p i1 with
  | ok x =>
    obtain ⟨a1, j1⟩ := x
    rw [e1] at h1 h2
    cases e2 : q i2 with
    | ok y => obtain ⟨a2, j2⟩ := y; rw [e2] at h1; exact ⟨⟨h1.1, h2⟩, h1.2⟩
    | err _ => rw [e2] at h1; exact h1.elim
    | panic => rw [e2] at h1; exact h1.elim
  | err _ =>
    rw [e1] at h1
    cases e2 : q i2 with
    | ok y => obtain ⟨a2, j2⟩ := y; rw [e2] at h1; exact h1.elim
    | err _ => rw [e2] at h1; exact h1
    | panic => rw [e2] at h1; exact h1.elim
  | panic => rw [e1] at h2; exact h2.elim

/-- what `parsePacket` does after the sync byte test and the seek to the last 187 bytes -/
def pktBody (skip : Option (Packet → Bool)) : P Packet := do
  let offsetStart ← It.offset
  let h ← parsePacketHeader
  let af ← (if h.hasAdaptationField then do let a ← parsePacketAdaptationField; pure (some a)
    else pure none : P (Option PacketAdaptationField))
  let p : Packet := { adaptationField := af, header := h, payload := [] }
  if (match skip with | some s => s p | none => false) then P.fail .skipped
  else if h.hasPayload then
    It.seek (payloadOffset offsetStart h af)
    let pl ← It.dump
    return { p with payload := pl }
  else return p

theorem parsePacket_sync (skip : Option (Packet → Bool)) (tl : Bytes) :
    parsePacket skip ⟨syncByte :: tl, 0⟩ = pktBody skip ⟨syncByte :: tl, (tl.length : Int) + 1 - 188 + 1⟩ := by
  have e1 : It.nextByte ⟨syncByte :: tl, 0⟩ = .ok (syncByte, ⟨syncByte :: tl, 1⟩) := by
    unfold It.nextByte
    have : ¬ (((syncByte :: tl).length : Int) < 0 + 1) := by simp only [List.length_cons]; omega
    simp only [this, if_false]
    rfl
  unfold parsePacket
  rw [P.bind_run, e1]
  simp only [ne_eq, not_true_eq_false, if_false]
  rw [P.bind_run]; simp only [It.len]
  rw [P.bind_run]; simp only [It.seek]
  rfl

theorem Sim_pktBody {p1 p2 tl : Bytes} (skip : Option (Packet → Bool)) :
    Sim (Sh p1 p2 tl) Eq (pktBody skip) (pktBody skip) := by
  unfold pktBody
  refine Sim.bind Sim_offset (fun o1 o2 ho => ?_)
  refine Sim.bindE Sim_parsePacketHeader (fun h => ?_)
  refine Sim.bind (V := fun a b => a = b ∧ ∀ x, a = some x → 0 ≤ x.length) ?_ (fun af af' haf => ?_)
  · refine Sim.ite (fun _ => ?_) (fun _ => Sim.pure _ _ ⟨rfl, fun _ e => by cases e⟩)
    refine Sim.bind (Sim.withPost (A := Inv) Sim_parsePacketAdaptationField
      (Tr.weaken NPQ_parsePacketAdaptationField (fun _ h => h) (fun _ _ h => h.2))
      (fun i1 i2 hs => by have := hs.2.2.2; unfold Inv; omega)) (fun a b hab => ?_)
    obtain ⟨rfl, ha⟩ := hab
    exact Sim.pure _ _ ⟨rfl, fun x e => by cases e; exact ha⟩
  obtain ⟨rfl, haf⟩ := haf
  dsimp only
  refine Sim.ite (fun _ => Sim.fail _) (fun _ => ?_)
  refine Sim.ite (fun _ => ?_) (fun _ => Sim.pure _ _ rfl)
  have hpo : payloadOffset o1 h af - (p1.length : Int) = payloadOffset o2 h af - (p2.length : Int) ∧
      (p1.length : Int) ≤ payloadOffset o1 h af := by
    unfold payloadOffset
    cases af with
    | none => simp only; split <;> omega
    | some a => have := haf a rfl; simp only; split <;> omega
  refine Sim.bind (Sim_seek _ _ hpo.1 hpo.2) (fun _ _ _ => ?_)
  sim_auto

/-- **K2, packet level**: the `k` bytes that follow the sync byte of a `188+k`-byte frame are ignored by
`parsePacket`, whatever they are and whatever the skipper: same packet, same error, same panic -/
theorem parsePacket_frame (skip : Option (Packet → Bool)) (extra rest : Bytes) (hr : rest.length = 187) :
    (parsePacket skip).val (syncByte :: (extra ++ rest)) = (parsePacket skip).val (syncByte :: rest) := by
  unfold P.val
  rw [parsePacket_sync, parsePacket_sync]
  have hs : Sh (syncByte :: extra) [syncByte] rest
      ⟨syncByte :: (extra ++ rest), ((extra ++ rest).length : Int) + 1 - 188 + 1⟩
      ⟨syncByte :: rest, (rest.length : Int) + 1 - 188 + 1⟩ := by
    refine ⟨by simp, by simp, ?_, ?_⟩ <;> simp only [List.length_append, List.length_cons, List.length_nil, hr] <;> omega
  have := Sim_pktBody skip _ _ hs
  revert this
  generalize pktBody skip ⟨syncByte :: (extra ++ rest), _⟩ = r1
  generalize pktBody skip ⟨syncByte :: rest, _⟩ = r2
  intro h
  cases r1 with
  | ok x =>
    obtain ⟨a1, j1⟩ := x
    cases r2 with
    | ok y => obtain ⟨a2, j2⟩ := y; simp only [RRel_ok] at h; simp only [h.1]
    | err _ => exact h.elim
    | panic => exact h.elim
  | err _ =>
    cases r2 with
    | ok y => obtain ⟨a2, j2⟩ := y; exact h.elim
    | err _ => simp only [RRel_err] at h; simp only [h]
    | panic => exact h.elim
  | panic =>
    cases r2 with
    | ok y => obtain ⟨a2, j2⟩ := y; exact h.elim
    | err _ => exact h.elim
    | panic => rfl

/-- the same for the reference frame layout `Spec.tsExpand` used by the test driver: expanding any 188-byte slice
(sync-led or not) by any extra bytes does not change what `parsePacket` returns -/
theorem parsePacket_tsExpand (skip : Option (Packet → Bool)) (extra pkt : Bytes) (hl : pkt.length = 188) :
    (parsePacket skip).val (Spec.tsExpand extra pkt) = (parsePacket skip).val pkt := by
  cases pkt with
  | nil => simp at hl
  | cons b rest =>
    have hr : rest.length = 187 := by simpa using hl
    by_cases hb : b = syncByte
    · subst hb
      have : Spec.tsExpand extra (syncByte :: rest) = syncByte :: (extra ++ rest) := by simp [Spec.tsExpand]
      rw [this]
      exact parsePacket_frame skip extra rest hr
    · have : Spec.tsExpand extra (b :: rest) = b :: (extra ++ rest) := by simp [Spec.tsExpand]
      rw [this]
      unfold P.val
      rw [parsePacket_no_sync skip b _ hb, parsePacket_no_sync skip b _ hb]

end Astits.Chunking
