/-
C08 helper (K1, layer 3): the demuxer over the concrete readers.

`LReader` is the reader handed to `NewDemuxer` by the harness, for each of the four reader kinds: the harness reader
itself (`seek`: wrapped in `vseeker`; `plain`), or a `bufio.Reader` around it (`bufio`: default size; `bufioSmall`:
a buffer smaller than the 193 bytes auto-detection wants to peek).  `lAutoDetect`, `LDemux.nextPacket`,
`LDemux.nextData` transcribe packet_buffer.go / demuxer.go over this reader: every byte is obtained through
`Read` calls served according to the read schedule.  They are shown to compute, on the abstract reader, exactly what
the model (`autoDetectPacketSize`, `Demux.nextPacket`, `Demux.nextData`) computes.
-/
import Astits.Proofs.Chunking.Bufio
namespace Astits.Chunking

/-- closes `x = x` goals whether or not `simp` has already turned them into `True` -/
macro "triv" : tactic => `(tactic| first | rfl | trivial)

def isBufio : ReaderKind → Bool
  | .bufio | .bufioSmall => true
  | _ => false

abbrev LReader := BReader

/-- `Read` of the reader handed to the demuxer -/
def LReader.read (l : LReader) (n : Nat) : Bytes × Option ReadErr × LReader :=
  if isBufio l.v.r.kind then BReader.read l n
  else ((l.v.read n).1, (l.v.read n).2.1, { l with v := (l.v.read n).2.2 })

/-- representation invariant: `bufio`'s, and the buffer sizes that go with the kinds -/
structure LReader.Inv (l : LReader) : Prop where
  binv : BReader.Inv l
  hplain : isBufio l.v.r.kind = false → l.buf = []
  hbig : l.v.r.kind = .bufio → 193 ≤ l.size
  hsmall : l.v.r.kind = .bufioSmall → l.size < 193

def LImpl : ReaderImpl LReader := { read := LReader.read, abs := BReader.abs, inv := LReader.Inv }

theorem BReader.read_kind (b : BReader) (n : Nat) :
    (b.read n).2.2.v.r.kind = b.v.r.kind ∧ (b.read n).2.2.size = b.size ∧ (b.read n).2.2.v.r.data = b.v.r.data := by
  unfold BReader.read
  split
  · split
    · exact ⟨(b.v.read_frame n).2.1, rfl, (b.v.read_frame n).1⟩
    · dsimp only
      split <;> exact ⟨(b.v.read_frame b.size).2.1, rfl, (b.v.read_frame b.size).1⟩
  · exact ⟨rfl, rfl, rfl⟩

theorem LImpl_conforms : Conforms LImpl := by
  intro l n hi hn
  obtain ⟨binv, hplain, hbig, hsmall⟩ := hi
  show LReader.Inv (LReader.read l n).2.2 ∧
    ReadStep (BReader.abs l) n (LReader.read l n).1 (LReader.read l n).2.1 (BReader.abs (LReader.read l n).2.2)
  unfold LReader.read
  by_cases hk : isBufio l.v.r.kind = true
  · rw [if_pos hk]
    obtain ⟨h1, h2⟩ := BImpl_conforms l n binv hn
    obtain ⟨k1, k2, _⟩ := BReader.read_kind l n
    refine ⟨⟨h1, ?_, ?_, ?_⟩, h2⟩
    · intro h; rw [k1, hk] at h; cases h
    · intro h; rw [k1] at h; rw [k2]; exact hbig h
    · intro h; rw [k1] at h; rw [k2]; exact hsmall h
  · rw [if_neg hk]
    have hk' : isBufio l.v.r.kind = false := by simpa using hk
    obtain ⟨h1, h2⟩ := BReader.read_direct l n hn binv (hplain hk')
    have k1 := (l.v.read_frame n).2.1
    refine ⟨⟨h1, ?_, ?_, ?_⟩, h2⟩
    · intro _; exact hplain hk'
    · intro h; simp only [k1] at h; exact hbig h
    · intro h; simp only [k1] at h; exact hsmall h

/-- **`io.ReadFull` over the reader handed to the demuxer** (any kind, any read schedule) is the model's
`Reader.readFull` on the abstract reader -/
theorem lReadFull_refines (l : LReader) (n : Nat) (hi : LReader.Inv l) :
    (ioReadFull LImpl l n).1 = (l.abs.readFull n).1 ∧
    (ioReadFull LImpl l n).2.1 = (l.abs.readFull n).2.1 ∧
    (ioReadFull LImpl l n).2.2.abs = (l.abs.readFull n).2.2 ∧
    LReader.Inv (ioReadFull LImpl l n).2.2 := by
  have hpos : (LImpl.abs l).pos ≤ (LImpl.abs l).data.length := by
    show l.v.r.pos - l.buf.length ≤ l.v.r.data.length
    have := hi.binv.hpos; omega
  have := ioReadFull_refines LImpl LImpl_conforms l n hi hpos
  exact ⟨this.1, this.2.1, this.2.2.1, this.2.2.2.1⟩

/-! ### auto-detection over the concrete reader -/

/-- `peek(r, b)` of packet_buffer.go with `len(b) = 193`: the bytes (zero-padded), the error class, the reader
afterwards, `shouldRewind` -/
def lPeek (l : LReader) : Bytes × Option Err × LReader × Bool :=
  if isBufio l.v.r.kind = true ∧ 193 ≤ l.size then
    -- br.Peek(len(b))
    match (BReader.peek l 193).2.1 with
    | some (.read .eof) =>
      if (BReader.peek l 193).1 = [] then ([], some Err.eof, (BReader.peek l 193).2.2, false)
      else (padTo (BReader.peek l 193).1 193, none, (BReader.peek l 193).2.2, false)
    | some (.read .injected) => ([], some Err.io, (BReader.peek l 193).2.2, false)
    | some _ => ([], some Err.other, (BReader.peek l 193).2.2, false)
    | none => (padTo (BReader.peek l 193).1 193, none, (BReader.peek l 193).2.2, false)
  else
    -- io.ReadFull(r, b)
    match (ioReadFull LImpl l 193).2.1 with
    | some .injected => ([], some Err.io, (ioReadFull LImpl l 193).2.2, true)
    | some .eof => ([], some Err.eof, (ioReadFull LImpl l 193).2.2, true)
    | _ => (padTo (ioReadFull LImpl l 193).1 193, none, (ioReadFull LImpl l 193).2.2, true)

/-- `s.Seek(0, 0)` of the seekable harness reader -/
def LReader.seek0 (l : LReader) : LReader := { l with v := { l.v with r := { l.v.r with pos := 0 } } }

/-- the part of `autoDetectPacketSize` after the peek -/
def lAfter (l : LReader) : Bytes × Option Err × LReader × Bool → Res Nat × LReader
  | (b, perr, l1, shouldRewind) =>
    match perr with
    | some e => (.err e, l1)
    | none =>
      -- the deferred `br.Discard(l)` of a failed detection on a peeked bufio.Reader
      let consumed : LReader := if isBufio l.v.r.kind = true ∧ shouldRewind = false then BReader.discard l1 193 else l1
      if b.getD 0 0 ≠ syncByte then (.err .sync, consumed)
      else match findSync b with
        | none => (.err .other, consumed)
        | some size =>
          if !shouldRewind then (.ok size, l1)
          else if l.v.r.kind = .seek then (.ok size, LReader.seek0 l1)
          else
            match (ioReadFull LImpl l1 (size - (193 - size))).2.1 with
            | none => (.ok size, (ioReadFull LImpl l1 (size - (193 - size))).2.2)
            | some .injected => (.err .io, (ioReadFull LImpl l1 (size - (193 - size))).2.2)
            | some _ => (.err .other, (ioReadFull LImpl l1 (size - (193 - size))).2.2)

/-- `autoDetectPacketSize(r)` over the concrete reader -/
def lAutoDetect (l : LReader) : Res Nat × LReader := lAfter l (lPeek l)

/-! the model's auto-detection, cut the same way -/

def absPeek (r : Reader) : Bytes × Option Err × Reader × Bool :=
  let l := 193
  match r.kind with
  | .bufio =>
    let avail := r.data.length - r.pos
    let bs := (r.data.drop r.pos).take l
    (match r.faultActive with
     | some f =>
       if r.pos ≤ f ∧ f < r.pos + l ∧ f ≤ r.data.length then
         ([], some Err.io, { r with faultDone := r.faultOnce }, false)
       else if avail = 0 then ([], some Err.eof, r, false) else (padTo bs l, none, r, false)
     | none => if avail = 0 then ([], some Err.eof, r, false) else (padTo bs l, none, r, false))
  | _ =>
    let (bs, e, r') := r.readFull l
    (match e with
     | some .injected => ([], some Err.io, r', true)
     | some .eof => ([], some Err.eof, r', true)
     | _ => (padTo bs l, none, r', true))

def absAfter (r : Reader) : Bytes × Option Err × Reader × Bool → Res Nat × Reader
  | (b, perr, r1, shouldRewind) =>
    let l := 193
    match perr with
    | some e => (.err e, r1)
    | none =>
      let consumed : Reader := if r.kind = .bufio then { r1 with pos := min r1.data.length (r1.pos + l) } else r1
      if b.getD 0 0 ≠ syncByte then (.err .sync, consumed)
      else match findSync b with
        | none => (.err .other, consumed)
        | some size =>
          if !shouldRewind then (.ok size, r1)
          else match r.kind with
            | .seek => (.ok size, { r1 with pos := 0 })
            | _ =>
              let ls := size - (l - size)
              let (_, e, r2) := r1.readFull ls
              (match e with
               | none => (.ok size, r2)
               | some .injected => (.err .io, r2)
               | some _ => (.err .other, r2))

theorem autoDetect_cut (r : Reader) : autoDetectPacketSize r = absAfter r (absPeek r) := rfl

theorem abs_kind (l : LReader) : l.abs.kind = l.v.r.kind := rfl

theorem faultIn_iff (r : Reader) (n : Nat) :
    faultIn r n ↔ ∃ f, r.faultActive = some f ∧ (r.pos ≤ f ∧ f < r.pos + n ∧ f ≤ r.data.length) :=
  Iff.rfl

/-- the model's peek of a `bufio` reader, by cases -/
theorem absPeek_bufio (r : Reader) (hk : r.kind = .bufio) :
    (faultIn r 193 → absPeek r = ([], some Err.io, { r with faultDone := r.faultOnce }, false)) ∧
    (¬ faultIn r 193 → r.data.length - r.pos = 0 → absPeek r = ([], some Err.eof, r, false)) ∧
    (¬ faultIn r 193 → r.data.length - r.pos ≠ 0 →
      absPeek r = (padTo ((r.data.drop r.pos).take 193) 193, none, r, false)) := by
  unfold absPeek
  simp only [hk]
  cases hfa : r.faultActive with
  | none =>
    refine ⟨fun ⟨f, h, _⟩ => (by rw [hfa] at h; cases h), fun _ h0 => ?_, fun _ h0 => ?_⟩
    · simp only [h0, if_true]
    · simp only [h0, if_false]
  | some f =>
    by_cases c : r.pos ≤ f ∧ f < r.pos + 193 ∧ f ≤ r.data.length
    · have hin : faultIn r 193 := ⟨f, hfa, c⟩
      refine ⟨fun _ => ?_, fun h => absurd hin h, fun h => absurd hin h⟩
      simp only [c, and_self, if_true]
    · have hnin : ¬ faultIn r 193 := by
        intro ⟨f', h, c'⟩
        rw [hfa] at h; cases h; exact c c'
      refine ⟨fun h => absurd h hnin, fun _ h0 => ?_, fun _ h0 => ?_⟩
      · simp only [c, if_false, h0, if_true]
      · simp only [c, if_false, h0]

/-- the model's peek of any other reader: a full read of 193 bytes -/
theorem absPeek_other (r : Reader) (hk : r.kind ≠ .bufio) :
    absPeek r =
      (match (r.readFull 193).2.1 with
       | some .injected => ([], some Err.io, (r.readFull 193).2.2, true)
       | some .eof => ([], some Err.eof, (r.readFull 193).2.2, true)
       | _ => (padTo (r.readFull 193).1 193, none, (r.readFull 193).2.2, true)) := by
  unfold absPeek
  cases hkk : r.kind with
  | bufio => exact absurd hkk hk
  | seek => rfl
  | plain => rfl
  | bufioSmall => rfl

theorem readFull_kind (r : Reader) (n : Nat) :
    (r.readFull n).2.2.kind = r.kind ∧ (r.readFull n).2.2.data = r.data := by
  unfold Reader.readFull
  dsimp only
  split
  · split
    · exact ⟨rfl, rfl⟩
    · split
      · exact ⟨rfl, rfl⟩
      · split <;> exact ⟨rfl, rfl⟩
  · split
    · exact ⟨rfl, rfl⟩
    · split <;> exact ⟨rfl, rfl⟩

/-- the peek over the concrete reader is the model's peek on the abstract reader -/
theorem lPeek_refines (l : LReader) (hi : LReader.Inv l) :
    (lPeek l).1 = (absPeek l.abs).1 ∧ (lPeek l).2.1 = (absPeek l.abs).2.1 ∧
    (lPeek l).2.2.1.abs = (absPeek l.abs).2.2.1 ∧ (lPeek l).2.2.2 = (absPeek l.abs).2.2.2 ∧
    LReader.Inv (lPeek l).2.2.1 ∧
    (l.v.r.kind = .bufio → (lPeek l).2.1 = none →
      (lPeek l).2.2.1.abs = l.abs ∧ ¬ faultIn l.abs 193 ∧ (lPeek l).2.2.2 = false) ∧
    (l.v.r.kind ≠ .bufio → (lPeek l).2.2.2 = true) ∧
    (lPeek l).2.2.1.v.r.kind = l.v.r.kind := by
  have hkabs : ∀ x : LReader, x.abs.kind = l.abs.kind → x.v.r.kind = l.v.r.kind := fun x h => h
  obtain ⟨binv, hplain, hbig, hsmall⟩ := hi
  have hi : LReader.Inv l := ⟨binv, hplain, hbig, hsmall⟩
  unfold lPeek
  by_cases hb : isBufio l.v.r.kind = true ∧ 193 ≤ l.size
  · rw [if_pos hb]
    have hk : l.v.r.kind = .bufio := by
      cases hkk : l.v.r.kind with
      | bufio => rfl
      | bufioSmall => have := hsmall hkk; omega
      | seek => rw [hkk] at hb; exact absurd hb.1 (by simp [isBufio])
      | plain => rw [hkk] at hb; exact absurd hb.1 (by simp [isBufio])
    obtain ⟨a1, a2, a3⟩ := absPeek_bufio l.abs hk
    obtain ⟨p0, p1, p2, p3⟩ := peek_spec l 193 binv hb.2
    have psz := peek_size l 193
    -- the invariant after the peek, given that the abstract reader keeps its kind
    have hinv' : ((BReader.peek l 193).2.2.abs.kind = l.v.r.kind) → LReader.Inv (BReader.peek l 193).2.2 := by
      intro hkk
      have hkk' : (BReader.peek l 193).2.2.v.r.kind = .bufio := by rw [← hk]; exact hkk
      refine ⟨p0, fun h => ?_, fun _ => ?_, fun h => ?_⟩
      · rw [hkk'] at h; simp [isBufio] at h
      · rw [psz]; exact hb.2
      · rw [hkk'] at h; cases h
    by_cases hf : faultIn l.abs 193
    · obtain ⟨e1, e2⟩ := p1 hf
      rw [a1 hf, e1]
      simp only
      refine ⟨(by triv), (by triv), e2, (by triv), hinv' (by rw [e2]; rfl), fun _ h => (by cases h), fun h => absurd hk h, hkabs _ (by rw [e2])⟩
    · by_cases hav : 193 ≤ l.abs.data.length - l.abs.pos
      · obtain ⟨e1, e2, e3⟩ := p2 hf hav
        rw [a3 hf (by omega), e2, e1]
        simp only
        exact ⟨(by triv), (by triv), e3, (by triv), hinv' (by rw [e3]; rfl), fun _ _ => ⟨e3, hf, (by triv)⟩, fun h => absurd hk h, hkabs _ (by rw [e3])⟩
      · obtain ⟨e1, e2, e3⟩ := p3 hf (by omega)
        rw [e2, e1]
        simp only
        have hposle : l.abs.pos ≤ l.abs.data.length := by
          show l.v.r.pos - l.buf.length ≤ l.v.r.data.length
          have := binv.hpos; omega
        by_cases h0 : l.abs.data.length - l.abs.pos = 0
        · have hnil : l.abs.data.drop l.abs.pos = [] := by rw [List.drop_eq_nil_iff]; omega
          rw [if_pos hnil, a2 hf h0]
          exact ⟨(by triv), (by triv), e3, (by triv), hinv' (by rw [e3]; rfl), fun _ h => (by cases h), fun h => absurd hk h, hkabs _ (by rw [e3])⟩
        · have hnn : ¬ l.abs.data.drop l.abs.pos = [] := by rw [List.drop_eq_nil_iff]; omega
          rw [if_neg hnn, a3 hf h0]
          have htk : (l.abs.data.drop l.abs.pos).take 193 = l.abs.data.drop l.abs.pos := by
            rw [List.take_of_length_le]; rw [List.length_drop]; omega
          rw [htk]
          exact ⟨(by triv), (by triv), e3, (by triv), hinv' (by rw [e3]; rfl), fun _ _ => ⟨e3, hf, (by triv)⟩, fun h => absurd hk h, hkabs _ (by rw [e3])⟩
  · rw [if_neg hb]
    have hk : l.abs.kind ≠ .bufio := by
      intro hkk
      have hkk' : l.v.r.kind = .bufio := hkk
      exact hb ⟨by rw [hkk']; rfl, hbig hkk'⟩
    rw [absPeek_other l.abs hk]
    obtain ⟨r1, r2, r3, r4⟩ := lReadFull_refines l 193 hi
    rw [r1, r2]
    have hk' : l.v.r.kind ≠ .bufio := hk
    cases he : (l.abs.readFull 193).2.1 with
    | none => exact ⟨(by triv), (by triv), r3, (by triv), r4, fun h => absurd h hk', fun _ => (by triv), hkabs _ (by rw [r3]; exact (readFull_kind _ _).1)⟩
    | some e =>
      cases e with
      | eof => exact ⟨(by triv), (by triv), r3, (by triv), r4, fun h => absurd h hk', fun _ => (by triv), hkabs _ (by rw [r3]; exact (readFull_kind _ _).1)⟩
      | injected => exact ⟨(by triv), (by triv), r3, (by triv), r4, fun h => absurd h hk', fun _ => (by triv), hkabs _ (by rw [r3]; exact (readFull_kind _ _).1)⟩
      | unexpectedEOF => exact ⟨(by triv), (by triv), r3, (by triv), r4, fun h => absurd h hk', fun _ => (by triv), hkabs _ (by rw [r3]; exact (readFull_kind _ _).1)⟩

theorem seek0_spec (l : LReader) (hi : LReader.Inv l) (hk : l.v.r.kind = .seek) :
    (LReader.seek0 l).abs = { l.abs with pos := 0 } ∧ LReader.Inv (LReader.seek0 l) := by
  obtain ⟨⟨hle, hpos, hbuf, hfault, hsize⟩, hplain, hbig, hsmall⟩ := hi
  have hb : l.buf = [] := hplain (by rw [hk]; rfl)
  constructor
  · unfold LReader.seek0 BReader.abs
    simp only [Nat.zero_sub]
  · unfold LReader.seek0
    refine ⟨⟨?_, ?_, ?_, ?_, hsize⟩, fun _ => hb, fun h => ?_, fun h => ?_⟩
    · simp only [hb, List.length_nil]; exact Nat.le_refl _
    · simp only; exact Nat.zero_le _
    · simp only [hb, List.length_nil, List.take_zero]
    · intro f _; right; simp only; exact Nat.zero_le _
    · simp only at h; rw [hk] at h; cases h
    · simp only at h; rw [hk] at h; cases h

/-- **auto-detection over the concrete reader = the model's auto-detection on the abstract reader**: same size or
error, same abstract reader afterwards — for every reader kind and every read schedule -/
theorem lAutoDetect_refines (l : LReader) (hi : LReader.Inv l) :
    (lAutoDetect l).1 = (autoDetectPacketSize l.abs).1 ∧
    (lAutoDetect l).2.abs = (autoDetectPacketSize l.abs).2 ∧
    LReader.Inv (lAutoDetect l).2 := by
  rw [autoDetect_cut]
  unfold lAutoDetect
  have hp := lPeek_refines l hi
  rcases hc : lPeek l with ⟨b, perr, l1, sr⟩
  rcases ha : absPeek l.abs with ⟨b', perr', r1, sr'⟩
  rw [hc, ha] at hp
  simp only at hp
  obtain ⟨rfl, rfl, h3, rfl, hinv1, hbuf, hoth, hkind⟩ := hp
  unfold lAfter absAfter
  cases perr with
  | some e => exact ⟨by triv, h3, hinv1⟩
  | none =>
    simp only
    have hkabs : l.abs.kind = l.v.r.kind := rfl
    by_cases hk : l.v.r.kind = .bufio
    · obtain ⟨e1, hnf, rfl⟩ := hbuf hk rfl
      have hcons : (isBufio l.v.r.kind = true ∧ false = false) := ⟨by rw [hk]; rfl, rfl⟩
      rw [if_pos hcons, hkabs, if_pos hk]
      have hnf1 : ¬ faultIn l1.abs 193 := by rw [e1]; exact hnf
      obtain ⟨d1, d2⟩ := discard_spec l1 193 hinv1.binv (by omega) hnf1
      have hinvd : LReader.Inv (BReader.discard l1 193) := by
        have hkd : (BReader.discard l1 193).v.r.kind = .bufio := by
          have : (BReader.discard l1 193).abs.kind = l1.abs.kind := by rw [d2]
          rw [← hk, ← hkind]; exact this
        refine ⟨d1, fun h => ?_, fun _ => ?_, fun h => ?_⟩
        · rw [hkd] at h; simp [isBufio] at h
        · rw [discard_size]; exact hinv1.hbig (by rw [hkind]; exact hk)
        · rw [hkd] at h; cases h
      rw [h3] at d2
      split
      · exact ⟨by triv, d2, hinvd⟩
      · split
        · exact ⟨by triv, d2, hinvd⟩
        · simp only [Bool.not_false, if_true]
          exact ⟨by triv, h3, hinv1⟩
    · have hsr := hoth hk
      subst hsr
      have hcons : ¬ (isBufio l.v.r.kind = true ∧ true = false) := by simp
      rw [if_neg hcons, hkabs, if_neg hk]
      split
      · exact ⟨by triv, h3, hinv1⟩
      · split
        · exact ⟨by triv, h3, hinv1⟩
        · simp only [Bool.not_true, Bool.false_eq_true, if_false]
          by_cases hs : l.v.r.kind = .seek
          · rw [if_pos hs]
            obtain ⟨s1, s2⟩ := seek0_spec l1 hinv1 (by rw [hkind]; exact hs)
            simp only [hs]
            rw [h3] at s1
            exact ⟨by triv, s1, s2⟩
          · rw [if_neg hs]
            rename_i size _
            obtain ⟨q1, q2, q3, q4⟩ := lReadFull_refines l1 (size - (193 - size)) hinv1
            rw [h3] at q1 q2 q3
            rw [q2]
            rcases hrf : r1.readFull (size - (193 - size)) with ⟨bs2, e2, r2⟩
            rw [hrf] at q3
            simp only at q3
            cases hkk : l.v.r.kind with
            | seek => exact absurd hkk hs
            | bufio => exact absurd hkk hk
            | plain =>
              simp only
              cases e2 with
              | none => exact ⟨by triv, q3, q4⟩
              | some e => cases e <;> exact ⟨by triv, q3, q4⟩
            | bufioSmall =>
              simp only
              cases e2 with
              | none => exact ⟨by triv, q3, q4⟩
              | some e => cases e <;> exact ⟨by triv, q3, q4⟩

end Astits.Chunking
