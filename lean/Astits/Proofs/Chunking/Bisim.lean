/-
C08 helper (K1, layer 5): chunking independence as a bisimulation, and for whole call sequences.
-/
import Astits.Proofs.Chunking.LDemux
namespace Astits.Chunking

/-- two concrete demuxer states that stand for the same model state: the same data, (logical) position, fault state,
reader kind and demuxer fields.  Nothing is said about the read schedules (`cap`, `call`) — nor, for the bufio kinds,
about buffer sizes and fill levels, which depend on the schedule. -/
def ChunkRel (a b : LDemux) : Prop := a.abs = b.abs ∧ LReader.Inv a.lr ∧ LReader.Inv b.lr

/-- `ChunkRel` is a bisimulation for `NextPacket` … -/
theorem chunkRel_nextPacket (a b : LDemux) (h : ChunkRel a b) :
    a.nextPacket.1 = b.nextPacket.1 ∧ ChunkRel a.nextPacket.2 b.nextPacket.2 := by
  obtain ⟨hab, ha, hb⟩ := h
  obtain ⟨a1, a2, a3⟩ := nextPacket_refines a ha
  obtain ⟨b1, b2, b3⟩ := nextPacket_refines b hb
  exact ⟨by rw [a1, b1, hab], by rw [a2, b2, hab], a3, b3⟩

/-- … and for `NextData` -/
theorem chunkRel_nextData (a b : LDemux) (h : ChunkRel a b) :
    a.nextData.1 = b.nextData.1 ∧ ChunkRel a.nextData.2 b.nextData.2 := by
  obtain ⟨hab, ha, hb⟩ := h
  obtain ⟨a1, a2, a3⟩ := nextData_refines a ha
  obtain ⟨b1, b2, b3⟩ := nextData_refines b hb
  exact ⟨by rw [a1, b1, hab], by rw [a2, b2, hab], a3, b3⟩

/-- `Demuxer.Rewind` over the concrete reader: `Seek(0, 0)` when the reader is an `io.Seeker` (the seekable harness
reader; a `bufio.Reader` is not), and the packet buffer, pool and data buffer are dropped -/
def LDemux.rewind (ld : LDemux) : Int × LDemux :=
  match ld.lr.v.r.kind with
  | .seek => (0, { lr := LReader.seek0 ld.lr, d := { ld.d with dataBuffer := [], packetSize := none, pool := [] } })
  | _ => (-1, { ld with d := { ld.d with dataBuffer := [], packetSize := none, pool := [] } })

theorem rewind_refines (ld : LDemux) (hi : LReader.Inv ld.lr) :
    ld.rewind.1 = ld.abs.rewind.1 ∧ ld.rewind.2.abs = ld.abs.rewind.2 ∧ LReader.Inv ld.rewind.2.lr := by
  unfold LDemux.rewind Demux.rewind
  have hk : ld.abs.r.kind = ld.lr.v.r.kind := rfl
  simp only [hk]
  cases hkk : ld.lr.v.r.kind with
  | seek =>
    obtain ⟨s1, s2⟩ := seek0_spec ld.lr hi hkk
    refine ⟨rfl, ?_, s2⟩
    have hk2 : (BReader.abs ld.lr).kind = .seek := hkk
    simp only [LDemux.abs, s1, hk2]
  | bufio => exact ⟨rfl, rfl, hi⟩
  | plain => exact ⟨rfl, rfl, hi⟩
  | bufioSmall => exact ⟨rfl, rfl, hi⟩

/-- … and for `Rewind` (same returned offset) -/
theorem chunkRel_rewind (a b : LDemux) (h : ChunkRel a b) :
    a.rewind.1 = b.rewind.1 ∧ ChunkRel a.rewind.2 b.rewind.2 := by
  obtain ⟨hab, ha, hb⟩ := h
  obtain ⟨a1, a2, a3⟩ := rewind_refines a ha
  obtain ⟨b1, b2, b3⟩ := rewind_refines b hb
  exact ⟨by rw [a1, b1, hab], by rw [a2, b2, hab], a3, b3⟩

/-! ### call sequences -/

inductive Call where
  | packet | data
  deriving Repr, DecidableEq

/-- what the caller observes of one call -/
inductive Obs where
  | packet (r : Res Packet)
  | data (r : Res DemuxerData)

/-- a call sequence over the concrete reader -/
def LDemux.run : List Call → LDemux → List Obs
  | [], _ => []
  | .packet :: cs, ld => .packet ld.nextPacket.1 :: LDemux.run cs ld.nextPacket.2
  | .data :: cs, ld => .data ld.nextData.1 :: LDemux.run cs ld.nextData.2

/-- the same call sequence on the model -/
def runModel : List Call → Demux → List Obs
  | [], _ => []
  | .packet :: cs, d => .packet d.nextPacket.1 :: runModel cs d.nextPacket.2
  | .data :: cs, d => .data d.nextData.1 :: runModel cs d.nextData.2

theorem run_refines : ∀ (cs : List Call) (ld : LDemux), LReader.Inv ld.lr → ld.run cs = runModel cs ld.abs := by
  intro cs
  induction cs with
  | nil => intro ld _; rfl
  | cons c cs ih =>
    intro ld hi
    cases c with
    | packet =>
      obtain ⟨a1, a2, a3⟩ := nextPacket_refines ld hi
      simp only [LDemux.run, runModel]
      rw [a1, ih _ a3, a2]
    | data =>
      obtain ⟨a1, a2, a3⟩ := nextData_refines ld hi
      simp only [LDemux.run, runModel]
      rw [a1, ih _ a3, a2]

theorem run_chunkRel (cs : List Call) (a b : LDemux) (h : ChunkRel a b) : a.run cs = b.run cs := by
  rw [run_refines cs a h.2.1, run_refines cs b h.2.2, h.1]

/-! ### fresh readers -/

/-- the reader the harness hands to `NewDemuxer`: the harness reader over `r` with read schedule `cap`, wrapped — for
the bufio kinds — in a `bufio.Reader` of buffer size `size` -/
def freshReader (r : Reader) (cap : Nat → Option Nat) (size : Nat) : LReader :=
  { v := { r := r, cap := cap, call := 0 }, buf := [], size := size }

/-- the buffer size goes with the reader kind (`bufio`: at least the 193 bytes auto-detection peeks; `bufioSmall`:
fewer; any positive size otherwise — it is not used) -/
def SizeFits (k : ReaderKind) (size : Nat) : Prop :=
  0 < size ∧ (k = .bufio → 193 ≤ size) ∧ (k = .bufioSmall → size < 193)

theorem freshReader_spec (r : Reader) (cap : Nat → Option Nat) (size : Nat) (hpos : r.pos ≤ r.data.length)
    (hs : SizeFits r.kind size) : LReader.Inv (freshReader r cap size) ∧ (freshReader r cap size).abs = r := by
  refine ⟨⟨⟨Nat.zero_le _, hpos, rfl, fun f _ => ?_, hs.1⟩, fun _ => rfl, hs.2.1, hs.2.2⟩, rfl⟩
  show f < r.pos - 0 ∨ r.pos ≤ f
  omega

/-- the demuxer created over a fresh reader -/
def freshDemux (d : Demux) (cap : Nat → Option Nat) (size : Nat) : LDemux :=
  { lr := freshReader d.r cap size, d := d }

theorem freshDemux_abs (d : Demux) (cap : Nat → Option Nat) (size : Nat) : (freshDemux d cap size).abs = d := rfl

/-- **K1, chunking independence.**  For any model demuxer state `d` (any reader kind, explicit or auto-detected
packet size, with or without an injected fault, any skipper / parser), any two read schedules `cap₁`, `cap₂` of the
underlying reader (every `Read` hands out at least one byte) and any admissible bufio buffer sizes, every sequence of
`NextPacket` / `NextData` calls observes the same results — namely those of the model, whose `readFull` has no
schedule at all. -/
theorem chunking_independence (d : Demux) (hpos : d.r.pos ≤ d.r.data.length)
    (cap₁ cap₂ : Nat → Option Nat) (size₁ size₂ : Nat) (h₁ : SizeFits d.r.kind size₁) (h₂ : SizeFits d.r.kind size₂)
    (cs : List Call) :
    (freshDemux d cap₁ size₁).run cs = (freshDemux d cap₂ size₂).run cs ∧
    (freshDemux d cap₁ size₁).run cs = runModel cs d := by
  have i1 := (freshReader_spec d.r cap₁ size₁ hpos h₁).1
  have i2 := (freshReader_spec d.r cap₂ size₂ hpos h₂).1
  exact ⟨run_chunkRel cs _ _ ⟨rfl, i1, i2⟩, run_refines cs _ i1⟩

/-- byte-wise reads -/
def capOne : Nat → Option Nat := fun _ => some 0
/-- every `Read` fills the whole slice it is given -/
def capAll : Nat → Option Nat := fun _ => none

/-- in particular: byte-wise reads deliver what whole-slice reads deliver -/
theorem bytewise_eq_whole (d : Demux) (hpos : d.r.pos ≤ d.r.data.length) (size : Nat) (h : SizeFits d.r.kind size)
    (cs : List Call) : (freshDemux d capOne size).run cs = (freshDemux d capAll size).run cs :=
  (chunking_independence d hpos capOne capAll size size h h cs).1

end Astits.Chunking
