/-
C08 helper (K2, stream level): a stream carried in `188+k`-byte frames (the `k` extra bytes directly after the sync
byte: `Spec.tsExpand`, the layout of the test driver's `expandStream`) read with packet size `188+k` yields, call by
call, what its 188-byte form yields with packet size 188.
-/
import Astits.Proofs.Chunking.Frame
import Astits.Proofs.Chunking.LDemux
import Astits.Proofs.NoPanic.Demux
namespace Astits.Chunking

/-! ### streams of equal-sized pieces -/

theorem flatten_length_uniform (L : List Bytes) (m : Nat) (h : ∀ x ∈ L, x.length = m) :
    L.flatten.length = L.length * m := by
  induction L with
  | nil => simp
  | cons a L ih =>
    have ha : a.length = m := h a (by simp)
    have := ih (fun x hx => h x (by simp [hx]))
    simp only [List.flatten_cons, List.length_append, List.length_cons, this, ha, Nat.succ_mul]
    omega

theorem flatten_piece (L : List Bytes) (m : Nat) (h : ∀ x ∈ L, x.length = m) :
    ∀ (j : Nat), j < L.length → (L.flatten.drop (j * m)).take m = L.getD j [] := by
  induction L with
  | nil => intro j hj; simp at hj
  | cons a L ih =>
    intro j hj
    have ha : a.length = m := h a (by simp)
    cases j with
    | zero =>
      simp only [Nat.zero_mul, List.drop_zero, List.flatten_cons, List.getD_cons_zero]
      rw [List.take_append_of_le_length (by omega), List.take_of_length_le (by omega)]
    | succ j =>
      have hj' : j < L.length := by simpa using hj
      have := ih (fun x hx => h x (by simp [hx])) j hj'
      simp only [List.flatten_cons, List.getD_cons_succ]
      rw [← this]
      have e : (j + 1) * m = a.length + j * m := by rw [Nat.succ_mul, ha]; omega
      rw [e, List.drop_append, List.drop_eq_nil_of_le (Nat.le_add_right _ _), List.nil_append,
        Nat.add_sub_cancel_left]

/-- a stream of frames: `(extra, pkt)` pairs -/
abbrev Frames := List (Bytes × Bytes)

/-- the 188-byte form -/
def plainOf (fs : Frames) : Bytes := (fs.map (·.2)).flatten
/-- the `188+k`-byte form: every packet expanded by its extra bytes -/
def framedOf (fs : Frames) : Bytes := (fs.map fun f => Spec.tsExpand f.1 f.2).flatten

/-- every packet has 188 bytes, every frame `k` extra bytes -/
def WellFramed (k : Nat) (fs : Frames) : Prop := ∀ f ∈ fs, f.1.length = k ∧ f.2.length = 188

theorem tsExpand_length (extra pkt : Bytes) (h : pkt.length = 188) :
    (Spec.tsExpand extra pkt).length = 188 + extra.length := by
  unfold Spec.tsExpand
  simp only [List.length_append, List.length_take, List.length_drop, h]
  omega

theorem plainOf_length (k : Nat) (fs : Frames) (h : WellFramed k fs) : (plainOf fs).length = fs.length * 188 := by
  unfold plainOf
  rw [flatten_length_uniform _ 188, List.length_map]
  intro x hx
  rw [List.mem_map] at hx
  obtain ⟨f, hf, rfl⟩ := hx
  exact (h f hf).2

theorem framedOf_length (k : Nat) (fs : Frames) (h : WellFramed k fs) :
    (framedOf fs).length = fs.length * (188 + k) := by
  unfold framedOf
  rw [flatten_length_uniform _ (188 + k), List.length_map]
  intro x hx
  rw [List.mem_map] at hx
  obtain ⟨f, hf, rfl⟩ := hx
  rw [tsExpand_length _ _ (h f hf).2, (h f hf).1]

theorem plainOf_piece (k : Nat) (fs : Frames) (h : WellFramed k fs) (j : Nat) (hj : j < fs.length) :
    ((plainOf fs).drop (j * 188)).take 188 = (fs.getD j ([], [])).2 := by
  unfold plainOf
  rw [flatten_piece _ 188 _ j (by simpa using hj)]
  · simp only [List.getD_eq_getElem?_getD, List.getElem?_map]
    cases fs[j]? <;> rfl
  · intro x hx
    rw [List.mem_map] at hx
    obtain ⟨f, hf, rfl⟩ := hx
    exact (h f hf).2

theorem framedOf_piece (k : Nat) (fs : Frames) (h : WellFramed k fs) (j : Nat) (hj : j < fs.length) :
    ((framedOf fs).drop (j * (188 + k))).take (188 + k) =
      Spec.tsExpand (fs.getD j ([], [])).1 (fs.getD j ([], [])).2 := by
  unfold framedOf
  rw [flatten_piece _ (188 + k) _ j (by simpa using hj)]
  · simp only [List.getD_eq_getElem?_getD, List.getElem?_map]
    have : fs[j]? = some fs[j] := List.getElem?_eq_getElem hj
    rw [this]; rfl
  · intro x hx
    rw [List.mem_map] at hx
    obtain ⟨f, hf, rfl⟩ := hx
    rw [tsExpand_length _ _ (h f hf).2, (h f hf).1]

theorem getD_mem (fs : Frames) (j : Nat) (hj : j < fs.length) : fs.getD j ([], []) ∈ fs := by
  rw [List.getD_eq_getElem?_getD, List.getElem?_eq_getElem hj]
  exact List.getElem_mem hj

/-! ### the demuxer fields the two runs differ in -/

/-- put a reader and the two packet size fields in place -/
def setF (d : Demux) (x : Reader) (o : Nat) (ps : Option Nat) : Demux :=
  { d with r := x, optPacketSize := o, packetSize := ps }

@[simp] theorem setF_r (d : Demux) (x : Reader) (o : Nat) (ps : Option Nat) : (setF d x o ps).r = x := rfl
@[simp] theorem setF_pool (d : Demux) (x : Reader) (o : Nat) (ps : Option Nat) : (setF d x o ps).pool = d.pool := rfl
@[simp] theorem setF_parser (d : Demux) (x : Reader) (o : Nat) (ps : Option Nat) : (setF d x o ps).parser = d.parser := rfl
@[simp] theorem setF_programMap (d : Demux) (x : Reader) (o : Nat) (ps : Option Nat) :
    (setF d x o ps).programMap = d.programMap := rfl
@[simp] theorem setF_packetSize (d : Demux) (x : Reader) (o : Nat) (ps : Option Nat) : (setF d x o ps).packetSize = ps := rfl
@[simp] theorem setF_optPacketSize (d : Demux) (x : Reader) (o : Nat) (ps : Option Nat) :
    (setF d x o ps).optPacketSize = o := rfl
@[simp] theorem setF_dataBuffer (d : Demux) (x : Reader) (o : Nat) (ps : Option Nat) :
    (setF d x o ps).dataBuffer = d.dataBuffer := rfl

theorem setF_upd_pool (d : Demux) (x : Reader) (o : Nat) (ps : Option Nat) (p : Pool) :
    ({ setF d x o ps with pool := p } : Demux) = setF { d with pool := p } x o ps := rfl
theorem setF_upd_r (d : Demux) (x y : Reader) (o : Nat) (ps : Option Nat) :
    ({ setF d x o ps with r := y } : Demux) = setF d y o ps := rfl
theorem setF_upd_packetSize (d : Demux) (x : Reader) (o : Nat) (ps ps' : Option Nat) :
    ({ setF d x o ps with packetSize := ps' } : Demux) = setF d x o ps' := rfl
theorem setF_upd_dataBuffer (d : Demux) (x : Reader) (o : Nat) (ps : Option Nat) (s : List DemuxerData) :
    ({ setF d x o ps with dataBuffer := s } : Demux) = setF { d with dataBuffer := s } x o ps := rfl

theorem consultSkipper_setF (d : Demux) (x : Reader) (o : Nat) (ps : Option Nat) (p : Packet) :
    (setF d x o ps).consultSkipper p = ((d.consultSkipper p).1, setF (d.consultSkipper p).2 x o ps) := by
  obtain ⟨r, o', sk, pa, ps', pool, pm, db, sl, pl, si⟩ := d
  cases sk <;> rfl

theorem logParser_setF (d : Demux) (x : Reader) (o : Nat) (ps : Option Nat) (pk : List Packet) :
    (setF d x o ps).logParser pk = setF (d.logParser pk) x o ps := by
  obtain ⟨r, o', sk, pa, ps', pool, pm, db, sl, pl, si⟩ := d
  unfold Demux.logParser setF
  simp only
  split <;> rfl

theorem updateData_setF (d : Demux) (x : Reader) (o : Nat) (ps : Option Nat) (ds : List DemuxerData) :
    (setF d x o ps).updateData ds = ((d.updateData ds).1, setF (d.updateData ds).2 x o ps) := by
  unfold Demux.updateData
  cases ds <;> rfl

theorem drain_setF (x : Reader) (o : Nat) (ps : Option Nat) : ∀ (fuel : Nat) (d : Demux),
    (setF d x o ps).drain fuel = ((d.drain fuel).1, setF (d.drain fuel).2 x o ps) := by
  intro fuel
  induction fuel with
  | zero => intro d; rfl
  | succ fuel ih =>
    intro d
    unfold Demux.drain
    rcases hpd : poolDump d.pool with ⟨pk, pool'⟩
    simp only [setF_pool, hpd]
    simp only [setF_upd_pool]
    simp only [logParser_setF, setF_parser, setF_programMap]
    split
    · rfl
    · split
      · simp only [updateData_setF]
        split
        · rfl
        · exact ih _
      · exact ih _
      · rfl

theorem flushStep_setF (d : Demux) (x : Reader) (o : Nat) (ps : Option Nat) (pk : List Packet) (pool' : Pool) :
    flushStep (setF d x o ps) pk pool' = ((flushStep d pk pool').1, setF (flushStep d pk pool').2 x o ps) := by
  unfold flushStep
  simp only [setF_upd_pool]
  simp only [logParser_setF, setF_parser, setF_programMap]
  by_cases he : pk.isEmpty = true
  · simp only [he, if_true]
  · simp only [he, if_false, Bool.false_eq_true]
    cases parseData pk (Demux.logParser { d with pool := pool' } pk).parser
        (Demux.logParser { d with pool := pool' } pk).programMap with
    | err e => rfl
    | panic => rfl
    | ok ds =>
      simp only [updateData_setF]
      cases ((Demux.logParser { d with pool := pool' } pk).updateData ds).1 <;> rfl

theorem packetStep_setF (d : Demux) (x : Reader) (o : Nat) (ps : Option Nat) (p : Packet) :
    packetStep (setF d x o ps) p = ((packetStep d p).1, setF (packetStep d p).2 x o ps) :=
  flushStep_setF d x o ps _ _

/-! ### the two readers -/

/-- what may follow the last whole frame / packet: a truncated frame on the one side, a truncated packet on the other
(any bytes; both are dropped by the packet buffer) -/
structure Tails (k : Nat) where
  t1 : Bytes
  t2 : Bytes
  h1 : t1.length < 188 + k
  h2 : t2.length < 188

/-- no trailing bytes -/
def Tails.none (k : Nat) : Tails k := ⟨[], [], by simp only [List.length_nil]; omega, by simp⟩

/-- reader `r1` over the framed stream and reader `r2` over its 188-byte form, both before frame `j` (or, after the
last frame, at the end of their data), no fault -/
structure RR (k : Nat) (fs : Frames) (T : Tails k) (j : Nat) (r1 r2 : Reader) : Prop where
  data1 : r1.data = framedOf fs ++ T.t1
  data2 : r2.data = plainOf fs ++ T.t2
  pos1 : r1.pos = j * (188 + k) ∨ (j = fs.length ∧ r1.pos = r1.data.length)
  pos2 : r2.pos = j * 188 ∨ (j = fs.length ∧ r2.pos = r2.data.length)
  nofault1 : r1.faultActive = none
  nofault2 : r2.faultActive = none
  hj : j ≤ fs.length

theorem readFull_nofault_full (r : Reader) (n : Nat) (hf : r.faultActive = none) (h : n ≤ r.data.length - r.pos) :
    r.readFull n = ((r.data.drop r.pos).take n, none, { r with pos := r.pos + n }) := by
  unfold Reader.readFull
  simp only [hf]
  rw [if_pos h]

theorem readFull_nofault_eof (r : Reader) (n : Nat) (hn : 0 < n) (hf : r.faultActive = none)
    (h : r.data.length ≤ r.pos) : r.readFull n = ([], some .eof, r) :=
  readFull_at_eof r n hn h (by rw [hf]; exact fun e => by cases e)

/-- fewer than `n` bytes left, no fault: `io.EOF` or `io.ErrUnexpectedEOF`, and the reader is at the end -/
theorem readFull_nofault_short (r : Reader) (n : Nat) (hf : r.faultActive = none) (hp : r.pos ≤ r.data.length)
    (h : r.data.length - r.pos < n) :
    ∃ bs e, r.readFull n = (bs, some e, { r with pos := r.data.length }) ∧ e ≠ .injected := by
  unfold Reader.readFull
  simp only [hf]
  have c : ¬ r.data.length - r.pos ≥ n := by omega
  rw [if_neg c]
  by_cases c0 : r.data.length - r.pos = 0
  · rw [if_pos c0]
    refine ⟨[], .eof, ?_, fun e => by cases e⟩
    have : r.pos = r.data.length := by omega
    cases r; simp only at this; subst this; rfl
  · rw [if_neg c0]
    exact ⟨_, .unexpectedEOF, rfl, fun e => by cases e⟩

theorem append_piece (X t : Bytes) (p m : Nat) (h : p + m ≤ X.length) :
    ((X ++ t).drop p).take m = (X.drop p).take m := by
  rw [List.drop_append_of_le_length (by omega), List.take_append_of_le_length (by rw [List.length_drop]; omega)]

theorem readFull_frame {k : Nat} {fs : Frames} (hw : WellFramed k fs) {T : Tails k} {j : Nat} {r1 r2 : Reader}
    (h : RR k fs T j r1 r2) (hj : j < fs.length) :
    r1.readFull (188 + k) =
      (Spec.tsExpand (fs.getD j ([], [])).1 (fs.getD j ([], [])).2, none, { r1 with pos := (j + 1) * (188 + k) }) ∧
    r2.readFull 188 = ((fs.getD j ([], [])).2, none, { r2 with pos := (j + 1) * 188 }) := by
  obtain ⟨d1, d2, p1, p2, f1, f2, _⟩ := h
  have p1 : r1.pos = j * (188 + k) := by
    rcases p1 with h | ⟨h, _⟩
    · exact h
    · omega
  have p2 : r2.pos = j * 188 := by
    rcases p2 with h | ⟨h, _⟩
    · exact h
    · omega
  have l1 := framedOf_length k fs hw
  have l2 := plainOf_length k fs hw
  have hm1 : (j + 1) * (188 + k) ≤ fs.length * (188 + k) := Nat.mul_le_mul_right _ hj
  have hm2 : (j + 1) * 188 ≤ fs.length * 188 := Nat.mul_le_mul_right _ hj
  rw [Nat.succ_mul] at hm1 hm2
  constructor
  · rw [readFull_nofault_full r1 _ f1 (by rw [d1, List.length_append, l1, p1]; omega)]
    rw [d1, p1, append_piece _ _ _ _ (by rw [l1]; omega), framedOf_piece k fs hw j hj]
    have : j * (188 + k) + (188 + k) = (j + 1) * (188 + k) := by rw [Nat.succ_mul]
    rw [this]
  · rw [readFull_nofault_full r2 _ f2 (by rw [d2, List.length_append, l2, p2]; omega)]
    rw [d2, p2, append_piece _ _ _ _ (by rw [l2]; omega), plainOf_piece k fs hw j hj]
    have : j * 188 + 188 = (j + 1) * 188 := by rw [Nat.succ_mul]
    rw [this]

/-- after the last whole frame both reads end the stream, and both readers are at their ends -/
theorem readFull_frames_end {k : Nat} {fs : Frames} (hw : WellFramed k fs) {T : Tails k} {r1 r2 : Reader}
    (h : RR k fs T fs.length r1 r2) :
    (∃ bs e, r1.readFull (188 + k) = (bs, some e, { r1 with pos := r1.data.length }) ∧ e ≠ .injected) ∧
    (∃ bs e, r2.readFull 188 = (bs, some e, { r2 with pos := r2.data.length }) ∧ e ≠ .injected) ∧
    RR k fs T fs.length { r1 with pos := r1.data.length } { r2 with pos := r2.data.length } := by
  obtain ⟨d1, d2, p1, p2, f1, f2, hj⟩ := h
  have l1 := framedOf_length k fs hw
  have l2 := plainOf_length k fs hw
  have hl1 : r1.data.length = fs.length * (188 + k) + T.t1.length := by rw [d1, List.length_append, l1]
  have hl2 : r2.data.length = fs.length * 188 + T.t2.length := by rw [d2, List.length_append, l2]
  have := T.h1
  have := T.h2
  refine ⟨readFull_nofault_short r1 _ f1 ?_ ?_, readFull_nofault_short r2 _ f2 ?_ ?_,
    ⟨d1, d2, Or.inr ⟨rfl, rfl⟩, Or.inr ⟨rfl, rfl⟩, f1, f2, hj⟩⟩
  · rcases p1 with h | ⟨_, h⟩ <;> omega
  · rcases p1 with h | ⟨_, h⟩ <;> omega
  · rcases p2 with h | ⟨_, h⟩ <;> omega
  · rcases p2 with h | ⟨_, h⟩ <;> omega

theorem RR.step {k : Nat} {fs : Frames} {T : Tails k} {j : Nat} {r1 r2 : Reader} (h : RR k fs T j r1 r2)
    (hj : j < fs.length) :
    RR k fs T (j + 1) { r1 with pos := (j + 1) * (188 + k) } { r2 with pos := (j + 1) * 188 } :=
  ⟨h.data1, h.data2, Or.inl rfl, Or.inl rfl, h.nofault1, h.nofault2, hj⟩

/-! ### `packetBuffer.next()` on the two streams -/

theorem bufferNext_frames {k : Nat} {fs : Frames} (hw : WellFramed k fs) (T : Tails k) (o : Nat) (ps : Option Nat) :
    ∀ (f1 f2 j : Nat) (d : Demux) (r1 : Reader), RR k fs T j r1 d.r → fs.length - j < f1 → fs.length - j < f2 →
      ((setF d r1 o ps).bufferNext (188 + k) f1).1 = (d.bufferNext 188 f2).1 ∧
      ∃ j' r1', ((setF d r1 o ps).bufferNext (188 + k) f1).2 = setF (d.bufferNext 188 f2).2 r1' o ps ∧
        RR k fs T j' r1' (d.bufferNext 188 f2).2.r ∧ j ≤ j' ∧
        (d.bufferNext 188 f2).2.optPacketSize = d.optPacketSize ∧
        (d.bufferNext 188 f2).2.packetSize = d.packetSize ∧
        (∀ p, (d.bufferNext 188 f2).1 = .ok p → j < j') := by
  intro f1
  induction f1 with
  | zero => intro f2 j d r1 _ h; omega
  | succ f1 ih =>
    intro f2 j d r1 hr h1 h2
    cases f2 with
    | zero => omega
    | succ f2 =>
      unfold Demux.bufferNext
      simp only [setF_r]
      by_cases hj : j < fs.length
      · obtain ⟨e1, e2⟩ := readFull_frame hw hr hj
        simp only [e1, e2]
        simp only [setF_upd_r]
        have hfl := (hw _ (getD_mem fs j hj)).2
        rw [parsePacket_tsExpand none _ _ hfl]
        cases hpp : (parsePacket none).val (fs.getD j ([], [])).2 with
        | ok p =>
          simp only [consultSkipper_setF]
          have hsk : ({ d with r := { d.r with pos := (j + 1) * 188 } } : Demux) =
              setR d { d.r with pos := (j + 1) * 188 } := rfl
          rw [hsk, consultSkipper_setR]
          simp only
          have hr' := hr.step hj
          by_cases hskip : (d.consultSkipper { p with payload := [] }).1 = true
          · simp only [hskip, if_true]
            have := ih f2 (j + 1) (setR (d.consultSkipper { p with payload := [] }).2 { d.r with pos := (j + 1) * 188 })
              { r1 with pos := (j + 1) * (188 + k) } hr' (by omega) (by omega)
            have hsf : setF (d.consultSkipper { p with payload := [] }).2 { r1 with pos := (j + 1) * (188 + k) } o ps =
                setF (setR (d.consultSkipper { p with payload := [] }).2 { d.r with pos := (j + 1) * 188 })
                  { r1 with pos := (j + 1) * (188 + k) } o ps := rfl
            rw [hsf]
            obtain ⟨t1, j', r1', t2, t3, t4, t5, t6, t7⟩ := this
            refine ⟨t1, j', r1', t2, t3, by omega, ?_, ?_, fun p hp => by have := t7 p hp; omega⟩
            · rw [t5]; exact (Astits.consultSkipper_fields d _).1
            · rw [t6]; exact (Astits.consultSkipper_fields d _).2
          · simp only [hskip, if_false, Bool.false_eq_true]
            refine ⟨(by triv), j + 1, { r1 with pos := (j + 1) * (188 + k) }, (by triv), hr', by omega, ?_, ?_, fun _ _ => by omega⟩
            · exact (Astits.consultSkipper_fields d _).1
            · exact (Astits.consultSkipper_fields d _).2
        | err e =>
          exact ⟨(by triv), j + 1, { r1 with pos := (j + 1) * (188 + k) }, (by triv), hr.step hj, by omega, (by triv), (by triv),
            fun _ h => by cases h⟩
        | panic =>
          exact ⟨(by triv), j + 1, { r1 with pos := (j + 1) * (188 + k) }, (by triv), hr.step hj, by omega, (by triv), (by triv),
            fun _ h => by cases h⟩
      · have hje : j = fs.length := by have := hr.hj; omega
        subst hje
        obtain ⟨⟨bs1, er1, e1, hn1⟩, ⟨bs2, er2, e2, hn2⟩, hr'⟩ := readFull_frames_end hw hr
        simp only [e1, e2]
        simp only [setF_upd_r]
        cases er1 with
        | injected => exact absurd rfl hn1
        | eof =>
          cases er2 with
          | injected => exact absurd rfl hn2
          | eof => exact ⟨(by triv), fs.length, _, rfl, hr', Nat.le_refl _, (by triv), (by triv), fun _ h => by cases h⟩
          | unexpectedEOF => exact ⟨(by triv), fs.length, _, rfl, hr', Nat.le_refl _, (by triv), (by triv), fun _ h => by cases h⟩
        | unexpectedEOF =>
          cases er2 with
          | injected => exact absurd rfl hn2
          | eof => exact ⟨(by triv), fs.length, _, rfl, hr', Nat.le_refl _, (by triv), (by triv), fun _ h => by cases h⟩
          | unexpectedEOF => exact ⟨(by triv), fs.length, _, rfl, hr', Nat.le_refl _, (by triv), (by triv), fun _ h => by cases h⟩

/-! ### `NextPacket` / `NextData` on the two streams -/

theorem absEnsure_some (d : Demux) (s : Nat) (h : d.packetSize = some s) : absEnsure d = (.ok s, d) := by
  unfold absEnsure; rw [h]

theorem absEnsure_opt (d : Demux) (h : d.packetSize = none) (ho : d.optPacketSize ≠ 0) :
    absEnsure d = (.ok d.optPacketSize, { d with packetSize := some d.optPacketSize }) := by
  unfold absEnsure; rw [h]; simp only; rw [if_pos ho]

/-- the framed run's state `d1` against the plain run's state `d2`, both before frame `j`: explicit packet sizes
`188+k` and 188, every other demuxer field equal -/
def FrameRel (k : Nat) (fs : Frames) (T : Tails k) (j : Nat) (d1 d2 : Demux) : Prop :=
  ∃ r1 ps1, d1 = setF d2 r1 (188 + k) ps1 ∧ RR k fs T j r1 d2.r ∧ d2.optPacketSize = 188 ∧
    ((ps1 = none ∧ d2.packetSize = none) ∨ (ps1 = some (188 + k) ∧ d2.packetSize = some 188))

theorem fuel_ok (n j m t : Nat) (hm : 0 < m) : n - j < n * m + t + 2 := by
  have : n ≤ n * m := Nat.le_mul_of_pos_right n hm
  omega

theorem nextPacket_of_some (d : Demux) (s : Nat) (h : d.packetSize = some s) :
    d.nextPacket = d.bufferNext s (d.r.data.length + 2) := by
  rw [nextPacket_cut, absEnsure_some d s h]

theorem nextPacket_of_opt (d : Demux) (h : d.packetSize = none) (ho : d.optPacketSize ≠ 0) :
    d.nextPacket =
      Demux.bufferNext { d with packetSize := some d.optPacketSize } d.optPacketSize (d.r.data.length + 2) := by
  rw [nextPacket_cut, absEnsure_opt d h ho]

theorem nextPacket_frames {k : Nat} {fs : Frames} (hw : WellFramed k fs) {T : Tails k} {j : Nat} {d1 d2 : Demux}
    (h : FrameRel k fs T j d1 d2) :
    d1.nextPacket.1 = d2.nextPacket.1 ∧
    ∃ j', j ≤ j' ∧ FrameRel k fs T j' d1.nextPacket.2 d2.nextPacket.2 ∧ (∀ p, d2.nextPacket.1 = .ok p → j < j') := by
  obtain ⟨r1, ps1, rfl, hr, ho, hps⟩ := h
  have l1 : r1.data.length = fs.length * (188 + k) + T.t1.length := by
    rw [hr.data1, List.length_append, framedOf_length k fs hw]
  have l2 : d2.r.data.length = fs.length * 188 + T.t2.length := by
    rw [hr.data2, List.length_append, plainOf_length k fs hw]
  rcases hps with ⟨rfl, hn⟩ | ⟨rfl, hs⟩
  · rw [nextPacket_of_opt (setF d2 r1 (188 + k) none) rfl (by show 188 + k ≠ 0; omega),
      nextPacket_of_opt d2 hn (by omega)]
    obtain ⟨t1, j', r1', t2, t3, t4, t5, t6, t7⟩ :=
      bufferNext_frames hw T (188 + k) (some (188 + k)) (r1.data.length + 2) (d2.r.data.length + 2) j
        { d2 with packetSize := some d2.optPacketSize } r1 hr (by rw [l1]; exact fuel_ok _ _ _ _ (by omega))
        (by rw [l2]; exact fuel_ok _ _ _ _ (by omega))
    rw [ho] at t1 t2 t3 t5 t6 t7
    rw [ho]
    exact ⟨t1, j', t4, ⟨r1', some (188 + k), t2, t3, t5, Or.inr ⟨rfl, t6⟩⟩, t7⟩
  · rw [nextPacket_of_some _ (188 + k) (setF_packetSize _ _ _ _), nextPacket_of_some d2 188 hs]
    obtain ⟨t1, j', r1', t2, t3, t4, t5, t6, t7⟩ :=
      bufferNext_frames hw T (188 + k) (some (188 + k)) (r1.data.length + 2) (d2.r.data.length + 2) j
        d2 r1 hr (by rw [l1]; exact fuel_ok _ _ _ _ (by omega)) (by rw [l2]; exact fuel_ok _ _ _ _ (by omega))
    exact ⟨t1, j', t4, ⟨r1', some (188 + k), t2, t3, by rw [t5]; exact ho, Or.inr ⟨rfl, by rw [t6]; exact hs⟩⟩, t7⟩

theorem drain_keeps (d : Demux) (fuel : Nat) :
    (d.drain fuel).2.r = d.r ∧ (d.drain fuel).2.optPacketSize = d.optPacketSize ∧
    (d.drain fuel).2.packetSize = d.packetSize := by
  have h := drain_setF d.r d.optPacketSize d.packetSize fuel d
  have e : setF d d.r d.optPacketSize d.packetSize = d := by cases d; rfl
  rw [e] at h
  have h2 := congrArg Prod.snd h
  simp only at h2
  refine ⟨?_, ?_, ?_⟩
  · conv => lhs; rw [h2]
    rfl
  · conv => lhs; rw [h2]
    rfl
  · conv => lhs; rw [h2]
    rfl

theorem packetStep_keeps (d : Demux) (p : Packet) :
    (packetStep d p).2.r = d.r ∧ (packetStep d p).2.optPacketSize = d.optPacketSize ∧
    (packetStep d p).2.packetSize = d.packetSize := by
  have h := packetStep_setF d d.r d.optPacketSize d.packetSize p
  have e : setF d d.r d.optPacketSize d.packetSize = d := by cases d; rfl
  rw [e] at h
  have h2 := congrArg Prod.snd h
  simp only at h2
  refine ⟨?_, ?_, ?_⟩
  · conv => lhs; rw [h2]
    rfl
  · conv => lhs; rw [h2]
    rfl
  · conv => lhs; rw [h2]
    rfl

theorem dataLoop_frames {k : Nat} {fs : Frames} (hw : WellFramed k fs) {T : Tails k} :
    ∀ (f1 f2 j : Nat) (d1 d2 : Demux), FrameRel k fs T j d1 d2 → fs.length - j < f1 → fs.length - j < f2 →
      (d1.dataLoop f1).1 = (d2.dataLoop f2).1 ∧ ∃ j', FrameRel k fs T j' (d1.dataLoop f1).2 (d2.dataLoop f2).2 := by
  intro f1
  induction f1 with
  | zero => intro f2 j d1 d2 _ h; omega
  | succ f1 ih =>
    intro f2 j d1 d2 hrel h1 h2
    cases f2 with
    | zero => omega
    | succ f2 =>
      rw [dataLoop_cut, dataLoop_cut]
      obtain ⟨e1, j', hjj, hrel', hlt⟩ := nextPacket_frames hw hrel
      rw [e1]
      obtain ⟨r1', ps1', hd1, hr', ho', hps'⟩ := hrel'
      rw [hd1]
      cases hnp : d2.nextPacket.1 with
      | err e =>
        cases e
        case eof =>
          simp only
          rw [drain_setF, setF_pool]
          obtain ⟨k1, k2, k3⟩ := drain_keeps d2.nextPacket.2 (d2.nextPacket.2.pool.length + 1)
          exact ⟨rfl, j', r1', ps1', rfl, by rw [k1]; exact hr', by rw [k2]; exact ho', by rw [k3]; exact hps'⟩
        all_goals exact ⟨rfl, j', r1', ps1', rfl, hr', ho', hps'⟩
      | panic => exact ⟨rfl, j', r1', ps1', rfl, hr', ho', hps'⟩
      | ok p =>
        simp only
        rw [packetStep_setF]
        simp only
        obtain ⟨k1, k2, k3⟩ := packetStep_keeps d2.nextPacket.2 p
        have hrel2 : FrameRel k fs T j' (setF (packetStep d2.nextPacket.2 p).2 r1' (188 + k) ps1')
            (packetStep d2.nextPacket.2 p).2 :=
          ⟨r1', ps1', rfl, by rw [k1]; exact hr', by rw [k2]; exact ho', by rw [k3]; exact hps'⟩
        cases hst : (packetStep d2.nextPacket.2 p).1 with
        | some res => exact ⟨rfl, j', hrel2⟩
        | none =>
          simp only
          have := hlt p hnp
          have := hr'.hj
          exact ih f2 j' _ _ hrel2 (by omega) (by omega)

theorem nextData_frames {k : Nat} {fs : Frames} (hw : WellFramed k fs) {T : Tails k} {j : Nat} {d1 d2 : Demux}
    (h : FrameRel k fs T j d1 d2) :
    d1.nextData.1 = d2.nextData.1 ∧ ∃ j', FrameRel k fs T j' d1.nextData.2 d2.nextData.2 := by
  obtain ⟨r1, ps1, rfl, hr, ho, hps⟩ := h
  have l1 : r1.data.length = fs.length * (188 + k) + T.t1.length := by
    rw [hr.data1, List.length_append, framedOf_length k fs hw]
  have l2 : d2.r.data.length = fs.length * 188 + T.t2.length := by
    rw [hr.data2, List.length_append, plainOf_length k fs hw]
  unfold Demux.nextData
  rw [setF_dataBuffer]
  cases hdb : d2.dataBuffer with
  | cons x rest =>
    simp only [setF_upd_dataBuffer]
    exact ⟨by triv, j, r1, ps1, rfl, hr, ho, hps⟩
  | nil =>
    simp only [setF_r]
    exact dataLoop_frames hw _ _ j _ _ ⟨r1, ps1, rfl, hr, ho, hps⟩ (by rw [l1]; exact fuel_ok _ _ _ _ (by omega))
      (by rw [l2]; exact fuel_ok _ _ _ _ (by omega))

end Astits.Chunking
