/-
C01, TABLE half — the PAT / PMT packets a history of muxer calls emits, read by the demuxer side at the pool +
`parseData` level (`MuxDemux.deliveredOn`): on PID 0 one PAT per emission, on PID 0x1000 one PMT per emission listing
the streams and PCR PID of the state in which the emission was made — in order, each once, no error.
-/
import Astits.Proofs.MuxTablesRT
import Astits.Proofs.MuxAutoDemux
import Astits.Proofs.PSIComplete
namespace Astits.MuxTablesDemux
open Astits.MuxCounters Astits.MuxTables Astits.MuxDemux Astits.MuxAuto Astits.PSIRT Astits.PSIComplete

/-! ## one single-section table packet through the accumulator and `parseData` -/

theorem psiToData_nil (pf : Int) (fp : Packet) (pid : Nat) : psiToData { pointerField := pf, sections := [] } fp pid = [] := rfl

theorem tablePacket_plain (pid ccv : Nat) (payload : Bytes) (hcc : ccv < 16) : PlainPayload (tablePacket pid ccv payload) :=
  ⟨rfl, rfl, rfl, hcc⟩

/-- a packet carrying, behind pointer field 0, one section that round-trips, and then 0xff stuffing: on a table PID
the accumulator (empty queue) hands it over at once, alone, and leaves an empty queue; `parseData` returns the
section's data -/
theorem single_packet_table (pm : ProgramMap) (pid : Nat) (htab : (pid == 0 || pm.has pid) = true) (hcat : pid ≠ 1)
    (ccv : Nat) (hcc : ccv < 16) (sec sec' : PSISection) (hrt : SectionRT sec sec') (payload : Bytes)
    (hw : writePSIData { pointerField := 0, sections := [sec] } = .ok payload) (n : Nat) :
    accAdd pm pid [] (tablePacket pid ccv (payload ++ List.replicate n 0xff))
      = ([tablePacket pid ccv (payload ++ List.replicate n 0xff)], []) ∧
    parseData [tablePacket pid ccv (payload ++ List.replicate n 0xff)] .none pm =
      .ok (psiToData { pointerField := 0, sections := [sec'] } (tablePacket pid ccv []) pid) := by
  generalize htp : tablePacket pid ccv (payload ++ List.replicate n 0xff) = tp
  have hrts : SectionsRT [sec] [sec'] := .cons hrt .nil
  have hbytes := writePSIData_bytes 0 (by decide) [sec] [sec'] hrts
  have hw0 : writePSIData { pointerField := ((0 : Nat) : Int), sections := [sec] } = .ok payload := hw
  have hpl : payload = [0] ++ List.replicate 0 0 ++ ([sec].map secBytes).flatten := by
    rw [hw0] at hbytes; cases hbytes; rfl
  have hcp : concatPayload [tp] = payload ++ List.replicate n 0xff := by
    rw [← htp]; simp [concatPayload, tablePacket]
  have hu : UnitOK ⟨tp, []⟩ := by
    rw [← htp]; exact ⟨tablePacket_plain _ _ _ hcc, rfl, trivial⟩
  have W : WrittenUnit (concatPayload (UnitPk.packets ⟨tp, []⟩)) 0 [sec] [sec'] (List.replicate n 0xff) :=
    ⟨by decide, hrts, by simp, by simp, payload, hw0, hcp⟩
  have hon : (UnitPk.first ⟨tp, []⟩).header.pid = pid := by rw [← htp]; rfl
  obtain ⟨hrun, hparse⟩ := written_unit_delivered pm pid htab hcat [] ⟨tp, []⟩ hu (Or.inl rfl) hon [] tp [] rfl 0
    [sec] [sec'] (List.replicate n 0xff) W (by simp [concatPayload]; omega) (by
      show 1 + 0 + ([sec].map secBytes).flatten.length ≤ (concatPayload [tp]).length
      rw [hcp, hpl]; simp; omega) (by intro i hi hia; simp at hia; omega)
  constructor
  · simp only [List.nil_append, accRun, if_true, Prod.mk.injEq, List.cons.injEq, and_true] at hrun
    exact Prod.ext hrun.1 hrun.2
  · have hfirst : firstOf (UnitPk.packets ⟨tp, []⟩) = tablePacket pid ccv [] := by rw [← htp]; rfl
    rw [hfirst] at hparse
    exact hparse

/-- what the demuxer delivers for a PAT -/
def patDatum (ccv : Nat) : DemuxerData :=
  { firstPacket := some (tablePacket 0 ccv []), pid := 0, pat := some patData }

/-- what the demuxer delivers for a PMT listing `streams` with PCR PID `pcr` -/
def pmtDatum (ccv : Nat) (streams : List PMTElementaryStream) (pcr : Nat) : DemuxerData :=
  { firstPacket := some (tablePacket 4096 ccv []), pid := 4096,
    pmt := some { elementaryStreams := streams, pcrPID := pcr, programDescriptors := [], programNumber := 1 } }

/-- the muxer's PAT packet as the demuxer parses it: flushed alone, at once; delivered as one PAT -/
theorem pat_packet (pm : ProgramMap) (ccv v : Nat) (hcc : ccv < 16) (hv : v < 32) (payload : Bytes)
    (hpsi : writePSIData (tablePSI 0 (calcPATSectionLength patData) 0 v { pat := some patData }) = .ok payload) (n : Nat) :
    accAdd pm 0 [] (tablePacket 0 ccv (payload ++ List.replicate n 0xff))
      = ([tablePacket 0 ccv (payload ++ List.replicate n 0xff)], []) ∧
    parseData [tablePacket 0 ccv (payload ++ List.replicate n 0xff)] .none pm = .ok [patDatum ccv] := by
  have hsh : SyntaxHeaderOk { currentNextIndicator := true, tableIDExtension := 0, versionNumber := v } :=
    ⟨by simp, hv, by simp, by simp⟩
  have hd : PATOk patData := ⟨by decide, by decide⟩
  have hsl : ({ sectionLength := calcPATSectionLength patData, sectionSyntaxIndicator := true, tableID := 0 } : PSISectionHeader).sectionLength > 0 := by
    decide
  have hrt := pat_section_rt 0 _ _ patData rfl hsl hsh hd
  obtain ⟨h1, h2⟩ := single_packet_table pm 0 rfl (by decide) ccv hcc _ _ hrt payload hpsi n
  refine ⟨h1, ?_⟩
  rw [h2, psiToData_cons_pat _ _ _ _ _ _ _ _ rfl, psiToData_nil]
  rfl

/-- the muxer's PMT packet as the demuxer parses it once the PAT has announced PID 0x1000 -/
theorem pmt_packet (pm : ProgramMap) (hpm : pm.has 4096 = true) (ccv v : Nat) (hcc : ccv < 16) (hv : v < 32)
    (d : PMTData) (hd : PMTOk d) (hpn : d.programNumber = 1) (payload : Bytes)
    (hpsi : writePSIData (tablePSI 2 (calcPMTSectionLength d) 1 v { pmt := some d }) = .ok payload) (n : Nat) :
    accAdd pm 4096 [] (tablePacket 4096 ccv (payload ++ List.replicate n 0xff))
      = ([tablePacket 4096 ccv (payload ++ List.replicate n 0xff)], []) ∧
    parseData [tablePacket 4096 ccv (payload ++ List.replicate n 0xff)] .none pm =
      .ok [{ firstPacket := some (tablePacket 4096 ccv []), pid := 4096, pmt := some d }] := by
  have hsh : SyntaxHeaderOk { currentNextIndicator := true, tableIDExtension := 1, versionNumber := v } :=
    ⟨by simp, hv, by simp, by simp⟩
  have hsl : ({ sectionLength := calcPMTSectionLength d, sectionSyntaxIndicator := true, tableID := 2 } : PSISectionHeader).sectionLength > 0 :=
    calcPMT_pos _ hd
  have hrt := pmt_section_rt 0 _ _ d rfl hsl hsh hd
  obtain ⟨h1, h2⟩ := single_packet_table pm 4096 (by simp [hpm]) (by decide) ccv hcc _ _ hrt payload hpsi n
  refine ⟨h1, ?_⟩
  rw [h2, psiToData_cons_pmt _ _ _ _ _ _ _ _ rfl, psiToData_nil]
  have : ({ d with programNumber := 1 } : PMTData) = d := by rw [← hpn]
  simp only [this]

/-! ## a table PID on which every packet is a complete unit -/

/-- `l` are packets of `pid` each of which the accumulator hands over alone and at once; `ds` what they parse to -/
def Singles (pm : ProgramMap) (pid : Nat) (l : List Packet) (ds : List (Res (List DemuxerData))) : Prop :=
  (∀ p ∈ l, p.header.pid = pid ∧ p.header.hasPayload = true ∧ p.header.transportErrorIndicator = false) ∧
  (∀ p ∈ l, accAdd pm pid [] p = ([p], [])) ∧ l.map (fun p => parseData [p] .none pm) = ds

theorem Singles.nil (pm : ProgramMap) (pid : Nat) : Singles pm pid [] [] := ⟨by simp, by simp, rfl⟩

theorem Singles.append {pm : ProgramMap} {pid : Nat} {a b : List Packet} {da db : List (Res (List DemuxerData))}
    (ha : Singles pm pid a da) (hb : Singles pm pid b db) : Singles pm pid (a ++ b) (da ++ db) := by
  obtain ⟨a1, a2, a3⟩ := ha
  obtain ⟨b1, b2, b3⟩ := hb
  refine ⟨?_, ?_, by rw [List.map_append, a3, b3]⟩
  · intro p hp; rcases List.mem_append.mp hp with h | h
    · exact a1 p h
    · exact b1 p h
  · intro p hp; rcases List.mem_append.mp hp with h | h
    · exact a2 p h
    · exact b2 p h

theorem Singles.single {pm : ProgramMap} {pid : Nat} {p : Packet} {r : Res (List DemuxerData)}
    (h1 : p.header.pid = pid ∧ p.header.hasPayload = true ∧ p.header.transportErrorIndicator = false)
    (h2 : accAdd pm pid [] p = ([p], [])) (h3 : parseData [p] .none pm = r) : Singles pm pid [p] [r] :=
  ⟨by simpa using h1, by simpa using h2, by simp [h3]⟩

theorem accRun_singles (pm : ProgramMap) (pid : Nat) (l : List Packet) (h : ∀ p ∈ l, accAdd pm pid [] p = ([p], [])) :
    accRun pm pid [] l = (l.map ([·]), []) := by
  induction l with
  | nil => rfl
  | cons p r ih =>
    have h1 := h p (by simp)
    simp only [accRun, h1, ih (fun x hx => h x (by simp [hx])), List.map_cons]

/-- **pool + `parseData` level**: when the payload-carrying packets of `pid` in the stream are such singles, the
demuxer delivers exactly their parses, in order; nothing is left for the end-of-stream drain -/
theorem delivered_singles (pm : ProgramMap) (pid : Nat) (s : List Packet) (l : List Packet)
    (ds : List (Res (List DemuxerData))) (hf : s.filter (onPid pid) = l) (h : Singles pm pid l ds) :
    deliveredOn pm pid s = ds := by
  obtain ⟨h1, h2, h3⟩ := h
  obtain ⟨g1, g2⟩ := flushes_ignore_nopayload pm pid s []
  have hf' : ((s.filter (·.header.hasPayload)).filter fun p => p.header.pid == pid) = l := by
    rw [← hf, List.filter_filter]; rfl
  have hper := C07.per_pid pm pid (s.filter (·.header.hasPayload)) [] [] rfl
  have hacc := C02.pool_is_accumulator pm pid l [] h1
  have hrun := accRun_singles pm pid l h2
  unfold deliveredOn groupsOn
  rw [g1, g2, hper.1, hper.2, hf', hacc.1, hacc.2]
  simp only [Pool.get, hrun]
  have hne : (l.map fun p => [p]).filter (fun g => !g.isEmpty) = l.map fun p => [p] := by
    rw [List.filter_eq_self]
    intro g hg
    obtain ⟨p, _, rfl⟩ := List.mem_map.mp hg
    rfl
  rw [hne]
  simp only [List.isEmpty_nil, if_true, List.append_nil, List.map_map]
  rw [← h3]
  rfl

/-! ## the chunks of one call, seen from the table PIDs -/

theorem step_whole (m : Mux) (op : Op) : ∀ c ∈ (step m op).1, c.length = 188 := by
  intro c hc
  have h1 : (MuxWhole.call m (.op op)).1.chunks = (step m op).1 := congrArg Prod.fst (MuxWhole.call_op m op)
  rw [← h1] at hc
  exact ((MuxWhole.call_ok m (.op op)).whole c hc).1

/-- whole chunks none of which is on `pid` contribute nothing to `pid` -/
theorem whole_offpid_filter (pid : Nat) (cs : List Bytes) (s : List Packet)
    (h : ∀ c ∈ cs, c.length = 188 ∧ pktPID c ≠ pid) (hs : ParsesTo cs s) : s.filter (onPid pid) = [] := by
  induction cs generalizing s with
  | nil => rw [ParsesTo.nil_inv hs]; rfl
  | cons c cs ih =>
    cases s with
    | nil => rfl
    | cons p ps =>
      obtain ⟨hl, hne⟩ := h c (by simp)
      have hp := parsePacket_pid_188 c p hl hs.1
      have : onPid pid p = false := by
        unfold onPid
        have : (p.header.pid == pid) = false := by rw [hp]; simpa using hne
        rw [this]; rfl
      rw [List.filter_cons, this]
      exact ih ps (fun x hx => h x (by simp [hx])) hs.2

theorem accepted_mem (m : Mux) (d : MuxerData) (h : Accepted m d) : d.pid ∈ m.esCC.map (·.1) := by
  obtain ⟨⟨cc, hcc⟩, _⟩ := h
  exact List.mem_map.2 ⟨(d.pid, cc), lookup_mem _ _ _ hcc, rfl⟩

/-- a call that emits the tables: the two table packets, then chunks that are on neither table PID -/
theorem emits_shape (m : Mux) (op : Op) (h : MuxInv m) (he : Emits m op) :
    ∃ tcs rest, TablesOK m tcs ∧ (step m op).1 = tcs ++ rest ∧
      ∀ c ∈ rest, pktPID c ≠ 0 ∧ pktPID c ≠ 4096 ∧ pktPID c ∈ m.esCC.map (·.1) := by
  unfold Emits at he
  cases op with
  | add es => exact absurd he not_startsWithTables_nil
  | remove pid => exact absurd he not_startsWithTables_nil
  | setPCR pid => exact absurd he not_startsWithTables_nil
  | tables =>
    rcases writeTablesCall_cases m with ⟨ht, _⟩ | ⟨hc, _⟩
    · exact ⟨_, [], ht, by simp [step], by simp⟩
    · simp only [step] at he
      rw [hc] at he
      exact absurd he not_startsWithTables_nil
  | data d =>
    simp only [step] at he ⊢
    rcases writeData_cases m d h with ⟨_, hc, _⟩ | ⟨_, _, _, hc, _⟩ | ⟨ha, hp0, hp1, tcs, m1, new, cc', hr, hc, hm, hnew⟩
    · rw [hc] at he; exact absurd he not_startsWithTables_nil
    · rw [hc] at he; exact absurd he not_startsWithTables_nil
    · rcases retransmit_ok_cases m _ tcs m1 hr with ⟨_, rfl, _⟩ | ⟨_, ht, _⟩
      · rw [hc] at he
        exact absurd he (not_startsWithTables_pid _ d.pid hp0 (by simpa using hnew))
      · exact ⟨tcs, new, ht, hc, fun c hc' => by rw [hnew c hc']; exact ⟨hp0, hp1, accepted_mem m d ha⟩⟩

/-- a call that does not emit the tables writes on neither table PID -/
theorem silent_shape (m : Mux) (op : Op) (h : MuxInv m) (he : ¬ Emits m op) :
    ∀ c ∈ (step m op).1, pktPID c ≠ 0 ∧ pktPID c ≠ 4096 ∧ pktPID c ∈ m.esCC.map (·.1) := by
  unfold Emits at he
  cases op with
  | add es => intro c hc; cases hc
  | remove pid => intro c hc; cases hc
  | setPCR pid => intro c hc; cases hc
  | tables =>
    rcases writeTablesCall_cases m with ⟨ht, _⟩ | ⟨hc, _⟩
    · exfalso; apply he
      obtain ⟨pat, pmt, hc, a, b⟩ := tablesOK_pids m _ h ht
      exact ⟨pat, pmt, [], hc, a, b⟩
    · intro c hc'
      have hc'' : c ∈ m.writeTablesCall.1.chunks := hc'
      rw [hc] at hc''; cases hc''
  | data d =>
    simp only [step] at he ⊢
    rcases writeData_cases m d h with ⟨_, hc, _⟩ | ⟨_, _, _, hc, _⟩ | ⟨ha, hp0, hp1, tcs, m1, new, cc', hr, hc, hm, hnew⟩
    · rw [hc]; intro c hc'; cases hc'
    · rw [hc]; intro c hc'; cases hc'
    · rcases retransmit_ok_cases m _ tcs m1 hr with ⟨_, rfl, _⟩ | ⟨_, ht, _⟩
      · rw [hc]
        intro c hc'
        rw [hnew c (by simpa using hc')]
        exact ⟨hp0, hp1, accepted_mem m d ha⟩
      · exfalso; apply he
        obtain ⟨pat, pmt, rfl, a, b⟩ := tablesOK_pids m tcs h ht
        exact ⟨pat, pmt, new, by rw [hc]; rfl, a, b⟩

/-! ## histories -/

/-- the states in which a call of the history emitted the tables, in order -/
def emissions : Mux → List Op → List Mux
  | _, [] => []
  | m, op :: ops => (if Emits m op then [m] else []) ++ emissions (step m op).2 ops

/-- hypothesis on the streams at the moment of an emission: 8-bit stream types, descriptors that round-trip, and a PMT
section that fits its 12-bit length (it fits one packet whenever the emission succeeded) -/
def TablesHyp (m : Mux) (op : Op) : Prop :=
  Emits m op → (∀ es ∈ m.streams, StreamOk es) ∧ 9 + pmtBodySize m.pmtData < 4096

/-- the PAT the demuxer is owed for an emission made in state `m` -/
def patOf (m : Mux) : Res (List DemuxerData) := .ok [patDatum (next m.patCC.value)]
/-- the PMT the demuxer is owed for an emission made in state `m` -/
def pmtOf (m : Mux) : Res (List DemuxerData) := .ok [pmtDatum (next m.pmtCC.value) m.streams m.pcrPID]

theorem pmtVersion_lt (m : Mux) (h : Reach m) (hpcr : m.streams.any (·.elementaryPID == m.pcrPID) = true) : wPMT m < 32 := by
  have hne : m.streams ≠ [] := by
    intro hh; rw [hh] at hpcr; cases hpcr
  have hv0 : m.pmtVersion.value ≤ 31 ∨ m.pmtUpdated = true := by
    cases hu : m.pmtUpdated
    · left
      have := h.ver.pmtLe
      have : m.pmtVersion.value ≠ 32 := fun hv => hne (h.ver.pmtFresh hv hu)
      omega
    · exact Or.inr rfl
  exact (wPMT_eq m h.ver hv0).2.1

/-- **one call, seen from the two table PIDs** -/
theorem op_tables (pm : ProgramMap) (hpm : pm.has 4096 = true) (m : Mux) (op : Op) (h : Reach m)
    (hyp : TablesHyp m op) (s : List Packet) (hs : ParsesTo (step m op).1 s) :
    Singles pm 0 (s.filter (onPid 0)) ((if Emits m op then [m] else []).map patOf) ∧
    Singles pm 4096 (s.filter (onPid 4096)) ((if Emits m op then [m] else []).map pmtOf) := by
  have hw := step_whole m op
  by_cases he : Emits m op
  · rw [if_pos he]
    obtain ⟨hso, hfit⟩ := hyp he
    obtain ⟨tcs, rest, ⟨hpcr, pat, pmt, p1, p2, rfl, a1, a2, a3, a4⟩, hc, hrest⟩ := emits_shape m op h.pid.inv he
    have hd := pmtOk_of_streams m h.pid hpcr hso hfit
    have hcc1 : m.patCC.inc.get < 16 := by
      rw [inc_get _ h.pid.inv.pat]; have := next_le m.patCC.value; omega
    have hcc2 : m.pmtCC.inc.get < 16 := by
      rw [inc_get _ h.pid.inv.pmt]; have := next_le m.pmtCC.value; omega
    rw [hc] at hs hw
    obtain ⟨st, sr, rfl, hst, hsr⟩ := hs.append_inv
    obtain ⟨_, q1⟩ := tablePacket_parsed 0 _ p1 pat (by decide) hcc1 a2
    obtain ⟨_, q2⟩ := tablePacket_parsed 4096 _ p2 pmt (by decide) hcc2 a4
    have hst' : st = [tablePacket 0 m.patCC.inc.get (p1 ++ List.replicate (184 - p1.length) 0xff),
        tablePacket 4096 m.pmtCC.inc.get (p2 ++ List.replicate (184 - p2.length) 0xff)] :=
      hst.unique (s' := [_, _]) ⟨q1, q2, trivial⟩
    have hr0 : sr.filter (onPid 0) = [] :=
      whole_offpid_filter 0 rest sr (fun c hc' => ⟨hw c (by simp [hc']), (hrest c hc').1⟩) hsr
    have hr1 : sr.filter (onPid 4096) = [] :=
      whole_offpid_filter 4096 rest sr (fun c hc' => ⟨hw c (by simp [hc']), (hrest c hc').2.1⟩) hsr
    have hv1 : wPAT m < 32 := by rw [(wPAT_zero m h.ver).1]; decide
    have hv2 := pmtVersion_lt m h hpcr
    obtain ⟨x1, x2⟩ := pat_packet pm m.patCC.inc.get (wPAT m) hcc1 hv1 p1 a1 (184 - p1.length)
    obtain ⟨y1, y2⟩ := pmt_packet pm hpm m.pmtCC.inc.get (wPMT m) hcc2 hv2 m.pmtData hd rfl p2 a3 (184 - p2.length)
    constructor
    · have hf : (st ++ sr).filter (onPid 0) = [tablePacket 0 m.patCC.inc.get (p1 ++ List.replicate (184 - p1.length) 0xff)] := by
        rw [List.filter_append, hr0, hst']; rfl
      rw [hf]
      refine Singles.single ⟨rfl, rfl, rfl⟩ x1 ?_
      rw [x2, inc_get _ h.pid.inv.pat]; rfl
    · have hf : (st ++ sr).filter (onPid 4096) = [tablePacket 4096 m.pmtCC.inc.get (p2 ++ List.replicate (184 - p2.length) 0xff)] := by
        rw [List.filter_append, hr1, hst']; rfl
      rw [hf]
      refine Singles.single ⟨rfl, rfl, rfl⟩ y1 ?_
      rw [y2, inc_get _ h.pid.inv.pmt]; rfl
  · rw [if_neg he]
    have hsil := silent_shape m op h.pid.inv he
    rw [whole_offpid_filter 0 _ s (fun c hc => ⟨hw c hc, (hsil c hc).1⟩) hs,
      whole_offpid_filter 4096 _ s (fun c hc => ⟨hw c hc, (hsil c hc).2.1⟩) hs]
    exact ⟨Singles.nil pm 0, Singles.nil pm 4096⟩

/-- per-call condition: admissible (automatic PIDs allowed); if the call emits the tables, the streams satisfy `TablesHyp` -/
def HistT (m : Mux) (op : Op) : Prop := StepOK' m op ∧ TablesHyp m op

/-- **the whole history, seen from the two table PIDs** -/
theorem run_tables (pm : ProgramMap) (hpm : pm.has 4096 = true) (m : Mux) (ops : List Op) (h : Reach m)
    (hok : RunAll HistT m ops) (s : List Packet) (hs : ParsesTo (run m ops).1 s) :
    Singles pm 0 (s.filter (onPid 0)) ((emissions m ops).map patOf) ∧
    Singles pm 4096 (s.filter (onPid 4096)) ((emissions m ops).map pmtOf) := by
  induction ops generalizing m s with
  | nil =>
    have : s = [] := ParsesTo.nil_inv hs
    subst this
    exact ⟨Singles.nil pm 0, Singles.nil pm 4096⟩
  | cons op ops ih =>
    have hs' : ParsesTo ((step m op).1 ++ (run (step m op).2 ops).1) s := hs
    obtain ⟨s1, s2, rfl, h1, h2⟩ := hs'.append_inv
    obtain ⟨a1, a2⟩ := op_tables pm hpm m op h hok.1.2 s1 h1
    obtain ⟨b1, b2⟩ := ih (step m op).2 (step_reach m op h hok.1.1) hok.2 s2 h2
    simp only [emissions, List.map_append, List.filter_append]
    exact ⟨a1.append b1, a2.append b2⟩

/-- **C01, TABLE half (model; pool + `parseData` level)** -/
theorem tables_delivered (pm : ProgramMap) (hpm : pm.has 4096 = true) (m : Mux) (ops : List Op) (h : Reach m)
    (hok : RunAll HistT m ops) (s : List Packet) (hs : ParsesTo (run m ops).1 s) :
    deliveredOn pm 0 s = (emissions m ops).map patOf ∧
    deliveredOn pm 4096 s = (emissions m ops).map pmtOf := by
  obtain ⟨h0, h1⟩ := run_tables pm hpm m ops h hok s hs
  exact ⟨delivered_singles pm 0 s _ _ rfl h0, delivered_singles pm 4096 s _ _ rfl h1⟩

end Astits.MuxTablesDemux
