/-
C11 / P2 — byte-level "decode then encode" lemmas: for each fixed-layout group of the TS packet, re-encoding what the
parser decoded gives the original bytes back exactly when the reserved bits have the value the writer emits.
-/
import Astits.Proofs.Layout
namespace Astits.Reemit
open Astits

/-- every element is a byte -/
def IsBytes (l : Bytes) : Prop := ∀ b ∈ l, b < 256

instance (l : Bytes) : Decidable (IsBytes l) := by unfold IsBytes; exact inferInstance

theorem IsBytes.cons {x : Nat} {l : Bytes} (h : IsBytes (x :: l)) : x < 256 ∧ IsBytes l :=
  ⟨h x (by simp), fun b hb => h b (by simp [hb])⟩

theorem IsBytes.take {l : Bytes} (h : IsBytes l) (n : Nat) : IsBytes (l.take n) :=
  fun b hb => h b (List.mem_of_mem_take hb)

theorem IsBytes.drop {l : Bytes} (h : IsBytes l) (n : Nat) : IsBytes (l.drop n) :=
  fun b hb => h b (List.mem_of_mem_drop hb)

theorem IsBytes.getD {l : Bytes} (h : IsBytes l) (n : Nat) : l.getD n 0 < 256 := by
  rw [List.getD_eq_getElem?_getD]
  cases e : l[n]? with
  | none => simp
  | some x => simp only [Option.getD_some]; exact h x (List.mem_of_getElem? e)

theorem b2n_decide (x : Nat) (h : x < 2) : b2n (decide (x = 1)) = x := by
  have : x = 0 ∨ x = 1 := by omega
  rcases this with rfl | rfl <;> rfl

/-! ### TS header -/

theorem hdr_pack (tei pusi tp pid tsc af pl cc : Nat) (h1 : tei ≤ 1) (h2 : pusi ≤ 1) (h3 : tp ≤ 1) (h4 : pid < 8192)
    (h5 : tsc < 4) (h6 : af ≤ 1) (h7 : pl ≤ 1) (h8 : cc < 16) :
    packFields [(tei, 1), (pusi, 1), (tp, 1), (pid, 13), (tsc, 2), (af, 1), (pl, 1), (cc, 4)]
      = [tei * 128 + pusi * 64 + tp * 32 + pid / 256, pid % 256, tsc * 64 + af * 32 + pl * 16 + cc] := by
  simp only [packFields, fieldsWidth, fieldsValue, beBytes]
  simp only [Nat.reducePow, Nat.reduceAdd, Nat.reduceDiv, Nat.pow_zero, Nat.div_one, Nat.pow_one]
  congr 1
  · omega
  · congr 1
    · omega
    · congr 1; omega

theorem hdr_reencode (b0 b1 b2 : Nat) (h0 : b0 < 256) (h1 : b1 < 256) (h2 : b2 < 256) :
    hdrBytes (headerOfBytes b0 b1 b2) = [b0, b1, b2] := by
  unfold hdrBytes headerOfBytes
  simp only [b2n_decide _ (Nat.mod_lt _ (by decide : 2 > 0))]
  rw [hdr_pack _ _ _ _ _ _ _ _ (by omega) (by omega) (by omega) (by omega) (by omega) (by omega) (by omega) (by omega)]
  congr 1
  · omega
  · congr 1
    · omega
    · congr 1; omega

/-! ### adaptation field flags -/

theorem bits8_pack (d1 d2 d3 d4 d5 d6 d7 d8 : Nat) (h1 : d1 ≤ 1) (h2 : d2 ≤ 1) (h3 : d3 ≤ 1) (h4 : d4 ≤ 1) (h5 : d5 ≤ 1)
    (h6 : d6 ≤ 1) (h7 : d7 ≤ 1) (h8 : d8 ≤ 1) :
    packFields [(d1, 1), (d2, 1), (d3, 1), (d4, 1), (d5, 1), (d6, 1), (d7, 1), (d8, 1)]
      = [d1 * 128 + d2 * 64 + d3 * 32 + d4 * 16 + d5 * 8 + d6 * 4 + d7 * 2 + d8] := by
  simp only [packFields, fieldsWidth, fieldsValue, beBytes]
  simp only [Nat.pow_zero, Nat.div_one, Nat.pow_one]
  congr 1
  omega

theorem afFlags_reencode (f : Nat) (hf : f < 256) :
    packFields [(b2n (decide (f / 128 % 2 = 1)), 1), (b2n (decide (f / 64 % 2 = 1)), 1), (b2n (decide (f / 32 % 2 = 1)), 1),
      (b2n (decide (f / 16 % 2 = 1)), 1), (b2n (decide (f / 8 % 2 = 1)), 1), (b2n (decide (f / 4 % 2 = 1)), 1),
      (b2n (decide (f / 2 % 2 = 1)), 1), (b2n (decide (f % 2 = 1)), 1)] = [f] := by
  simp only [b2n_decide _ (Nat.mod_lt _ (by decide : 2 > 0))]
  rw [bits8_pack _ _ _ _ _ _ _ _ (by omega) (by omega) (by omega) (by omega) (by omega) (by omega) (by omega) (by omega)]
  congr 1
  omega

/-! ### PCR / OPCR -/

theorem lowBits_natCast (b n : Nat) : lowBits ((b : Nat) : Int) n = b % 2 ^ n := lowBits_nat b n

theorem pcr_pack (base ext : Nat) (hb : base < 8589934592) (he : ext < 512) :
    pcrBytes { base := (base : Int), extension := (ext : Int) } = beBytes 6 ((base * 64 + 63) * 512 + ext) := by
  unfold pcrBytes packFields
  simp only [fieldsWidth, fieldsValue, lowBits_nat]
  simp only [Nat.reducePow, Nat.reduceAdd, Nat.reduceDiv]
  apply congrArg
  omega

theorem pcr_reencode (a b c d e f : Nat) (ha : a < 256) (hb : b < 256) (hc : c < 256) (hd : d < 256) (he : e < 256)
    (hf : f < 256) :
    pcrBytes (pcrOfBytes [a, b, c, d, e, f]) = [a, b, c, d, e, f] ↔ e / 2 % 64 = 63 := by
  have hV : beNat [a, b, c, d, e, f] = a * 1099511627776 + b * 4294967296 + c * 16777216 + d * 65536 + e * 256 + f := by
    simp only [beNat, List.foldl_cons, List.foldl_nil]; omega
  unfold pcrOfBytes
  simp only [hV]
  generalize hV' : a * 1099511627776 + b * 4294967296 + c * 16777216 + d * 65536 + e * 256 + f = V
  rw [pcr_pack _ _ (by omega) (by omega), beBytes6]
  constructor
  · intro h
    simp only [List.cons.injEq, and_true] at h
    obtain ⟨_, _, _, _, h5, _⟩ := h
    omega
  · intro h
    simp only [List.cons.injEq, and_true]
    refine ⟨?_, ?_, ?_, ?_, ?_, ?_⟩ <;> omega

/-! ### adaptation field extension -/

theorem extFlags_reencode (eb : Nat) (h : eb < 256) :
    packFields [(b2n (decide (eb / 128 % 2 = 1)), 1), (b2n (decide (eb / 64 % 2 = 1)), 1), (b2n (decide (eb / 32 % 2 = 1)), 1),
      (0x1f, 5)] = [eb] ↔ eb % 32 = 31 := by
  simp only [b2n_decide _ (Nat.mod_lt _ (by decide : 2 > 0))]
  simp only [packFields, fieldsWidth, fieldsValue, beBytes]
  simp only [Nat.reducePow, Nat.reduceAdd, Nat.reduceDiv, Nat.pow_zero, Nat.div_one, Nat.pow_one, List.cons.injEq, and_true]
  omega

theorem ltw_reencode (x y : Nat) (hx : x < 256) (hy : y < 256) :
    packFields [(b2n (decide (x / 128 % 2 = 1)), 1), ((x % 128) * 256 + y, 15)] = [x, y] := by
  simp only [b2n_decide _ (Nat.mod_lt _ (by decide : 2 > 0))]
  simp only [packFields, fieldsWidth, fieldsValue, beBytes]
  simp only [Nat.reducePow, Nat.reduceAdd, Nat.reduceDiv, Nat.pow_zero, Nat.div_one, Nat.pow_one]
  congr 1
  · omega
  · congr 1; omega

theorem pr_reencode (x y z : Nat) (hx : x < 256) (hy : y < 256) (hz : z < 256) :
    packFields [(3, 2), ((x % 64) * 65536 + y * 256 + z, 22)] = [x, y, z] ↔ x / 64 = 3 := by
  simp only [packFields, fieldsWidth, fieldsValue, beBytes]
  simp only [Nat.reducePow, Nat.reduceAdd, Nat.reduceDiv, Nat.pow_zero, Nat.div_one, Nat.pow_one, List.cons.injEq, and_true]
  constructor
  · intro ⟨h, _, _⟩; omega
  · intro h; refine ⟨?_, ?_, ?_⟩ <;> omega

/-- seamless splice: splice_type(4) DTS_next_AU[32..30] marker DTS[29..15] marker DTS[14..0] marker -/
theorem ss_reencode (a b c d e : Nat) (ha : a < 256) (hb : b < 256) (hc : c < 256) (hd : d < 256) (he : e < 256) :
    ptsBytes (a / 16 % 16) (ptsOfBytes [a, b, c, d, e]) = [a, b, c, d, e] ↔ a % 2 = 1 ∧ c % 2 = 1 ∧ e % 2 = 1 := by
  have hp : ptsOfBytes [a, b, c, d, e] =
      { base := ((a / 2 % 8 * 1073741824 + b * 4194304 + c / 2 % 128 * 32768 + d * 128 + e / 2 % 128 : Nat) : Int), extension := 0 } := by
    simp [ptsOfBytes]
  rw [hp, ptsBytes_eq, beBytes5]
  unfold ptsValue
  simp only [fieldsValue, Nat.reducePow]
  generalize hB : a / 2 % 8 * 1073741824 + b * 4194304 + c / 2 % 128 * 32768 + d * 128 + e / 2 % 128 = B
  have h1 : B / 1073741824 % 8 = a / 2 % 8 := by omega
  have h2 : B / 32768 % 32768 = (b * 128 + c / 2 % 128) % 32768 := by omega
  have h3 : B % 32768 = d * 128 + e / 2 % 128 := by omega
  rw [h1, h2, h3]
  simp only [List.cons.injEq, and_true]
  constructor
  · intro ⟨g1, g2, g3, g4, g5⟩
    refine ⟨?_, ?_, ?_⟩ <;> omega
  · intro ⟨g1, g2, g3⟩
    refine ⟨?_, ?_, ?_, ?_, ?_⟩ <;> omega

theorem lowBits8 (b : Nat) (h : b < 256) : lowBits ((b : Nat) : Int) 8 = b := by
  rw [lowBits_nat]; simp only [Nat.reducePow]; omega

end Astits.Reemit
