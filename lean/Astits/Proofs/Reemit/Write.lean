/-
C11 / P2 — the writer on what the parser returned: `writePacket (pktOf bs) 188 = .ok bs ↔ Reemittable bs`.
-/
import Astits.Proofs.Reemit.Decode
import Astits.Proofs.PacketRTAF
namespace Astits.Reemit
open Astits

/-! ### list helpers -/

def allFF (l : Bytes) : Bool := l.all (· == 0xff)

theorem allFF_iff (l : Bytes) : allFF l = true ↔ l = List.replicate l.length 0xff := by
  induction l with
  | nil => simp [allFF]
  | cons x r ih =>
    unfold allFF at ih ⊢
    simp only [List.all_cons, Bool.and_eq_true, beq_iff_eq, List.length_cons, List.replicate_succ, List.cons.injEq]
    rw [ih]

theorem allFF_replicate (n : Nat) : allFF (List.replicate n 0xff) = true := by
  rw [allFF_iff]; simp

theorem eq_replicate_iff (l : Bytes) (n : Nat) : l = List.replicate n 0xff ↔ l.length = n ∧ allFF l = true := by
  constructor
  · intro h; rw [h]; exact ⟨by simp, allFF_replicate n⟩
  · intro ⟨h1, h2⟩; rw [← h1]; exact (allFF_iff l).mp h2

theorem app_eq_iff {a b c d : Bytes} (h : a.length = c.length) : a ++ b = c ++ d ↔ a = c ∧ b = d :=
  ⟨fun e => List.append_inj e h, fun ⟨e1, e2⟩ => by rw [e1, e2]⟩

theorem take_cons_drop (l : Bytes) (n : Nat) : l = l.take n ++ l.drop n := (List.take_append_drop n l).symm

theorem list2 (l : Bytes) (h : l.length = 2) : l = [l.getD 0 0, l.getD 1 0] := by
  match l, h with
  | [a, b], _ => rfl
theorem list3 (l : Bytes) (h : l.length = 3) : l = [l.getD 0 0, l.getD 1 0, l.getD 2 0] := by
  match l, h with
  | [a, b, c], _ => rfl
theorem list5 (l : Bytes) (h : l.length = 5) : l = [l.getD 0 0, l.getD 1 0, l.getD 2 0, l.getD 3 0, l.getD 4 0] := by
  match l, h with
  | [a, b, c, d, e], _ => rfl
theorem list6 (l : Bytes) (h : l.length = 6) : l = [l.getD 0 0, l.getD 1 0, l.getD 2 0, l.getD 3 0, l.getD 4 0, l.getD 5 0] := by
  match l, h with
  | [a, b, c, d, e, f], _ => rfl

theorem getD_take (l : Bytes) (n i : Nat) (h : i < n) : (l.take n).getD i 0 = l.getD i 0 := by
  simp only [List.getD_eq_getElem?_getD, List.getElem?_take, h, if_true]

/-! ### PCR segment -/

def pcrResOK (t : Bytes) : Bool := t.getD 4 0 / 2 % 64 == 63

theorem pcrBytes_length (c : ClockReference) : (pcrBytes c).length = 6 := by
  simp [pcrBytes, packFields, fieldsWidth, beBytes_length]

theorem pcrSeg_reencode (t : Bytes) (hb : IsBytes t) (hl : 6 ≤ t.length) :
    pcrBytes (pcrOfBytes (t.take 6)) = t.take 6 ↔ pcrResOK t = true := by
  have h6 : (t.take 6).length = 6 := by rw [List.length_take]; omega
  have hb6 := hb.take 6
  rw [list6 _ h6]
  rw [pcr_reencode _ _ _ _ _ _ (hb6.getD 0) (hb6.getD 1) (hb6.getD 2) (hb6.getD 3) (hb6.getD 4) (hb6.getD 5)]
  unfold pcrResOK
  rw [getD_take _ _ _ (by omega), beq_iff_eq]

/-! ### adaptation field extension -/

/-- the extension starting at `t` is re-emitted byte for byte: non-zero length byte equal to the bytes of the parts present
(no trailing reserved bytes), the 5 reserved flag bits set, the 2 reserved bits of the piecewise rate set, the 3 marker bits
of DTS_next_AU set -/
def extOK (t : Bytes) : Bool :=
  t.getD 0 0 != 0 && t.getD 0 0 + 1 == extK t && t.getD 1 0 % 32 == 31
  && (!decide (t.getD 1 0 / 64 % 2 = 1) || (extU1 t).getD 0 0 / 64 == 3)
  && (!decide (t.getD 1 0 / 32 % 2 = 1) ||
      ((extU2 t).getD 0 0 % 2 == 1 && (extU2 t).getD 2 0 % 2 == 1 && (extU2 t).getD 4 0 % 2 == 1))

theorem ptsBytes_length' (flag : Nat) (c : ClockReference) : (ptsBytes flag c).length = 5 := by
  simp [ptsBytes, packFields, fieldsWidth, beBytes_length]

theorem afExtBytes_zero (t : Bytes) (h0 : t.getD 0 0 = 0) : afExtBytes (extOf t) = [1, 0x1f] := by
  unfold extOf
  rw [if_pos h0, h0]
  decide

theorem afExtSize_extOf (t : Bytes) (h0 : t.getD 0 0 ≠ 0) : afExtSize (extOf t) + 1 = extK t := by
  unfold extOf extK afExtSize ptsOrDTSByteLength
  rw [if_neg h0, if_neg h0]
  simp only [decide_eq_true_eq]
  omega

/-- the bytes of the extension as they stand in the packet -/
theorem ext_take (t : Bytes) (h0 : t.getD 0 0 ≠ 0) (hk : extK t ≤ t.length) :
    t.take (extK t) = [t.getD 0 0] ++ ([t.getD 1 0] ++ ((extU t).take (if t.getD 1 0 / 128 % 2 = 1 then 2 else 0)
      ++ ((extU1 t).take (if t.getD 1 0 / 64 % 2 = 1 then 3 else 0)
      ++ (extU2 t).take (if t.getD 1 0 / 32 % 2 = 1 then 5 else 0)))) := by
  have hk' : extK t = 2 + (if t.getD 1 0 / 128 % 2 = 1 then 2 else 0) + (if t.getD 1 0 / 64 % 2 = 1 then 3 else 0)
      + (if t.getD 1 0 / 32 % 2 = 1 then 5 else 0) := by unfold extK; rw [if_neg h0]
  have e1 : t = t.getD 0 0 :: t.getD 1 0 :: extU t := by
    have := drop_eq_cons t 0 (by omega)
    rw [List.drop_zero] at this
    have h2 := drop_eq_cons t 1 (by omega)
    unfold extU
    rw [← h2]; exact this
  generalize hA : (if t.getD 1 0 / 128 % 2 = 1 then 2 else 0 : Nat) = A at *
  generalize hB : (if t.getD 1 0 / 64 % 2 = 1 then 3 else 0 : Nat) = B at *
  generalize hC : (if t.getD 1 0 / 32 % 2 = 1 then 5 else 0 : Nat) = C at *
  have e2 : (extU t).take (A + (B + C)) = (extU t).take A ++ ((extU1 t).take B ++ (extU2 t).take C) := by
    unfold extU2 extU1
    rw [hA, hB, List.take_add, List.take_add]
  rw [hk']
  have : 2 + A + B + C = (A + (B + C)) + 1 + 1 := by omega
  rw [this]
  conv => lhs; rw [e1]
  rw [List.take_succ_cons, List.take_succ_cons, e2]
  rfl

theorem ltwSeg (u : Bytes) (hb : IsBytes u) (c : Prop) [Decidable c] (hl : (if c then 2 else 0) ≤ u.length) :
    (if decide c = true then
        packFields [(b2n (if c then decide ((u.take 2).getD 0 0 / 128 % 2 = 1) else false), 1),
          ((if c then ((u.take 2).getD 0 0 % 128) * 256 + (u.take 2).getD 1 0 else 0), 15)]
      else []) = u.take (if c then 2 else 0) := by
  by_cases hc : c
  · simp only [hc, decide_true, if_true] at hl ⊢
    have h2 : (u.take 2).length = 2 := by rw [List.length_take]; omega
    have hb2 := hb.take 2
    rw [ltw_reencode _ _ (hb2.getD 0) (hb2.getD 1)]
    exact (list2 _ h2).symm
  · simp only [hc, decide_false, if_false, Bool.false_eq_true, List.take_zero]

theorem prSeg (u : Bytes) (hb : IsBytes u) (c : Prop) [Decidable c] (hl : (if c then 3 else 0) ≤ u.length) :
    (if decide c = true then
        packFields [(3, 2), ((if c then ((u.take 3).getD 0 0 % 64) * 65536 + (u.take 3).getD 1 0 * 256 + (u.take 3).getD 2 0 else 0), 22)]
      else []) = u.take (if c then 3 else 0) ↔ (c → u.getD 0 0 / 64 = 3) := by
  by_cases hc : c
  · simp only [hc, decide_true, if_true, true_implies] at hl ⊢
    have h3 : (u.take 3).length = 3 := by rw [List.length_take]; omega
    have hb3 := hb.take 3
    conv => lhs; rhs; rw [list3 _ h3]
    rw [pr_reencode _ _ _ (hb3.getD 0) (hb3.getD 1) (hb3.getD 2), getD_take _ _ _ (by omega)]
  · simp only [hc, decide_false, if_false, Bool.false_eq_true, List.take_zero, false_implies]

theorem ssSeg (u : Bytes) (hb : IsBytes u) (c : Prop) [Decidable c] (hl : (if c then 5 else 0) ≤ u.length) :
    (if decide c = true then
        ptsBytes (if c then u.getD 0 0 / 16 % 16 else 0) ((if c then some (ptsOfBytes (u.take 5)) else none).getD default)
      else []) = u.take (if c then 5 else 0) ↔ (c → u.getD 0 0 % 2 = 1 ∧ u.getD 2 0 % 2 = 1 ∧ u.getD 4 0 % 2 = 1) := by
  by_cases hc : c
  · simp only [hc, decide_true, if_true, true_implies, Option.getD_some] at hl ⊢
    have h5 : (u.take 5).length = 5 := by rw [List.length_take]; omega
    have hb5 := hb.take 5
    have e0 : u.getD 0 0 = (u.take 5).getD 0 0 := (getD_take _ _ _ (by omega)).symm
    have e2 : u.getD 2 0 = (u.take 5).getD 2 0 := (getD_take _ _ _ (by omega)).symm
    have e4 : u.getD 4 0 = (u.take 5).getD 4 0 := (getD_take _ _ _ (by omega)).symm
    rw [e0, e2, e4]
    generalize u.take 5 = s at *
    rw [list5 s h5]
    simp only [List.getD_cons_zero, List.getD_cons_succ]
    exact ss_reencode _ _ _ _ _ (hb5.getD 0) (hb5.getD 1) (hb5.getD 2) (hb5.getD 3) (hb5.getD 4)
  · simp only [hc, decide_false, if_false, Bool.false_eq_true, List.take_zero, false_implies]

theorem packFields_len1 (a b c d : Nat) : (packFields [(a, 1), (b, 1), (c, 1), (d, 5)]).length = 1 := by
  simp [packFields, fieldsWidth, beBytes_length]

/-- **extension**: re-encoding the decoded extension gives its bytes back exactly when `extOK` -/
theorem ext_reencode (t : Bytes) (hb : IsBytes t) (h0 : t.getD 0 0 ≠ 0) (hk : extK t ≤ t.length) :
    afExtBytes (extOf t) = t.take (extK t) ↔ extOK t = true := by
  have hsz := afExtSize_extOf t h0
  have hk' : extK t = 2 + (if t.getD 1 0 / 128 % 2 = 1 then 2 else 0) + (if t.getD 1 0 / 64 % 2 = 1 then 3 else 0)
      + (if t.getD 1 0 / 32 % 2 = 1 then 5 else 0) := by unfold extK; rw [if_neg h0]
  have hlen : (extU t).length = t.length - 2 := by unfold extU; rw [List.length_drop]
  have hlen1 : (extU1 t).length = (extU t).length - (if t.getD 1 0 / 128 % 2 = 1 then 2 else 0) := by
    unfold extU1; rw [List.length_drop]
  have hlen2 : (extU2 t).length = (extU1 t).length - (if t.getD 1 0 / 64 % 2 = 1 then 3 else 0) := by
    unfold extU2; rw [List.length_drop]
  have rA : (if t.getD 1 0 / 128 % 2 = 1 then 2 else 0) ≤ (extU t).length := by
    generalize (if t.getD 1 0 / 128 % 2 = 1 then 2 else 0 : Nat) = A at *
    generalize (if t.getD 1 0 / 64 % 2 = 1 then 3 else 0 : Nat) = B at *
    generalize (if t.getD 1 0 / 32 % 2 = 1 then 5 else 0 : Nat) = C at *
    omega
  have rB : (if t.getD 1 0 / 64 % 2 = 1 then 3 else 0) ≤ (extU1 t).length := by
    generalize (if t.getD 1 0 / 128 % 2 = 1 then 2 else 0 : Nat) = A at *
    generalize (if t.getD 1 0 / 64 % 2 = 1 then 3 else 0 : Nat) = B at *
    generalize (if t.getD 1 0 / 32 % 2 = 1 then 5 else 0 : Nat) = C at *
    omega
  have rC : (if t.getD 1 0 / 32 % 2 = 1 then 5 else 0) ≤ (extU2 t).length := by
    generalize (if t.getD 1 0 / 128 % 2 = 1 then 2 else 0 : Nat) = A at *
    generalize (if t.getD 1 0 / 64 % 2 = 1 then 3 else 0 : Nat) = B at *
    generalize (if t.getD 1 0 / 32 % 2 = 1 then 5 else 0 : Nat) = C at *
    omega
  have hbU : IsBytes (extU t) := hb.drop 2
  have hbU1 : IsBytes (extU1 t) := hbU.drop _
  have hbU2 : IsBytes (extU2 t) := hbU1.drop _
  have s1 := ltwSeg (extU t) hbU (t.getD 1 0 / 128 % 2 = 1) rA
  have s2 := prSeg (extU1 t) hbU1 (t.getD 1 0 / 64 % 2 = 1) rB
  have s3 := ssSeg (extU2 t) hbU2 (t.getD 1 0 / 32 % 2 = 1) rC
  have hcalc : calcAFExtLength (extOf t) + 1 = extK t := by
    unfold calcAFExtLength
    have : afExtSize (extOf t) ≤ 11 := by
      unfold afExtSize ptsOrDTSByteLength
      split <;> split <;> split <;> omega
    omega
  rw [ext_take t h0 hk]
  unfold afExtBytes
  simp only [List.append_assoc]
  rw [app_eq_iff (by rfl)]
  have hfl : (packFields [(b2n (extOf t).hasLegalTimeWindow, 1), (b2n (extOf t).hasPiecewiseRate, 1),
      (b2n (extOf t).hasSeamlessSplice, 1), (0x1f, 5)]).length = [t.getD 1 0].length := packFields_len1 _ _ _ _
  rw [app_eq_iff hfl]
  have f1 : (extOf t).hasLegalTimeWindow = decide (t.getD 1 0 / 128 % 2 = 1) := by unfold extOf; rw [if_neg h0]
  have f2 : (extOf t).hasPiecewiseRate = decide (t.getD 1 0 / 64 % 2 = 1) := by unfold extOf; rw [if_neg h0]
  have f3 : (extOf t).hasSeamlessSplice = decide (t.getD 1 0 / 32 % 2 = 1) := by unfold extOf; rw [if_neg h0]
  have f4 : (extOf t).legalTimeWindowIsValid = (if t.getD 1 0 / 128 % 2 = 1 then decide (((extU t).take 2).getD 0 0 / 128 % 2 = 1) else false) := by unfold extOf; rw [if_neg h0]
  have f5 : (extOf t).legalTimeWindowOffset = (if t.getD 1 0 / 128 % 2 = 1 then (((extU t).take 2).getD 0 0 % 128) * 256 + ((extU t).take 2).getD 1 0 else 0) := by unfold extOf; rw [if_neg h0]
  have f6 : (extOf t).piecewiseRate = (if t.getD 1 0 / 64 % 2 = 1 then
          (((extU1 t).take 3).getD 0 0 % 64) * 65536 + ((extU1 t).take 3).getD 1 0 * 256 + ((extU1 t).take 3).getD 2 0 else 0) := by unfold extOf; rw [if_neg h0]
  have f7 : (extOf t).spliceType = (if t.getD 1 0 / 32 % 2 = 1 then (extU2 t).getD 0 0 / 16 % 16 else 0) := by unfold extOf; rw [if_neg h0]
  have f8 : (extOf t).dtsNextAccessUnit = (if t.getD 1 0 / 32 % 2 = 1 then some (ptsOfBytes ((extU2 t).take 5)) else none) := by unfold extOf; rw [if_neg h0]
  rw [f1, f2, f3, f4, f5, f6, f7, f8]
  have hl1 : (if decide (t.getD 1 0 / 128 % 2 = 1) = true then
        packFields [(b2n (if t.getD 1 0 / 128 % 2 = 1 then decide (((extU t).take 2).getD 0 0 / 128 % 2 = 1) else false), 1),
          ((if t.getD 1 0 / 128 % 2 = 1 then (((extU t).take 2).getD 0 0 % 128) * 256 + ((extU t).take 2).getD 1 0 else 0), 15)]
      else []).length = ((extU t).take (if t.getD 1 0 / 128 % 2 = 1 then 2 else 0)).length := by rw [s1]
  rw [app_eq_iff hl1]
  have hl2 : (if decide (t.getD 1 0 / 64 % 2 = 1) = true then
        packFields [(3, 2), ((if t.getD 1 0 / 64 % 2 = 1 then (((extU1 t).take 3).getD 0 0 % 64) * 65536 + ((extU1 t).take 3).getD 1 0 * 256 + ((extU1 t).take 3).getD 2 0 else 0), 22)]
      else []).length = ((extU1 t).take (if t.getD 1 0 / 64 % 2 = 1 then 3 else 0)).length := by
    rw [List.length_take, Nat.min_eq_left rB]
    by_cases q : t.getD 1 0 / 64 % 2 = 1
    · simp only [q, decide_true, if_true]; simp [packFields, fieldsWidth, beBytes_length]
    · simp only [q, decide_false, if_false, Bool.false_eq_true, List.length_nil]
  rw [app_eq_iff hl2, s2, s3, extFlags_reencode _ (hb.getD 1)]
  unfold extOK
  simp only [Bool.and_eq_true, Bool.or_eq_true, Bool.not_eq_true', decide_eq_false_iff_not, beq_iff_eq, bne_iff_ne, ne_eq,
    List.cons.injEq, and_true]
  constructor
  · intro ⟨a1, a2, a3, a4, a5⟩
    refine ⟨⟨⟨⟨h0, by omega⟩, a2⟩, ?_⟩, ?_⟩
    · by_cases q : t.getD 1 0 / 64 % 2 = 1
      · exact .inr (a4 q)
      · exact .inl q
    · by_cases q : t.getD 1 0 / 32 % 2 = 1
      · exact .inr ⟨⟨(a5 q).1, (a5 q).2.1⟩, (a5 q).2.2⟩
      · exact .inl q
  · intro ⟨⟨⟨⟨_, b1⟩, b2⟩, b3⟩, b4⟩
    refine ⟨by omega, b2, s1, ?_, ?_⟩
    · intro q; rcases b3 with b3 | b3
      · exact absurd q b3
      · exact b3
    · intro q; rcases b4 with b4 | b4
      · exact absurd q b4
      · exact ⟨b4.1.1, b4.1.2, b4.2⟩

/-! ### adaptation field -/

def segP (f : Nat) (r : Bytes) : Bytes := if f / 16 % 2 = 1 then pcrBytes (pcrOfBytes (r.take 6)) else []
def segO (f : Nat) (r : Bytes) : Bytes := if f / 8 % 2 = 1 then pcrBytes (pcrOfBytes ((t1 f r).take 6)) else []
def segS (f : Nat) (r : Bytes) : Bytes := if f / 4 % 2 = 1 then [(t2 f r).getD 0 0] else []
def segV (f : Nat) (r : Bytes) : Bytes :=
  if f / 2 % 2 = 1 then (t3 f r).getD 0 0 :: ((t3 f r).drop 1).take ((t3 f r).getD 0 0) else []
def segE (f : Nat) (r : Bytes) : Bytes := if f % 2 = 1 then afExtBytes (extOf (t4 f r)) else []

/-- shape of the bytes written for a decoded adaptation field (the private data ended inside `r`, as it does whenever
the parser succeeded: the writer derives the length byte from the data it holds) -/
theorem afBytes_afOf (L f : Nat) (r : Bytes) (hf : f < 256) (hr : IsBytes r) (hk4 : k4 f r ≤ (t3 f r).length) :
    afBytes (afOf L f r) = calcAFLength (afOf L f r) :: f ::
      (segP f r ++ (segO f r ++ (segS f r ++ (segV f r ++ (segE f r ++ List.replicate (L - consumed f r) 0xff))))) := by
  have hb2 : (t2 f r).getD 0 0 < 256 := (((hr.drop _).drop _)).getD 0
  have hb3 : (t3 f r).getD 0 0 < 256 := ((((hr.drop _).drop _)).drop _).getD 0
  have eF : packFields [(b2n (afOf L f r).discontinuityIndicator, 1), (b2n (afOf L f r).randomAccessIndicator, 1),
        (b2n (afOf L f r).elementaryStreamPriorityIndicator, 1), (b2n (afOf L f r).hasPCR, 1), (b2n (afOf L f r).hasOPCR, 1),
        (b2n (afOf L f r).hasSplicingCountdown, 1), (b2n (afOf L f r).hasTransportPrivateData, 1),
        (b2n (afOf L f r).hasAdaptationExtensionField, 1)] = [f] := afFlags_reencode f hf
  have eP : (if (afOf L f r).hasPCR = true then pcrBytes ((afOf L f r).pcr.getD default) else []) = segP f r := by
    unfold segP
    simp only [afOf]
    by_cases q : f / 16 % 2 = 1
    · simp only [q, decide_true, if_true, Option.getD_some]
    · simp only [q, decide_false, if_false, Bool.false_eq_true]
  have eO : (if (afOf L f r).hasOPCR = true then pcrBytes ((afOf L f r).opcr.getD default) else []) = segO f r := by
    unfold segO
    simp only [afOf]
    by_cases q : f / 8 % 2 = 1
    · simp only [q, decide_true, if_true, Option.getD_some]
    · simp only [q, decide_false, if_false, Bool.false_eq_true]
  have eS : (if (afOf L f r).hasSplicingCountdown = true then [lowBits (afOf L f r).spliceCountdown 8] else []) = segS f r := by
    unfold segS
    simp only [afOf]
    by_cases q : f / 4 % 2 = 1
    · simp only [q, decide_true, if_true, lowBits8 _ hb2]
    · simp only [q, decide_false, if_false, Bool.false_eq_true]
  have eV : (if (afOf L f r).hasTransportPrivateData = true then
      [lowBits (afOf L f r).transportPrivateData.length 8] ++ (afOf L f r).transportPrivateData
      else []) = segV f r := by
    unfold segV
    unfold k4 at hk4
    simp only [afOf]
    by_cases q : f / 2 % 2 = 1
    · simp only [q, if_true] at hk4
      have hlen : (((t3 f r).drop 1).take ((t3 f r).getD 0 0)).length = (t3 f r).getD 0 0 := by
        rw [List.length_take, List.length_drop]; omega
      simp only [q, decide_true, if_true, hlen, lowBits8 _ hb3, List.singleton_append]
    · simp only [q, decide_false, if_false, Bool.false_eq_true]
  have eE : (if (afOf L f r).hasAdaptationExtensionField = true then
      afExtBytes ((afOf L f r).adaptationExtensionField.getD defaultExt) else []) = segE f r := by
    unfold segE
    simp only [afOf]
    by_cases q : f % 2 = 1
    · simp only [q, decide_true, if_true, Option.getD_some]
    · simp only [q, decide_false, if_false, Bool.false_eq_true]
  have eT : (afOf L f r).stuffingLength.toNat = L - consumed f r := by
    simp only [afOf]; omega
  have e1 : (afOf L f r).isOneByteStuffing = false := rfl
  unfold afBytes
  rw [e1, eF, eP, eO, eS, eV, eE, eT]
  simp only [Bool.false_eq_true, if_false, List.append_assoc, List.singleton_append, List.cons_append, List.nil_append]

theorem ranges (f : Nat) (r : Bytes) (hc : consumed f r ≤ 1 + r.length) :
    k1 f ≤ r.length ∧ k2 f ≤ (t1 f r).length ∧ k3 f ≤ (t2 f r).length ∧ k4 f r ≤ (t3 f r).length
      ∧ k5 f r ≤ (t4 f r).length ∧ (t5 f r).length + consumed f r = 1 + r.length := by
  have hl1 : (t1 f r).length = r.length - k1 f := by unfold t1; rw [List.length_drop]
  have hl2 : (t2 f r).length = (t1 f r).length - k2 f := by unfold t2; rw [List.length_drop]
  have hl3 : (t3 f r).length = (t2 f r).length - k3 f := by unfold t3; rw [List.length_drop]
  have hl4 : (t4 f r).length = (t3 f r).length - k4 f r := by unfold t4; rw [List.length_drop]
  have hl5 : (t5 f r).length = (t4 f r).length - k5 f r := by unfold t5; rw [List.length_drop]
  unfold consumed at hc ⊢
  omega

/-- the bytes after the flags byte, cut where the parser cut them -/
theorem r_split (f : Nat) (r : Bytes) :
    r = r.take (k1 f) ++ ((t1 f r).take (k2 f) ++ ((t2 f r).take (k3 f) ++ ((t3 f r).take (k4 f r)
      ++ ((t4 f r).take (k5 f r) ++ t5 f r)))) := by
  unfold t5 t4 t3 t2 t1
  simp only [List.take_append_drop]

theorem segP_len (f : Nat) (r : Bytes) : (segP f r).length = k1 f := by
  unfold segP k1; split <;> simp [pcrBytes_length]
theorem segO_len (f : Nat) (r : Bytes) : (segO f r).length = k2 f := by
  unfold segO k2; split <;> simp [pcrBytes_length]

theorem segP_eq (f : Nat) (r : Bytes) (hb : IsBytes r) (hk : k1 f ≤ r.length) :
    segP f r = r.take (k1 f) ↔ (f / 16 % 2 = 1 → pcrResOK r = true) := by
  unfold segP k1 at *
  by_cases q : f / 16 % 2 = 1
  · simp only [q, if_true, true_implies] at hk ⊢
    exact pcrSeg_reencode r hb hk
  · simp only [q, if_false, List.take_zero, false_implies]

theorem segO_eq (f : Nat) (r : Bytes) (hb : IsBytes r) (hk : k2 f ≤ (t1 f r).length) :
    segO f r = (t1 f r).take (k2 f) ↔ (f / 8 % 2 = 1 → pcrResOK (t1 f r) = true) := by
  unfold segO k2 at *
  by_cases q : f / 8 % 2 = 1
  · simp only [q, if_true, true_implies] at hk ⊢
    exact pcrSeg_reencode _ (hb.drop _) hk
  · simp only [q, if_false, List.take_zero, false_implies]

theorem take1 (l : Bytes) (h : 1 ≤ l.length) : l.take 1 = [l.getD 0 0] := by
  match l, h with
  | x :: r, _ => rfl

theorem segS_eq (f : Nat) (r : Bytes) (hk : k3 f ≤ (t2 f r).length) : segS f r = (t2 f r).take (k3 f) := by
  unfold segS k3 at *
  by_cases q : f / 4 % 2 = 1
  · simp only [q, if_true] at hk ⊢
    exact (take1 _ hk).symm
  · simp only [q, if_false, List.take_zero]

theorem segV_eq (f : Nat) (r : Bytes) (hk : k4 f r ≤ (t3 f r).length) : segV f r = (t3 f r).take (k4 f r) := by
  unfold segV k4 at *
  by_cases q : f / 2 % 2 = 1
  · simp only [q, if_true] at hk ⊢
    have : t3 f r = (t3 f r).getD 0 0 :: (t3 f r).drop 1 := by
      have := drop_eq_cons (t3 f r) 0 (by omega)
      rwa [List.drop_zero] at this
    generalize (t3 f r).getD 0 0 = x at *
    generalize (t3 f r).drop 1 = d at *
    rw [this, Nat.add_comm, List.take_succ_cons]
  · simp only [q, if_false, List.take_zero]

/-- the extension part: equal lengths unless the extension length byte is 0 -/
theorem segE_len (f : Nat) (r : Bytes) (h : f % 2 = 1 → (t4 f r).getD 0 0 ≠ 0) : (segE f r).length = k5 f r := by
  unfold segE k5
  by_cases q : f % 2 = 1
  · simp only [q, if_true]
    have := afExtSize_extOf _ (h q)
    rw [PacketRT.afExtBytes_length]
    omega
  · simp only [q, if_false, List.length_nil]

theorem segE_eq (f : Nat) (r : Bytes) (hb : IsBytes r) (hk : k5 f r ≤ (t4 f r).length)
    (h : f % 2 = 1 → (t4 f r).getD 0 0 ≠ 0) :
    segE f r = (t4 f r).take (k5 f r) ↔ (f % 2 = 1 → extOK (t4 f r) = true) := by
  unfold segE k5 at *
  by_cases q : f % 2 = 1
  · simp only [q, if_true, true_implies] at hk ⊢
    exact ext_reencode _ ((((hb.drop _).drop _).drop _).drop _) (h q) hk
  · simp only [q, if_false, List.take_zero, false_implies]

theorem afSize_afOf (L f : Nat) (r : Bytes) (hk4 : k4 f r ≤ (t3 f r).length) :
    afSize (afOf L f r) = (consumed f r : Int) + (if f % 2 = 1 ∧ (t4 f r).getD 0 0 = 0 then 1 else 0)
      + ((L - consumed f r : Nat) : Int) := by
  have hP : (if (afOf L f r).hasPCR = true then (6 : Int) else 0) = (k1 f : Int) := by
    simp only [afOf, k1]; by_cases q : f / 16 % 2 = 1 <;> simp [q]
  have hO : (if (afOf L f r).hasOPCR = true then (6 : Int) else 0) = (k2 f : Int) := by
    simp only [afOf, k2]; by_cases q : f / 8 % 2 = 1 <;> simp [q]
  have hS : (if (afOf L f r).hasSplicingCountdown = true then (1 : Int) else 0) = (k3 f : Int) := by
    simp only [afOf, k3]; by_cases q : f / 4 % 2 = 1 <;> simp [q]
  have hV : (if (afOf L f r).hasTransportPrivateData = true then 1 + ((afOf L f r).transportPrivateData.length : Int) else 0)
      = (k4 f r : Int) := by
    unfold k4 at hk4 ⊢
    simp only [afOf]
    by_cases q : f / 2 % 2 = 1
    · simp only [q, decide_true, if_true] at hk4 ⊢
      rw [List.length_take, List.length_drop]
      omega
    · simp only [q, decide_false, if_false, Bool.false_eq_true]; rfl
  have hE : (if (afOf L f r).hasAdaptationExtensionField = true then
        1 + (afExtSize ((afOf L f r).adaptationExtensionField.getD defaultExt) : Int) else 0)
      = (k5 f r : Int) + (if f % 2 = 1 ∧ (t4 f r).getD 0 0 = 0 then 1 else 0) := by
    unfold k5
    simp only [afOf]
    by_cases q : f % 2 = 1
    · simp only [q, decide_true, if_true, Option.getD_some, true_and]
      by_cases z : (t4 f r).getD 0 0 = 0
      · rw [if_pos z]
        unfold extK extOf
        rw [if_pos z, if_pos z]
        rfl
      · rw [if_neg z]
        have := afExtSize_extOf _ z
        omega
    · simp only [q, decide_false, if_false, Bool.false_eq_true, false_and]; rfl
  have hT : (if (afOf L f r).stuffingLength > 0 then (afOf L f r).stuffingLength else 0) = ((L - consumed f r : Nat) : Int) := by
    rw [show (afOf L f r).stuffingLength = (L : Int) - (consumed f r : Int) from rfl]
    by_cases z : (L : Int) - (consumed f r : Int) > 0
    · rw [if_pos z]; omega
    · rw [if_neg z]; omega
  unfold afSize
  rw [hP, hO, hS, hV, hE, hT]
  unfold consumed
  omega

/-- the decoded adaptation field is re-emitted byte for byte: the optional parts end inside the adaptation field, PCR/OPCR
reserved bits are set, the extension is `extOK`, and the stuffing bytes are all 0xff -/
def afOK (L f : Nat) (r : Bytes) : Bool :=
  decide (consumed f r ≤ L)
  && (!decide (f / 16 % 2 = 1) || pcrResOK r)
  && (!decide (f / 8 % 2 = 1) || pcrResOK (t1 f r))
  && (!decide (f % 2 = 1) || extOK (t4 f r))
  && allFF ((t5 f r).take (L - consumed f r))

theorem extOK_ne0 (t : Bytes) (h : extOK t = true) : t.getD 0 0 ≠ 0 := by
  unfold extOK at h
  simp only [Bool.and_eq_true, bne_iff_ne, ne_eq] at h
  exact h.1.1.1.1

/-- **adaptation field** (adaptation_field_length `L > 0`, flags `f`, then `r`; `tl` = what follows in the written packet) -/
theorem af_reencode (L f : Nat) (r tl : Bytes) (hL : L < 256) (hf : f < 256) (hr : IsBytes r)
    (hc : consumed f r ≤ 1 + r.length) (hrl : 183 ≤ 1 + r.length) :
    (afBytes (afOf L f r) ++ tl = L :: f :: r ∧ afSize (afOf L f r) ≤ 183)
      ↔ (L ≤ 183 ∧ afOK L f r = true ∧ tl = (t5 f r).drop (L - consumed f r)) := by
  obtain ⟨g1, g2, g3, g4, g5, g6⟩ := ranges f r hc
  have hsz := afSize_afOf L f r g4
  rw [afBytes_afOf L f r hf hr g4]
  simp only [List.cons_append, List.cons.injEq, List.append_assoc]
  have hcalc : calcAFLength (afOf L f r) = (afSize (afOf L f r) % 256).toNat := rfl
  constructor
  · intro ⟨⟨e1, _, e2⟩, hs⟩
    -- the length byte
    have hz : (if f % 2 = 1 ∧ (t4 f r).getD 0 0 = 0 then (1 : Int) else 0) = 0 ∧ consumed f r ≤ L := by
      rw [hcalc] at e1
      split at hsz <;> omega
    obtain ⟨hz1, hz2⟩ := hz
    have hne : f % 2 = 1 → (t4 f r).getD 0 0 ≠ 0 := by
      intro q z
      rw [if_pos ⟨q, z⟩] at hz1
      omega
    have hL183 : L ≤ 183 := by rw [hcalc] at e1; rw [hz1] at hsz; omega
    conv at e2 => rhs; rw [r_split f r]
    rw [app_eq_iff (by rw [segP_len, List.length_take, Nat.min_eq_left g1])] at e2
    obtain ⟨p1, e2⟩ := e2
    rw [app_eq_iff (by rw [segO_len, List.length_take, Nat.min_eq_left g2])] at e2
    obtain ⟨p2, e2⟩ := e2
    rw [segS_eq f r g3, segV_eq f r g4] at e2
    rw [app_eq_iff rfl] at e2
    obtain ⟨_, e2⟩ := e2
    rw [app_eq_iff rfl] at e2
    obtain ⟨_, e2⟩ := e2
    rw [app_eq_iff (by rw [segE_len f r hne, List.length_take, Nat.min_eq_left g5])] at e2
    obtain ⟨p5, e2⟩ := e2
    have hn : L - consumed f r ≤ (t5 f r).length := by
      have := congrArg List.length e2
      rw [List.length_append, List.length_replicate] at this
      omega
    conv at e2 => rhs; rw [take_cons_drop (t5 f r) (L - consumed f r)]
    rw [app_eq_iff (by rw [List.length_replicate, List.length_take, Nat.min_eq_left hn])] at e2
    obtain ⟨p6, p7⟩ := e2
    refine ⟨hL183, ?_, p7⟩
    unfold afOK
    simp only [Bool.and_eq_true, Bool.or_eq_true, Bool.not_eq_true', decide_eq_false_iff_not, decide_eq_true_eq]
    refine ⟨⟨⟨⟨hz2, ?_⟩, ?_⟩, ?_⟩, ?_⟩
    · by_cases q : f / 16 % 2 = 1
      · exact .inr ((segP_eq f r hr g1).mp p1 q)
      · exact .inl q
    · by_cases q : f / 8 % 2 = 1
      · exact .inr ((segO_eq f r hr g2).mp p2 q)
      · exact .inl q
    · by_cases q : f % 2 = 1
      · exact .inr ((segE_eq f r hr g5 hne).mp p5 q)
      · exact .inl q
    · rw [← p6]; exact allFF_replicate _
  · intro ⟨hL183, hok, htl⟩
    unfold afOK at hok
    simp only [Bool.and_eq_true, Bool.or_eq_true, Bool.not_eq_true', decide_eq_false_iff_not, decide_eq_true_eq] at hok
    obtain ⟨⟨⟨⟨o1, o2⟩, o3⟩, o4⟩, o5⟩ := hok
    have hne : f % 2 = 1 → (t4 f r).getD 0 0 ≠ 0 := by
      intro q
      rcases o4 with o4 | o4
      · exact absurd q o4
      · exact extOK_ne0 _ o4
    have hz1 : (if f % 2 = 1 ∧ (t4 f r).getD 0 0 = 0 then (1 : Int) else 0) = 0 := by
      rw [if_neg]; intro ⟨q, z⟩; exact hne q z
    have hsz' : afSize (afOf L f r) = (L : Int) := by rw [hsz, hz1]; omega
    refine ⟨⟨by rw [hcalc, hsz']; omega, trivial, ?_⟩, by rw [hsz']; omega⟩
    conv => rhs; rw [r_split f r]
    have p1 : segP f r = r.take (k1 f) := (segP_eq f r hr g1).mpr (fun q => by
      rcases o2 with o | o
      · exact absurd q o
      · exact o)
    have p2 : segO f r = (t1 f r).take (k2 f) := (segO_eq f r hr g2).mpr (fun q => by
      rcases o3 with o | o
      · exact absurd q o
      · exact o)
    have p5 : segE f r = (t4 f r).take (k5 f r) := (segE_eq f r hr g5 hne).mpr (fun q => by
      rcases o4 with o | o
      · exact absurd q o
      · exact o)
    have hn : L - consumed f r ≤ (t5 f r).length := by omega
    have p6 : List.replicate (L - consumed f r) 0xff = (t5 f r).take (L - consumed f r) := by
      have := (allFF_iff _).mp o5
      rw [List.length_take, Nat.min_eq_left hn] at this
      exact this.symm
    rw [p1, p2, segS_eq f r g3, segV_eq f r g4, p5, p6, htl, List.take_append_drop]

/-! ### the whole packet -/

/-- **`Reemittable bs`** — the reserved / stuffing bytes of the 188-byte packet `bs` have the values the writer emits:
* adaptation_field_control = 00 (neither adaptation field nor payload): the 184 bytes after the header are all 0xff;
* = 01 (payload only): no condition;
* adaptation field present with adaptation_field_length 0: no condition when a payload follows, else the 183 remaining bytes
  are all 0xff;
* adaptation field present with adaptation_field_length `L > 0`: `L ≤ 183`; the optional parts end inside the adaptation
  field; PCR / OPCR reserved bits are set; the extension has a non-zero length byte equal to the bytes of the parts present (no
  trailing reserved bytes), its reserved bits and the DTS_next_AU marker bits set; the adaptation field stuffing bytes are
  all 0xff; and, when adaptation_field_control = 10 (no payload), the bytes after the adaptation field are all 0xff. -/
def Reemittable (bs : Bytes) : Bool :=
  if bs.getD 3 0 / 32 % 2 = 1 then
    if bs.getD 4 0 = 0 then decide (bs.getD 3 0 / 16 % 2 = 1) || allFF (bs.drop 5)
    else decide (bs.getD 4 0 ≤ 183) && afOK (bs.getD 4 0) (bs.getD 5 0) (bs.drop 6)
         && (decide (bs.getD 3 0 / 16 % 2 = 1) || allFF (bs.drop (5 + bs.getD 4 0)))
  else decide (bs.getD 3 0 / 16 % 2 = 1) || allFF (bs.drop 4)

theorem writePacket_ok_iff (p : Packet) (bs : Bytes)
    (h1 : ¬(p.header.hasAdaptationField = true ∧ p.adaptationField.isNone = true))
    (h2 : ¬(p.header.hasAdaptationField = true ∧ (p.adaptationField.map afNilDeref).getD false = true)) :
    writePacket p 188 = .ok bs ↔
      ¬((188 : Int) - packetHeadSize p < p.payload.length) ∧
      ([syncByte] ++ hdrBytes p.header
          ++ (if p.header.hasAdaptationField then afBytes (p.adaptationField.getD default) else []))
        ++ (if p.header.hasPayload then p.payload else [])
        ++ List.replicate (188 - (([syncByte] ++ hdrBytes p.header
              ++ (if p.header.hasAdaptationField then afBytes (p.adaptationField.getD default) else [])).length
            + (if p.header.hasPayload then p.payload else []).length)) 0xff = bs := by
  unfold writePacket
  rw [if_neg h1, if_neg h2]
  by_cases h3 : ((188 : Nat) : Int) - packetHeadSize p < p.payload.length
  · rw [if_pos h3]
    constructor
    · intro h; cases h
    · intro ⟨h, _⟩; exact absurd h3 h
  · rw [if_neg h3]
    simp only [Res.ok.injEq]
    constructor
    · intro h; exact ⟨h3, h⟩
    · intro ⟨_, h⟩; exact h

theorem extOf_nil (t : Bytes) : ((extOf t).hasSeamlessSplice && (extOf t).dtsNextAccessUnit.isNone) = false := by
  unfold extOf
  by_cases h0 : t.getD 0 0 = 0
  · rw [if_pos h0]; rfl
  · rw [if_neg h0]
    by_cases q : t.getD 1 0 / 32 % 2 = 1 <;> simp [q]

theorem nilDeref_afOf (L f : Nat) (r : Bytes) : afNilDeref (afOf L f r) = false := by
  unfold afNilDeref
  simp only [afOf, Bool.not_false, Bool.true_and]
  have e1 : (decide (f / 16 % 2 = 1) && (if f / 16 % 2 = 1 then some (pcrOfBytes (r.take 6)) else none).isNone) = false := by
    by_cases q : f / 16 % 2 = 1 <;> simp [q]
  have e2 : (decide (f / 8 % 2 = 1) && (if f / 8 % 2 = 1 then some (pcrOfBytes ((t1 f r).take 6)) else none).isNone) = false := by
    by_cases q : f / 8 % 2 = 1 <;> simp [q]
  rw [e1, e2]
  by_cases q : f % 2 = 1
  · simp only [q, decide_true, if_true, Bool.true_and, Bool.false_or]
    exact extOf_nil _
  · simp [q]

theorem bs_split4 (bs : Bytes) (hl : bs.length = 188) :
    bs = bs.getD 0 0 :: bs.getD 1 0 :: bs.getD 2 0 :: bs.getD 3 0 :: bs.drop 4 := by
  have e0 := drop_eq_cons bs 0 (by omega)
  rw [List.drop_zero] at e0
  rw [← drop_eq_cons bs 3 (by omega), ← drop_eq_cons bs 2 (by omega), ← drop_eq_cons bs 1 (by omega)]
  exact e0

theorem hdr_flags (b1 b2 b3 : Nat) :
    (headerOfBytes b1 b2 b3).hasAdaptationField = decide (b3 / 32 % 2 = 1) ∧
    (headerOfBytes b1 b2 b3).hasPayload = decide (b3 / 16 % 2 = 1) := ⟨rfl, rfl⟩

/-- no adaptation field -/
theorem write_noAF (bs : Bytes) (hl : bs.length = 188) (hb : IsBytes bs) (hs : bs.getD 0 0 = syncByte)
    (q1 : ¬ bs.getD 3 0 / 32 % 2 = 1) :
    writePacket (pktOf bs) 188 = .ok bs ↔ (decide (bs.getD 3 0 / 16 % 2 = 1) || allFF (bs.drop 4)) = true := by
  obtain ⟨f1, f2⟩ := hdr_flags (bs.getD 1 0) (bs.getD 2 0) (bs.getD 3 0)
  have hh := hdr_reencode _ _ _ (hb.getD 1) (hb.getD 2) (hb.getD 3)
  have hd4 : (bs.drop 4).length = 184 := by rw [List.length_drop]; omega
  have e : pktOf bs = Packet.mk none (headerOfBytes (bs.getD 1 0) (bs.getD 2 0) (bs.getD 3 0))
      (if bs.getD 3 0 / 16 % 2 = 1 then bs.drop 4 else []) := by
    unfold pktOf
    rw [f1, f2]
    simp only [q1, decide_false, Bool.false_eq_true, if_false, decide_eq_true_eq]
  rw [e]
  generalize hH : headerOfBytes (bs.getD 1 0) (bs.getD 2 0) (bs.getD 3 0) = H at *
  rw [writePacket_ok_iff _ _ (by simp only [f1, q1, decide_false, Bool.false_eq_true, false_and, not_false_eq_true])
    (by simp only [f1, q1, decide_false, Bool.false_eq_true, false_and, not_false_eq_true])]
  simp only [packetHeadSize, f1, f2, q1, decide_false, Bool.false_eq_true, if_false, hh, decide_eq_true_eq]
  conv => lhs; rhs; rhs; rw [bs_split4 bs hl, hs]
  by_cases q2 : bs.getD 3 0 / 16 % 2 = 1
  · simp only [q2, if_true, hd4, decide_true, Bool.true_or, iff_true]
    refine ⟨by omega, ?_⟩
    simp [hd4]
  · simp only [q2, if_false, decide_false, Bool.false_or, List.length_nil]
    constructor
    · intro ⟨_, h⟩
      simp only [List.cons_append, List.nil_append, List.cons.injEq, true_and, List.append_nil, List.singleton_append,
        List.length_cons] at h
      exact ((eq_replicate_iff _ _).mp h.symm).2
    · intro h
      refine ⟨by omega, ?_⟩
      simp only [List.cons_append, List.nil_append, List.cons.injEq, true_and, List.append_nil, List.singleton_append,
        List.length_cons, List.length_nil]
      exact ((eq_replicate_iff _ _).mpr ⟨hd4, h⟩).symm

theorem t5_drop (L f : Nat) (r : Bytes) (h : consumed f r ≤ L) : (t5 f r).drop (L - consumed f r) = r.drop (L - 1) := by
  unfold t5 t4 t3 t2 t1
  simp only [List.drop_drop]
  congr 1
  unfold consumed at h ⊢
  omega

theorem afSize_of_ok (L f : Nat) (r : Bytes) (hc : consumed f r ≤ 1 + r.length) (hok : afOK L f r = true) :
    afSize (afOf L f r) = (L : Int) ∧ consumed f r ≤ L := by
  obtain ⟨g1, g2, g3, g4, g5, g6⟩ := ranges f r hc
  have hsz := afSize_afOf L f r g4
  unfold afOK at hok
  simp only [Bool.and_eq_true, Bool.or_eq_true, Bool.not_eq_true', decide_eq_false_iff_not, decide_eq_true_eq] at hok
  obtain ⟨⟨⟨⟨o1, o2⟩, o3⟩, o4⟩, o5⟩ := hok
  have hz1 : (if f % 2 = 1 ∧ (t4 f r).getD 0 0 = 0 then (1 : Int) else 0) = 0 := by
    rw [if_neg]
    intro ⟨q, z⟩
    rcases o4 with o4 | o4
    · exact absurd q o4
    · exact extOK_ne0 _ o4 z
  exact ⟨by rw [hsz, hz1]; omega, o1⟩

/-- adaptation field with adaptation_field_length 0 -/
theorem write_oneAF (bs : Bytes) (hl : bs.length = 188) (hb : IsBytes bs) (hs : bs.getD 0 0 = syncByte)
    (q1 : bs.getD 3 0 / 32 % 2 = 1) (hL : bs.getD 4 0 = 0) :
    writePacket (pktOf bs) 188 = .ok bs ↔ (decide (bs.getD 3 0 / 16 % 2 = 1) || allFF (bs.drop 5)) = true := by
  obtain ⟨f1, f2⟩ := hdr_flags (bs.getD 1 0) (bs.getD 2 0) (bs.getD 3 0)
  have hh := hdr_reencode _ _ _ (hb.getD 1) (hb.getD 2) (hb.getD 3)
  have hd5 : (bs.drop 5).length = 183 := by rw [List.length_drop]; omega
  have e : pktOf bs = Packet.mk (some afOne) (headerOfBytes (bs.getD 1 0) (bs.getD 2 0) (bs.getD 3 0))
      (if bs.getD 3 0 / 16 % 2 = 1 then bs.drop 5 else []) := by
    unfold pktOf
    rw [f1, f2]
    simp only [q1, hL, decide_true, if_true, decide_eq_true_eq, Nat.add_zero]
  rw [e]
  generalize hH : headerOfBytes (bs.getD 1 0) (bs.getD 2 0) (bs.getD 3 0) = H at *
  rw [writePacket_ok_iff _ _ (by simp only [Option.isNone_some, Bool.false_eq_true, and_false, not_false_eq_true])
    (by simp only [Option.map_some, Option.getD_some, afNilDeref, afOne, Bool.not_true, Bool.false_and,
          Bool.false_eq_true, and_false, not_false_eq_true])]
  have hbs : bs = syncByte :: bs.getD 1 0 :: bs.getD 2 0 :: bs.getD 3 0 :: 0 :: bs.drop 5 := by
    conv => lhs; rw [bs_split4 bs hl, hs, drop_eq_cons bs 4 (by omega), hL]
  have hab : afBytes afOne = [0] := rfl
  have hone : afOne.isOneByteStuffing = true := rfl
  simp only [packetHeadSize, f1, f2, q1, decide_true, if_true, hh, decide_eq_true_eq, Option.getD_some, hab, hone]
  conv => lhs; rhs; rhs; rw [hbs]
  by_cases q2 : bs.getD 3 0 / 16 % 2 = 1
  · simp only [q2, if_true, hd5, decide_true, Bool.true_or, iff_true]
    refine ⟨by omega, ?_⟩
    simp [hd5]
  · simp only [q2, if_false, decide_false, Bool.false_or, List.length_nil]
    constructor
    · intro ⟨_, h⟩
      simp only [List.cons_append, List.nil_append, List.cons.injEq, true_and, List.append_nil,
        List.length_cons, List.length_nil] at h
      exact ((eq_replicate_iff _ _).mp h.symm).2
    · intro h
      refine ⟨by omega, ?_⟩
      simp only [List.cons_append, List.nil_append, List.cons.injEq, true_and, List.append_nil,
        List.length_cons, List.length_nil]
      exact ((eq_replicate_iff _ _).mpr ⟨hd5, h⟩).symm

/-- adaptation field with adaptation_field_length > 0 -/
theorem write_AF (bs : Bytes) (hl : bs.length = 188) (hb : IsBytes bs) (hs : bs.getD 0 0 = syncByte)
    (q1 : bs.getD 3 0 / 32 % 2 = 1) (hL : bs.getD 4 0 ≠ 0) (hc : consumed (bs.getD 5 0) (bs.drop 6) ≤ 183) :
    writePacket (pktOf bs) 188 = .ok bs ↔
      (decide (bs.getD 4 0 ≤ 183) && afOK (bs.getD 4 0) (bs.getD 5 0) (bs.drop 6)
         && (decide (bs.getD 3 0 / 16 % 2 = 1) || allFF (bs.drop (5 + bs.getD 4 0)))) = true := by
  obtain ⟨f1, f2⟩ := hdr_flags (bs.getD 1 0) (bs.getD 2 0) (bs.getD 3 0)
  have hh := hdr_reencode _ _ _ (hb.getD 1) (hb.getD 2) (hb.getD 3)
  have hd6 : (bs.drop 6).length = 182 := by rw [List.length_drop]; omega
  have e : pktOf bs = Packet.mk (some (afOf (bs.getD 4 0) (bs.getD 5 0) (bs.drop 6)))
      (headerOfBytes (bs.getD 1 0) (bs.getD 2 0) (bs.getD 3 0))
      (if bs.getD 3 0 / 16 % 2 = 1 then bs.drop (5 + bs.getD 4 0) else []) := by
    unfold pktOf
    rw [f1, f2]
    simp only [q1, hL, decide_true, if_true, if_false, decide_eq_true_eq]
  rw [e]
  generalize hH : headerOfBytes (bs.getD 1 0) (bs.getD 2 0) (bs.getD 3 0) = H at *
  have hbs : bs = syncByte :: bs.getD 1 0 :: bs.getD 2 0 :: bs.getD 3 0 :: bs.getD 4 0 :: bs.getD 5 0 :: bs.drop 6 := by
    conv => lhs; rw [bs_split4 bs hl, hs, drop_eq_cons bs 4 (by omega), drop_eq_cons bs 5 (by omega)]
  have hLb := hb.getD 4
  have hfb := hb.getD 5
  have hrb : IsBytes (bs.drop 6) := hb.drop 6
  generalize hLL : bs.getD 4 0 = L at *
  generalize hff : bs.getD 5 0 = f at *
  generalize hrr : bs.drop 6 = r at *
  have hc' : consumed f r ≤ 1 + r.length := by omega
  have hdL : bs.drop (5 + L) = r.drop (L - 1) := by
    rw [← hrr, List.drop_drop]; congr 1; omega
  have hdLlen : (bs.drop (5 + L)).length = 183 - L := by rw [List.length_drop]; omega
  rw [writePacket_ok_iff _ _ (by simp only [Option.isNone_some, Bool.false_eq_true, and_false, not_false_eq_true])
    (by simp only [Option.map_some, Option.getD_some, nilDeref_afOf, Bool.false_eq_true, and_false, not_false_eq_true])]
  have hone : (afOf L f r).isOneByteStuffing = false := rfl
  simp only [packetHeadSize, f1, f2, q1, decide_true, if_true, hh, decide_eq_true_eq, Option.getD_some, hone,
    Bool.false_eq_true, if_false]
  conv => lhs; rhs; rhs; rw [hbs]
  simp only [List.cons_append, List.nil_append, List.cons.injEq, true_and, List.append_assoc, List.length_cons,
    List.length_append]
  have key := af_reencode L f r
  simp only [Bool.and_eq_true, decide_eq_true_eq, Bool.or_eq_true]
  constructor
  · intro ⟨hsize, heq⟩
    have hs183 : afSize (afOf L f r) ≤ 183 := by
      have : (0 : Int) ≤ ((if bs.getD 3 0 / 16 % 2 = 1 then bs.drop (5 + L) else []).length : Int) := by omega
      omega
    obtain ⟨k1', k2', k3'⟩ := (key _ hLb hfb hrb hc' (by omega)).mp ⟨heq, hs183⟩
    refine ⟨⟨k1', k2'⟩, ?_⟩
    obtain ⟨_, hcl⟩ := afSize_of_ok L f r hc' k2'
    rw [t5_drop L f r hcl, ← hdL] at k3'
    by_cases q2 : bs.getD 3 0 / 16 % 2 = 1
    · exact .inl q2
    · right
      simp only [q2, if_false, List.nil_append, List.length_nil] at k3'
      rw [← k3']; exact allFF_replicate _
  · intro ⟨⟨k1', k2'⟩, k3'⟩
    obtain ⟨hsz, hcl⟩ := afSize_of_ok L f r hc' k2'
    have hE := (key (bs.drop (5 + L)) hLb hfb hrb hc' (by omega)).mpr ⟨k1', k2', by rw [t5_drop L f r hcl, hdL]⟩
    obtain ⟨hE, _⟩ := hE
    have hlenA : (afBytes (afOf L f r)).length = 1 + L := by
      have := congrArg List.length hE
      rw [List.length_append, hdLlen] at this
      simp only [List.length_cons] at this
      omega
    by_cases q2 : bs.getD 3 0 / 16 % 2 = 1
    · simp only [q2, if_true, hdLlen, hlenA]
      refine ⟨by omega, ?_⟩
      have : 188 - (1 + L + 1 + 1 + 1 + 1 + (183 - L)) = 0 := by omega
      rw [this, List.replicate_zero, List.append_nil]
      exact hE
    · simp only [q2, if_false, List.length_nil, List.nil_append, hlenA]
      refine ⟨by omega, ?_⟩
      have hff' : allFF (bs.drop (5 + L)) = true := by
        rcases k3' with k | k
        · exact absurd k q2
        · exact k
      have : List.replicate (188 - (1 + L + 1 + 1 + 1 + 1 + 0)) 0xff = bs.drop (5 + L) :=
        ((eq_replicate_iff _ _).mpr ⟨by rw [hdLlen]; omega, hff'⟩).symm
      rw [this]
      exact hE

/-- **P2, core**: on 188 bytes that the parser accepts, writing the parsed packet gives the bytes back iff `Reemittable` -/
theorem write_pktOf (bs : Bytes) (hl : bs.length = 188) (hb : IsBytes bs) (hr : InRange bs) :
    writePacket (pktOf bs) 188 = .ok bs ↔ Reemittable bs = true := by
  obtain ⟨hs, hc⟩ := hr
  unfold Reemittable
  by_cases q1 : bs.getD 3 0 / 32 % 2 = 1
  · rw [if_pos q1]
    by_cases hL : bs.getD 4 0 = 0
    · rw [if_pos hL]
      exact write_oneAF bs hl hb hs q1 hL
    · rw [if_neg hL]
      exact write_AF bs hl hb hs q1 hL (hc (by rw [(hdr_flags _ _ _).1]; simp only [q1, decide_true]) hL)
  · rw [if_neg q1]
    exact write_noAF bs hl hb hs q1

end Astits.Reemit
