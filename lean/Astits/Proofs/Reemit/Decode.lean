/-
C11 / P2 — the packet parser as a pure function of the bytes: whenever `parsePacket` succeeds on a 188-byte slice, the
packet it returns is `pktOf bs` (defined below by plain list operations), and every optional part it read lies inside the
slice.  Inversion lemmas, one per parser step, chained without case-splitting on the flags.
-/
import Astits.Proofs.PSIRT
import Astits.Proofs.Reemit.Bytes
namespace Astits.Reemit
open Astits Astits.PSIRT

/-! ### inversion of the primitive reads -/

theorem bind_ok_inv {α β} {x : P α} {f : α → P β} {i : It} {r : β × It} (h : (x >>= f) i = .ok r) :
    ∃ a i1, x i = .ok (a, i1) ∧ f a i1 = .ok r := by
  rw [P.bind_run] at h
  cases e : x i with
  | ok v => obtain ⟨a, i1⟩ := v; rw [e] at h; exact ⟨a, i1, rfl, h⟩
  | err _ => rw [e] at h; cases h
  | panic => rw [e] at h; cases h

theorem pure_ok_inv {α} {a v : α} {i i' : It} (h : (pure a : P α) i = .ok (v, i')) : v = a ∧ i' = i := by
  simp only [P.pure_run, Res.ok.injEq, Prod.mk.injEq] at h
  exact ⟨h.1.symm, h.2.symm⟩

theorem At_drop {bs : Bytes} {off : Int} {t : Bytes} (h : It.At ⟨bs, off⟩ t) (k : Nat) (hk : k ≤ t.length) :
    It.At ⟨bs, off + (k : Int)⟩ (t.drop k) := by
  have : It.At ⟨bs, off⟩ (t.take k ++ t.drop k) := by rw [List.take_append_drop]; exact h
  exact It.At.advance this _ (by rw [List.length_take]; omega)

theorem nextByte_inv {bs : Bytes} {off : Int} {t : Bytes} (hat : It.At ⟨bs, off⟩ t) {v : Nat} {i' : It}
    (h : It.nextByte ⟨bs, off⟩ = .ok (v, i')) : 1 ≤ t.length ∧ v = t.getD 0 0 ∧ i' = ⟨bs, off + 1⟩ := by
  obtain ⟨pre, hb, ho⟩ := hat
  simp only at hb ho
  unfold It.nextByte at h
  simp only at h
  split at h
  · cases h
  rename_i h1
  split at h
  · cases h
  simp only [Res.ok.injEq, Prod.mk.injEq] at h
  have hl : bs.length = pre.length + t.length := by rw [hb, List.length_append]
  refine ⟨by omega, ?_, h.2.symm⟩
  rw [← h.1]
  have : off.toNat = pre.length := by omega
  rw [this, hb, List.getD_eq_getElem?_getD, List.getD_eq_getElem?_getD, List.getElem?_append_right (Nat.le_refl _)]
  simp

theorem nextBytes_inv {bs : Bytes} {off : Int} {t : Bytes} (hat : It.At ⟨bs, off⟩ t) (n : Nat) {v : Bytes} {i' : It}
    (h : It.nextBytes (n : Int) ⟨bs, off⟩ = .ok (v, i')) : n ≤ t.length ∧ v = t.take n ∧ i' = ⟨bs, off + (n : Int)⟩ := by
  obtain ⟨pre, hb, ho⟩ := hat
  simp only at hb ho
  unfold It.nextBytes at h
  simp only at h
  split at h
  · cases h
  rename_i h1
  split at h
  · cases h
  simp only [Res.ok.injEq, Prod.mk.injEq] at h
  have hl : bs.length = pre.length + t.length := by rw [hb, List.length_append]
  refine ⟨by omega, ?_, h.2.symm⟩
  rw [← h.1]
  have : off.toNat = pre.length := by omega
  rw [this, hb, Int.toNat_natCast, List.drop_left]

/-- an optional fixed-size read -/
theorem optRead_inv {α} {bs : Bytes} {off : Int} {t : Bytes} (hat : It.At ⟨bs, off⟩ t) (c : Prop) [Decidable c] (k : Nat)
    (g : Bytes → α) (d : α) {v : α} {i' : It}
    (h : (if c then (do let s ← It.nextBytes (k : Int); pure (g s)) else pure d : P α) ⟨bs, off⟩ = .ok (v, i')) :
    (if c then k else 0) ≤ t.length ∧ v = (if c then g (t.take k) else d) ∧ i' = ⟨bs, off + ((if c then k else 0 : Nat) : Int)⟩ := by
  by_cases hc : c
  · simp only [hc, if_true] at h ⊢
    obtain ⟨s, i1, h1, h2⟩ := bind_ok_inv h
    obtain ⟨a1, a2, a3⟩ := nextBytes_inv hat k h1
    obtain ⟨b1, b2⟩ := pure_ok_inv h2
    subst a2 a3
    exact ⟨a1, b1, b2⟩
  · simp only [hc, if_false] at h ⊢
    obtain ⟨b1, b2⟩ := pure_ok_inv h
    refine ⟨Nat.zero_le _, b1, ?_⟩
    rw [b2]; simp

/-! ### adaptation field extension -/

def extK (t : Bytes) : Nat :=
  if t.getD 0 0 = 0 then 1
  else 2 + (if t.getD 1 0 / 128 % 2 = 1 then 2 else 0) + (if t.getD 1 0 / 64 % 2 = 1 then 3 else 0)
    + (if t.getD 1 0 / 32 % 2 = 1 then 5 else 0)

/-- tails inside the extension: after the flags, after the legal time window, after the piecewise rate -/
def extU (t : Bytes) : Bytes := t.drop 2
def extU1 (t : Bytes) : Bytes := (extU t).drop (if t.getD 1 0 / 128 % 2 = 1 then 2 else 0)
def extU2 (t : Bytes) : Bytes := (extU1 t).drop (if t.getD 1 0 / 64 % 2 = 1 then 3 else 0)

/-- the extension the parser returns when it stands in front of `t` -/
def extOf (t : Bytes) : PacketAdaptationExtensionField :=
  if t.getD 0 0 = 0 then { length := ((t.getD 0 0 : Nat) : Int) }
  else
    { dtsNextAccessUnit := if t.getD 1 0 / 32 % 2 = 1 then some (ptsOfBytes ((extU2 t).take 5)) else none
      hasLegalTimeWindow := t.getD 1 0 / 128 % 2 = 1
      hasPiecewiseRate := t.getD 1 0 / 64 % 2 = 1
      hasSeamlessSplice := t.getD 1 0 / 32 % 2 = 1
      legalTimeWindowIsValid := if t.getD 1 0 / 128 % 2 = 1 then decide (((extU t).take 2).getD 0 0 / 128 % 2 = 1) else false
      legalTimeWindowOffset := if t.getD 1 0 / 128 % 2 = 1 then (((extU t).take 2).getD 0 0 % 128) * 256 + ((extU t).take 2).getD 1 0 else 0
      length := ((t.getD 0 0 : Nat) : Int)
      piecewiseRate := if t.getD 1 0 / 64 % 2 = 1 then
          (((extU1 t).take 3).getD 0 0 % 64) * 65536 + ((extU1 t).take 3).getD 1 0 * 256 + ((extU1 t).take 3).getD 2 0 else 0
      spliceType := if t.getD 1 0 / 32 % 2 = 1 then (extU2 t).getD 0 0 / 16 % 16 else 0 }

theorem ss_inv {bs : Bytes} {off : Int} {t : Bytes} (hat : It.At ⟨bs, off⟩ t) (c : Prop) [Decidable c]
    {v : Nat × Option ClockReference} {i' : It}
    (h : (if c then do
        let b ← It.nextByte
        It.skip (-1)
        let d ← parsePTSOrDTS
        pure (b / 16 % 16, some d)
      else pure (0, none) : P (Nat × Option ClockReference)) ⟨bs, off⟩ = .ok (v, i')) :
    (if c then 5 else 0) ≤ t.length ∧ v = (if c then (t.getD 0 0 / 16 % 16, some (ptsOfBytes (t.take 5))) else (0, none))
      ∧ i' = ⟨bs, off + ((if c then 5 else 0 : Nat) : Int)⟩ := by
  by_cases hc : c
  · simp only [hc, if_true] at h ⊢
    obtain ⟨b, i1, h1, h2⟩ := bind_ok_inv h
    obtain ⟨a1, a2, a3⟩ := nextByte_inv hat h1
    subst a2 a3
    obtain ⟨u, i2, h3, h4⟩ := bind_ok_inv h2
    have : i2 = ⟨bs, off⟩ := by
      simp only [It.skip, Res.ok.injEq, Prod.mk.injEq] at h3
      rw [← h3.2]
      simp only [It.mk.injEq, true_and]
      omega
    subst this
    obtain ⟨d, i3, h5, h6⟩ := bind_ok_inv h4
    unfold parsePTSOrDTS at h5
    obtain ⟨s, i4, h7, h8⟩ := bind_ok_inv h5
    obtain ⟨c1, c2, c3⟩ := nextBytes_inv hat 5 h7
    subst c2 c3
    obtain ⟨e1, e2⟩ := pure_ok_inv h8
    obtain ⟨f1, f2⟩ := pure_ok_inv h6
    subst e1 e2
    exact ⟨c1, f1, f2⟩
  · simp only [hc, if_false] at h ⊢
    obtain ⟨b1, b2⟩ := pure_ok_inv h
    refine ⟨Nat.zero_le _, b1, ?_⟩
    rw [b2]; simp

theorem parseAFExtension_inv {bs : Bytes} {off : Int} {t : Bytes} (hat : It.At ⟨bs, off⟩ t)
    {e : PacketAdaptationExtensionField} {i' : It} (h : parseAFExtension ⟨bs, off⟩ = .ok (e, i')) :
    extK t ≤ t.length ∧ e = extOf t ∧ i' = ⟨bs, off + (extK t : Int)⟩ := by
  unfold parseAFExtension at h
  obtain ⟨b, i1, h1, h2⟩ := bind_ok_inv h
  obtain ⟨a1, a2, a3⟩ := nextByte_inv hat h1
  subst a2 a3
  have at1 := At_drop hat 1 a1
  simp only at h2
  by_cases h0 : t.getD 0 0 = 0
  · rw [if_neg (by omega)] at h2
    obtain ⟨b1, b2⟩ := pure_ok_inv h2
    unfold extK extOf
    simp only [h0, if_true]
    refine ⟨a1, ?_, ?_⟩
    · rw [b1, h0]
    · rw [b2]; rfl
  · rw [if_pos (by omega)] at h2
    obtain ⟨eb, i2, h3, h4⟩ := bind_ok_inv h2
    obtain ⟨c1, c2, c3⟩ := nextByte_inv at1 h3
    have heb : eb = t.getD 1 0 := by rw [c2]; simp
    subst c3
    have at2 : It.At ⟨bs, off + ((2 : Nat) : Int)⟩ (extU t) := by
      have := At_drop hat 2 (by rw [List.length_drop] at c1; omega)
      exact this
    have eo : off + ((1 : Nat) : Int) + 1 = off + ((2 : Nat) : Int) := by omega
    rw [eo] at h4
    rw [heb] at h4
    obtain ⟨v1, i3, h5, h6⟩ := bind_ok_inv h4
    obtain ⟨d1, d2, d3⟩ := optRead_inv at2 (t.getD 1 0 / 128 % 2 = 1) 2 _ _ h5
    subst d3
    have at3 : It.At ⟨bs, off + ((2 : Nat) : Int) + ((if t.getD 1 0 / 128 % 2 = 1 then 2 else 0 : Nat) : Int)⟩ (extU1 t) :=
      At_drop at2 _ d1
    obtain ⟨v2, i4, h7, h8⟩ := bind_ok_inv h6
    obtain ⟨e1, e2, e3⟩ := optRead_inv at3 (t.getD 1 0 / 64 % 2 = 1) 3 _ _ h7
    subst e3
    have at4 := At_drop at3 _ e1
    obtain ⟨v3, i5, h9, h10⟩ := bind_ok_inv h8
    obtain ⟨f1, f2, f3⟩ := ss_inv (t := extU2 t) at4 (t.getD 1 0 / 32 % 2 = 1) h9
    subst f3
    obtain ⟨g1, g2⟩ := pure_ok_inv h10
    have hlen : (extU t).length = t.length - 2 := by unfold extU; rw [List.length_drop]
    have hlen1 : (extU1 t).length = (extU t).length - (if t.getD 1 0 / 128 % 2 = 1 then 2 else 0) := by
      unfold extU1; rw [List.length_drop]
    have hlen2 : (extU2 t).length = (extU1 t).length - (if t.getD 1 0 / 64 % 2 = 1 then 3 else 0) := by
      unfold extU2; rw [List.length_drop]
    have hk : extK t = 2 + (if t.getD 1 0 / 128 % 2 = 1 then 2 else 0) + (if t.getD 1 0 / 64 % 2 = 1 then 3 else 0)
        + (if t.getD 1 0 / 32 % 2 = 1 then 5 else 0) := by unfold extK; rw [if_neg h0]
    have hbound : extK t ≤ t.length := by
      rw [List.length_drop] at c1
      clear d2 e2 f2 g1 g2 h4 h5 h6 h7 h8 h9 h10 at2 at3 at4
      generalize (if t.getD 1 0 / 128 % 2 = 1 then 2 else 0 : Nat) = A at *
      generalize (if t.getD 1 0 / 64 % 2 = 1 then 3 else 0 : Nat) = B at *
      generalize (if t.getD 1 0 / 32 % 2 = 1 then 5 else 0 : Nat) = C at *
      omega
    refine ⟨hbound, ?_, ?_⟩
    · rw [g1, d2, e2, f2]
      unfold extOf
      rw [if_neg h0]
      by_cases q1 : t.getD 1 0 / 128 % 2 = 1 <;> by_cases q2 : t.getD 1 0 / 64 % 2 = 1 <;> by_cases q3 : t.getD 1 0 / 32 % 2 = 1 <;>
        simp only [q1, q2, q3, if_true, if_false, decide_true, decide_false]
    · rw [g2, hk]
      simp only [It.mk.injEq, true_and]
      omega

/-! ### adaptation field (adaptation_field_length > 0): `f` = flags byte, `r` = the bytes after it -/

def k1 (f : Nat) : Nat := if f / 16 % 2 = 1 then 6 else 0
def k2 (f : Nat) : Nat := if f / 8 % 2 = 1 then 6 else 0
def k3 (f : Nat) : Nat := if f / 4 % 2 = 1 then 1 else 0
def t1 (f : Nat) (r : Bytes) : Bytes := r.drop (k1 f)
def t2 (f : Nat) (r : Bytes) : Bytes := (t1 f r).drop (k2 f)
def t3 (f : Nat) (r : Bytes) : Bytes := (t2 f r).drop (k3 f)
def k4 (f : Nat) (r : Bytes) : Nat := if f / 2 % 2 = 1 then 1 + (t3 f r).getD 0 0 else 0
def t4 (f : Nat) (r : Bytes) : Bytes := (t3 f r).drop (k4 f r)
def k5 (f : Nat) (r : Bytes) : Nat := if f % 2 = 1 then extK (t4 f r) else 0
def t5 (f : Nat) (r : Bytes) : Bytes := (t4 f r).drop (k5 f r)

/-- bytes of the adaptation field the parser reads after adaptation_field_length: flags byte + optional parts -/
def consumed (f : Nat) (r : Bytes) : Nat := 1 + k1 f + k2 f + k3 f + k4 f r + k5 f r

/-- the adaptation field the parser returns for length byte `L > 0`, flags `f`, then `r` -/
def afOf (L f : Nat) (r : Bytes) : PacketAdaptationField :=
  { adaptationExtensionField := if f % 2 = 1 then some (extOf (t4 f r)) else none
    opcr := if f / 8 % 2 = 1 then some (pcrOfBytes ((t1 f r).take 6)) else none
    pcr := if f / 16 % 2 = 1 then some (pcrOfBytes (r.take 6)) else none
    transportPrivateData := if f / 2 % 2 = 1 then ((t3 f r).drop 1).take ((t3 f r).getD 0 0) else []
    transportPrivateDataLength := if f / 2 % 2 = 1 then (((t3 f r).getD 0 0 : Nat) : Int) else 0
    length := (L : Int)
    stuffingLength := (L : Int) - (consumed f r : Int)
    spliceCountdown := if f / 4 % 2 = 1 then (((t2 f r).getD 0 0 : Nat) : Int) else 0
    isOneByteStuffing := false
    randomAccessIndicator := f / 64 % 2 = 1
    discontinuityIndicator := f / 128 % 2 = 1
    elementaryStreamPriorityIndicator := f / 32 % 2 = 1
    hasAdaptationExtensionField := f % 2 = 1
    hasOPCR := f / 8 % 2 = 1
    hasPCR := f / 16 % 2 = 1
    hasTransportPrivateData := f / 2 % 2 = 1
    hasSplicingCountdown := f / 4 % 2 = 1 }

/-- the one-byte adaptation field (adaptation_field_length = 0) as the parser returns it -/
def afOne : PacketAdaptationField := { length := 0, stuffingLength := 0, isOneByteStuffing := true }

theorem pcrSeg_inv {bs : Bytes} {off : Int} {t : Bytes} (hat : It.At ⟨bs, off⟩ t) (c : Prop) [Decidable c]
    {v : Option ClockReference} {i' : It}
    (h : (if c then do let x ← parsePCR; pure (some x) else pure none : P (Option ClockReference)) ⟨bs, off⟩ = .ok (v, i')) :
    (if c then 6 else 0) ≤ t.length ∧ v = (if c then some (pcrOfBytes (t.take 6)) else none)
      ∧ i' = ⟨bs, off + ((if c then 6 else 0 : Nat) : Int)⟩ := by
  by_cases hc : c
  · simp only [hc, if_true] at h ⊢
    obtain ⟨x, i1, h1, h2⟩ := bind_ok_inv h
    unfold parsePCR at h1
    obtain ⟨s, i2, h3, h4⟩ := bind_ok_inv h1
    obtain ⟨a1, a2, a3⟩ := nextBytes_inv hat 6 h3
    obtain ⟨b1, b2⟩ := pure_ok_inv h4
    obtain ⟨c1, c2⟩ := pure_ok_inv h2
    subst a2 a3 b1 b2
    exact ⟨a1, c1, c2⟩
  · simp only [hc, if_false] at h ⊢
    obtain ⟨b1, b2⟩ := pure_ok_inv h
    refine ⟨Nat.zero_le _, b1, ?_⟩
    rw [b2]; simp

theorem spliceSeg_inv {bs : Bytes} {off : Int} {t : Bytes} (hat : It.At ⟨bs, off⟩ t) (c : Prop) [Decidable c]
    {v : Int} {i' : It}
    (h : (if c then do let b ← It.nextByte; pure (b : Int) else pure 0 : P Int) ⟨bs, off⟩ = .ok (v, i')) :
    (if c then 1 else 0) ≤ t.length ∧ v = (if c then ((t.getD 0 0 : Nat) : Int) else 0)
      ∧ i' = ⟨bs, off + ((if c then 1 else 0 : Nat) : Int)⟩ := by
  by_cases hc : c
  · simp only [hc, if_true] at h ⊢
    obtain ⟨x, i1, h1, h2⟩ := bind_ok_inv h
    obtain ⟨a1, a2, a3⟩ := nextByte_inv hat h1
    obtain ⟨c1, c2⟩ := pure_ok_inv h2
    subst a2 a3
    exact ⟨a1, c1, c2⟩
  · simp only [hc, if_false] at h ⊢
    obtain ⟨b1, b2⟩ := pure_ok_inv h
    refine ⟨Nat.zero_le _, b1, ?_⟩
    rw [b2]; simp

theorem privSeg_inv {bs : Bytes} {off : Int} {t : Bytes} (hat : It.At ⟨bs, off⟩ t) (c : Prop) [Decidable c]
    {v : Int × Bytes} {i' : It}
    (h : (if c then do
        let l ← It.nextByte
        if l > 0 then do
          let d ← It.nextBytes l
          pure ((l : Int), d)
        else pure ((l : Int), [])
      else pure (0, []) : P (Int × Bytes)) ⟨bs, off⟩ = .ok (v, i')) :
    (if c then 1 + t.getD 0 0 else 0) ≤ t.length
      ∧ v = (if c then (((t.getD 0 0 : Nat) : Int), (t.drop 1).take (t.getD 0 0)) else (0, []))
      ∧ i' = ⟨bs, off + ((if c then 1 + t.getD 0 0 else 0 : Nat) : Int)⟩ := by
  by_cases hc : c
  · simp only [hc, if_true] at h ⊢
    obtain ⟨x, i1, h1, h2⟩ := bind_ok_inv h
    obtain ⟨a1, a2, a3⟩ := nextByte_inv hat h1
    subst a2 a3
    have at1 := At_drop hat 1 a1
    by_cases hl : t.getD 0 0 > 0
    · rw [if_pos hl] at h2
      obtain ⟨d, i2, h3, h4⟩ := bind_ok_inv h2
      obtain ⟨b1, b2, b3⟩ := nextBytes_inv at1 _ h3
      obtain ⟨c1, c2⟩ := pure_ok_inv h4
      subst b2 b3
      rw [List.length_drop] at b1
      refine ⟨by omega, c1, ?_⟩
      rw [c2]
      simp only [It.mk.injEq, true_and]
      omega
    · rw [if_neg hl] at h2
      obtain ⟨c1, c2⟩ := pure_ok_inv h2
      have h0 : t.getD 0 0 = 0 := by omega
      refine ⟨by omega, ?_, ?_⟩
      · rw [c1, h0]; rfl
      · rw [c2, h0]; rfl
  · simp only [hc, if_false] at h ⊢
    obtain ⟨b1, b2⟩ := pure_ok_inv h
    refine ⟨Nat.zero_le _, b1, ?_⟩
    rw [b2]; simp

theorem extSeg_inv {bs : Bytes} {off : Int} {t : Bytes} (hat : It.At ⟨bs, off⟩ t) (c : Prop) [Decidable c]
    {v : Option PacketAdaptationExtensionField} {i' : It}
    (h : (if c then do let e ← parseAFExtension; pure (some e) else pure none : P (Option PacketAdaptationExtensionField))
      ⟨bs, off⟩ = .ok (v, i')) :
    (if c then extK t else 0) ≤ t.length ∧ v = (if c then some (extOf t) else none)
      ∧ i' = ⟨bs, off + ((if c then extK t else 0 : Nat) : Int)⟩ := by
  by_cases hc : c
  · simp only [hc, if_true] at h ⊢
    obtain ⟨x, i1, h1, h2⟩ := bind_ok_inv h
    obtain ⟨a1, a2, a3⟩ := parseAFExtension_inv hat h1
    obtain ⟨c1, c2⟩ := pure_ok_inv h2
    subst a2 a3
    exact ⟨a1, c1, c2⟩
  · simp only [hc, if_false] at h ⊢
    obtain ⟨b1, b2⟩ := pure_ok_inv h
    refine ⟨Nat.zero_le _, b1, ?_⟩
    rw [b2]; simp

/-- **adaptation field**: in front of `L :: rest` the parser returns the one-byte form when `L = 0`, and otherwise
`afOf L f r` (with `rest = f :: r`), having read `consumed f r ≤ 1 + r.length` bytes after the length byte -/
theorem parseAF_inv {bs : Bytes} {off : Int} {L : Nat} {rest : Bytes} (hat : It.At ⟨bs, off⟩ (L :: rest))
    {a : PacketAdaptationField} {i' : It} (h : parsePacketAdaptationField ⟨bs, off⟩ = .ok (a, i')) :
    i'.bs = bs ∧
    if L = 0 then a = afOne
    else 1 ≤ rest.length ∧ consumed (rest.getD 0 0) (rest.drop 1) ≤ rest.length
      ∧ a = afOf L (rest.getD 0 0) (rest.drop 1) := by
  unfold parsePacketAdaptationField at h
  obtain ⟨b, i1, h1, h2⟩ := bind_ok_inv h
  obtain ⟨a1, a2, a3⟩ := nextByte_inv hat h1
  simp only [List.getD_cons_zero] at a2
  subst a2 a3
  have at1 : It.At ⟨bs, off + 1⟩ rest := by
    have := At_drop hat 1 a1
    simpa using this
  obtain ⟨o, i2, h3, h4⟩ := bind_ok_inv h2
  have ho : o = off + 1 ∧ i2 = ⟨bs, off + 1⟩ := by
    simp only [It.offset, Res.ok.injEq, Prod.mk.injEq] at h3
    exact ⟨h3.1.symm, h3.2.symm⟩
  obtain ⟨ho1, ho2⟩ := ho
  subst ho1 ho2
  by_cases h0 : b = 0
  · rw [if_pos h0]
    rw [if_neg (by omega)] at h4
    obtain ⟨o', i3, h5, h6⟩ := bind_ok_inv h4
    have ho : o' = off + 1 ∧ i3 = ⟨bs, off + 1⟩ := by
      simp only [It.offset, Res.ok.injEq, Prod.mk.injEq] at h5
      exact ⟨h5.1.symm, h5.2.symm⟩
    obtain ⟨ho1, ho2⟩ := ho
    subst ho1 ho2
    obtain ⟨c1, c2⟩ := pure_ok_inv h6
    refine ⟨by rw [c2], ?_⟩
    rw [c1, h0]
    unfold afOne
    congr 1
    omega
  · rw [if_neg h0]
    rw [if_pos (by omega)] at h4
    obtain ⟨f, i3, h5, h6⟩ := bind_ok_inv h4
    obtain ⟨b1, b2, b3⟩ := nextByte_inv at1 h5
    subst b2 b3
    have at2 : It.At ⟨bs, off + 1 + 1⟩ (rest.drop 1) := by
      have := At_drop at1 1 b1
      simpa using this
    generalize hf : rest.getD 0 0 = f at *
    generalize hr : rest.drop 1 = r at *
    have hrl : r.length = rest.length - 1 := by rw [← hr, List.length_drop]
    simp only at h6
    obtain ⟨v1, j1, g1, h7⟩ := bind_ok_inv h6
    obtain ⟨p1, p2, p3⟩ := pcrSeg_inv at2 (f / 16 % 2 = 1) g1
    subst p3
    have at3 : It.At ⟨bs, off + 1 + 1 + (k1 f : Int)⟩ (t1 f r) := At_drop at2 _ p1
    obtain ⟨v2, j2, g2, h8⟩ := bind_ok_inv h7
    obtain ⟨q1, q2, q3⟩ := pcrSeg_inv at3 (f / 8 % 2 = 1) g2
    subst q3
    have at4 : It.At ⟨bs, off + 1 + 1 + (k1 f : Int) + (k2 f : Int)⟩ (t2 f r) := At_drop at3 _ q1
    obtain ⟨v3, j3, g3, h9⟩ := bind_ok_inv h8
    obtain ⟨r1, r2, r3⟩ := spliceSeg_inv at4 (f / 4 % 2 = 1) g3
    subst r3
    have at5 : It.At ⟨bs, off + 1 + 1 + (k1 f : Int) + (k2 f : Int) + (k3 f : Int)⟩ (t3 f r) := At_drop at4 _ r1
    obtain ⟨v4, j4, g4, h10⟩ := bind_ok_inv h9
    obtain ⟨s1, s2, s3⟩ := privSeg_inv at5 (f / 2 % 2 = 1) g4
    subst s3
    have at6 : It.At ⟨bs, off + 1 + 1 + (k1 f : Int) + (k2 f : Int) + (k3 f : Int) + (k4 f r : Int)⟩ (t4 f r) := At_drop at5 _ s1
    obtain ⟨v5, j5, g5, h11⟩ := bind_ok_inv h10
    obtain ⟨u1, u2, u3⟩ := extSeg_inv at6 (f % 2 = 1) g5
    subst u3
    obtain ⟨o2, j6, g6, h12⟩ := bind_ok_inv h11
    have ho : o2 = off + 1 + 1 + (k1 f : Int) + (k2 f : Int) + (k3 f : Int) + (k4 f r : Int) + (k5 f r : Int) := by
      simp only [It.offset, Res.ok.injEq, Prod.mk.injEq] at g6
      exact g6.1.symm
    have hj6 : j6.bs = bs := by
      simp only [It.offset, Res.ok.injEq, Prod.mk.injEq] at g6
      rw [← g6.2]
    obtain ⟨w1, w2⟩ := pure_ok_inv h12
    have hl1 : (t1 f r).length = r.length - k1 f := by unfold t1; rw [List.length_drop]
    have hl2 : (t2 f r).length = (t1 f r).length - k2 f := by unfold t2; rw [List.length_drop]
    have hl3 : (t3 f r).length = (t2 f r).length - k3 f := by unfold t3; rw [List.length_drop]
    have hl4 : (t4 f r).length = (t3 f r).length - k4 f r := by unfold t4; rw [List.length_drop]
    have hc : consumed f r ≤ rest.length := by
      have p1' : k1 f ≤ r.length := p1
      have q1' : k2 f ≤ (t1 f r).length := q1
      have r1' : k3 f ≤ (t2 f r).length := r1
      have s1' : k4 f r ≤ (t3 f r).length := s1
      have u1' : k5 f r ≤ (t4 f r).length := u1
      unfold consumed
      omega
    refine ⟨by rw [w2]; exact hj6, b1, hc, ?_⟩
    rw [w1, p2, q2, r2, s2, u2, ho]
    unfold afOf
    have e : (b : Int) - (off + 1 + 1 + (k1 f : Int) + (k2 f : Int) + (k3 f : Int) + (k4 f r : Int) + (k5 f r : Int) - (off + 1))
        = (b : Int) - (consumed f r : Int) := by
      unfold consumed; omega
    rw [e]
    by_cases z1 : f / 2 % 2 = 1 <;> by_cases z2 : f / 4 % 2 = 1 <;>
      simp only [z1, z2, if_true, if_false, decide_true, decide_false]

/-! ### the whole packet -/

/-- the packet `parsePacket` returns for a 188-byte slice, as a plain function of the bytes -/
def pktOf (bs : Bytes) : Packet :=
  { adaptationField :=
      if (headerOfBytes (bs.getD 1 0) (bs.getD 2 0) (bs.getD 3 0)).hasAdaptationField then
        some (if bs.getD 4 0 = 0 then afOne else afOf (bs.getD 4 0) (bs.getD 5 0) (bs.drop 6))
      else none
    header := headerOfBytes (bs.getD 1 0) (bs.getD 2 0) (bs.getD 3 0)
    payload :=
      if (headerOfBytes (bs.getD 1 0) (bs.getD 2 0) (bs.getD 3 0)).hasPayload then
        bs.drop (if (headerOfBytes (bs.getD 1 0) (bs.getD 2 0) (bs.getD 3 0)).hasAdaptationField then 5 + bs.getD 4 0 else 4)
      else [] }

/-- what a successful parse implies about the bytes: sync byte, and the optional parts of a non-empty adaptation field lie
inside the 188 bytes (NOT necessarily inside the adaptation field: the parser never compares with adaptation_field_length) -/
def InRange (bs : Bytes) : Prop :=
  bs.getD 0 0 = syncByte ∧
  ((headerOfBytes (bs.getD 1 0) (bs.getD 2 0) (bs.getD 3 0)).hasAdaptationField = true → bs.getD 4 0 ≠ 0 →
    consumed (bs.getD 5 0) (bs.drop 6) ≤ 183)

theorem drop_eq_cons (l : Bytes) (n : Nat) (h : n < l.length) : l.drop n = l.getD n 0 :: l.drop (n + 1) := by
  rw [List.drop_eq_getElem_cons h, List.getD_eq_getElem?_getD, List.getElem?_eq_getElem h]
  rfl

theorem dump_inv {bs : Bytes} {off : Int} (ho : 0 ≤ off) {v : Bytes} {i' : It} (h : It.dump ⟨bs, off⟩ = .ok (v, i')) :
    v = bs.drop off.toNat := by
  unfold It.dump at h
  simp only at h
  split at h
  · rename_i h1
    simp only [Res.ok.injEq, Prod.mk.injEq] at h
    rw [← h.1, List.drop_eq_nil_of_le (by omega)]
  · split at h
    · cases h
    · simp only [Res.ok.injEq, Prod.mk.injEq] at h
      exact h.1.symm

theorem val_ok_inv {α} {x : P α} {bs : Bytes} {a : α} (h : x.val bs = .ok a) : ∃ i', x ⟨bs, 0⟩ = .ok (a, i') := by
  unfold P.val at h
  cases e : x ⟨bs, 0⟩ with
  | ok v => obtain ⟨a', i'⟩ := v; rw [e] at h; simp only [Res.ok.injEq] at h; exact ⟨i', by rw [h]⟩
  | err _ => rw [e] at h; cases h
  | panic => rw [e] at h; cases h

/-- **the parser is `pktOf`**: a successful parse of 188 bytes returns `pktOf bs`, and the bytes are `InRange` -/
theorem parsePacket_inv (bs : Bytes) (hl : bs.length = 188) {p : Packet} (h : (parsePacket none).val bs = .ok p) :
    p = pktOf bs ∧ InRange bs := by
  obtain ⟨i', h⟩ := val_ok_inv h
  unfold parsePacket at h
  have at0 : It.At ⟨bs, 0⟩ bs := ⟨[], rfl, rfl⟩
  obtain ⟨b, i1, h1, h2⟩ := bind_ok_inv h
  obtain ⟨a1, a2, a3⟩ := nextByte_inv at0 h1
  subst a2 a3
  by_cases hs : bs.getD 0 0 ≠ syncByte
  · rw [if_pos hs] at h2; cases h2
  rw [if_neg hs] at h2
  have hsync : bs.getD 0 0 = syncByte := by simpa using hs
  obtain ⟨l, i2, h3, h4⟩ := bind_ok_inv h2
  have e3 : l = 188 ∧ i2 = ⟨bs, 0 + 1⟩ := by
    simp only [It.len, Res.ok.injEq, Prod.mk.injEq] at h3
    refine ⟨?_, h3.2.symm⟩
    rw [← h3.1, hl]; rfl
  obtain ⟨e31, e32⟩ := e3
  subst e31 e32
  obtain ⟨u, i3, h5, h6⟩ := bind_ok_inv h4
  have e5 : i3 = ⟨bs, 1⟩ := by
    simp only [It.seek, mpegTsPacketSize, Res.ok.injEq, Prod.mk.injEq] at h5
    rw [← h5.2]; rfl
  subst e5
  obtain ⟨os, i4, h7, h8⟩ := bind_ok_inv h6
  have e7 : os = 1 ∧ i4 = ⟨bs, 1⟩ := by
    simp only [It.offset, Res.ok.injEq, Prod.mk.injEq] at h7
    exact ⟨h7.1.symm, h7.2.symm⟩
  obtain ⟨e71, e72⟩ := e7
  subst e71 e72
  have at1 : It.At ⟨bs, 1⟩ (bs.drop 1) := by
    have := At_drop at0 1 (by omega)
    simpa using this
  obtain ⟨hd, i5, h9, h10⟩ := bind_ok_inv h8
  unfold parsePacketHeader at h9
  obtain ⟨s, i6, h11, h12⟩ := bind_ok_inv h9
  obtain ⟨c1, c2, c3⟩ := nextBytes_inv at1 3 h11
  obtain ⟨d1, d2⟩ := pure_ok_inv h12
  subst c2 c3 d2
  have g0 : ((bs.drop 1).take 3).getD 0 0 = bs.getD 1 0 := by
    rw [drop_eq_cons bs 1 (by omega)]; rfl
  have g1 : ((bs.drop 1).take 3).getD 1 0 = bs.getD 2 0 := by
    rw [drop_eq_cons bs 1 (by omega), drop_eq_cons bs 2 (by omega)]; rfl
  have g2 : ((bs.drop 1).take 3).getD 2 0 = bs.getD 3 0 := by
    rw [drop_eq_cons bs 1 (by omega), drop_eq_cons bs 2 (by omega), drop_eq_cons bs 3 (by omega)]; rfl
  rw [g0, g1, g2] at d1
  subst d1
  unfold pktOf InRange
  generalize hH : headerOfBytes (bs.getD 1 0) (bs.getD 2 0) (bs.getD 3 0) = H at *
  have at4 : It.At ⟨bs, 1 + ((3 : Nat) : Int)⟩ (bs.getD 4 0 :: bs.drop 5) := by
    have := At_drop at0 4 (by omega)
    rw [drop_eq_cons bs 4 (by omega)] at this
    simpa using this
  obtain ⟨af, i7, h13, h14⟩ := bind_ok_inv h10
  simp only [Bool.false_eq_true, if_false] at h14
  have hpay : ∀ {i : It} {r : Packet × It},
      (if H.hasPayload = true then (do
          It.seek (payloadOffset 1 H af)
          let pl ← It.dump
          pure { adaptationField := af, header := H, payload := pl })
        else pure { adaptationField := af, header := H, payload := [] } : P Packet) i = .ok r →
      0 ≤ payloadOffset 1 H af → i.bs = bs →
      r.1 = { adaptationField := af, header := H,
              payload := if H.hasPayload = true then bs.drop (payloadOffset 1 H af).toNat else [] } := by
    intro i r hr hpo hib
    by_cases hp : H.hasPayload = true
    · rw [if_pos hp] at hr ⊢
      obtain ⟨u1, j1, q1, q2⟩ := bind_ok_inv hr
      have : j1 = ⟨bs, payloadOffset 1 H af⟩ := by
        simp only [It.seek, Res.ok.injEq, Prod.mk.injEq] at q1
        rw [← q1.2, hib]
      subst this
      obtain ⟨pl, j2, q3, q4⟩ := bind_ok_inv q2
      have := dump_inv hpo q3
      obtain ⟨r1, r2⟩ := r
      obtain ⟨q5, _⟩ := pure_ok_inv q4
      simp only
      rw [q5, this]
    · rw [if_neg hp] at hr ⊢
      obtain ⟨r1, r2⟩ := r
      obtain ⟨q5, _⟩ := pure_ok_inv hr
      exact q5
  by_cases haf : H.hasAdaptationField = true
  · rw [if_pos haf] at h13
    obtain ⟨a, i8, h15, h16⟩ := bind_ok_inv h13
    obtain ⟨e1, e2⟩ := pure_ok_inv h16
    have hinv := parseAF_inv at4 h15
    have g5 : (bs.drop 5).getD 0 0 = bs.getD 5 0 := by rw [drop_eq_cons bs 5 (by omega)]; rfl
    have g6 : (bs.drop 5).drop 1 = bs.drop 6 := by rw [List.drop_drop]
    obtain ⟨hib8, hinv⟩ := hinv
    have hib : i7.bs = bs := by rw [e2]; exact hib8
    have hlen5 : (bs.drop 5).length = 183 := by rw [List.length_drop]; omega
    have hpo : payloadOffset 1 H af = ((5 + bs.getD 4 0 : Nat) : Int) := by
      unfold payloadOffset
      rw [e1]
      simp only [haf, if_true]
      by_cases hL : bs.getD 4 0 = 0
      · rw [if_pos hL] at hinv
        rw [hinv, hL]; rfl
      · rw [if_neg hL] at hinv
        rw [hinv.2.2]
        simp only [afOf]
        omega
    have := hpay h14 (by rw [hpo]; omega) hib
    simp only at this
    rw [this, hpo, Int.toNat_natCast, e1]
    simp only [haf, if_true]
    by_cases hL : bs.getD 4 0 = 0
    · rw [if_pos hL] at hinv
      simp only [hL, if_true, hinv, ne_eq, not_true, false_implies, and_true, true_implies]
      exact ⟨trivial, hsync⟩
    · rw [if_neg hL] at hinv
      obtain ⟨x1, x2, x3⟩ := hinv
      rw [g5, g6] at x2 x3
      simp only [hL, if_false, x3, true_and]
      exact ⟨hsync, fun _ _ => by omega⟩
  · rw [if_neg haf] at h13
    obtain ⟨e1, e2⟩ := pure_ok_inv h13
    have hib : i7.bs = bs := by rw [e2]
    have hpo : payloadOffset 1 H af = ((4 : Nat) : Int) := by
      unfold payloadOffset
      simp only [haf, if_false]
      rfl
    have := hpay h14 (by rw [hpo]; omega) hib
    simp only at this
    rw [this, hpo, Int.toNat_natCast, e1]
    simp only [haf, if_false, Bool.false_eq_true, false_implies, and_true, true_and]
    exact hsync

end Astits.Reemit
