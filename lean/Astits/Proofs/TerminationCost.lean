/-
C03, termination half, part 2: an explicit bound on the total number of `NextData` calls (including the calls that
only hand out buffered data).  A cost is assigned to every packet (`2 · payload length + 3`: an upper bound on the data
items a unit containing it can contribute) and to every unread byte; every `NextData` call that does not return
ErrNoMorePackets lowers the total cost.
-/
import Astits.Proofs.Termination
namespace Astits.Term

/-! ### parsers keep the byte slice they iterate over -/

theorem bind_ok_inv {α β} {x : P α} {f : α → P β} {i : It} {r : β × It} (h : (x >>= f) i = .ok r) :
    ∃ a i1, x i = .ok (a, i1) ∧ f a i1 = .ok r := by
  rw [P.bind_run] at h
  cases e : x i with
  | ok v => obtain ⟨a, i1⟩ := v; rw [e] at h; exact ⟨a, i1, rfl, h⟩
  | err _ => rw [e] at h; cases h
  | panic => rw [e] at h; cases h

/-- a successful run of `p` leaves the iterated slice as it is -/
def Keeps {α} (p : P α) : Prop := ∀ it a it', p it = .ok (a, it') → it'.bs = it.bs

theorem Keeps.bind {α β} {p : P α} {f : α → P β} (hp : Keeps p) (hf : ∀ a, Keeps (f a)) : Keeps (p >>= f) := by
  intro it b it' h
  obtain ⟨a, i1, h1, h2⟩ := bind_ok_inv h
  exact (hf a i1 b it' h2).trans (hp it a i1 h1)

theorem Keeps.pure {α} (a : α) : Keeps (pure a : P α) := by
  intro it b it' h
  cases h; rfl

theorem Keeps.fail {α} (e : Err) : Keeps (P.fail e : P α) := by
  intro it b it' h
  cases h

theorem Keeps.ite {α} {c : Prop} [Decidable c] {p q : P α} (hp : Keeps p) (hq : Keeps q) :
    Keeps (if c then p else q) := by
  split
  · exact hp
  · exact hq

theorem Keeps_nextByte : Keeps It.nextByte := by
  intro it b it' h
  unfold It.nextByte at h
  split at h
  · cases h
  · split at h
    · cases h
    · cases h; rfl

theorem Keeps_nextBytes (n : Int) : Keeps (It.nextBytes n) := by
  intro it b it' h
  unfold It.nextBytes at h
  split at h
  · cases h
  · split at h
    · cases h
    · cases h; rfl

theorem Keeps_seek (n : Int) : Keeps (It.seek n) := by intro it b it' h; cases h; rfl
theorem Keeps_skip (n : Int) : Keeps (It.skip n) := by intro it b it' h; cases h; rfl
theorem Keeps_offset : Keeps It.offset := by intro it b it' h; cases h; rfl
theorem Keeps_len : Keeps It.len := by intro it b it' h; cases h; rfl
theorem Keeps_hasBytesLeft : Keeps It.hasBytesLeft := by intro it b it' h; cases h; rfl

theorem Keeps_dump : Keeps It.dump := by
  intro it b it' h
  unfold It.dump at h
  split at h
  · cases h; rfl
  · split at h
    · cases h
    · cases h; rfl

syntax "keeps_leaf" : tactic
macro_rules | `(tactic| keeps_leaf) => `(tactic| exact Keeps_nextByte)
macro_rules | `(tactic| keeps_leaf) => `(tactic| exact Keeps_nextBytes _)
macro_rules | `(tactic| keeps_leaf) => `(tactic| exact Keeps_offset)
macro_rules | `(tactic| keeps_leaf) => `(tactic| exact Keeps_len)
macro_rules | `(tactic| keeps_leaf) => `(tactic| exact Keeps_hasBytesLeft)
macro_rules | `(tactic| keeps_leaf) => `(tactic| exact Keeps_dump)
macro_rules | `(tactic| keeps_leaf) => `(tactic| exact Keeps_skip _)
macro_rules | `(tactic| keeps_leaf) => `(tactic| exact Keeps_seek _)
macro_rules | `(tactic| keeps_leaf) => `(tactic| exact Keeps.fail _)
macro_rules | `(tactic| keeps_leaf) => `(tactic| exact Keeps.pure _)
macro_rules | `(tactic| keeps_leaf) => `(tactic| assumption)

syntax "keeps_step" : tactic
macro_rules | `(tactic| keeps_step) => `(tactic| first
  | (with_reducible keeps_leaf)
  | (with_reducible refine Keeps.bind ?_ (fun _ => ?_))
  | (with_reducible refine Keeps.ite ?_ ?_)
  | (dsimp only)
  | (split))

macro "keeps_auto" : tactic => `(tactic| repeat' keeps_step)

theorem Keeps_parsePacketHeader : Keeps parsePacketHeader := by unfold parsePacketHeader; keeps_auto
macro_rules | `(tactic| keeps_leaf) => `(tactic| exact Keeps_parsePacketHeader)
theorem Keeps_parsePCR : Keeps parsePCR := by unfold parsePCR; keeps_auto
macro_rules | `(tactic| keeps_leaf) => `(tactic| exact Keeps_parsePCR)
theorem Keeps_parsePTSOrDTS : Keeps parsePTSOrDTS := by unfold parsePTSOrDTS; keeps_auto
macro_rules | `(tactic| keeps_leaf) => `(tactic| exact Keeps_parsePTSOrDTS)
theorem Keeps_parseAFExtension : Keeps parseAFExtension := by unfold parseAFExtension; keeps_auto
macro_rules | `(tactic| keeps_leaf) => `(tactic| exact Keeps_parseAFExtension)
theorem Keeps_parsePacketAdaptationField : Keeps parsePacketAdaptationField := by
  unfold parsePacketAdaptationField; keeps_auto
macro_rules | `(tactic| keeps_leaf) => `(tactic| exact Keeps_parsePacketAdaptationField)

theorem dump_length_le (it : It) (bs : Bytes) (it' : It) (h : It.dump it = .ok (bs, it')) : bs.length ≤ it.bs.length := by
  unfold It.dump at h
  split at h
  · cases h; exact Nat.zero_le _
  · split at h
    · cases h
    · cases h
      rw [List.length_drop]; omega

/-- the payload of a parsed packet is a piece of the packet's bytes -/
theorem parsePacket_payload_le (skip : Option (Packet → Bool)) (it : It) (p : Packet) (it' : It)
    (h : parsePacket skip it = .ok (p, it')) : p.payload.length ≤ it.bs.length := by
  unfold parsePacket at h
  obtain ⟨b, i1, h1, h⟩ := bind_ok_inv h
  have e1 := Keeps_nextByte it b i1 h1
  split at h
  · cases h
  obtain ⟨l, i2, h2, h⟩ := bind_ok_inv h
  have e2 := Keeps_len i1 l i2 h2
  obtain ⟨u, i3, h3, h⟩ := bind_ok_inv h
  have e3 := Keeps_seek _ i2 u i3 h3
  obtain ⟨o, i4, h4, h⟩ := bind_ok_inv h
  have e4 := Keeps_offset i3 o i4 h4
  obtain ⟨hd, i5, h5, h⟩ := bind_ok_inv h
  have e5 := Keeps_parsePacketHeader i4 hd i5 h5
  obtain ⟨af, i6, h6, h⟩ := bind_ok_inv h
  have e6 : i6.bs = i5.bs := by
    have : Keeps (if hd.hasAdaptationField = true then (do let a ← parsePacketAdaptationField; pure (some a))
        else (pure none : P (Option PacketAdaptationField))) := by keeps_auto
    exact this i5 af i6 h6
  have hcore : ∀ (c : Bool), (if c = true then (P.fail .skipped : P Packet)
      else if hd.hasPayload = true then (do
        It.seek (payloadOffset o hd af)
        let pl ← It.dump
        return { adaptationField := af, header := hd, payload := pl })
      else return { adaptationField := af, header := hd, payload := [] }) i6 = .ok (p, it') →
      p.payload.length ≤ it.bs.length := by
    intro c h
    split at h
    · cases h
    · split at h
      · obtain ⟨u2, i7, h7, h⟩ := bind_ok_inv h
        have e7 := Keeps_seek _ i6 u2 i7 h7
        obtain ⟨pl, i8, h8, h⟩ := bind_ok_inv h
        have hl := dump_length_le i7 pl i8 h8
        cases h
        dsimp only
        rw [e7, e6, e5, e4, e3, e2, e1] at hl
        exact hl
      · cases h
        exact Nat.zero_le _
  exact hcore _ h

theorem parsePacket_val_payload_le (bs : Bytes) (p : Packet) (h : (parsePacket none).val bs = .ok p) :
    p.payload.length ≤ bs.length := by
  unfold P.val at h
  cases e : parsePacket none ⟨bs, 0⟩ with
  | ok v =>
    obtain ⟨p', it'⟩ := v
    rw [e] at h
    cases h
    exact parsePacket_payload_le none ⟨bs, 0⟩ p it' e
  | err _ => rw [e] at h; cases h
  | panic => rw [e] at h; cases h

/-! ### how many data items a unit can yield -/

theorem parsePSISections_length (fuel : Nat) (it : It) (ss : List PSISection) (it' : It)
    (h : parsePSISections fuel it = .ok (ss, it')) : ss.length ≤ fuel := by
  induction fuel generalizing it ss it' with
  | zero => cases h
  | succ fuel ih =>
    unfold parsePSISections at h
    obtain ⟨more, i1, h1, h⟩ := bind_ok_inv h
    split at h
    · obtain ⟨⟨s, stop⟩, i2, h2, h⟩ := bind_ok_inv h
      dsimp only at h
      split at h
      · cases h; simp
      · obtain ⟨r, i3, h3, h⟩ := bind_ok_inv h
        cases h
        have := ih _ _ _ h3
        simp only [List.length_cons]; omega
    · cases h; simp

/-- `parsePSIData` returns at most `payload length + 1` sections (each loop iteration is paid for by the fuel, which
the model sets to the slice length + 1) -/
theorem parsePSIData_sections_le (payload : Bytes) (d : PSIData) (h : parsePSIData.val payload = .ok d) :
    d.sections.length ≤ payload.length + 1 := by
  unfold P.val at h
  cases e : parsePSIData ⟨payload, 0⟩ with
  | err _ => rw [e] at h; cases h
  | panic => rw [e] at h; cases h
  | ok v =>
    obtain ⟨d', it'⟩ := v
    rw [e] at h
    cases h
    unfold parsePSIData at e
    obtain ⟨b, i1, h1, e⟩ := bind_ok_inv e
    have e1 := Keeps_nextByte _ b i1 h1
    obtain ⟨u, i2, h2, e⟩ := bind_ok_inv e
    have e2 := Keeps_skip _ i1 u i2 h2
    obtain ⟨fuel, i3, h3, e⟩ := bind_ok_inv e
    obtain ⟨ss, i4, h4, e⟩ := bind_ok_inv e
    cases e
    cases h3
    have := parsePSISections_length _ _ _ _ h4
    rw [e2, e1] at this
    exact this

theorem flatten_length_le {α} (k : Nat) (ls : List (List α)) (h : ∀ l ∈ ls, l.length ≤ k) :
    ls.flatten.length ≤ k * ls.length := by
  induction ls with
  | nil => simp
  | cons l r ih =>
    have h1 := h l (List.mem_cons_self)
    have h2 := ih (fun x hx => h x (List.mem_cons_of_mem _ hx))
    simp only [List.flatten_cons, List.length_append, List.length_cons, Nat.mul_succ]
    omega

theorem psiToData_length (d : PSIData) (fp : Packet) (pid : Nat) : (psiToData d fp pid).length ≤ 2 * d.sections.length := by
  unfold psiToData
  have := flatten_length_le 2 (d.sections.map fun s =>
    match s.syn with
    | none => []
    | some syn => match syn.data, s.header with
      | some sd, some h =>
        let t := h.tableID
        let base : DemuxerData := { firstPacket := some fp, pid := pid }
        (if t = 0x40 ∨ t = 0x41 then [{ base with nit := sd.nit }]
         else if t = 0 then [{ base with pat := sd.pat }]
         else if t = 2 then [{ base with pmt := sd.pmt }]
         else if t = 0x42 ∨ t = 0x46 then [{ base with sdt := sd.sdt }]
         else if t = 0x73 then [{ base with tot := sd.tot }]
         else [])
        ++ (if isEIT t then [{ base with eit := sd.eit }] else [])
      | _, _ => []) (by
    intro l hl
    rw [List.mem_map] at hl
    obtain ⟨s, _, rfl⟩ := hl
    split
    · simp
    · split
      · dsimp only
        rw [List.length_append]
        have h1 : ∀ (a b c e f : DemuxerData) (c1 c2 c3 c4 c5 : Prop) [Decidable c1] [Decidable c2] [Decidable c3]
            [Decidable c4] [Decidable c5],
            (if c1 then [a] else if c2 then [b] else if c3 then [c] else if c4 then [e] else if c5 then [f]
              else ([] : List DemuxerData)).length ≤ 1 := by
          intros; repeat' split
          all_goals simp
        have h2 : ∀ (a : DemuxerData) (c : Prop) [Decidable c], (if c then [a] else ([] : List DemuxerData)).length ≤ 1 := by
          intros; split <;> simp
        have := h1; have := h2
        refine Nat.add_le_add (h1 ..) (h2 ..)
      · simp)
  rw [List.length_map] at this
  exact this

/-! ### costs -/

/-- the cost of a packet held by the pool: an upper bound on the data items it can contribute to a unit -/
def pcost (p : Packet) : Nat := 2 * p.payload.length + 3
def qcost (q : List Packet) : Nat := (q.map pcost).sum
def poolCost (pool : Pool) : Nat := (pool.map fun e => qcost e.2).sum

@[simp] theorem qcost_nil : qcost [] = 0 := rfl
@[simp] theorem qcost_cons (p : Packet) (q : List Packet) : qcost (p :: q) = pcost p + qcost q := by
  simp [qcost]
@[simp] theorem qcost_append (a b : List Packet) : qcost (a ++ b) = qcost a + qcost b := by
  simp [qcost]
@[simp] theorem poolCost_nil : poolCost [] = 0 := rfl
@[simp] theorem poolCost_cons (e : Nat × List Packet) (r : Pool) : poolCost (e :: r) = qcost e.2 + poolCost r := by
  simp [poolCost]

theorem qcost_eq (ps : List Packet) : qcost ps = 2 * (concatPayload ps).length + 3 * ps.length := by
  induction ps with
  | nil => rfl
  | cons p r ih =>
    rw [qcost_cons, ih]
    simp only [concatPayload, List.map_cons, List.flatten_cons, List.length_append, List.length_cons, pcost]
    omega

theorem qcost_pos (ps : List Packet) (h : ps ≠ []) : 3 ≤ qcost ps := by
  cases ps with
  | nil => exact absurd rfl h
  | cons p r => rw [qcost_cons]; unfold pcost; omega

/-- a unit yields at most as many data items as its cost -/
theorem parseData_items (ps : List Packet) (prs : ParserKind) (pm : ProgramMap) (ds : List DemuxerData)
    (h : parseData ps prs pm = .ok ds) (hne : ps ≠ []) : ds.length ≤ qcost ps := by
  have hpos := qcost_pos ps hne
  have hq := qcost_eq ps
  have hlen : 1 ≤ ps.length := by
    cases ps with
    | nil => exact absurd rfl hne
    | cons _ _ => simp
  unfold parseData at h
  cases prs with
  | failing => cases h
  | replacer => cases h; simp only [List.length_cons, List.length_nil]; omega
  | dropper => cases h; simp
  | none =>
    dsimp only at h
    split at h
    · cases h; simp
    · split at h
      · split at h
        · rename_i d hd
          cases h
          have h1 := psiToData_length d ⟨(ps.headD default).adaptationField, (ps.headD default).header, []⟩
            (ps.headD default).header.pid
          have h2 := parsePSIData_sections_le _ d hd
          omega
        · cases h
        · cases h
      · split at h
        · split at h
          · cases h; simp only [List.length_cons, List.length_nil]; omega
          · cases h
          · cases h
        · cases h; simp
  | observer =>
    dsimp only at h
    split at h
    · cases h; simp
    · split at h
      · split at h
        · rename_i d hd
          cases h
          have h1 := psiToData_length d ⟨(ps.headD default).adaptationField, (ps.headD default).header, []⟩
            (ps.headD default).header.pid
          have h2 := parsePSIData_sections_le _ d hd
          omega
        · cases h
        · cases h
      · split at h
        · split at h
          · cases h; simp only [List.length_cons, List.length_nil]; omega
          · cases h
          · cases h
        · cases h; simp

/-- `packetAccumulator.add` creates no cost: what is flushed plus what is kept costs at most the old queue plus the
new packet -/
theorem accAdd_cost (pm : ProgramMap) (pid : Nat) (q : List Packet) (p : Packet) :
    qcost (accAdd pm pid q p).1 + qcost (accAdd pm pid q p).2 ≤ qcost q + pcost p := by
  unfold accAdd
  split
  · simp
  · dsimp only
    split <;> split <;> split <;> simp <;> omega

theorem Pool.put_cost (pool : Pool) (pid : Nat) (q : List Packet) :
    poolCost (pool.put pid q) + qcost (pool.get pid) = poolCost pool + qcost q := by
  induction pool with
  | nil => simp [Pool.put, Pool.get]
  | cons x r ih =>
    obtain ⟨k, v⟩ := x
    unfold Pool.put Pool.get
    split
    · simp; omega
    · simp; omega

theorem poolAdd_cost (pm : ProgramMap) (pool : Pool) (p : Packet) :
    qcost (poolAdd pm pool p).1 + poolCost (poolAdd pm pool p).2 ≤ poolCost pool + pcost p := by
  unfold poolAdd
  split
  · simp
  · split
    · simp
    · dsimp only
      have h1 := accAdd_cost pm p.header.pid (pool.get p.header.pid) p
      have h2 := Pool.put_cost pool p.header.pid (accAdd pm p.header.pid (pool.get p.header.pid) p).2
      omega

theorem insertSorted_cost (e : Nat × List Packet) (l : Pool) : poolCost (insertSorted e l) = qcost e.2 + poolCost l := by
  induction l with
  | nil => simp [insertSorted]
  | cons x r ih =>
    unfold insertSorted
    split
    · simp
    · simp [ih]; omega

theorem sorted_cost (pool : Pool) : poolCost pool.sorted = poolCost pool := by
  unfold Pool.sorted
  induction pool with
  | nil => rfl
  | cons x r ih => rw [List.foldr_cons, insertSorted_cost, ih, poolCost_cons]

theorem poolDump_go_cost (l : Pool) : qcost (poolDump.go l).1 + poolCost (poolDump.go l).2 ≤ poolCost l := by
  induction l with
  | nil => simp [poolDump.go]
  | cons x r ih =>
    obtain ⟨k, q⟩ := x
    unfold poolDump.go
    split
    · simp; omega
    · simp

theorem poolDump_cost (pool : Pool) : qcost (poolDump pool).1 + poolCost (poolDump pool).2 ≤ poolCost pool := by
  have := poolDump_go_cost pool.sorted
  rw [sorted_cost] at this
  exact this

/-! ### the cost of the bytes still to be read -/

/-- reader cost: 3 per unread byte, 1 for a pending fault -/
def bc (r : Reader) : Nat := phi r + 3 * (r.data.length - r.pos)

/-- 3 per unread byte (a packet of `s ≥ 187` bytes costs at most `2·s + 3 ≤ 3·s`), 1 for a pending fault; before a
successful auto-detection on a seekable reader the whole data counts once more (the rewind to offset 0) -/
def byteCost (d : Demux) : Nat :=
  bc d.r + (if d.packetSize = none ∧ d.optPacketSize = 0 ∧ d.r.kind = .seek then 3 * d.r.data.length else 0)

/-- what a `NextPacket` result must be paid with: the packet's cost, 1 for an error, nothing for ErrNoMorePackets -/
def rcost : Res Packet → Nat
  | .ok p => pcost p
  | .err e => if e = .eof then 0 else 1
  | .panic => 1

/-- the same for `NextData`: 1 for everything but ErrNoMorePackets -/
def dcost : Res DemuxerData → Nat
  | .err e => if e = .eof then 0 else 1
  | _ => 1

theorem RF.bc {r : Reader} {n : Nat} {bs : Bytes} {e : Option ReadErr} {r' : Reader} (h : RF r n bs e r') :
    (e = none → Term.bc r' + 3 * n = Term.bc r ∧ bs.length = n) ∧
    (e = some .injected → Term.bc r' + 1 ≤ Term.bc r) ∧
    (e = some .eof → r' = r) ∧
    (e = some .unexpectedEOF → Term.bc r' ≤ Term.bc r) := by
  unfold Term.bc phi
  refine ⟨fun he => ?_, fun he => ?_, fun he => (h.adv.2.2.1 he).1, fun he => ?_⟩
  · obtain ⟨⟨hs, h1, h2, _⟩, h3, h4, h5⟩ := h.adv.1 he
    rw [h3, hs.data]
    exact ⟨by omega, h5⟩
  · obtain ⟨⟨hs, h1, h2, _⟩, h3, h4⟩ := h.adv.2.1 he
    rw [h4, hs.data, if_pos h3, if_neg (by omega)]
    omega
  · obtain ⟨⟨hs, _, h1, h2⟩, h3, h4⟩ := h.adv.2.2.2 he
    rw [h2, hs.data]
    omega

/-- `packetBuffer.next` pays for what it returns with the bytes it consumes -/
theorem BufferNextSem.cost {size : Nat} {d d' : Demux} {res : Res Packet} (h : BufferNextSem size d res d')
    (hs : 187 ≤ size) (ho : OneShot d.r) : bc d'.r + rcost res ≤ bc d.r := by
  induction h with
  | io d bs r' hrd =>
    have := readFull_RF d.r size (by omega) ho; rw [hrd] at this
    have := this.bc.2.1 rfl
    simp only [rcost]
    exact this
  | eof d bs e r' hrd hne =>
    have := readFull_RF d.r size (by omega) ho; rw [hrd] at this
    simp only [rcost, if_true, Nat.add_zero]
    cases e with
    | injected => exact absurd rfl hne
    | eof => have := this.bc.2.2.1 rfl; dsimp only at this ⊢; rw [this]; exact Nat.le_refl _
    | unexpectedEOF => exact this.bc.2.2.2 rfl
  | bad d bs r' e hrd hpp =>
    have := readFull_RF d.r size (by omega) ho; rw [hrd] at this
    have := (this.bc.1 rfl).1
    dsimp only at this ⊢
    have hr : rcost (Res.err (if e = Err.sync then Err.sync else Err.other) : Res Packet) = 1 := by
      by_cases hsy : e = Err.sync <;> simp [rcost, hsy]
    rw [hr]; omega
  | panic d bs r' hrd hpp =>
    have := readFull_RF d.r size (by omega) ho; rw [hrd] at this
    have := (this.bc.1 rfl).1
    dsimp only at this ⊢
    simp only [rcost]; omega
  | keep d bs r' p hrd hpp hsk =>
    have := readFull_RF d.r size (by omega) ho; rw [hrd] at this
    obtain ⟨h1, h2⟩ := this.bc.1 rfl
    have hpl := parsePacket_val_payload_le bs p hpp
    rw [consultSkipper_r]
    dsimp only at h1 h2 ⊢
    simp only [rcost, pcost]; omega
  | skip d bs r' p res d' hrd hpp hsk hrest ih =>
    have hrf := readFull_RF d.r size (by omega) ho; rw [hrd] at hrf
    obtain ⟨h1, h2⟩ := hrf.bc.1 rfl
    rw [consultSkipper_r] at ih
    have := ih ((hrf.adv.1 rfl).1.1.oneShot ho)
    dsimp only at h1 this
    omega

theorem AdvU.bc {k : Nat} {r r' : Reader} (h : AdvU k r r') : Term.bc r' + 1 ≤ Term.bc r := by
  obtain ⟨hs, h1, h2, h3⟩ := h
  unfold Term.bc phi
  rw [hs.data]
  rcases h3 with ⟨h4, h5, h6⟩ | ⟨h4, h5⟩
  · rw [h4]; omega
  · rw [h5, if_pos h4, if_neg (by omega)]; omega

/-- **`NextPacket` pays for what it returns** -/
theorem NextPacketSem.cost {d d' : Demux} {res : Res Packet} (h : NextPacketSem d res d') (hok : d.SizeOK)
    (ho : OneShot d.r) : byteCost d' + rcost res ≤ byteCost d := by
  obtain ⟨hopt, hps⟩ := hok
  cases h with
  | sized s _ _ hp hb =>
    have hc := hb.cost (hps s hp) ho
    have hfr := hb.frame
    unfold byteCost
    rw [if_neg (by rw [hfr.2.2.1, hp]; simp), if_neg (by rw [hp]; simp)]
    omega
  | opt _ _ hp hz hb =>
    have h187 : 187 ≤ d.optPacketSize := by
      rcases hopt with h0 | h1
      · exact absurd h0 hz
      · exact h1
    have hc := hb.cost h187 ho
    have hfr := hb.frame
    unfold byteCost
    rw [if_neg (by rw [hfr.2.2.1]; simp), if_neg (by intro h; exact hz h.2.1)]
    dsimp only at hc
    omega
  | detected s r' _ _ hp hz had hb =>
    have hAD := autoDetect_AD d.r ho
    rw [had] at hAD
    obtain ⟨h1, h2, hs, h3, h4, k1, k2, k3⟩ := hAD.ok_inv
    dsimp only at hs h3 k1 k2 k3
    have hc := hb.cost (by omega) (hs.oneShot ho)
    dsimp only at hc
    have hfr := hb.frame
    have hphi : phi r' = phi d.r := by unfold phi; rw [h3, hs.data]
    unfold byteCost
    rw [if_neg (by rw [hfr.2.2.1]; simp)]
    have hbc : Term.bc r' = phi d.r + 3 * (d.r.data.length - r'.pos) := by unfold Term.bc; rw [hphi, hs.data]
    have hbc0 : Term.bc d.r = phi d.r + 3 * (d.r.data.length - d.r.pos) := rfl
    by_cases hk1 : d.r.kind = .seek
    · rw [if_pos ⟨hp, hz, hk1⟩]
      have := k1 hk1
      rw [this] at hbc
      omega
    · rw [if_neg (by intro h; exact hk1 h.2.2)]
      by_cases hk2 : d.r.kind = .bufio
      · have := k2 hk2
        rw [this] at hbc
        omega
      · have := k3 hk1 hk2
        rw [this.1] at hbc
        omega
  | detectErr e r' hp hz had =>
    have hAD := autoDetect_AD d.r ho
    rw [had] at hAD
    unfold byteCost
    by_cases he : e = .eof
    · have := (hAD.err_inv.1 he).1
      dsimp only at this ⊢
      rw [this, he]
      simp only [rcost, if_true]
      omega
    · have hadv := hAD.err_inv.2 he
      dsimp only at hadv ⊢
      have := hadv.bc
      rw [hadv.1.kind, hadv.1.data]
      simp only [rcost, if_neg he]
      omega

/-! ### the total measure of `NextData` -/

/-- **the total termination measure of `NextData`**: buffered items + cost of the packets in the pool + cost of the
unread bytes.  Every call that does not return ErrNoMorePackets lowers it by at least one. -/
def totalMeasure (d : Demux) : Nat := d.dataBuffer.length + poolCost d.pool + byteCost d

theorem srcSame_byteCost {d d' : Demux} (h : SrcSame d d') : byteCost d' = byteCost d := by
  unfold byteCost; rw [h.r, h.opt, h.packetSize]

/-- a flushed unit pays for the items it yields (and for being reported as an error) -/
theorem group_cost (d : Demux) (ps : List Packet) (hne : ps.isEmpty = false) :
    (d.group ps).2.dataBuffer.length + (if (d.group ps).1.isSome then 1 else 0) ≤ d.dataBuffer.length + qcost ps := by
  have hne' : ps ≠ [] := by intro h; rw [h] at hne; cases hne
  have hpos := qcost_pos ps hne'
  rw [group_eq, logParser_eq]
  cases hpd : parseData ps d.parser d.programMap with
  | panic => dsimp only; simp only [Option.isSome_some, if_true]; omega
  | err e => dsimp only; simp only [Option.isSome_some, if_true]; omega
  | ok ds =>
    have := parseData_items ps d.parser d.programMap ds hpd hne'
    dsimp only
    cases ds with
    | nil => simp
    | cons x r =>
      simp only [List.head?_cons, Option.map_some, Option.isSome_some, if_true, List.tail_cons, List.length_append]
      simp only [List.length_cons] at this
      omega

theorem feed_cost (d : Demux) (p : Packet) :
    (d.feed p).2.dataBuffer.length + poolCost (d.feed p).2.pool + (if (d.feed p).1.isSome then 1 else 0) ≤
      d.dataBuffer.length + poolCost d.pool + pcost p := by
  have hpa := poolAdd_cost d.programMap d.pool p
  have hpool := feed_pool d p
  rw [hpool]
  unfold Demux.feed
  split
  · dsimp only
    simp only [Option.isSome_none, Bool.false_eq_true, if_false]
    omega
  · rename_i hne
    have hne' : (poolAdd d.programMap d.pool p).1.isEmpty = false := by simpa using hne
    have := group_cost { d with pool := (poolAdd d.programMap d.pool p).2 } (poolAdd d.programMap d.pool p).1 hne'
    dsimp only at this
    omega

theorem DrainSem.cost {d d' : Demux} {res : Res DemuxerData} (h : DrainSem d res d') :
    d'.dataBuffer.length + poolCost d'.pool + dcost res ≤ d.dataBuffer.length + poolCost d.pool := by
  induction h with
  | done d he =>
    have := poolDump_cost d.pool
    simp only [dcost, if_true]
    omega
  | data d x d' he hg =>
    have hc := group_cost { d with pool := (poolDump d.pool).2 } (poolDump d.pool).1 he
    have hp := group_pool { d with pool := (poolDump d.pool).2 } (poolDump d.pool).1
    have := poolDump_cost d.pool
    rw [hg] at hc hp
    dsimp only at hc hp
    rw [hp]
    simp only [Option.isSome_some, if_true] at hc
    simp only [dcost]
    omega
  | panic d d' he hg =>
    have hc := group_cost { d with pool := (poolDump d.pool).2 } (poolDump d.pool).1 he
    have hp := group_pool { d with pool := (poolDump d.pool).2 } (poolDump d.pool).1
    have := poolDump_cost d.pool
    rw [hg] at hc hp
    dsimp only at hc hp
    rw [hp]
    simp only [Option.isSome_some, if_true] at hc
    simp only [dcost]
    omega
  | failed d e d1 res d' he hg hrest ih =>
    have hc := group_cost { d with pool := (poolDump d.pool).2 } (poolDump d.pool).1 he
    have hp := group_pool { d with pool := (poolDump d.pool).2 } (poolDump d.pool).1
    have := poolDump_cost d.pool
    rw [hg] at hc hp
    dsimp only at hc hp
    rw [hp] at ih
    omega
  | empty d d1 res d' he hg hrest ih =>
    have hc := group_cost { d with pool := (poolDump d.pool).2 } (poolDump d.pool).1 he
    have hp := group_pool { d with pool := (poolDump d.pool).2 } (poolDump d.pool).1
    have := poolDump_cost d.pool
    rw [hg] at hc hp
    dsimp only at hc hp
    rw [hp] at ih
    omega

theorem DataLoopSem.cost {d d' : Demux} {res : Res DemuxerData} (h : DataLoopSem d res d') (hg : Good d) :
    totalMeasure d' + dcost res ≤ totalMeasure d := by
  induction h with
  | eof d d1 res d' hnp hdr =>
    have hc := hnp.cost hg.1 hg.2
    have hfr := hnp.frame.1
    have hd := hdr.cost
    have hs := hdr.facts.1
    unfold totalMeasure
    rw [srcSame_byteCost hs]
    rw [hfr.pool, hfr.dataBuffer] at hd
    simp only [rcost, if_true] at hc
    omega
  | err d e d1 hnp hne =>
    have hc := hnp.cost hg.1 hg.2
    have hfr := hnp.frame.1
    unfold totalMeasure
    rw [hfr.pool, hfr.dataBuffer]
    simp only [rcost, dcost, if_neg hne] at hc ⊢
    omega
  | panic d d1 hnp =>
    have hc := hnp.cost hg.1 hg.2
    have hfr := hnp.frame.1
    unfold totalMeasure
    rw [hfr.pool, hfr.dataBuffer]
    simp only [rcost, dcost] at hc ⊢
    omega
  | out d p d1 x d' hnp hfd =>
    have hc := hnp.cost hg.1 hg.2
    have hfr := hnp.frame.1
    have hf := feed_cost d1 p
    have hs := feed_src d1 p
    rw [hfd] at hf hs
    dsimp only at hf hs
    simp only [Option.isSome_some, if_true] at hf
    have hdc : dcost x ≤ 1 := by
      unfold dcost; split
      · split <;> omega
      · omega
    unfold totalMeasure
    rw [srcSame_byteCost hs]
    rw [hfr.pool, hfr.dataBuffer] at hf
    simp only [rcost] at hc
    omega
  | next d p d1 d2 res d' hnp hfd hrest ih =>
    have hc := hnp.cost hg.1 hg.2
    have hfr := hnp.frame.1
    have hf := feed_cost d1 p
    have hs := feed_src d1 p
    rw [hfd] at hf hs
    dsimp only at hf hs
    have := ih (srcSame_good hs (hnp.good hg))
    have h2 : totalMeasure d2 ≤ totalMeasure d := by
      unfold totalMeasure
      rw [srcSame_byteCost hs]
      rw [hfr.pool, hfr.dataBuffer] at hf
      simp only [rcost] at hc
      omega
    omega

/-- **every `NextData` call that does not return ErrNoMorePackets lowers the total measure** -/
theorem NextDataSem.cost {d d' : Demux} {res : Res DemuxerData} (h : NextDataSem d res d') (hg : Good d) :
    totalMeasure d' + dcost res ≤ totalMeasure d := by
  cases h with
  | buffered x rest hb =>
    unfold totalMeasure
    rw [hb]
    simp only [dcost, List.length_cons]
    have : byteCost { d with dataBuffer := rest } = byteCost d := rfl
    omega
  | loop _ _ hb hl => exact hl.cost hg

/-- **bounded termination of `NextData`, all calls counted**: within `totalMeasure d` calls ErrNoMorePackets is
returned, and by every later call -/
theorem data_terminate_total (d : Demux) (hg : Good d) :
    ∃ n, n ≤ totalMeasure d ∧ (∀ k, k < n → (afterData d k).nextData.1 ≠ .err .eof) ∧
      ∀ m, n ≤ m → (afterData d m).nextData.1 = .err .eof := by
  generalize hM : totalMeasure d = M
  induction M using Nat.strongRecOn generalizing d with
  | _ M ih =>
    have hsem := nextData_sem d hg
    obtain ⟨f1, f2, f3⟩ := hsem.facts hg
    have hc := hsem.cost hg
    by_cases he : d.nextData.1 = .err .eof
    · refine ⟨0, Nat.zero_le _, fun k hk => absurd hk (Nat.not_lt_zero _), fun m _ => ?_⟩
      have hb : d.dataBuffer = [] := by
        cases hdb : d.dataBuffer with
        | nil => rfl
        | cons x r => exact absurd he (f2 (by rw [hdb]; simp)).1
      cases m with
      | zero => exact he
      | succ m => exact afterData_done _ f1 ((f3 hb).2 he) m
    · have h1 : dcost d.nextData.1 = 1 := by
        unfold dcost
        split
        · rename_i e heq
          rw [if_neg (by intro hc; apply he; rw [heq, hc])]
        · rfl
      obtain ⟨n, hn, hbefore, hafter⟩ := ih _ (by omega) d.nextData.2 f1 rfl
      refine ⟨n + 1, by omega, fun k hk => ?_, fun m hm => ?_⟩
      · cases k with
        | zero => exact he
        | succ k => exact hbefore k (by omega)
      · cases m with
        | zero => omega
        | succ m => exact hafter m (by omega)

/-- the total measure of an initial state (nothing buffered, empty pool) in terms of the input length -/
theorem totalMeasure_init (d : Demux) (hp : d.pool = []) (hb : d.dataBuffer = []) :
    totalMeasure d ≤ 6 * d.r.data.length + 1 ∧
    (d.packetSize ≠ none ∨ d.optPacketSize ≠ 0 ∨ d.r.kind ≠ .seek → totalMeasure d ≤ 3 * d.r.data.length + 1) := by
  have := phi_le d.r
  unfold totalMeasure byteCost Term.bc
  rw [hp, hb]
  simp only [List.length_nil, poolCost_nil]
  refine ⟨by split <;> omega, fun hc => ?_⟩
  rw [if_neg (by intro h; rcases hc with h1 | h1 | h1; exact h1 h.1; exact h1 h.2.1; exact h1 h.2.2)]
  omega

end Astits.Term
